import Comdex.Lemmas.LiqSupply
/-!
The swap-fee collector of a pair (C07 / C04): in every step of the model the balance of `PairSwapFeeCollectorAddress(app, pair)`
changes by exactly the swap fee attributable to the executed portion of the orders of that pair that ENDED in the step
(`FeeEq`): per message, and per batch (expiry pre-pass, completed fills, expiry / too-small sweep).  Nothing else in the
liquidity module's messages and block hooks pays into or out of it.  With the escrow identity (`Inv.pairEsc`) and the per-order
ledger (`Inv.ords`) this closes the batch ledger: what leaves the pair escrow for an ended order is refund + forwarded fee =
remaining + reserve.  Core Lean only.
-/
namespace Comdex.LiqLedger

/-! ### states that agree on every swap-fee collector balance -/

def SfSame (s s' : State) : Prop := ∀ a p d, s'.bal (.swapFee a p) d = s.bal (.swapFee a p) d

theorem SfSame.refl (s : State) : SfSame s s := fun _ _ _ => rfl

theorem SfSame.trans {s1 s2 s3 : State} (h1 : SfSame s1 s2) (h2 : SfSame s2 s3) : SfSame s1 s3 :=
  fun a p d => (h2 a p d).trans (h1 a p d)

theorem SfSame.of_bank {s s' : State} (h : s'.bank = s.bank) : SfSame s s' := by
  intro a p d; simp [State.bal, h]

theorem sf_send {s s' : State} {f t : Acct} {d : Denom} {n : Nat} (hf : ∀ a p, f ≠ .swapFee a p) (ht : ∀ a p, t ≠ .swapFee a p)
    (h : s.send f t d n = some s') : SfSame s s' := by
  intro a p d'
  by_cases hft : f = t
  · -- a send to oneself: the bank is rewritten with the same values
    subst hft
    unfold State.send at h
    cases hb : s.bank.send f f d n with
    | none => simp [hb] at h
    | some b' =>
      simp [hb] at h
      subst h
      unfold Bank.send at hb
      split at hb
      · simp only [Option.some.injEq] at hb
        subst hb
        have n1 : ¬ ((f, d) = (Acct.swapFee a p, d')) := fun e => hf a p (Prod.mk.inj e).1
        simp [State.bal, Bank.get_set, n1]
      · cases hb
  · obtain ⟨-, -, b⟩ := State.send_some hft h
    rw [b]
    have n1 : ¬ (Acct.swapFee a p = t ∧ d' = d) := fun e => ht a p e.1.symm
    have n2 : ¬ (Acct.swapFee a p = f ∧ d' = d) := fun e => hf a p e.1.symm
    simp [n1, n2]

macro "nsf" : tactic => `(tactic| (intro _ _; simp))

theorem sf_fold {α : Type} {f : State → α → Option State} (hf : ∀ s x s', f s x = some s' → SfSame s s') :
    ∀ (l : List α) (s s' : State), foldOpt f s l = some s' → SfSame s s' := by
  intro l
  induction l with
  | nil => intro s s' h; simp [foldOpt] at h; subst h; exact SfSame.refl _
  | cons x t ih =>
    intro s s' h
    simp only [foldOpt] at h
    cases hx : f s x with
    | none => simp [hx] at h
    | some s1 => simp [hx] at h; exact (hf s x s1 hx).trans (ih s1 s' h)

theorem sf_createPair {cfg : Cfg} {s s' : State} {app creator : Nat} {base quote : Denom} {ext : Bool}
    (h : createPair cfg s app creator base quote ext = some s') : SfSame s s' := by
  unfold createPair at h
  split at h; · cases h
  split at h; · cases h
  split at h; · cases h
  split at h; · cases h
  split at h; · cases h
  rename_i s1 h1
  cases h
  exact (sf_send (by nsf) (by nsf) h1).trans (SfSame.of_bank rfl)

theorem sf_add_module (s : State) (d : Denom) (n : Nat) (s' : State) (h : s'.bank = s.bank.add .module d n) : SfSame s s' := by
  intro a p d'
  simp [State.bal, h, Bank.get_add]

theorem sf_createPool {cfg : Cfg} {s s' : State} {app creator pair : Nat} {ranged : Bool} {dx dy ammPs : Nat} {ext : Bool}
    (h : createPool cfg s app creator pair ranged dx dy ammPs ext = some s') : SfSame s s' := by
  unfold createPool at h
  split at h; · cases h
  split at h; · cases h
  split at h; · cases h
  split at h; · cases h
  simp only [] at h
  split at h; · cases h
  split at h; · cases h
  split at h; · cases h
  split at h; · cases h
  split at h; · cases h
  rename_i s1 h1
  split at h; · cases h
  rename_i s2 h2
  split at h; · cases h
  rename_i s3 h3
  exact (sf_send (by nsf) (by nsf) h1).trans ((sf_send (by nsf) (by nsf) h2).trans ((sf_send (by nsf) (by nsf) h3).trans
    ((sf_add_module s3 _ _ _ rfl).trans (sf_send (by nsf) (by nsf) h))))

theorem sf_depositReq {cfg : Cfg} {s s' : State} {app user pool dx dy : Nat} {ext : Bool} {id : Nat}
    (h : depositReq cfg s app user pool dx dy ext = some (s', id)) : SfSame s s' := by
  unfold depositReq at h
  split at h; · cases h
  split at h; · cases h
  split at h; · cases h
  split at h; · cases h
  split at h; · cases h
  split at h; · cases h
  split at h; · cases h
  rename_i s1 h1
  split at h; · cases h
  rename_i s2 h2
  simp only [Option.some.injEq, Prod.mk.injEq] at h
  obtain ⟨h, -⟩ := h
  subst h
  exact (sf_send (by nsf) (by nsf) h1).trans ((sf_send (by nsf) (by nsf) h2).trans (SfSame.of_bank rfl))

theorem sf_withdrawReq {cfg : Cfg} {s s' : State} {app user pool pc : Nat} {ext : Bool} {id : Nat}
    (h : withdrawReq cfg s app user pool pc ext = some (s', id)) : SfSame s s' := by
  unfold withdrawReq at h
  split at h; · cases h
  split at h; · cases h
  split at h; · cases h
  split at h; · cases h
  split at h; · cases h
  split at h; · cases h
  rename_i s1 h1
  simp only [Option.some.injEq, Prod.mk.injEq] at h
  obtain ⟨h, -⟩ := h
  subst h
  exact (sf_send (by nsf) (by nsf) h1).trans (SfSame.of_bank rfl)

theorem sf_failDep {s s' : State} {r : DepReq} (h : failDep s r = some s') : SfSame s s' := by
  unfold failDep at h
  split at h; · cases h
  rename_i s1 h1
  split at h; · cases h
  rename_i s2 h2
  cases h
  exact (sf_send (by nsf) (by nsf) h1).trans ((sf_send (by nsf) (by nsf) h2).trans (SfSame.of_bank rfl))

theorem sf_execDeposit {s s' : State} {a pl i ax ay pc : Nat} (h : execDeposit s a pl i ax ay pc = some s') : SfSame s s' := by
  unfold execDeposit at h
  split at h; · cases h
  split at h; · cases h; exact SfSame.refl _
  split at h; · cases h
  split at h; · exact sf_failDep h
  split at h; · cases h
  split at h; · exact SfSame.trans (s2 := s.modPool a pl fun q => { q with disabled := true }) (SfSame.of_bank rfl) (sf_failDep h)
  split at h; · exact sf_failDep h
  split at h; · cases h
  simp only [] at h
  split at h; · cases h
  rename_i s2 h2
  split at h; · cases h
  rename_i s3 h3
  split at h; · cases h
  rename_i s4 h4
  split at h; · cases h
  rename_i s5 h5
  split at h; · cases h
  rename_i s6 h6
  cases h
  exact (sf_add_module s _ _ (s.mint a pl pc) rfl).trans ((sf_send (by nsf) (by nsf) h2).trans ((sf_send (by nsf) (by nsf) h3).trans
    ((sf_send (by nsf) (by nsf) h4).trans ((sf_send (by nsf) (by nsf) h5).trans ((sf_send (by nsf) (by nsf) h6).trans (SfSame.of_bank rfl))))))

theorem sf_failWdr {s s' : State} {r : WdrReq} (h : failWdr s r = some s') : SfSame s s' := by
  unfold failWdr at h
  split at h; · cases h
  rename_i s1 h1
  cases h
  exact (sf_send (by nsf) (by nsf) h1).trans (SfSame.of_bank rfl)

theorem sf_burn {s s' : State} {a p n : Nat} (h : s.burn a p n = some s') : SfSame s s' := by
  unfold State.burn at h
  split at h
  · split at h; · cases h
    split at h
    · cases h
      intro a' p' d
      simp [State.bal, Bank.get_set]
    · cases h
  · cases h

theorem sf_execWithdraw {s s' : State} {a pl i x y : Nat} (h : execWithdraw s a pl i x y = some s') : SfSame s s' := by
  unfold execWithdraw at h
  split at h; · cases h
  split at h; · cases h; exact SfSame.refl _
  split at h; · cases h
  split at h; · exact sf_failWdr h
  split at h; · cases h
  split at h; · exact SfSame.trans (s2 := s.modPool a pl fun q => { q with disabled := true }) (SfSame.of_bank rfl) (sf_failWdr h)
  split at h; · exact sf_failWdr h
  split at h; · cases h
  rename_i s1 h1
  split at h; · cases h
  rename_i s2 h2
  split at h; · cases h
  rename_i s3 h3
  split at h; · cases h
  rename_i s4 h4
  cases h
  refine (sf_send (by nsf) (by nsf) h1).trans ((sf_send (by nsf) (by nsf) h2).trans ((sf_send (by nsf) (by nsf) h3).trans
    ((sf_burn h4).trans ?_)))
  apply SfSame.of_bank
  show (if _ then _ else s4).bank = s4.bank
  split <;> rfl

theorem sf_farm {cfg : Cfg} {s s' : State} {app user pool amt : Nat} {ext : Bool} (h : farm cfg s app user pool amt ext = some s') :
    SfSame s s' := by
  unfold farm at h
  split at h; · cases h
  split at h; · cases h
  split at h; · cases h
  split at h; · cases h
  split at h; · cases h
  rename_i s1 h1
  split at h <;> (cases h; exact (sf_send (by nsf) (by nsf) h1).trans (SfSame.of_bank rfl))

theorem sf_unfarm {cfg : Cfg} {s s' : State} {app user pool amt : Nat} {ext : Bool} (h : unfarm cfg s app user pool amt ext = some s') :
    SfSame s s' := by
  unfold unfarm at h
  split at h; · cases h
  split at h; · cases h
  split at h; · cases h
  split at h; · cases h
  split at h; · cases h
  split at h; · cases h
  simp only [] at h
  split at h; · cases h
  split at h; · cases h
  rename_i s1 h1
  cases h
  exact (sf_send (by nsf) (by nsf) h1).trans (SfSame.of_bank rfl)

theorem sf_depositAndFarm {cfg : Cfg} {s s' : State} {app user pool dx dy ax ay pc : Nat} {ext : Bool}
    (h : depositAndFarm cfg s app user pool dx dy ax ay pc ext = some s') : SfSame s s' := by
  unfold depositAndFarm at h
  split at h; · cases h
  rename_i s1 id h1
  split at h; · cases h
  rename_i s2 h2
  split at h; · cases h
  split at h; · cases h
  exact (sf_depositReq h1).trans ((sf_execDeposit h2).trans (sf_farm h))

theorem sf_unfarmAndWithdraw {cfg : Cfg} {s s' : State} {app user pool amt x y : Nat} {ext : Bool}
    (h : unfarmAndWithdraw cfg s app user pool amt x y ext = some s') : SfSame s s' := by
  unfold unfarmAndWithdraw at h
  split at h; · cases h
  rename_i s1 h1
  split at h; · cases h
  rename_i s2 id h2
  exact (sf_unfarm h1).trans ((sf_withdrawReq h2).trans (sf_execWithdraw h))

theorem sf_migrate {cfg : Cfg} {s s' : State} (h : migrate cfg s = some s') : SfSame s s' := by
  unfold migrate at h
  split at h
  · cases h; exact SfSame.of_bank rfl
  · cases h

theorem sf_credit_ghost (s : State) (g : Acct) (d : Denom) (n : Nat) (hg : ∀ a p, g ≠ .swapFee a p) : SfSame s (s.credit g d n) := by
  intro a p d'
  rw [State.bal_credit]
  have : ¬ (g = Acct.swapFee a p ∧ d = d') := fun e => hg a p e.1
  simp [this]

theorem sf_poolPayIn {p : Pair} {s s' : State} {f : PoolFlow} (h : poolPayIn p s f = some s') : SfSame s s' := by
  unfold poolPayIn at h
  simp only [] at h
  split at h; · cases h
  rename_i s1 h1
  cases h
  exact (sf_send (by nsf) (by nsf) h1).trans (sf_credit_ghost _ _ _ _ (by nsf))

theorem sf_poolPayOut {p : Pair} {s s' : State} {f : PoolFlow} (h : poolPayOut p s f = some s') : SfSame s s' := by
  unfold poolPayOut at h
  simp only [] at h
  split at h; · cases h
  rename_i s1 h1
  cases h
  exact (sf_send (by nsf) (by nsf) h1).trans (sf_credit_ghost _ _ _ _ (by nsf))

theorem sf_fillPayOut {p : Pair} {s s' : State} {f : Fill} (h : fillPayOut p s f = some s') : SfSame s s' := by
  unfold fillPayOut at h
  simp only [] at h
  split at h; · cases h
  split at h; · cases h
  rename_i s1 h1
  cases h
  exact (sf_send (by nsf) (by nsf) h1).trans (sf_credit_ghost _ _ _ _ (by nsf))

/-! ### the fee forwarded for ended orders -/

/-- the fee `FinishOrder` forwards is the fee on the executed portion — no hypothesis needed -/
theorem settle_fwd (rate : Nat) (o : Order) : (settle rate o).2 = fwdSpec rate o := by
  unfold settle fwdSpec
  by_cases hm : o.typ = .mm
  · simp [hm]
  · simp only [hm, if_false]
    by_cases hpos : o.remaining > 0
    · simp only [hpos, if_true]
      by_cases heq : o.remaining = o.offer
      · simp [heq, feeOf_zero]
      · simp [heq]
    · have h0 : o.remaining = 0 := by omega
      simp [h0]

def fwdTerm (cfg : Cfg) (a p : Nat) (d : Denom) (o : Order) : Nat :=
  if o.app = a ∧ o.pair = p ∧ o.od = d ∧ o.status.live = false then fwdSpec (rateOf cfg o.app) o else 0

/-- swap fee attributable to the executed portions of the ENDED orders of pair `(a, p)` with offer denom `d` that are on record -/
def fwdSum (cfg : Cfg) (a p : Nat) (d : Denom) (l : List Order) : Nat := sumOver (fwdTerm cfg a p d) l

/-- the swap-fee collector's balance moved by exactly the fee of the orders that ended -/
def FeeEq (cfg : Cfg) (a p : Nat) (d : Denom) (s s' : State) : Prop :=
  s'.bal (.swapFee a p) d + fwdSum cfg a p d s.orders = s.bal (.swapFee a p) d + fwdSum cfg a p d s'.orders

theorem FeeEq.refl (cfg : Cfg) (a p : Nat) (d : Denom) (s : State) : FeeEq cfg a p d s s := rfl

theorem FeeEq.trans {cfg : Cfg} {a p : Nat} {d : Denom} {s1 s2 s3 : State} (h1 : FeeEq cfg a p d s1 s2) (h2 : FeeEq cfg a p d s2 s3) :
    FeeEq cfg a p d s1 s3 := by
  unfold FeeEq at *; omega

theorem FeeEq.of_same {cfg : Cfg} {a p : Nat} {d : Denom} {s s' : State} (hb : SfSame s s') (ho : s'.orders = s.orders) :
    FeeEq cfg a p d s s' := by
  unfold FeeEq; rw [hb a p d, ho]

theorem fe_fold {α : Type} {cfg : Cfg} {a p : Nat} {d : Denom} {f : State → α → Option State}
    (hf : ∀ s x s', f s x = some s' → FeeEq cfg a p d s s') :
    ∀ (l : List α) (s s' : State), foldOpt f s l = some s' → FeeEq cfg a p d s s' := by
  intro l
  induction l with
  | nil => intro s s' h; simp [foldOpt] at h; subst h; exact FeeEq.refl _ _ _ _ _
  | cons x t ih =>
    intro s s' h
    simp only [foldOpt] at h
    cases hx : f s x with
    | none => simp [hx] at h
    | some s1 => simp [hx] at h; exact (hf s x s1 hx).trans (ih s1 s' h)

/-- **`FinishOrder`**: the collector of the order's pair receives exactly the fee on the executed portion, in the offer denom;
no other collector balance moves -/
theorem fe_finishOrder {cfg : Cfg} {a p : Nat} {d : Denom} {s s' : State} {k : OKey} {st : OStatus} (hst : st.live = false)
    (h : finishOrder cfg s k st = some s') : FeeEq cfg a p d s s' := by
  unfold finishOrder at h
  split at h; · cases h
  rename_i o ho
  split at h; · cases h; exact FeeEq.refl _ _ _ _ _
  rename_i hl
  have hlive : o.status.live = true := by simpa using hl
  split at h; · cases h
  rename_i ac hac
  simp only [] at h
  split at h; · cases h
  rename_i s1 h1
  split at h; · cases h
  rename_i s2 h2
  cases h
  have g1 := sf_send (by nsf) (by nsf) h1 a p d
  obtain ⟨-, -, b2⟩ := State.send_some (by simp) h2
  have hord : s2.orders = s.orders := by rw [(State.send_fields h2).2.2.2.2.1, (State.send_fields h1).2.2.2.2.1]
  have hs := sumOver_modBy (fwdTerm cfg a p d)
    (fun o' => { o' with status := st, refunded := (settle ac.feeRate o).1, feeFwd := (settle ac.feeRate o).2 }) ho
  have z1 : fwdTerm cfg a p d o = 0 := by simp [fwdTerm, hlive]
  rw [z1] at hs
  have e2 : (settle ac.feeRate o).2 = fwdSpec ac.feeRate o := settle_fwd _ _
  have hrate := rateOf_of_app hac
  have hb : s2.bal (.swapFee a p) d =
      s.bal (.swapFee a p) d + (if o.app = a ∧ o.pair = p ∧ o.od = d then (settle ac.feeRate o).2 else 0) := by
    rw [b2, ← g1]
    by_cases hc : o.app = a ∧ o.pair = p ∧ o.od = d
    · obtain ⟨rfl, rfl, rfl⟩ := hc
      simp
    · have hne : ¬ (Acct.swapFee a p = Acct.swapFee o.app o.pair ∧ d = o.od) := by
        intro hh
        simp only [Acct.swapFee.injEq] at hh
        exact hc ⟨hh.1.1.symm, hh.1.2.symm, hh.2.symm⟩
      have hne2 : ¬ (Acct.swapFee a p = Acct.pairEscrow o.app o.pair ∧ d = o.od) := by simp
      rw [if_neg hne, if_neg hne2, if_neg hc]
      simp
  unfold FeeEq fwdSum
  show s2.bal (.swapFee a p) d + _ = _ + sumOver _ (modBy _ _ s2.orders)
  rw [hord, hb]
  by_cases hc : o.app = a ∧ o.pair = p ∧ o.od = d
  · have z2 : fwdTerm cfg a p d { o with status := st, refunded := (settle ac.feeRate o).1, feeFwd := (settle ac.feeRate o).2 }
        = fwdSpec ac.feeRate o := by
      have hrate' : rateOf cfg a = ac.feeRate := by rw [← hc.1]; exact hrate
      simp [fwdTerm, hst, hrate', fwdSpec, hc.1, hc.2.1, hc.2.2]
    rw [z2] at hs
    rw [if_pos hc]
    omega
  · have z2 : fwdTerm cfg a p d { o with status := st, refunded := (settle ac.feeRate o).1, feeFwd := (settle ac.feeRate o).2 } = 0 := by
      simp only [fwdTerm]
      rw [if_neg]; intro hh; exact hc ⟨hh.1, hh.2.1, hh.2.2.1⟩
    rw [z2] at hs
    rw [if_neg hc]
    omega

theorem fwdSum_modO {cfg : Cfg} {a p : Nat} {d : Denom} {l : List Order} (k : OKey) (g : Order → Order)
    (hz : ∀ x, findBy (isO k) l = some x → fwdTerm cfg a p d (g x) = fwdTerm cfg a p d x) :
    fwdSum cfg a p d (modBy (isO k) g l) = fwdSum cfg a p d l := by
  unfold fwdSum
  cases hx : findBy (isO k) l with
  | none => rw [modBy_of_none hx]
  | some x =>
    have := sumOver_modBy (fwdTerm cfg a p d) g hx
    rw [hz x hx] at this
    omega

theorem fwdSum_append_live {cfg : Cfg} {a p : Nat} {d : Denom} (l ns : List Order) (hl : ∀ o ∈ ns, o.status.live = true) :
    fwdSum cfg a p d (l ++ ns) = fwdSum cfg a p d l := by
  unfold fwdSum
  rw [sumOver_append]
  have : sumOver (fwdTerm cfg a p d) ns = 0 := by
    induction ns with
    | nil => rfl
    | cons x t ih =>
      have hx : fwdTerm cfg a p d x = 0 := by simp [fwdTerm, hl x (by simp)]
      simp [sumOver, hx, ih (fun o ho => hl o (by simp [ho]))]
  omega

theorem fe_placeOrder {cfg : Cfg} {a p : Nat} {d : Denom} {s s' : State} {app user pair : Nat} {typ : OType} {buy : Bool}
    {msgOffer msgPrice price amount : Nat} {lifespan : Int} {ext : Bool}
    (h : placeOrder cfg s app user pair typ buy msgOffer msgPrice price amount lifespan ext = some s') : FeeEq cfg a p d s s' := by
  unfold placeOrder at h
  split at h; · cases h
  split at h; · cases h
  split at h; · cases h
  split at h; · cases h
  split at h; · cases h
  simp only [] at h
  split at h; · cases h
  split at h; · cases h
  split at h; · cases h
  split at h; · cases h
  split at h; · cases h
  split at h; · cases h
  rename_i s1 h1
  cases h
  have g1 := sf_send (by nsf) (by nsf) h1 a p d
  unfold FeeEq
  show s1.bal _ _ + _ = _ + fwdSum cfg a p d (s1.orders ++ _)
  rw [g1, (State.send_fields h1).2.2.2.2.1, fwdSum_append_live]
  intro o ho
  simp only [List.mem_singleton] at ho
  subst ho; rfl

theorem fe_cancelOrder {cfg : Cfg} {a p : Nat} {d : Denom} {s s' : State} {app user pair id : Nat}
    (h : cancelOrder cfg s app user pair id = some s') : FeeEq cfg a p d s s' := by
  unfold cancelOrder at h
  split at h; · cases h
  split at h; · cases h
  split at h; · cases h
  split at h; · cases h
  split at h; · cases h
  split at h; · cases h
  split at h; · cases h
  exact fe_finishOrder rfl h

theorem fe_cancelAll {cfg : Cfg} {a p : Nat} {d : Denom} {s s' : State} {app user : Nat} {pairs : List Nat}
    (h : cancelAll cfg s app user pairs = some s') : FeeEq cfg a p d s s' := by
  unfold cancelAll at h
  split at h; · cases h
  split at h; · cases h
  split at h; · cases h
  refine fe_fold (fun s x s' hs => ?_) _ _ _ h
  unfold cancelAllStep at hs
  split at hs
  · cases hs; exact FeeEq.refl _ _ _ _ _
  · split at hs
    · split at hs
      · cases hs; exact FeeEq.refl _ _ _ _ _
      · split at hs
        · exact fe_finishOrder rfl hs
        · cases hs; exact FeeEq.refl _ _ _ _ _
    · cases hs; exact FeeEq.refl _ _ _ _ _

theorem fe_cancelMMCore {cfg : Cfg} {a p : Nat} {d : Denom} {s s' : State} {app user : Nat} {pp : Pair} {skip : Bool}
    (h : cancelMMCore cfg s app user pp skip = some s') : FeeEq cfg a p d s s' := by
  unfold cancelMMCore at h
  split at h
  · split at h
    · cases h
    · rename_i s1 h1
      cases h
      refine (fe_fold (fun s x s' hs => ?_) _ _ _ h1).trans (FeeEq.of_same (SfSame.of_bank rfl) rfl)
      unfold cancelMMStep at hs
      split at hs
      · cases hs; exact FeeEq.refl _ _ _ _ _
      · split at hs
        · cases hs
        · split at hs
          · exact fe_finishOrder rfl hs
          · cases hs; exact FeeEq.refl _ _ _ _ _
  · split at h
    · cases h; exact FeeEq.refl _ _ _ _ _
    · cases h

theorem fe_cancelMM {cfg : Cfg} {a p : Nat} {d : Denom} {s s' : State} {app user pair : Nat}
    (h : cancelMM cfg s app user pair = some s') : FeeEq cfg a p d s s' := by
  unfold cancelMM at h
  split at h; · cases h
  split at h; · cases h
  exact fe_cancelMMCore h

theorem fe_mmOrder {cfg : Cfg} {a p : Nat} {d : Denom} {s s' : State} {app user pair : Nat} {buys sells : List Tick}
    {lifespan : Int} {ext : Bool} (h : mmOrder cfg s app user pair buys sells lifespan ext = some s') : FeeEq cfg a p d s s' := by
  obtain ⟨pp, s1, new, -, hc1, -, hn⟩ := mmOrder_split h
  unfold mmOrder at h
  split at h; · cases h
  split at h; · cases h
  split at h; · cases h
  split at h; · cases h
  rename_i p' hp
  simp only [] at h
  split at h; · cases h
  split at h; · cases h
  split at h; · cases h
  split at h; · cases h
  rename_i s1' hc1'
  split at h; · cases h
  rename_i s2 h2
  split at h; · cases h
  rename_i s3 h3
  cases h
  refine (fe_cancelMMCore hc1').trans ?_
  have g := (sf_send (by nsf) (by nsf) h2).trans (sf_send (by nsf) (by nsf) h3) a p d
  unfold FeeEq
  show s3.bal _ _ + _ = _ + fwdSum cfg a p d (s3.orders ++ _)
  rw [g, (State.send_fields h3).2.2.2.2.1, (State.send_fields h2).2.2.2.2.1, fwdSum_append_live]
  intro o ho
  have st : ∀ (b : Bool) (ts : List Tick) (last : Nat), ∀ o ∈ mkMMOrders p' user b (s.now + lifespan) last ts, o.status.live = true := by
    intro b ts
    induction ts with
    | nil => intro last o ho; simp [mkMMOrders] at ho
    | cons t ts ih =>
      intro last o ho
      simp only [mkMMOrders, List.mem_cons] at ho
      rcases ho with rfl | ho
      · rfl
      · exact ih _ o ho
  rcases List.mem_append.mp ho with ho | ho
  · exact st _ _ _ o ho
  · exact st _ _ _ o ho

theorem fe_prePass {cfg : Cfg} {a p : Nat} {d : Denom} {s s' : State} {k : OKey} (h : prePass cfg s k = some s') :
    FeeEq cfg a p d s s' := by
  unfold prePass at h
  split at h; · cases h
  rename_i o ho
  split at h
  · rename_i hst
    cases h
    unfold FeeEq
    show s.bal _ _ + _ = _ + fwdSum cfg a p d (modBy _ _ s.orders)
    rw [fwdSum_modO]
    intro x hx
    have : s.order? k = some x := hx
    rw [ho] at this; cases this
    simp [fwdTerm, hst, OStatus.live]
  · split at h
    · exact fe_finishOrder rfl h
    · cases h; exact FeeEq.refl _ _ _ _ _
  · split at h
    · exact fe_finishOrder rfl h
    · cases h; exact FeeEq.refl _ _ _ _ _
  · cases h; exact FeeEq.refl _ _ _ _ _
  · cases h

theorem fe_sweep {cfg : Cfg} {a p : Nat} {d : Denom} {s s' : State} {k : OKey} (h : sweep cfg s k = some s') : FeeEq cfg a p d s s' := by
  unfold sweep at h
  split at h; · cases h
  split at h
  · exact fe_finishOrder rfl h
  · split at h
    · exact fe_finishOrder rfl h
    · cases h; exact FeeEq.refl _ _ _ _ _

theorem fe_fillOrder {cfg : Cfg} {a p : Nat} {d : Denom} {pp : Pair} {s s' : State} {f : Fill} (h : fillOrder cfg pp s f = some s') :
    FeeEq cfg a p d s s' := by
  unfold fillOrder at h
  simp only [] at h
  split at h; · cases h
  rename_i o ho
  split at h; · cases h
  rename_i hg
  have hlive : o.status.live = true := by
    cases hl : o.status.live with
    | true => rfl
    | false => exfalso; apply hg; left; simp [hl]
  have key : ∀ (g : Order → Order) (A : Acct) (d0 : Denom) (n : Nat), (∀ x, (g x).status = .partially ∧ (g x).app = x.app ∧ (g x).pair = x.pair ∧ (g x).od = x.od) →
      (∀ a p, A ≠ .swapFee a p) → FeeEq cfg a p d s ((s.modO (pp.app, pp.id, f.id) g).credit A d0 n) := by
    intro g A d0 n hgb hA
    unfold FeeEq
    rw [sf_credit_ghost _ _ _ _ hA a p d]
    show s.bal _ _ + _ = _ + fwdSum cfg a p d (modBy _ _ s.orders)
    rw [fwdSum_modO]
    intro x hx
    have : s.order? (pp.app, pp.id, f.id) = some x := hx
    rw [ho] at this; cases this
    have z1 : fwdTerm cfg a p d o = 0 := by simp [fwdTerm, hlive]
    have z2 : fwdTerm cfg a p d (g o) = 0 := by
      have : (g o).status.live = true := by rw [(hgb o).1]; rfl
      simp [fwdTerm, this]
    rw [z1, z2]
  split at h
  · refine FeeEq.trans ?_ (fe_finishOrder rfl h)
    apply key
    · intro x; exact ⟨rfl, rfl, rfl, rfl⟩
    · nsf
  · cases h
    apply key
    · intro x; exact ⟨rfl, rfl, rfl, rfl⟩
    · nsf

theorem fe_applyMatch {cfg : Cfg} {a p : Nat} {d : Denom} {s s' : State} {pp : Pair} {m : MatchIn} (h : applyMatch cfg s pp m = some s') :
    FeeEq cfg a p d s s' := by
  unfold applyMatch at h
  split at h; · cases h
  rename_i s1 h1
  split at h; · cases h
  rename_i s2 h2
  split at h; · cases h
  rename_i s3 h3
  split at h; · cases h
  rename_i s4 h4
  split at h; · cases h
  rename_i s5 h5
  cases h
  have e1 := fe_fold (cfg := cfg) (a := a) (p := p) (d := d) (fun s x s' hh => FeeEq.of_same (sf_poolPayIn hh) (os_poolPayIn hh).1) _ _ _ h1
  have e2 := fe_fold (cfg := cfg) (a := a) (p := p) (d := d) (fun s x s' hh => fe_fillOrder hh) _ _ _ h2
  have e3 := fe_fold (cfg := cfg) (a := a) (p := p) (d := d) (fun s x s' hh => FeeEq.of_same (sf_fillPayOut hh) (os_fillPayOut hh).1) _ _ _ h3
  have e4 := fe_fold (cfg := cfg) (a := a) (p := p) (d := d) (fun s x s' hh => FeeEq.of_same (sf_poolPayOut hh) (os_poolPayOut hh).1) _ _ _ h4
  have e5 : FeeEq cfg a p d s4 (s5.credit (.mOut pp.app pp.id) pp.quote m.dust) :=
    FeeEq.of_same ((sf_send (by nsf) (by nsf) h5).trans (sf_credit_ghost _ _ _ _ (by nsf))) (State.send_fields h5).2.2.2.2.1
  exact e1.trans (e2.trans (e3.trans (e4.trans e5)))

theorem fe_execMatching {cfg : Cfg} {a p : Nat} {d : Denom} {ms : List MatchIn} {s s' : State} {pk : Nat × Nat}
    (h : execMatching cfg ms s pk = some s') : FeeEq cfg a p d s s' := by
  unfold execMatching at h
  split at h; · cases h
  rename_i pp hp
  simp only [] at h
  split at h; · cases h
  rename_i s1 h1
  split at h; · cases h
  rename_i s3 h3
  cases h
  have e1 := fe_fold (cfg := cfg) (a := a) (p := p) (d := d) (fun s x s' hh => fe_prePass hh) _ _ _ h1
  have e2 : FeeEq cfg a p d s1 (markDepleted s1 pp) := FeeEq.of_same (SfSame.of_bank rfl) rfl
  have e3 := fe_applyMatch (a := a) (p := p) (d := d) h3
  exact e1.trans (e2.trans (e3.trans (FeeEq.of_same (SfSame.of_bank rfl) rfl)))

theorem fe_endBlock {cfg : Cfg} {a p : Nat} {d : Denom} {s s' : State} {app : Nat} {ms : List MatchIn} {dins : List DepIn} {wins : List WdrIn}
    (h : endBlock cfg s app ms dins wins = some s') : FeeEq cfg a p d s s' := by
  unfold endBlock at h
  split at h; · cases h
  split at h; · cases h; exact FeeEq.refl _ _ _ _ _
  simp only [] at h
  split at h; · cases h
  rename_i s1 h1
  split at h; · cases h
  rename_i s2 h2
  split at h; · cases h
  rename_i s3 h3
  split at h; · cases h
  rename_i s4 h4
  cases h
  have e1 := fe_fold (cfg := cfg) (a := a) (p := p) (d := d) (fun s x s' hh => fe_execMatching hh) _ _ _ h1
  have e2 := fe_fold (cfg := cfg) (a := a) (p := p) (d := d) (fun s x s' hh => fe_sweep hh) _ _ _ h2
  have e3 := fe_fold (cfg := cfg) (a := a) (p := p) (d := d) (f := execDepStep dins)
    (fun s x s' hh => by unfold execDepStep at hh; exact FeeEq.of_same (sf_execDeposit hh) (os_execDeposit hh).1) _ _ _ h3
  have e4 := fe_fold (cfg := cfg) (a := a) (p := p) (d := d) (f := execWdrStep wins)
    (fun s x s' hh => by unfold execWdrStep at hh; exact FeeEq.of_same (sf_execWithdraw hh) (os_execWithdraw hh).1) _ _ _ h4
  exact e1.trans (e2.trans (e3.trans (e4.trans (FeeEq.of_same (SfSame.of_bank rfl) rfl))))

theorem fe_migrate {cfg : Cfg} {a p : Nat} {d : Denom} {s s' : State} (h : migrate cfg s = some s') : FeeEq cfg a p d s s' := by
  unfold migrate at h
  split at h
  · rename_i hv
    cases h
    obtain ⟨hty, -, -⟩ := hv
    unfold FeeEq fwdSum
    show s.bal _ _ + _ = _ + sumOver _ (s.orders.map _)
    rw [sumOver_map]
    intro o ho
    have := hty o ho
    split
    · simp [fwdTerm, fwdSpec, this]
    · rfl
  · cases h

/-- **The swap-fee collector, every operation** (except begin-block pruning, which moves no coin and only deletes ended
orders): the balance of the swap-fee collector of pair `(a, p)` in denom `d` grows by exactly the fee on the executed portion of
the orders of that pair with offer denom `d` that ended in the step. -/
theorem step_feeEq {cfg : Cfg} {s s' : State} {op : Op} (a p : Nat) (d : Denom) (hop : ∀ x, op ≠ .beginBlock x)
    (h : step cfg s op = some s') : FeeEq cfg a p d s s' := by
  cases op with
  | block ht t => simp only [step, Option.some.injEq] at h; subst h; exact FeeEq.of_same (SfSame.of_bank rfl) rfl
  | createPair a' c b q e =>
    have hb := sf_createPair h
    simp only [step] at h
    unfold createPair at h
    split at h; · cases h
    split at h; · cases h
    split at h; · cases h
    split at h; · cases h
    split at h; · cases h
    rename_i s1 h1
    cases h
    exact FeeEq.of_same hb (State.send_fields h1).2.2.2.2.1
  | createPool a' c pr r dx dy ps e => exact FeeEq.of_same (sf_createPool h) (os_createPool h).1
  | deposit a' u pl dx dy e =>
    simp only [step] at h
    cases hd : depositReq cfg s a' u pl dx dy e with
    | none => simp [hd] at h
    | some r => obtain ⟨s1, id⟩ := r; simp [hd] at h; subst h; exact FeeEq.of_same (sf_depositReq hd) (os_depositReq hd).1
  | withdraw a' u pl pc e =>
    simp only [step] at h
    cases hd : withdrawReq cfg s a' u pl pc e with
    | none => simp [hd] at h
    | some r => obtain ⟨s1, id⟩ := r; simp [hd] at h; subst h; exact FeeEq.of_same (sf_withdrawReq hd) (os_withdrawReq hd).1
  | order a' u pr t b od dd mo mp am l => obtain ⟨_, _, h⟩ := placeOrderMsg_core h; exact fe_placeOrder h
  | mmOrder a' u pr xs ns sa xb nb ba l => obtain ⟨_, _, h⟩ := mmOrderMsg_core h; exact fe_mmOrder h
  | cancel a' u pr i => exact fe_cancelOrder h
  | cancelAll a' u ps => exact fe_cancelAll h
  | cancelMM a' u pr => exact fe_cancelMM h
  | farm a' u pl n e => exact FeeEq.of_same (sf_farm h) (os_farm h).1
  | unfarm a' u pl n e => exact FeeEq.of_same (sf_unfarm h) (os_unfarm h).1
  | depositAndFarm a' u pl dx dy ax ay pc e => exact FeeEq.of_same (sf_depositAndFarm h) (os_depositAndFarm h).1
  | unfarmAndWithdraw a' u pl n x y e => exact FeeEq.of_same (sf_unfarmAndWithdraw h) (os_unfarmAndWithdraw h).1
  | endBlock a' ms ds ws => exact fe_endBlock h
  | beginBlock a' => exact absurd rfl (hop a')
  | migrate => exact fe_migrate h

end Comdex.LiqLedger
