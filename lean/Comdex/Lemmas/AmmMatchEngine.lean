import Comdex.Lemmas.AmmMatch
/-!
Lemmas for C05, part 2: the loops of the matching engine (`distributeToTicks`, the drop loop of
`FindMatchableAmountAtSinglePrice`, `MatchAtSinglePrice`, the two-sided loop of `Match`) never reach the
`FillOrder` panic and only perform allowed fills (`Reach`), in particular only at prices within each order's limit.
-/
namespace Comdex.Amm
open Comdex

/-! ## relations on lists of ticks -/

theorem all2_reach_refl (os : List Order) : All2 Reach os os := by
  induction os with
  | nil => trivial
  | cons o os ih => exact ⟨Reach.refl o, ih⟩

theorem all2_reach_trans {l₁ l₂ l₃ : List Order} (h₁ : All2 Reach l₁ l₂) (h₂ : All2 Reach l₂ l₃) : All2 Reach l₁ l₃ := by
  induction l₁ generalizing l₂ l₃ with
  | nil =>
    cases l₂ with
    | nil => exact h₂
    | cons _ _ => exact h₁.elim
  | cons a as ih =>
    cases l₂ with
    | nil => exact h₁.elim
    | cons b bs =>
      cases l₃ with
      | nil => exact h₂.elim
      | cons c cs => exact ⟨h₁.1.trans h₂.1, ih h₁.2 h₂.2⟩

theorem TickReach.refl (t : Tick) : TickReach t t := ⟨rfl, all2_reach_refl _⟩

theorem TickReach.trans {t₁ t₂ t₃ : Tick} (h₁ : TickReach t₁ t₂) (h₂ : TickReach t₂ t₃) : TickReach t₁ t₃ :=
  ⟨by rw [h₂.1, h₁.1], all2_reach_trans h₁.2 h₂.2⟩

theorem all2_tick_refl (ts : List Tick) : All2 TickReach ts ts := by
  induction ts with
  | nil => trivial
  | cons t ts ih => exact ⟨TickReach.refl t, ih⟩

theorem all2_tick_trans {l₁ l₂ l₃ : List Tick} (h₁ : All2 TickReach l₁ l₂) (h₂ : All2 TickReach l₂ l₃) :
    All2 TickReach l₁ l₃ := by
  induction l₁ generalizing l₂ l₃ with
  | nil =>
    cases l₂ with
    | nil => exact h₂
    | cons _ _ => exact h₁.elim
  | cons a as ih =>
    cases l₂ with
    | nil => exact h₁.elim
    | cons b bs =>
      cases l₃ with
      | nil => exact h₂.elim
      | cons c cs => exact ⟨h₁.1.trans h₂.1, ih h₁.2 h₂.2⟩

/-- members of the later list come from members of the earlier one -/
theorem all2_mem_right {α β : Type} {R : α → β → Prop} {l₁ : List α} {l₂ : List β} (h : All2 R l₁ l₂)
    {y : β} (hy : y ∈ l₂) : ∃ x ∈ l₁, R x y := by
  induction l₁ generalizing l₂ with
  | nil =>
    cases l₂ with
    | nil => simp at hy
    | cons _ _ => exact h.elim
  | cons a as ih =>
    cases l₂ with
    | nil => exact h.elim
    | cons b bs =>
      rcases List.mem_cons.mp hy with rfl | hy
      · exact ⟨a, by simp, h.1⟩
      · obtain ⟨x, hx, hr⟩ := ih h.2 hy
        exact ⟨x, by simp [hx], hr⟩

/-- a well-formed tick stays a well-formed tick of the same side -/
theorem tickOk_of_reach {d : Dir} {t t' : Tick} (hok : TickOk d t) (hr : TickReach t t') : TickOk d t' := by
  intro o' ho'
  obtain ⟨o, ho, r⟩ := all2_mem_right hr.2 ho'
  obtain ⟨hw, hd, hpr⟩ := hok o ho
  have dl := reach_delta r hw
  exact ⟨dl.wf, by rw [dl.dir_eq, hd], by rw [dl.price_eq, hpr, hr.1]⟩

theorem ticksOk_of_reach {d : Dir} {ts ts' : List Tick} (hok : ∀ t ∈ ts, TickOk d t) (hr : All2 TickReach ts ts') :
    ∀ t' ∈ ts', TickOk d t' := by
  intro t' ht'
  obtain ⟨t, ht, r⟩ := all2_mem_right hr ht'
  exact tickOk_of_reach (hok t ht) r

theorem within_of_tickOk {d : Dir} {t : Tick} (hok : TickOk d t) (p : Int)
    (hb : d = .buy → p ≤ t.price) (hs : d = .sell → t.price ≤ p) :
    ∀ o ∈ t.orders, Wf o ∧ Within o p := by
  intro o ho
  obtain ⟨hw, hd, hpr⟩ := hok o ho
  refine ⟨hw, ?_⟩
  unfold Within
  rw [hd, hpr]
  cases d with
  | buy => exact hb rfl
  | sell => exact hs rfl

/-! ## `distributeToTicks` of `MatchAtSinglePrice` -/

theorem buildSide_nonneg (incr : Bool) (p : Int) (hp : 0 < p) (ts : List Tick) (hw : ∀ t ∈ ts, ∀ o ∈ t.orders, Wf o) :
    ∀ x ∈ buildSide incr p ts, 0 ≤ x := by
  induction ts with
  | nil => simp [buildSide]
  | cons t ts ih =>
    unfold buildSide
    split
    · simp
    · intro x hx
      rcases List.mem_cons.mp hx with rfl | hx
      · exact totalMatchable_nonneg _ p hp (hw t (by simp))
      · exact ih (fun t' ht' => hw t' (by simp [ht'])) x hx

/-- `distributeToTicks` hands out an amount that the ticks within the match price can absorb: it never panics and never
touches a tick beyond the match price -/
theorem distTicks_ok (d : Dir) (ts : List Tick) (x p : Int) (hp : 0 < p) (hx : 0 < x)
    (hok : ∀ t ∈ ts, TickOk d t) (hle : x ≤ sumInt (buildSide (d == .sell) p ts)) :
    ∃ ts' q, distTicks ts x p = some (ts', q) ∧ All2 TickReach ts ts' := by
  induction ts generalizing x with
  | nil => simp [buildSide, sumInt] at hle; omega
  | cons t ts ih =>
    unfold buildSide at hle
    split at hle
    · simp [sumInt] at hle; omega
    · rename_i hlim
      have hwithin : ∀ o ∈ t.orders, Wf o ∧ Within o p := by
        apply within_of_tickOk (hok t (by simp)) p
        · intro hd; subst hd
          have e : (Dir.buy == Dir.sell) = false := rfl
          simp [e] at hlim; exact hlim
        · intro hd; subst hd
          have e : (Dir.sell == Dir.sell) = true := rfl
          simp [e] at hlim; exact hlim
      simp only [sumInt] at hle
      unfold distTicks
      simp only
      split
      · obtain ⟨os', q, hf, hr⟩ := fulfillOrders_ok t.orders p hp hwithin
        rw [hf]
        simp only
        split
        · exact ⟨_, _, rfl, ⟨rfl, hr⟩, all2_tick_refl ts⟩
        · obtain ⟨ts', q', hd', hr'⟩ := ih (x - totalMatchable t.orders p) (by omega)
            (fun t' ht' => hok t' (by simp [ht'])) (by omega)
          rw [hd']
          exact ⟨_, _, rfl, ⟨rfl, hr⟩, hr'⟩
      · obtain ⟨os', q, hf, hr⟩ := distributeToTick_ok t.orders x p hp (by omega) hwithin
        rw [hf]
        exact ⟨_, _, rfl, ⟨rfl, hr⟩, all2_tick_refl ts⟩

/-! ## the drop loop of `FindMatchableAmountAtSinglePrice` -/

theorem sumInt_reverse (l : List Int) : sumInt l.reverse = sumInt l := by
  induction l with
  | nil => rfl
  | cons x xs ih => simp [sumInt_append, sumInt, ih]; omega

/-- whatever the drop loop returns is positive and not more than either side can absorb -/
theorem fmaLoop_bound (fuel : Nat) (bs ss : List Int) (bT sT p B S : Int)
    (hb : ∀ x ∈ bs, 0 ≤ x) (hs : ∀ x ∈ ss, 0 ≤ x) (hbT : bT = sumInt bs) (hsT : sT = sumInt ss)
    (hB : bT ≤ B) (hS : sT ≤ S) (r : Int) (h : fmaLoop fuel bs bT ss sT p = some r) :
    0 < r ∧ r ≤ B ∧ r ≤ S := by
  induction fuel generalizing bs ss bT sT with
  | zero => simp [fmaLoop] at h
  | succ fuel ih =>
    unfold fmaLoop at h
    cases bs with
    | nil => simp at h
    | cons tb bRest =>
      cases ss with
      | nil => simp at h
      | cons ts sRest =>
        simp only at h
        have htb : 0 ≤ tb := hb tb (by simp)
        have hts : 0 ≤ ts := hs ts (by simp)
        have hbR : ∀ x ∈ bRest, 0 ≤ x := fun x hx => hb x (by simp [hx])
        have hsR : ∀ x ∈ sRest, 0 ≤ x := fun x hx => hs x (by simp [hx])
        have hsRn := sumInt_nonneg sRest hsR
        simp only [sumInt] at hbT hsT
        generalize hdB : decide (bT - tb ≥ min bT sT) = dB at h
        cases dB with
        | false =>
          simp only [Bool.false_and, Bool.false_eq_true, ↓reduceIte, Bool.not_false, Bool.true_and] at h
          generalize hdS : (decide (sT - ts ≥ min bT sT) || quoteFloor p (min bT sT - (sT - ts)) == 0) = dS at h
          cases dS with
          | false =>
            simp only [Bool.false_and, Bool.false_eq_true, ↓reduceIte, Bool.not_false] at h
            cases h
            simp only [Bool.or_eq_false_iff, decide_eq_false_iff_not] at hdS
            omega
          | true =>
            simp only [Bool.true_and, Bool.not_true, Bool.false_eq_true, ↓reduceIte] at h
            cases hE : sRest.isEmpty with
            | true => simp [hE] at h
            | false =>
              simp only [hE, Bool.false_eq_true, ↓reduceIte] at h
              exact ih (tb :: bRest) sRest bT (sT - ts) hb hsR (by simp [sumInt]; omega) (by omega) hB (by omega) h
        | true =>
          simp only [Bool.true_and, ↓reduceIte, Bool.not_true, Bool.false_and, Bool.false_eq_true] at h
          cases hbE : bRest.isEmpty with
          | true => simp [hbE] at h
          | false =>
            simp only [hbE, Bool.false_eq_true, ↓reduceIte] at h
            generalize hdS : (decide (sT - ts ≥ min (bT - tb) sT) || quoteFloor p (min (bT - tb) sT - (sT - ts)) == 0) = dS at h
            cases dS with
            | false =>
              simp only [Bool.false_and, Bool.false_eq_true, ↓reduceIte] at h
              exact ih bRest (ts :: sRest) (bT - tb) sT hbR hs (by omega) (by simp [sumInt]; omega) (by omega) hS h
            | true =>
              simp only [Bool.true_and, ↓reduceIte] at h
              cases hE : sRest.isEmpty with
              | true => simp [hE] at h
              | false =>
                simp only [hE, Bool.false_eq_true, ↓reduceIte] at h
                exact ih bRest sRest (bT - tb) (sT - ts) hbR hsR (by omega) (by omega) (by omega) (by omega) h

theorem findMatchableAmount_bound (b : Book) (p : Int) (hp : 0 < p) (hb : BookOk b) (x : Int)
    (h : findMatchableAmount b p = some x) :
    0 < x ∧ x ≤ sumInt (buildSide false p b.buys) ∧ x ≤ sumInt (buildSide true p b.sells) := by
  unfold findMatchableAmount at h
  simp only at h
  split at h
  · cases h
  · have hbn := buildSide_nonneg false p hp b.buys (fun t ht o ho => (hb.1 t ht o ho).1)
    have hsn := buildSide_nonneg true p hp b.sells (fun t ht o ho => (hb.2 t ht o ho).1)
    exact fmaLoop_bound _ _ _ _ _ p _ _ (fun x hx => hbn x (List.mem_reverse.mp hx))
      (fun x hx => hsn x (List.mem_reverse.mp hx)) (sumInt_reverse _).symm (sumInt_reverse _).symm
      (Int.le_refl _) (Int.le_refl _) x h

/-! ## `MatchAtSinglePrice` -/

theorem matchAtSinglePrice_ok (b : Book) (p : Int) (hp : 0 < p) (hb : BookOk b) :
    matchAtSinglePrice b p = .noMatch ∨ ∃ b' q, matchAtSinglePrice b p = .ok b' q ∧ BookReach b b' := by
  unfold matchAtSinglePrice
  cases hf : findMatchableAmount b p with
  | none => left; rfl
  | some x =>
    right
    obtain ⟨hx, hxb, hxs⟩ := findMatchableAmount_bound b p hp hb x hf
    obtain ⟨buys', q1, h1, r1⟩ := distTicks_ok .buy b.buys x p hp hx hb.1 (by rw [show (Dir.buy == Dir.sell) = false from rfl]; exact hxb)
    obtain ⟨sells', q2, h2, r2⟩ := distTicks_ok .sell b.sells x p hp hx hb.2 (by rw [show (Dir.sell == Dir.sell) = true from rfl]; exact hxs)
    simp only [h1, h2]
    exact ⟨_, _, rfl, r1, r2⟩


/-! ## the two-sided loop and `Match` -/

theorem tick_price_pos {d : Dir} {t : Tick} (hok : TickOk d t) (p : Int) (h : 0 < totalMatchable t.orders p) :
    0 < t.price := by
  cases ho : t.orders with
  | nil => rw [ho] at h; simp [totalMatchable, sumInt] at h
  | cons o os =>
    obtain ⟨hw, _, hpr⟩ := hok o (by rw [ho]; simp)
    rw [← hpr]; exact hw.price_pos

/-- the two-sided loop of `Match` never panics and only performs allowed fills -/
theorem matchLoop_ok (fuel : Nat) (incr : Bool) (bs ss : List Tick)
    (hb : ∀ t ∈ bs, TickOk .buy t) (hs : ∀ t ∈ ss, TickOk .sell t) :
    ∃ r, matchLoop fuel incr bs ss = some r ∧ All2 TickReach bs r.buys ∧ All2 TickReach ss r.sells := by
  induction fuel generalizing bs ss with
  | zero => exact ⟨_, by unfold matchLoop; rfl, all2_tick_refl _, all2_tick_refl _⟩
  | succ fuel ih =>
    cases bs with
    | nil => exact ⟨_, by unfold matchLoop; rfl, all2_tick_refl _, all2_tick_refl _⟩
    | cons bt bts =>
      cases ss with
      | nil => exact ⟨_, by unfold matchLoop; rfl, all2_tick_refl _, all2_tick_refl _⟩
      | cons st sts =>
        have hbt := hb bt (by simp)
        have hst := hs st (by simp)
        have hbts : ∀ t ∈ bts, TickOk .buy t := fun t ht => hb t (by simp [ht])
        have hsts : ∀ t ∈ sts, TickOk .sell t := fun t ht => hs t (by simp [ht])
        unfold matchLoop
        simp only
        generalize hpd : (if incr = true then st.price else bt.price) = p at *
        split
        · exact ⟨_, rfl, all2_tick_refl _, all2_tick_refl _⟩
        · rename_i hcross
          split
          · obtain ⟨r, hr, r1, r2⟩ := ih bts (st :: sts) hbts hs
            rw [hr]
            exact ⟨⟨bt :: r.buys, r.sells, r.q, r.last, r.lossless⟩, rfl, ⟨TickReach.refl bt, r1⟩, r2⟩
          · rename_i hbo
            split
            · obtain ⟨r, hr, r1, r2⟩ := ih (bt :: bts) sts hb hsts
              rw [hr]
              exact ⟨⟨r.buys, st :: r.sells, r.q, r.last, r.lossless⟩, rfl, r1, ⟨TickReach.refl st, r2⟩⟩
            · rename_i hso
              have hbo' : 0 < totalMatchable bt.orders p := by omega
              have hso' : 0 < totalMatchable st.orders p := by omega
              have hbp := tick_price_pos hbt p hbo'
              have hsp := tick_price_pos hst p hso'
              have hp : 0 < p := by rw [← hpd]; split <;> assumption
              have hpb : p ≤ bt.price := by rw [← hpd]; split <;> omega
              have hps : st.price ≤ p := by rw [← hpd]; split <;> omega
              have hwb := within_of_tickOk hbt p (fun _ => hpb) (fun h => by cases h)
              have hws := within_of_tickOk hst p (fun h => by cases h) (fun _ => hps)
              obtain ⟨bos, q1, hd1, rb⟩ := distributeToTick_ok bt.orders
                (if totalMatchable bt.orders p ≤ totalMatchable st.orders p then totalMatchable bt.orders p
                 else totalMatchable st.orders p) p hp (by split <;> omega) hwb
              obtain ⟨sos, q2, hd2, rs⟩ := distributeToTick_ok st.orders
                (if totalMatchable st.orders p ≤ totalMatchable bt.orders p then totalMatchable st.orders p
                 else totalMatchable bt.orders p) p hp (by split <;> omega) hws
              rw [hd1]; simp only; rw [hd2]; simp only
              have rbt : TickReach bt { bt with orders := bos } := ⟨rfl, rb⟩
              have rst : TickReach st { st with orders := sos } := ⟨rfl, rs⟩
              have hbt' := tickOk_of_reach hbt rbt
              have hst' := tickOk_of_reach hst rst
              by_cases c1 : totalMatchable bt.orders p ≤ totalMatchable st.orders p
              · by_cases c2 : totalMatchable st.orders p ≤ totalMatchable bt.orders p
                · simp only [c1, c2, if_true]
                  obtain ⟨r, hr, r1, r2⟩ := ih bts sts hbts hsts
                  rw [hr]
                  exact ⟨⟨_, _, _, _, _⟩, rfl, ⟨rbt, r1⟩, ⟨rst, r2⟩⟩
                · simp only [c1, c2, if_true, if_false]
                  obtain ⟨r, hr, r1, r2⟩ := ih bts ({ st with orders := sos } :: sts) hbts
                    (fun t ht => by rcases List.mem_cons.mp ht with rfl | ht; exact hst'; exact hsts t ht)
                  rw [hr]
                  refine ⟨⟨_, _, _, _, _⟩, rfl, ⟨rbt, r1⟩, ?_⟩
                  show All2 TickReach (st :: sts) r.sells
                  cases hrs : r.sells with
                  | nil => rw [hrs] at r2; exact r2.elim
                  | cons s' ss' => rw [hrs] at r2; exact ⟨rst.trans r2.1, r2.2⟩
              · have c2 : totalMatchable st.orders p ≤ totalMatchable bt.orders p := by omega
                simp only [c1, c2, if_true, if_false]
                obtain ⟨r, hr, r1, r2⟩ := ih ({ bt with orders := bos } :: bts) sts
                  (fun t ht => by rcases List.mem_cons.mp ht with rfl | ht; exact hbt'; exact hbts t ht) hsts
                rw [hr]
                refine ⟨⟨_, _, _, _, _⟩, rfl, ?_, ⟨rst, r2⟩⟩
                show All2 TickReach (bt :: bts) r.buys
                cases hrb : r.buys with
                | nil => rw [hrb] at r1; exact r1.elim
                | cons b' bs' => rw [hrb] at r1; exact ⟨rbt.trans r1.1, r1.2⟩

theorem BookReach.refl (b : Book) : BookReach b b := ⟨all2_tick_refl _, all2_tick_refl _⟩

theorem BookReach.trans {b₁ b₂ b₃ : Book} (h₁ : BookReach b₁ b₂) (h₂ : BookReach b₂ b₃) : BookReach b₁ b₃ :=
  ⟨all2_tick_trans h₁.1 h₂.1, all2_tick_trans h₁.2 h₂.2⟩

theorem bookOk_of_reach {b b' : Book} (hb : BookOk b) (r : BookReach b b') : BookOk b' :=
  ⟨ticksOk_of_reach hb.1 r.1, ticksOk_of_reach hb.2 r.2⟩

/-- **`OrderBook.Match` never reaches the `FillOrder` panic** and only performs allowed fills -/
theorem matchBook_ok (b : Book) (lp : Int) (hlp : 0 < lp) (hb : BookOk b) :
    matchBook b lp = .noMatch ∨ ∃ b' mp q, matchBook b lp = .ok b' mp q ∧ BookReach b b' := by
  unfold matchBook
  split
  · left; rfl
  · rcases matchAtSinglePrice_ok b lp hlp hb with h | ⟨b1, q0, h, r0⟩
    · rw [h]
      simp only
      split
      · left; rfl
      · obtain ⟨r, hr, r1, r2⟩ := matchLoop_ok (b.buys.length + b.sells.length)
          (priceDirection b lp == PDir.increasing) b.buys b.sells hb.1 hb.2
        rw [hr]
        simp only
        cases hl : r.last with
        | none => left; simp
        | some mp => right; exact ⟨_, _, _, rfl, r1, r2⟩
    · rw [h]
      simp only
      split
      · right; exact ⟨_, _, _, rfl, r0⟩
      · have hb1 := bookOk_of_reach hb r0
        obtain ⟨r, hr, r1, r2⟩ := matchLoop_ok (b1.buys.length + b1.sells.length)
          (priceDirection b lp == PDir.increasing) b1.buys b1.sells hb1.1 hb1.2
        rw [hr]
        simp only
        right
        cases hl : r.last with
        | none => exact ⟨_, _, _, rfl, r0.trans ⟨r1, r2⟩⟩
        | some mp => exact ⟨_, _, _, rfl, r0.trans ⟨r1, r2⟩⟩


/-! ## `NewOrderBook` builds a well-formed book out of any list of well-formed orders -/

theorem insertTick_ok (d : Dir) (incr : Bool) (o : Order) (ts : List Tick) (hw : Wf o) (hd : o.dir = d)
    (hts : ∀ t ∈ ts, TickOk d t) : ∀ t ∈ insertTick incr o ts, TickOk d t := by
  induction ts with
  | nil =>
    intro t ht
    simp only [insertTick, List.mem_singleton] at ht
    subst ht
    intro x hx
    simp only [List.mem_singleton] at hx
    subst hx
    exact ⟨hw, hd, rfl⟩
  | cons t0 ts ih =>
    have h0 := hts t0 (by simp)
    have hrest : ∀ t ∈ ts, TickOk d t := fun t ht => hts t (by simp [ht])
    unfold insertTick
    split
    · rename_i hpe
      intro t ht
      rcases List.mem_cons.mp ht with rfl | ht
      · intro x hx
        simp only [List.mem_append, List.mem_singleton] at hx
        rcases hx with hx | rfl
        · exact h0 x hx
        · exact ⟨hw, hd, hpe.symm⟩
      · exact hrest t ht
    · by_cases hc : (if incr = true then decide (t0.price > o.price) else decide (t0.price < o.price)) = true
      · rw [if_pos hc]
        intro t ht
        rcases List.mem_cons.mp ht with rfl | ht
        · intro x hx
          simp only [List.mem_singleton] at hx
          subst hx
          exact ⟨hw, hd, rfl⟩
        · exact hts t ht
      · rw [if_neg hc]
        intro t ht
        rcases List.mem_cons.mp ht with rfl | ht
        · exact h0
        · exact ih hrest t ht

theorem addOrder_ok (b : Book) (o : Order) (hb : BookOk b) (hw : Wf o) : BookOk (addOrder b o) := by
  unfold addOrder
  split
  · cases hd : o.dir with
    | buy => exact ⟨insertTick_ok .buy false o b.buys hw hd hb.1, hb.2⟩
    | sell => exact ⟨hb.1, insertTick_ok .sell true o b.sells hw hd hb.2⟩
  · exact hb

theorem newBook_ok (os : List Order) (hw : ∀ o ∈ os, Wf o) : BookOk (newBook os) := by
  unfold newBook
  have : ∀ (b : Book), BookOk b → BookOk (os.foldl addOrder b) := by
    induction os with
    | nil => intro b hb; exact hb
    | cons o os ih =>
      intro b hb
      exact ih (fun x hx => hw x (by simp [hx])) _ (addOrder_ok b o hb (hw o (by simp)))
  exact this _ ⟨by simp, by simp⟩


/-! ## orders of a book -/

theorem mem_flatten_ticks {ts : List Tick} {o : Order} (h : o ∈ (ts.map (·.orders)).flatten) :
    ∃ t ∈ ts, o ∈ t.orders := by
  rw [List.mem_flatten] at h
  obtain ⟨l, hl, ho⟩ := h
  rw [List.mem_map] at hl
  obtain ⟨t, ht, rfl⟩ := hl
  exact ⟨t, ht, ho⟩

theorem mem_flatten_ticks_of {ts : List Tick} {t : Tick} {o : Order} (ht : t ∈ ts) (ho : o ∈ t.orders) :
    o ∈ (ts.map (·.orders)).flatten := by
  rw [List.mem_flatten]
  exact ⟨t.orders, List.mem_map.mpr ⟨t, ht, rfl⟩, ho⟩

theorem ticksReach_orders {ts ts' : List Tick} (h : All2 TickReach ts ts') {o' : Order}
    (ho' : o' ∈ (ts'.map (·.orders)).flatten) : ∃ o ∈ (ts.map (·.orders)).flatten, Reach o o' := by
  obtain ⟨t', ht', hot'⟩ := mem_flatten_ticks ho'
  obtain ⟨t, ht, r⟩ := all2_mem_right h ht'
  obtain ⟨o, ho, ro⟩ := all2_mem_right r.2 hot'
  exact ⟨o, mem_flatten_ticks_of ht ho, ro⟩

/-- every order of the book after matching is an order of the book before, after allowed fills only -/
theorem bookReach_orders {b b' : Book} (h : BookReach b b') {o' : Order} (ho' : o' ∈ b'.orders) :
    ∃ o ∈ b.orders, Reach o o' := by
  unfold Book.orders at *
  rcases List.mem_append.mp ho' with h1 | h1
  · obtain ⟨o, ho, r⟩ := ticksReach_orders h.1 h1
    exact ⟨o, List.mem_append_left _ ho, r⟩
  · obtain ⟨o, ho, r⟩ := ticksReach_orders h.2 h1
    exact ⟨o, List.mem_append_right _ ho, r⟩

theorem mem_insertTick (incr : Bool) (x : Order) (ts : List Tick) (o : Order)
    (h : o ∈ ((insertTick incr x ts).map (·.orders)).flatten) : o = x ∨ o ∈ (ts.map (·.orders)).flatten := by
  induction ts with
  | nil => simp [insertTick] at h; left; exact h
  | cons t ts ih =>
    unfold insertTick at h
    split at h
    · simp only [List.map_cons, List.flatten_cons, List.mem_append, List.mem_singleton] at h ⊢
      rcases h with (h | h) | h
      · right; left; exact h
      · left; exact h
      · right; right; exact h
    · by_cases hc : (if incr = true then decide (t.price > x.price) else decide (t.price < x.price)) = true
      · rw [if_pos hc] at h
        simp only [List.map_cons, List.flatten_cons, List.mem_append, List.mem_singleton, List.mem_cons, List.not_mem_nil, or_false] at h ⊢
        rcases h with h | h | h
        · left; exact h
        · right; left; exact h
        · right; right; exact h
      · rw [if_neg hc] at h
        simp only [List.map_cons, List.flatten_cons, List.mem_append] at h ⊢
        rcases h with h | h
        · right; left; exact h
        · rcases ih h with h | h
          · left; exact h
          · right; right; exact h

theorem mem_addOrder (b : Book) (x o : Order) (h : o ∈ (addOrder b x).orders) : o = x ∨ o ∈ b.orders := by
  unfold addOrder at h
  split at h
  · cases hd : x.dir with
    | buy =>
      rw [hd] at h
      simp only [Book.orders, List.mem_append] at h ⊢
      rcases h with h | h
      · rcases mem_insertTick false x b.buys o h with h | h
        · left; exact h
        · right; left; exact h
      · right; right; exact h
    | sell =>
      rw [hd] at h
      simp only [Book.orders, List.mem_append] at h ⊢
      rcases h with h | h
      · right; left; exact h
      · rcases mem_insertTick true x b.sells o h with h | h
        · left; exact h
        · right; right; exact h
  · right; exact h

theorem mem_foldl_addOrder (os : List Order) (o : Order) (b : Book) (hb : o ∈ (os.foldl addOrder b).orders) :
    o ∈ os ∨ o ∈ b.orders := by
  induction os generalizing b with
  | nil => right; exact hb
  | cons x xs ih =>
    rcases ih (addOrder b x) hb with h1 | h1
    · left; simp [h1]
    · rcases mem_addOrder b x o h1 with h2 | h2
      · left; simp [h2]
      · right; exact h2

/-- `NewOrderBook(orders...)` contains only orders it was given -/
theorem mem_newBook (os : List Order) (o : Order) (h : o ∈ (newBook os).orders) : o ∈ os := by
  rcases mem_foldl_addOrder os o _ h with h1 | h1
  · exact h1
  · simp [Book.orders] at h1


end Comdex.Amm
