import Comdex.Model.English
/-! Helper lemmas for the English-auction model: bank frame lemmas, keyed-list sums, per-step balance
equations. Core Lean only (no Mathlib needed). -/
namespace Comdex.English

/-! ## bank -/

@[simp] theorem bal_nil (a : Acct) (d : Denom) : bal [] a d = 0 := rfl

theorem bal_credit (b : Bank) (a : Acct) (d : Denom) (x : Int) (a' : Acct) (d' : Denom) :
    bal (credit b a d x) a' d' = bal b a' d' + (if a = a' ∧ d = d' then x else 0) := by
  unfold credit
  simp only [bal]
  by_cases h : a = a' ∧ d = d'
  · obtain ⟨rfl, rfl⟩ := h; simp
  · simp [h]

theorem send_bal {b b' : Bank} {s t : Acct} {d : Denom} {x : Int} (h : send b s t d x = some b')
    (a : Acct) (e : Denom) :
    bal b' a e = bal b a e - (if s = a ∧ d = e then x else 0) + (if t = a ∧ d = e then x else 0) := by
  unfold send at h
  split at h
  · simp at h
  · split at h
    · rename_i hx
      simp only [Option.some.injEq] at h
      subst h; subst hx; simp
    · split at h
      · simp at h
      · simp only [Option.some.injEq] at h
        subst h
        rw [bal_credit, bal_credit]
        split <;> split <;> omega

theorem send_nonneg {b b' : Bank} {s t : Acct} {d : Denom} {x : Int} (h : send b s t d x = some b') : 0 ≤ x := by
  unfold send at h
  split at h
  · simp at h
  · omega

theorem burn_bal {b b' : Bank} {s : Acct} {d : Denom} {x : Int} (h : burn b s d x = some b')
    (a : Acct) (e : Denom) :
    bal b' a e = bal b a e - (if s = a ∧ d = e then x else 0) := by
  unfold burn at h
  split at h
  · simp at h
  · split at h
    · simp at h
    · simp only [Option.some.injEq] at h
      subst h
      rw [bal_credit]
      split <;> omega

theorem sendAway_bal {b b' : Bank} {s : Acct} {d : Denom} {x : Int} (h : sendAway b s d x = some b')
    (a : Acct) (e : Denom) :
    bal b' a e = bal b a e - (if s = a ∧ d = e then x else 0) := by
  unfold sendAway at h
  split at h
  · simp at h
  · split at h
    · rename_i hx
      simp only [Option.some.injEq] at h
      subst h; subst hx; simp
    · split at h
      · simp at h
      · simp only [Option.some.injEq] at h
        subst h
        rw [bal_credit]
        split <;> omega

theorem mint_bal (b : Bank) (t : Acct) (d : Denom) (x : Int) (a : Acct) (e : Denom) :
    bal (mint b t d x) a e = bal b a e + (if t = a ∧ d = e then (if x > 0 then x else 0) else 0) := by
  unfold mint
  split
  · rw [bal_credit]
  · split <;> omega

/-! ## keyed list of auctions -/

theorem findAuc_mem {l : List Auction} {id : Nat} {a : Auction} (h : findAuc l id = some a) :
    a ∈ l ∧ a.id = id := by
  induction l with
  | nil => simp [findAuc] at h
  | cons b t ih =>
    simp only [findAuc] at h
    split at h
    · rename_i hb
      simp only [Option.some.injEq] at h
      subst h
      exact ⟨by simp, hb⟩
    · obtain ⟨hm, hid⟩ := ih h
      exact ⟨by simp [hm], hid⟩

theorem sumBy_setAuc (f : Auction → Int) (l : List Auction) (a a' : Auction)
    (h : findAuc l a'.id = some a) : sumBy f (setAuc l a') = sumBy f l - f a + f a' := by
  induction l with
  | nil => simp [findAuc] at h
  | cons b t ih =>
    simp only [findAuc] at h
    simp only [setAuc]
    by_cases hb : b.id = a'.id
    · simp only [hb, if_true, Option.some.injEq] at h ⊢
      subst h
      simp only [sumBy]; omega
    · simp only [hb, if_false] at h ⊢
      simp only [sumBy, ih h]; omega

theorem sumBy_delAuc (f : Auction → Int) (l : List Auction) (id : Nat) (a : Auction)
    (h : findAuc l id = some a) : sumBy f (delAuc l id) = sumBy f l - f a := by
  induction l with
  | nil => simp [findAuc] at h
  | cons b t ih =>
    simp only [findAuc] at h
    simp only [delAuc]
    by_cases hb : b.id = id
    · simp only [hb, if_true, Option.some.injEq] at h ⊢
      subst h
      simp only [sumBy]; omega
    · simp only [hb, if_false] at h ⊢
      simp only [sumBy, ih h]; omega

theorem mem_setAuc {l : List Auction} {a' x : Auction} (h : x ∈ setAuc l a') : x ∈ l ∨ x = a' := by
  induction l with
  | nil => simp [setAuc] at h
  | cons b t ih =>
    simp only [setAuc] at h
    split at h
    · simp only [List.mem_cons] at h ⊢
      rcases h with h | h
      · exact Or.inr h
      · exact Or.inl (Or.inr h)
    · simp only [List.mem_cons] at h ⊢
      rcases h with h | h
      · exact Or.inl (Or.inl h)
      · rcases ih h with h | h
        · exact Or.inl (Or.inr h)
        · exact Or.inr h

theorem mem_delAuc {l : List Auction} {id : Nat} {x : Auction} (h : x ∈ delAuc l id) : x ∈ l := by
  induction l with
  | nil => simp [delAuc] at h
  | cons b t ih =>
    simp only [delAuc] at h
    split at h
    · simp [h]
    · simp only [List.mem_cons] at h ⊢
      rcases h with h | h
      · exact Or.inl h
      · exact Or.inr (ih h)

theorem findAuc_setAuc_self {l : List Auction} {a a' : Auction} (h : findAuc l a'.id = some a) :
    findAuc (setAuc l a') a'.id = some a' := by
  induction l with
  | nil => simp [findAuc] at h
  | cons b t ih =>
    simp only [findAuc] at h
    simp only [setAuc]
    by_cases hb : b.id = a'.id
    · simp [hb, findAuc]
    · simp only [hb, if_false] at h ⊢
      simp only [findAuc, hb, if_false]
      exact ih h

theorem sumBy_zero (f : Auction → Int) (l : List Auction) (h : ∀ a ∈ l, f a = 0) : sumBy f l = 0 := by
  induction l with
  | nil => rfl
  | cons b t ih =>
    simp only [sumBy]
    rw [h b (by simp), ih (fun a ha => h a (by simp [ha]))]
    rfl

/-! ## what an accepted bid does -/

/-- the state after `accept`: same accounts, the record replaced, balances moved as stated -/
theorem accept_spec {s s' : State} {a a' : Auction} {who : Acct} {payIn : Int}
    (h : accept s a who a' payIn = some s') :
    s'.cust = s.cust ∧ s'.coll = s.coll ∧ s'.closed = s.closed ∧ s'.now = s.now ∧
    s'.live = setAuc s.live a' ∧ 0 ≤ payIn ∧
    ∀ y e, bal s'.bank y e = bal s.bank y e
        - (if who = y ∧ a.payDenom = e then payIn else 0) + (if s.cust = y ∧ a.payDenom = e then payIn else 0)
        - (match a.bidder with
           | some p => (if s.cust = y ∧ a.payDenom = e then a.pay else 0) - (if p = y ∧ a.payDenom = e then a.pay else 0)
           | none => 0) := by
  unfold accept at h
  split at h
  · simp at h
  · rename_i b1 h1
    have hp := send_nonneg h1
    split at h
    · rename_i hb
      simp only [Option.some.injEq] at h
      subst h
      refine ⟨rfl, rfl, rfl, rfl, rfl, hp, ?_⟩
      intro y e
      simp only [hb]
      rw [send_bal h1]; omega
    · rename_i p hb
      split at h
      · simp at h
      · rename_i b2 h2
        simp only [Option.some.injEq] at h
        subst h
        refine ⟨rfl, rfl, rfl, rfl, rfl, hp, ?_⟩
        intro y e
        simp only [hb]
        rw [send_bal h2, send_bal h1]; omega


/-! ## accepted bids -/

/-- how an accepted bid rewrites the record -/
structure Upd (a a' : Auction) (who : Acct) (payIn amt : Int) : Prop where
  id : a'.id = a.id
  kind : a'.kind = a.kind
  payDenom : a'.payDenom = a.payDenom
  lotDenom : a'.lotDenom = a.lotDenom
  bidder : a'.bidder = some who
  pay : a'.pay = payIn
  inc : a.kind.increasing = true → amt = payIn ∧ a'.lot = a.lot ∧ (∀ p, a.bidder = some p → amt ≥ minNext a)
  dec : a.kind.increasing = false → payIn = a.pay ∧ a'.lot = amt ∧ (∀ p, a.bidder = some p → amt ≤ maxNext a)

theorem tooLow_false {a : Auction} {amt : Int} {b : Bool} (h : tooLow a amt b = false) :
    ∀ p, a.bidder = some p → amt ≥ minNext a := by
  intro p hp
  unfold tooLow at h
  simp only [hp, decide_eq_false_iff_not] at h
  omega

theorem tooHigh_false {a : Auction} {amt cap : Int} (h : tooHigh a amt cap = false) :
    ∀ p, a.bidder = some p → amt ≤ maxNext a := by
  intro p hp
  unfold tooHigh at h
  simp only [hp, decide_eq_false_iff_not] at h
  omega

theorem bid_accepted {s s' : State} {who : Acct} {app mapping id : Nat} {denom : Denom} {amt : Int}
    (h : bidStep s who app mapping id denom amt = some s') :
    ∃ a a' payIn, findAuc s.live id = some a ∧ accept s a who a' payIn = some s' ∧ Upd a a' who payIn amt ∧
      denom = (if a.kind.increasing then a.payDenom else a.lotDenom) ∧ (a.kind = .debtV2 → 0 < amt) ∧ a.kind ≠ .debtV1 := by
  unfold bidStep at h
  split at h
  · simp at h
  · rename_i a ha
    split at h
    · simp at h
    · cases hk : a.kind <;> simp only [hk] at h
      · -- surplusV1
        split at h
        · simp at h
        · split at h
          · simp at h
          · split at h
            · simp at h
            · rename_i hd hl
              refine ⟨a, _, _, ha, h, ⟨rfl, hk.symm, rfl, rfl, rfl, rfl, ?_, ?_⟩, ?_⟩
              · intro _; exact ⟨rfl, rfl, tooLow_false (by simpa using hl)⟩
              · intro hi; simp [hk, Kind.increasing] at hi
              · refine ⟨?_, by intro c; simp [hk] at c, by simp [hk]⟩
                simp only [hk, Kind.increasing, if_true]; simpa using hd
      · simp at h
      · -- surplusV2
        split at h
        · simp at h
        · split at h
          · simp at h
          · split at h
            · simp at h
            · rename_i hd hl
              refine ⟨a, _, _, ha, h, ⟨rfl, hk.symm, rfl, rfl, rfl, rfl, ?_, ?_⟩, ?_⟩
              · intro _; exact ⟨rfl, rfl, tooLow_false (by simpa using hl)⟩
              · intro hi; simp [hk, Kind.increasing] at hi
              · refine ⟨?_, by intro c; simp [hk] at c, by simp [hk]⟩
                simp only [hk, Kind.increasing, if_true]; simpa using hd
      · -- debtV2
        split at h
        · simp at h
        · split at h
          · simp at h
          · split at h
            · simp at h
            · rename_i hpos hd hl
              refine ⟨a, _, _, ha, h, ⟨rfl, hk.symm, rfl, rfl, rfl, rfl, ?_, ?_⟩, ?_⟩
              · intro hi; simp [hk, Kind.increasing] at hi
              · intro _; exact ⟨rfl, rfl, tooHigh_false (by simpa using hl)⟩
              · refine ⟨?_, fun _ => by omega, by simp [hk]⟩
                simp only [hk, Kind.increasing]; simpa using hd

theorem dbid_accepted {s s' : State} {who : Acct} {app mapping id : Nat} {denom : Denom} {amt : Int}
    {ed : Denom} {ea : Int} (h : dbidStep s who app mapping id denom amt ed ea = some s') :
    ∃ a a' payIn, findAuc s.live id = some a ∧ accept s a who a' payIn = some s' ∧ Upd a a' who payIn amt ∧
      a.kind = .debtV1 ∧ denom = a.lotDenom ∧ ed = a.payDenom ∧ ea = a.pay ∧ (∀ fl, s.debtFloor = some fl → fl ≤ amt) := by
  unfold dbidStep at h
  split at h
  · simp at h
  · rename_i a ha
    split at h
    · simp at h
    · cases hk : a.kind <;> simp only [hk] at h <;> try (simp at h; done)
      split at h
      · simp at h
      · rename_i hfl
        split at h
        · simp at h
        · split at h
          · simp at h
          · split at h
            · simp at h
            · split at h
              · simp at h
              · rename_i h1 h2 h3 hl
                refine ⟨a, _, _, ha, h, ⟨rfl, hk.symm, rfl, rfl, rfl, rfl, ?_, ?_⟩, hk, ?_, ?_, ?_, ?_⟩
                · intro hi; simp [hk, Kind.increasing] at hi
                · intro _; exact ⟨rfl, rfl, tooHigh_false (by simpa using hl)⟩
                · simpa using h3
                · simpa using h1
                · simpa using h2
                · intro fl hf
                  unfold belowFloor at hfl
                  simp only [hf, decide_eq_true_eq] at hfl
                  omega

/-! ## the block hook -/

theorem settle_spec {s s' : State} {id : Nat} (h : settleStep s id = some s') :
    ∃ a, findAuc s.live id = some a ∧
      ((emergency s a = true ∧ ∃ b, esmBank s a = some b ∧ s' = { s with bank := b, live := delAuc s.live id }) ∨
       (emergency s a = false ∧ due s.now a = true ∧
        ((a.bidder = none ∧ s' = { s with live := setAuc s.live (restartRec s.now a) }) ∨
         (∃ w b, a.bidder = some w ∧ closeBank s a w = some b ∧
            s' = { s with bank := b, live := delAuc s.live id, closed := a :: s.closed })))) := by
  unfold settleStep at h
  split at h
  · simp at h
  · rename_i a ha
    refine ⟨a, ha, ?_⟩
    split at h
    · rename_i he
      split at h
      · simp at h
      · rename_i b hb
        simp only [Option.some.injEq] at h
        exact Or.inl ⟨he, b, hb, h.symm⟩
    · rename_i he
      split at h
      · simp at h
      · rename_i hd
        refine Or.inr ⟨by simpa using he, by simpa using hd, ?_⟩
        split at h
        · rename_i hb
          simp only [Option.some.injEq] at h
          exact Or.inl ⟨hb, h.symm⟩
        · rename_i w hb
          split at h
          · simp at h
          · rename_i b hc
            simp only [Option.some.injEq] at h
            exact Or.inr ⟨w, b, hb, hc, h.symm⟩

/-- emergency close: outside custody and collector only the standing bidder moves, by exactly its stake -/
theorem esmBank_user {s : State} {a : Auction} {b : Bank} (h : esmBank s a = some b)
    (y : Acct) (e : Denom) (hy1 : y ≠ s.cust) (hy2 : y ≠ s.coll) :
    bal b y e = bal s.bank y e + (if a.bidder = some y ∧ a.payDenom = e then a.pay else 0) := by
  have h1 : ¬ s.cust = y := fun c => hy1 c.symm
  have h2 : ¬ s.coll = y := fun c => hy2 c.symm
  unfold esmBank at h
  cases hk : a.kind <;> simp only [hk] at h
  · cases hb : a.bidder with
    | none => simp only [hb] at h; rw [send_bal h]; simp [h1, h2]
    | some w =>
      simp only [hb] at h
      split at h
      · simp at h
      · rename_i b1 hb1
        rw [send_bal h, send_bal hb1]
        by_cases hw : w = y <;> simp [h1, h2, hw]
  · cases hb : a.bidder with
    | none => simp only [hb, Option.some.injEq] at h; subst h; simp
    | some w =>
      simp only [hb] at h
      rw [send_bal h]
      by_cases hw : w = y <;> simp [h1, hw]
  · simp at h
  · simp at h

/-- emergency close: the custody gives up exactly what it held for this auction -/
theorem esmBank_cust {s : State} {a : Auction} {b : Bank} (h : esmBank s a = some b)
    (hw : a.bidder ≠ some s.cust) (hc : s.cust ≠ s.coll) (e : Denom) :
    bal b s.cust e = bal s.bank s.cust e - held e a := by
  have hc' : ¬ s.coll = s.cust := fun c => hc c.symm
  unfold esmBank at h
  unfold held
  cases hk : a.kind <;> simp only [hk] at h
  · cases hb : a.bidder with
    | none =>
      simp only [hb] at h; rw [send_bal h]
      by_cases h2 : a.lotDenom = e <;> simp [h2, hc']
    | some w =>
      have hw' : ¬ w = s.cust := fun c => hw (by rw [hb, c])
      simp only [hb] at h
      split at h
      · simp at h
      · rename_i b1 hb1
        rw [send_bal h, send_bal hb1]
        by_cases h1 : a.payDenom = e <;> by_cases h2 : a.lotDenom = e <;> simp [h1, h2, hw', hc'] <;> omega
  · cases hb : a.bidder with
    | none => simp only [hb, Option.some.injEq] at h; subst h; simp
    | some w =>
      have hw' : ¬ w = s.cust := fun c => hw (by rw [hb, c])
      simp only [hb] at h
      rw [send_bal h]
      by_cases h1 : a.payDenom = e <;> simp [h1, hw']
  · simp at h
  · simp at h

/-- at close, an account that is neither the custody nor the collector changes only if it is the winner,
and then by exactly the lot -/
theorem closeBank_user {s : State} {a : Auction} {w : Acct} {b : Bank} (h : closeBank s a w = some b)
    (y : Acct) (e : Denom) (hy1 : y ≠ s.cust) (hy2 : y ≠ s.coll) :
    bal b y e = bal s.bank y e + (if w = y ∧ a.lotDenom = e then payout a else 0) := by
  unfold closeBank at h
  unfold payout
  cases hk : a.kind <;> simp only [hk] at h
  · -- surplusV1
    split at h
    · simp at h
    · rename_i b1 h1
      rw [burn_bal h, send_bal h1]
      simp only [Kind.increasing, if_true]
      have : ¬ (s.cust = y ∧ a.payDenom = e) := fun c => hy1 c.1.symm
      have : ¬ (s.cust = y ∧ a.lotDenom = e) := fun c => hy1 c.1.symm
      simp [*]
  · -- debtV1
    rw [send_bal h, mint_bal]
    simp only [Kind.increasing]
    have : ¬ (s.cust = y ∧ a.payDenom = e) := fun c => hy1 c.1.symm
    have : ¬ (s.coll = y ∧ a.payDenom = e) := fun c => hy2 c.1.symm
    simp [*]
  · -- surplusV2
    split at h
    · simp at h
    · rename_i b1 h1
      split at h
      · simp at h
      · rename_i b2 h2
        rw [burn_bal h, send_bal h2, send_bal h1]
        simp only [Kind.increasing, if_true]
        have : ¬ (s.cust = y ∧ a.payDenom = e) := fun c => hy1 c.1.symm
        have : ¬ (s.cust = y ∧ a.lotDenom = e) := fun c => hy1 c.1.symm
        have : ¬ (s.coll = y ∧ a.lotDenom = e) := fun c => hy2 c.1.symm
        simp [*]
  · -- debtV2
    rw [send_bal h, mint_bal]
    simp only [Kind.increasing]
    have : ¬ (s.cust = y ∧ a.payDenom = e) := fun c => hy1 c.1.symm
    have : ¬ (s.coll = y ∧ a.payDenom = e) := fun c => hy2 c.1.symm
    simp [*]

/-- at close the custody gives up exactly what it held for this auction -/
theorem closeBank_cust {s : State} {a : Auction} {w : Acct} {b : Bank} (h : closeBank s a w = some b)
    (hw : w ≠ s.cust) (hc : s.cust ≠ s.coll) (e : Denom) :
    bal b s.cust e = bal s.bank s.cust e - (if a.payDenom = e then a.pay else 0)
      - (if a.kind = .surplusV1 ∧ a.lotDenom = e then a.lot else 0) := by
  have hc' : ¬ s.coll = s.cust := fun c => hc c.symm
  have hw' : ¬ w = s.cust := hw
  unfold closeBank at h
  cases hk : a.kind <;> simp only [hk] at h
  · split at h
    · simp at h
    · rename_i b1 h1
      rw [burn_bal h, send_bal h1]
      by_cases h1 : a.payDenom = e <;> by_cases h2 : a.lotDenom = e <;> simp [h1, h2, hw'] <;> omega
  · rw [send_bal h, mint_bal]
    by_cases h1 : a.payDenom = e <;> simp [h1, hw', hc']
  · split at h
    · simp at h
    · rename_i b1 h1
      split at h
      · simp at h
      · rename_i b2 h2
        rw [burn_bal h, send_bal h2, send_bal h1]
        by_cases h1 : a.payDenom = e <;> by_cases h2 : a.lotDenom = e <;> simp [h1, h2, hw', hc']
  · rw [send_bal h, mint_bal]
    by_cases h1 : a.payDenom = e <;> simp [h1, hw', hc']

theorem start_spec {s s' : State} {a : Auction} (h : startStep s a = some s') :
    a.bidder = none ∧ s'.live = a :: s.live ∧ s'.cust = s.cust ∧ s'.coll = s.coll ∧ s'.closed = s.closed ∧
    s'.now = s.now ∧
    ∀ y e, bal s'.bank y e = bal s.bank y e
      - (if (a.kind = .surplusV1 ∨ a.kind = .surplusV2) ∧ s.coll = y ∧ a.lotDenom = e then a.lot else 0)
      + (if a.kind = .surplusV1 ∧ s.cust = y ∧ a.lotDenom = e then a.lot else 0) := by
  unfold startStep at h
  split at h
  · simp at h
  · rename_i hb
    split at h
    · simp at h
    · split at h
      · simp at h
      · have hb' : a.bidder = none := by
          cases hbb : a.bidder with
          | none => rfl
          | some p => simp [hbb] at hb
        cases hk : a.kind <;> simp only [hk] at h
        · split at h
          · simp at h
          · rename_i b h1
            simp only [Option.some.injEq] at h
            subst h
            refine ⟨hb', rfl, rfl, rfl, rfl, rfl, ?_⟩
            intro y e
            rw [send_bal h1]
            simp
        · simp only [Option.some.injEq] at h
          subst h
          exact ⟨hb', rfl, rfl, rfl, rfl, rfl, by intro y e; simp⟩
        · split at h
          · simp at h
          · rename_i b h1
            simp only [Option.some.injEq] at h
            subst h
            refine ⟨hb', rfl, rfl, rfl, rfl, rfl, ?_⟩
            intro y e
            rw [sendAway_bal h1]
            simp
        · simp only [Option.some.injEq] at h
          subst h
          exact ⟨hb', rfl, rfl, rfl, rfl, rfl, by intro y e; simp⟩

/-! ## invariants, one step at a time -/

/-- module accounts are distinct and never hold a standing bid -/
def Good (s : State) : Prop := s.cust ≠ s.coll ∧ ∀ a ∈ s.live, a.bidder ≠ some s.cust

/-- user messages are signed by users: the custody module account has no key -/
def SenderOk (s : State) (op : Op) : Prop := ∀ who, op.sender? = some who → who ≠ s.cust

/-- custody balance not accounted for by live auctions -/
def custGap (s : State) (d : Denom) : Int := bal s.bank s.cust d - sumBy (held d) s.live

/-- a user's balance, plus what it has locked as standing bids, minus what it won -/
def userNet (s : State) (x : Acct) (d : Denom) : Int :=
  bal s.bank x d + sumBy (stakeOf x d) s.live - sumBy (gainOf x d) s.closed

theorem held_upd {a a' : Auction} {who : Acct} {payIn amt : Int} (u : Upd a a' who payIn amt) (d : Denom) :
    held d a' - held d a =
      (if a.payDenom = d then payIn else 0) - (if a.bidder.isSome ∧ a.payDenom = d then a.pay else 0) := by
  unfold held
  rw [u.bidder, u.payDenom, u.pay, u.kind, u.lotDenom]
  have hl : a.kind = .surplusV1 → a'.lot = a.lot := by
    intro hk
    exact (u.inc (by simp [hk, Kind.increasing])).2.1
  by_cases hk : a.kind = .surplusV1
  · rw [hl hk]; simp [hk]; omega
  · simp [hk]

theorem accept_custGap {s s' : State} {a a' : Auction} {who : Acct} {payIn amt : Int}
    (h : accept s a who a' payIn = some s') (hf : findAuc s.live a.id = some a) (u : Upd a a' who payIn amt)
    (hw : who ≠ s.cust) (hp : a.bidder ≠ some s.cust) (d : Denom) : custGap s' d = custGap s d := by
  obtain ⟨hc, _, _, _, hl, _, hb⟩ := accept_spec h
  unfold custGap
  have hf' : findAuc s.live a'.id = some a := by rw [u.id]; exact hf
  rw [hc, hl, sumBy_setAuc _ _ _ _ hf', hb]
  have hh := held_upd u d
  have hw' : ¬ who = s.cust := hw
  cases hbd : a.bidder with
  | none =>
    simp only [hbd, Option.isSome_none, Bool.false_eq_true, false_and, if_false] at hh ⊢
    by_cases h1 : a.payDenom = d <;> simp [h1, hw'] at hh ⊢ <;> omega
  | some p =>
    have hp' : ¬ p = s.cust := fun c => hp (by rw [hbd, c])
    simp only [hbd, Option.isSome_some, true_and] at hh ⊢
    by_cases h1 : a.payDenom = d <;> simp [h1, hw', hp'] at hh ⊢ <;> omega

theorem stake_upd {a a' : Auction} {who : Acct} {payIn amt : Int} (u : Upd a a' who payIn amt)
    (x : Acct) (d : Denom) :
    stakeOf x d a' - stakeOf x d a =
      (if who = x ∧ a.payDenom = d then payIn else 0) - (if a.bidder = some x ∧ a.payDenom = d then a.pay else 0) := by
  unfold stakeOf
  rw [u.bidder, u.payDenom, u.pay]
  simp

theorem accept_userNet {s s' : State} {a a' : Auction} {who : Acct} {payIn amt : Int}
    (h : accept s a who a' payIn = some s') (hf : findAuc s.live a.id = some a) (u : Upd a a' who payIn amt)
    (x : Acct) (hx : x ≠ s.cust) (d : Denom) : userNet s' x d = userNet s x d := by
  obtain ⟨_, _, hcl, _, hl, _, hb⟩ := accept_spec h
  unfold userNet
  have hf' : findAuc s.live a'.id = some a := by rw [u.id]; exact hf
  rw [hcl, hl, sumBy_setAuc _ _ _ _ hf', hb]
  have hh := stake_upd u x d
  have hx' : ¬ s.cust = x := fun c => hx c.symm
  cases hbd : a.bidder with
  | none =>
    simp only [hbd] at hh ⊢
    by_cases h1 : a.payDenom = d <;> by_cases h2 : who = x <;> simp [h1, h2, hx'] at hh ⊢ <;> omega
  | some p =>
    simp only [hbd, Option.some.injEq] at hh ⊢
    by_cases h1 : a.payDenom = d <;> by_cases h2 : who = x <;> by_cases h3 : p = x <;>
      simp [h1, h2, h3, hx'] at hh ⊢ <;> omega

theorem accept_good {s s' : State} {a a' : Auction} {who : Acct} {payIn amt : Int}
    (h : accept s a who a' payIn = some s') (u : Upd a a' who payIn amt) (hw : who ≠ s.cust) (g : Good s) :
    Good s' := by
  obtain ⟨hc, hco, _, _, hl, _, _⟩ := accept_spec h
  refine ⟨by rw [hc, hco]; exact g.1, ?_⟩
  intro b hb
  rw [hl] at hb
  rw [hc]
  rcases mem_setAuc hb with hb | hb
  · exact g.2 b hb
  · subst hb; rw [u.bidder]; intro c; exact hw (Option.some.inj c)

theorem step_frame {s s' : State} {op : Op} (h : step s op = some s') : s'.cust = s.cust ∧ s'.coll = s.coll := by
  cases op with
  | start a => obtain ⟨_, _, h1, h2, _⟩ := start_spec h; exact ⟨h1, h2⟩
  | bid who app mapping id denom amt =>
    obtain ⟨a, a', p, _, ha, _⟩ := bid_accepted h
    obtain ⟨h1, h2, _⟩ := accept_spec ha; exact ⟨h1, h2⟩
  | dbid who app mapping id denom amt ed ea =>
    obtain ⟨a, a', p, _, ha, _⟩ := dbid_accepted h
    obtain ⟨h1, h2, _⟩ := accept_spec ha; exact ⟨h1, h2⟩
  | tick now =>
    simp only [step] at h
    split at h
    · simp at h
    · simp only [Option.some.injEq] at h; subst h; exact ⟨rfl, rfl⟩
  | settle id =>
    obtain ⟨a, _, hr⟩ := settle_spec h
    rcases hr with ⟨_, b, _, hs⟩ | ⟨_, _, ⟨_, hs⟩ | ⟨w, b, _, _, hs⟩⟩ <;> subst hs <;> exact ⟨rfl, rfl⟩
  | esm on =>
    simp only [step, Option.some.injEq] at h; subst h; exact ⟨rfl, rfl⟩

theorem step_good {s s' : State} {op : Op} (h : step s op = some s') (g : Good s) (so : SenderOk s op) :
    Good s' := by
  cases op with
  | start a =>
    obtain ⟨hb, hl, h1, h2, _⟩ := start_spec h
    refine ⟨by rw [h1, h2]; exact g.1, ?_⟩
    intro b hbm
    rw [hl] at hbm
    rw [h1]
    rcases List.mem_cons.mp hbm with hbm | hbm
    · subst hbm; rw [hb]; simp
    · exact g.2 b hbm
  | bid who app mapping id denom amt =>
    obtain ⟨a, a', p, _, ha, u, _⟩ := bid_accepted h
    exact accept_good ha u (so who rfl) g
  | dbid who app mapping id denom amt ed ea =>
    obtain ⟨a, a', p, _, ha, u, _⟩ := dbid_accepted h
    exact accept_good ha u (so who rfl) g
  | tick now =>
    simp only [step] at h
    split at h
    · simp at h
    · simp only [Option.some.injEq] at h; subst h; exact g
  | settle id =>
    obtain ⟨a, hf, hr⟩ := settle_spec h
    rcases hr with ⟨_, b, _, hs⟩ | ⟨_, _, ⟨hb, hs⟩ | ⟨w, b, _, _, hs⟩⟩
    · subst hs
      exact ⟨g.1, fun b hbm => g.2 b (mem_delAuc hbm)⟩
    · subst hs
      refine ⟨g.1, ?_⟩
      intro b hbm
      rcases mem_setAuc hbm with hbm | hbm
      · exact g.2 b hbm
      · subst hbm
        have : (restartRec s.now a).bidder = a.bidder := by
          unfold restartRec; cases a.kind <;> rfl
        rw [this, hb]; simp
    · subst hs
      exact ⟨g.1, fun b hbm => g.2 b (mem_delAuc hbm)⟩
  | esm on =>
    simp only [step, Option.some.injEq] at h; subst h; exact g

theorem restart_held (now : Int) (a : Auction) (hb : a.bidder = none) (d : Denom) :
    held d (restartRec now a) = held d a := by
  unfold restartRec held
  cases hk : a.kind <;> simp [hb]

theorem restart_stake (now : Int) (a : Auction) (hb : a.bidder = none) (x : Acct) (d : Denom) :
    stakeOf x d (restartRec now a) = stakeOf x d a := by
  unfold restartRec stakeOf
  cases hk : a.kind <;> simp [hb]

theorem restart_id (now : Int) (a : Auction) : (restartRec now a).id = a.id := by
  unfold restartRec; cases a.kind <;> rfl

theorem step_custGap {s s' : State} {op : Op} (h : step s op = some s') (g : Good s) (so : SenderOk s op)
    (d : Denom) : custGap s' d = custGap s d := by
  cases op with
  | start a =>
    obtain ⟨hb, hl, h1, h2, _, _, hbal⟩ := start_spec h
    unfold custGap
    rw [h1, hl, hbal]
    simp only [sumBy, held, hb, Option.isSome_none, Bool.false_eq_true, false_and, if_false]
    have hc' : ¬ s.coll = s.cust := fun c => g.1 c.symm
    by_cases hk : a.kind = .surplusV1 <;> by_cases h3 : a.lotDenom = d <;> simp [hk, h3, hc'] <;> omega
  | bid who app mapping id denom amt =>
    obtain ⟨a, a', p, hf, ha, u, _⟩ := bid_accepted h
    have hm := findAuc_mem hf
    exact accept_custGap ha (by rw [hm.2]; exact hf) u (so who rfl) (g.2 a hm.1) d
  | dbid who app mapping id denom amt ed ea =>
    obtain ⟨a, a', p, hf, ha, u, _⟩ := dbid_accepted h
    have hm := findAuc_mem hf
    exact accept_custGap ha (by rw [hm.2]; exact hf) u (so who rfl) (g.2 a hm.1) d
  | tick now =>
    simp only [step] at h
    split at h
    · simp at h
    · simp only [Option.some.injEq] at h; subst h; rfl
  | settle id =>
    obtain ⟨a, hf, hr⟩ := settle_spec h
    have hm := findAuc_mem hf
    rcases hr with ⟨_, b, heb, hs⟩ | ⟨_, _, ⟨hb, hs⟩ | ⟨w, b, hb, hcb, hs⟩⟩
    · subst hs
      unfold custGap
      simp only
      rw [sumBy_delAuc _ _ _ _ hf, esmBank_cust heb (g.2 a hm.1) g.1]
      omega
    · subst hs
      unfold custGap
      simp only
      have hf' : findAuc s.live (restartRec s.now a).id = some a := by rw [restart_id, hm.2]; exact hf
      rw [sumBy_setAuc _ _ _ _ hf', restart_held _ _ hb]; omega
    · subst hs
      unfold custGap
      simp only
      have hw : w ≠ s.cust := fun c => g.2 a hm.1 (by rw [hb, c])
      rw [sumBy_delAuc _ _ _ _ hf, closeBank_cust hcb hw g.1]
      unfold held
      simp only [hb, Option.isSome_some, true_and]
      omega
  | esm on =>
    simp only [step, Option.some.injEq] at h; subst h; rfl

theorem step_userNet {s s' : State} {op : Op} (h : step s op = some s') (x : Acct)
    (hx1 : x ≠ s.cust) (hx2 : x ≠ s.coll) (d : Denom) : userNet s' x d = userNet s x d := by
  cases op with
  | start a =>
    obtain ⟨hb, hl, _, _, hcl, _, hbal⟩ := start_spec h
    unfold userNet
    rw [hl, hcl, hbal]
    have h1 : ¬ s.cust = x := fun c => hx1 c.symm
    have h2 : ¬ s.coll = x := fun c => hx2 c.symm
    simp [sumBy, stakeOf, hb, h1, h2]
  | bid who app mapping id denom amt =>
    obtain ⟨a, a', p, hf, ha, u, _⟩ := bid_accepted h
    have hm := findAuc_mem hf
    exact accept_userNet ha (by rw [hm.2]; exact hf) u x hx1 d
  | dbid who app mapping id denom amt ed ea =>
    obtain ⟨a, a', p, hf, ha, u, _⟩ := dbid_accepted h
    have hm := findAuc_mem hf
    exact accept_userNet ha (by rw [hm.2]; exact hf) u x hx1 d
  | tick now =>
    simp only [step] at h
    split at h
    · simp at h
    · simp only [Option.some.injEq] at h; subst h; rfl
  | esm on =>
    simp only [step, Option.some.injEq] at h; subst h; rfl
  | settle id =>
    obtain ⟨a, hf, hr⟩ := settle_spec h
    have hm := findAuc_mem hf
    rcases hr with ⟨_, b, heb, hs⟩ | ⟨_, _, ⟨hb, hs⟩ | ⟨w, b, hb, hcb, hs⟩⟩
    · subst hs
      unfold userNet
      simp only
      rw [sumBy_delAuc _ _ _ _ hf, esmBank_user heb x d hx1 hx2]
      unfold stakeOf
      omega
    · subst hs
      unfold userNet
      simp only
      have hf' : findAuc s.live (restartRec s.now a).id = some a := by rw [restart_id, hm.2]; exact hf
      rw [sumBy_setAuc _ _ _ _ hf', restart_stake _ _ hb]; omega
    · subst hs
      unfold userNet
      simp only [sumBy]
      rw [sumBy_delAuc _ _ _ _ hf, closeBank_user hcb x d hx1 hx2]
      unfold stakeOf gainOf
      simp only [hb, Option.some.injEq]
      by_cases h1 : w = x <;> by_cases h2 : a.payDenom = d <;> by_cases h3 : a.lotDenom = d <;>
        simp [h1, h2, h3] <;> omega


/-! ## the bid factor -/

/-- the increment the code demands is at least `factor · standing` (as an exact rational: both sides × 10^18) -/
theorem ceilChange_mul_ge (f : Dec) (x : Int) : ceilChange f x * Dec.P ≥ f * x := by
  unfold ceilChange Dec.truncateInt Dec.ceil Dec.mulInt
  generalize f * x = y
  have h := Int.tdiv_mul_add_tmod y Dec.P
  have hP : Dec.P ≠ 0 := by decide
  simp only
  split
  · rw [Int.mul_tdiv_cancel _ hP]; omega
  · split
    · rw [Int.mul_tdiv_cancel _ hP]; omega
    · rw [Int.mul_tdiv_cancel _ hP]
      have : (y.tdiv Dec.P + 1) * Dec.P = y.tdiv Dec.P * Dec.P + Dec.P := by
        rw [Int.add_mul]; simp
      have hp : Dec.P > 0 := by decide
      have := Int.tmod_lt_of_pos y hp
      omega

/-- … and less than one unit above it -/
theorem ceilChange_mul_lt (f : Dec) (x : Int) (h0 : 0 ≤ f * x) : ceilChange f x * Dec.P < f * x + Dec.P := by
  unfold ceilChange Dec.truncateInt Dec.ceil Dec.mulInt
  generalize f * x = y at *
  have h := Int.tdiv_mul_add_tmod y Dec.P
  have hP : Dec.P ≠ 0 := by decide
  have hp : Dec.P > 0 := by decide
  have hr := Int.tmod_nonneg Dec.P h0
  simp only
  split
  · rw [Int.mul_tdiv_cancel _ hP]; omega
  · split
    · omega
    · rw [Int.mul_tdiv_cancel _ hP]
      have : (y.tdiv Dec.P + 1) * Dec.P = y.tdiv Dec.P * Dec.P + Dec.P := by
        rw [Int.add_mul]; simp
      omega

/-! ## whole histories -/

/-- every user message in the history is signed by a user (the custody module account has no key) -/
def UsersOnly (cust : Acct) (ops : List Op) : Prop := ∀ op ∈ ops, ∀ who, op.sender? = some who → who ≠ cust

theorem apply_cases (s : State) (op : Op) : (step s op = some (apply s op)) ∨ (step s op = none ∧ apply s op = s) := by
  unfold apply
  cases h : step s op with
  | none => exact Or.inr ⟨rfl, rfl⟩
  | some s' => exact Or.inl rfl

theorem run_inv (s : State) (ops : List Op) (g : Good s) (hu : UsersOnly s.cust ops) :
    Good (run s ops) ∧ (run s ops).cust = s.cust ∧ (run s ops).coll = s.coll ∧
    (∀ d, custGap (run s ops) d = custGap s d) ∧
    (∀ x d, x ≠ s.cust → x ≠ s.coll → userNet (run s ops) x d = userNet s x d) := by
  induction ops generalizing s with
  | nil => exact ⟨g, rfl, rfl, fun _ => rfl, fun _ _ _ _ => rfl⟩
  | cons op ops ih =>
    have hso : SenderOk s op := fun who hw => hu op (by simp) who hw
    simp only [run, List.foldl_cons]
    rcases apply_cases s op with h | ⟨_, h⟩
    · have hf := step_frame h
      have hu' : UsersOnly (apply s op).cust ops := by
        rw [hf.1]; exact fun o ho => hu o (by simp [ho])
      obtain ⟨i1, i2, i3, i4, i5⟩ := ih (apply s op) (step_good h g hso) hu'
      refine ⟨i1, by rw [← hf.1]; exact i2, by rw [← hf.2]; exact i3, ?_, ?_⟩
      · intro d; rw [← step_custGap h g hso d]; exact i4 d
      · intro x d h1 h2
        rw [← step_userNet h x h1 h2 d]
        exact i5 x d (by rw [hf.1]; exact h1) (by rw [hf.2]; exact h2)
    · rw [h]
      exact ih s g (fun o ho => hu o (by simp [ho]))

theorem closed_have_winner (s : State) (ops : List Op) (h0 : ∀ c ∈ s.closed, c.bidder.isSome) :
    ∀ c ∈ (run s ops).closed, c.bidder.isSome := by
  induction ops generalizing s with
  | nil => exact h0
  | cons op ops ih =>
    simp only [run, List.foldl_cons]
    apply ih
    rcases apply_cases s op with h | ⟨_, h⟩
    · cases op with
      | start a => obtain ⟨_, _, _, _, hc, _⟩ := start_spec h; rw [hc]; exact h0
      | bid who app mapping id denom amt =>
        obtain ⟨a, a', p, _, ha, _⟩ := bid_accepted h
        obtain ⟨_, _, hc, _⟩ := accept_spec ha; rw [hc]; exact h0
      | dbid who app mapping id denom amt ed ea =>
        obtain ⟨a, a', p, _, ha, _⟩ := dbid_accepted h
        obtain ⟨_, _, hc, _⟩ := accept_spec ha; rw [hc]; exact h0
      | tick now =>
        simp only [step] at h
        split at h
        · simp at h
        · simp only [Option.some.injEq] at h; rw [← h]; exact h0
      | esm on =>
        simp only [step, Option.some.injEq] at h; rw [← h]; exact h0
      | settle id =>
        obtain ⟨a, _, hr⟩ := settle_spec h
        rcases hr with ⟨_, b, _, hs⟩ | ⟨_, _, ⟨_, hs⟩ | ⟨w, b, hb, _, hs⟩⟩
        · rw [hs]; exact h0
        · rw [hs]; exact h0
        · rw [hs]
          intro c hc
          rcases List.mem_cons.mp hc with hc | hc
          · subst hc; simp [hb]
          · exact h0 c hc
    · rw [h]; exact h0

theorem blockOps_no_sender (s : State) (now : Int) (cust : Acct) : UsersOnly cust (blockOps s now) := by
  intro op hop who hw
  unfold blockOps at hop
  rcases List.mem_cons.mp hop with hop | hop
  · subst hop; simp [Op.sender?] at hw
  · obtain ⟨a, _, rfl⟩ := List.mem_map.mp hop
    simp [Op.sender?] at hw


/-! ## debt lots stay non-negative once `ValidateBasic` refuses negative bids -/

theorem ceilChange_nonneg (f : Dec) (x : Int) (hf : 0 ≤ f) (hx : 0 ≤ x) : 0 ≤ ceilChange f x := by
  have h1 := ceilChange_mul_ge f x
  have h2 : 0 ≤ f * x := Int.mul_nonneg hf hx
  have h3 : 0 ≤ ceilChange f x * Dec.P := Int.le_trans h2 h1
  have hP : Dec.P = 1000000000000000000 := rfl
  rw [hP] at h3
  omega

theorem accept_flags {s s' : State} {a a' : Auction} {who : Acct} {payIn : Int}
    (h : accept s a who a' payIn = some s') : s'.debtFloor = s.debtFloor ∧ s'.esm = s.esm := by
  unfold accept at h
  split at h
  · simp at h
  · split at h
    · simp only [Option.some.injEq] at h; subst h; exact ⟨rfl, rfl⟩
    · split at h
      · simp at h
      · simp only [Option.some.injEq] at h; subst h; exact ⟨rfl, rfl⟩

theorem start_flags {s s' : State} {a : Auction} (h : startStep s a = some s') :
    s'.debtFloor = s.debtFloor ∧ s'.esm = s.esm := by
  unfold startStep at h
  split at h
  · simp at h
  · split at h
    · simp at h
    · split at h
      · simp at h
      · cases hk : a.kind <;> simp only [hk] at h
        · split at h
          · simp at h
          · simp only [Option.some.injEq] at h; subst h; exact ⟨rfl, rfl⟩
        · simp only [Option.some.injEq] at h; subst h; exact ⟨rfl, rfl⟩
        · split at h
          · simp at h
          · simp only [Option.some.injEq] at h; subst h; exact ⟨rfl, rfl⟩
        · simp only [Option.some.injEq] at h; subst h; exact ⟨rfl, rfl⟩

/-- every decreasing-bid auction has a non-negative standing lot -/
def LotsOk (s : State) : Prop := ∀ a ∈ s.live, a.kind.increasing = false → 0 ≤ a.lot

theorem step_lotsOk {s s' : State} {op : Op} (h : step s op = some s') (hl : LotsOk s)
    (fl : Int) (hfl : s.debtFloor = some fl) (h0 : 0 ≤ fl) (hst : ∀ a, op = .start a → 0 ≤ a.lot) :
    LotsOk s' ∧ s'.debtFloor = s.debtFloor := by
  cases op with
  | start a =>
    obtain ⟨_, hlive, _⟩ := start_spec h
    refine ⟨?_, ?_⟩
    · intro b hb hk
      rw [hlive] at hb
      rcases List.mem_cons.mp hb with hb | hb
      · subst hb; exact hst _ rfl
      · exact hl b hb hk
    · exact (start_flags h).1
  | bid who app mapping id denom amt =>
    obtain ⟨a, a', p, hf, ha, u, _, hpos, hne⟩ := bid_accepted h
    obtain ⟨_, _, _, _, hlive, _, _⟩ := accept_spec ha
    refine ⟨?_, (accept_flags ha).1⟩
    intro b hb hk
    rw [hlive] at hb
    rcases mem_setAuc hb with hb | hb
    · exact hl b hb hk
    · subst hb
      rw [u.kind] at hk
      have hk2 : a.kind = .debtV2 := by
        cases hkk : a.kind <;> simp [hkk, Kind.increasing] at hk hne ⊢
      rw [(u.dec hk).2.1]
      have := hpos hk2
      omega
  | dbid who app mapping id denom amt ed ea =>
    obtain ⟨a, a', p, hf, ha, u, hk1, _, _, _, hfloor⟩ := dbid_accepted h
    obtain ⟨_, _, _, _, hlive, _, _⟩ := accept_spec ha
    refine ⟨?_, (accept_flags ha).1⟩
    intro b hb hk
    rw [hlive] at hb
    rcases mem_setAuc hb with hb | hb
    · exact hl b hb hk
    · subst hb
      rw [u.kind] at hk
      rw [(u.dec hk).2.1]
      have := hfloor fl hfl
      omega
  | tick now =>
    simp only [step] at h
    split at h
    · simp at h
    · simp only [Option.some.injEq] at h; subst h; exact ⟨hl, rfl⟩
  | esm on =>
    simp only [step, Option.some.injEq] at h; subst h; exact ⟨hl, rfl⟩
  | settle id =>
    obtain ⟨a, hf, hr⟩ := settle_spec h
    have hm := findAuc_mem hf
    rcases hr with ⟨_, b, _, hs⟩ | ⟨_, _, ⟨_, hs⟩ | ⟨w, b, _, _, hs⟩⟩
    · subst hs; exact ⟨fun b hb hk => hl b (mem_delAuc hb) hk, rfl⟩
    · subst hs
      refine ⟨?_, rfl⟩
      intro b hb hk
      rcases mem_setAuc hb with hb | hb
      · exact hl b hb hk
      · subst hb
        have h1 : (restartRec s.now a).lot = a.lot := by unfold restartRec; cases a.kind <;> rfl
        have h2 : (restartRec s.now a).kind = a.kind := by unfold restartRec; cases a.kind <;> rfl
        rw [h1]; rw [h2] at hk; exact hl a hm.1 hk
    · subst hs; exact ⟨fun b hb hk => hl b (mem_delAuc hb) hk, rfl⟩

theorem run_lotsOk (s : State) (ops : List Op) (hl : LotsOk s) (fl : Int) (hfl : s.debtFloor = some fl) (h0 : 0 ≤ fl)
    (hst : ∀ op ∈ ops, ∀ a, op = .start a → 0 ≤ a.lot) : LotsOk (run s ops) := by
  induction ops generalizing s with
  | nil => exact hl
  | cons op ops ih =>
    simp only [run, List.foldl_cons]
    rcases apply_cases s op with h | ⟨_, h⟩
    · obtain ⟨h1, h2⟩ := step_lotsOk h hl fl hfl h0 (hst op (by simp))
      exact ih (apply s op) h1 (by rw [h2]; exact hfl) (fun o ho => hst o (by simp [ho]))
    · rw [h]; exact ih s hl hfl (fun o ho => hst o (by simp [ho]))

end Comdex.English
