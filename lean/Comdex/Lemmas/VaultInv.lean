import Comdex.Lemmas.Vault
/-! Every vault message preserves the ledger invariant `Inv` (C01 custody / count / totals, C02 supply). -/
namespace Comdex.Vault
open Comdex

/-! ### the four measures under record updates -/

theorem denomIn_of (cfg : Nat → Option Product) (pr : Nat) (p : Product) (hp : cfg pr = some p) (d : Nat) :
    (denomInOf cfg pr = some d) = (d = p.denomIn) := by
  simp only [denomInOf, hp, Option.map_some, Option.some.injEq]; exact propext ⟨Eq.symm, Eq.symm⟩

theorem denomOut_of (cfg : Nat → Option Product) (pr : Nat) (p : Product) (hp : cfg pr = some p) (d : Nat) :
    (denomOutOf cfg pr = some d) = (d = p.denomOut) := by
  simp only [denomOutOf, hp, Option.map_some, Option.some.injEq]; exact propext ⟨Eq.symm, Eq.symm⟩

/-- replacing an open vault by one with the same id and product -/
theorem measures_setVault (cfg : Nat → Option Product) (V : List VaultRec) (v0 v : VaultRec) (p : Product)
    (hnd : (V.map (·.id)).Nodup) (hm : v0 ∈ V) (hid : v.id = v0.id) (hpr : v.product = v0.product)
    (hp : cfg v0.product = some p) :
    (∀ d, sumBy (fun v : VaultRec => if denomInOf cfg v.product = some d then v.amountIn else 0) (setVault V v) = sumBy (fun v : VaultRec => if denomInOf cfg v.product = some d then v.amountIn else 0) V + if d = p.denomIn then v.amountIn - v0.amountIn else 0) ∧
    (∀ d, sumBy (fun v : VaultRec => if denomOutOf cfg v.product = some d then v.amountOut else 0) (setVault V v) = sumBy (fun v : VaultRec => if denomOutOf cfg v.product = some d then v.amountOut else 0) V + if d = p.denomOut then v.amountOut - v0.amountOut else 0) ∧
    (∀ k, sumBy (fun v : VaultRec => if v.product = k then v.amountIn else 0) (setVault V v) = sumBy (fun v : VaultRec => if v.product = k then v.amountIn else 0) V + if k = v0.product then v.amountIn - v0.amountIn else 0) ∧
    (∀ k, sumBy (fun v : VaultRec => if v.product = k then v.amountOut else 0) (setVault V v) = sumBy (fun v : VaultRec => if v.product = k then v.amountOut else 0) V + if k = v0.product then v.amountOut - v0.amountOut else 0) := by
  refine ⟨?_, ?_, ?_, ?_⟩
  · intro d
    rw [setVault, sumBy_setBy (·.id) _ V v0 v hnd hm hid]
    simp only [hpr, denomIn_of cfg v0.product p hp]
    by_cases h : d = p.denomIn <;> simp [h] <;> omega
  · intro d
    rw [setVault, sumBy_setBy (·.id) _ V v0 v hnd hm hid]
    simp only [hpr, denomOut_of cfg v0.product p hp]
    by_cases h : d = p.denomOut <;> simp [h] <;> omega
  · intro k
    rw [setVault, sumBy_setBy (·.id) _ V v0 v hnd hm hid]
    simp only [hpr]
    by_cases h : k = v0.product
    · subst h; simp; omega
    · have : ¬ v0.product = k := fun e => h e.symm
      simp [h, this]
  · intro k
    rw [setVault, sumBy_setBy (·.id) _ V v0 v hnd hm hid]
    simp only [hpr]
    by_cases h : k = v0.product
    · subst h; simp; omega
    · have : ¬ v0.product = k := fun e => h e.symm
      simp [h, this]

/-- deleting an open vault -/
theorem measures_delVault (cfg : Nat → Option Product) (V : List VaultRec) (v0 : VaultRec) (p : Product)
    (hnd : (V.map (·.id)).Nodup) (hm : v0 ∈ V) (hp : cfg v0.product = some p) :
    (∀ d, sumBy (fun v : VaultRec => if denomInOf cfg v.product = some d then v.amountIn else 0) (delVault V v0.id) = sumBy (fun v : VaultRec => if denomInOf cfg v.product = some d then v.amountIn else 0) V - if d = p.denomIn then v0.amountIn else 0) ∧
    (∀ d, sumBy (fun v : VaultRec => if denomOutOf cfg v.product = some d then v.amountOut else 0) (delVault V v0.id) = sumBy (fun v : VaultRec => if denomOutOf cfg v.product = some d then v.amountOut else 0) V - if d = p.denomOut then v0.amountOut else 0) ∧
    (∀ k, sumBy (fun v : VaultRec => if v.product = k then v.amountIn else 0) (delVault V v0.id) = sumBy (fun v : VaultRec => if v.product = k then v.amountIn else 0) V - if k = v0.product then v0.amountIn else 0) ∧
    (∀ k, sumBy (fun v : VaultRec => if v.product = k then v.amountOut else 0) (delVault V v0.id) = sumBy (fun v : VaultRec => if v.product = k then v.amountOut else 0) V - if k = v0.product then v0.amountOut else 0) := by
  refine ⟨?_, ?_, ?_, ?_⟩
  · intro d
    rw [delVault, sumBy_delBy (·.id) _ V v0 hnd hm]
    simp only [denomIn_of cfg v0.product p hp]
  · intro d
    rw [delVault, sumBy_delBy (·.id) _ V v0 hnd hm]
    simp only [denomOut_of cfg v0.product p hp]
  · intro k
    rw [delVault, sumBy_delBy (·.id) _ V v0 hnd hm]
    by_cases h : k = v0.product
    · subst h; simp
    · have : ¬ v0.product = k := fun e => h e.symm
      simp [h, this]
  · intro k
    rw [delVault, sumBy_delBy (·.id) _ V v0 hnd hm]
    by_cases h : k = v0.product
    · subst h; simp
    · have : ¬ v0.product = k := fun e => h e.symm
      simp [h, this]

/-- appending a new open vault -/
theorem measures_snocVault (cfg : Nat → Option Product) (V : List VaultRec) (v : VaultRec) (p : Product)
    (hp : cfg v.product = some p) :
    (∀ d, sumBy (fun v : VaultRec => if denomInOf cfg v.product = some d then v.amountIn else 0) (V ++ [v]) = sumBy (fun v : VaultRec => if denomInOf cfg v.product = some d then v.amountIn else 0) V + if d = p.denomIn then v.amountIn else 0) ∧
    (∀ d, sumBy (fun v : VaultRec => if denomOutOf cfg v.product = some d then v.amountOut else 0) (V ++ [v]) = sumBy (fun v : VaultRec => if denomOutOf cfg v.product = some d then v.amountOut else 0) V + if d = p.denomOut then v.amountOut else 0) ∧
    (∀ k, sumBy (fun v : VaultRec => if v.product = k then v.amountIn else 0) (V ++ [v]) = sumBy (fun v : VaultRec => if v.product = k then v.amountIn else 0) V + if k = v.product then v.amountIn else 0) ∧
    (∀ k, sumBy (fun v : VaultRec => if v.product = k then v.amountOut else 0) (V ++ [v]) = sumBy (fun v : VaultRec => if v.product = k then v.amountOut else 0) V + if k = v.product then v.amountOut else 0) := by
  refine ⟨?_, ?_, ?_, ?_⟩
  · intro d; rw [sumBy_snoc]; simp only [denomIn_of cfg v.product p hp]
  · intro d; rw [sumBy_snoc]; simp only [denomOut_of cfg v.product p hp]
  · intro k; rw [sumBy_snoc]
    by_cases h : k = v.product
    · subst h; simp
    · have : ¬ v.product = k := fun e => h e.symm
      simp [h, this]
  · intro k; rw [sumBy_snoc]
    by_cases h : k = v.product
    · subst h; simp
    · have : ¬ v.product = k := fun e => h e.symm
      simp [h, this]

theorem measures_setStable (cfg : Nat → Option Product) (S : List StableRec) (v0 v : StableRec) (p : Product)
    (hnd : (S.map (·.id)).Nodup) (hm : v0 ∈ S) (hid : v.id = v0.id) (hpr : v.product = v0.product)
    (hp : cfg v0.product = some p) :
    (∀ d, sumBy (fun v : StableRec => if denomInOf cfg v.product = some d then v.amountIn else 0) (setStable S v) = sumBy (fun v : StableRec => if denomInOf cfg v.product = some d then v.amountIn else 0) S + if d = p.denomIn then v.amountIn - v0.amountIn else 0) ∧
    (∀ d, sumBy (fun v : StableRec => if denomOutOf cfg v.product = some d then v.amountOut else 0) (setStable S v) = sumBy (fun v : StableRec => if denomOutOf cfg v.product = some d then v.amountOut else 0) S + if d = p.denomOut then v.amountOut - v0.amountOut else 0) ∧
    (∀ k, sumBy (fun v : StableRec => if v.product = k then v.amountIn else 0) (setStable S v) = sumBy (fun v : StableRec => if v.product = k then v.amountIn else 0) S + if k = v0.product then v.amountIn - v0.amountIn else 0) ∧
    (∀ k, sumBy (fun v : StableRec => if v.product = k then v.amountOut else 0) (setStable S v) = sumBy (fun v : StableRec => if v.product = k then v.amountOut else 0) S + if k = v0.product then v.amountOut - v0.amountOut else 0) := by
  refine ⟨?_, ?_, ?_, ?_⟩
  · intro d
    rw [setStable, sumBy_setBy (·.id) _ S v0 v hnd hm hid]
    simp only [hpr, denomIn_of cfg v0.product p hp]
    by_cases h : d = p.denomIn <;> simp [h] <;> omega
  · intro d
    rw [setStable, sumBy_setBy (·.id) _ S v0 v hnd hm hid]
    simp only [hpr, denomOut_of cfg v0.product p hp]
    by_cases h : d = p.denomOut <;> simp [h] <;> omega
  · intro k
    rw [setStable, sumBy_setBy (·.id) _ S v0 v hnd hm hid]
    simp only [hpr]
    by_cases h : k = v0.product
    · subst h; simp; omega
    · have : ¬ v0.product = k := fun e => h e.symm
      simp [h, this]
  · intro k
    rw [setStable, sumBy_setBy (·.id) _ S v0 v hnd hm hid]
    simp only [hpr]
    by_cases h : k = v0.product
    · subst h; simp; omega
    · have : ¬ v0.product = k := fun e => h e.symm
      simp [h, this]

theorem measures_snocStable (cfg : Nat → Option Product) (S : List StableRec) (v : StableRec) (p : Product)
    (hp : cfg v.product = some p) :
    (∀ d, sumBy (fun v : StableRec => if denomInOf cfg v.product = some d then v.amountIn else 0) (S ++ [v]) = sumBy (fun v : StableRec => if denomInOf cfg v.product = some d then v.amountIn else 0) S + if d = p.denomIn then v.amountIn else 0) ∧
    (∀ d, sumBy (fun v : StableRec => if denomOutOf cfg v.product = some d then v.amountOut else 0) (S ++ [v]) = sumBy (fun v : StableRec => if denomOutOf cfg v.product = some d then v.amountOut else 0) S + if d = p.denomOut then v.amountOut else 0) ∧
    (∀ k, sumBy (fun v : StableRec => if v.product = k then v.amountIn else 0) (S ++ [v]) = sumBy (fun v : StableRec => if v.product = k then v.amountIn else 0) S + if k = v.product then v.amountIn else 0) ∧
    (∀ k, sumBy (fun v : StableRec => if v.product = k then v.amountOut else 0) (S ++ [v]) = sumBy (fun v : StableRec => if v.product = k then v.amountOut else 0) S + if k = v.product then v.amountOut else 0) := by
  refine ⟨?_, ?_, ?_, ?_⟩
  · intro d; rw [sumBy_snoc]; simp only [denomIn_of cfg v.product p hp]
  · intro d; rw [sumBy_snoc]; simp only [denomOut_of cfg v.product p hp]
  · intro k; rw [sumBy_snoc]
    by_cases h : k = v.product
    · subst h; simp
    · have : ¬ v.product = k := fun e => h e.symm
      simp [h, this]
  · intro k; rw [sumBy_snoc]
    by_cases h : k = v.product
    · subst h; simp
    · have : ¬ v.product = k := fun e => h e.symm
      simp [h, this]

theorem measures_snocLocked (cfg : Nat → Option Product) (L : List LockedRec) (v : LockedRec) (p : Product)
    (hp : cfg v.product = some p) :
    (∀ d, sumBy (fun v : LockedRec => if denomOutOf cfg v.product = some d then v.amountOut else 0) (L ++ [v]) = sumBy (fun v : LockedRec => if denomOutOf cfg v.product = some d then v.amountOut else 0) L + if d = p.denomOut then v.amountOut else 0) ∧
    (∀ k, sumBy (fun v : LockedRec => if v.product = k then v.amountIn else 0) (L ++ [v]) = sumBy (fun v : LockedRec => if v.product = k then v.amountIn else 0) L + if k = v.product then v.amountIn else 0) ∧
    (∀ k, sumBy (fun v : LockedRec => if v.product = k then v.amountOut else 0) (L ++ [v]) = sumBy (fun v : LockedRec => if v.product = k then v.amountOut else 0) L + if k = v.product then v.amountOut else 0) := by
  refine ⟨?_, ?_, ?_⟩
  · intro d; rw [sumBy_snoc]; simp only [denomOut_of cfg v.product p hp]
  · intro k; rw [sumBy_snoc]
    by_cases h : k = v.product
    · subst h; simp
    · have : ¬ v.product = k := fun e => h e.symm
      simp [h, this]
  · intro k; rw [sumBy_snoc]
    by_cases h : k = v.product
    · subst h; simp
    · have : ¬ v.product = k := fun e => h e.symm
      simp [h, this]

end Comdex.Vault

namespace Comdex.Vault
open Comdex

/-- the invariant (relative to any fixed offsets `G`) follows from matching deltas of balances, records and totals -/
theorem inv_of_deltas (cfg : Nat → Option Product) (G : Gaps) (s s' : State) (dv ds Δc Δm Δu Δe : Nat → Int) (Δlen : Int)
    (hinv : InvG cfg G s) (hwf : Wf cfg s')
    (hbal : ∀ d, s'.bal vm d = s.bal vm d + dv d) (hsupply : ∀ d, s'.supply d = s.supply d + ds d)
    (hcoll : ∀ k, s'.coll k = s.coll k + Δc k) (hmint : ∀ k, s'.minted k = s.minted k + Δm k)
    (hlen : s'.length = s.length + Δlen) (hlen2 : (s'.vaults.length : Int) = s.vaults.length + Δlen)
    (hun : ∀ d, s'.unsolicited d = s.unsolicited d + Δu d) (hex : ∀ d, s'.extSupply d = s.extSupply d + Δe d)
    (h1 : ∀ d, collRecorded cfg s' d = collRecorded cfg s d + dv d - Δu d)
    (h2 : ∀ k, collOfProduct s' k = collOfProduct s k + Δc k)
    (h3 : ∀ k, mintedOfProduct s' k = mintedOfProduct s k + Δm k)
    (h4 : ∀ d, principalRecorded cfg s' d = principalRecorded cfg s d + ds d - Δe d)
    (hlim : Limits cfg s') : InvG cfg G s' := by
  obtain ⟨_, hcnt, hcus, htot, hsup, _⟩ := hinv
  refine ⟨hwf, ?_, ?_, ?_, ?_, hlim⟩
  · unfold CountOkG at *; omega
  · intro d; have := hcus d; unfold CustodyAtG at *; rw [hbal, h1, hun]; omega
  · intro k; have := htot k; unfold TotalsAtG at *; rw [hcoll, hmint, h2, h3]; omega
  · intro d; have := hsup d; unfold SupplyAtG at *; rw [hsupply, h4, hex]; omega

theorem length_setBy {α : Type} (idf : α → Nat) (l : List α) (v : α) : (setBy idf l v).length = l.length := by
  simp [setBy]

/-- an open vault changes its amounts (deposit, withdraw, draw, repay, interest) -/
theorem inv_setVault (cfg : Nat → Option Product) (G : Gaps) (s s' : State) (p : Product) (v0 v : VaultRec)
    (hinv : InvG cfg G s) (hm : v0 ∈ s.vaults) (hp : cfg v0.product = some p)
    (hid : v.id = v0.id) (hpr : v.product = v0.product)
    (hnn : 0 ≤ v.amountIn ∧ 0 ≤ v.amountOut ∧ 0 ≤ v.interest ∧ 0 ≤ v.closingFee)
    (hV : s'.vaults = setVault s.vaults v) (hS : s'.stables = s.stables) (hL : s'.locked = s.locked)
    (hnv : s'.nextVault = s.nextVault) (hns : s'.nextStable = s.nextStable) (hlen : s'.length = s.length)
    (hun : s'.unsolicited = s.unsolicited) (hex : s'.extSupply = s.extSupply)
    (hbal : ∀ d, s'.bal vm d = s.bal vm d + if d = p.denomIn then v.amountIn - v0.amountIn else 0)
    (hsup : ∀ d, s'.supply d = s.supply d + if d = p.denomOut then v.amountOut - v0.amountOut else 0)
    (hcoll : ∀ k, s'.coll k = s.coll k + if k = v0.product then v.amountIn - v0.amountIn else 0)
    (hmint : ∀ k, s'.minted k = s.minted k + if k = v0.product then v.amountOut - v0.amountOut else 0)
    (hlim : Limits cfg s') :
    InvG cfg G s' := by
  have hinv0 := hinv
  obtain ⟨⟨hnd, hvs, hnds, hss, hls⟩, _, _, _, _⟩ := hinv
  obtain ⟨m1, m2, m3, m4⟩ := measures_setVault cfg s.vaults v0 v p hnd hm hid hpr hp
  have hv0 := hvs v0 hm
  apply inv_of_deltas cfg G s s' _ _ _ _ (fun _ => 0) (fun _ => 0) 0 hinv0 ?_ hbal hsup hcoll hmint
    (by rw [hlen]; omega) (by rw [hV, setVault, length_setBy]; omega) (by intro d; rw [hun]; omega)
    (by intro d; rw [hex]; omega)
  · intro d; simp only [collRecorded, hV, hS]; rw [m1 d]; omega
  · intro k; simp only [collOfProduct, hV, hS, hL]; rw [m3 k]; omega
  · intro k; simp only [mintedOfProduct, hV, hS, hL]; rw [m4 k]; omega
  · intro d; simp only [principalRecorded, hV, hS, hL]; rw [m2 d]; omega
  · exact hlim
  · refine ⟨?_, ?_, by rw [hS]; exact hnds, by rw [hS, hns]; exact hss, by rw [hL]; exact hls⟩
    · rw [hV, setVault, map_id_setBy]; exact hnd
    · intro w hw
      rw [hV, setVault] at hw
      rw [hnv]
      rcases mem_setBy _ _ _ _ hw with rfl | hw'
      · exact ⟨by rw [hid]; exact hv0.1, by rw [hpr]; exact hv0.2.1, hnn⟩
      · exact hvs w hw'

/-- an open vault is closed -/
theorem inv_delVault (cfg : Nat → Option Product) (G : Gaps) (s s' : State) (p : Product) (v0 : VaultRec)
    (hinv : InvG cfg G s) (hm : v0 ∈ s.vaults) (hp : cfg v0.product = some p)
    (hV : s'.vaults = delVault s.vaults v0.id) (hS : s'.stables = s.stables) (hL : s'.locked = s.locked)
    (hnv : s'.nextVault = s.nextVault) (hns : s'.nextStable = s.nextStable) (hlen : s'.length = s.length - 1)
    (hun : s'.unsolicited = s.unsolicited) (hex : s'.extSupply = s.extSupply)
    (hbal : ∀ d, s'.bal vm d = s.bal vm d + if d = p.denomIn then - v0.amountIn else 0)
    (hsup : ∀ d, s'.supply d = s.supply d + if d = p.denomOut then - v0.amountOut else 0)
    (hcoll : ∀ k, s'.coll k = s.coll k + if k = v0.product then - v0.amountIn else 0)
    (hmint : ∀ k, s'.minted k = s.minted k + if k = v0.product then - v0.amountOut else 0)
    (hlim : Limits cfg s') :
    InvG cfg G s' := by
  have hinv0 := hinv
  obtain ⟨⟨hnd, hvs, hnds, hss, hls⟩, _, _, _, _⟩ := hinv
  obtain ⟨m1, m2, m3, m4⟩ := measures_delVault cfg s.vaults v0 p hnd hm hp
  have hlenl : ((delVault s.vaults v0.id).length : Int) = s.vaults.length - 1 := by
    have h1 := sumBy_delBy (·.id) (fun _ => (1 : Int)) s.vaults v0 hnd hm
    have hone : ∀ l : List VaultRec, sumBy (fun _ => (1 : Int)) l = l.length := by
      intro l; induction l with
      | nil => rfl
      | cons a t ih => rw [sumBy_cons, ih]; simp; omega
    rw [hone, hone] at h1; exact h1
  apply inv_of_deltas cfg G s s' _ _ _ _ (fun _ => 0) (fun _ => 0) (-1) hinv0 ?_ hbal hsup hcoll hmint
    (by rw [hlen]; omega) (by rw [hV, hlenl]; omega) (by intro d; rw [hun]; omega)
    (by intro d; rw [hex]; omega)
  · intro d; simp only [collRecorded, hV, hS]; rw [m1 d]; split <;> omega
  · intro k; simp only [collOfProduct, hV, hS, hL]; rw [m3 k]; split <;> omega
  · intro k; simp only [mintedOfProduct, hV, hS, hL]; rw [m4 k]; split <;> omega
  · intro d; simp only [principalRecorded, hV, hS, hL]; rw [m2 d]; split <;> omega
  · exact hlim
  · refine ⟨?_, ?_, by rw [hS]; exact hnds, by rw [hS, hns]; exact hss, by rw [hL]; exact hls⟩
    · rw [hV, delVault]; exact nodup_delBy _ _ _ hnd
    · intro w hw
      rw [hV, delVault] at hw
      rw [hnv]
      exact hvs w (mem_delBy _ _ _ _ hw)

/-- an open vault is seized: it moves to the list awaiting auction settlement, the totals stay -/
theorem inv_seizeVault (cfg : Nat → Option Product) (G : Gaps) (s s' : State) (p : Product) (v0 : VaultRec)
    (hinv : InvG cfg G s) (hm : v0 ∈ s.vaults) (hp : cfg v0.product = some p)
    (dbt : Int) (hdbt : v0.amountOut ≤ dbt)
    (hV : s'.vaults = delVault s.vaults v0.id) (hS : s'.stables = s.stables)
    (hL : s'.locked = s.locked ++ [{ vaultId := v0.id, product := v0.product, amountIn := v0.amountIn, amountOut := v0.amountOut, debt := dbt }])
    (hnv : s'.nextVault = s.nextVault) (hns : s'.nextStable = s.nextStable) (hlen : s'.length = s.length - 1)
    (hun : s'.unsolicited = s.unsolicited) (hex : s'.extSupply = s.extSupply)
    (hbal : ∀ d, s'.bal vm d = s.bal vm d + if d = p.denomIn then - v0.amountIn else 0)
    (hsup : ∀ d, s'.supply d = s.supply d)
    (hcoll : ∀ k, s'.coll k = s.coll k) (hmint : ∀ k, s'.minted k = s.minted k)
    (hlim : Limits cfg s') :
    InvG cfg G s' := by
  have hinv0 := hinv
  obtain ⟨⟨hnd, hvs, hnds, hss, hls⟩, _, _, _, _⟩ := hinv
  obtain ⟨m1, m2, m3, m4⟩ := measures_delVault cfg s.vaults v0 p hnd hm hp
  obtain ⟨n2, n3, n4⟩ := measures_snocLocked cfg s.locked
    { vaultId := v0.id, product := v0.product, amountIn := v0.amountIn, amountOut := v0.amountOut, debt := dbt } p hp
  have hlenl : ((delVault s.vaults v0.id).length : Int) = s.vaults.length - 1 := by
    have h1 := sumBy_delBy (·.id) (fun _ => (1 : Int)) s.vaults v0 hnd hm
    have hone : ∀ l : List VaultRec, sumBy (fun _ => (1 : Int)) l = l.length := by
      intro l; induction l with
      | nil => rfl
      | cons a t ih => rw [sumBy_cons, ih]; simp; omega
    rw [hone, hone] at h1; exact h1
  apply inv_of_deltas cfg G s s' _ (fun _ => 0) (fun _ => 0) (fun _ => 0) (fun _ => 0) (fun _ => 0) (-1) hinv0 ?_ hbal
    (by intro d; rw [hsup]; omega) (by intro k; rw [hcoll]; omega) (by intro k; rw [hmint]; omega)
    (by rw [hlen]; omega) (by rw [hV, hlenl]; omega) (by intro d; rw [hun]; omega)
    (by intro d; rw [hex]; omega)
  · intro d; simp only [collRecorded, hV, hS]; rw [m1 d]; split <;> omega
  · intro k; simp only [collOfProduct, hV, hS, hL]; rw [m3 k, n3 k]; simp only []; split <;> omega
  · intro k; simp only [mintedOfProduct, hV, hS, hL]; rw [m4 k, n4 k]; simp only []; split <;> omega
  · intro d; simp only [principalRecorded, hV, hS, hL]; rw [m2 d, n2 d]; simp only []; split <;> omega
  · exact hlim
  · refine ⟨?_, ?_, by rw [hS]; exact hnds, by rw [hS, hns]; exact hss, ?_⟩
    · rw [hV, delVault]; exact nodup_delBy _ _ _ hnd
    · intro w hw
      rw [hV, delVault] at hw
      rw [hnv]
      exact hvs w (mem_delBy _ _ _ _ hw)
    · intro w hw
      rw [hL] at hw
      rcases List.mem_append.mp hw with h | h
      · exact hls w h
      · simp only [List.mem_singleton] at h; subst h; exact ⟨by simp [hp], (hvs v0 hm).2.2.2.1, hdbt⟩

/-- a new vault is opened -/
theorem inv_snocVault (cfg : Nat → Option Product) (G : Gaps) (s s' : State) (p : Product) (v : VaultRec)
    (hinv : InvG cfg G s) (hp : cfg v.product = some p) (hid : v.id = s.nextVault + 1)
    (hnn : 0 ≤ v.amountIn ∧ 0 ≤ v.amountOut ∧ 0 ≤ v.interest ∧ 0 ≤ v.closingFee)
    (hV : s'.vaults = s.vaults ++ [v]) (hS : s'.stables = s.stables) (hL : s'.locked = s.locked)
    (hnv : s'.nextVault = s.nextVault + 1) (hns : s'.nextStable = s.nextStable) (hlen : s'.length = s.length + 1)
    (hun : s'.unsolicited = s.unsolicited) (hex : s'.extSupply = s.extSupply)
    (hbal : ∀ d, s'.bal vm d = s.bal vm d + if d = p.denomIn then v.amountIn else 0)
    (hsup : ∀ d, s'.supply d = s.supply d + if d = p.denomOut then v.amountOut else 0)
    (hcoll : ∀ k, s'.coll k = s.coll k + if k = v.product then v.amountIn else 0)
    (hmint : ∀ k, s'.minted k = s.minted k + if k = v.product then v.amountOut else 0)
    (hlim : Limits cfg s') :
    InvG cfg G s' := by
  have hinv0 := hinv
  obtain ⟨⟨hnd, hvs, hnds, hss, hls⟩, _, _, _, _⟩ := hinv
  obtain ⟨m1, m2, m3, m4⟩ := measures_snocVault cfg s.vaults v p hp
  apply inv_of_deltas cfg G s s' _ _ _ _ (fun _ => 0) (fun _ => 0) 1 hinv0 ?_ hbal hsup hcoll hmint
    (by rw [hlen]) (by rw [hV]; simp) (by intro d; rw [hun]; omega) (by intro d; rw [hex]; omega)
  · intro d; simp only [collRecorded, hV, hS]; rw [m1 d]; omega
  · intro k; simp only [collOfProduct, hV, hS, hL]; rw [m3 k]; omega
  · intro k; simp only [mintedOfProduct, hV, hS, hL]; rw [m4 k]; omega
  · intro d; simp only [principalRecorded, hV, hS, hL]; rw [m2 d]; omega
  · exact hlim
  · refine ⟨?_, ?_, by rw [hS]; exact hnds, by rw [hS, hns]; exact hss, by rw [hL]; exact hls⟩
    · rw [hV, List.map_append, List.nodup_append]
      refine ⟨hnd, by simp, ?_⟩
      intro a ha b hb
      simp only [List.map_cons, List.map_nil, List.mem_singleton] at hb
      obtain ⟨w, hw, rfl⟩ := List.mem_map.mp ha
      have := (hvs w hw).1
      omega
    · intro w hw
      rw [hV] at hw
      rw [hnv]
      rcases List.mem_append.mp hw with h | h
      · have := hvs w h; exact ⟨by omega, this.2⟩
      · simp only [List.mem_singleton] at h; subst h
        exact ⟨by omega, by simp [hp], hnn⟩

/-- a stable-mint vault is opened -/
theorem inv_snocStable (cfg : Nat → Option Product) (G : Gaps) (s s' : State) (p : Product) (v : StableRec)
    (hinv : InvG cfg G s) (hp : cfg v.product = some p) (hid : v.id = s.nextStable + 1)
    (hV : s'.vaults = s.vaults) (hS : s'.stables = s.stables ++ [v]) (hL : s'.locked = s.locked)
    (hnv : s'.nextVault = s.nextVault) (hns : s'.nextStable = s.nextStable + 1) (hlen : s'.length = s.length)
    (hun : s'.unsolicited = s.unsolicited) (hex : s'.extSupply = s.extSupply)
    (hbal : ∀ d, s'.bal vm d = s.bal vm d + if d = p.denomIn then v.amountIn else 0)
    (hsup : ∀ d, s'.supply d = s.supply d + if d = p.denomOut then v.amountOut else 0)
    (hcoll : ∀ k, s'.coll k = s.coll k + if k = v.product then v.amountIn else 0)
    (hmint : ∀ k, s'.minted k = s.minted k + if k = v.product then v.amountOut else 0)
    (hlim : Limits cfg s') :
    InvG cfg G s' := by
  have hinv0 := hinv
  obtain ⟨⟨hnd, hvs, hnds, hss, hls⟩, _, _, _, _⟩ := hinv
  obtain ⟨m1, m2, m3, m4⟩ := measures_snocStable cfg s.stables v p hp
  apply inv_of_deltas cfg G s s' _ _ _ _ (fun _ => 0) (fun _ => 0) 0 hinv0 ?_ hbal hsup hcoll hmint
    (by rw [hlen]; omega) (by rw [hV]; omega) (by intro d; rw [hun]; omega) (by intro d; rw [hex]; omega)
  · intro d; simp only [collRecorded, hV, hS]; rw [m1 d]; omega
  · intro k; simp only [collOfProduct, hV, hS, hL]; rw [m3 k]; omega
  · intro k; simp only [mintedOfProduct, hV, hS, hL]; rw [m4 k]; omega
  · intro d; simp only [principalRecorded, hV, hS, hL]; rw [m2 d]; omega
  · exact hlim
  · refine ⟨by rw [hV]; exact hnd, by rw [hV, hnv]; exact hvs, ?_, ?_, by rw [hL]; exact hls⟩
    · rw [hS, List.map_append, List.nodup_append]
      refine ⟨hnds, by simp, ?_⟩
      intro a ha b hb
      simp only [List.map_cons, List.map_nil, List.mem_singleton] at hb
      obtain ⟨w, hw, rfl⟩ := List.mem_map.mp ha
      have := (hss w hw).1
      omega
    · intro w hw
      rw [hS] at hw
      rw [hns]
      rcases List.mem_append.mp hw with h | h
      · have := hss w h; exact ⟨by omega, this.2⟩
      · simp only [List.mem_singleton] at h; subst h
        exact ⟨by omega, by simp [hp]⟩

/-- a stable-mint vault changes its amounts -/
theorem inv_setStable (cfg : Nat → Option Product) (G : Gaps) (s s' : State) (p : Product) (v0 v : StableRec)
    (hinv : InvG cfg G s) (hm : v0 ∈ s.stables) (hp : cfg v0.product = some p)
    (hid : v.id = v0.id) (hpr : v.product = v0.product)
    (hV : s'.vaults = s.vaults) (hS : s'.stables = setStable s.stables v) (hL : s'.locked = s.locked)
    (hnv : s'.nextVault = s.nextVault) (hns : s'.nextStable = s.nextStable) (hlen : s'.length = s.length)
    (hun : s'.unsolicited = s.unsolicited) (hex : s'.extSupply = s.extSupply)
    (hbal : ∀ d, s'.bal vm d = s.bal vm d + if d = p.denomIn then v.amountIn - v0.amountIn else 0)
    (hsup : ∀ d, s'.supply d = s.supply d + if d = p.denomOut then v.amountOut - v0.amountOut else 0)
    (hcoll : ∀ k, s'.coll k = s.coll k + if k = v0.product then v.amountIn - v0.amountIn else 0)
    (hmint : ∀ k, s'.minted k = s.minted k + if k = v0.product then v.amountOut - v0.amountOut else 0)
    (hlim : Limits cfg s') :
    InvG cfg G s' := by
  have hinv0 := hinv
  obtain ⟨⟨hnd, hvs, hnds, hss, hls⟩, _, _, _, _⟩ := hinv
  obtain ⟨m1, m2, m3, m4⟩ := measures_setStable cfg s.stables v0 v p hnds hm hid hpr hp
  have hv0 := hss v0 hm
  apply inv_of_deltas cfg G s s' _ _ _ _ (fun _ => 0) (fun _ => 0) 0 hinv0 ?_ hbal hsup hcoll hmint
    (by rw [hlen]; omega) (by rw [hV]; omega) (by intro d; rw [hun]; omega) (by intro d; rw [hex]; omega)
  · intro d; simp only [collRecorded, hV, hS]; rw [m1 d]; omega
  · intro k; simp only [collOfProduct, hV, hS, hL]; rw [m3 k]; omega
  · intro k; simp only [mintedOfProduct, hV, hS, hL]; rw [m4 k]; omega
  · intro d; simp only [principalRecorded, hV, hS, hL]; rw [m2 d]; omega
  · exact hlim
  · refine ⟨by rw [hV]; exact hnd, by rw [hV, hnv]; exact hvs, ?_, ?_, by rw [hL]; exact hls⟩
    · rw [hS, setStable, map_id_setBy]; exact hnds
    · intro w hw
      rw [hS, setStable] at hw
      rw [hns]
      rcases mem_setBy _ _ _ _ hw with rfl | hw'
      · exact ⟨by rw [hid]; exact hv0.1, by rw [hpr]; exact hv0.2⟩
      · exact hss w hw'

end Comdex.Vault

namespace Comdex.Vault
open Comdex

/-! ### the C03 limits under record updates -/

theorem ceil_step (cfg : Nat → Option Product) (s s' : State) (k0 : Nat) (Δ : Int) (hlim : Limits cfg s)
    (hmint : ∀ k, s'.minted k = s.minted k + if k = k0 then Δ else 0)
    (hΔ : Δ ≤ 0 ∨ ∀ p, cfg k0 = some p → s.minted k0 + Δ ≤ p.debtCeiling) :
    ∀ k p, cfg k = some p → s'.minted k ≤ p.debtCeiling := by
  intro k p hp
  have h0 := hlim.2 k p hp
  rw [hmint k]
  by_cases hk : k = k0
  · subst hk
    simp only [if_true]
    rcases hΔ with h | h
    · omega
    · exact h p hp
  · simp [hk]; exact h0

theorem limits_set (cfg : Nat → Option Product) (s s' : State) (v0 v : VaultRec) (k0 : Nat) (Δ : Int)
    (hlim : Limits cfg s) (hm : v0 ∈ s.vaults) (hpr : v.product = v0.product)
    (hV : s'.vaults = setVault s.vaults v)
    (hout : v0.amountOut ≤ v.amountOut ∨ ∀ p, cfg v0.product = some p → p.debtFloor ≤ v.amountOut)
    (hmint : ∀ k, s'.minted k = s.minted k + if k = k0 then Δ else 0)
    (hΔ : Δ ≤ 0 ∨ ∀ p, cfg k0 = some p → s.minted k0 + Δ ≤ p.debtCeiling) : Limits cfg s' := by
  refine ⟨?_, ceil_step cfg s s' k0 Δ hlim hmint hΔ⟩
  intro w hw p hp
  rw [hV, setVault] at hw
  rcases mem_setBy _ _ _ _ hw with rfl | hw'
  · rw [hpr] at hp
    rcases hout with h | h
    · have := hlim.1 v0 hm p hp; omega
    · exact h p hp
  · exact hlim.1 w hw' p hp

theorem limits_del (cfg : Nat → Option Product) (s s' : State) (id k0 : Nat) (Δ : Int)
    (hlim : Limits cfg s) (hV : s'.vaults = delVault s.vaults id)
    (hmint : ∀ k, s'.minted k = s.minted k + if k = k0 then Δ else 0) (hΔ : Δ ≤ 0) : Limits cfg s' := by
  refine ⟨?_, ceil_step cfg s s' k0 Δ hlim hmint (Or.inl hΔ)⟩
  intro w hw p hp
  rw [hV, delVault] at hw
  exact hlim.1 w (mem_delBy _ _ _ _ hw) p hp

theorem limits_snoc (cfg : Nat → Option Product) (s s' : State) (v : VaultRec) (k0 : Nat) (Δ : Int)
    (hlim : Limits cfg s) (hV : s'.vaults = s.vaults ++ [v])
    (hfl : ∀ p, cfg v.product = some p → p.debtFloor ≤ v.amountOut)
    (hmint : ∀ k, s'.minted k = s.minted k + if k = k0 then Δ else 0)
    (hΔ : ∀ p, cfg k0 = some p → s.minted k0 + Δ ≤ p.debtCeiling) : Limits cfg s' := by
  refine ⟨?_, ceil_step cfg s s' k0 Δ hlim hmint (Or.inr hΔ)⟩
  intro w hw p hp
  rw [hV] at hw
  rcases List.mem_append.mp hw with h | h
  · exact hlim.1 w h p hp
  · simp only [List.mem_singleton] at h; subst h; exact hfl p hp

theorem limits_keep (cfg : Nat → Option Product) (s s' : State) (k0 : Nat) (Δ : Int)
    (hlim : Limits cfg s) (hV : s'.vaults = s.vaults)
    (hmint : ∀ k, s'.minted k = s.minted k + if k = k0 then Δ else 0)
    (hΔ : Δ ≤ 0 ∨ ∀ p, cfg k0 = some p → s.minted k0 + Δ ≤ p.debtCeiling) : Limits cfg s' := by
  refine ⟨?_, ceil_step cfg s s' k0 Δ hlim hmint hΔ⟩
  intro w hw p hp
  rw [hV] at hw
  exact hlim.1 w hw p hp


theorem upd1_add (f : Nat → Int) (k0 : Nat) (x : Int) (k : Nat) :
    upd1 f k0 (f k0 + x) k = f k + if k = k0 then x else 0 := by
  unfold upd1; by_cases h : k = k0 <;> simp [h]

theorem upd1_sub (f : Nat → Int) (k0 : Nat) (x : Int) (k : Nat) :
    upd1 f k0 (f k0 - x) k = f k + if k = k0 then -x else 0 := by
  unfold upd1; by_cases h : k = k0 <;> simp [h]; omega

theorem ownedVault_spec (s : State) (p : Product) (e : Env) (from_ app prod vaultId : Nat) (v : VaultRec)
    (h : ownedVault s p e from_ app prod vaultId = some v) :
    ∃ v0 i, v0 ∈ s.vaults ∧ v0.id = vaultId ∧ e.iota = some i ∧ 0 ≤ i ∧ v = { v0 with interest := v0.interest + i } ∧
      v0.owner = from_ ∧ v0.product = prod ∧ p.id = prod ∧ p.app = app := by
  unfold ownedVault at h
  split at h; · cases h
  next hg =>
  simp only [not_or, Decidable.not_not] at hg
  split at h
  · next v0 i hf hi =>
    split at h; · cases h
    next hg2 =>
    simp only [not_or, Decidable.not_not, Int.not_lt] at hg2
    cases h
    unfold findVault at hf
    obtain ⟨hm, hid⟩ := find_mem (·.id) s.vaults vaultId v0 hf
    exact ⟨v0, i, hm, hid, hi, hg2.2.2, rfl, hg2.1, hg2.2.1, hg.1, hg.2⟩
  · cases h

theorem deposit_inv (cfg : Nat → Option Product) (G : Gaps) (s s' : State) (p : Product) (e : Env)
    (from_ app prod vaultId : Nat) (amt : Int) (hp : cfg prod = some p) (hu : from_ ≠ vm) (hinv : InvG cfg G s)
    (h : deposit s p e from_ app prod vaultId amt = some s') : InvG cfg G s' := by
  unfold deposit at h
  split at h; · cases h
  next hg =>
  simp only [not_or, Int.not_le] at hg
  split at h; · cases h
  next v hov =>
  obtain ⟨v0, i, hm, hid, hi, hi0, rfl, hown, hprod, hpid, happ⟩ := ownedVault_spec s p e from_ app prod vaultId v hov
  split at h; · cases h
  next hpos =>
  simp only [Int.not_le] at hpos
  simp only [Option.map_eq_some_iff] at h
  obtain ⟨s1, hb, rfl⟩ := h
  have eff := runBank_effect _ s s1 hb
  have hv0 := hinv.1.2.1 v0 hm
  subst hprod
  refine inv_setVault cfg G s _ p v0 ⟨v0.id, v0.owner, v0.product, v0.amountIn + amt, v0.amountOut, v0.interest + i, v0.closingFee⟩ hinv hm hp rfl rfl ⟨by simp; omega, hv0.2.2.2.1, by simp; omega, hv0.2.2.2.2.2⟩
    (by simp [eff.same.vaults]) eff.same.stables eff.same.locked eff.same.nextVault eff.same.nextStable
    eff.same.length eff.same.unsolicited eff.same.extSupply ?_ ?_ ?_ ?_ ?_
  · intro d; simp only [eff.vmBal, netVm, List.map_cons, List.map_nil, List.sum_cons, List.sum_nil, BankOp.dVm, hu, hg.2.2.2]
    by_cases hd : d = p.denomIn <;> simp [hd] <;> omega
  · intro d; simp [eff.supply, netSup, BankOp.dSup]
  · intro k; simp only [eff.same.coll, upd1_add]; by_cases hk : k = v0.product <;> simp [hk] <;> omega
  · intro k; simp [eff.same.minted]
  · exact limits_set cfg s _ v0 ⟨v0.id, v0.owner, v0.product, v0.amountIn + amt, v0.amountOut, v0.interest + i, v0.closingFee⟩ v0.product 0 hinv.2.2.2.2.2 hm rfl (by simp [eff.same.vaults]) (Or.inl (by simp))
      (by intro k; simp [eff.same.minted]) (Or.inl (by omega))

theorem withdraw_inv (cfg : Nat → Option Product) (G : Gaps) (s s' : State) (p : Product) (e : Env)
    (from_ app prod vaultId : Nat) (amt : Int) (hp : cfg prod = some p) (hu : from_ ≠ vm) (hinv : InvG cfg G s)
    (h : withdraw s p e from_ app prod vaultId amt = some s') : InvG cfg G s' := by
  unfold withdraw at h
  split at h; · cases h
  next hg =>
  simp only [not_or, Int.not_le] at hg
  split at h; · cases h
  next v hov =>
  obtain ⟨v0, i, hm, hid, hi, hi0, rfl, hown, hprod, hpid, happ⟩ := ownedVault_spec s p e from_ app prod vaultId v hov
  split at h; · cases h
  next hpos =>
  simp only [Int.not_le] at hpos
  split at h; · cases h
  simp only [Option.map_eq_some_iff] at h
  obtain ⟨s1, hb, rfl⟩ := h
  have eff := runBank_effect _ s s1 hb
  have hv0 := hinv.1.2.1 v0 hm
  subst hprod
  refine inv_setVault cfg G s _ p v0 ⟨v0.id, v0.owner, v0.product, v0.amountIn - amt, v0.amountOut, v0.interest + i, v0.closingFee⟩ hinv hm hp rfl rfl ⟨by simp; omega, hv0.2.2.2.1, by simp; omega, hv0.2.2.2.2.2⟩
    (by simp [eff.same.vaults]) eff.same.stables eff.same.locked eff.same.nextVault eff.same.nextStable
    eff.same.length eff.same.unsolicited eff.same.extSupply ?_ ?_ ?_ ?_ ?_
  · intro d; simp only [eff.vmBal, netVm, List.map_cons, List.map_nil, List.sum_cons, List.sum_nil, BankOp.dVm, hu, hg.2.2.2]
    by_cases hd : d = p.denomIn <;> simp [hd] <;> omega
  · intro d; simp [eff.supply, netSup, BankOp.dSup]
  · intro k; simp only [eff.same.coll, upd1_sub]; by_cases hk : k = v0.product <;> simp [hk] <;> omega
  · intro k; simp [eff.same.minted]
  · exact limits_set cfg s _ v0 ⟨v0.id, v0.owner, v0.product, v0.amountIn - amt, v0.amountOut, v0.interest + i, v0.closingFee⟩ v0.product 0 hinv.2.2.2.2.2 hm rfl (by simp [eff.same.vaults]) (Or.inl (by simp))
      (by intro k; simp [eff.same.minted]) (Or.inl (by omega))

end Comdex.Vault

namespace Comdex.Vault
open Comdex

theorem draw_inv (cfg : Nat → Option Product) (G : Gaps) (hc : CfgOk cfg) (s s' : State) (p : Product) (e : Env)
    (from_ app prod vaultId : Nat) (amt : Int) (hp : cfg prod = some p) (hu : from_ ≠ vm) (hinv : InvG cfg G s)
    (h : draw s p e from_ app prod vaultId amt = some s') : InvG cfg G s' := by
  have hpo := (hc prod p hp).2
  unfold draw at h
  split at h; · cases h
  next hg =>
  simp only [not_or, Int.not_le] at hg
  split at h; · cases h
  next v hov =>
  obtain ⟨v0, i, hm, hid, hi, hi0, rfl, hown, hprod, hpid, happ⟩ := ownedVault_spec s p e from_ app prod vaultId v hov
  split at h; · cases h
  next hceil =>
  simp only [Int.not_le] at hceil
  split at h; · cases h
  simp only [Option.map_eq_some_iff] at h
  obtain ⟨s1, hb, rfl⟩ := h
  have eff := runBank_effect _ s s1 hb
  have hv0 := hinv.1.2.1 v0 hm
  subst hprod
  refine inv_setVault cfg G s _ p v0 ⟨v0.id, v0.owner, v0.product, v0.amountIn, v0.amountOut + amt, v0.interest + i, v0.closingFee⟩
    hinv hm hp rfl rfl ⟨hv0.2.2.1, by simp; omega, by simp; omega, hv0.2.2.2.2.2⟩
    (by simp [eff.same.vaults]) eff.same.stables eff.same.locked eff.same.nextVault eff.same.nextStable
    eff.same.length eff.same.unsolicited eff.same.extSupply ?_ ?_ ?_ ?_ ?_
  · intro d; rw [eff.vmBal, mintAndSplit_netVm p from_ amt hu hpo hg.2.2.2 d]; simp
  · intro d; rw [eff.supply, mintAndSplit_netSup]; by_cases hd : d = p.denomOut <;> simp [hd] <;> omega
  · intro k; simp [eff.same.coll]
  · intro k; simp only [eff.same.minted, upd1_add]; by_cases hk : k = v0.product <;> simp [hk] <;> omega
  · refine limits_set cfg s _ v0 ⟨v0.id, v0.owner, v0.product, v0.amountIn, v0.amountOut + amt, v0.interest + i, v0.closingFee⟩ v0.product amt hinv.2.2.2.2.2 hm rfl (by simp [eff.same.vaults]) (Or.inl (by simp; omega))
      (by intro k; simp only [eff.same.minted, upd1_add]) (Or.inr ?_)
    intro q hq; rw [hp] at hq; cases hq; omega

theorem repay_inv (cfg : Nat → Option Product) (G : Gaps) (hc : CfgOk cfg) (s s' : State) (p : Product) (e : Env)
    (from_ app prod vaultId : Nat) (amt : Int) (hp : cfg prod = some p) (hu : from_ ≠ vm) (hinv : InvG cfg G s)
    (h : repay s p e from_ app prod vaultId amt = some s') : InvG cfg G s' := by
  have hpo := (hc prod p hp).2
  have hcm : cm ≠ vm := by decide
  unfold repay at h
  split at h; · cases h
  next hg =>
  simp only [not_or, Int.not_le] at hg
  split at h; · cases h
  next v hov =>
  obtain ⟨v0, i, hm, hid, hi, hi0, rfl, hown, hprod, hpid, happ⟩ := ownedVault_spec s p e from_ app prod vaultId v hov
  have hv0 := hinv.1.2.1 v0 hm
  subst hprod
  split at h; · cases h
  split at h
  · -- interest only
    next hle =>
    simp only [Option.map_eq_some_iff] at h
    obtain ⟨s1, hb, rfl⟩ := h
    have eff := runBank_effect _ s s1 hb
    refine inv_setVault cfg G s _ p v0 ⟨v0.id, v0.owner, v0.product, v0.amountIn, v0.amountOut, v0.interest + i - amt, v0.closingFee⟩
      hinv hm hp rfl rfl ⟨hv0.2.2.1, hv0.2.2.2.1, by simp at hle ⊢; omega, hv0.2.2.2.2.2⟩
      (by simp [eff.same.vaults]) eff.same.stables eff.same.locked eff.same.nextVault eff.same.nextStable
      eff.same.length eff.same.unsolicited eff.same.extSupply ?_ ?_ ?_ ?_ ?_
    · intro d; simp only [eff.vmBal, netVm, List.map_cons, List.map_nil, List.sum_cons, List.sum_nil, BankOp.dVm, hu, hcm]
      by_cases hd : d = p.denomOut <;> by_cases hd2 : d = p.denomIn <;> simp [hd, hd2] <;> omega
    · intro d; simp [eff.supply, netSup, BankOp.dSup]
    · intro k; simp [eff.same.coll]
    · intro k; simp [eff.same.minted]
    · exact limits_set cfg s _ v0 ⟨v0.id, v0.owner, v0.product, v0.amountIn, v0.amountOut, v0.interest + i - amt, v0.closingFee⟩
        v0.product 0 hinv.2.2.2.2.2 hm rfl (by simp [eff.same.vaults]) (Or.inl (by simp))
        (by intro k; simp [eff.same.minted]) (Or.inl (by omega))
  · next hgt =>
    simp only [Int.not_le] at hgt
    split at h; · cases h
    next hfl =>
    simp only [Int.not_lt] at hfl
    simp only [Option.map_eq_some_iff] at h
    obtain ⟨s1, hb, rfl⟩ := h
    have eff := runBank_effect _ s s1 hb
    have hgt' : v0.interest + i < amt := hgt
    have hfl' : p.debtFloor ≤ v0.amountOut - (amt - (v0.interest + i)) := hfl
    have hpay : amt - (v0.interest + i) > 0 := by omega
    refine inv_setVault cfg G s _ p v0 ⟨v0.id, v0.owner, v0.product, v0.amountIn, v0.amountOut - (amt - (v0.interest + i)), 0, v0.closingFee⟩
      hinv hm hp rfl rfl ⟨hv0.2.2.1, by have := hpo.2.2.2.1; simp; omega, by simp, hv0.2.2.2.2.2⟩
      (by simp [eff.same.vaults]) eff.same.stables eff.same.locked eff.same.nextVault eff.same.nextStable
      eff.same.length eff.same.unsolicited eff.same.extSupply ?_ ?_ ?_ ?_ ?_
    · intro d; simp only [eff.vmBal, netVm, List.map_cons, List.map_nil, List.sum_cons, List.sum_nil, BankOp.dVm, hu, hcm, hpay]
      by_cases hd : d = p.denomOut <;> by_cases hd2 : d = p.denomIn <;> simp [hd, hd2]
      all_goals (by_cases hint : v0.interest + i > 0 <;> simp [hint] <;> omega)
    · intro d; simp only [eff.supply, netSup, List.map_cons, List.map_nil, List.sum_cons, List.sum_nil, BankOp.dSup, hpay]
      by_cases hd : d = p.denomOut <;> simp [hd] <;> omega
    · intro k; simp [eff.same.coll]
    · intro k; simp only [eff.same.minted, upd1_sub]; by_cases hk : k = v0.product <;> simp [hk] <;> omega
    · refine limits_set cfg s _ v0 ⟨v0.id, v0.owner, v0.product, v0.amountIn, v0.amountOut - (amt - (v0.interest + i)), 0, v0.closingFee⟩
        v0.product (-(amt - (v0.interest + i))) hinv.2.2.2.2.2 hm rfl (by simp [eff.same.vaults]) (Or.inr ?_)
        (by intro k; simp only [eff.same.minted, upd1_sub]) (Or.inl (by omega))
      intro q hq; rw [hp] at hq; cases hq; exact hfl'

end Comdex.Vault

namespace Comdex.Vault
open Comdex

theorem close_inv (cfg : Nat → Option Product) (G : Gaps) (s s' : State) (p : Product) (e : Env)
    (from_ app prod vaultId : Nat) (hp : cfg prod = some p) (hu : from_ ≠ vm) (hinv : InvG cfg G s)
    (h : close s p e from_ app prod vaultId = some s') : InvG cfg G s' := by
  have hcm : cm ≠ vm := by decide
  unfold close at h
  split at h; · cases h
  split at h; · cases h
  next v hov =>
  obtain ⟨v0, i, hm, hid, hi, hi0, rfl, hown, hprod, hpid, happ⟩ := ownedVault_spec s p e from_ app prod vaultId v hov
  have hv0 := hinv.1.2.1 v0 hm
  subst hprod
  simp only [Option.map_eq_some_iff] at h
  obtain ⟨s1, hb, rfl⟩ := h
  have eff := runBank_effect _ s s1 hb
  refine inv_delVault cfg G s _ p v0 hinv hm hp (by simp [eff.same.vaults]) eff.same.stables eff.same.locked
    eff.same.nextVault eff.same.nextStable (by simp [eff.same.length]) eff.same.unsolicited eff.same.extSupply ?_ ?_ ?_ ?_ ?_
  · intro d
    simp only [eff.vmBal, netVm, List.map_cons, List.map_nil, List.sum_cons, List.sum_nil, BankOp.dVm, hu, hcm]
    obtain ⟨_, _, h1, h2, h3, h4⟩ := hv0
    by_cases hd : d = p.denomOut <;> by_cases hd2 : d = p.denomIn <;> simp [hd, hd2]
    all_goals
      by_cases c1 : v0.amountOut + (v0.interest + i) + v0.closingFee > 0 <;>
      by_cases c2 : v0.interest + i > 0 <;> by_cases c3 : v0.closingFee > 0 <;>
      by_cases c4 : v0.amountOut > 0 <;> by_cases c5 : v0.amountIn > 0 <;>
      simp [c1, c2, c3, c4, c5] <;> omega
  · intro d
    simp only [eff.supply, netSup, List.map_cons, List.map_nil, List.sum_cons, List.sum_nil, BankOp.dSup]
    have h2 := hv0.2.2.2.1
    by_cases hd : d = p.denomOut <;> by_cases c4 : v0.amountOut > 0 <;> simp [hd, c4] <;> omega
  · intro k; simp only [eff.same.coll, upd1_sub]
  · intro k; simp only [eff.same.minted, upd1_sub]
  · exact limits_del cfg s _ v0.id v0.product (-v0.amountOut) hinv.2.2.2.2.2 (by simp [eff.same.vaults])
      (by intro k; simp only [eff.same.minted, upd1_sub]) (by have := hv0.2.2.2.1; omega)

theorem seize_inv (cfg : Nat → Option Product) (G : Gaps) (s s' : State) (p : Product) (e : Env)
    (vaultId : Nat) (hinv : InvG cfg G s) (hpc : ∀ v ∈ s.vaults, v.id = vaultId → cfg v.product = some p)
    (h : seize s p e vaultId = some s') : InvG cfg G s' := by
  have ham : am ≠ vm := by decide
  unfold seize at h
  split at h
  · next v0 i hf hi =>
    split at h; · cases h
    next hg =>
    simp only [not_or, Decidable.not_not, Int.not_lt] at hg
    unfold findVault at hf
    obtain ⟨hm, hid⟩ := find_mem (·.id) s.vaults vaultId v0 hf
    have hp := hpc v0 hm hid
    have hv0 := hinv.1.2.1 v0 hm
    simp only [Option.map_eq_some_iff] at h
    obtain ⟨s1, hb, rfl⟩ := h
    have eff := runBank_effect _ s s1 hb
    refine inv_seizeVault cfg G s _ p v0 hinv hm hp (v0.amountOut + (v0.interest + i) + v0.closingFee) (by have := hv0.2.2.2.2.1; have := hv0.2.2.2.2.2; omega) (by simp [eff.same.vaults]) eff.same.stables
      (by simp [eff.same.locked]) eff.same.nextVault eff.same.nextStable (by simp [eff.same.length])
      eff.same.unsolicited eff.same.extSupply ?_ ?_ ?_ ?_ ?_
    · intro d
      simp only [eff.vmBal, netVm, List.map_cons, List.map_nil, List.sum_cons, List.sum_nil, BankOp.dVm, ham]
      have := hv0.2.2.1
      by_cases hd : d = p.denomIn <;> by_cases c : v0.amountIn > 0 <;> simp [hd, c] <;> omega
    · intro d; simp [eff.supply, netSup, BankOp.dSup]
    · intro k; simp [eff.same.coll]
    · intro k; simp [eff.same.minted]
    · exact limits_del cfg s _ v0.id v0.product 0 hinv.2.2.2.2.2 (by simp [eff.same.vaults])
        (by intro k; simp [eff.same.minted]) (by omega)
  · cases h

theorem interestCalc_inv (cfg : Nat → Option Product) (G : Gaps) (_hc : CfgOk cfg) (s s' : State) (e : Env) (vaultId : Nat)
    (hinv : InvG cfg G s) (h : interestCalc s e vaultId = some s') : InvG cfg G s' := by
  unfold interestCalc at h
  split at h
  · next v0 i hf hi =>
    split at h; · cases h
    next hg =>
    simp only [Int.not_lt] at hg
    cases h
    unfold findVault at hf
    obtain ⟨hm, hid⟩ := find_mem (·.id) s.vaults vaultId v0 hf
    have hv0 := hinv.1.2.1 v0 hm
    obtain ⟨p, hp⟩ := Option.isSome_iff_exists.mp hv0.2.1
    refine inv_setVault cfg G s _ p v0 ⟨v0.id, v0.owner, v0.product, v0.amountIn, v0.amountOut, v0.interest + i, v0.closingFee⟩
      hinv hm hp rfl rfl ⟨hv0.2.2.1, hv0.2.2.2.1, by simp; omega, hv0.2.2.2.2.2⟩
      rfl rfl rfl rfl rfl rfl rfl rfl (by intro k; simp) (by intro k; simp) (by intro k; simp) (by intro k; simp) ?_
    exact limits_set cfg s _ v0 ⟨v0.id, v0.owner, v0.product, v0.amountIn, v0.amountOut, v0.interest + i, v0.closingFee⟩
      v0.product 0 hinv.2.2.2.2.2 hm rfl rfl (Or.inl (by simp)) (by intro k; simp) (Or.inl (by omega))
  · cases h

theorem donate_inv (cfg : Nat → Option Product) (G : Gaps) (s s' : State) (from_ d0 : Nat) (amt : Int) (hu : from_ ≠ vm)
    (hinv : InvG cfg G s) (h : donate s from_ d0 amt = some s') : InvG cfg G s' := by
  unfold donate at h
  split at h; · cases h
  next hg =>
  simp only [Int.not_le] at hg
  simp only [Option.map_eq_some_iff] at h
  obtain ⟨s1, hb, rfl⟩ := h
  have eff := runBank_effect _ s s1 hb
  have hinv0 := hinv
  obtain ⟨hwf, _, _, _, _, hlim0⟩ := hinv
  apply inv_of_deltas cfg G s _ (fun d => if d = d0 then amt else 0) (fun _ => 0) (fun _ => 0) (fun _ => 0)
    (fun d => if d = d0 then amt else 0) (fun _ => 0) 0 hinv0
  · obtain ⟨a, b, c, d, e'⟩ := hwf
    exact ⟨by simpa [eff.same.vaults] using a, by simpa [eff.same.vaults, eff.same.nextVault] using b,
      by simpa [eff.same.stables] using c, by simpa [eff.same.stables, eff.same.nextStable] using d,
      by simpa [eff.same.locked] using e'⟩
  · intro d; simp only [eff.vmBal, netVm, List.map_cons, List.map_nil, List.sum_cons, List.sum_nil, BankOp.dVm, hu]
    by_cases hd : d = d0 <;> simp [hd]
  · intro d; simp [eff.supply, netSup, BankOp.dSup]
  · intro k; simp [eff.same.coll]
  · intro k; simp [eff.same.minted]
  · simp [eff.same.length]
  · simp [eff.same.vaults]
  · intro d; simp only [eff.same.unsolicited, upd1_add]
  · intro d; simp [eff.same.extSupply]
  · intro d; simp only [collRecorded, eff.same.vaults, eff.same.stables]; omega
  · intro k; simp only [collOfProduct, eff.same.vaults, eff.same.stables, eff.same.locked]; omega
  · intro k; simp only [mintedOfProduct, eff.same.vaults, eff.same.stables, eff.same.locked]; omega
  · intro d; simp only [principalRecorded, eff.same.vaults, eff.same.stables, eff.same.locked]; omega
  · exact limits_keep cfg s _ 0 0 hlim0 (by simp [eff.same.vaults]) (by intro k; simp [eff.same.minted]) (Or.inl (by omega))

theorem fund_inv (cfg : Nat → Option Product) (G : Gaps) (s s' : State) (to d0 : Nat) (amt : Int)
    (hinv : InvG cfg G s) (h : fund s to d0 amt = some s') : InvG cfg G s' := by
  unfold fund at h
  split at h; · cases h
  next hg =>
  simp only [not_or, Int.not_le] at hg
  cases h
  have hinv0 := hinv
  obtain ⟨hwf, _, _, _, _, hlim0⟩ := hinv
  apply inv_of_deltas cfg G s _ (fun _ => 0) (fun d => if d = d0 then amt else 0) (fun _ => 0) (fun _ => 0)
    (fun _ => 0) (fun d => if d = d0 then amt else 0) 0 hinv0 (by exact hwf)
  · intro d; simp only [upd2]
    have : ¬ (vm = to ∧ d = d0) := fun h => hg.2 h.1.symm
    simp [this]
  · intro d; simp only [upd1_add]
  · intro k; simp
  · intro k; simp
  · simp
  · simp
  · intro d; simp
  · intro d; simp only [upd1_add]
  · intro d; simp only [collRecorded]; omega
  · intro k; simp only [collOfProduct]; omega
  · intro k; simp only [mintedOfProduct]; omega
  · intro d; simp only [principalRecorded]; omega
  · exact limits_keep cfg s _ 0 0 hlim0 rfl (by intro k; simp) (Or.inl (by omega))

end Comdex.Vault

namespace Comdex.Vault
open Comdex

theorem create_inv (cfg : Nat → Option Product) (G : Gaps) (hc : CfgOk cfg) (s s' : State) (p : Product) (e : Env)
    (from_ app prod : Nat) (amtIn amtOut : Int) (hp : cfg prod = some p) (hu : from_ ≠ vm) (hinv : InvG cfg G s)
    (h : create s p e from_ app prod amtIn amtOut = some s') : InvG cfg G s' := by
  have hpo := (hc prod p hp).2
  unfold create at h
  split at h; · cases h
  split at h; · cases h
  next hg =>
  simp only [not_or, Int.not_le] at hg
  split at h; · cases h
  split at h; · cases h
  next hfloor =>
  simp only [Int.not_lt] at hfloor
  split at h; · cases h
  next hceil =>
  simp only [Int.not_lt] at hceil
  split at h; · cases h
  split at h; · cases h
  simp only [Option.map_eq_some_iff] at h
  obtain ⟨s1, hb, rfl⟩ := h
  have eff := runBank_effect _ s s1 hb
  refine inv_snocVault cfg G s _ p ⟨s.nextVault + 1, from_, prod, amtIn, amtOut, 0, feeOf amtOut p.closingFee⟩ hinv hp rfl
    ⟨by simp; omega, by simp; omega, by simp, feeOf_nonneg _ _ (by omega) hpo.2.2.1⟩
    (by simp [eff.same.vaults, eff.same.nextVault]) eff.same.stables eff.same.locked
    (by simp [eff.same.nextVault]) eff.same.nextStable (by simp [eff.same.length]) eff.same.unsolicited eff.same.extSupply
    ?_ ?_ ?_ ?_ ?_
  · intro d; rw [eff.vmBal, netVm_cons, mintAndSplit_netVm p from_ amtOut hu hpo hg.2 d]
    simp only [BankOp.dVm, hu, hg.1]
    by_cases hd : d = p.denomIn <;> simp [hd]
  · intro d; rw [eff.supply, netSup_cons, mintAndSplit_netSup]; simp [BankOp.dSup]
  · intro k; simp only [eff.same.coll, upd1_add]
  · intro k; simp only [eff.same.minted, upd1_add]
  · refine limits_snoc cfg s _ ⟨s.nextVault + 1, from_, prod, amtIn, amtOut, 0, feeOf amtOut p.closingFee⟩ prod amtOut
      hinv.2.2.2.2.2 (by simp [eff.same.vaults, eff.same.nextVault]) ?_ (by intro k; simp only [eff.same.minted, upd1_add]) ?_
    · intro q hq; simp only at hq; rw [hp] at hq; cases hq; exact hfloor
    · intro q hq; rw [hp] at hq; cases hq; exact hceil

theorem stableCreate_inv (cfg : Nat → Option Product) (G : Gaps) (hc : CfgOk cfg) (s s' : State) (p : Product) (e : Env)
    (from_ app prod : Nat) (amt : Int) (hp : cfg prod = some p) (hu : from_ ≠ vm) (hinv : InvG cfg G s)
    (h : stableCreate s p e from_ app prod amt = some s') : InvG cfg G s' := by
  have hpo := (hc prod p hp).2
  unfold stableCreate at h
  split at h; · cases h
  next hg =>
  simp only [not_or, Int.not_le] at hg
  split at h; · cases h
  split at h; · cases h
  split at h; · cases h
  next hceil =>
  simp only [Int.not_le] at hceil
  simp only [Option.map_eq_some_iff] at h
  obtain ⟨s1, hb, rfl⟩ := h
  have eff := runBank_effect _ s s1 hb
  obtain ⟨s0, _, hb2⟩ := runBank_cons _ _ _ _ hb
  have hout := mintAndSplit_pos _ _ _ _ _ hb2
  refine inv_snocStable cfg G s _ p ⟨s.nextStable + 1, prod, amt, otherToken amt p.decIn p.decOut⟩ hinv hp rfl
    eff.same.vaults (by simp [eff.same.stables, eff.same.nextStable]) eff.same.locked
    eff.same.nextVault (by simp [eff.same.nextStable]) eff.same.length eff.same.unsolicited eff.same.extSupply
    ?_ ?_ ?_ ?_ ?_
  · intro d; rw [eff.vmBal, netVm_cons, mintAndSplit_netVm p from_ _ hu hpo hout d]
    simp only [BankOp.dVm, hu]
    by_cases hd : d = p.denomIn <;> simp [hd]
  · intro d; rw [eff.supply, netSup_cons, mintAndSplit_netSup]; simp [BankOp.dSup]
  · intro k; simp only [eff.same.coll, upd1_add]
  · intro k; simp only [eff.same.minted, upd1_add]
  · refine limits_keep cfg s _ prod (otherToken amt p.decIn p.decOut) hinv.2.2.2.2.2 eff.same.vaults
      (by intro k; simp only [eff.same.minted, upd1_add]) (Or.inr ?_)
    intro q hq; rw [hp] at hq; cases hq; omega

theorem findStable_spec (s : State) (id : Nat) (sv : StableRec) (h : findStable s id = some sv) :
    sv ∈ s.stables ∧ sv.id = id := by
  unfold findStable at h
  exact find_mem (·.id) s.stables id sv h

theorem stableDeposit_inv (cfg : Nat → Option Product) (G : Gaps) (hc : CfgOk cfg) (s s' : State) (p : Product) (e : Env)
    (from_ app prod stableId : Nat) (amt : Int) (hp : cfg prod = some p) (hu : from_ ≠ vm) (hinv : InvG cfg G s)
    (h : stableDeposit s p e from_ app prod stableId amt = some s') : InvG cfg G s' := by
  have hpo := (hc prod p hp).2
  unfold stableDeposit at h
  split at h; · cases h
  next hg =>
  simp only [not_or, Int.not_le] at hg
  split at h; · cases h
  next sv hf =>
  obtain ⟨hm, hid⟩ := findStable_spec s stableId sv hf
  split at h; · cases h
  next hprod =>
  simp only [Decidable.not_not] at hprod
  split at h; · cases h
  split at h; · cases h
  split at h; · cases h
  next hceil =>
  simp only [Int.not_le] at hceil
  simp only [Option.map_eq_some_iff] at h
  obtain ⟨s1, hb, rfl⟩ := h
  have eff := runBank_effect _ s s1 hb
  obtain ⟨s0, _, hb2⟩ := runBank_cons _ _ _ _ hb
  have hout := mintAndSplit_pos _ _ _ _ _ hb2
  subst hprod
  refine inv_setStable cfg G s _ p sv ⟨sv.id, sv.product, sv.amountIn + amt, sv.amountOut + otherToken amt p.decIn p.decOut⟩
    hinv hm hp rfl rfl eff.same.vaults (by simp [eff.same.stables]) eff.same.locked
    eff.same.nextVault eff.same.nextStable eff.same.length eff.same.unsolicited eff.same.extSupply ?_ ?_ ?_ ?_ ?_
  · intro d; rw [eff.vmBal, netVm_cons, mintAndSplit_netVm p from_ _ hu hpo hout d]
    simp only [BankOp.dVm, hu]
    by_cases hd : d = p.denomIn <;> simp [hd] <;> omega
  · intro d; rw [eff.supply, netSup_cons, mintAndSplit_netSup]; simp only [BankOp.dSup]
    by_cases hd : d = p.denomOut <;> simp [hd] <;> omega
  · intro k; simp only [eff.same.coll, upd1_add]; by_cases hk : k = sv.product <;> simp [hk] <;> omega
  · intro k; simp only [eff.same.minted, upd1_add]; by_cases hk : k = sv.product <;> simp [hk] <;> omega
  · refine limits_keep cfg s _ sv.product (otherToken amt p.decIn p.decOut) hinv.2.2.2.2.2 eff.same.vaults
      (by intro k; simp only [eff.same.minted, upd1_add]) (Or.inr ?_)
    intro q hq; rw [hp] at hq; cases hq; omega

end Comdex.Vault

namespace Comdex.Vault
open Comdex

theorem stableWithdraw_inv (cfg : Nat → Option Product) (G : Gaps) (hc : CfgOk cfg) (s s' : State) (p : Product) (e : Env)
    (from_ app prod stableId : Nat) (amt : Int) (hp : cfg prod = some p) (hu : from_ ≠ vm) (hinv : InvG cfg G s)
    (h : stableWithdraw s p e from_ app prod stableId amt = some s') : InvG cfg G s' := by
  have hpo := (hc prod p hp).2
  have hcm : cm ≠ vm := by decide
  unfold stableWithdraw at h
  split at h; · cases h
  next hg =>
  simp only [not_or, Int.not_le] at hg
  have hamt : 0 < amt := hg.2.2.2.2.2
  split at h; · cases h
  split at h; · cases h
  next sv hf =>
  obtain ⟨hm, hid⟩ := findStable_spec s stableId sv hf
  split at h; · cases h
  next hprod =>
  simp only [Decidable.not_not] at hprod
  split at h; · cases h
  simp only [Option.map_eq_some_iff] at h
  obtain ⟨s1, hb, rfl⟩ := h
  have eff := runBank_effect _ s s1 hb
  subst hprod
  obtain ⟨hf0, hf1, _, _, hdi, hdo, _⟩ := hpo
  -- the two amounts and the net bank effect, by fee branch
  have key : (∀ d, netVm (stableWithdrawOps p from_ amt) d = if d = p.denomIn then - (stableWithdrawAmounts p amt).2 else 0) ∧
             (∀ d, netSup (stableWithdrawOps p from_ amt) d = if d = p.denomOut then - (stableWithdrawAmounts p amt).1 else 0) := by
    unfold stableWithdrawOps stableWithdrawAmounts
    by_cases hfee : p.drawDownFee = 0
    · simp only [hfee, if_true]
      have hb0 := otherToken_nonneg amt p.decOut p.decIn (Int.le_of_lt hamt) hdo hdi
      constructor
      · intro d
        simp only [netVm, List.map_cons, List.map_nil, List.sum_cons, List.sum_nil, BankOp.dVm, hu]
        by_cases hd : d = p.denomOut <;> by_cases hd2 : d = p.denomIn <;>
          by_cases c : otherToken amt p.decOut p.decIn > 0 <;> simp [hd, hd2, c] <;> omega
      · intro d
        simp only [netSup, List.map_cons, List.map_nil, List.sum_cons, List.sum_nil, BankOp.dSup]
        by_cases hd : d = p.denomOut <;> simp [hd]
    · simp only [hfee, if_false]
      have hs0 := feeOf_nonneg amt p.drawDownFee (Int.le_of_lt hamt) hf0
      have hs1 := feeOf_lt amt p.drawDownFee hamt hf0 hf1
      have hupd : amt - feeOf amt p.drawDownFee > 0 := by omega
      have hb0 := otherToken_nonneg (amt - feeOf amt p.drawDownFee) p.decOut p.decIn (Int.le_of_lt hupd) hdo hdi
      simp only [hupd, if_true]
      constructor
      · intro d
        simp only [netVm, List.map_cons, List.map_nil, List.map_append, List.sum_append, List.sum_cons, List.sum_nil,
          BankOp.dVm, hu, hcm]
        by_cases hd : d = p.denomOut <;> by_cases hd2 : d = p.denomIn <;>
          by_cases c : otherToken (amt - feeOf amt p.drawDownFee) p.decOut p.decIn > 0 <;>
          by_cases c2 : feeOf amt p.drawDownFee > 0 <;> simp [hd, hd2, c, c2] <;> omega
      · intro d
        simp only [netSup, List.map_cons, List.map_nil, List.map_append, List.sum_append, List.sum_cons, List.sum_nil,
          BankOp.dSup]
        by_cases hd : d = p.denomOut <;> simp [hd]
  refine inv_setStable cfg G s _ p sv ⟨sv.id, sv.product, sv.amountIn - (stableWithdrawAmounts p amt).2,
      sv.amountOut - (stableWithdrawAmounts p amt).1⟩
    hinv hm hp rfl rfl eff.same.vaults (by simp [eff.same.stables]) eff.same.locked
    eff.same.nextVault eff.same.nextStable eff.same.length eff.same.unsolicited eff.same.extSupply ?_ ?_ ?_ ?_ ?_
  · intro d; rw [eff.vmBal, key.1 d]; by_cases hd : d = p.denomIn <;> simp [hd] <;> omega
  · intro d; rw [eff.supply, key.2 d]; by_cases hd : d = p.denomOut <;> simp [hd] <;> omega
  · intro k; simp only [eff.same.coll, upd1_sub]; by_cases hk : k = sv.product <;> simp [hk] <;> omega
  · intro k; simp only [eff.same.minted, upd1_sub]; by_cases hk : k = sv.product <;> simp [hk] <;> omega
  · refine limits_keep cfg s _ sv.product (-(stableWithdrawAmounts p amt).1) hinv.2.2.2.2.2 eff.same.vaults
      (by intro k; simp only [eff.same.minted, upd1_sub]) (Or.inl ?_)
    unfold stableWithdrawAmounts
    by_cases hfee : p.drawDownFee = 0
    · simp [hfee]; omega
    · have hs1 := feeOf_lt amt p.drawDownFee hamt hf0 hf1
      have hupd : amt - feeOf amt p.drawDownFee > 0 := by omega
      have hlt : feeOf amt p.drawDownFee < amt := hs1
      simp only [hfee, if_false, hupd, if_true]; omega

theorem depositAndDraw_inv (cfg : Nat → Option Product) (G : Gaps) (hc : CfgOk cfg) (s s' : State) (p : Product) (e : Env)
    (from_ app prod vaultId : Nat) (amt : Int) (hp : cfg prod = some p) (hu : from_ ≠ vm) (hinv : InvG cfg G s)
    (h : depositAndDraw s p e from_ app prod vaultId amt = some s') : InvG cfg G s' := by
  unfold depositAndDraw at h
  split at h; · cases h
  split at h; · cases h
  split at h; · cases h
  next s1 hdep =>
  exact draw_inv cfg G hc s1 s' p _ from_ app prod vaultId _ hp hu
    (deposit_inv cfg G s s1 p e from_ app prod vaultId amt hp hu hinv hdep) h

/-- messages are signed by user accounts, never by the vault module account -/
theorem sumBy_erase (f : LockedRec → Int) (L : List LockedRec) (l : LockedRec) (h : l ∈ L) :
    sumBy f (L.erase l) = sumBy f L - f l := by
  induction L with
  | nil => cases h
  | cons a t ih =>
    by_cases e : a = l
    · subst e; simp [sumBy_cons]; omega
    · have hne : (a == l) = false := by simpa using e
      rw [List.erase_cons, hne]
      simp only [Bool.false_eq_true, if_false]
      rcases List.mem_cons.mp h with rfl | ht
      · exact absurd rfl e
      · rw [sumBy_cons, sumBy_cons, ih ht]; omega

/-- first-generation settlement keeps every ledger equation exactly (same offsets) -/
theorem settle1_inv (cfg : Nat → Option Product) (G : Gaps) (s s' : State) (p : Product) (vaultId : Nat)
    (hinv : InvG cfg G s) (hpc : ∀ l ∈ s.locked, l.product = p.id → cfg l.product = some p)
    (h : settle1 s p vaultId = some s') : InvG cfg G s' := by
  unfold settle1 at h
  cases hf : s.locked.find? (fun x => decide (x.vaultId = vaultId)) with
  | none => simp [hf] at h
  | some l =>
    simp only [hf] at h
    split at h; · cases h
    next hprod =>
    simp only [Decidable.not_not] at hprod
    cases h
    obtain ⟨hm, hid⟩ := find_mem (·.vaultId) s.locked vaultId l hf
    have hp := hpc l hm hprod
    obtain ⟨hwf, hcnt, hcus, htot, hsup, hlim⟩ := hinv
    obtain ⟨hnd, hvs, hnds, hss, hls⟩ := hwf
    have hl := hls l hm
    refine ⟨⟨hnd, hvs, hnds, hss, ?_⟩, hcnt, ?_, ?_, ?_, ?_⟩
    · intro w hw; exact hls w (List.mem_of_mem_erase hw)
    · intro d; have := hcus d; simpa [CustodyAtG, collRecorded] using this
    · intro k
      obtain ⟨hc, hmi⟩ := htot k
      simp only [TotalsAtG, collOfProduct, mintedOfProduct, upd1] at hc hmi ⊢
      rw [sumBy_erase _ s.locked l hm, sumBy_erase _ s.locked l hm]
      by_cases hk : k = l.product
      · subst hk; simp; constructor <;> omega
      · have hk' : ¬ l.product = k := fun e => hk e.symm
        simp [hk, hk']; constructor <;> omega
    · intro d
      have := hsup d
      simp only [SupplyAtG, principalRecorded, upd1] at this ⊢
      rw [sumBy_erase _ s.locked l hm]
      simp only [denomOut_of cfg l.product p hp]
      by_cases hd : d = p.denomOut
      · subst hd; simp; omega
      · simp [hd]; omega
    · refine ⟨hlim.1, ?_⟩
      intro k q hq
      have := hlim.2 k q hq
      simp only [upd1]
      by_cases hk : k = l.product
      · subst hk; simp
        have h2 := hl.2
        omega
      · simp [hk]; exact this

/-! ### emergency shutdown (x/esm) -/

/-- a vault leaves the books with its principal moved to the redemption register (supply unchanged) -/
theorem inv_redeemVault (cfg : Nat → Option Product) (G : Gaps) (s s' : State) (p : Product) (v0 : VaultRec)
    (hinv : InvG cfg G s) (hm : v0 ∈ s.vaults) (hp : cfg v0.product = some p)
    (hV : s'.vaults = delVault s.vaults v0.id) (hS : s'.stables = s.stables) (hL : s'.locked = s.locked)
    (hnv : s'.nextVault = s.nextVault) (hns : s'.nextStable = s.nextStable) (hlen : s'.length = s.length - 1)
    (hun : s'.unsolicited = s.unsolicited)
    (hex : ∀ d, s'.extSupply d = s.extSupply d + if d = p.denomOut then v0.amountOut else 0)
    (hbal : ∀ d, s'.bal vm d = s.bal vm d + if d = p.denomIn then - v0.amountIn else 0)
    (hsup : ∀ d, s'.supply d = s.supply d)
    (hcoll : ∀ k, s'.coll k = s.coll k + if k = v0.product then - v0.amountIn else 0)
    (hmint : ∀ k, s'.minted k = s.minted k + if k = v0.product then - v0.amountOut else 0)
    (hlim : Limits cfg s') :
    InvG cfg G s' := by
  have hinv0 := hinv
  obtain ⟨⟨hnd, hvs, hnds, hss, hls⟩, _, _, _, _⟩ := hinv
  obtain ⟨m1, m2, m3, m4⟩ := measures_delVault cfg s.vaults v0 p hnd hm hp
  have hlenl : ((delVault s.vaults v0.id).length : Int) = s.vaults.length - 1 := by
    have h1 := sumBy_delBy (·.id) (fun _ => (1 : Int)) s.vaults v0 hnd hm
    have hone : ∀ l : List VaultRec, sumBy (fun _ => (1 : Int)) l = l.length := by
      intro l; induction l with
      | nil => rfl
      | cons a t ih => rw [sumBy_cons, ih]; simp; omega
    rw [hone, hone] at h1; exact h1
  apply inv_of_deltas cfg G s s' _ (fun _ => 0) _ _ (fun _ => 0) _ (-1) hinv0 ?_ hbal (by intro d; rw [hsup]; omega) hcoll hmint
    (by rw [hlen]; omega) (by rw [hV, hlenl]; omega) (by intro d; rw [hun]; omega) hex
  · intro d; simp only [collRecorded, hV, hS]; rw [m1 d]; split <;> omega
  · intro k; simp only [collOfProduct, hV, hS, hL]; rw [m3 k]; split <;> omega
  · intro k; simp only [mintedOfProduct, hV, hS, hL]; rw [m4 k]; split <;> omega
  · intro d; simp only [principalRecorded, hV, hS, hL]; rw [m2 d]; split <;> omega
  · exact hlim
  · refine ⟨?_, ?_, by rw [hS]; exact hnds, by rw [hS, hns]; exact hss, by rw [hL]; exact hls⟩
    · rw [hV, delVault]; exact nodup_delBy _ _ _ hnd
    · intro w hw
      rw [hV, delVault] at hw
      rw [hnv]
      exact hvs w (mem_delBy _ _ _ _ hw)

theorem esmVault_inv (cfg : Nat → Option Product) (G : Gaps) (s s' : State) (p : Product) (e : Env)
    (vaultId : Nat) (hinv : InvG cfg G s) (hpc : ∀ v ∈ s.vaults, v.id = vaultId → cfg v.product = some p)
    (h : esmVault s p e vaultId = some s') : InvG cfg G s' := by
  have hem : em ≠ vm := by decide
  unfold esmVault at h
  cases hf : findVault s vaultId with
  | none => simp [hf] at h
  | some v0 =>
    simp only [hf] at h
    split at h; · cases h
    next hg =>
    simp only [not_or, Decidable.not_not] at hg
    unfold findVault at hf
    obtain ⟨hm, hid⟩ := find_mem (·.id) s.vaults vaultId v0 hf
    have hp := hpc v0 hm hid
    have hv0 := hinv.1.2.1 v0 hm
    have hprod : v0.product = p.id := hg.1
    simp only [Option.map_eq_some_iff] at h
    obtain ⟨s1, hb, rfl⟩ := h
    have eff := runBank_effect _ s s1 hb
    refine inv_redeemVault cfg G s _ p v0 hinv hm hp (by simp [eff.same.vaults]) eff.same.stables eff.same.locked
      eff.same.nextVault eff.same.nextStable (by simp [eff.same.length]) eff.same.unsolicited ?_ ?_ ?_ ?_ ?_ ?_
    · intro d; simp only [eff.same.extSupply, upd1_add]
    · intro d
      simp only [eff.vmBal, netVm, List.map_cons, List.map_nil, List.sum_cons, List.sum_nil, BankOp.dVm, hem]
      have h5 := hv0.2.2.1
      by_cases hd : d = p.denomIn <;> by_cases c5 : v0.amountIn > 0 <;> simp [hd, c5] <;> omega
    · intro d
      simp [eff.supply, netSup, BankOp.dSup]
    · intro k; simp only [eff.same.coll, ← hprod, upd1_sub]
    · intro k; simp only [eff.same.minted, ← hprod, upd1_sub]
    · exact limits_del cfg s _ v0.id v0.product (-v0.amountOut) hinv.2.2.2.2.2 (by simp [eff.same.vaults])
        (by intro k; simp only [eff.same.minted, ← hprod, upd1_sub]) (by have := hv0.2.2.2.1; omega)

/-- burning coins that are not backed by a vault record (collector fees / a holder's coins against the register) -/
theorem inv_burnExt (cfg : Nat → Option Product) (G : Gaps) (s s' : State) (acct d0 : Nat) (x : Int) (rd : Nat → Nat → Int) (ha : acct ≠ vm)
    (hinv : InvG cfg G s)
    (hs : s' = { s with bal := upd2 s.bal acct d0 (s.bal acct d0 - x), supply := upd1 s.supply d0 (s.supply d0 - x),
                        extSupply := upd1 s.extSupply d0 (s.extSupply d0 - x), redeem := rd }) :
    InvG cfg G s' := by
  subst hs
  have hinv0 := hinv
  obtain ⟨hwf, _, _, _, _, hlim0⟩ := hinv
  apply inv_of_deltas cfg G s _ (fun _ => 0) (fun d => if d = d0 then -x else 0) (fun _ => 0) (fun _ => 0)
    (fun _ => 0) (fun d => if d = d0 then -x else 0) 0 hinv0 (by exact hwf)
  · intro d; simp only [upd2]
    have : ¬ (vm = acct ∧ d = d0) := fun h => ha h.1.symm
    simp [this]
  · intro d; simp only [upd1_sub]
  · intro k; simp
  · intro k; simp
  · simp
  · simp
  · intro d; simp
  · intro d; simp only [upd1_sub]
  · intro d; simp only [collRecorded]; omega
  · intro k; simp only [collOfProduct]; omega
  · intro k; simp only [mintedOfProduct]; omega
  · intro d; simp only [principalRecorded]; omega
  · exact limits_keep cfg s _ 0 0 hlim0 rfl (by intro k; simp) (Or.inl (by omega))

theorem esmCollector_inv (cfg : Nat → Option Product) (G : Gaps) (s s' : State) (app d0 : Nat) (x : Int)
    (hinv : InvG cfg G s) (h : esmCollector s app d0 x = some s') : InvG cfg G s' := by
  unfold esmCollector at h
  split at h; · cases h
  cases h
  exact inv_burnExt cfg G s _ cm d0 x _ (by decide) hinv rfl

theorem esmBurn_inv (cfg : Nat → Option Product) (G : Gaps) (s s' : State) (from_ app d0 : Nat) (x : Int)
    (hinv : InvG cfg G s) (h : esmBurn s from_ app d0 x = some s') : InvG cfg G s' := by
  unfold esmBurn at h
  split at h; · cases h
  next hg =>
  simp only [not_or] at hg
  cases h
  exact inv_burnExt cfg G s _ from_ d0 x _ hg.2.2.2.1 hinv rfl

def Msg.userOk : Msg → Prop
  | .create f .. | .deposit f .. | .withdraw f .. | .draw f .. | .repay f .. | .close f .. | .depositAndDraw f ..
  | .stableCreate f .. | .stableDeposit f .. | .stableWithdraw f .. | .donate f .. => f ≠ vm
  | _ => True

/-- auction settlement is the one modelled step that does not preserve the totals clause (finding D13) -/
def Msg.notSettle : Msg → Prop
  | .settle _ => False
  | _ => True

instance (m : Msg) : Decidable m.notSettle := by cases m <;> unfold Msg.notSettle <;> infer_instance

/-- the emergency-shutdown steps that stay inside the invariant. Two do not: the redemption of a stable-mint vault leaves its
record behind (`esmStable`, finding D29: ledger equations shift, `esmStable_inv`), and the wind-down of a first-generation
auction that collected less than the principal re-creates a vault for the owner whose principal may lie below the debt
floor (`esmReturn1`: keeps every ledger equation, `esmReturn1_inv`, under an explicit floor premise). The second-generation
counterpart (`esmReturn2`, auctionsV2 `TriggerEsm`) records collateral that never reaches custody — recorded finding:
`C01.trigger_esm_counterexample`, exact effect `C01.trigger_esm_effect` -/
def Msg.esmRegular : Msg → Prop
  | .esmStable _ => False
  | .esmReturn1 .. => False
  | .esmReturn2 .. => False
  | _ => True

instance (m : Msg) : Decidable m.esmRegular := by cases m <;> unfold Msg.esmRegular <;> infer_instance

/-- **Every message (other than auction settlement) preserves the ledger invariant.** -/
theorem step_inv (cfg : Nat → Option Product) (G : Gaps) (hc : CfgOk cfg) (s s' : State) (e : Env) (m : Msg)
    (hm : m.userOk) (hns : m.notSettle) (hne : m.esmRegular) (hinv : InvG cfg G s) (h : step cfg s e m = some s') : InvG cfg G s' := by
  unfold step at h
  cases m with
  | settle v => exact absurd hns (by simp [Msg.notSettle])
  | esmStable v => exact absurd hne (by simp [Msg.esmRegular])
  | esmReturn1 v o c i => exact absurd hne (by simp [Msg.esmRegular])
  | esmReturn2 v o c d f => exact absurd hne (by simp [Msg.esmRegular])
  | esmCollector a d x => exact esmCollector_inv cfg G s s' a d x hinv h
  | esmBurn f a d x => exact esmBurn_inv cfg G s s' f a d x hinv h
  | esmVault v =>
    simp only [Msg.product] at h
    cases hf : findVault s v with
    | none => simp [hf] at h
    | some v0 =>
      simp only [hf, Option.map_some] at h
      cases hp : cfg v0.product with
      | none => simp [hp] at h
      | some p =>
        simp only [hp] at h
        split at h; · cases h
        simp only [stepP] at h
        have hpc : ∀ w ∈ s.vaults, w.id = v → cfg w.product = some p := by
          intro w hw hwid
          have hnd := hinv.1.1
          unfold findVault at hf
          obtain ⟨hm0, hid0⟩ := find_mem (·.id) s.vaults v v0 hf
          have : w = v0 := eq_of_nodup_map (·.id) s.vaults hnd w v0 hw hm0 (by rw [hwid, hid0])
          rw [this]; exact hp
        exact esmVault_inv cfg G s s' p e v hinv hpc h
  | settle1 v =>
    simp only [Msg.product] at h
    cases hf : s.locked.find? (fun x => decide (x.vaultId = v)) with
    | none => simp [hf] at h
    | some l0 =>
      simp only [hf, Option.map_some] at h
      cases hp : cfg l0.product with
      | none => simp [hp] at h
      | some p =>
        simp only [hp] at h
        split at h; · cases h
        next hpid =>
        simp only [Decidable.not_not] at hpid
        simp only [stepP] at h
        have hpc : ∀ l ∈ s.locked, l.product = p.id → cfg l.product = some p := by
          intro l _ hlp; rw [hlp, hpid]; exact hp
        exact settle1_inv cfg G s s' p v hinv hpc h
  | donate f d x => exact donate_inv cfg G s s' f d x hm hinv h
  | fund t d x => exact fund_inv cfg G s s' t d x hinv h
  | create f a pr i o =>
    simp only [Msg.product] at h
    cases hp : cfg pr with
    | none => simp [hp] at h
    | some p => simp only [hp] at h; split at h; · cases h
                exact create_inv cfg G hc s s' p e f a pr i o hp hm hinv h
  | deposit f a pr v x =>
    simp only [Msg.product] at h
    cases hp : cfg pr with
    | none => simp [hp] at h
    | some p => simp only [hp] at h; split at h; · cases h
                exact deposit_inv cfg G s s' p e f a pr v x hp hm hinv h
  | withdraw f a pr v x =>
    simp only [Msg.product] at h
    cases hp : cfg pr with
    | none => simp [hp] at h
    | some p => simp only [hp] at h; split at h; · cases h
                exact withdraw_inv cfg G s s' p e f a pr v x hp hm hinv h
  | draw f a pr v x =>
    simp only [Msg.product] at h
    cases hp : cfg pr with
    | none => simp [hp] at h
    | some p => simp only [hp] at h; split at h; · cases h
                exact draw_inv cfg G hc s s' p e f a pr v x hp hm hinv h
  | repay f a pr v x =>
    simp only [Msg.product] at h
    cases hp : cfg pr with
    | none => simp [hp] at h
    | some p => simp only [hp] at h; split at h; · cases h
                exact repay_inv cfg G hc s s' p e f a pr v x hp hm hinv h
  | close f a pr v =>
    simp only [Msg.product] at h
    cases hp : cfg pr with
    | none => simp [hp] at h
    | some p => simp only [hp] at h; split at h; · cases h
                exact close_inv cfg G s s' p e f a pr v hp hm hinv h
  | depositAndDraw f a pr v x =>
    simp only [Msg.product] at h
    cases hp : cfg pr with
    | none => simp [hp] at h
    | some p => simp only [hp] at h; split at h; · cases h
                exact depositAndDraw_inv cfg G hc s s' p e f a pr v x hp hm hinv h
  | stableCreate f a pr x =>
    simp only [Msg.product] at h
    cases hp : cfg pr with
    | none => simp [hp] at h
    | some p => simp only [hp] at h; split at h; · cases h
                exact stableCreate_inv cfg G hc s s' p e f a pr x hp hm hinv h
  | stableDeposit f a pr v x =>
    simp only [Msg.product] at h
    cases hp : cfg pr with
    | none => simp [hp] at h
    | some p => simp only [hp] at h; split at h; · cases h
                exact stableDeposit_inv cfg G hc s s' p e f a pr v x hp hm hinv h
  | stableWithdraw f a pr v x =>
    simp only [Msg.product] at h
    cases hp : cfg pr with
    | none => simp [hp] at h
    | some p => simp only [hp] at h; split at h; · cases h
                exact stableWithdraw_inv cfg G hc s s' p e f a pr v x hp hm hinv h
  | interestCalc a v =>
    simp only [Msg.product] at h
    cases hf : findVault s v with
    | none => simp [hf] at h
    | some v0 =>
      simp only [hf, Option.map_some] at h
      cases hp : cfg v0.product with
      | none => simp [hp] at h
      | some p => simp only [hp] at h; split at h; · cases h
                  exact interestCalc_inv cfg G hc s s' e v hinv h
  | seize v =>
    simp only [Msg.product] at h
    cases hf : findVault s v with
    | none => simp [hf] at h
    | some v0 =>
      simp only [hf, Option.map_some] at h
      cases hp : cfg v0.product with
      | none => simp [hp] at h
      | some p =>
        simp only [hp] at h; split at h; · cases h
        refine seize_inv cfg G s s' p e v hinv ?_ h
        intro w hw hwid
        -- ids are unique: the vault found is the vault named
        unfold findVault at hf
        obtain ⟨hm0, hid0⟩ := find_mem (·.id) s.vaults v v0 hf
        have hnd := hinv.1.1
        have : w = v0 := eq_of_nodup_map (·.id) s.vaults hnd w v0 hw hm0 (by rw [hwid, hid0])
        rw [this]; exact hp

end Comdex.Vault

/-! ### auction settlement: the one step that shifts the ledger equations (finding D13) -/
namespace Comdex.Vault
open Comdex

/-- the offsets after a settlement of locked vault `l` of product `p` -/
def Gaps.afterSettle (G : Gaps) (p : Product) (l : LockedRec) : Gaps :=
  { G with mint := fun k => G.mint k - (if k = l.product then l.debt - l.amountOut else 0),
           sup := fun d => G.sup d - (if d = p.denomOut then l.debt - l.amountOut else 0) }

theorem settle_inv (cfg : Nat → Option Product) (G : Gaps) (s s' : State) (p : Product) (vaultId : Nat)
    (hinv : InvG cfg G s) (hpc : ∀ l ∈ s.locked, l.product = p.id → cfg l.product = some p)
    (h : settle s p vaultId = some s') :
    ∃ l ∈ s.locked, l.vaultId = vaultId ∧ l.amountOut ≤ l.debt ∧ InvG cfg (G.afterSettle p l) s' := by
  unfold settle at h
  cases hf : s.locked.find? (fun x => decide (x.vaultId = vaultId)) with
  | none => simp [hf] at h
  | some l =>
    simp only [hf] at h
    split at h; · cases h
    next hprod =>
    simp only [Decidable.not_not] at hprod
    cases h
    obtain ⟨hm, hid⟩ := find_mem (·.vaultId) s.locked vaultId l hf
    have hp := hpc l hm hprod
    obtain ⟨hwf, hcnt, hcus, htot, hsup, hlim⟩ := hinv
    obtain ⟨hnd, hvs, hnds, hss, hls⟩ := hwf
    have hl := hls l hm
    refine ⟨l, hm, hid, hl.2.2, ⟨hnd, hvs, hnds, hss, ?_⟩, hcnt, ?_, ?_, ?_, ?_⟩
    · intro w hw; exact hls w (List.mem_of_mem_erase hw)
    · intro d; have := hcus d; simpa [CustodyAtG, collRecorded, Gaps.afterSettle] using this
    · intro k
      obtain ⟨hc, hmi⟩ := htot k
      simp only [TotalsAtG, collOfProduct, mintedOfProduct, Gaps.afterSettle, upd1] at hc hmi ⊢
      rw [sumBy_erase _ s.locked l hm, sumBy_erase _ s.locked l hm]
      by_cases hk : k = l.product
      · subst hk; simp; constructor <;> omega
      · have hk' : ¬ l.product = k := fun e => hk e.symm
        simp [hk, hk']; constructor <;> omega
    · intro d
      have := hsup d
      simp only [SupplyAtG, principalRecorded, Gaps.afterSettle, upd1] at this ⊢
      rw [sumBy_erase _ s.locked l hm]
      simp only [denomOut_of cfg l.product p hp]
      by_cases hd : d = p.denomOut
      · subst hd; simp; omega
      · simp [hd]; omega
    · refine ⟨hlim.1, ?_⟩
      intro k q hq
      have := hlim.2 k q hq
      simp only [upd1]
      by_cases hk : k = l.product
      · subst hk; simp
        have h2 := hl.2
        omega
      · simp [hk]; exact this

/-! ### emergency redemption of a stable-mint vault: the record stays behind (finding D29) -/

/-- the offsets after the emergency redemption of stable-mint vault `r` of product `p`: custody and the published totals
fall, the records do not -/
def Gaps.afterEsmStable (G : Gaps) (p : Product) (r : StableRec) : Gaps :=
  { G with cus := fun d => G.cus d - (if d = p.denomIn then (if r.amountIn > 0 then r.amountIn else 0) else 0),
           coll := fun k => G.coll k - (if k = p.id then r.amountIn else 0),
           mint := fun k => G.mint k - (if k = p.id then r.amountOut else 0) }

theorem esmStable_inv (cfg : Nat → Option Product) (G : Gaps) (s s' : State) (p : Product) (e : Env) (stableId : Nat)
    (hinv : InvG cfg G s) (hout : ∀ r ∈ s.stables, r.id = stableId → 0 ≤ r.amountOut)
    (h : esmStable s p e stableId = some s') :
    ∃ r ∈ s.stables, r.id = stableId ∧ r.product = p.id ∧ InvG cfg (G.afterEsmStable p r) s' := by
  have hem : em ≠ vm := by decide
  unfold esmStable at h
  cases hf : findStable s stableId with
  | none => simp [hf] at h
  | some r =>
    simp only [hf] at h
    split at h; · cases h
    next hg =>
    simp only [not_or, Decidable.not_not] at hg
    unfold findStable at hf
    obtain ⟨hm, hid⟩ := find_mem (·.id) s.stables stableId r hf
    simp only [Option.map_eq_some_iff] at h
    obtain ⟨s1, hb, rfl⟩ := h
    have eff := runBank_effect _ s s1 hb
    obtain ⟨hwf, hcnt, hcus, htot, hsup, hlim⟩ := hinv
    obtain ⟨hnd, hvs, hnds, hss, hls⟩ := hwf
    refine ⟨r, hm, hid, hg.1, ⟨?_, ?_⟩, ?_, ?_, ?_, ?_, ?_⟩
    · simpa [eff.same.vaults] using hnd
    · exact ⟨by simpa [eff.same.vaults, eff.same.nextVault] using hvs, by simpa [eff.same.stables] using hnds,
        by simpa [eff.same.stables, eff.same.nextStable] using hss, by simpa [eff.same.locked] using hls⟩
    · simpa [CountOkG, eff.same.length, eff.same.vaults, Gaps.afterEsmStable] using hcnt
    · intro d
      have := hcus d
      simp only [CustodyAtG, collRecorded, eff.same.vaults, eff.same.stables, eff.same.unsolicited, Gaps.afterEsmStable,
        eff.vmBal, netVm, List.map_cons, List.map_nil, List.sum_cons, List.sum_nil, BankOp.dVm, hem] at this ⊢
      by_cases hd : d = p.denomIn
      · subst hd; by_cases c : r.amountIn > 0 <;> simp [c] <;> omega
      · simp [hd]; omega
    · intro k
      obtain ⟨hc, hmi⟩ := htot k
      simp only [TotalsAtG, collOfProduct, mintedOfProduct, eff.same.vaults, eff.same.stables, eff.same.locked,
        eff.same.coll, eff.same.minted, Gaps.afterEsmStable, upd1] at hc hmi ⊢
      by_cases hk : k = p.id
      · subst hk; simp; constructor <;> omega
      · simp [hk]; exact ⟨hc, hmi⟩
    · intro d
      have := hsup d
      simpa [SupplyAtG, principalRecorded, eff.same.vaults, eff.same.stables, eff.same.locked, eff.same.extSupply,
        Gaps.afterEsmStable, eff.supply, netSup, BankOp.dSup] using this
    · refine ⟨by simpa [eff.same.vaults] using hlim.1, ?_⟩
      intro k q hq
      have := hlim.2 k q hq
      simp only [eff.same.minted, upd1]
      by_cases hk : k = p.id
      · subst hk; simp
        have := hout r hm hid
        omega
      · simp [hk]; exact this

/-! ### collateral and principal coming back from auction custody (wind-down of a first-generation auction) -/

theorem creditVault_inv (cfg : Nat → Option Product) (G : Gaps) (s s' : State) (p : Product) (owner : Nat) (cin cout : Int)
    (hp : cfg p.id = some p) (hinv : InvG cfg G s)
    (hceil : s.minted p.id + cout ≤ p.debtCeiling)
    (hfloor : (s.vaults.find? (fun v => v.owner = owner ∧ v.product = p.id)) = none → p.debtFloor ≤ cout)
    (h : creditVault s p owner cin cout = some s') : InvG cfg G s' := by
  have ham : am ≠ vm := by decide
  unfold creditVault at h
  split at h; · cases h
  next hg =>
  simp only [not_or, Int.not_lt] at hg
  simp only [Option.map_eq_some_iff] at h
  obtain ⟨s1, hb, rfl⟩ := h
  have eff := runBank_effect _ s s1 hb
  have hvm : ∀ d, s1.bal vm d = s.bal vm d + if d = p.denomIn then cin else 0 := by
    intro d
    simp only [eff.vmBal, netVm, List.map_cons, List.map_nil, List.sum_cons, List.sum_nil, BankOp.dVm, ham]
    by_cases hd : d = p.denomIn <;> by_cases c : cin > 0 <;> simp [hd, c] <;> omega
  have hsp : ∀ d, s1.supply d = s.supply d := by intro d; simp [eff.supply, netSup, BankOp.dSup]
  simp only [eff.same.vaults]
  cases hf : s.vaults.find? (fun v => decide (v.owner = owner ∧ v.product = p.id)) with
  | some v0 =>
    simp only []
    have hm : v0 ∈ s.vaults := List.mem_of_find?_eq_some hf
    have hpr : v0.product = p.id := by
      have := List.find?_some hf; simp at this; exact this.2
    have hp0 : cfg v0.product = some p := by rw [hpr]; exact hp
    have hv0 := hinv.1.2.1 v0 hm
    refine inv_setVault cfg G s _ p v0 ⟨v0.id, v0.owner, v0.product, v0.amountIn + cin, v0.amountOut + cout, v0.interest, v0.closingFee⟩
      hinv hm hp0 rfl rfl ⟨by simp; omega, by simp; omega, hv0.2.2.2.2.1, hv0.2.2.2.2.2⟩
      (by simp [eff.same.vaults]) eff.same.stables eff.same.locked eff.same.nextVault eff.same.nextStable
      eff.same.length eff.same.unsolicited eff.same.extSupply ?_ ?_ ?_ ?_ ?_
    · intro d; simp only [hvm d]; by_cases hd : d = p.denomIn <;> simp [hd] <;> omega
    · intro d; simp only [upd1, hsp]; by_cases hd : d = p.denomOut <;> simp [hd] <;> omega
    · intro k; simp only [eff.same.coll, upd1_add, hpr]; by_cases hk : k = p.id <;> simp [hk] <;> omega
    · intro k; simp only [eff.same.minted, upd1_add, hpr]; by_cases hk : k = p.id <;> simp [hk] <;> omega
    · refine limits_set cfg s _ v0 ⟨v0.id, v0.owner, v0.product, v0.amountIn + cin, v0.amountOut + cout, v0.interest, v0.closingFee⟩ p.id cout
        hinv.2.2.2.2.2 hm rfl (by simp [eff.same.vaults]) (Or.inl (by simp; omega))
        (by intro k; simp only [eff.same.minted, upd1_add]) (Or.inr ?_)
      intro q hq; rw [hp] at hq; cases hq; exact hceil
  | none =>
    simp only []
    have hfl := hfloor (by simpa using hf)
    refine inv_snocVault cfg G s _ p ⟨s.nextVault + 1, owner, p.id, cin, cout, 0, 0⟩ hinv hp rfl
      ⟨hg.1, hg.2, by simp, by simp⟩
      (by simp [eff.same.vaults, eff.same.nextVault]) eff.same.stables eff.same.locked
      (by simp [eff.same.nextVault]) eff.same.nextStable (by simp [eff.same.length]) eff.same.unsolicited eff.same.extSupply
      ?_ ?_ ?_ ?_ ?_
    · intro d; simp only [hvm d]
    · intro d; simp only [upd1, hsp]; by_cases hd : d = p.denomOut <;> simp [hd]
    · intro k; simp only [eff.same.coll, upd1_add]
    · intro k; simp only [eff.same.minted, upd1_add]
    · refine limits_snoc cfg s _ ⟨s.nextVault + 1, owner, p.id, cin, cout, 0, 0⟩ p.id cout
        hinv.2.2.2.2.2 (by simp [eff.same.vaults, eff.same.nextVault]) ?_ (by intro k; simp only [eff.same.minted, upd1_add]) ?_
      · intro q hq; simp only at hq; rw [hp] at hq; cases hq; exact hfl
      · intro q hq; rw [hp] at hq; cases hq; exact hceil

/-- **Wind-down with less than the principal collected keeps every ledger equation** (same offsets): custody, count, totals
and supply — provided the vault it re-creates respects the debt floor (a top-up of an existing vault always does). -/
theorem esmReturn1_inv (cfg : Nat → Option Product) (G : Gaps) (s s' : State) (p : Product) (e : Env) (vaultId owner : Nat)
    (cur infl : Int) (hp : cfg p.id = some p) (hinv : InvG cfg G s)
    (hfloor : ∀ l ∈ s.locked, l.vaultId = vaultId →
      (s.vaults.find? (fun v => v.owner = owner ∧ v.product = p.id)) = none → p.debtFloor ≤ l.amountOut - infl)
    (h : esmReturn1 s p e vaultId owner cur infl = some s') : InvG cfg G s' := by
  unfold esmReturn1 at h
  cases hf : s.locked.find? (fun x => decide (x.vaultId = vaultId)) with
  | none => simp [hf] at h
  | some l =>
    simp only [hf] at h
    split at h; · cases h
    next hg =>
    simp only [not_or, Decidable.not_not, Int.not_lt, Int.not_le] at hg
    obtain ⟨hm, hid⟩ := find_mem (·.vaultId) s.locked vaultId l hf
    cases h1 : settle1 s p vaultId with
    | none => simp [h1] at h
    | some s1 =>
      simp only [h1, Option.bind_some] at h
      have hpc : ∀ x ∈ s.locked, x.product = p.id → cfg x.product = some p := by
        intro x _ hx; rw [hx]; exact hp
      have hinv1 := settle1_inv cfg G s s1 p vaultId hinv hpc h1
      -- what settle1 did to the fields creditVault looks at
      have hs1 : s1.vaults = s.vaults ∧ s1.minted p.id = s.minted p.id - l.amountOut := by
        unfold settle1 at h1
        simp only [hf] at h1
        split at h1; · cases h1
        cases h1
        exact ⟨rfl, by simp [upd1, hg.1]⟩
      refine creditVault_inv cfg G s1 s' p owner cur (l.amountOut - infl) hp hinv1 ?_ ?_ h
      · rw [hs1.2]
        have := hinv.2.2.2.2.2.2 p.id p hp
        omega
      · rw [hs1.1]; exact hfloor l hm hid

end Comdex.Vault
