import Comdex.Lemmas.Accrual
import Mathlib.Tactic.Positivity
import Mathlib.Tactic.FieldSimp
import Mathlib.Tactic.GCongr
import Mathlib.Algebra.Order.Field.Basic
import Mathlib.Data.Rat.Cast.Order
/-! Error bounds (in ℚ) of the exact rounding model, for `C18.more_frequent_accrual_not_more`. -/
namespace Comdex.Accrual

/-- unit round-off of binary64 -/
def uq : ℚ := 1 / 2 ^ 53

theorem uq_pos : 0 < uq := by unfold uq; positivity
theorem uq_le_one : uq ≤ 1 := by unfold uq; norm_num

theorem rhe_q (p q : Nat) (hq : 0 < q) :
    ((rhe p q : Nat) : ℚ) ≤ (p : ℚ) / q + 1 / 2 ∧ (p : ℚ) / q - 1 / 2 ≤ ((rhe p q : Nat) : ℚ) := by
  obtain ⟨h1, h2⟩ := rhe_spec p q hq
  have h1' : (2 * ((rhe p q : ℚ) * q) : ℚ) ≤ 2 * p + q := by exact_mod_cast h1
  have h2' : (2 * (p : ℚ)) ≤ 2 * ((rhe p q : ℚ) * q) + q := by exact_mod_cast h2
  have hq' : (0 : ℚ) < q := by exact_mod_cast hq
  constructor
  · rw [show (p : ℚ) / q + 1 / 2 = (2 * p + q) / (2 * q) by field_simp, le_div_iff₀ (by positivity)]
    linarith
  · rw [show (p : ℚ) / q - 1 / 2 = (2 * p - q) / (2 * q) by field_simp, div_le_iff₀ (by positivity)]
    linarith

/-- nearest double: relative error `2^-53`, plus half a unit (`2^-1075`) in the lowest binades -/
theorem roundNat_q (p q : Nat) (hq : 0 < q) :
    ((roundNat p q : Nat) : ℚ) ≤ (p : ℚ) / q * (1 + uq) + 1 / 2 ∧
    (p : ℚ) / q * (1 - uq) - 1 / 2 ≤ ((roundNat p q : Nat) : ℚ) := by
  have hq' : (0 : ℚ) < q := by exact_mod_cast hq
  have hpq : (0 : ℚ) ≤ (p : ℚ) / q := by positivity
  unfold roundNat
  simp only []
  generalize hk : expo (p / q) = k
  have h2k : (0 : ℚ) < 2 ^ k := by positivity
  obtain ⟨r1, r2⟩ := rhe_q p (q * 2 ^ k) (Nat.mul_pos hq (Nat.pow_pos (by decide)))
  have e : ((p : ℚ) / ((q * 2 ^ k : Nat) : ℚ)) * 2 ^ k = (p : ℚ) / q := by
    push_cast; field_simp
  -- half a spacing is at most the relative error plus half a unit
  have hs : (2 : ℚ) ^ k / 2 ≤ (p : ℚ) / q * uq + 1 / 2 := by
    rcases Nat.eq_zero_or_pos k with h0 | hpos
    · subst h0
      have : 0 ≤ (p : ℚ) / q * uq := mul_nonneg hpq (le_of_lt uq_pos)
      norm_num; linarith
    · have hb := ge_bottom (p / q) (by rw [hk]; exact hpos)
      rw [hk] at hb
      have hb' : ((2 ^ (52 + k) : Nat) : ℚ) ≤ ((p / q : Nat) : ℚ) := by exact_mod_cast hb
      have hd : ((p / q : Nat) : ℚ) ≤ (p : ℚ) / q := by
        rw [le_div_iff₀ hq']; exact_mod_cast Nat.div_mul_le_self p q
      have : (2 : ℚ) ^ k / 2 = ((2 ^ (52 + k) : Nat) : ℚ) * uq := by
        unfold uq; push_cast; rw [pow_add]; field_simp
      rw [this]
      have : ((2 ^ (52 + k) : Nat) : ℚ) * uq ≤ (p : ℚ) / q * uq :=
        mul_le_mul_of_nonneg_right (le_trans hb' hd) (le_of_lt uq_pos)
      linarith
  push_cast
  constructor
  · have : (rhe p (q * 2 ^ k) : ℚ) * 2 ^ k ≤ ((p : ℚ) / ((q * 2 ^ k : Nat) : ℚ) + 1 / 2) * 2 ^ k :=
      mul_le_mul_of_nonneg_right r1 (le_of_lt h2k)
    rw [add_mul, e] at this
    linarith
  · have : ((p : ℚ) / ((q * 2 ^ k : Nat) : ℚ) - 1 / 2) * 2 ^ k ≤ (rhe p (q * 2 ^ k) : ℚ) * 2 ^ k :=
      mul_le_mul_of_nonneg_right r2 (le_of_lt h2k)
    rw [sub_mul, e] at this
    linarith

/-! ### the float operations, as real numbers -/
theorem Uq_pos : (0 : ℚ) < (U : ℚ) := by exact_mod_cast U_pos

theorem toNat_cast (x : Int) (hx : 0 ≤ x) : ((x.toNat : Nat) : ℚ) = (x : ℚ) := by
  have : ((x.toNat : Nat) : Int) = x := Int.toNat_of_nonneg hx
  exact_mod_cast this

theorem fround_q (p : Int) (q : Nat) (hq : 0 < q) (hp : 0 ≤ p) :
    ((fround p q : Int) : ℚ) ≤ (p : ℚ) / q * (1 + uq) + 1 / 2 ∧
    (p : ℚ) / q * (1 - uq) - 1 / 2 ≤ ((fround p q : Int) : ℚ) := by
  rw [fround_nonneg p q hp]
  have := roundNat_q p.toNat q hq
  rw [toNat_cast p hp] at this
  exact_mod_cast this

theorem fmt18_q (x : Int) (hx : 0 ≤ x) :
    ((fmt18 x : Int) : ℚ) ≤ (x : ℚ) * P18 / U + 1 / 2 ∧ (x : ℚ) * P18 / U - 1 / 2 ≤ ((fmt18 x : Int) : ℚ) := by
  rw [fmt18_nonneg_eq x hx]
  have := rhe_q (x.toNat * P18) U U_pos
  rw [Nat.cast_mul, toNat_cast x hx] at this
  exact_mod_cast this

/-! ### the chain of roundings, in normalised variables (`x = pow`, `a = principal`, both as reals) -/

/-- upper bound of one accrual: `i ≤ (x−1)·a·(1+u)²·P + τ·(a·(1+u)+1)·P + 1/2` -/
theorem chain_upper (x a u τ P d m i : ℚ) (_hx : 1 ≤ x) (ha : 0 ≤ a) (hu : 0 ≤ u) (hP : 0 ≤ P)
    (hd : d ≤ (x - 1) * (1 + u) + τ) (hm : m ≤ d * a * (1 + u) + τ) (hi : i ≤ m * P + 1 / 2) :
    i ≤ (x - 1) * a * ((1 + u) * (1 + u)) * P + τ * (a * (1 + u) + 1) * P + 1 / 2 := by
  have h1 : d * a * (1 + u) ≤ ((x - 1) * (1 + u) + τ) * a * (1 + u) := by gcongr
  have h2 : m * P ≤ (((x - 1) * (1 + u) + τ) * a * (1 + u) + τ) * P := by gcongr; linarith
  calc i ≤ m * P + 1 / 2 := hi
    _ ≤ (((x - 1) * (1 + u) + τ) * a * (1 + u) + τ) * P + 1 / 2 := by linarith
    _ = _ := by ring

/-- lower bound of one accrual: `i ≥ (x−1)·a·(1−u)²·P − τ·(a·(1−u)+1)·P − 1/2` -/
theorem chain_lower (x a u τ P d m i : ℚ) (ha : 0 ≤ a) (hu1 : u ≤ 1) (hP : 0 ≤ P)
    (hd : (x - 1) * (1 - u) - τ ≤ d) (hm : d * a * (1 - u) - τ ≤ m) (hi : m * P - 1 / 2 ≤ i) :
    (x - 1) * a * ((1 - u) * (1 - u)) * P - τ * (a * (1 - u) + 1) * P - 1 / 2 ≤ i := by
  have hu' : 0 ≤ 1 - u := by linarith
  have h1 : ((x - 1) * (1 - u) - τ) * a * (1 - u) ≤ d * a * (1 - u) := by gcongr
  have h2 : (((x - 1) * (1 - u) - τ) * a * (1 - u) - τ) * P ≤ m * P := by gcongr; linarith
  calc (x - 1) * a * ((1 - u) * (1 - u)) * P - τ * (a * (1 - u) + 1) * P - 1 / 2
      = (((x - 1) * (1 - u) - τ) * a * (1 - u) - τ) * P - 1 / 2 := by ring
    _ ≤ m * P - 1 / 2 := by linarith
    _ ≤ i := hi

/-- the two-interval law in real numbers -/
theorem subadd_core (xa xb xc a u ε τ P iA iB iC : ℚ)
    (ha1 : 1 ≤ xa) (hb1 : 1 ≤ xb) (ha : 0 ≤ a) (hu : 0 ≤ u) (_hu1 : u ≤ 1) (hτ : 0 ≤ τ) (hP : 0 ≤ P)
    (hsub : xa * xb ≤ xc * (1 + ε))
    (hA : iA ≤ (xa - 1) * a * ((1 + u) * (1 + u)) * P + τ * (a * (1 + u) + 1) * P + 1 / 2)
    (hB : iB ≤ (xb - 1) * a * ((1 + u) * (1 + u)) * P + τ * (a * (1 + u) + 1) * P + 1 / 2)
    (hC : (xc - 1) * a * ((1 - u) * (1 - u)) * P - τ * (a * (1 - u) + 1) * P - 1 / 2 ≤ iC) :
    iA + iB ≤ iC + P * a * (xc * ε * ((1 + u) * (1 + u)) + (xc - 1) * (4 * u))
      + 3 * (τ * (a * (1 + u) + 1) * P) + 3 / 2 := by
  -- (xa − 1) + (xb − 1) ≤ xa·xb − 1 ≤ xc·(1+ε) − 1
  have h0 : (xa - 1) + (xb - 1) ≤ xc * (1 + ε) - 1 := by nlinarith [mul_nonneg (sub_nonneg.mpr ha1) (sub_nonneg.mpr hb1)]
  have k : 0 ≤ a * ((1 + u) * (1 + u)) * P := by positivity
  have h1 : ((xa - 1) + (xb - 1)) * (a * ((1 + u) * (1 + u)) * P) ≤ (xc * (1 + ε) - 1) * (a * ((1 + u) * (1 + u)) * P) :=
    mul_le_mul_of_nonneg_right h0 k
  have h2 : τ * (a * (1 - u) + 1) * P ≤ τ * (a * (1 + u) + 1) * P := by gcongr; linarith
  have e : (xc * (1 + ε) - 1) * (a * ((1 + u) * (1 + u)) * P) - (xc - 1) * a * ((1 - u) * (1 - u)) * P
      = P * a * (xc * ε * ((1 + u) * (1 + u)) + (xc - 1) * (4 * u)) := by ring
  nlinarith [h1, h2, e, hA, hB, hC]

/-! ### one accrual, as real numbers -/
/-- half a unit of `2^-1074`, as a real number -/
def τq : ℚ := 1 / (2 * (U : ℚ))
theorem τq_nonneg : 0 ≤ τq := by unfold τq; have := Uq_pos; positivity

theorem interest_bounds (X a : Int) (hX : (U : Int) ≤ X) (ha : 0 ≤ a) :
    ((interestOfPow X a : Int) : ℚ) ≤
      ((X : ℚ) / U - 1) * ((a : ℚ) / U) * ((1 + uq) * (1 + uq)) * P18
        + τq * ((a : ℚ) / U * (1 + uq) + 1) * P18 + 1 / 2 ∧
    ((X : ℚ) / U - 1) * ((a : ℚ) / U) * ((1 - uq) * (1 - uq)) * P18
        - τq * ((a : ℚ) / U * (1 - uq) + 1) * P18 - 1 / 2 ≤ ((interestOfPow X a : Int) : ℚ) := by
  have hU := Uq_pos
  have hd0 : 0 ≤ fsub X (U : Int) := fsub_nonneg _ _ hX
  have hm0 : 0 ≤ fmul (fsub X (U : Int)) a := fmul_nonneg _ _ hd0 ha
  obtain ⟨d1, d2⟩ := fround_q (X - (U : Int)) 1 (by decide) (by omega)
  obtain ⟨m1, m2⟩ := fround_q (fsub X (U : Int) * a) U U_pos (Int.mul_nonneg hd0 ha)
  obtain ⟨i1, i2⟩ := fmt18_q (fmul (fsub X (U : Int)) a) hm0
  have hx1 : (1 : ℚ) ≤ (X : ℚ) / U := by
    rw [le_div_iff₀ hU]; have : ((U : Int) : ℚ) ≤ (X : ℚ) := by exact_mod_cast hX
    simpa using this
  have ha' : (0 : ℚ) ≤ (a : ℚ) / U := div_nonneg (by exact_mod_cast ha) (le_of_lt hU)
  change ((fmt18 (fmul (fsub X (U : Int)) a) : Int) : ℚ) ≤ _ ∧ _ ≤ ((fmt18 (fmul (fsub X (U : Int)) a) : Int) : ℚ)
  change ((fsub X (U : Int) : Int) : ℚ) ≤ _ at d1
  change _ ≤ ((fsub X (U : Int) : Int) : ℚ) at d2
  change ((fmul (fsub X (U : Int)) a : Int) : ℚ) ≤ _ at m1
  change _ ≤ ((fmul (fsub X (U : Int)) a : Int) : ℚ) at m2
  generalize ((fmt18 (fmul (fsub X (U : Int)) a) : Int) : ℚ) = i at *
  generalize ((fmul (fsub X (U : Int)) a : Int) : ℚ) = m at *
  push_cast at d1 d2 m1 m2
  generalize ((fsub X (U : Int) : Int) : ℚ) = d at *
  constructor
  · apply chain_upper ((X : ℚ) / U) ((a : ℚ) / U) uq τq P18 (d / U) (m / U) i hx1 ha' (le_of_lt uq_pos) (Nat.cast_nonneg _)
    · have : d / U ≤ (((X : ℚ) - U) / 1 * (1 + uq) + 1 / 2) / U := by gcongr
      calc d / U ≤ (((X : ℚ) - U) / 1 * (1 + uq) + 1 / 2) / U := this
        _ = ((X : ℚ) / U - 1) * (1 + uq) + τq := by unfold τq; field_simp
    · have : m / U ≤ (d * a / U * (1 + uq) + 1 / 2) / U := by gcongr
      calc m / U ≤ (d * a / U * (1 + uq) + 1 / 2) / U := this
        _ = d / U * ((a : ℚ) / U) * (1 + uq) + τq := by unfold τq; field_simp
    · calc i ≤ m * P18 / U + 1 / 2 := i1
        _ = m / U * P18 + 1 / 2 := by ring
  · apply chain_lower ((X : ℚ) / U) ((a : ℚ) / U) uq τq P18 (d / U) (m / U) i ha' uq_le_one (Nat.cast_nonneg _)
    · have : (((X : ℚ) - U) / 1 * (1 - uq) - 1 / 2) / U ≤ d / U := by gcongr
      calc ((X : ℚ) / U - 1) * (1 - uq) - τq = (((X : ℚ) - U) / 1 * (1 - uq) - 1 / 2) / U := by unfold τq; field_simp
        _ ≤ d / U := this
    · have : (d * a / U * (1 - uq) - 1 / 2) / U ≤ m / U := by gcongr
      calc d / U * ((a : ℚ) / U) * (1 - uq) - τq = (d * a / U * (1 - uq) - 1 / 2) / U := by unfold τq; field_simp
        _ ≤ m / U := this
    · calc m / U * P18 - 1 / 2 = m * P18 / U - 1 / 2 := by ring
        _ ≤ i := i2

/-! ### the two-interval law for `interest` -/
theorem subaddErr_eq (E : Nat) (a c : Int) :
    subaddErr E a c = (P18 : ℚ) * ((a : ℚ) / U) *
      ((c : ℚ) / U * (1 / (E : ℚ)) * ((1 + uq) * (1 + uq)) + ((c : ℚ) / U - 1) * (4 * uq)) + 2 := by
  unfold subaddErr uq
  push_cast
  rfl

theorem aF_pow63 : aF (2 ^ 63) = 2 ^ 63 * (U : Int) := by decide +kernel

theorem junk_small : 6 * (2 ^ 64 + 1) * P18 ≤ 2 * U := by decide +kernel

theorem two_interval (ops : FloatOps) (n : Int) (lsr : Dec) (s t : Int)
    (hn : 0 ≤ n) (hn63 : n ≤ 2 ^ 63) (hl : 0 ≤ lsr) (hs : 0 ≤ s) (ht : 0 ≤ t) :
    ((interest ops n lsr s + interest ops n lsr t : Int) : ℚ) ≤
      ((interest ops n lsr (s + t) : Int) : ℚ) + subaddErr ops.E (aF n) (ops.pow (xF lsr) (yF (s + t))) := by
  have hU := Uq_pos
  have hst : 0 ≤ s + t := by omega
  have hA := ops.pow_ge_one lsr s hl hs
  have hB := ops.pow_ge_one lsr t hl ht
  have hC := ops.pow_ge_one lsr (s + t) hl hst
  have hsub := ops.pow_submult lsr s t hl hs ht
  have hE : (0 : ℚ) < (ops.E : ℚ) := by exact_mod_cast ops.E_pos
  have a0 := aF_nonneg n hn
  have a63 : aF n ≤ 2 ^ 63 * (U : Int) := by rw [← aF_pow63]; exact aF_mono n _ hn hn63
  obtain ⟨uA, _⟩ := interest_bounds _ (aF n) hA a0
  obtain ⟨uB, _⟩ := interest_bounds _ (aF n) hB a0
  obtain ⟨_, lC⟩ := interest_bounds _ (aF n) hC a0
  rw [subaddErr_eq]
  unfold interest
  generalize ops.pow (xF lsr) (yF s) = A at *
  generalize ops.pow (xF lsr) (yF t) = B at *
  generalize ops.pow (xF lsr) (yF (s + t)) = C at *
  generalize aF n = a at *
  have ha' : (0 : ℚ) ≤ (a : ℚ) / U := div_nonneg (by exact_mod_cast a0) (le_of_lt hU)
  have ha63 : (a : ℚ) / U ≤ 2 ^ 63 := by
    rw [div_le_iff₀ hU]; exact_mod_cast a63
  have one_le (X : Int) (h : (U : Int) ≤ X) : (1 : ℚ) ≤ (X : ℚ) / U := by
    rw [le_div_iff₀ hU]; have : ((U : Int) : ℚ) ≤ (X : ℚ) := by exact_mod_cast h
    simpa using this
  have hsubq : (A : ℚ) / U * ((B : ℚ) / U) ≤ (C : ℚ) / U * (1 + 1 / (ops.E : ℚ)) := by
    have h' : (A : ℚ) * B * ops.E ≤ (C : ℚ) * U * ((ops.E : ℚ) + 1) := by exact_mod_cast hsub
    have e1 : (A : ℚ) / U * ((B : ℚ) / U) = ((A : ℚ) * B * ops.E) / ((U : ℚ) * U * ops.E) := by field_simp
    have e2 : (C : ℚ) / U * (1 + 1 / (ops.E : ℚ)) = ((C : ℚ) * U * ((ops.E : ℚ) + 1)) / ((U : ℚ) * U * ops.E) := by
      field_simp
    rw [e1, e2]
    exact div_le_div_of_nonneg_right h' (le_of_lt (mul_pos (mul_pos hU hU) hE))
  have core := subadd_core ((A : ℚ) / U) ((B : ℚ) / U) ((C : ℚ) / U) ((a : ℚ) / U) uq (1 / (ops.E : ℚ)) τq P18
    _ _ _ (one_le A hA) (one_le B hB) ha' (le_of_lt uq_pos) uq_le_one τq_nonneg (Nat.cast_nonneg _) hsubq uA uB lC
  -- the absolute (2^-1075) errors are negligible
  have hj : τq * ((a : ℚ) / U * (1 + uq) + 1) * P18 ≤ 1 / 6 := by
    have h1 : (a : ℚ) / U * (1 + uq) + 1 ≤ 2 ^ 64 + 1 := by
      have : (a : ℚ) / U * (1 + uq) ≤ 2 ^ 63 * 2 := by
        apply mul_le_mul ha63 (by linarith [uq_le_one]) (by linarith [uq_pos]) (by positivity)
      linarith
    have hP : (0 : ℚ) ≤ (P18 : ℚ) := Nat.cast_nonneg _
    have h2 : τq * ((a : ℚ) / U * (1 + uq) + 1) * P18 ≤ τq * (2 ^ 64 + 1) * P18 := by
      exact mul_le_mul_of_nonneg_right (mul_le_mul_of_nonneg_left h1 τq_nonneg) hP
    have h3 : τq * (2 ^ 64 + 1) * (P18 : ℚ) ≤ 1 / 6 := by
      have hn : ((6 * (2 ^ 64 + 1) * P18 : Nat) : ℚ) ≤ ((2 * U : Nat) : ℚ) := by exact_mod_cast junk_small
      push_cast at hn
      unfold τq
      rw [div_mul_eq_mul_div, div_mul_eq_mul_div, div_le_iff₀ (by positivity)]
      linarith
    linarith
  push_cast
  linarith

end Comdex.Accrual
