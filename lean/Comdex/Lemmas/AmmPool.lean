import Comdex.Model.AmmPool
import Comdex.Lemmas.AmmMatch
/-!
Lemmas for C05, part 8: the basic pool's side of a batch.  `BuyAmountOver` / `SellAmountUnder` stay on the pool's curve and
within its reserves; the tick loops of `PoolBuyOrders` / `PoolSellOrders` only place such orders.
-/
namespace Comdex.Amm
open Comdex

/-- `a ≤ ⌊⌊X/t⌋⌋` (the `QuoTruncate` then `TruncateInt` of the code) implies `t·a ≤ X` -/
theorem quoTruncate_spec (X t a : Int) (hX : 0 ≤ X) (ht : 0 < t)
    (ha : a ≤ Dec.truncateInt (Dec.quoTruncate X t)) : t * a ≤ X := by
  unfold Dec.truncateInt Dec.quoTruncate Dec.chopTrunc at ha
  have hX' : 0 ≤ X * Dec.PP := Int.mul_nonneg hX (by decide)
  rw [Int.tdiv_eq_ediv_of_nonneg hX'] at ha
  have h1 : 0 ≤ X * Dec.PP / t := Int.ediv_nonneg hX' (by omega)
  rw [Int.tdiv_eq_ediv_of_nonneg h1] at ha
  have h2 : 0 ≤ X * Dec.PP / t / Dec.P := Int.ediv_nonneg h1 (by decide)
  rw [Int.tdiv_eq_ediv_of_nonneg h2] at ha
  rw [Int.le_ediv_iff_mul_le P_pos, Int.le_ediv_iff_mul_le P_pos, Int.le_ediv_iff_mul_le ht] at ha
  have hPP : Dec.PP = Dec.P * Dec.P := rfl
  rw [hPP] at ha
  have h3 : (t * a) * (Dec.P * Dec.P) ≤ X * (Dec.P * Dec.P) := by
    have : a * Dec.P * Dec.P * t = (t * a) * (Dec.P * Dec.P) := by ring
    rw [← this]; exact ha
  exact Int.le_of_mul_le_mul_right h3 (by decide)

/-- **`BasicPool.BuyAmountOver`**: the amount `a` offered at price `t` costs at most the quote reserve, and
`t·(ry + a) ≤ rx`: buying `a` at `t` does not decrease `rx·ry` (before the payment is rounded up to a whole quote unit) -/
theorem buyAmountOver_spec (pl : BPool) (t a : Int) (hry : 0 ≤ pl.ry) (ht : minPoolPrice ≤ t)
    (h : pl.buyAmountOver t = some a) :
    0 ≤ a ∧ (0 < a → quoteCeil t a ≤ pl.rx ∧ t * (pl.ry + a) ≤ pl.rx * Dec.P) := by
  have ht0 : 0 < t := by unfold minPoolPrice at ht; omega
  unfold BPool.buyAmountOver at h
  cases hp : pl.price with
  | none => rw [hp] at h; cases h
  | some pp =>
    rw [hp] at h
    simp only at h
    have hnot : ¬ t < minPoolPrice := by omega
    rw [if_neg hnot] at h
    by_cases hge : t ≥ pp
    · rw [if_pos hge] at h; cases h; exact ⟨Int.le_refl _, fun h0 => absurd h0 (by decide)⟩
    · rw [if_neg hge] at h
      by_cases hdx : Dec.ofInt pl.rx - Dec.mulInt t pl.ry ≤ 0
      · rw [if_pos hdx] at h; cases h; exact ⟨Int.le_refl _, fun h0 => absurd h0 (by decide)⟩
      · rw [if_neg hdx] at h
        have hdx' : 0 ≤ Dec.ofInt pl.rx - Dec.mulInt t pl.ry := Int.le_of_lt (Int.not_le.mp hdx)
        have key : ∀ b, b ≤ Dec.truncateInt (Dec.quoTruncate (Dec.ofInt pl.rx - Dec.mulInt t pl.ry) t) → 0 < b →
            quoteCeil t b ≤ pl.rx ∧ t * (pl.ry + b) ≤ pl.rx * Dec.P := by
          intro b hb hb0
          have hs := quoTruncate_spec _ t b hdx' ht0 hb
          unfold Dec.ofInt Dec.mulInt at hs
          have htry : 0 ≤ t * pl.ry := Int.mul_nonneg (by omega) hry
          have hcurve : t * (pl.ry + b) ≤ pl.rx * Dec.P := by
            have : t * (pl.ry + b) = t * pl.ry + t * b := by ring
            omega
          refine ⟨?_, hcurve⟩
          have htb : 0 ≤ t * b := Int.mul_nonneg (by omega) (by omega)
          rw [quoteCeil_eq t b htb]
          have : (t * b + (Dec.P - 1)) / Dec.P < pl.rx + 1 :=
            Int.ediv_lt_of_lt_mul P_pos (by have := P_pos; linarith)
          omega
        have hnn : 0 ≤ Dec.truncateInt (Dec.quoTruncate (Dec.ofInt pl.rx - Dec.mulInt t pl.ry) t) := by
          unfold Dec.truncateInt Dec.quoTruncate Dec.chopTrunc
          have hX' : 0 ≤ (Dec.ofInt pl.rx - Dec.mulInt t pl.ry) * Dec.PP := Int.mul_nonneg hdx' (by decide)
          rw [Int.tdiv_eq_ediv_of_nonneg hX']
          have h1 := Int.ediv_nonneg hX' (by omega : 0 ≤ t)
          rw [Int.tdiv_eq_ediv_of_nonneg h1]
          have h2 := Int.ediv_nonneg h1 (by decide : (0:Int) ≤ Dec.P)
          rw [Int.tdiv_eq_ediv_of_nonneg h2]
          exact Int.ediv_nonneg h2 (by decide)
        simp only [Option.some.injEq] at h
        split at h
        · rename_i hmax
          subst h
          exact ⟨by decide, fun h0 => key _ (by omega) h0⟩
        · subst h
          exact ⟨hnn, fun h0 => key _ (Int.le_refl _) h0⟩


/-- **`BasicPool.SellAmountUnder`**: the amount `a` offered at price `t` (up to 10^18) is covered by the base reserve, and
`rx ≤ t·(ry − a)`: selling `a` at `t` does not decrease `rx·ry` (before the receipt is rounded down to a whole quote unit) -/
theorem sellAmountUnder_spec (pl : BPool) (t a : Int) (hrx : 0 ≤ pl.rx) (ht0 : 0 < t) (ht : t ≤ Dec.PP)
    (h : pl.sellAmountUnder t = some a) :
    0 ≤ a ∧ (0 < a → a ≤ pl.ry ∧ pl.rx * Dec.P ≤ t * (pl.ry - a)) := by
  unfold BPool.sellAmountUnder at h
  cases hp : pl.price with
  | none => rw [hp] at h; cases h
  | some pp =>
    rw [hp] at h
    simp only at h
    have hnot : ¬ t > maxPoolPrice := by unfold maxPoolPrice; have : Dec.PP ≤ 100000000000000000000 * Dec.P := by decide
                                         omega
    rw [if_neg hnot] at h
    by_cases hle : t ≤ pp
    · rw [if_pos hle] at h; cases h; exact ⟨Int.le_refl _, fun h0 => absurd h0 (by decide)⟩
    · rw [if_neg hle] at h
      simp only [Option.some.injEq] at h
      by_cases hpos : Dec.truncateInt (Dec.ofInt pl.ry - Dec.quoRoundUp (Dec.ofInt pl.rx) t) > 0
      · rw [if_pos hpos] at h
        subst h
        refine ⟨by omega, fun _ => ?_⟩
        -- c := QuoRoundUp(rx, t)
        unfold Dec.quoRoundUp Dec.chopRoundUp Dec.ofInt at hpos ⊢
        have hX : 0 ≤ pl.rx * Dec.P * Dec.PP := Int.mul_nonneg (Int.mul_nonneg hrx (by decide)) (by decide)
        have hneg : ¬ (pl.rx * Dec.P * Dec.PP).tdiv t < 0 := by
          rw [Int.tdiv_eq_ediv_of_nonneg hX]; have := Int.ediv_nonneg hX (by omega : 0 ≤ t); omega
        rw [if_neg hneg] at hpos ⊢
        rw [Int.tdiv_eq_ediv_of_nonneg hX] at hpos ⊢
        have hf0 : 0 ≤ pl.rx * Dec.P * Dec.PP / t := Int.ediv_nonneg hX (by omega)
        have hft : pl.rx * Dec.P * Dec.PP - (t - 1) ≤ (pl.rx * Dec.P * Dec.PP / t) * t := by
          have := Int.lt_ediv_add_one_mul_self (pl.rx * Dec.P * Dec.PP) ht0
          have e : (pl.rx * Dec.P * Dec.PP / t + 1) * t = (pl.rx * Dec.P * Dec.PP / t) * t + t := by ring
          omega
        generalize pl.rx * Dec.P * Dec.PP / t = f at *
        rw [Int.tdiv_eq_ediv_of_nonneg hf0, Int.tmod_eq_emod_of_nonneg hf0] at hpos ⊢
        -- c·P ≥ f
        generalize hc : (if f % Dec.P = 0 then f / Dec.P else f / Dec.P + 1) = c at *
        have hcP : f ≤ c * Dec.P := by
          rw [← hc]; split <;> simp only [Dec.P] at * <;> omega
        unfold Dec.truncateInt at hpos ⊢
        have hd0 : 0 ≤ pl.ry * Dec.P - c := by
          by_contra hn
          have : (pl.ry * Dec.P - c).tdiv Dec.P ≤ 0 := by
            have e : (pl.ry * Dec.P - c) = -(-(pl.ry * Dec.P - c)) := by omega
            rw [e, Int.neg_tdiv]
            have := Int.tdiv_nonneg (a := -(pl.ry * Dec.P - c)) (b := Dec.P) (by omega) (by decide)
            omega
          omega
        rw [Int.tdiv_eq_ediv_of_nonneg hd0] at hpos ⊢
        have haP : (pl.ry * Dec.P - c) / Dec.P * Dec.P ≤ pl.ry * Dec.P - c := Int.ediv_mul_le _ (by decide)
        generalize (pl.ry * Dec.P - c) / Dec.P = a at *
        have hc0 : 0 ≤ c := by
          rw [← hc]; have := Int.ediv_nonneg hf0 (by decide : (0:Int) ≤ Dec.P); split <;> omega
        constructor
        · have hP := P_pos
          by_contra hn
          have : pl.ry * Dec.P < a * Dec.P := by
            have : (pl.ry + 1) * Dec.P ≤ a * Dec.P := Int.mul_le_mul_of_nonneg_right (by omega) (by omega)
            have e : (pl.ry + 1) * Dec.P = pl.ry * Dec.P + Dec.P := by ring
            omega
          omega
        · -- c ≤ (ry − a)·P, c·P·t ≥ f·t ≥ rx·P·PP − (t−1)
          by_contra hn
          have h1 : t * (pl.ry - a) ≤ pl.rx * Dec.P - 1 := by omega
          have hPP : Dec.PP = Dec.P * Dec.P := rfl
          have h2 : c ≤ (pl.ry - a) * Dec.P := by
            have e : (pl.ry - a) * Dec.P = pl.ry * Dec.P - a * Dec.P := by ring
            omega
          have h3 : f * t ≤ (pl.ry - a) * Dec.P * Dec.P * t := by
            have : c * Dec.P ≤ (pl.ry - a) * Dec.P * Dec.P := Int.mul_le_mul_of_nonneg_right h2 (by decide)
            have : f ≤ (pl.ry - a) * Dec.P * Dec.P := by omega
            exact Int.mul_le_mul_of_nonneg_right this (by omega)
          have h4 : (pl.ry - a) * Dec.P * Dec.P * t = (t * (pl.ry - a)) * Dec.PP := by rw [hPP]; ring
          have h5 : (t * (pl.ry - a)) * Dec.PP ≤ (pl.rx * Dec.P - 1) * Dec.PP :=
            Int.mul_le_mul_of_nonneg_right h1 (by decide)
          have h6 : (pl.rx * Dec.P - 1) * Dec.PP = pl.rx * Dec.P * Dec.PP - Dec.PP := by ring
          omega
      · rw [if_neg hpos] at h
        subst h
        exact ⟨Int.le_refl _, fun h0 => absurd h0 (by decide)⟩


theorem chopRound_nonneg (x : Int) (hx : 0 ≤ x) : 0 ≤ Dec.chopRound x := by
  unfold Dec.chopRound
  rw [if_neg (by omega)]
  unfold Dec.chopRoundNonneg
  simp only
  have := Int.tdiv_nonneg hx (by decide : (0:Int) ≤ Dec.P)
  split
  · exact this
  · split
    · exact this
    · split
      · omega
      · split <;> omega

theorem price_nonneg (pl : BPool) (pp : Int) (hrx : 0 ≤ pl.rx) (hry : 0 ≤ pl.ry) (h : pl.price = some pp) : 0 ≤ pp := by
  unfold BPool.price at h
  split at h
  · cases h
  · cases h
    unfold Dec.quo Dec.ofInt
    apply chopRound_nonneg
    exact Int.tdiv_nonneg (Int.mul_nonneg (Int.mul_nonneg hrx (by decide)) (by decide)) (Int.mul_nonneg hry (by decide))

/-- a positive `SellAmountUnder` is only offered above the (non-negative) pool price -/
theorem sellAmountUnder_pos_price (pl : BPool) (t a : Int) (hrx : 0 ≤ pl.rx) (hry : 0 ≤ pl.ry)
    (h : pl.sellAmountUnder t = some a) (ha : 0 < a) : 0 < t := by
  unfold BPool.sellAmountUnder at h
  cases hp : pl.price with
  | none => rw [hp] at h; cases h
  | some pp =>
    rw [hp] at h
    simp only at h
    have := price_nonneg pl pp hrx hry hp
    by_cases hmax : t > maxPoolPrice
    · unfold maxPoolPrice at hmax; have : (0:Int) < 100000000000000000000 * Dec.P := by decide
      omega
    · rw [if_neg hmax] at h
      by_cases hle : t ≤ pp
      · rw [if_pos hle] at h; cases h; omega
      · omega

/-- **the tick loop of `PoolBuyOrders`**: every order it places is covered by the running quote reserve and is not above the
pool's curve (`monPoolBuys`, replayed on the running reserves) -/
theorem buyLoop_ok (fuel : Nat) (pl : BPool) (pp lowest tick : Int) (prec : Nat) (acc os : List (Int × Int))
    (hry : 0 ≤ pl.ry) (hlow : minPoolPrice ≤ lowest) (h : buyLoop fuel pl pp lowest tick prec acc = some os) :
    ∃ new, os = acc ++ new ∧ monPoolBuys pl new = true := by
  induction fuel generalizing pl tick acc with
  | zero => unfold buyLoop at h; cases h; exact ⟨[], by simp, rfl⟩
  | succ fuel ih =>
    unfold buyLoop at h
    by_cases hlt : tick < lowest
    · rw [if_pos hlt] at h; cases h; exact ⟨[], by simp, rfl⟩
    · rw [if_neg hlt] at h
      cases hb : pl.buyAmountOver tick with
      | none => rw [hb] at h; cases h
      | some amt =>
        rw [hb] at h
        simp only at h
        by_cases hmin : amt < minCoinAmount
        · rw [if_pos hmin] at h; exact ih pl _ acc hry h
        · rw [if_neg hmin] at h
          have hamt : 0 < amt := by unfold minCoinAmount at hmin; omega
          obtain ⟨_, hs⟩ := buyAmountOver_spec pl tick amt hry (by omega) hb
          obtain ⟨s1, s2⟩ := hs hamt
          have hhead : (decide (0 < amt) && decide (quoteCeil tick amt ≤ pl.rx) &&
              decide (tick * (pl.ry + amt) ≤ pl.rx * Dec.P)) = true := by simp [hamt, s1, s2]
          by_cases hbrk : ¬ (pl.rx - quoteCeil tick amt > 0)
          · rw [if_pos hbrk] at h; cases h
            refine ⟨[(tick, amt)], rfl, ?_⟩
            unfold monPoolBuys; rw [hhead]; rfl
          · rw [if_neg hbrk] at h
            obtain ⟨new, hn1, hn2⟩ := ih ⟨pl.rx - quoteCeil tick amt, pl.ry + amt⟩ _ _ (by simp; omega) h
            refine ⟨(tick, amt) :: new, by rw [hn1]; simp, ?_⟩
            unfold monPoolBuys; rw [hhead, hn2]; rfl

/-- **the tick loop of `PoolSellOrders`** (prices up to 10^18) -/
theorem sellLoop_ok (fuel : Nat) (pl : BPool) (pp highest tick : Int) (prec : Nat) (acc os : List (Int × Int))
    (hrx : 0 ≤ pl.rx) (hry : 0 ≤ pl.ry) (hhigh : highest ≤ Dec.PP)
    (h : sellLoop fuel pl pp highest tick prec acc = some os) :
    ∃ new, os = acc ++ new ∧ monPoolSells pl new = true := by
  induction fuel generalizing pl tick acc with
  | zero => unfold sellLoop at h; cases h; exact ⟨[], by simp, rfl⟩
  | succ fuel ih =>
    unfold sellLoop at h
    by_cases hgt : tick > highest
    · rw [if_pos hgt] at h; cases h; exact ⟨[], by simp, rfl⟩
    · rw [if_neg hgt] at h
      cases hb : pl.sellAmountUnder tick with
      | none => rw [hb] at h; cases h
      | some amt =>
        rw [hb] at h
        simp only at h
        by_cases hmin : amt < minCoinAmount ∨ quoteFloor tick amt = 0
        · rw [if_pos hmin] at h; exact ih pl _ acc hrx hry h
        · rw [if_neg hmin] at h
          have hamt : 0 < amt := by unfold minCoinAmount at hmin; omega
          have ht0 := sellAmountUnder_pos_price pl tick amt hrx hry hb hamt
          obtain ⟨_, hs⟩ := sellAmountUnder_spec pl tick amt hrx ht0 (by omega) hb
          obtain ⟨s1, s2⟩ := hs hamt
          have hhead : (decide (0 < amt) && decide (amt ≤ pl.ry) &&
              decide (pl.rx * Dec.P ≤ tick * (pl.ry - amt))) = true := by simp [hamt, s1, s2]
          have hq := quoteFloor_nonneg tick amt (by omega) (by omega)
          by_cases hbrk : ¬ (pl.ry - amt > minCoinAmount)
          · rw [if_pos hbrk] at h; cases h
            refine ⟨[(tick, amt)], rfl, ?_⟩
            unfold monPoolSells; rw [hhead]; rfl
          · rw [if_neg hbrk] at h
            obtain ⟨new, hn1, hn2⟩ := ih ⟨pl.rx + quoteFloor tick amt, pl.ry - amt⟩ _ _ (by simp; omega) (by simp; omega) h
            refine ⟨(tick, amt) :: new, by rw [hn1]; simp, ?_⟩
            unfold monPoolSells; rw [hhead, hn2]; rfl

/-- what `monPoolBuys` implies for the totals: the quote coin of all buy orders together is covered by the quote reserve -/
theorem monPoolBuys_total (pl : BPool) (l : List (Int × Int)) (h : monPoolBuys pl l = true) :
    sumInt (l.map fun pa => quoteCeil pa.1 pa.2) ≤ pl.rx ∨ l = [] := by
  induction l generalizing pl with
  | nil => right; rfl
  | cons x rest ih =>
    left
    obtain ⟨p, a⟩ := x
    unfold monPoolBuys at h
    simp only [Bool.and_eq_true, decide_eq_true_eq] at h
    obtain ⟨⟨⟨_, h2⟩, _⟩, h4⟩ := h
    simp only [List.map_cons, sumInt]
    rcases ih _ h4 with h5 | h5
    · simp only at h5; omega
    · subst h5; simp [sumInt]; omega

/-- the base coin of all sell orders together is covered by the base reserve -/
theorem monPoolSells_total (pl : BPool) (l : List (Int × Int)) (h : monPoolSells pl l = true) :
    sumInt (l.map fun pa => pa.2) ≤ pl.ry ∨ l = [] := by
  induction l generalizing pl with
  | nil => right; rfl
  | cons x rest ih =>
    left
    obtain ⟨p, a⟩ := x
    unfold monPoolSells at h
    simp only [Bool.and_eq_true, decide_eq_true_eq] at h
    obtain ⟨⟨⟨_, h2⟩, _⟩, h4⟩ := h
    simp only [List.map_cons, sumInt]
    rcases ih _ h4 with h5 | h5
    · simp only at h5; omega
    · subst h5; simp [sumInt]; omega



theorem sqrtLoop_nonneg (fuel : Nat) (d guess delta : Int) (hd : 0 ≤ d) (hg : 0 ≤ guess) :
    0 ≤ Dec.sqrtLoop fuel d guess delta := by
  have key : ∀ q g : Int, 0 ≤ q → 0 ≤ g → 0 ≤ g + (q - g) / 2 := by intro q g hq hg; omega
  induction fuel generalizing guess delta with
  | zero => unfold Dec.sqrtLoop; exact hg
  | succ fuel ih =>
    unfold Dec.sqrtLoop
    split
    · simp only
      apply ih
      have hprev : 0 < (if guess = 0 then 1 else guess) := by split <;> omega
      have hq : 0 ≤ Dec.quo d (if guess = 0 then 1 else guess) := by
        unfold Dec.quo
        apply chopRound_nonneg
        exact Int.tdiv_nonneg (Int.mul_nonneg hd (by decide)) (by omega)
      exact key _ _ hq hg
    · exact hg

theorem approxSqrt_nonneg (d : Int) : 0 ≤ Dec.approxSqrt d := by
  unfold Dec.approxSqrt
  by_cases h1 : d < 0
  · rw [if_pos h1]
  · rw [if_neg h1]
    by_cases h2 : d = 0 ∨ d = Dec.one
    · rw [if_pos h2]; rcases h2 with h | h <;> rw [h] <;> decide
    · rw [if_neg h2]
      exact sqrtLoop_nonneg 300 d Dec.one Dec.one (by omega) (by decide)

theorem decMul_nonneg (a b : Int) (ha : 0 ≤ a) (hb : 0 ≤ b) : 0 ≤ Dec.mul a b :=
  chopRound_nonneg _ (Int.mul_nonneg ha hb)

theorem decQuo_nonneg (a b : Int) (ha : 0 ≤ a) (hb : 0 ≤ b) : 0 ≤ Dec.quo a b :=
  chopRound_nonneg _ (Int.tdiv_nonneg (Int.mul_nonneg ha (by decide)) hb)

/-- `SellAmountTo` never exceeds the base reserve -/
theorem sellAmountTo_le (pl : BPool) (t a : Int) (hry : 0 ≤ pl.ry) (h : pl.sellAmountTo t = some a) : a ≤ pl.ry := by
  unfold BPool.sellAmountTo at h
  cases hp : pl.price with
  | none => rw [hp] at h; cases h
  | some pp =>
    rw [hp] at h
    simp only at h
    generalize (if t > maxPoolPrice then maxPoolPrice else t) = p at h
    by_cases hle : p ≤ pp
    · rw [if_pos hle] at h; cases h; exact hry
    · rw [if_neg hle] at h
      simp only [Option.some.injEq] at h
      generalize hQd : Dec.quo (Dec.mul (Dec.approxSqrt (Dec.ofInt pl.rx)) (Dec.approxSqrt (Dec.ofInt pl.ry)))
        (Dec.approxSqrt p) = Q at h
      have hQ : 0 ≤ Q := by
        rw [← hQd]
        exact decQuo_nonneg _ _ (decMul_nonneg _ _ (approxSqrt_nonneg (Dec.ofInt pl.rx)) (approxSqrt_nonneg (Dec.ofInt pl.ry)))
          (approxSqrt_nonneg p)
      by_cases hpos : Dec.truncateInt (Dec.ofInt pl.ry - Q) > 0
      · rw [if_pos hpos] at h
        subst h
        unfold Dec.truncateInt Dec.ofInt
        by_cases hn : 0 ≤ pl.ry * Dec.P - Q
        · rw [Int.tdiv_eq_ediv_of_nonneg hn]
          have hQ' : (0 : Int) ≤ (Q : Int) := hQ
          have : (pl.ry * Dec.P - Q) / Dec.P ≤ (pl.ry * Dec.P) / Dec.P := Int.ediv_le_ediv P_pos (by omega)
          rw [Int.mul_ediv_cancel _ (by decide : Dec.P ≠ 0)] at this
          exact this
        · have e : (pl.ry * Dec.P - Q) = -(-(pl.ry * Dec.P - Q)) := by omega
          rw [e, Int.neg_tdiv]
          have := Int.tdiv_nonneg (a := -(pl.ry * Dec.P - Q)) (b := Dec.P) (by omega) (by decide)
          omega
      · rw [if_neg hpos] at h; subst h; exact hry

/-- what `PoolBuyOrders` must satisfy: apart from the one order at the upper price limit that `BuyAmountTo` contributes when
the pool price is above the limit (`first`; its amount comes from approximate square roots and is only monitored), every
order is covered by the running quote reserve and not above the pool's curve -/
def BuysOk (pl : BPool) (highest : Int) (l : List (Int × Int)) : Prop :=
  ∃ first rest pl1, l = first ++ rest ∧ monPoolBuys pl1 rest = true ∧
    ((first = [] ∧ pl1 = pl) ∨
     (∃ amt, pl.buyAmountTo highest = some amt ∧ minCoinAmount ≤ amt ∧
        first = [(highest, amt)] ∧ pl1 = ⟨pl.rx - quoteCeil highest amt, pl.ry + amt⟩))

/-- **`PoolBuyOrders` of a basic pool** -/
theorem poolBuyOrders_ok (pl : BPool) (lowest highest : Int) (prec : Nat) (hry : 0 ≤ pl.ry) (hlow : minPoolPrice ≤ lowest) :
    BuysOk pl highest (poolBuyOrders pl lowest highest prec) := by
  have triv : BuysOk pl highest [] := ⟨[], [], pl, rfl, rfl, Or.inl ⟨rfl, rfl⟩⟩
  unfold poolBuyOrders
  cases hp : pl.price with
  | none => exact triv
  | some pp =>
    simp only
    by_cases h1 : pp ≤ lowest
    · rw [if_pos h1]; exact triv
    · rw [if_neg h1]
      by_cases h2 : pp > highest
      · rw [if_pos h2]
        cases hbt : pl.buyAmountTo highest with
        | none => exact triv
        | some amt =>
          simp only
          by_cases h3 : amt ≥ minCoinAmount
          · rw [if_pos h3]
            simp only
            cases hp1 : (BPool.mk (pl.rx - quoteCeil highest amt) (pl.ry + amt)).price with
            | none => exact triv
            | some p1 =>
              simp only
              cases hl : buyLoop _ (BPool.mk (pl.rx - quoteCeil highest amt) (pl.ry + amt)) pp lowest
                  (priceToDownTick (if highest < p1 then highest else p1) prec) prec [(highest, amt)] with
              | none => exact triv
              | some os =>
                simp only
                have ham : 0 ≤ amt := by unfold minCoinAmount at h3; omega
                obtain ⟨new, hn1, hn2⟩ := buyLoop_ok _ _ pp lowest _ prec _ os (by simp; omega) hlow hl
                exact ⟨[(highest, amt)], new, _, hn1, hn2, Or.inr ⟨amt, hbt, h3, rfl, rfl⟩⟩
          · rw [if_neg h3]
            simp only
            rw [hp]
            simp only
            cases hl : buyLoop _ pl pp lowest (priceToDownTick (if highest < pp then highest else pp) prec) prec [] with
            | none => exact triv
            | some os =>
              simp only
              obtain ⟨new, hn1, hn2⟩ := buyLoop_ok _ _ pp lowest _ prec _ os hry hlow hl
              exact ⟨[], new, pl, by simpa using hn1, hn2, Or.inl ⟨rfl, rfl⟩⟩
      · rw [if_neg h2]
        simp only
        rw [hp]
        simp only
        cases hl : buyLoop _ pl pp lowest (priceToDownTick (if highest < pp then highest else pp) prec) prec [] with
        | none => exact triv
        | some os =>
          simp only
          obtain ⟨new, hn1, hn2⟩ := buyLoop_ok _ _ pp lowest _ prec _ os hry hlow hl
          exact ⟨[], new, pl, by simpa using hn1, hn2, Or.inl ⟨rfl, rfl⟩⟩

def SellsOk (pl : BPool) (lowest : Int) (l : List (Int × Int)) : Prop :=
  ∃ first rest pl1, l = first ++ rest ∧ monPoolSells pl1 rest = true ∧
    ((first = [] ∧ pl1 = pl) ∨
     (∃ amt, pl.sellAmountTo lowest = some amt ∧ minCoinAmount ≤ amt ∧ amt ≤ pl.ry ∧
        first = [(lowest, amt)] ∧ pl1 = ⟨pl.rx + quoteFloor lowest amt, pl.ry - amt⟩))

/-- **`PoolSellOrders` of a basic pool** (price limits up to 10^18), likewise; the `SellAmountTo` order too is covered by the
base reserve -/
theorem poolSellOrders_ok (pl : BPool) (lowest highest : Int) (prec : Nat) (hrx : 0 ≤ pl.rx) (hry : 0 ≤ pl.ry)
    (hhigh : highest ≤ Dec.PP) :
    SellsOk pl lowest (poolSellOrders pl lowest highest prec) := by
  have triv : SellsOk pl lowest [] := ⟨[], [], pl, rfl, rfl, Or.inl ⟨rfl, rfl⟩⟩
  unfold poolSellOrders
  cases hp : pl.price with
  | none => exact triv
  | some pp =>
    simp only
    by_cases h1 : pp ≥ highest
    · rw [if_pos h1]; exact triv
    · rw [if_neg h1]
      by_cases h2 : pp < lowest
      · rw [if_pos h2]
        cases hbt : pl.sellAmountTo lowest with
        | none => exact triv
        | some amt =>
          simp only
          by_cases h3 : amt ≥ minCoinAmount ∧ quoteFloor lowest amt > 0
          · rw [if_pos h3]
            simp only
            cases hp1 : (BPool.mk (pl.rx + quoteFloor lowest amt) (pl.ry - amt)).price with
            | none => exact triv
            | some p1 =>
              simp only
              cases hl : sellLoop _ (BPool.mk (pl.rx + quoteFloor lowest amt) (pl.ry - amt)) pp highest
                  (priceToUpTick (if lowest > p1 then lowest else p1) prec) prec [(lowest, amt)] with
              | none => exact triv
              | some os =>
                simp only
                have hcov := sellAmountTo_le pl lowest amt hry hbt
                obtain ⟨new, hn1, hn2⟩ := sellLoop_ok _ _ pp highest _ prec _ os (by simp; omega) (by simp; omega) hhigh hl
                exact ⟨[(lowest, amt)], new, _, hn1, hn2, Or.inr ⟨amt, hbt, h3.1, hcov, rfl, rfl⟩⟩
          · rw [if_neg h3]
            simp only
            rw [hp]
            simp only
            cases hl : sellLoop _ pl pp highest (priceToUpTick (if lowest > pp then lowest else pp) prec) prec [] with
            | none => exact triv
            | some os =>
              simp only
              obtain ⟨new, hn1, hn2⟩ := sellLoop_ok _ _ pp highest _ prec _ os hrx hry hhigh hl
              exact ⟨[], new, pl, by simpa using hn1, hn2, Or.inl ⟨rfl, rfl⟩⟩
      · rw [if_neg h2]
        simp only
        rw [hp]
        simp only
        cases hl : sellLoop _ pl pp highest (priceToUpTick (if lowest > pp then lowest else pp) prec) prec [] with
        | none => exact triv
        | some os =>
          simp only
          obtain ⟨new, hn1, hn2⟩ := sellLoop_ok _ _ pp highest _ prec _ os hrx hry hhigh hl
          exact ⟨[], new, pl, by simpa using hn1, hn2, Or.inl ⟨rfl, rfl⟩⟩


end Comdex.Amm
