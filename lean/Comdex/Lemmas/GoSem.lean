import Comdex.Base.GoSem
/-!
Facts about the Go semantics layer `Comdex.GoSem` used by the `Props/CxxPure.lean` equivalence proofs
(regenerated translation = hand-written model).  Core Lean only.
-/
namespace Comdex.GoSem
open Comdex

/-- outcome of a whole Go function whose only failure mode is a panic: `none` = the call panics -/
def ofOption {α : Type} : Option α → M α
  | some a => .ok a
  | none => .error .panic

@[simp] theorem ofOption_some {α : Type} (a : α) : ofOption (some a) = .ok a := rfl
@[simp] theorem ofOption_none {α : Type} : (ofOption (none : Option α)) = .error .panic := rfl

theorem ok_bind {α β : Type} (a : α) (f : α → M β) : ((Except.ok a : M α) >>= f) = f a := rfl
theorem error_bind {α β : Type} (e : Fail) (f : α → M β) : ((Except.error e : M α) >>= f) = Except.error e := rfl

@[simp] theorem safeMath_ok {α : Type} (a : α) (h : M α) : safeMath (.ok a) h = .ok a := rfl
@[simp] theorem safeMath_overflow {α : Type} (h : M α) : safeMath (.error .overflow) h = h := rfl
@[simp] theorem safeMath_panic {α : Type} (h : M α) : safeMath (.error .panic) h = .error .panic := rfl

/-- the do-notation's re-packing of a pair is the identity -/
theorem bind_pure_pair {α β : Type} (m : M (α × β)) : (m >>= fun p => pure (p.fst, p.snd)) = m := by
  cases m <;> rfl
theorem bind_pure_triple {α β γ : Type} (m : M (α × β × γ)) :
    (m >>= fun p => pure (p.fst, p.snd.fst, p.snd.snd)) = m := by
  cases m <;> rfl

/-! ### machine integers: no wrap inside the range -/

theorem wrapI64_of_fits {x : Int} (h1 : -9223372036854775808 ≤ x) (h2 : x < 9223372036854775808) : wrapI64 x = x := by
  unfold wrapI64 two63 two64; omega

theorem i64Add_of_fits {a b : Int} (h1 : -9223372036854775808 ≤ a + b) (h2 : a + b < 9223372036854775808) :
    i64Add a b = a + b := wrapI64_of_fits h1 h2
theorem i64Sub_of_fits {a b : Int} (h1 : -9223372036854775808 ≤ a - b) (h2 : a - b < 9223372036854775808) :
    i64Sub a b = a - b := wrapI64_of_fits h1 h2

theorem u64Div_pos {a b : Nat} (h : b ≠ 0) : u64Div a b = pure (a / b) := by
  unfold u64Div; rw [if_neg h]; rfl
theorem u64Mod_pos {a b : Nat} (h : b ≠ 0) : u64Mod a b = pure (a % b) := by
  unfold u64Mod; rw [if_neg h]; rfl
theorem u64Add_of_fits {a b : Nat} (h : a + b < 18446744073709551616) : u64Add a b = a + b := by
  unfold u64Add two64; exact Nat.mod_eq_of_lt h
theorem u64Sub_of_le {a b : Nat} (h : b ≤ a) (ha : a < 18446744073709551616) : u64Sub a b = a - b := by
  unfold u64Sub wrapU64 two64; omega

/-! ### outcome cases of the checked primitives -/

theorem chkDec_cases (x : Dec) : chkDec x = .ok x ∨ chkDec x = .error .overflow := by
  unfold chkDec; split
  · exact Or.inl rfl
  · exact Or.inr rfl
theorem chkInt_cases (x : Int) : chkInt x = .ok x ∨ chkInt x = .error .overflow := by
  unfold chkInt; split
  · exact Or.inl rfl
  · exact Or.inr rfl
theorem decQuo_cases (a b : Dec) :
    (b = 0 ∧ decQuo a b = .error .panic) ∨
    (b ≠ 0 ∧ (decQuo a b = .ok (Dec.quo a b) ∨ decQuo a b = .error .overflow)) := by
  unfold decQuo
  by_cases h : b = 0
  · exact Or.inl ⟨h, by rw [if_pos h]⟩
  · exact Or.inr ⟨h, by rw [if_neg h]; exact chkDec_cases _⟩

/-! ### loops -/

/-- a loop whose body appends one element computed from the loop variable builds `map` -/
theorem forIn_append_map {α β : Type} (l : List α) (g : α → β) (init : List β) :
    forIn (m := M) l init (fun i s => pure (ForInStep.yield (s ++ [g i]))) = pure (init ++ l.map g) := by
  induction l generalizing init with
  | nil => simp
  | cons a l ih =>
    simp only [List.forIn_cons, pure_bind, ih, List.map_cons, List.append_assoc, List.singleton_append]

end Comdex.GoSem
