import Comdex.Base.GoSem
/-!
Facts about the Go semantics layer `Comdex.GoSem` used by the `Props/CxxPure.lean` equivalence proofs
(regenerated translation = hand-written model).  Core Lean only.
-/
set_option exponentiation.threshold 512
namespace Comdex.GoSem
open Comdex

/-- outcome of a whole Go function whose only failure mode is a panic: `none` = the call panics -/
def ofOption {α : Type} : Option α → M α
  | some a => .ok a
  | none => .error .panic

@[simp] theorem ofOption_some {α : Type} (a : α) : ofOption (some a) = .ok a := rfl
@[simp] theorem ofOption_none {α : Type} : (ofOption (none : Option α)) = .error .panic := rfl

theorem ok_bind {α β : Type} (a : α) (f : α → M β) : ((Except.ok a : M α) >>= f) = f a := rfl
theorem error_bind {α β : Type} (e : Fail) (f : α → M β) : ((Except.error e : M α) >>= f) = Except.error e := rfl

@[simp] theorem safeMath_ok {α : Type} (a : α) (h : M α) : safeMath (.ok a) h = .ok a := rfl
@[simp] theorem safeMath_overflow {α : Type} (h : M α) : safeMath (.error .overflow) h = h := rfl
@[simp] theorem safeMath_panic {α : Type} (h : M α) : safeMath (.error .panic) h = .error .panic := rfl

/-- the do-notation's re-packing of a pair is the identity -/
theorem bind_pure_pair {α β : Type} (m : M (α × β)) : (m >>= fun p => pure (p.fst, p.snd)) = m := by
  cases m <;> rfl
theorem bind_pure_triple {α β γ : Type} (m : M (α × β × γ)) :
    (m >>= fun p => pure (p.fst, p.snd.fst, p.snd.snd)) = m := by
  cases m <;> rfl

/-! ### machine integers: no wrap inside the range -/

theorem wrapI64_of_fits {x : Int} (h1 : -9223372036854775808 ≤ x) (h2 : x < 9223372036854775808) : wrapI64 x = x := by
  unfold wrapI64 two63 two64; omega

theorem i64Add_of_fits {a b : Int} (h1 : -9223372036854775808 ≤ a + b) (h2 : a + b < 9223372036854775808) :
    i64Add a b = a + b := wrapI64_of_fits h1 h2
theorem i64Sub_of_fits {a b : Int} (h1 : -9223372036854775808 ≤ a - b) (h2 : a - b < 9223372036854775808) :
    i64Sub a b = a - b := wrapI64_of_fits h1 h2

theorem u64Div_pos {a b : Nat} (h : b ≠ 0) : u64Div a b = pure (a / b) := by
  unfold u64Div; rw [if_neg h]; rfl
theorem u64Mod_pos {a b : Nat} (h : b ≠ 0) : u64Mod a b = pure (a % b) := by
  unfold u64Mod; rw [if_neg h]; rfl
theorem u64Add_of_fits {a b : Nat} (h : a + b < 18446744073709551616) : u64Add a b = a + b := by
  unfold u64Add two64; exact Nat.mod_eq_of_lt h
theorem u64Sub_of_le {a b : Nat} (h : b ≤ a) (ha : a < 18446744073709551616) : u64Sub a b = a - b := by
  unfold u64Sub wrapU64 two64; omega

/-! ### outcome cases of the checked primitives -/

theorem chkDec_cases (x : Dec) : chkDec x = .ok x ∨ chkDec x = .error .overflow := by
  unfold chkDec; split
  · exact Or.inl rfl
  · exact Or.inr rfl
theorem chkInt_cases (x : Int) : chkInt x = .ok x ∨ chkInt x = .error .overflow := by
  unfold chkInt; split
  · exact Or.inl rfl
  · exact Or.inr rfl
theorem decQuo_cases (a b : Dec) :
    (b = 0 ∧ decQuo a b = .error .panic) ∨
    (b ≠ 0 ∧ (decQuo a b = .ok (Dec.quo a b) ∨ decQuo a b = .error .overflow)) := by
  unfold decQuo
  by_cases h : b = 0
  · exact Or.inl ⟨h, by rw [if_pos h]⟩
  · exact Or.inr ⟨h, by rw [if_neg h]; exact chkDec_cases _⟩

/-! ### agreement with a model that has no overflow checks

`Agrees g m`: the Go computation `g` and the `Option`-valued model `m` (`none` = the model's panic guard) agree wherever the
code does not overflow: a returned value is the model's value, a non-overflow panic is the model's `none`; an
overflow-class panic of the code has no counterpart in such a model.  Compositional (`Agrees.bind`). -/

def Agrees {α : Type} (g : M α) (m : Option α) : Prop :=
  match g with
  | .ok a => m = some a
  | .error .panic => m = none
  | .error .overflow => True

theorem Agrees.bind {α β : Type} {x : M α} {mx : Option α} {f : α → M β} {mf : α → Option β}
    (hx : Agrees x mx) (hf : ∀ a, Agrees (f a) (mf a)) : Agrees (x >>= f) (mx.bind mf) := by
  cases x with
  | ok a =>
    have : mx = some a := hx
    subst this
    exact hf a
  | error e =>
    cases e with
    | overflow => trivial
    | panic =>
      have : mx = none := hx
      subst this
      rfl

theorem Agrees.pure {α : Type} (a : α) : Agrees (Pure.pure a : M α) (some a) := rfl
theorem Agrees.ite {α : Type} {c : Prop} [Decidable c] {g1 g2 : M α} {m1 m2 : Option α}
    (h1 : Agrees g1 m1) (h2 : Agrees g2 m2) : Agrees (if c then g1 else g2) (if c then m1 else m2) := by
  split
  · exact h1
  · exact h2
theorem Agrees.of_eq {α : Type} {g : M α} {m m' : Option α} (h : Agrees g m) (e : m = m') : Agrees g m' := e ▸ h

theorem Agrees.chkDec (x : Dec) : Agrees (chkDec x) (some x) := by
  unfold GoSem.chkDec; split
  · rfl
  · trivial
theorem Agrees.chkInt (x : Int) : Agrees (chkInt x) (some x) := by
  unfold GoSem.chkInt; split
  · rfl
  · trivial
theorem Agrees.decAdd (a b : Dec) : Agrees (decAdd a b) (some (Dec.add a b)) := Agrees.chkDec _
theorem Agrees.decSub (a b : Dec) : Agrees (decSub a b) (some (Dec.sub a b)) := Agrees.chkDec _
theorem Agrees.decMul (a b : Dec) : Agrees (decMul a b) (some (Dec.mul a b)) := Agrees.chkDec _
theorem Agrees.decQuo (a b : Dec) : Agrees (decQuo a b) (if b = 0 then none else some (Dec.quo a b)) := by
  unfold GoSem.decQuo; split
  · rfl
  · exact Agrees.chkDec _
theorem Agrees.decTruncateInt (a : Dec) : Agrees (decTruncateInt a) (some (Dec.truncateInt a)) := Agrees.chkInt _
theorem Agrees.intAdd (a b : Int) : Agrees (intAdd a b) (some (a + b)) := Agrees.chkInt _
/-- `Int64()` out of range is an overflow-class panic: no constraint on the model -/
theorem Agrees.intInt64 (a : Int) : Agrees (intInt64 a) (some a) := by
  unfold GoSem.intInt64; split
  · rfl
  · trivial

/-- build the `Agrees` derivation of a straight-line `do` block step by step; use after `apply Agrees.of_eq`
(the model side is then a metavariable that the derivation instantiates with an `Option.bind` chain) -/
macro "agrees_steps" : tactic => `(tactic| repeat (first
  | exact Agrees.pure _
  | exact Agrees.decAdd _ _ | exact Agrees.decSub _ _ | exact Agrees.decMul _ _ | exact Agrees.decQuo _ _
  | exact Agrees.decTruncateInt _ | exact Agrees.intAdd _ _ | exact Agrees.intInt64 _
  | apply Agrees.bind
  | intro _))

/-! ### loops -/

/-- a loop whose body appends one element computed from the loop variable builds `map` -/
theorem forIn_append_map {α β : Type} (l : List α) (g : α → β) (init : List β) :
    forIn (m := M) l init (fun i s => pure (ForInStep.yield (s ++ [g i]))) = pure (init ++ l.map g) := by
  induction l generalizing init with
  | nil => simp
  | cons a l ih =>
    simp only [List.forIn_cons, pure_bind, ih, List.map_cons, List.append_assoc, List.singleton_append]

end Comdex.GoSem
