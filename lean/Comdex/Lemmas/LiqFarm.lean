import Comdex.Lemmas.LiqLedger
/-!
Farming and request execution in depth: the unfarm loop takes from the newest queue entries first and touches the
active position only for what the queue cannot cover; maturation moves exactly the matured entries; a request executed
against a disabled (or depleted) pool is refunded in full.  Core Lean only.
-/
namespace Comdex.LiqLedger

/-! ### the unfarm loop = "consume from the newest entry backwards" -/

/-- specification on the queue listed newest first -/
def takeNewest : List (Nat × Int) → Nat → List (Nat × Int)
  | [], _ => []
  | (a, t) :: rest, r =>
    if r = 0 then (a, t) :: rest
    else if r < a then (a - r, t) :: rest
    else takeNewest rest (r - a)

theorem deduct_zero (l : List (Nat × Int)) : deduct l 0 = (l, 0) := by
  induction l with
  | nil => rfl
  | cons x t ih => simp [deduct, ih]

theorem deduct_snoc (l : List (Nat × Int)) (x : Nat × Int) (r : Nat) :
    deduct (l ++ [x]) r =
      if r = 0 then (l ++ [x], 0)
      else if r ≤ x.1 then (l ++ [(x.1 - r, x.2)], 0)
      else ((deduct l (r - x.1)).1 ++ [(0, x.2)], (deduct l (r - x.1)).2) := by
  induction l with
  | nil =>
    by_cases h0 : r = 0
    · subst h0; simp [deduct]
    · by_cases h1 : r ≤ x.1 <;> simp [deduct, h0, h1]
  | cons y t ih =>
    simp only [List.cons_append, deduct, ih]
    by_cases h0 : r = 0
    · simp [h0]
    · by_cases h1 : r ≤ x.1
      · simp [h0, h1]
      · simp only [h0, h1, if_false]
        by_cases h2 : (deduct t (r - x.1)).2 = 0
        · simp [h2]
        · by_cases h3 : (deduct t (r - x.1)).2 ≤ y.1 <;> simp [h2, h3]

theorem keepNonzero_snoc_zero (l : List (Nat × Int)) (t : Int) : keepNonzero (l ++ [(0, t)]) = keepNonzero l := by
  induction l with
  | nil => simp [keepNonzero]
  | cons y ys ih => by_cases hy : y.1 = 0 <;> simp [keepNonzero, hy, ih]

theorem keepNonzero_pos_append (l m : List (Nat × Int)) (h : ∀ q ∈ l, 0 < q.1) : keepNonzero (l ++ m) = l ++ keepNonzero m := by
  induction l with
  | nil => rfl
  | cons y ys ih =>
    have hy : ¬ y.1 = 0 := by have := h y (by simp); omega
    simp [keepNonzero, hy, ih (fun q hq => h q (by simp [hq]))]

/-- **Unfarm consumes the newest entries first**: on a queue of positive entries, the code's loop (`deduct` + the
"stop at the first zero" copy) leaves exactly the queue with `r` taken from its newest end. -/
theorem unfarm_queue_spec_rev : ∀ (m : List (Nat × Int)) (r : Nat), (∀ q ∈ m, 0 < q.1) →
    keepNonzero (deduct m.reverse r).1 = (takeNewest m r).reverse := by
  intro m
  induction m with
  | nil => intro r _; simp [deduct, keepNonzero, takeNewest]
  | cons x l ih =>
    intro r hpos
    have hl : ∀ q ∈ l, 0 < q.1 := fun q hq => hpos q (by simp [hq])
    have hlr : ∀ q ∈ l.reverse, 0 < q.1 := fun q hq => hl q (by simpa using hq)
    have hx : 0 < x.1 := hpos x (by simp)
    rw [List.reverse_cons, deduct_snoc]
    obtain ⟨a, t⟩ := x
    simp only [takeNewest]
    by_cases h0 : r = 0
    · simp only [h0, if_true]
      rw [keepNonzero_pos_append _ _ hlr]
      have : ¬ a = 0 := by simp at hx; omega
      simp [keepNonzero, this]
    · simp only [h0, if_false]
      by_cases h1 : r ≤ a
      · simp only [h1, if_true]
        rw [keepNonzero_pos_append _ _ hlr]
        by_cases h2 : r < a
        · have : ¬ a - r = 0 := by omega
          simp [h2, keepNonzero, this]
        · have e : a - r = 0 := by omega
          have e2 : r - a = 0 := by omega
          simp only [h2, if_false, keepNonzero, e, if_true, List.append_nil, e2]
          cases l with
          | nil => simp [takeNewest]
          | cons z zs =>
            obtain ⟨za, zt⟩ := z
            simp [takeNewest]
      · have h2 : ¬ r < a := by omega
        simp only [h1, h2, if_false]
        rw [keepNonzero_snoc_zero, ih (r - a) hl]

/-- **Unfarm consumes the newest entries first**: on a queue of positive entries, the code's loop (`deduct` + the
"stop at the first zero" copy) leaves exactly the queue with `r` taken from its newest end. -/
theorem unfarm_queue_spec (l : List (Nat × Int)) (r : Nat) (h : ∀ q ∈ l, 0 < q.1) :
    keepNonzero (deduct l r).1 = (takeNewest l.reverse r).reverse := by
  have := unfarm_queue_spec_rev l.reverse r (fun q hq => h q (by simpa using hq))
  simpa using this

/-- what the unfarm loop leaves for the active position: only what the whole queue could not cover -/
theorem deduct_rest : ∀ (l : List (Nat × Int)) (r : Nat), (deduct l r).2 = r - qTotal l := by
  intro l
  induction l with
  | nil => intro r; simp [deduct, qTotal]
  | cons x t ih =>
    intro r
    simp only [deduct, ih, qTotal]
    by_cases h0 : r - qTotal t = 0
    · simp [h0]; omega
    · by_cases h1 : r - qTotal t ≤ x.1 <;> simp [h0, h1] <;> omega

/-- **`MsgUnfarm`, per farmer**: the coins come out of the module account to the farmer; the queue loses them from its
newest entries first; the active position gives only what the whole queue could not cover. -/
theorem unfarm_effect {cfg : Cfg} {s s' : State} {app user pool amt : Nat} {ext : Bool} {f : Farmer} (hi : Inv cfg s)
    (hf : findBy (isFarmer app pool user) s.farmers = some f) (h : unfarm cfg s app user pool amt ext = some s') :
    findBy (isFarmer app pool user) s'.farmers =
      some { f with queued := (takeNewest f.queued.reverse amt).reverse, active := f.active - (amt - qTotal f.queued) } ∧
    s'.bal (.user user) (.pool app pool) = s.bal (.user user) (.pool app pool) + amt ∧
    s'.bal .module (.pool app pool) + amt = s.bal .module (.pool app pool) := by
  unfold unfarm at h
  split at h; · cases h
  split at h; · cases h
  split at h; · cases h
  split at h; · cases h
  rw [hf] at h
  simp only at h
  split at h; · cases h
  split at h; · cases h
  split at h; · cases h
  rename_i s1 h1
  cases h
  obtain ⟨le1, -, b1⟩ := State.send_some (by simp) h1
  have hpos := hi.qpos f (findBy_some_prop hf).2
  refine ⟨?_, ?_, ?_⟩
  · show findBy _ (modBy _ _ s1.farmers) = _
    rw [(State.send_fields h1).2.2.2.2.2.2.1]
    have := findBy_modBy_same (p := isFarmer app pool user)
      (g := fun x : Farmer => { x with queued := keepNonzero (deduct f.queued amt).1, active := x.active - (deduct f.queued amt).2 })
      (l := s.farmers) (fun x => rfl)
    rw [this, hf, unfarm_queue_spec f.queued amt hpos, deduct_rest]; rfl
  · show s1.bal _ _ = _
    rw [b1]; simp
  · show s1.bal _ _ + amt = _
    rw [b1]; simp; omega

/-! ### maturation -/

/-- `ProcessQueuedFarmers` on one farmer: exactly the entries created at least `dur` ago move to the active position;
what stays is not yet mature; the farmer's total is unchanged -/
theorem activate_spec (dur now : Int) (f : Farmer) :
    (∀ q ∈ (activate dur now f).queued, now < q.2 + dur ∧ q ∈ f.queued) ∧
    (activate dur now f).active = f.active + qTotal (f.queued.filter fun q => !decide (now < q.2 + dur)) ∧
    qTotal (activate dur now f).queued + (activate dur now f).active = qTotal f.queued + f.active := by
  refine ⟨?_, rfl, ?_⟩
  · intro q hq
    simp only [activate, List.mem_filter, decide_eq_true_eq] at hq
    exact ⟨hq.2, hq.1⟩
  · simp only [activate]
    have : ∀ (P : Nat × Int → Bool) (l : List (Nat × Int)), qTotal (l.filter P) + qTotal (l.filter fun q => !P q) = qTotal l := by
      intro P l
      induction l with
      | nil => rfl
      | cons x t ih =>
        by_cases hx : P x = true
        · simp [List.filter, hx, qTotal]; omega
        · have : P x = false := by simpa using hx
          simp [List.filter, this, qTotal]; omega
    have := this (fun q => decide (now < q.2 + dur)) f.queued
    omega

/-- after the queue processing of app `a` no queue entry of that app is mature -/
theorem processQueued_none_mature (cfg : Cfg) (s : State) (a : Nat) :
    ∀ f ∈ (processQueued cfg s a).farmers, f.app = a → ∀ q ∈ f.queued, s.now < q.2 + cfg.queueDur := by
  intro f hf hfa q hq
  simp only [processQueued, List.mem_map] at hf
  obtain ⟨x, hx, rfl⟩ := hf
  by_cases hc : (x.app == a) = true
  · simp only [hc, if_true] at hq
    exact ((activate_spec cfg.queueDur s.now x).1 q hq).1
  · simp only [hc] at hfa
    exact absurd (by simpa using hfa) hc

/-! ### requests against a disabled pool are refunded in full -/

theorem execDeposit_disabled_refunds {s s' : State} {a pl i ax ay pc : Nat} {r : DepReq} {q : Pool}
    (hr : findBy (isDep a pl i) s.deps = some r) (hp : r.status = .pending)
    (hq : s.pool? a pl = some q) (hd : q.disabled = true) (hne : r.qd ≠ r.bd)
    (h : execDeposit s a pl i ax ay pc = some s') :
    s'.bal (.user r.owner) r.qd = s.bal (.user r.owner) r.qd + r.dx ∧
    s'.bal (.user r.owner) r.bd = s.bal (.user r.owner) r.bd + r.dy ∧
    (findBy (isDep a pl i) s'.deps).map (·.status) = some .failed ∧
    s'.pools = s.pools := by
  unfold execDeposit at h
  rw [hr] at h
  simp only [hp, ne_eq, not_true_eq_false, if_false, hq, hd, if_true] at h
  unfold failDep at h
  split at h; · cases h
  rename_i s1 h1
  split at h; · cases h
  rename_i s2 h2
  cases h
  obtain ⟨-, -, b1⟩ := State.send_some (by simp) h1
  obtain ⟨-, -, b2⟩ := State.send_some (by simp) h2
  have hrk := isDep_true (findBy_some_prop hr).1
  have hne' : ¬ r.bd = r.qd := fun e => hne e.symm
  refine ⟨?_, ?_, ?_, ?_⟩
  · show s2.bal _ _ = _
    rw [b2]; simp only [hne, and_false, if_false, reduceCtorEq]
    rw [b1]; simp
  · show s2.bal _ _ = _
    rw [b2]; simp only [and_self, if_true]
    rw [b1]; simp [hne']
  · show (findBy (isDep a pl i) (modBy (isDep r.app r.pool r.id) _ s2.deps)).map _ = _
    rw [hrk.1, hrk.2.1, hrk.2.2, (State.send_fields h2).2.2.1, (State.send_fields h1).2.2.1]
    have := findBy_modBy_same (p := isDep a pl i) (g := fun r : DepReq => { r with status := RStatus.failed }) (l := s.deps) (fun x => rfl)
    rw [this, hr]; rfl
  · show s2.pools = _
    rw [(State.send_fields h2).2.1, (State.send_fields h1).2.1]

theorem execWithdraw_disabled_refunds {s s' : State} {a pl i x y : Nat} {r : WdrReq} {q : Pool}
    (hr : findBy (isWdr a pl i) s.wdrs = some r) (hp : r.status = .pending)
    (hq : s.pool? a pl = some q) (hd : q.disabled = true)
    (h : execWithdraw s a pl i x y = some s') :
    s'.bal (.user r.owner) (.pool a pl) = s.bal (.user r.owner) (.pool a pl) + r.pc ∧
    (findBy (isWdr a pl i) s'.wdrs).map (·.status) = some .failed ∧
    s'.pools = s.pools := by
  unfold execWithdraw at h
  rw [hr] at h
  simp only [hp, ne_eq, not_true_eq_false, if_false, hq, hd, if_true] at h
  unfold failWdr at h
  split at h; · cases h
  rename_i s1 h1
  cases h
  obtain ⟨-, -, b1⟩ := State.send_some (by simp) h1
  have hrk := isWdr_true (findBy_some_prop hr).1
  refine ⟨?_, ?_, ?_⟩
  · show s1.bal _ _ = _
    rw [b1, hrk.1, hrk.2.1]; simp
  · show (findBy (isWdr a pl i) (modBy (isWdr r.app r.pool r.id) _ s1.wdrs)).map _ = _
    rw [hrk.1, hrk.2.1, hrk.2.2, (State.send_fields h1).2.2.2.1]
    have := findBy_modBy_same (p := isWdr a pl i) (g := fun r : WdrReq => { r with status := RStatus.failed }) (l := s.wdrs) (fun x => rfl)
    rw [this, hr]; rfl
  · exact (State.send_fields h1).2.1

end Comdex.LiqLedger
