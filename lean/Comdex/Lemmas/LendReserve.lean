import Comdex.Lemmas.Lend
import Mathlib.Tactic.CasesM
/-!
The reserve ledger of x/lend: the balance of the reserve module account against the book-keeping records
(`ReserveBuybackAssetData`, `AllReserveStats`, `FundReserveBal`).

* bank: what `send` / `mint` / `burn` do to the balance of one account (`get_sendRaw` …),
* records: `getResv (modResv rs a f)`,
* `Led` — for every asset, reserve balance = genesis balance + recorded inflows − recorded outflows — is preserved by every handler
  when no message is signed by a module account (`step_led`); the two record halves always agree (`step_halves`).
-/
namespace Comdex.Lend
open Comdex

/-! ## the association-list bank -/

theorem lookup_filter_ne (b : Bank) (k k0 : Nat × Nat) :
    (b.filter fun e => e.1 != k0).lookup k = if k = k0 then none else b.lookup k := by
  induction b with
  | nil => simp [List.lookup]
  | cons e b ih =>
    obtain ⟨ek, ev⟩ := e
    by_cases h0 : ek = k0
    · subst h0
      simp only [List.filter_cons, bne_self_eq_false, Bool.false_eq_true, if_false, ih]
      by_cases hk : k = ek
      · simp [hk]
      · have : (k == ek) = false := by simp [hk]
        simp [List.lookup, this, hk]
    · have hne : (ek != k0) = true := by simp [h0]
      simp only [List.filter_cons, hne, if_true]
      by_cases hk : k = ek
      · subst hk; simp [List.lookup, h0]
      · have : (k == ek) = false := by simp [hk]
        simp only [List.lookup, this, ih]

theorem get_add (b : Bank) (a d : Nat) (x : Int) (a' d' : Nat) :
    (b.add a d x).get a' d' = if a' = a ∧ d' = d then b.get a d + x else b.get a' d' := by
  unfold Bank.add Bank.get
  by_cases h : a' = a ∧ d' = d
  · obtain ⟨rfl, rfl⟩ := h
    simp [List.lookup]
  · have hk : ((a', d') == (a, d)) = false := by
      simp only [beq_eq_false_iff_ne, ne_eq, Prod.mk.injEq]; exact h
    have hk' : ¬ ((a', d') = (a, d)) := by simpa using h
    simp only [List.lookup, hk, lookup_filter_ne, hk', if_false, h]

/-- what an accepted `send` leaves behind -/
def sendRaw (b : Bank) (src dst d : Nat) (x : Int) : Bank := if x = 0 then b else (b.add src d (-x)).add dst d x
def mintRaw (b : Bank) (a d : Nat) (x : Int) : Bank := if x = 0 then b else b.add a d x
def burnRaw (b : Bank) (a d : Nat) (x : Int) : Bank := if x = 0 then b else b.add a d (-x)

theorem send_eq_ok {b b' : Bank} {src dst d : Nat} {x : Int} :
    Bank.send b src dst d x = .ok b' ↔ (0 ≤ x ∧ (x = 0 ∨ x ≤ b.get src d)) ∧ b' = sendRaw b src dst d x := by
  unfold Bank.send sendRaw
  by_cases h1 : x < 0
  · simp [h1]; omega
  · by_cases h2 : x = 0
    · subst h2; simp [eq_comm]
    · by_cases h3 : b.get src d < x
      · simp [h1, h2, h3]; omega
      · simp [h1, h2, h3, eq_comm]; omega

theorem mint_eq_ok {b b' : Bank} {a d : Nat} {x : Int} : Bank.mint b a d x = .ok b' ↔ 0 ≤ x ∧ b' = mintRaw b a d x := by
  unfold Bank.mint mintRaw
  by_cases h1 : x < 0
  · simp [h1]; omega
  · by_cases h2 : x = 0
    · subst h2; simp [eq_comm]
    · simp [h1, h2, eq_comm]; omega

theorem burn_eq_ok {b b' : Bank} {a d : Nat} {x : Int} :
    Bank.burn b a d x = .ok b' ↔ (0 ≤ x ∧ (x = 0 ∨ x ≤ b.get a d)) ∧ b' = burnRaw b a d x := by
  unfold Bank.burn burnRaw
  by_cases h1 : x < 0
  · simp [h1]; omega
  · by_cases h2 : x = 0
    · subst h2; simp [eq_comm]
    · by_cases h3 : b.get a d < x
      · simp [h1, h2, h3]; omega
      · simp [h1, h2, h3, eq_comm]; omega

/-- the balance of account `R` in denomination `a` after a send -/
theorem get_sendRaw (b : Bank) (src dst d : Nat) (x : Int) (R a : Nat) :
    (sendRaw b src dst d x).get R a = b.get R a + (if dst = R ∧ d = a then x else 0) - (if src = R ∧ d = a then x else 0) := by
  unfold sendRaw
  by_cases h0 : x = 0
  · subst h0; simp
  · simp only [h0, if_false, get_add]
    by_cases ha : a = d
    · subst ha
      by_cases hs : R = src <;> by_cases hd : R = dst
      · subst hs; subst hd; simp; omega
      · subst hs
        have : ¬ dst = R := fun e => hd e.symm
        simp [hd, this]; omega
      · subst hd
        have : ¬ src = R := fun e => hs e.symm
        simp [hs, this]
      · have h1 : ¬ src = R := fun e => hs e.symm
        have h2 : ¬ dst = R := fun e => hd e.symm
        simp [hs, hd, h1, h2]
    · have h1 : ¬ d = a := fun e => ha e.symm
      simp [ha, h1]

theorem get_mintRaw (b : Bank) (acct d : Nat) (x : Int) (R a : Nat) :
    (mintRaw b acct d x).get R a = b.get R a + (if acct = R ∧ d = a then x else 0) := by
  unfold mintRaw
  by_cases h0 : x = 0
  · subst h0; simp
  · simp only [h0, if_false, get_add]
    by_cases h1 : R = acct ∧ a = d
    · obtain ⟨rfl, rfl⟩ := h1; simp
    · have e1 : ¬ (acct = R ∧ d = a) := fun e => h1 ⟨e.1.symm, e.2.symm⟩
      simp [h1, e1]

theorem get_burnRaw (b : Bank) (acct d : Nat) (x : Int) (R a : Nat) :
    (burnRaw b acct d x).get R a = b.get R a - (if acct = R ∧ d = a then x else 0) := by
  unfold burnRaw
  by_cases h0 : x = 0
  · subst h0; simp
  · simp only [h0, if_false, get_add]
    by_cases h1 : R = acct ∧ a = d
    · obtain ⟨rfl, rfl⟩ := h1; simp; omega
    · have e1 : ¬ (acct = R ∧ d = a) := fun e => h1 ⟨e.1.symm, e.2.symm⟩
      simp [h1, e1]

/-! ## the reserve records -/

theorem find_map_resv (rs : List Resv) (a a' : Nat) (f : Resv → Resv) (hf : ∀ r, (f r).asset = r.asset) :
    (rs.map fun r => if r.asset = a then f r else r).find? (fun r => r.asset == a') =
      (rs.find? (fun r => r.asset == a')).map fun r => if r.asset = a then f r else r := by
  induction rs with
  | nil => rfl
  | cons r rs ih =>
    have hk : (if r.asset = a then f r else r).asset = r.asset := by split <;> simp [hf]
    simp only [List.map_cons, List.find?_cons, hk]
    cases h : r.asset == a'
    · simpa using ih
    · simp

/-- read after read-modify-write -/
theorem getResv_modResv (rs : List Resv) (a a' : Nat) (f : Resv → Resv) (hf : ∀ r, (f r).asset = r.asset) :
    getResv (modResv rs a f) a' = if a' = a then f (getResv rs a) else getResv rs a' := by
  unfold modResv
  by_cases hany : rs.any (fun r => r.asset == a) = true
  · simp only [hany, if_true]
    unfold getResv
    rw [find_map_resv rs a a' f hf]
    by_cases ha : a' = a
    · subst ha
      simp only [if_true]
      cases hfd : rs.find? (fun r => r.asset == a') with
      | none =>
        exfalso
        obtain ⟨x, hx, hxa⟩ := List.any_eq_true.mp hany
        have := List.find?_eq_none.mp hfd x hx
        simp_all
      | some r =>
        have : r.asset = a' := by simpa using List.find?_some hfd
        simp [this]
    · simp only [ha, if_false]
      cases hfd : rs.find? (fun r => r.asset == a') with
      | none => simp
      | some r =>
        have h1 : r.asset = a' := by simpa using List.find?_some hfd
        have h2 : ¬ r.asset = a := by rw [h1]; exact ha
        simp [h2]
  · simp only [hany, Bool.false_eq_true, if_false]
    have hnone : rs.find? (fun r => r.asset == a) = none := by
      apply List.find?_eq_none.mpr
      intro x hx hxa
      exact hany (List.any_eq_true.mpr ⟨x, hx, hxa⟩)
    unfold getResv
    rw [List.find?_append]
    by_cases ha : a' = a
    · subst ha
      have hfa : (f { asset := a' }).asset = a' := hf _
      simp [hnone, hfa]
    · have hfa : ((f { asset := a }).asset == a') = false := by
        rw [hf]; simp; exact fun e => ha e.symm
      simp only [ha, if_false]
      cases hfd : rs.find? (fun r => r.asset == a') with
      | none => simp [List.find?_cons, hfa]
      | some r => simp

theorem halves_asset (r : Resv) (x : Int) (inc : Bool) : (r.halves x inc).asset = r.asset := by
  unfold Resv.halves; cases inc <;> rfl
theorem halves_flow (r : Resv) (x : Int) (inc : Bool) : (r.halves x inc).flow = r.flow := by
  unfold Resv.halves Resv.flow; cases inc <;> rfl
theorem halves_eq (r : Resv) (x : Int) (inc : Bool) (h : r.reserve = r.buyback) : (r.halves x inc).reserve = (r.halves x inc).buyback := by
  unfold Resv.halves; cases inc <;> simp [h]

/-- the flow of asset `a'` after an interest share of `x` of asset `a` was paid into the reserve -/
theorem flow_resvRepay (rs : List Resv) (a a' : Nat) (x : Int) :
    (getResv (resvRepay rs a x) a').flow = (getResv rs a').flow + if a' = a then x else 0 := by
  unfold resvRepay
  rw [getResv_modResv _ _ _ _ (fun r => by simp [halves_asset])]
  by_cases h : a' = a
  · subst h
    simp only [if_true]
    have := halves_flow (getResv rs a') x true
    unfold Resv.flow at *
    simp only [Resv.halves, if_true] at *
    omega
  · simp [h]

/-! ## the two halves always agree -/

theorem halvesEq_mod (rs : List Resv) (a : Nat) (f : Resv → Resv) (hf : ∀ r, r.reserve = r.buyback → (f r).reserve = (f r).buyback)
    (h : ∀ r ∈ rs, r.reserve = r.buyback) : ∀ r ∈ modResv rs a f, r.reserve = r.buyback := by
  unfold modResv
  split
  · intro r hr
    obtain ⟨r0, hr0, rfl⟩ := List.mem_map.mp hr
    split
    · exact hf r0 (h r0 hr0)
    · exact h r0 hr0
  · intro r hr
    rcases List.mem_append.mp hr with hr | hr
    · exact h r hr
    · simp at hr; subst hr; exact hf _ rfl

/-! ## The ledger invariant -/

/-- module accounts of the configuration are different accounts -/
structure CfgOk (cfg : Cfg) : Prop where
  pools : ∀ p ∈ cfg.pools, p.acct ≠ cfg.reserveAcct
  auction : cfg.auctionAcct ≠ cfg.reserveAcct

/-- the structural side: no position is owned by the reserve account, and a borrow's loan denomination is its pair's out asset -/
structure Own (cfg : Cfg) (s : State) : Prop where
  own : ∀ l ∈ s.lends, l.owner ≠ cfg.reserveAcct
  lown : ∀ k ∈ s.locked, k.owner ≠ cfg.reserveAcct
  bden : ∀ b ∈ s.borrows, ∀ pair, cfg.pair? b.pairId = some pair → b.outDenom = pair.assetOut

/-- one step leaves "reserve balance − recorded net inflow" alone, for every asset -/
def BalStep (cfg : Cfg) (s s' : State) : Prop :=
  ∀ a, s'.bank.get cfg.reserveAcct a - (getResv s'.resv a).flow = s.bank.get cfg.reserveAcct a - (getResv s.resv a).flow

theorem BalStep.refl (cfg : Cfg) (s : State) : BalStep cfg s s := fun _ => rfl
theorem BalStep.trans {cfg : Cfg} {s1 s2 s3 : State} (h1 : BalStep cfg s1 s2) (h2 : BalStep cfg s2 s3) : BalStep cfg s1 s3 :=
  fun a => by rw [h2 a, h1 a]

theorem pool_acct_ne {cfg : Cfg} (ok : CfgOk cfg) {id : Nat} {p : PoolCfg} (h : cfg.pool? id = some p) : p.acct ≠ cfg.reserveAcct :=
  ok.pools p (by unfold Cfg.pool? at h; exact List.mem_of_find?_eq_some h)

/-- turn every accepted bank call of the context into the explicit resulting bank -/
macro "bankify" : tactic =>
  `(tactic| (simp only [send_eq_ok, mint_eq_ok, burn_eq_ok] at *
             casesm* _ ∧ _
             subst_vars))

theorem flow_mod (rs : List Resv) (a a' : Nat) (f : Resv → Resv) (hf : ∀ r, (f r).asset = r.asset) (d : Int)
    (hd : ∀ r, (f r).flow = r.flow + d) : (getResv (modResv rs a f) a').flow = (getResv rs a').flow + if a' = a then d else 0 := by
  rw [getResv_modResv _ _ _ _ hf]
  by_cases h : a' = a
  · subst h; simp [hd]
  · simp [h]

theorem iterLends_bal {cfg : Cfg} (ok : CfgOk cfg) {s s' : State} {k : Nat} {r : Int} (h : iterLends cfg s k r = .ok s')
    (o : Own cfg s) : BalStep cfg s s' := by
  unfold iterLends at h
  invert h
  · have hp := pool_acct_ne ok ‹cfg.pool? _ = some _›
    have ho := o.own _ (getLend_mem ‹getLend s.lends k = some _›).1
    bankify
    intro a
    simp only [get_sendRaw, get_mintRaw]
    rw [flow_mod (d := -r)]
    · simp [hp, ho]
      split <;> omega
    · intro x; simp [halves_asset]
    · intro x; simp [Resv.flow, Resv.halves]; omega
  · have hp := pool_acct_ne ok ‹cfg.pool? _ = some _›
    have ho := o.own _ (getLend_mem ‹getLend s.lends k = some _›).1
    bankify
    intro a
    simp only [get_sendRaw]
    rw [flow_mod (d := 0)]
    · simp [hp, ho]
    · intro x; rfl
    · intro x; simp [Resv.flow]
  · exact BalStep.refl _ _

/-! ## `Own` is preserved by every handler (no message is signed by the reserve account) -/

theorem all_put {α} (key : α → Nat) (P : α → Prop) {l : List α} {v : α} (h : ∀ x ∈ l, P x) (hv : P v) : ∀ x ∈ put key l v, P x := by
  intro x hx
  rcases mem_put key l v x hx with rfl | ⟨hx', _⟩
  · exact hv
  · exact h x hx'

theorem all_del {α} (key : α → Nat) (P : α → Prop) {l : List α} (k : Nat) (h : ∀ x ∈ l, P x) : ∀ x ∈ del key l k, P x :=
  fun x hx => h x (mem_del key l k x hx).1

theorem all_append {α} (P : α → Prop) {l : List α} {v : α} (h : ∀ x ∈ l, P x) (hv : P v) : ∀ x ∈ l ++ [v], P x := by
  intro x hx
  rcases List.mem_append.mp hx with hx | hx
  · exact h x hx
  · simp at hx; subst hx; exact hv

/-- the loan denomination of a borrow is the out asset of its pair -/
abbrev DenOk (cfg : Cfg) (b : Borrow) : Prop := ∀ pair, cfg.pair? b.pairId = some pair → b.outDenom = pair.assetOut
abbrev NotR (cfg : Cfg) (l : Lend) : Prop := l.owner ≠ cfg.reserveAcct

theorem iterLends_own {cfg : Cfg} {s s' : State} {k : Nat} {r : Int} (h : iterLends cfg s k r = .ok s') (o : Own cfg s) : Own cfg s' := by
  unfold iterLends at h
  invert h
  · have ho := o.own _ (getLend_mem ‹getLend s.lends k = some _›).1
    exact { own := all_put lid (NotR cfg) o.own ho, lown := o.lown, bden := o.bden }
  · have ho := o.own _ (getLend_mem ‹getLend s.lends k = some _›).1
    exact { own := all_put lid (NotR cfg) o.own ho, lown := o.lown, bden := o.bden }
  · exact o

theorem deposit_own {cfg : Cfg} {s s' : State} {u k d : Nat} {amt r : Int} (h : deposit cfg s u k d amt r = .ok s') (o : Own cfg s) : Own cfg s' := by
  unfold deposit at h
  invert h
  have o1 := iterLends_own ‹iterLends cfg s k r = .ok _› o
  have ho := o1.own _ (getLend_mem (by assumption)).1
  exact { own := all_put lid (NotR cfg) o1.own ho, lown := o1.lown, bden := o1.bden }

theorem lendNew_own {cfg : Cfg} {s s' : State} {u a : Nat} {amt : Int} {pool : PoolCfg} {app : Nat} (hu : u ≠ cfg.reserveAcct)
    (h : lendNew cfg s u a amt pool app = .ok s') (o : Own cfg s) : Own cfg s' := by
  unfold lendNew at h
  invert h
  exact { own := all_append (NotR cfg) o.own hu, lown := o.lown, bden := o.bden }

theorem lend_own {cfg : Cfg} {s s' : State} {u a d : Nat} {amt : Int} {p app : Nat} {r : Int} (hu : u ≠ cfg.reserveAcct)
    (h : lend cfg s u a d amt p app r = .ok s') (o : Own cfg s) : Own cfg s' := by
  unfold lend at h
  invert h
  · exact deposit_own (by assumption) o
  · exact lendNew_own hu (by assumption) o

theorem closeLend_own {cfg : Cfg} {s s' : State} {u k : Nat} {r : Int} (h : closeLend cfg s u k r = .ok s') (o : Own cfg s) : Own cfg s' := by
  unfold closeLend at h
  invert h
  have o1 := iterLends_own ‹iterLends cfg s k r = .ok _› o
  exact { own := all_del lid (NotR cfg) k o1.own, lown := o1.lown, bden := o1.bden }

theorem withdraw_own {cfg : Cfg} {s s' : State} {u k d : Nat} {w r : Int} (h : withdraw cfg s u k d w r = .ok s') (o : Own cfg s) : Own cfg s' := by
  unfold withdraw at h
  invert h
  · exact closeLend_own (by assumption) o
  · have o1 := iterLends_own ‹iterLends cfg s k r = .ok _› o
    have ho := o1.own _ (getLend_mem (by assumption)).1
    refine { own := all_put lid (NotR cfg) o1.own ?_, lown := o1.lown, bden := o1.bden }
    split <;> exact ho

theorem iterBorrow_own {cfg : Cfg} {s s1 : State} {k : Nat} {x : ExtB} (h : iterBorrow s k x = .ok s1) (o : Own cfg s) : Own cfg s1 := by
  unfold iterBorrow at h
  split at h
  · cases h
  · cases h
  · split at h
    · cases h
    · cases h
      rename_i hb
      have hd := o.bden _ (getBorrow_mem hb).1
      exact { own := o.own, lown := o.lown, bden := all_put bid (DenOk cfg) o.bden hd }

theorem iterBorrow_resv {s s1 : State} {k : Nat} {x : ExtB} (h : iterBorrow s k x = .ok s1) : s1.bank = s.bank ∧ s1.resv = s.resv ∧ s1.locked = s.locked := by
  unfold iterBorrow at h
  split at h
  · cases h
  · cases h
  · split at h
    · cases h
    · cases h; exact ⟨rfl, rfl, rfl⟩

theorem iterBorrow_bal {cfg : Cfg} {s s1 : State} {k : Nat} {x : ExtB} (h : iterBorrow s k x = .ok s1) : BalStep cfg s s1 := by
  obtain ⟨h1, h2, _⟩ := iterBorrow_resv h
  intro a; rw [h1, h2]

theorem draw_own {cfg : Cfg} {s s' : State} {u k d : Nat} {y : Int} {ext : ExtB} (h : draw cfg s u k d y ext = .ok s') (o : Own cfg s) : Own cfg s' := by
  unfold draw at h
  invert h
  have o1 := iterBorrow_own (cfg := cfg) ‹iterBorrow s k ext = .ok _› o
  have hb1 := after_iterBorrow ‹iterBorrow s k ext = .ok _› (by assumption)
  have hd := o1.bden _ (getBorrow_mem hb1).1
  exact { own := o1.own, lown := o1.lown, bden := all_put bid (DenOk cfg) o1.bden hd }

theorem depositBorrow_own {cfg : Cfg} {s s' : State} {u k d : Nat} {x : Int} {ext : ExtB} (h : depositBorrow cfg s u k d x ext = .ok s')
    (o : Own cfg s) : Own cfg s' := by
  unfold depositBorrow at h
  invert h
  all_goals
    have hit := ‹iterBorrow s k ext = .ok _›
    have o1 := iterBorrow_own (cfg := cfg) hit o
    have hb1 := after_iterBorrow hit (by assumption)
    have hls := (iterBorrow_frame hit).2.2.1
    have hgl := ‹getLend s.lends _ = some _›
    have ho := o.own _ (getLend_mem hgl).1
    have hd := o1.bden _ (getBorrow_mem hb1).1
    exact { own := by rw [hls]; exact all_put lid (NotR cfg) o.own ho, lown := o1.lown,
            bden := all_put bid (DenOk cfg) o1.bden hd }

theorem openBorrow_own {cfg : Cfg} {s : State} {l : Lend} {pair : PairCfg} {stable : Bool} {dIn : Nat} {aIn : Int} {dOut : Nat} {aOut : Int}
    {brd : Nat} {br : Int} {bank : Bank} (hgl : getLend s.lends l.id = some l) (hp : cfg.pair? pair.id = some pair) (hd : dOut = pair.assetOut)
    (o : Own cfg s) : Own cfg (openBorrow s l pair stable dIn aIn dOut aOut brd br bank) := by
  unfold openBorrow
  have ho := o.own _ (getLend_mem hgl).1
  refine { own := all_put lid (NotR cfg) o.own ho, lown := o.lown, bden := all_append (DenOk cfg) o.bden ?_ }
  intro pr hpr
  rw [hp] at hpr
  cases hpr
  exact hd

theorem borrowNew_own {cfg : Cfg} {s s' : State} {u : Nat} {l : Lend} {pair : PairCfg} {rates : RatesCfg} {stable : Bool} {dIn : Nat} {aIn : Int}
    {dOut : Nat} {aOut : Int} (hgl : getLend s.lends l.id = some l) (hp : cfg.pair? pair.id = some pair)
    (h : borrowNew cfg s u l pair rates stable dIn aIn dOut aOut = .ok s') (o : Own cfg s) : Own cfg s' := by
  unfold borrowNew at h
  invert h
  all_goals exact openBorrow_own hgl hp (by simpa using ‹(dOut == pair.assetOut) = true›) o

theorem borrow_own {cfg : Cfg} {s s' : State} {u k pid : Nat} {stable : Bool} {dIn : Nat} {aIn : Int} {dOut : Nat} {aOut : Int} {e1 e2 : ExtB}
    (h : borrow cfg s u k pid stable dIn aIn dOut aOut e1 e2 = .ok s') (o : Own cfg s) : Own cfg s' := by
  unfold borrow at h
  invert h
  · exact draw_own (by assumption) (depositBorrow_own (by assumption) o)
  · have hp := ‹cfg.pair? pid = some _›
    have := pair_id hp
    exact borrowNew_own (getLend_id ‹getLend s.lends k = some _›) (by rw [this]; exact hp) (by assumption) o

theorem borrowAlternate_own {cfg : Cfg} {s s' : State} {u a p d : Nat} {amt : Int} {pid : Nat} {stable : Bool} {dOut : Nat} {aOut : Int}
    {app : Nat} {r : Int} {e1 e2 : ExtB} (hu : u ≠ cfg.reserveAcct)
    (h : borrowAlternate cfg s u a p d amt pid stable dOut aOut app r e1 e2 = .ok s') (o : Own cfg s) : Own cfg s' := by
  unfold borrowAlternate at h
  invert h
  · exact borrow_own (by assumption) (deposit_own (by assumption) o)
  · exact borrow_own (by assumption) (lendNew_own hu (by assumption) o)

theorem closeBorrow_own {cfg : Cfg} {s s' : State} {u k : Nat} {ext : ExtB} (h : closeBorrow cfg s u k ext = .ok s') (o : Own cfg s) : Own cfg s' := by
  unfold closeBorrow at h
  invert h
  all_goals
    have hit := ‹iterBorrow s k ext = .ok _›
    have o1 := iterBorrow_own (cfg := cfg) hit o
    have hls := (iterBorrow_frame hit).2.2.1
    have hgl := ‹getLend s.lends _ = some _›
    have ho := o.own _ (getLend_mem hgl).1
    exact { own := by rw [hls]; exact all_put lid (NotR cfg) o.own ho, lown := o1.lown,
            bden := all_del bid (DenOk cfg) k o1.bden }

theorem repay_own {cfg : Cfg} {s s' : State} {u k d : Nat} {p : Int} {ext : ExtB} (h : repay cfg s u k d p ext = .ok s') (o : Own cfg s) : Own cfg s' := by
  unfold repay at h
  invert h
  · exact closeBorrow_own (by assumption) o
  all_goals
    have hit := ‹iterBorrow s k ext = .ok _›
    have o1 := iterBorrow_own (cfg := cfg) hit o
    have hb1 := after_iterBorrow hit (by assumption)
    have hd := o1.bden _ (getBorrow_mem hb1).1
    exact { own := o1.own, lown := o1.lown, bden := all_put bid (DenOk cfg) o1.bden hd }

theorem repayWithdraw_own {cfg : Cfg} {s s' : State} {u k : Nat} {ext : ExtB} {r : Int} (h : repayWithdraw cfg s u k ext r = .ok s')
    (o : Own cfg s) : Own cfg s' := by
  unfold repayWithdraw at h
  invert h
  exact withdraw_own (by assumption) (closeBorrow_own (by assumption) o)

theorem calcBorrows_own {cfg : Cfg} {u : Nat} (l : List (Nat × ExtB)) {s s' : State} (h : calcBorrows s u l = .ok s') (o : Own cfg s) : Own cfg s' := by
  induction l generalizing s with
  | nil => simp only [calcBorrows, Except.ok.injEq] at h; subst h; exact o
  | cons x l ih =>
    obtain ⟨k, ext⟩ := x
    simp only [calcBorrows] at h
    split at h
    · rename_i s1 hc
      refine ih h ?_
      unfold calcBorrow at hc
      invert hc
      exact iterBorrow_own (by assumption) o
    · split at h
      · cases h
      · exact ih h o

theorem calcLends_own {cfg : Cfg} {u : Nat} (l : List (Nat × Int)) {s s' : State} (h : calcLends cfg s u l = .ok s') (o : Own cfg s) : Own cfg s' := by
  induction l generalizing s with
  | nil => simp only [calcLends, Except.ok.injEq] at h; subst h; exact o
  | cons x l ih =>
    obtain ⟨k, r⟩ := x
    simp only [calcLends] at h
    invert h
    exact ih (by assumption) (iterLends_own (by assumption) o)

theorem calcMsg_own {cfg : Cfg} {s s' : State} {u : Nat} {bs : List (Nat × ExtB)} {ls : List (Nat × Int)}
    (h : calcMsg cfg s u bs ls = .ok s') (o : Own cfg s) : Own cfg s' := by
  unfold calcMsg at h
  invert h
  exact calcLends_own _ (by assumption) (calcBorrows_own _ (by assumption) o)

theorem handover_own {cfg : Cfg} {s s' : State} {k : Nat} {ni : Dec} (h : handover cfg s k ni = .ok s') (o : Own cfg s) : Own cfg s' := by
  unfold handover at h
  invert h
  all_goals
    have hb := ‹getBorrow s.borrows k = some _›
    have hgl := ‹getLend s.lends _ = some _›
    have hown := o.own _ (getLend_mem hgl).1
    have hd := o.bden _ (getBorrow_mem hb).1
  · exact { own := all_del lid (NotR cfg) _ o.own, lown := all_append (fun k : Locked => k.owner ≠ cfg.reserveAcct) o.lown hown,
            bden := all_put bid (DenOk cfg) o.bden hd }
  · exact { own := all_put lid (NotR cfg) o.own hown, lown := all_append (fun k : Locked => k.owner ≠ cfg.reserveAcct) o.lown hown,
            bden := all_put bid (DenOk cfg) o.bden hd }

theorem auctionClose_own {cfg : Cfg} {s s' : State} {u k : Nat} {paid recv left topUp : Int}
    (h : auctionClose cfg s u k paid recv left topUp = .ok s') (o : Own cfg s) : Own cfg s' := by
  unfold auctionClose at h
  invert h
  all_goals
    exact { own := o.own, lown := fun x hx => o.lown x (List.mem_filter.mp hx).1, bden := all_del bid (DenOk cfg) k o.bden }

/-! ## `BalStep` for every handler -/

/-- a step that leaves bank and records alone up to moves between accounts other than the reserve -/
macro "bal_frame" : tactic =>
  `(tactic| (bankify
             intro a
             simp only [get_sendRaw, get_mintRaw, get_burnRaw]
             simp [*]))

theorem deposit_bal {cfg : Cfg} (ok : CfgOk cfg) {s s' : State} {u k d : Nat} {amt r : Int} (hu : u ≠ cfg.reserveAcct)
    (h : deposit cfg s u k d amt r = .ok s') (o : Own cfg s) : BalStep cfg s s' := by
  unfold deposit at h
  invert h
  refine BalStep.trans (iterLends_bal ok ‹iterLends cfg s k r = .ok _› o) ?_
  have hp := pool_acct_ne ok ‹cfg.pool? _ = some _›
  bal_frame

theorem lendNew_bal {cfg : Cfg} (ok : CfgOk cfg) {s s' : State} {u a : Nat} {amt : Int} {pool : PoolCfg} {app : Nat} (hu : u ≠ cfg.reserveAcct)
    (hp : pool.acct ≠ cfg.reserveAcct) (h : lendNew cfg s u a amt pool app = .ok s') : BalStep cfg s s' := by
  unfold lendNew at h
  invert h
  bal_frame

theorem lendGuards_pool {cfg : Cfg} {s : State} {a d : Nat} {amt : Int} {p app : Nat} {pool : PoolCfg}
    (h : lendGuards cfg s a d amt p app = .ok pool) : cfg.pool? p = some pool := by
  unfold lendGuards at h
  invert h
  assumption

theorem lend_bal {cfg : Cfg} (ok : CfgOk cfg) {s s' : State} {u a d : Nat} {amt : Int} {p app : Nat} {r : Int} (hu : u ≠ cfg.reserveAcct)
    (h : lend cfg s u a d amt p app r = .ok s') (o : Own cfg s) : BalStep cfg s s' := by
  unfold lend at h
  invert h
  · exact deposit_bal ok hu (by assumption) o
  · exact lendNew_bal ok hu (pool_acct_ne ok (lendGuards_pool ‹lendGuards cfg s a d amt p app = .ok _›)) (by assumption)

theorem closeLend_bal {cfg : Cfg} (ok : CfgOk cfg) {s s' : State} {u k : Nat} {r : Int} (hu : u ≠ cfg.reserveAcct)
    (h : closeLend cfg s u k r = .ok s') (o : Own cfg s) : BalStep cfg s s' := by
  unfold closeLend at h
  invert h
  refine BalStep.trans (iterLends_bal ok ‹iterLends cfg s k r = .ok _› o) ?_
  have hp := pool_acct_ne ok ‹cfg.pool? _ = some _›
  bal_frame

theorem withdraw_bal {cfg : Cfg} (ok : CfgOk cfg) {s s' : State} {u k d : Nat} {w r : Int} (hu : u ≠ cfg.reserveAcct)
    (h : withdraw cfg s u k d w r = .ok s') (o : Own cfg s) : BalStep cfg s s' := by
  unfold withdraw at h
  invert h
  · exact closeLend_bal ok hu (by assumption) o
  · refine BalStep.trans (iterLends_bal ok ‹iterLends cfg s k r = .ok _› o) ?_
    have hp := pool_acct_ne ok ‹cfg.pool? _ = some _›
    bal_frame

theorem draw_bal {cfg : Cfg} (ok : CfgOk cfg) {s s' : State} {u k d : Nat} {y : Int} {ext : ExtB} (hu : u ≠ cfg.reserveAcct)
    (h : draw cfg s u k d y ext = .ok s') : BalStep cfg s s' := by
  unfold draw at h
  invert h
  refine BalStep.trans (iterBorrow_bal ‹iterBorrow s k ext = .ok _›) ?_
  have hp := pool_acct_ne ok ‹cfg.pool? _ = some _›
  bal_frame

theorem depositBorrow_bal {cfg : Cfg} (ok : CfgOk cfg) {s s' : State} {u k d : Nat} {x : Int} {ext : ExtB} (hu : u ≠ cfg.reserveAcct)
    (h : depositBorrow cfg s u k d x ext = .ok s') : BalStep cfg s s' := by
  unfold depositBorrow at h
  invert h
  all_goals
    refine BalStep.trans (iterBorrow_bal ‹iterBorrow s k ext = .ok _›) ?_
    have hp1 := pool_acct_ne ok ‹cfg.pool? (Lend.pool _) = some _›
    have hp2 := pool_acct_ne ok ‹cfg.pool? (PairCfg.outPool _) = some _›
    bal_frame

theorem borrowNew_bal {cfg : Cfg} (ok : CfgOk cfg) {s s' : State} {u : Nat} {l : Lend} {pair : PairCfg} {rates : RatesCfg} {stable : Bool} {dIn : Nat}
    {aIn : Int} {dOut : Nat} {aOut : Int} (hu : u ≠ cfg.reserveAcct)
    (h : borrowNew cfg s u l pair rates stable dIn aIn dOut aOut = .ok s') : BalStep cfg s s' := by
  unfold borrowNew at h
  invert h
  all_goals
    have hp1 := pool_acct_ne ok ‹cfg.pool? l.pool = some _›
    have hp2 := pool_acct_ne ok ‹cfg.pool? pair.outPool = some _›
    unfold openBorrow
    bal_frame

theorem borrow_bal {cfg : Cfg} (ok : CfgOk cfg) {s s' : State} {u k pid : Nat} {stable : Bool} {dIn : Nat} {aIn : Int} {dOut : Nat} {aOut : Int}
    {e1 e2 : ExtB} (hu : u ≠ cfg.reserveAcct) (h : borrow cfg s u k pid stable dIn aIn dOut aOut e1 e2 = .ok s') : BalStep cfg s s' := by
  unfold borrow at h
  invert h
  · exact BalStep.trans (depositBorrow_bal ok hu (by assumption)) (draw_bal ok hu (by assumption))
  · exact borrowNew_bal ok hu (by assumption)

theorem borrowAlternate_bal {cfg : Cfg} (ok : CfgOk cfg) {s s' : State} {u a p d : Nat} {amt : Int} {pid : Nat} {stable : Bool} {dOut : Nat}
    {aOut : Int} {app : Nat} {r : Int} {e1 e2 : ExtB} (hu : u ≠ cfg.reserveAcct)
    (h : borrowAlternate cfg s u a p d amt pid stable dOut aOut app r e1 e2 = .ok s') (o : Own cfg s) : BalStep cfg s s' := by
  unfold borrowAlternate at h
  invert h
  · exact BalStep.trans (deposit_bal ok hu (by assumption) o) (borrow_bal ok hu (by assumption))
  · exact BalStep.trans (lendNew_bal ok hu (pool_acct_ne ok (lendGuards_pool ‹lendGuards cfg s a d amt p app = .ok _›)) (by assumption))
      (borrow_bal ok hu (by assumption))

theorem closeBorrow_bal {cfg : Cfg} (ok : CfgOk cfg) {s s' : State} {u k : Nat} {ext : ExtB} (hu : u ≠ cfg.reserveAcct)
    (h : closeBorrow cfg s u k ext = .ok s') (o : Own cfg s) : BalStep cfg s s' := by
  unfold closeBorrow at h
  invert h
  all_goals
    have hit := ‹iterBorrow s k ext = .ok _›
    refine BalStep.trans (iterBorrow_bal hit) ?_
    have hp1 := pool_acct_ne ok ‹cfg.pool? (Lend.pool _) = some _›
    have hp2 := pool_acct_ne ok ‹cfg.pool? (PairCfg.outPool _) = some _›
    have ho := o.own _ (getLend_mem ‹getLend s.lends _ = some _›).1
    have hnn := of_decide_eq_true ‹decide (¬ Dec.truncateInt _ < 0) = true›
    bankify
    intro a
    simp only [get_sendRaw, get_mintRaw, get_burnRaw]
    by_cases htr : Dec.truncateInt (Borrow.reserveInt ‹Borrow›) > 0
    · simp only [htr, if_true, flow_resvRepay]
      simp [*]
      split <;> omega
    · have h0 : Dec.truncateInt (Borrow.reserveInt ‹Borrow›) = 0 := by omega
      simp [*, h0]

theorem fundReserve_bal {cfg : Cfg} {s s' : State} {u a d : Nat} {amt : Int} (hu : u ≠ cfg.reserveAcct)
    (h : fundReserve cfg s u a d amt = .ok s') : BalStep cfg s s' := by
  unfold fundReserve at h
  invert h
  have hd : d = a := by simpa using ‹(d == a) = true›
  subst hd
  bankify
  intro x
  simp only [get_sendRaw]
  rw [flow_mod (d := amt)]
  · simp [hu]; split <;> omega
  · intro r; simp [halves_asset]
  · intro r; simp [Resv.flow, Resv.halves]; omega

theorem repay_bal {cfg : Cfg} (ok : CfgOk cfg) {s s' : State} {u k d : Nat} {p : Int} {ext : ExtB} (hu : u ≠ cfg.reserveAcct)
    (h : repay cfg s u k d p ext = .ok s') (o : Own cfg s) : BalStep cfg s s' := by
  unfold repay at h
  invert h
  · exact closeBorrow_bal ok hu (by assumption) o
  all_goals
    have hit := ‹iterBorrow s k ext = .ok _›
    refine BalStep.trans (iterBorrow_bal hit) ?_
    have o1 := iterBorrow_own (cfg := cfg) hit o
    have hb1 := after_iterBorrow hit (by assumption)
    have hb0 := ‹getBorrow s.borrows k = some _›
    obtain ⟨_, _, _, hpi, _⟩ := iterBorrow_rel hit hb0 hb1
    have hp := ‹cfg.pair? _ = some _›
    rw [← hpi] at hp
    have hden := o1.bden _ (getBorrow_mem hb1).1 _ hp
    have hdd := eq_of_beq ‹(Borrow.outDenom _ == d) = true›
    have hpl := pool_acct_ne ok ‹cfg.pool? _ = some _›
    bankify
    intro a
    simp only [get_sendRaw, get_mintRaw, get_burnRaw, flow_resvRepay]
    simp [*]
    try (rw [← hden]; split <;> omega)

theorem repayWithdraw_bal {cfg : Cfg} (ok : CfgOk cfg) {s s' : State} {u k : Nat} {ext : ExtB} {r : Int} (hu : u ≠ cfg.reserveAcct)
    (h : repayWithdraw cfg s u k ext r = .ok s') (o : Own cfg s) : BalStep cfg s s' := by
  unfold repayWithdraw at h
  invert h
  exact BalStep.trans (closeBorrow_bal ok hu (by assumption) o) (withdraw_bal ok hu (by assumption) (closeBorrow_own (by assumption) o))

theorem calcBorrows_bal {cfg : Cfg} {u : Nat} (l : List (Nat × ExtB)) {s s' : State} (h : calcBorrows s u l = .ok s') : BalStep cfg s s' := by
  induction l generalizing s with
  | nil => simp only [calcBorrows, Except.ok.injEq] at h; subst h; exact BalStep.refl _ _
  | cons x l ih =>
    obtain ⟨k, ext⟩ := x
    simp only [calcBorrows] at h
    split at h
    · rename_i s1 hc
      refine BalStep.trans ?_ (ih h)
      unfold calcBorrow at hc
      invert hc
      exact iterBorrow_bal (by assumption)
    · split at h
      · cases h
      · exact ih h

theorem calcLends_bal {cfg : Cfg} (ok : CfgOk cfg) {u : Nat} (l : List (Nat × Int)) {s s' : State} (h : calcLends cfg s u l = .ok s')
    (o : Own cfg s) : BalStep cfg s s' := by
  induction l generalizing s with
  | nil => simp only [calcLends, Except.ok.injEq] at h; subst h; exact BalStep.refl _ _
  | cons x l ih =>
    obtain ⟨k, r⟩ := x
    simp only [calcLends] at h
    invert h
    exact BalStep.trans (iterLends_bal ok (by assumption) o) (ih (by assumption) (iterLends_own (by assumption) o))

theorem calcMsg_bal {cfg : Cfg} (ok : CfgOk cfg) {s s' : State} {u : Nat} {bs : List (Nat × ExtB)} {ls : List (Nat × Int)}
    (h : calcMsg cfg s u bs ls = .ok s') (o : Own cfg s) : BalStep cfg s s' := by
  unfold calcMsg at h
  invert h
  exact BalStep.trans (calcBorrows_bal _ (by assumption)) (calcLends_bal ok _ (by assumption) (calcBorrows_own _ (by assumption) o))

theorem fundModule_bal {cfg : Cfg} (ok : CfgOk cfg) {s s' : State} {u p a d : Nat} {amt : Int} (hu : u ≠ cfg.reserveAcct)
    (h : fundModule cfg s u p a d amt = .ok s') : BalStep cfg s s' := by
  unfold fundModule at h
  invert h
  have hp := pool_acct_ne ok ‹cfg.pool? _ = some _›
  bal_frame

theorem handover_bal {cfg : Cfg} (ok : CfgOk cfg) {s s' : State} {k : Nat} {ni : Dec} (h : handover cfg s k ni = .ok s') : BalStep cfg s s' := by
  unfold handover at h
  invert h
  all_goals
    have hp := pool_acct_ne ok ‹cfg.pool? _ = some _›
    have ha := ok.auction
    bal_frame

theorem auctionBid_bal {cfg : Cfg} (ok : CfgOk cfg) {s s' : State} {u k : Nat} {paid recv : Int} (hu : u ≠ cfg.reserveAcct)
    (h : auctionBid cfg s u k paid recv = .ok s') : BalStep cfg s s' := by
  unfold auctionBid at h
  invert h
  have ha := ok.auction
  bal_frame

theorem auctionClose_bal {cfg : Cfg} (ok : CfgOk cfg) {s s' : State} {u k : Nat} {paid recv left topUp : Int} (hu : u ≠ cfg.reserveAcct)
    (h : auctionClose cfg s u k paid recv left topUp = .ok s') (o : Own cfg s) : BalStep cfg s s' := by
  unfold auctionClose at h
  invert h
  all_goals
    have hb := ‹getBorrow s.borrows k = some _›
    have hden := o.bden _ (getBorrow_mem hb).1 _ ‹cfg.pair? _ = some _›
    have hlk : Locked.owner _ ≠ cfg.reserveAcct := o.lown _ (List.mem_of_find?_eq_some ‹getLocked s.locked k = some _›)
    have hpl := pool_acct_ne ok ‹cfg.pool? (PairCfg.outPool _) = some _›
    have ha := ok.auction
    try have hpi := pool_acct_ne ok ‹cfg.pool? (Lend.pool _) = some _›
    bankify
    intro a
    simp only [get_sendRaw, get_mintRaw, get_burnRaw]
    simp only [*, if_true, if_false, flow_resvRepay]
    rw [flow_mod (d := Dec.truncateInt (Dec.mul (Dec.ofInt (Borrow.amountOut ‹Borrow›)) (if PairCfg.eMode ‹PairCfg› then RatesCfg.eLiqPenalty ‹RatesCfg› else RatesCfg.liqPenalty ‹RatesCfg›)))]
    · simp [*]
      try (split <;> omega)
    · intro r; simp [halves_asset]
    · intro r; simp [Resv.flow, Resv.halves]; omega

/-- the account that signs the message, if it is a user message -/
def Op.signer : Op → Option Nat
  | .lend u .. => some u
  | .deposit u .. => some u
  | .withdraw u .. => some u
  | .closeLend u .. => some u
  | .borrow u .. => some u
  | .borrowAlternate u .. => some u
  | .depositBorrow u .. => some u
  | .draw u .. => some u
  | .repay u .. => some u
  | .closeBorrow u .. => some u
  | .repayWithdraw u .. => some u
  | .calcAll u .. => some u
  | .fundModule u .. => some u
  | .fundReserve u .. => some u
  | .bid u .. => some u
  | .auctionClose u .. => some u
  | _ => none

theorem step_own {cfg : Cfg} {s s' : State} {op : Op} (hu : op.signer ≠ some cfg.reserveAcct) (h : step cfg s op = .ok s') (o : Own cfg s) :
    Own cfg s' := by
  unfold step at h
  split at h
  · cases h
  · cases op with
    | lend u => exact lend_own (fun e => hu (by simp [Op.signer, e])) h o
    | deposit => exact deposit_own h o
    | withdraw => exact withdraw_own h o
    | closeLend => exact closeLend_own h o
    | borrow => exact borrow_own h o
    | borrowAlternate u => exact borrowAlternate_own (fun e => hu (by simp [Op.signer, e])) h o
    | depositBorrow => exact depositBorrow_own h o
    | draw => exact draw_own h o
    | repay => exact repay_own h o
    | closeBorrow => exact closeBorrow_own h o
    | repayWithdraw => exact repayWithdraw_own h o
    | calcAll => exact calcMsg_own h o
    | fundModule => unfold fundModule at h; invert h; exact ⟨o.own, o.lown, o.bden⟩
    | fundReserve => unfold fundReserve at h; invert h; exact ⟨o.own, o.lown, o.bden⟩
    | setPrice a t => simp only [Except.ok.injEq] at h; subst h; unfold setPrice; cases t <;> exact ⟨o.own, o.lown, o.bden⟩
    | setKill a on => simp only [Except.ok.injEq] at h; subst h; exact ⟨o.own, o.lown, o.bden⟩
    | setDepreciated p f => simp only [Except.ok.injEq] at h; subst h; exact ⟨o.own, o.lown, o.bden⟩
    | beginBlock =>
      obtain ⟨h1, h2, _, _, _, h6⟩ := beginBlock_frame h
      exact ⟨by rw [h1]; exact o.own, by rw [h6]; exact o.lown, by rw [h2]; exact o.bden⟩
    | handover => exact handover_own h o
    | bid => unfold auctionBid at h; invert h; exact ⟨o.own, o.lown, o.bden⟩
    | auctionClose => exact auctionClose_own h o

/-- the block hook of x/lend (it moves pool funds into the reserve without a flow record) -/
def Op.isBeginBlock : Op → Bool
  | .beginBlock => true
  | _ => false

theorem step_bal {cfg : Cfg} (ok : CfgOk cfg) {s s' : State} {op : Op} (hu : op.signer ≠ some cfg.reserveAcct) (hb : op.isBeginBlock = false)
    (h : step cfg s op = .ok s') (o : Own cfg s) : BalStep cfg s s' := by
  unfold step at h
  split at h
  · cases h
  · cases op with
    | lend u => exact lend_bal ok (fun e => hu (by simp [Op.signer, e])) h o
    | deposit u => exact deposit_bal ok (fun e => hu (by simp [Op.signer, e])) h o
    | withdraw u => exact withdraw_bal ok (fun e => hu (by simp [Op.signer, e])) h o
    | closeLend u => exact closeLend_bal ok (fun e => hu (by simp [Op.signer, e])) h o
    | borrow u => exact borrow_bal ok (fun e => hu (by simp [Op.signer, e])) h
    | borrowAlternate u => exact borrowAlternate_bal ok (fun e => hu (by simp [Op.signer, e])) h o
    | depositBorrow u => exact depositBorrow_bal ok (fun e => hu (by simp [Op.signer, e])) h
    | draw u => exact draw_bal ok (fun e => hu (by simp [Op.signer, e])) h
    | repay u => exact repay_bal ok (fun e => hu (by simp [Op.signer, e])) h o
    | closeBorrow u => exact closeBorrow_bal ok (fun e => hu (by simp [Op.signer, e])) h o
    | repayWithdraw u => exact repayWithdraw_bal ok (fun e => hu (by simp [Op.signer, e])) h o
    | calcAll => exact calcMsg_bal ok h o
    | fundModule u => exact fundModule_bal ok (fun e => hu (by simp [Op.signer, e])) h
    | fundReserve u => exact fundReserve_bal (fun e => hu (by simp [Op.signer, e])) h
    | setPrice a t => simp only [Except.ok.injEq] at h; subst h; unfold setPrice; cases t <;> exact BalStep.refl _ _
    | setKill a on => simp only [Except.ok.injEq] at h; subst h; exact BalStep.refl _ _
    | setDepreciated p f => simp only [Except.ok.injEq] at h; subst h; exact BalStep.refl _ _
    | beginBlock => cases hb
    | handover => exact handover_bal ok h
    | bid u => exact auctionBid_bal ok (fun e => hu (by simp [Op.signer, e])) h
    | auctionClose u => exact auctionClose_bal ok (fun e => hu (by simp [Op.signer, e])) h o

theorem resLedger_step {cfg : Cfg} {bank0 : Bank} {s s' : State} (h : ResLedger cfg bank0 s) (b : BalStep cfg s s') : ResLedger cfg bank0 s' := by
  intro a
  have h1 := h a
  have h2 := b a
  omega

end Comdex.Lend
