import Comdex.Lemmas.Feed
/-!
Lemmas for the reconfiguration of the window parameters (C17): histories of one window with reconfigurations split into
segments that are fresh runs; the delete loop of `AddFetchPriceRecords` empties the store; the chain invariant; the
projection of a chain history onto one asset's window history.
-/
namespace Comdex.Twa

theorem run_append (N : Nat) (acc : Int) (s : Option Rec) (l1 l2 : List Op) :
    run N acc s (l1 ++ l2) = (run N acc s l1 >>= fun s' => run N acc s' l2) := by
  induction l1 generalizing s with
  | nil => rfl
  | cons o t ih =>
    simp only [List.cons_append, run]
    cases h : step N acc s o with
    | error e => rfl
    | ok s1 => simp only [bind, Except.bind]; exact ih s1

theorem crun_append (c : CSt) (l1 l2 : List COp) :
    crun c (l1 ++ l2) = (crun c l1 >>= fun c' => crun c' l2) := by
  induction l1 generalizing c with
  | nil => rfl
  | cons o t ih =>
    simp only [List.cons_append, crun]
    cases h : cstep c o with
    | error e => rfl
    | ok c1 => simp only [bind, Except.bind]; exact ih c1

/-- the invariant that ties a running history to its last segment -/
def SegInv (a : Seg) (c : CSt) : Prop := c.cfg = a.cfg ∧ run a.cfg.N a.cfg.acc a.start a.ops = .ok c.s

theorem cstep_seg (a : Seg) (c c' : CSt) (o : COp) (h : SegInv a c) (hs : cstep c o = .ok c') : SegInv (segStep a o) c' := by
  obtain ⟨hc, hr⟩ := h
  cases o with
  | reconfigure cfg' =>
    simp only [cstep] at hs; cases hs
    exact ⟨rfl, rfl⟩
  | op o =>
    simp only [cstep, Except.map] at hs
    cases hst : step c.cfg.N c.cfg.acc c.s o with
    | error e => rw [hst] at hs; cases hs
    | ok s' =>
      rw [hst] at hs; cases hs
      refine ⟨hc, ?_⟩
      simp only [segStep]
      rw [run_append, hr]
      simp only [bind, Except.bind, run]
      rw [← hc, hst]

theorem crun_seg (ops : List COp) (a : Seg) (c st : CSt) (h : SegInv a c) (hs : crun c ops = .ok st) :
    SegInv (ops.foldl segStep a) st := by
  induction ops generalizing a c with
  | nil => simp only [crun] at hs; cases hs; exact h
  | cons o t ih =>
    simp only [crun] at hs
    cases hc : cstep c o with
    | error e => rw [hc] at hs; cases hs
    | ok c1 =>
      rw [hc] at hs
      exact ih (segStep a o) c1 (cstep_seg a c c1 o h hc) hs

/-- every reconfiguration installs a window size ≥ 1 (`FetchPriceProposal.ValidateBasic`), heights are positive -/
def ValidC (ops : List COp) : Prop :=
  (∀ cfg, COp.reconfigure cfg ∈ ops → cfg.N ≥ 1) ∧ (∀ r h, COp.op (.sample r h) ∈ ops → h > 0)

theorem crun_total (ops : List COp) (c : CSt) (hN : c.cfg.N ≥ 1) (hwf : WfO c.cfg.N c.s) (hv : ValidC ops) :
    ∃ st, crun c ops = .ok st ∧ st.cfg.N ≥ 1 ∧ WfO st.cfg.N st.s := by
  induction ops generalizing c with
  | nil => exact ⟨c, rfl, hN, hwf⟩
  | cons o t ih =>
    have hvt : ValidC t := ⟨fun cfg hm => hv.1 cfg (by simp [hm]), fun r h hm => hv.2 r h (by simp [hm])⟩
    cases o with
    | reconfigure cfg' =>
      have h1 : cfg'.N ≥ 1 := hv.1 cfg' (by simp)
      obtain ⟨st, h, hn, hw⟩ := ih { cfg := cfg', s := none } h1 trivial hvt
      exact ⟨st, by simp only [crun, cstep, bind, Except.bind]; exact h, hn, hw⟩
    | op o =>
      obtain ⟨s1, hs1, hwf1, _⟩ := step_refines c.cfg.N hN c.cfg.acc c.s o hwf
        (fun r h e => hv.2 r h (by simp [e]))
      obtain ⟨st, h, hn, hw⟩ := ih { c with s := s1 } hN hwf1 hvt
      exact ⟨st, by simp only [crun, cstep, hs1, Except.map, bind, Except.bind]; exact h, hn, hw⟩

end Comdex.Twa

namespace Comdex.Feed
open Comdex.Twa

/-! ### the delete loop -/

theorem mem_deleteKeys (keys : List Nat) (bk : Books) (x : Nat × Rec) :
    x ∈ deleteKeys keys bk ↔ x ∈ bk ∧ x.1 ∉ keys := by
  induction keys generalizing bk with
  | nil => simp [deleteKeys]
  | cons k t ih =>
    simp only [deleteKeys, List.foldl_cons] at ih ⊢
    rw [ih]
    simp only [Books.erase, List.mem_filter, decide_eq_true_eq, List.mem_cons, not_or]
    constructor
    · rintro ⟨⟨h1, h2⟩, h3⟩; exact ⟨h1, h2, h3⟩
    · rintro ⟨h1, h2, h3⟩; exact ⟨⟨h1, h2⟩, h3⟩

/-- **the delete loop as written empties the store** -/
theorem deleteAllWindows_nil (bk : Books) : deleteAllWindows bk = [] := by
  apply List.eq_nil_iff_forall_not_mem.mpr
  intro x hx
  have := (mem_deleteKeys _ bk x).mp hx
  exact this.2 (List.mem_map.mpr ⟨x, this.1, rfl⟩)

/-- the loop keyed by the script id removes at most the window stored under that id -/
theorem mem_deleteByScript (script : Nat) (bk : Books) (x : Nat × Rec) :
    x ∈ deleteByScript script bk ↔ x ∈ bk ∧ x.1 ≠ script := by
  unfold deleteByScript
  rw [mem_deleteKeys]
  constructor
  · rintro ⟨h1, h2⟩
    refine ⟨h1, fun e => h2 ?_⟩
    exact List.mem_map.mpr ⟨x, h1, e.symm⟩
  · rintro ⟨h1, h2⟩
    refine ⟨h1, fun hm => ?_⟩
    obtain ⟨_, _, e⟩ := List.mem_map.mp hm
    exact h2 e.symm

theorem get_nil (id : Nat) : Books.get [] id = none := rfl

/-! ### the bulk operations seen from one window -/

theorem get_clearAll (bk : Books) (id : Nat) : (clearAll bk).get id = discardAll (bk.get id) := by
  unfold Books.get clearAll
  induction bk with
  | nil => rfl
  | cons x t ih =>
    by_cases e : x.1 = id
    · simp [e, discardAll]
    · simp only [List.map_cons, List.find?_cons, e, decide_false]
      exact ih

theorem get_switchOff (assets : List (Nat × Bool)) (bk : Books) (id : Nat) :
    (switchOff assets bk).get id = if assets.any (fun a => a.1 = id) then deactivate (bk.get id) else bk.get id := by
  unfold Books.get switchOff
  induction bk with
  | nil => simp [deactivate]
  | cons x t ih =>
    have hfst : (if assets.any (fun a => decide (a.1 = x.1)) = true then (x.1, { x.2 with active := false }) else x).1 = x.1 := by
      split <;> rfl
    by_cases e : x.1 = id
    · by_cases hl : assets.any (fun a => decide (a.1 = id)) = true
      · have hl' : assets.any (fun a => decide (a.1 = x.1)) = true := by rw [e]; exact hl
        simp only [List.map_cons, List.find?_cons, e, decide_true, hl, if_true, Option.map_some, deactivate]
      · have hl' : ¬ assets.any (fun a => decide (a.1 = x.1)) = true := by rw [e]; exact hl
        simp only [List.map_cons, List.find?_cons, e, decide_true, hl, Option.map_some]
        simp [e]
    · simp only [List.map_cons, List.find?_cons, hfst, e, decide_false]
      exact ih

/-! ### the chain invariant -/

/-- before the first proposal the feed is not validated; afterwards the window size is ≥ 1 and every stored window is
well-formed FOR THE SIZE IN FORCE -/
def ChainInv (c : Chain) : Prop :=
  (c.b.lastBlock = 0 → c.b.validation = false) ∧ (c.b.lastBlock ≠ 0 → c.cfg.N ≥ 1 ∧ BooksWf c.cfg.N c.bk)

theorem genesis_inv (flag : Bool) (bk : Books) : ChainInv (Chain.genesis flag bk) :=
  ⟨fun _ => rfl, fun h => absurd rfl h⟩

/-- proposals carry a window size ≥ 1 (`ValidateBasic`), heights are positive, asset ids are distinct -/
def ValidOp : ChainOp → Prop
  | .configure cfg h => cfg.N ≥ 1 ∧ h > 0
  | .market h assets => h > 0 ∧ (assets.map (·.1)).Nodup
  | _ => True

theorem bandBegin_lastBlock (b : Band) (h acc : Int) : (bandBegin b h acc).lastBlock = b.lastBlock := by
  unfold bandBegin
  split
  · rfl
  · split
    · rfl
    · dsimp only; split
      · rfl
      · split
        · split <;> rfl
        · rfl

theorem bandBegin_unconfigured (b : Band) (h acc : Int) (h0 : b.lastBlock = 0) : bandBegin b h acc = b := by
  simp [bandBegin, sampling, h0]

theorem sampling_configured (b : Band) (h : Int) (hs : sampling b h = true) : b.lastBlock ≠ 0 := by
  intro h0; simp [sampling, h0] at hs

theorem afterDiscard_get (b : Band) (bk : Books) (id : Nat) :
    (afterDiscard b bk).2.get id = if b.discardBool then discardAll (bk.get id) else bk.get id := by
  unfold afterDiscard
  split
  · exact get_clearAll bk id
  · rfl

theorem afterDiscard_band (b : Band) (bk : Books) :
    (afterDiscard b bk).1.lastBlock = b.lastBlock ∧ (afterDiscard b bk).1.validation = b.validation := by
  unfold afterDiscard; split <;> exact ⟨rfl, rfl⟩

theorem afterDiscard_wf' (N : Nat) (b : Band) (bk : Books) (hwf : BooksWf N bk) : BooksWf N (afterDiscard b bk).2 := by
  unfold afterDiscard; split
  · intro x hx
    simp only [clearAll, List.mem_map] at hx
    obtain ⟨y, hy, rfl⟩ := hx
    obtain ⟨_, _, _, _, _, hnz⟩ := hwf y hy
    refine ⟨by simp, ?_, ?_, by simp, by simp, hnz⟩
    · intro _; simp
    · intro h; simp at h; omega
  · exact hwf

theorem switchOff_wf' (N : Nat) (assets : List (Nat × Bool)) (bk : Books) (hwf : BooksWf N bk) : BooksWf N (switchOff assets bk) := by
  intro x hx
  simp only [switchOff, List.mem_map] at hx
  obtain ⟨y, hy, rfl⟩ := hx
  split
  · obtain ⟨h1, h2, h3, _, _, hnz⟩ := hwf y hy
    exact ⟨h1, fun h => ⟨(h2 h).1, rfl⟩, h3, by simp, by simp, hnz⟩
  · exact hwf y hy

theorem run_switchOff (N : Nat) (acc : Int) (assets : List (Nat × Bool)) (bk : Books) (id : Nat) :
    run N acc (bk.get id) (if assets.any (fun a => a.1 = id) then [Op.deactivate] else []) = .ok ((switchOff assets bk).get id) := by
  rw [get_switchOff]
  by_cases hl : assets.any (fun a => decide (a.1 = id)) = true
  · simp [hl, run, step, bind, Except.bind]
  · simp [hl, run]

/-- **market begin-blocker = per window, the ops `marketOps`** (configured chain: `N ≥ 1`, well-formed windows) -/
theorem marketBegin_window (b : Band) (N : Nat) (hN : N ≥ 1) (acc height : Int) (hh : height > 0)
    (assets : List (Nat × Bool)) (hnd : (assets.map (·.1)).Nodup) (bk : Books) (hwf : BooksWf N bk) :
    ∃ b' bk', marketBegin b N acc height assets bk = .ok (b', bk') ∧ BooksWf N bk' ∧
      b'.lastBlock = b.lastBlock ∧ b'.validation = b.validation ∧
      ∀ id, run N acc (bk.get id) (marketOps b height assets id) = .ok (bk'.get id) := by
  by_cases hv : b.validation = true
  · by_cases hs : sampling b height = true
    · have hbw := afterDiscard_wf' N b bk hwf
      have hpre : ∀ id, run N acc (bk.get id) (if b.discardBool = true then [Op.discardAll] else []) = .ok ((afterDiscard b bk).2.get id) := by
        intro id
        rw [afterDiscard_get]
        by_cases hd : b.discardBool = true
        · simp [hd, run, step, bind, Except.bind]
        · simp [hd, run]
      obtain ⟨hl1, hl2⟩ := afterDiscard_band b bk
      have hnone : ∀ r, (r = none ∨ r = some []) → b.result b.lastId = r →
          ∃ b' bk', marketBegin b N acc height assets bk = .ok (b', bk') ∧ BooksWf N bk' ∧
            b'.lastBlock = b.lastBlock ∧ b'.validation = b.validation ∧
            ∀ id, run N acc (bk.get id) (marketOps b height assets id) = .ok (bk'.get id) := by
        intro r hr0 hr
        have hm : marketBegin b N acc height assets bk = .ok (afterDiscard b bk) := by
          rcases hr0 with rfl | rfl <;> simp [marketBegin, hv, hs, hr]
        have ho : ∀ id, marketOps b height assets id = (if b.discardBool = true then [Op.discardAll] else []) := by
          intro id; rcases hr0 with rfl | rfl <;> simp [marketOps, hv, hs, hr]
        exact ⟨(afterDiscard b bk).1, (afterDiscard b bk).2, hm, hbw, hl1, hl2, fun id => by rw [ho]; exact hpre id⟩
      cases hr : b.result b.lastId with
      | none => exact hnone none (Or.inl rfl) hr
      | some rates =>
        cases rates with
        | nil => exact hnone (some []) (Or.inr rfl) hr
        | cons r0 rs =>
          obtain ⟨bk', h1, h2, h3⟩ := feedLoop_spec N hN acc height hh (r0 :: rs) assets hnd 0 _ hbw
          have hm : marketBegin b N acc height assets bk = .ok ((afterDiscard b bk).1, bk') := by
            simp [marketBegin, hv, hs, hr, h1, Except.map]
          refine ⟨(afterDiscard b bk).1, bk', hm, h2, hl1, hl2, fun id => ?_⟩
          have := h3 id
          cases hf : fedWith assets (r0 :: rs) 0 id with
          | none =>
            have ho : marketOps b height assets id = (if b.discardBool = true then [Op.discardAll] else []) ++ [] := by
              simp [marketOps, hv, hs, hr, hf]
            rw [hf] at this
            rw [ho, run_append, hpre id]
            simp only [bind, Except.bind, run]; rw [this]
          | some rate =>
            have ho : marketOps b height assets id = (if b.discardBool = true then [Op.discardAll] else []) ++ [Op.sample rate height] := by
              simp [marketOps, hv, hs, hr, hf]
            rw [hf] at this
            rw [ho, run_append, hpre id]
            simp only [run, step, this, bind, Except.bind]
    · have hs' : sampling b height = false := by simpa using hs
      have hm : marketBegin b N acc height assets bk = .ok (b, bk) := by simp [marketBegin, hv, hs']
      have ho : ∀ id, marketOps b height assets id = [] := by intro id; simp [marketOps, hv, hs']
      exact ⟨b, bk, hm, hwf, rfl, rfl, fun id => by rw [ho]; rfl⟩
  · have hv' : b.validation = false := by simpa using hv
    have hm : marketBegin b N acc height assets bk = .ok (b, switchOff assets bk) := by
      simp only [marketBegin, hv', Bool.false_eq_true, if_false]
    have ho : ∀ id, marketOps b height assets id = (if assets.any (fun a => a.1 = id) then [Op.deactivate] else []) := by
      intro id; simp [marketOps, hv']
    exact ⟨b, _, hm, switchOff_wf' N assets bk hwf, rfl, rfl, fun id => by rw [ho]; exact run_switchOff N acc assets bk id⟩

/-- the same for an UNCONFIGURED chain (genesis windows of any shape, any `N`): only switch-offs happen -/
theorem marketBegin_window_unconfigured (b : Band) (N : Nat) (acc height : Int) (assets : List (Nat × Bool)) (bk : Books)
    (hv : b.validation = false) :
    marketBegin b N acc height assets bk = .ok (b, switchOff assets bk) ∧
      ∀ id, run N acc (bk.get id) (marketOps b height assets id) = .ok ((switchOff assets bk).get id) := by
  refine ⟨by simp only [marketBegin, hv, Bool.false_eq_true, if_false], fun id => ?_⟩
  have ho : marketOps b height assets id = (if assets.any (fun a => a.1 = id) then [Op.deactivate] else []) := by
    simp [marketOps, hv]
  rw [ho]; exact run_switchOff N acc assets bk id

end Comdex.Feed

namespace Comdex.Feed
open Comdex.Twa

theorem crun_ops (c : CSt) (ops : List Op) :
    crun c (ops.map COp.op) = (run c.cfg.N c.cfg.acc c.s ops).map (fun s' => { c with s := s' }) := by
  induction ops generalizing c with
  | nil => rfl
  | cons o t ih =>
    simp only [List.map_cons, crun, cstep, run]
    cases h : step c.cfg.N c.cfg.acc c.s o with
    | error e => rfl
    | ok s1 =>
      simp only [Except.map, bind, Except.bind]
      exact ih { c with s := s1 }

theorem mem_marketOps (b : Band) (h : Int) (assets : List (Nat × Bool)) (id : Nat) (r : Nat) (h' : Int)
    (hm : Op.sample r h' ∈ marketOps b h assets id) : h' = h := by
  unfold marketOps at hm
  split at hm
  · split at hm
    · rcases List.mem_append.mp hm with hm | hm
      · split at hm <;> simp at hm
      · split at hm
        · split at hm
          · simp at hm; exact hm.2
          · simp at hm
        · simp at hm
    · simp at hm
  · split at hm <;> simp at hm

/-- **One chain op**: never panics from a state satisfying the invariant, keeps the invariant, and moves the window of
every asset exactly by the single-window history `projectOp` -/
theorem chainStep_spec (c : Chain) (o : ChainOp) (hinv : ChainInv c) (hv : ValidOp o) :
    ∃ c', chainStep c o = .ok c' ∧ ChainInv c' ∧
      ∀ id, crun { cfg := c.cfg, s := c.bk.get id } (projectOp id c o) = .ok { cfg := c'.cfg, s := c'.bk.get id } := by
  obtain ⟨h0, h1⟩ := hinv
  cases o with
  | configure cfg h =>
    obtain ⟨hN, hh⟩ := hv
    refine ⟨_, rfl, ⟨?_, ?_⟩, fun id => ?_⟩
    · intro e; simp only [Band.configure] at e; omega
    · intro _; exact ⟨hN, by simp only [deleteAllWindows_nil]; intro x hx; cases hx⟩
    · simp only [projectOp, crun, cstep, bind, Except.bind, deleteAllWindows_nil, get_nil]
  | ack i => exact ⟨_, rfl, ⟨h0, h1⟩, fun id => rfl⟩
  | response i rates => exact ⟨_, rfl, ⟨h0, h1⟩, fun id => rfl⟩
  | assetChange q =>
    refine ⟨_, rfl, ⟨?_, ?_⟩, fun id => rfl⟩
    · intro e; unfold Band.assetChange at e ⊢; split at e <;> split <;> exact h0 e
    · intro e; apply h1; unfold Band.assetChange at e; split at e <;> exact e
  | band h =>
    refine ⟨_, rfl, ⟨?_, ?_⟩, fun id => rfl⟩
    · intro e
      simp only [bandBegin_lastBlock] at e
      simp only [bandBegin_unconfigured c.b h c.cfg.acc e]; exact h0 e
    · intro e; simp only [bandBegin_lastBlock] at e; exact h1 e
  | market h assets =>
    obtain ⟨hh, hnd⟩ := hv
    by_cases hl : c.b.lastBlock = 0
    · have hval := h0 hl
      obtain ⟨hm, hw⟩ := marketBegin_window_unconfigured c.b c.cfg.N c.cfg.acc h assets c.bk hval
      refine ⟨{ c with b := c.b, bk := switchOff assets c.bk }, by simp only [chainStep, hm, Except.map], ⟨h0, fun e => absurd hl e⟩, fun id => ?_⟩
      simp only [projectOp, crun_ops, hw id, Except.map]
    · obtain ⟨hN, hwf⟩ := h1 hl
      obtain ⟨b', bk', hm, hwf', hlb, hvb, hw⟩ := marketBegin_window c.b c.cfg.N hN c.cfg.acc h hh assets hnd c.bk hwf
      refine ⟨{ c with b := b', bk := bk' }, by simp only [chainStep, hm, Except.map], ⟨?_, ?_⟩, fun id => ?_⟩
      · intro e; exact absurd (hlb ▸ e) hl
      · intro _; exact ⟨hN, hwf'⟩
      · simp only [projectOp, crun_ops, hw id, Except.map]

/-- **Every chain history**: never panics, keeps the invariant, and the window of every asset is the result of the
single-window history `projectRun` (samples by rank, bulk discards / switch-offs, reconfigurations) -/
theorem chainRun_spec (ops : List ChainOp) (c : Chain) (hinv : ChainInv c) (hv : ∀ o ∈ ops, ValidOp o) :
    ∃ c', chainRun c ops = .ok c' ∧ ChainInv c' ∧
      ∀ id, crun { cfg := c.cfg, s := c.bk.get id } (projectRun id c ops) = .ok { cfg := c'.cfg, s := c'.bk.get id } := by
  induction ops generalizing c with
  | nil => exact ⟨c, rfl, hinv, fun id => rfl⟩
  | cons o t ih =>
    obtain ⟨c1, hs, hinv1, hp1⟩ := chainStep_spec c o hinv (hv o (by simp))
    obtain ⟨c2, hr, hinv2, hp2⟩ := ih c1 hinv1 (fun o' ho' => hv o' (by simp [ho']))
    refine ⟨c2, by simp only [chainRun, hs, bind, Except.bind]; exact hr, hinv2, fun id => ?_⟩
    simp only [projectRun, hs]
    rw [crun_append, hp1 id]
    exact hp2 id

theorem projectRun_valid (id : Nat) (ops : List ChainOp) (c : Chain) (hv : ∀ o ∈ ops, ValidOp o) :
    ValidC (projectRun id c ops) := by
  induction ops generalizing c with
  | nil => exact ⟨fun _ h => by simp [projectRun] at h, fun _ _ h => by simp [projectRun] at h⟩
  | cons o t ih =>
    have hvo := hv o (by simp)
    have hrest : ValidC (match chainStep c o with | .ok c' => projectRun id c' t | .error _ => []) := by
      split
      · exact ih _ (fun o' ho' => hv o' (by simp [ho']))
      · exact ⟨fun _ h => by simp at h, fun _ _ h => by simp at h⟩
    constructor
    · intro cfg hm
      simp only [projectRun] at hm
      rcases List.mem_append.mp hm with hm | hm
      · cases o with
        | configure cfg' h => simp only [projectOp, List.mem_singleton] at hm; cases hm; exact hvo.1
        | market h assets => simp [projectOp] at hm
        | ack _ => simp [projectOp] at hm
        | response _ _ => simp [projectOp] at hm
        | assetChange _ => simp [projectOp] at hm
        | band _ => simp [projectOp] at hm
      · exact hrest.1 cfg hm
    · intro r h' hm
      simp only [projectRun] at hm
      rcases List.mem_append.mp hm with hm | hm
      · cases o with
        | configure cfg' h => simp [projectOp] at hm
        | market h assets =>
          simp only [projectOp, List.mem_map] at hm
          obtain ⟨x, hx, e⟩ := hm
          cases e
          rw [mem_marketOps _ _ _ _ _ _ hx]; exact hvo.1
        | ack _ => simp [projectOp] at hm
        | response _ _ => simp [projectOp] at hm
        | assetChange _ => simp [projectOp] at hm
        | band _ => simp [projectOp] at hm
      · exact hrest.2 r h' hm

end Comdex.Feed

namespace Comdex.Twa

theorem foldl_seg_ops (ops : List COp) (a : Seg) (o : Op) (h : o ∈ (ops.foldl segStep a).ops) :
    o ∈ a.ops ∨ COp.op o ∈ ops := by
  induction ops generalizing a with
  | nil => exact Or.inl h
  | cons x t ih =>
    rcases ih (segStep a x) h with h1 | h1
    · cases x with
      | op o' =>
        simp only [segStep, List.mem_append, List.mem_singleton] at h1
        rcases h1 with h1 | h1
        · exact Or.inl h1
        · subst h1; exact Or.inr (by simp)
      | reconfigure c => simp [segStep] at h1
    · exact Or.inr (by simp [h1])

theorem foldl_seg_start (ops : List COp) (a : Seg) (h : ∃ c, COp.reconfigure c ∈ ops) :
    (ops.foldl segStep a).start = none := by
  induction ops generalizing a with
  | nil => obtain ⟨c, hc⟩ := h; cases hc
  | cons x t ih =>
    by_cases ht : ∃ c, COp.reconfigure c ∈ t
    · exact ih _ ht
    · obtain ⟨c, hc⟩ := h
      have hx : x = COp.reconfigure c := by
        rcases List.mem_cons.mp hc with h1 | h1
        · exact h1.symm
        · exact absurd ⟨c, h1⟩ ht
      subst hx
      have hkeep : ∀ (l : List COp) (b : Seg), (∀ c, COp.reconfigure c ∉ l) → (l.foldl segStep b).start = b.start := by
        intro l
        induction l with
        | nil => intro b _; rfl
        | cons y l' ih' =>
          intro b hn
          cases y with
          | op o => simp only [List.foldl_cons]; rw [ih' _ (fun c hm => hn c (by simp [hm]))]; rfl
          | reconfigure c' => exact absurd (by simp) (hn c')
      simp only [List.foldl_cons]
      rw [hkeep t _ (fun c' hm => ht ⟨c', hm⟩)]; rfl

theorem foldl_seg_start_keep (ops : List COp) (a : Seg) (h : ∀ c, COp.reconfigure c ∉ ops) :
    (ops.foldl segStep a).start = a.start ∧ (ops.foldl segStep a).cfg = a.cfg := by
  induction ops generalizing a with
  | nil => exact ⟨rfl, rfl⟩
  | cons y l ih =>
    cases y with
    | op o =>
      simp only [List.foldl_cons]
      have := ih (segStep a (.op o)) (fun c hm => h c (by simp [hm]))
      exact this
    | reconfigure c' => exact absurd (by simp) (h c')

/-- the parameters of the last segment were installed by a reconfiguration of the history (if there is one) -/
theorem foldl_seg_cfg_valid (l : List COp) (a : Seg) (hall : ∀ c, COp.reconfigure c ∈ l → c.N ≥ 1)
    (hex : ∃ c, COp.reconfigure c ∈ l) : (l.foldl segStep a).cfg.N ≥ 1 := by
  induction l generalizing a with
  | nil => obtain ⟨c, hc⟩ := hex; cases hc
  | cons x t ih =>
    by_cases ht : ∃ c, COp.reconfigure c ∈ t
    · exact ih _ (fun c hm => hall c (by simp [hm])) ht
    · obtain ⟨c, hc⟩ := hex
      have hx : x = COp.reconfigure c := by
        rcases List.mem_cons.mp hc with h1 | h1
        · exact h1.symm
        · exact absurd ⟨c, h1⟩ ht
      subst hx
      simp only [List.foldl_cons]
      rw [(foldl_seg_start_keep t _ (fun c' hm => ht ⟨c', hm⟩)).2]
      exact hall c (by simp)

end Comdex.Twa

namespace Comdex.Feed
open Comdex.Twa

theorem erase_not_mem (bk : Books) (k : Nat) (h : k ∉ bk.map (·.1)) : bk.erase k = bk := by
  unfold Books.erase
  apply List.filter_eq_self.mpr
  intro x hx
  simp only [decide_eq_true_eq]
  intro e; exact h (List.mem_map.mpr ⟨x, hx, e⟩)

theorem deleteKeys_keeps (keys : List Nat) (bk : Books) (h : ∀ k ∈ keys, k ∉ bk.map (·.1)) : deleteKeys keys bk = bk := by
  unfold deleteKeys
  induction keys with
  | nil => rfl
  | cons k t ih =>
    simp only [List.foldl_cons]
    rw [erase_not_mem bk k (h k (by simp))]
    exact ih (fun k' hk' => h k' (by simp [hk']))

/-- the loop keyed by an id that is no asset id deletes NOTHING -/
theorem deleteByScript_keeps (script : Nat) (bk : Books) (h : script ∉ bk.map (·.1)) : deleteByScript script bk = bk := by
  apply deleteKeys_keeps
  intro k hk
  obtain ⟨_, _, e⟩ := List.mem_map.mp hk
  subst e; exact h

theorem configure_projects (id : Nat) (ops : List ChainOp) (c c' : Chain) (cfg : Cfg) (h : Int)
    (hm : ChainOp.configure cfg h ∈ ops) (hr : chainRun c ops = .ok c') : COp.reconfigure cfg ∈ projectRun id c ops := by
  induction ops generalizing c with
  | nil => cases hm
  | cons o t ih =>
    simp only [chainRun] at hr
    cases hs : chainStep c o with
    | error e => rw [hs] at hr; cases hr
    | ok c1 =>
      rw [hs] at hr
      simp only [projectRun, hs, List.mem_append]
      rcases List.mem_cons.mp hm with h1 | h1
      · subst h1; exact Or.inl (by simp [projectOp])
      · exact Or.inr (ih c1 h1 hr)

end Comdex.Feed
