import Comdex.Model.Genesis
/-! Helper lemmas for the genesis round-trip law (C20): look-up through `filter`, `++` and the recomputed counters. -/
namespace Comdex.Genesis

theorem get_nil (p k : String) : get [] p k = none := rfl

theorem get_cons (e : Entry) (s : Store) (p k : String) :
    get (e :: s) p k = if (e.pfx == p && e.key == k) = true then some e.val else get s p k := by
  unfold get
  rw [List.find?_cons]
  by_cases h : (e.pfx == p && e.key == k) = true
  · simp [h]
  · have h' : (e.pfx == p && e.key == k) = false := by simpa using h
    simp [h']

theorem get_append (a b : Store) (p k : String) :
    get (a ++ b) p k = match get a p k with | some v => some v | none => get b p k := by
  induction a with
  | nil => simp [get_nil]
  | cons e a ih =>
    rw [List.cons_append, get_cons, get_cons]
    by_cases h : (e.pfx == p && e.key == k) = true
    · simp [h]
    · simp only [h]; exact ih

/-- look-up through a filter that only looks at the prefix (induction over the store) -/
theorem get_filter (q : String → Bool) (s : Store) (p k : String) :
    get (s.filter fun e => q e.pfx) p k = if q p = true then get s p k else none := by
  induction s with
  | nil => simp [get_nil]
  | cons e s ih =>
    rw [get_cons]
    by_cases hq : q e.pfx = true
    · rw [List.filter_cons_of_pos (by simpa using hq), get_cons]
      by_cases hm : (e.pfx == p && e.key == k) = true
      · have hp : e.pfx = p := by
          have := hm; simp only [Bool.and_eq_true, beq_iff_eq] at this; exact this.1
        have hq' : q p = true := by rw [← hp]; exact hq
        simp only [hm, hq', if_true]
      · simp only [hm]; exact ih
    · rw [List.filter_cons_of_neg (by simpa using hq), ih]
      by_cases hm : (e.pfx == p && e.key == k) = true
      · have hp : e.pfx = p := by
          have := hm; simp only [Bool.and_eq_true, beq_iff_eq] at this; exact this.1
        have : ¬ q p = true := by rw [← hp]; exact hq
        simp [this]
      · simp [hm]

theorem get_none_of_pfx (s : Store) (p k : String) (h : ∀ e ∈ s, e.pfx ≠ p) : get s p k = none := by
  induction s with
  | nil => rfl
  | cons e s ih =>
    rw [get_cons]
    have hne : e.pfx ≠ p := h e (by simp)
    have : (e.pfx == p && e.key == k) = false := by simp [hne]
    simp only [this]
    exact ih (fun e' he' => h e' (by simp [he']))

theorem get_some_pfx (s : Store) (p k : String) (v : Val) (h : get s p k = some v) : ∃ e ∈ s, e.pfx = p ∧ e.key = k := by
  induction s with
  | nil => simp [get_nil] at h
  | cons e s ih =>
    rw [get_cons] at h
    by_cases hm : (e.pfx == p && e.key == k) = true
    · simp only [Bool.and_eq_true, beq_iff_eq] at hm
      exact ⟨e, by simp, hm.1, hm.2⟩
    · simp only [hm] at h
      obtain ⟨e', he', h1, h2⟩ := ih h
      exact ⟨e', by simp [he'], h1, h2⟩

theorem counterEntries_cons_some (g : Store) (c : Counter) (cs : List Counter) (n : Nat) (h : ruleVal g c.rule = some n) :
    counterEntries g (c :: cs) = ⟨c.pfx, "", 0, .num n⟩ :: counterEntries g cs := by
  simp [counterEntries, h]

theorem counterEntries_cons_none (g : Store) (c : Counter) (cs : List Counter) (h : ruleVal g c.rule = none) :
    counterEntries g (c :: cs) = counterEntries g cs := by
  simp [counterEntries, h]

/-- the recomputed counters: only the bare key of a listed counter is written, with the value of its rule -/
theorem get_counterEntries (g : Store) (cs : List Counter) (p k : String)
    (hnd : (cs.map (·.pfx)).Nodup) :
    get (counterEntries g cs) p k =
      if k = "" then
        match cs.find? (fun c => c.pfx == p) with
        | some c => (ruleVal g c.rule).map Val.num
        | none => none
      else none := by
  induction cs with
  | nil => simp [counterEntries, get_nil]
  | cons c cs ih =>
    have hnd' : (cs.map (·.pfx)).Nodup := by
      simp only [List.map_cons, List.nodup_cons] at hnd; exact hnd.2
    have hnot : c.pfx ∉ cs.map (·.pfx) := by
      simp only [List.map_cons, List.nodup_cons] at hnd; exact hnd.1
    have ih := ih hnd'
    by_cases hcp : c.pfx = p
    · -- this counter; no later counter has the same prefix
      have hlater : cs.find? (fun c' => c'.pfx == p) = none := by
        rw [List.find?_eq_none]
        intro c' hc' hb
        have : c'.pfx = p := by simpa using hb
        exact hnot (by rw [hcp, ← this]; exact List.mem_map_of_mem hc')
      rw [hlater] at ih
      have hfind : (c :: cs).find? (fun c' => c'.pfx == p) = some c := by
        rw [List.find?_cons]; simp [hcp]
      rw [hfind]
      cases hr : ruleVal g c.rule with
      | none =>
        rw [counterEntries_cons_none g c cs hr, ih]
        split <;> simp [hr]
      | some n =>
        rw [counterEntries_cons_some g c cs n hr, get_cons]
        by_cases hk : k = ""
        · simp [hcp, hk, hr]
        · have : ((c.pfx == p) && (("" : String) == k)) = false := by
            have : ¬ (("" : String) = k) := fun h => hk h.symm
            simp [this]
          simp only [this, hk, if_false]
          rw [ih]; simp [hk]
    · have hfind : (c :: cs).find? (fun c' => c'.pfx == p) = cs.find? (fun c' => c'.pfx == p) := by
        rw [List.find?_cons]
        have : (c.pfx == p) = false := by simpa using hcp
        rw [this]
      rw [hfind, ← ih]
      cases hr : ruleVal g c.rule with
      | none => rw [counterEntries_cons_none g c cs hr]
      | some n =>
        rw [counterEntries_cons_some g c cs n hr, get_cons]
        have : ((c.pfx == p) && (("" : String) == k)) = false := by simp [hcp]
        simp [this]

/-! ## migration loop -/

theorem encode_decodeInto_fresh (w : Wire) : ∀ n, w.length = n → (∀ x ∈ w, x ≠ some 0) →
    encode (decodeInto (List.replicate n 0) w) = w := by
  induction w with
  | nil => intro n _ _; cases n <;> rfl
  | cons x xs ih =>
    intro n hn hx
    cases n with
    | zero => simp at hn
    | succ n =>
      have hlen : xs.length = n := by simpa using hn
      have hxs : ∀ y ∈ xs, y ≠ some 0 := fun y hy => hx y (List.mem_cons_of_mem _ hy)
      have ih' := ih n hlen hxs
      cases x with
      | none =>
        simp only [List.replicate_succ, decodeInto, encode, List.map_cons, if_true]
        unfold encode at ih'; rw [ih']
      | some v =>
        have hv : v ≠ 0 := by
          intro h; exact hx (some v) (List.mem_cons_self) (by rw [h])
        simp only [List.replicate_succ, decodeInto, encode, List.map_cons, hv, if_false]
        unfold encode at ih'; rw [ih']

/-- a record all of whose fields are present on the wire decodes alike into any destination of the right length -/
theorem decodeInto_full (w : Wire) : ∀ acc : List Nat, acc.length = w.length → (∀ x ∈ w, x ≠ none) →
    decodeInto acc w = w.map (·.getD 0) := by
  induction w with
  | nil => intro acc _ _; cases acc <;> rfl
  | cons x xs ih =>
    intro acc hl hx
    cases acc with
    | nil => simp at hl
    | cons d ds =>
      have hl' : ds.length = xs.length := by simpa using hl
      have hxs : ∀ y ∈ xs, y ≠ none := fun y hy => hx y (List.mem_cons_of_mem _ hy)
      cases x with
      | none => exact absurd rfl (hx none List.mem_cons_self)
      | some v => simp only [decodeInto, List.map_cons, Option.getD_some, ih ds hl' hxs]

end Comdex.Genesis
