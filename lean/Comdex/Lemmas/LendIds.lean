import Comdex.Lemmas.Lend
/-!
The id lists of the pool-asset records (`PoolAssetLBMapping.LendIds` / `BorrowIds`).

* `DeleteIDFromAssetStatsMapping` removes an id by BINARY SEARCH (`sort.Search`); on a strictly ascending list that is the removal
  of the id (`delId_eq_filter`) — on an unsorted list it can miss it (`delId_unsorted_misses`).
* `IdsOk` — every record lists exactly the ids of its live positions, in order — together with "ids ascend" is an invariant of
  every handler (`step_ids`).
Core Lean only.
-/
namespace Comdex.Lend
open Comdex

/-! ## `sort.Search` -/

theorem sortSearch_spec (f : Nat → Bool) (n : Nat) (mono : ∀ a b, a ≤ b → b < n → f a = true → f b = true) :
    ∀ fuel i j, i ≤ j → j ≤ n → j - i ≤ fuel → (∀ k, k < i → f k = false) → (∀ k, j ≤ k → k < n → f k = true) →
      (∀ k, k < sortSearch f fuel i j → f k = false) ∧ (∀ k, sortSearch f fuel i j ≤ k → k < n → f k = true) ∧ sortSearch f fuel i j ≤ n := by
  intro fuel
  induction fuel with
  | zero =>
    intro i j hij hjn hfuel hlo hhi
    have : i = j := by omega
    subst this
    simp only [sortSearch]
    exact ⟨hlo, hhi, hjn⟩
  | succ fuel ih =>
    intro i j hij hjn hfuel hlo hhi
    simp only [sortSearch]
    by_cases hlt : i < j
    · simp only [hlt, if_true]
      have hh : i ≤ (i + j) / 2 ∧ (i + j) / 2 < j := by omega
      cases hf : f ((i + j) / 2) with
      | true =>
        simp only [if_true]
        refine ih i ((i + j) / 2) hh.1 (by omega) (by omega) hlo ?_
        intro k hk hkn
        exact mono _ k hk hkn hf
      | false =>
        simp only [Bool.false_eq_true, if_false]
        refine ih ((i + j) / 2 + 1) j (by omega) hjn (by omega) ?_ hhi
        intro k hk
        cases hfk : f k with
        | false => rfl
        | true =>
          have := mono k ((i + j) / 2) (by omega) (by omega) hfk
          rw [hf] at this; cases this
    · simp only [hlt, if_false]
      have : i = j := by omega
      subst this
      exact ⟨hlo, hhi, hjn⟩

/-! ## removal by binary search = removal, on ascending lists -/

/-- strictly ascending -/
def Asc (l : List Nat) : Prop := l.Pairwise (· < ·)

theorem getD_eq (l : List Nat) (i : Nat) (h : i < l.length) : l.getD i 0 = l[i] := by
  simp [List.getD, h]

theorem asc_lt {l : List Nat} (h : Asc l) {i j : Nat} (hj : j < l.length) (hij : i < j) : l.getD i 0 < l.getD j 0 := by
  rw [getD_eq l i (by omega), getD_eq l j hj]
  exact (List.pairwise_iff_getElem.mp h) i j (by omega) hj hij

/-- the entry at `r` is `k`, no other entry is: erasing index `r` is filtering `k` out -/
theorem eraseIdx_eq_filter (l : List Nat) (k r : Nat) (hr : r < l.length) (hk : l.getD r 0 = k)
    (ho : ∀ t, t < l.length → t ≠ r → l.getD t 0 ≠ k) : l.eraseIdx r = l.filter (· != k) := by
  induction l generalizing r with
  | nil => simp at hr
  | cons a l ih =>
    cases r with
    | zero =>
      have ha : a = k := by simpa [List.getD] using hk
      have hrest : l.filter (· != k) = l := by
        apply List.filter_eq_self.mpr
        intro x hx
        obtain ⟨t, ht, rfl⟩ := List.getElem_of_mem hx
        have := ho (t + 1) (by simp; omega) (by omega)
        simp [List.getD] at this
        simpa [ht] using this
      simp [List.eraseIdx, ha, hrest]
    | succ r =>
      have ha : a ≠ k := by
        have := ho 0 (by simp) (by omega)
        simpa [List.getD] using this
      have hrec := ih r (by simpa using hr) (by simpa [List.getD] using hk) (by
        intro t ht htr
        have := ho (t + 1) (by simp; omega) (by omega)
        simpa [List.getD] using this)
      simp [List.eraseIdx, ha, hrec]

/-- **Binary-search removal is removal** on a strictly ascending list -/
theorem delId_eq_filter (ids : List Nat) (h : Asc ids) (k : Nat) : delId ids k = ids.filter (· != k) := by
  unfold delId
  have mono : ∀ a b, a ≤ b → b < ids.length → decide (ids.getD a 0 ≥ k) = true → decide (ids.getD b 0 ≥ k) = true := by
    intro a b hab hb ha
    rcases Nat.lt_or_eq_of_le hab with hlt | rfl
    · have := asc_lt h hb hlt
      simp only [decide_eq_true_eq] at ha ⊢; omega
    · exact ha
  obtain ⟨hlo, hhi, hle⟩ := sortSearch_spec (fun i => decide (ids.getD i 0 ≥ k)) ids.length mono ids.length 0 ids.length
    (Nat.zero_le _) (Nat.le_refl _) (by omega) (by intro k hk; omega) (by intro k hk hkn; omega)
  generalize sortSearch (fun i => decide (ids.getD i 0 ≥ k)) ids.length 0 ids.length = r at *
  have hlo' : ∀ t, t < r → ids.getD t 0 < k := fun t ht => by
    have := hlo t ht; simp only [decide_eq_false_iff_not] at this; omega
  have hhi' : ∀ t, r ≤ t → t < ids.length → ids.getD t 0 ≥ k := fun t ht htn => by
    have := hhi t ht htn; simpa using this
  by_cases hc : r < ids.length ∧ ids.getD r 0 = k
  · simp only [hc, and_self, if_true]
    apply eraseIdx_eq_filter ids k r hc.1 hc.2
    intro t ht htr
    rcases Nat.lt_or_gt_of_ne htr with hlt | hgt
    · have := hlo' t hlt; omega
    · have := asc_lt h ht hgt; omega
  · simp only [hc, if_false]
    symm
    apply List.filter_eq_self.mpr
    intro x hx
    obtain ⟨t, ht, rfl⟩ := List.getElem_of_mem hx
    have hxe : ids.getD t 0 = ids[t] := getD_eq ids t ht
    simp only [bne_iff_ne, ne_eq]
    intro e
    by_cases htr : t < r
    · have := hlo' t htr; omega
    · by_cases hrt : t = r
      · subst hrt; exact hc ⟨ht, by omega⟩
      · have h1 := hhi' r (Nat.le_refl _) (by omega)
        have h2 := asc_lt h ht (by omega : r < t)
        omega

/-- on an unsorted list the binary search can miss the id: `[5, 3]`, id `3` -/
theorem delId_unsorted_misses : delId [5, 3] 3 = [5, 3] := by decide

/-! ## the id lists under store updates -/

theorem asc_filter {l : List Nat} (h : Asc l) (q : Nat → Bool) : Asc (l.filter q) := List.Pairwise.filter _ h

theorem asc_append {l : List Nat} (h : Asc l) (k : Nat) (hk : ∀ x ∈ l, x < k) : Asc (l ++ [k]) := by
  unfold Asc
  rw [List.pairwise_append]
  refine ⟨h, by simp, ?_⟩
  intro a ha b hb
  simp at hb; subst hb; exact hk a ha

theorem asc_uniq {α} (key : α → Nat) {l : List α} (h : Asc (l.map key)) : Uniq key l := by
  unfold Asc at h
  rw [List.pairwise_map] at h
  exact h.imp (fun hab => Nat.ne_of_lt hab)

theorem map_filter_comm {α} (key : α → Nat) (q : Nat → Bool) (l : List α) : (l.filter fun x => q (key x)).map key = (l.map key).filter q := by
  induction l with
  | nil => rfl
  | cons a l ih =>
    by_cases h : q (key a) = true
    · simp [h, ih]
    · simp [h, ih]

/-- the id list of a sub-population is ascending when the whole store is -/
theorem asc_lendIdsOf {ls : List Lend} (h : Asc (ls.map (·.id))) (p a : Nat) : Asc (lendIdsOf ls p a) := by
  unfold lendIdsOf
  have : List.Sublist ((ls.filter fun l => l.pool == p && l.asset == a).map (·.id)) (ls.map (·.id)) :=
    List.Sublist.map _ List.filter_sublist
  exact List.Pairwise.sublist this h

theorem asc_borrowIdsOf {cfg : Cfg} {bs : List Borrow} (h : Asc (bs.map (·.id))) (p a : Nat) : Asc (borrowIdsOf cfg bs p a) := by
  unfold borrowIdsOf
  have : List.Sublist ((bs.filter fun b => cfg.pairOut b.pairId == some (p, a)).map (·.id)) (bs.map (·.id)) :=
    List.Sublist.map _ List.filter_sublist
  exact List.Pairwise.sublist this h

theorem setLend_ids (ls : List Lend) (v : Lend) : (setLend ls v).map (·.id) = ls.map (·.id) := by
  unfold setLend
  rw [List.map_map]
  apply List.map_congr_left
  intro x _
  by_cases h : x.id = v.id <;> simp [h]

theorem setBorrow_ids (bs : List Borrow) (v : Borrow) : (setBorrow bs v).map (·.id) = bs.map (·.id) := by
  unfold setBorrow
  rw [List.map_map]
  apply List.map_congr_left
  intro x _
  by_cases h : x.id = v.id <;> simp [h]

theorem uniq_eq {α} (key : α → Nat) {l : List α} (hu : Uniq key l) {x y : α} (hx : x ∈ l) (hy : y ∈ l) (h : key x = key y) : x = y := by
  induction l with
  | nil => cases hx
  | cons a l ih =>
    rcases List.mem_cons.mp hx with rfl | hx' <;> rcases List.mem_cons.mp hy with rfl | hy'
    · rfl
    · exact absurd h (hu.head y hy')
    · exact absurd h.symm (hu.head x hx')
    · exact ih hu.tail hx' hy'

theorem lendIdsOf_set_aux (ls : List Lend) (l' : Lend) (p a : Nat)
    (hsame : ∀ x ∈ ls, x.id = l'.id → x.pool = l'.pool ∧ x.asset = l'.asset) : lendIdsOf (setLend ls l') p a = lendIdsOf ls p a := by
  induction ls with
  | nil => rfl
  | cons x ls ih =>
    have ih' := ih (fun y hy => hsame y (by simp [hy]))
    unfold lendIdsOf setLend at *
    by_cases hx : x.id = l'.id
    · obtain ⟨h1, h2⟩ := hsame x (by simp) hx
      simp only [List.map_cons, hx, if_true, List.filter_cons, h1, h2]
      split <;> simp [ih', hx]
    · simp only [List.map_cons, hx, if_false, List.filter_cons]
      split <;> simp [ih']

/-- replacing a record by one with the same id, pool and asset changes no id list -/
theorem lendIdsOf_set (ls : List Lend) (l l' : Lend) (hu : Uniq lid ls) (hg : getLend ls l.id = some l) (hid : l'.id = l.id)
    (hp : l'.pool = l.pool) (ha : l'.asset = l.asset) (p a : Nat) : lendIdsOf (setLend ls l') p a = lendIdsOf ls p a := by
  obtain ⟨hm, _⟩ := getLend_mem hg
  apply lendIdsOf_set_aux
  intro x hx hxid
  have : x = l := uniq_eq lid hu hx hm (by simp [lid, hxid, hid])
  subst this
  exact ⟨hp.symm, ha.symm⟩

theorem borrowIdsOf_set_aux (cfg : Cfg) (bs : List Borrow) (b' : Borrow) (p a : Nat)
    (hsame : ∀ x ∈ bs, x.id = b'.id → x.pairId = b'.pairId) : borrowIdsOf cfg (setBorrow bs b') p a = borrowIdsOf cfg bs p a := by
  induction bs with
  | nil => rfl
  | cons x bs ih =>
    have ih' := ih (fun y hy => hsame y (by simp [hy]))
    unfold borrowIdsOf setBorrow at *
    by_cases hx : x.id = b'.id
    · have h1 := hsame x (by simp) hx
      simp only [List.map_cons, hx, if_true, List.filter_cons, h1]
      split <;> simp [ih', hx]
    · simp only [List.map_cons, hx, if_false, List.filter_cons]
      split <;> simp [ih']

theorem borrowIdsOf_set (cfg : Cfg) (bs : List Borrow) (b b' : Borrow) (hu : Uniq bid bs) (hg : getBorrow bs b.id = some b) (hid : b'.id = b.id)
    (hp : b'.pairId = b.pairId) (p a : Nat) : borrowIdsOf cfg (setBorrow bs b') p a = borrowIdsOf cfg bs p a := by
  obtain ⟨hm, _⟩ := getBorrow_mem hg
  apply borrowIdsOf_set_aux
  intro x hx hxid
  have : x = b := uniq_eq bid hu hx hm (by simp [bid, hxid, hid])
  subst this
  exact hp.symm

theorem lendIdsOf_append (ls : List Lend) (l : Lend) (p a : Nat) :
    lendIdsOf (ls ++ [l]) p a = lendIdsOf ls p a ++ (if l.pool = p ∧ l.asset = a then [l.id] else []) := by
  unfold lendIdsOf
  rw [List.filter_append, List.map_append]
  by_cases h : l.pool = p ∧ l.asset = a
  · simp [h.1, h.2]
  · have : (l.pool == p && l.asset == a) = false := by
      cases hp : l.pool == p <;> cases ha : l.asset == a <;> simp_all
    simp [this, h]

theorem borrowIdsOf_append (cfg : Cfg) (bs : List Borrow) (b : Borrow) (p a : Nat) :
    borrowIdsOf cfg (bs ++ [b]) p a = borrowIdsOf cfg bs p a ++ (if cfg.pairOut b.pairId = some (p, a) then [b.id] else []) := by
  unfold borrowIdsOf
  rw [List.filter_append, List.map_append]
  by_cases h : cfg.pairOut b.pairId = some (p, a)
  · simp [h]
  · simp [h]

theorem lendIdsOf_del (ls : List Lend) (k p a : Nat) : lendIdsOf (delLend ls k) p a = (lendIdsOf ls p a).filter (· != k) := by
  unfold lendIdsOf delLend
  rw [← map_filter_comm (fun l : Lend => l.id) (· != k), List.filter_filter, List.filter_filter]
  congr 1
  apply List.filter_congr
  intro x _
  exact Bool.and_comm _ _

theorem borrowIdsOf_del (cfg : Cfg) (bs : List Borrow) (k p a : Nat) :
    borrowIdsOf cfg (delBorrow bs k) p a = (borrowIdsOf cfg bs p a).filter (· != k) := by
  unfold borrowIdsOf delBorrow
  rw [← map_filter_comm (fun b : Borrow => b.id) (· != k), List.filter_filter, List.filter_filter]
  congr 1
  apply List.filter_congr
  intro x _
  exact Bool.and_comm _ _

/-- an id that is not in the list: filtering it out changes nothing -/
theorem filter_ne_self (l : List Nat) (k : Nat) (h : k ∉ l) : l.filter (· != k) = l := by
  apply List.filter_eq_self.mpr
  intro x hx
  simp only [bne_iff_ne, ne_eq]
  intro e; subst e; exact h hx

theorem mem_lendIdsOf {ls : List Lend} {p a k : Nat} (h : k ∈ lendIdsOf ls p a) : ∃ l ∈ ls, l.id = k ∧ l.pool = p ∧ l.asset = a := by
  unfold lendIdsOf at h
  obtain ⟨l, hl, rfl⟩ := List.mem_map.mp h
  obtain ⟨hm, hc⟩ := List.mem_filter.mp hl
  simp only [Bool.and_eq_true, beq_iff_eq] at hc
  exact ⟨l, hm, rfl, hc.1, hc.2⟩

theorem mem_borrowIdsOf {cfg : Cfg} {bs : List Borrow} {p a k : Nat} (h : k ∈ borrowIdsOf cfg bs p a) :
    ∃ b ∈ bs, b.id = k ∧ cfg.pairOut b.pairId = some (p, a) := by
  unfold borrowIdsOf at h
  obtain ⟨b, hb, rfl⟩ := List.mem_map.mp h
  obtain ⟨hm, hc⟩ := List.mem_filter.mp hb
  exact ⟨b, hm, rfl, by simpa using hc⟩

/-! ## The invariant -/

/-- every pool-asset record lists exactly the ids of its live positions, in store order -/
def IdsL (cfg : Cfg) (ls : List Lend) (bs : List Borrow) (ss : List Stats) : Prop :=
  ∀ st ∈ ss, st.lendIds = lendIdsOf ls st.pool st.asset ∧ st.borrowIds = borrowIdsOf cfg bs st.pool st.asset

/-- ids ascend in both stores (so every id list ascends and the binary-search removal is exact), and the lists are right -/
structure IdsC (cfg : Cfg) (ls : List Lend) (bs : List Borrow) (ss : List Stats) : Prop where
  la : Asc (ls.map (·.id))
  ba : Asc (bs.map (·.id))
  ok : IdsL cfg ls bs ss
  /-- every lend position has the record of its pool and asset -/
  lr : ∀ l ∈ ls, ∃ st ∈ ss, st.pool = l.pool ∧ st.asset = l.asset
  /-- every borrow has the record of its pair's out pool and asset -/
  br : ∀ b ∈ bs, ∃ p a, cfg.pairOut b.pairId = some (p, a) ∧ ∃ st ∈ ss, st.pool = p ∧ st.asset = a

theorem rec_mod {ss : List Stats} (p a : Nat) {f : Stats → Stats} (hk : ∀ st, (f st).pool = st.pool ∧ (f st).asset = st.asset) {P A : Nat}
    (h : ∃ st ∈ ss, st.pool = P ∧ st.asset = A) : ∃ st ∈ modStats ss p a f, st.pool = P ∧ st.asset = A := by
  obtain ⟨st, hst, h1, h2⟩ := h
  refine ⟨if st.pool = p ∧ st.asset = a then f st else st, ?_, ?_⟩
  · unfold modStats; exact List.mem_map.mpr ⟨st, hst, rfl⟩
  · by_cases hc : st.pool = p ∧ st.asset = a
    · rw [if_pos hc, (hk st).1, (hk st).2]; exact ⟨h1, h2⟩
    · rw [if_neg hc]; exact ⟨h1, h2⟩

theorem getStats_mem {ss : List Stats} {p a : Nat} {st : Stats} (h : getStats ss p a = some st) : st ∈ ss ∧ st.pool = p ∧ st.asset = a := by
  unfold getStats at h
  have h1 := List.find?_some h
  simp only [Bool.and_eq_true, beq_iff_eq] at h1
  exact ⟨List.mem_of_find?_eq_some h, h1.1, h1.2⟩

/-- a stats modifier that keeps the key and both id lists (the totals updates) -/
def KeepIds (f : Stats → Stats) : Prop := ∀ st, (f st).pool = st.pool ∧ (f st).asset = st.asset ∧ (f st).lendIds = st.lendIds ∧ (f st).borrowIds = st.borrowIds

section transitions
variable {cfg : Cfg} {ls : List Lend} {bs : List Borrow} {ss : List Stats}

/-- I1: a totals update -/
theorem ids_stats (h : IdsC cfg ls bs ss) (p a : Nat) {f : Stats → Stats} (hf : KeepIds f) : IdsC cfg ls bs (modStats ss p a f) := by
  have hk : ∀ st, (f st).pool = st.pool ∧ (f st).asset = st.asset := fun st => ⟨(hf st).1, (hf st).2.1⟩
  refine { h with ok := ?_, lr := fun l hl => rec_mod p a hk (h.lr l hl),
                  br := fun b hb => by obtain ⟨P, A, e, r⟩ := h.br b hb; exact ⟨P, A, e, rec_mod p a hk r⟩ }
  intro st hst
  obtain ⟨s0, hs0, rfl⟩ := mem_modStats hst
  have := h.ok s0 hs0
  by_cases hc : s0.pool = p ∧ s0.asset = a
  · rw [if_pos hc]
    obtain ⟨h1, h2, h3, h4⟩ := hf s0
    rw [h1, h2, h3, h4]; exact this
  · rw [if_neg hc]; exact this

theorem ids_addTotalLend (h : IdsC cfg ls bs ss) (p a : Nat) (d : Int) : IdsC cfg ls bs (addTotalLend ss p a d) :=
  ids_stats h p a (fun _ => ⟨rfl, rfl, rfl, rfl⟩)
theorem ids_addTotalInterest (h : IdsC cfg ls bs ss) (p a : Nat) (d : Int) : IdsC cfg ls bs (addTotalInterest ss p a d) :=
  ids_stats h p a (fun _ => ⟨rfl, rfl, rfl, rfl⟩)
theorem ids_addBorrowed (h : IdsC cfg ls bs ss) (p a : Nat) (sb : Bool) (d : Int) : IdsC cfg ls bs (addBorrowed ss p a sb d) :=
  ids_stats h p a (fun _ => by cases sb <;> exact ⟨rfl, rfl, rfl, rfl⟩)

/-- I2: a lend record is replaced (same id, pool, asset) -/
theorem ids_setLend (h : IdsC cfg ls bs ss) {l l' : Lend} (hg : getLend ls l.id = some l) (hid : l'.id = l.id)
    (hp : l'.pool = l.pool) (ha : l'.asset = l.asset) : IdsC cfg (setLend ls l') bs ss := by
  have hu : Uniq lid ls := asc_uniq (fun l : Lend => l.id) h.la
  refine { la := by rw [setLend_ids]; exact h.la, ba := h.ba, ok := ?_, lr := ?_, br := h.br }
  · intro st hst
    rw [lendIdsOf_set ls l l' hu hg hid hp ha]
    exact h.ok st hst
  · intro x hx
    rcases mem_put lid ls l' x hx with rfl | ⟨hx', _⟩
    · rw [hp, ha]; exact h.lr l (getLend_mem hg).1
    · exact h.lr x hx'

/-- I3: a borrow record is replaced (same id, pair) -/
theorem ids_setBorrow (h : IdsC cfg ls bs ss) {b b' : Borrow} (hg : getBorrow bs b.id = some b) (hid : b'.id = b.id)
    (hp : b'.pairId = b.pairId) : IdsC cfg ls (setBorrow bs b') ss := by
  have hu : Uniq bid bs := asc_uniq (fun b : Borrow => b.id) h.ba
  refine { la := h.la, ba := by rw [setBorrow_ids]; exact h.ba, ok := ?_, lr := h.lr, br := ?_ }
  · intro st hst
    rw [borrowIdsOf_set cfg bs b b' hu hg hid hp]
    exact h.ok st hst
  · intro x hx
    rcases mem_put bid bs b' x hx with rfl | ⟨hx', _⟩
    · rw [hp]; exact h.br b (getBorrow_mem hg).1
    · exact h.br x hx'

/-- I4: a fresh lend position, its id appended to the list of its pool and asset -/
theorem ids_lendNew (h : IdsC cfg ls bs ss) (l : Lend) (hid : ∀ x ∈ ls, x.id < l.id) (hr : ∃ st ∈ ss, st.pool = l.pool ∧ st.asset = l.asset) :
    IdsC cfg (ls ++ [l]) bs (addLendId ss l.pool l.asset l.id) := by
  have hk : ∀ st : Stats, ({ st with lendIds := st.lendIds ++ [l.id] } : Stats).pool = st.pool ∧
      ({ st with lendIds := st.lendIds ++ [l.id] } : Stats).asset = st.asset := fun _ => ⟨rfl, rfl⟩
  refine { la := ?_, ba := h.ba, ok := ?_, lr := ?_, br := fun b hb => by obtain ⟨P, A, e, r⟩ := h.br b hb; exact ⟨P, A, e, rec_mod _ _ hk r⟩ }
  · rw [List.map_append]
    exact asc_append h.la l.id (fun x hx => by obtain ⟨y, hy, rfl⟩ := List.mem_map.mp hx; exact hid y hy)
  rotate_left
  · intro x hx
    rcases List.mem_append.mp hx with hx | hx
    · exact rec_mod _ _ hk (h.lr x hx)
    · simp at hx; subst hx; exact rec_mod _ _ hk hr
  · intro st hst
    obtain ⟨s0, hs0, rfl⟩ := mem_modStats hst
    obtain ⟨h1, h2⟩ := h.ok s0 hs0
    by_cases hc : s0.pool = l.pool ∧ s0.asset = l.asset
    · rw [if_pos hc]
      refine ⟨?_, h2⟩
      show s0.lendIds ++ [l.id] = lendIdsOf (ls ++ [l]) s0.pool s0.asset
      have hc' : l.pool = s0.pool ∧ l.asset = s0.asset := ⟨hc.1.symm, hc.2.symm⟩
      rw [lendIdsOf_append, h1, if_pos hc']
    · rw [if_neg hc]
      refine ⟨?_, h2⟩
      have hc' : ¬ (l.pool = s0.pool ∧ l.asset = s0.asset) := fun e => hc ⟨e.1.symm, e.2.symm⟩
      rw [lendIdsOf_append, h1]; simp [hc']

/-- I5: a lend position is deleted, its id removed (by binary search) from the list of its pool and asset -/
theorem ids_lendDel (h : IdsC cfg ls bs ss) {l : Lend} (hg : getLend ls l.id = some l) :
    IdsC cfg (delLend ls l.id) bs (delLendId ss l.pool l.asset l.id) := by
  have hu : Uniq lid ls := asc_uniq (fun l : Lend => l.id) h.la
  obtain ⟨hm, _⟩ := getLend_mem hg
  have hk : ∀ st : Stats, ({ st with lendIds := delId st.lendIds l.id } : Stats).pool = st.pool ∧
      ({ st with lendIds := delId st.lendIds l.id } : Stats).asset = st.asset := fun _ => ⟨rfl, rfl⟩
  refine { la := ?_, ba := h.ba, ok := ?_, lr := fun x hx => rec_mod _ _ hk (h.lr x (mem_del lid ls l.id x hx).1),
           br := fun b hb => by obtain ⟨P, A, e, r⟩ := h.br b hb; exact ⟨P, A, e, rec_mod _ _ hk r⟩ }
  · have : (delLend ls l.id).map (·.id) = (ls.map (·.id)).filter (· != l.id) := by
      unfold delLend; exact map_filter_comm (fun l : Lend => l.id) (· != l.id) ls
    rw [this]; exact asc_filter h.la _
  · intro st hst
    obtain ⟨s0, hs0, rfl⟩ := mem_modStats hst
    obtain ⟨h1, h2⟩ := h.ok s0 hs0
    by_cases hc : s0.pool = l.pool ∧ s0.asset = l.asset
    · rw [if_pos hc]
      refine ⟨?_, h2⟩
      show delId s0.lendIds l.id = lendIdsOf (delLend ls l.id) s0.pool s0.asset
      rw [h1, delId_eq_filter _ (asc_lendIdsOf h.la _ _), lendIdsOf_del]
    · rw [if_neg hc]
      refine ⟨?_, h2⟩
      rw [lendIdsOf_del, h1]
      symm
      apply filter_ne_self
      intro hk
      obtain ⟨x, hx, hxid, hxp, hxa⟩ := mem_lendIdsOf hk
      have : x = l := uniq_eq lid hu hx hm (by simp [lid, hxid])
      subst this
      exact hc ⟨hxp.symm, hxa.symm⟩

/-- I6: a fresh borrow, its id appended to the list of the pair's out pool and asset -/
theorem ids_borrowNew (h : IdsC cfg ls bs ss) (b : Borrow) {p a : Nat} (hp : cfg.pairOut b.pairId = some (p, a)) (hid : ∀ x ∈ bs, x.id < b.id)
    (hr : ∃ st ∈ ss, st.pool = p ∧ st.asset = a) : IdsC cfg ls (bs ++ [b]) (addBorrowId ss p a b.id) := by
  have hk : ∀ st : Stats, ({ st with borrowIds := st.borrowIds ++ [b.id] } : Stats).pool = st.pool ∧
      ({ st with borrowIds := st.borrowIds ++ [b.id] } : Stats).asset = st.asset := fun _ => ⟨rfl, rfl⟩
  refine { la := h.la, ba := ?_, ok := ?_, lr := fun x hx => rec_mod _ _ hk (h.lr x hx), br := ?_ }
  · rw [List.map_append]
    exact asc_append h.ba b.id (fun x hx => by obtain ⟨y, hy, rfl⟩ := List.mem_map.mp hx; exact hid y hy)
  rotate_left
  · intro x hx
    rcases List.mem_append.mp hx with hx | hx
    · obtain ⟨P, A, e, r⟩ := h.br x hx; exact ⟨P, A, e, rec_mod _ _ hk r⟩
    · simp at hx; subst hx; exact ⟨p, a, hp, rec_mod _ _ hk hr⟩
  · intro st hst
    obtain ⟨s0, hs0, rfl⟩ := mem_modStats hst
    obtain ⟨h1, h2⟩ := h.ok s0 hs0
    by_cases hc : s0.pool = p ∧ s0.asset = a
    · rw [if_pos hc]
      refine ⟨h1, ?_⟩
      show s0.borrowIds ++ [b.id] = borrowIdsOf cfg (bs ++ [b]) s0.pool s0.asset
      have hc' : cfg.pairOut b.pairId = some (s0.pool, s0.asset) := by rw [hp, hc.1, hc.2]
      rw [borrowIdsOf_append, h2, if_pos hc']
    · rw [if_neg hc]
      refine ⟨h1, ?_⟩
      have hc' : ¬ (some (p, a) = some (s0.pool, s0.asset)) := by
        intro e; injection e with e; injection e with e1 e2; exact hc ⟨e1.symm, e2.symm⟩
      rw [borrowIdsOf_append, h2, hp]; simp [hc']

/-- I7: a borrow is deleted, its id removed (by binary search) from the list of the pair's out pool and asset -/
theorem ids_borrowDel (h : IdsC cfg ls bs ss) {b : Borrow} {p a : Nat} (hg : getBorrow bs b.id = some b) (hp : cfg.pairOut b.pairId = some (p, a)) :
    IdsC cfg ls (delBorrow bs b.id) (delBorrowId ss p a b.id) := by
  have hu : Uniq bid bs := asc_uniq (fun b : Borrow => b.id) h.ba
  obtain ⟨hm, _⟩ := getBorrow_mem hg
  have hk : ∀ st : Stats, ({ st with borrowIds := delId st.borrowIds b.id } : Stats).pool = st.pool ∧
      ({ st with borrowIds := delId st.borrowIds b.id } : Stats).asset = st.asset := fun _ => ⟨rfl, rfl⟩
  refine { la := h.la, ba := ?_, ok := ?_, lr := fun x hx => rec_mod _ _ hk (h.lr x hx),
           br := fun x hx => by obtain ⟨P, A, e, r⟩ := h.br x (mem_del bid bs b.id x hx).1; exact ⟨P, A, e, rec_mod _ _ hk r⟩ }
  · have : (delBorrow bs b.id).map (·.id) = (bs.map (·.id)).filter (· != b.id) := by
      unfold delBorrow; exact map_filter_comm (fun b : Borrow => b.id) (· != b.id) bs
    rw [this]; exact asc_filter h.ba _
  · intro st hst
    obtain ⟨s0, hs0, rfl⟩ := mem_modStats hst
    obtain ⟨h1, h2⟩ := h.ok s0 hs0
    by_cases hc : s0.pool = p ∧ s0.asset = a
    · rw [if_pos hc]
      refine ⟨h1, ?_⟩
      show delId s0.borrowIds b.id = borrowIdsOf cfg (delBorrow bs b.id) s0.pool s0.asset
      rw [h2, delId_eq_filter _ (asc_borrowIdsOf h.ba _ _), borrowIdsOf_del]
    · rw [if_neg hc]
      refine ⟨h1, ?_⟩
      rw [borrowIdsOf_del, h2]
      symm
      apply filter_ne_self
      intro hk
      obtain ⟨x, hx, hxid, hxp⟩ := mem_borrowIdsOf hk
      have : x = b := uniq_eq bid hu hx hm (by simp [bid, hxid])
      subst this
      rw [hp] at hxp
      injection hxp with e; injection e with e1 e2
      exact hc ⟨e1.symm, e2.symm⟩

end transitions

/-! ## Every handler preserves the id-list invariant -/

def IdsS (cfg : Cfg) (s : State) : Prop := IdsC cfg s.lends s.borrows s.stats

theorem lt_of_ll {cfg : Cfg} {s : State} (c : CoreS cfg s) : ∀ x ∈ s.lends, x.id < s.lendCtr + 1 := fun x hx => by
  have := c.ll x hx; omega
theorem lt_of_bl {cfg : Cfg} {s : State} (c : CoreS cfg s) : ∀ x ∈ s.borrows, x.id < s.borrowCtr + 1 := fun x hx => by
  have := c.bl x hx; omega

theorem iterLends_ids {cfg : Cfg} {s s' : State} {k : Nat} {r : Int} (h : iterLends cfg s k r = .ok s') (i : IdsS cfg s) : IdsS cfg s' := by
  unfold iterLends at h
  invert h
  · exact ids_addTotalLend (ids_setLend i (getLend_id ‹getLend s.lends k = some _›) (by rfl) (by rfl) (by rfl)) _ _ _
  · exact ids_addTotalLend (ids_addTotalInterest (ids_setLend i (getLend_id ‹getLend s.lends k = some _›) (by rfl) (by rfl) (by rfl)) _ _ _) _ _ _
  · exact i

theorem deposit_ids {cfg : Cfg} {s s' : State} {u k d : Nat} {amt r : Int} (h : deposit cfg s u k d amt r = .ok s') (i : IdsS cfg s) : IdsS cfg s' := by
  unfold deposit at h
  invert h
  have i1 := iterLends_ids ‹iterLends cfg s k r = .ok _› i
  exact ids_addTotalLend (ids_setLend i1 (getLend_id (by assumption)) (by rfl) (by rfl) (by rfl)) _ _ _

theorem lendNew_ids {cfg : Cfg} {s s' : State} {u a : Nat} {amt : Int} {pool : PoolCfg} {app : Nat} (h : lendNew cfg s u a amt pool app = .ok s')
    (c : CoreS cfg s) (i : IdsS cfg s) : IdsS cfg s' := by
  unfold lendNew at h
  invert h
  have hst := getStats_mem ‹getStats s.stats pool.id a = some _›
  exact ids_lendNew (ids_addTotalLend i _ _ _) { id := s.lendCtr + 1, owner := u, pool := pool.id, asset := a, amountIn := amt, avail := amt, app := app }
    (lt_of_ll c) (by unfold addTotalLend; refine rec_mod _ _ ?_ ⟨_, hst.1, hst.2.1, hst.2.2⟩; intro _; exact ⟨rfl, rfl⟩)

theorem lend_ids {cfg : Cfg} {s s' : State} {u a d : Nat} {amt : Int} {p app : Nat} {r : Int} (h : lend cfg s u a d amt p app r = .ok s')
    (c : CoreS cfg s) (i : IdsS cfg s) : IdsS cfg s' := by
  unfold lend at h
  invert h
  · exact deposit_ids (by assumption) i
  · exact lendNew_ids (by assumption) c i

theorem closeLend_ids {cfg : Cfg} {s s' : State} {u k : Nat} {r : Int} (h : closeLend cfg s u k r = .ok s') (i : IdsS cfg s) : IdsS cfg s' := by
  unfold closeLend at h
  invert h
  have i1 := iterLends_ids ‹iterLends cfg s k r = .ok _› i
  have hg := ‹getLend _ k = some _›
  have hk := (getLend_mem hg).2
  subst hk
  exact ids_lendDel (ids_addTotalLend i1 _ _ _) (getLend_id hg)

theorem withdraw_ids {cfg : Cfg} {s s' : State} {u k d : Nat} {w r : Int} (h : withdraw cfg s u k d w r = .ok s') (i : IdsS cfg s) : IdsS cfg s' := by
  unfold withdraw at h
  invert h
  · exact closeLend_ids (by assumption) i
  · have i1 := iterLends_ids ‹iterLends cfg s k r = .ok _› i
    exact ids_addTotalLend (ids_setLend i1 (getLend_id (by assumption)) (by split <;> rfl) (by split <;> rfl) (by split <;> rfl)) _ _ _

theorem iterBorrow_ids {cfg : Cfg} {s s1 : State} {k : Nat} {x : ExtB} (h : iterBorrow s k x = .ok s1) (i : IdsS cfg s) : IdsS cfg s1 := by
  unfold iterBorrow at h
  split at h
  · cases h
  · cases h
  · split at h
    · cases h
    · cases h
      rename_i hb
      exact ids_setBorrow i (getBorrow_id hb) (by rfl) (by rfl)

theorem draw_ids {cfg : Cfg} {s s' : State} {u k d : Nat} {y : Int} {ext : ExtB} (h : draw cfg s u k d y ext = .ok s') (i : IdsS cfg s) : IdsS cfg s' := by
  unfold draw at h
  invert h
  have hit := ‹iterBorrow s k ext = .ok _›
  have hb1 := after_iterBorrow hit (by assumption)
  exact ids_addBorrowed (ids_setBorrow (iterBorrow_ids hit i) (getBorrow_id hb1) (by rfl) (by rfl)) _ _ _ _

theorem depositBorrow_ids {cfg : Cfg} {s s' : State} {u k d : Nat} {x : Int} {ext : ExtB} (h : depositBorrow cfg s u k d x ext = .ok s')
    (i : IdsS cfg s) : IdsS cfg s' := by
  unfold depositBorrow at h
  invert h
  all_goals
    have hb0 := ‹getBorrow s.borrows k = some _›
    have hit := ‹iterBorrow s k ext = .ok _›
    have hb1 := after_iterBorrow hit (by assumption)
    obtain ⟨hls, hq, hl, hpi, hs, hai, hao, hid⟩ := iterBorrow_rel hit hb0 hb1
    have hgl := ‹getLend s.lends _ = some _›
    rw [← hls] at hgl
    exact ids_setBorrow (ids_setLend (iterBorrow_ids hit i) (getLend_id hgl) (by rfl) (by rfl) (by rfl)) (getBorrow_id hb1) (by rfl) (by rfl)

theorem openBorrow_ids {cfg : Cfg} {s : State} {l : Lend} {pair : PairCfg} {stable : Bool} {dIn : Nat} {aIn : Int} {dOut : Nat} {aOut : Int}
    {brd : Nat} {br : Int} {bank : Bank} (hgl : getLend s.lends l.id = some l) (hp : cfg.pair? pair.id = some pair)
    {st0 : Stats} (hst : getStats s.stats pair.outPool pair.assetOut = some st0)
    (c : CoreS cfg s) (i : IdsS cfg s) : IdsS cfg (openBorrow s l pair stable dIn aIn dOut aOut brd br bank) := by
  unfold openBorrow
  have hm := getStats_mem hst
  exact ids_borrowNew (ids_addBorrowed (ids_setLend i hgl (by rfl) (by rfl) (by rfl)) _ _ _ _)
    { id := s.borrowCtr + 1, lendingId := l.id, pairId := pair.id, inDenom := dIn, amountIn := aIn, outDenom := dOut, amountOut := aOut,
      interest := 0, stable := stable, liq := false, brDenom := brd, bridged := br, reserveInt := 0 }
    (pairOut_of_pair hp) (lt_of_bl c)
    (by unfold addBorrowed; refine rec_mod _ _ ?_ ⟨_, hm.1, hm.2.1, hm.2.2⟩; intro _; cases stable <;> exact ⟨rfl, rfl⟩)

theorem borrowNew_ids {cfg : Cfg} {s s' : State} {u : Nat} {l : Lend} {pair : PairCfg} {rates : RatesCfg} {stable : Bool} {dIn : Nat} {aIn : Int}
    {dOut : Nat} {aOut : Int} (hgl : getLend s.lends l.id = some l) (hp : cfg.pair? pair.id = some pair)
    (h : borrowNew cfg s u l pair rates stable dIn aIn dOut aOut = .ok s') (c : CoreS cfg s) (i : IdsS cfg s) : IdsS cfg s' := by
  unfold borrowNew at h
  invert h
  all_goals exact openBorrow_ids hgl hp ‹getStats s.stats pair.outPool pair.assetOut = some _› c i

theorem borrow_ids {cfg : Cfg} {s s' : State} {u k pid : Nat} {stable : Bool} {dIn : Nat} {aIn : Int} {dOut : Nat} {aOut : Int} {e1 e2 : ExtB}
    (h : borrow cfg s u k pid stable dIn aIn dOut aOut e1 e2 = .ok s') (c : CoreS cfg s) (i : IdsS cfg s) : IdsS cfg s' := by
  unfold borrow at h
  invert h
  · exact draw_ids (by assumption) (depositBorrow_ids (by assumption) i)
  · have hp := ‹cfg.pair? pid = some _›
    have := pair_id hp
    exact borrowNew_ids (getLend_id ‹getLend s.lends k = some _›) (by rw [this]; exact hp) (by assumption) c i

theorem borrowAlternate_ids {cfg : Cfg} {s s' : State} {u a p d : Nat} {amt : Int} {pid : Nat} {stable : Bool} {dOut : Nat} {aOut : Int}
    {app : Nat} {r : Int} {e1 e2 : ExtB} (h : borrowAlternate cfg s u a p d amt pid stable dOut aOut app r e1 e2 = .ok s')
    (c : CoreS cfg s) (i : IdsS cfg s) : IdsS cfg s' := by
  unfold borrowAlternate at h
  invert h
  · exact borrow_ids (by assumption) ((deposit_pres ‹deposit cfg s u _ d amt r = .ok _›).1 c) (deposit_ids (by assumption) i)
  · exact borrow_ids (by assumption) ((lendNew_pres ‹lendNew cfg s u a amt _ app = .ok _›).1 c) (lendNew_ids (by assumption) c i)

theorem closeBorrow_ids {cfg : Cfg} {s s' : State} {u k : Nat} {ext : ExtB} (h : closeBorrow cfg s u k ext = .ok s') (i : IdsS cfg s) : IdsS cfg s' := by
  unfold closeBorrow at h
  invert h
  all_goals
    have hb0 := ‹getBorrow s.borrows k = some _›
    have hit := ‹iterBorrow s k ext = .ok _›
    have hb1 := after_iterBorrow hit (by assumption)
    obtain ⟨hls, hq, hl, hpi, hs, hai, hao, hid⟩ := iterBorrow_rel hit hb0 hb1
    have hgl := ‹getLend s.lends _ = some _›
    rw [← hls] at hgl
    have hp := ‹cfg.pair? _ = some _›
    rw [← hpi] at hp
    have hk := (getBorrow_mem hb1).2
    subst hk
    have i1 := iterBorrow_ids (cfg := cfg) hit i
    first
    | exact ids_borrowDel (ids_addBorrowed (ids_addTotalInterest (ids_setLend i1 (getLend_id hgl) (by rfl) (by rfl) (by rfl)) _ _ _) _ _ _ _)
        (getBorrow_id hb1) (pairOut_of_pair hp)
    | exact ids_borrowDel (ids_addBorrowed (ids_setLend i1 (getLend_id hgl) (by rfl) (by rfl) (by rfl)) _ _ _ _)
        (getBorrow_id hb1) (pairOut_of_pair hp)

theorem repay_ids {cfg : Cfg} {s s' : State} {u k d : Nat} {p : Int} {ext : ExtB} (h : repay cfg s u k d p ext = .ok s') (i : IdsS cfg s) : IdsS cfg s' := by
  unfold repay at h
  invert h
  · exact closeBorrow_ids (by assumption) i
  all_goals
    have hit := ‹iterBorrow s k ext = .ok _›
    have hb1 := after_iterBorrow hit (by assumption)
    have i1 := iterBorrow_ids (cfg := cfg) hit i
    first
    | exact ids_setBorrow i1 (getBorrow_id hb1) (by rfl) (by rfl)
    | exact ids_setBorrow (ids_addTotalInterest i1 _ _ _) (getBorrow_id hb1) (by rfl) (by rfl)
    | exact ids_setBorrow (ids_addBorrowed (ids_addTotalInterest i1 _ _ _) _ _ _ _) (getBorrow_id hb1) (by rfl) (by rfl)
    | exact ids_setBorrow (ids_addBorrowed i1 _ _ _ _) (getBorrow_id hb1) (by rfl) (by rfl)

theorem repayWithdraw_ids {cfg : Cfg} {s s' : State} {u k : Nat} {ext : ExtB} {r : Int} (h : repayWithdraw cfg s u k ext r = .ok s')
    (i : IdsS cfg s) : IdsS cfg s' := by
  unfold repayWithdraw at h
  invert h
  exact withdraw_ids (by assumption) (closeBorrow_ids (by assumption) i)

theorem calcBorrows_ids {cfg : Cfg} {u : Nat} (l : List (Nat × ExtB)) {s s' : State} (h : calcBorrows s u l = .ok s') (i : IdsS cfg s) : IdsS cfg s' := by
  induction l generalizing s with
  | nil => simp only [calcBorrows, Except.ok.injEq] at h; subst h; exact i
  | cons x l ih =>
    obtain ⟨k, ext⟩ := x
    simp only [calcBorrows] at h
    split at h
    · rename_i s1 hc
      refine ih h ?_
      unfold calcBorrow at hc
      invert hc
      exact iterBorrow_ids (by assumption) i
    · split at h
      · cases h
      · exact ih h i

theorem calcLends_ids {cfg : Cfg} {u : Nat} (l : List (Nat × Int)) {s s' : State} (h : calcLends cfg s u l = .ok s') (i : IdsS cfg s) : IdsS cfg s' := by
  induction l generalizing s with
  | nil => simp only [calcLends, Except.ok.injEq] at h; subst h; exact i
  | cons x l ih =>
    obtain ⟨k, r⟩ := x
    simp only [calcLends] at h
    invert h
    exact ih (by assumption) (iterLends_ids (by assumption) i)

theorem calcMsg_ids {cfg : Cfg} {s s' : State} {u : Nat} {bs : List (Nat × ExtB)} {ls : List (Nat × Int)}
    (h : calcMsg cfg s u bs ls = .ok s') (i : IdsS cfg s) : IdsS cfg s' := by
  unfold calcMsg at h
  invert h
  exact calcLends_ids _ (by assumption) (calcBorrows_ids _ (by assumption) i)

theorem handover_ids {cfg : Cfg} {s s' : State} {k : Nat} {ni : Dec} (h : handover cfg s k ni = .ok s') (i : IdsS cfg s) : IdsS cfg s' := by
  unfold handover at h
  invert h
  all_goals
    have hb := ‹getBorrow s.borrows k = some _›
    have hgl := ‹getLend s.lends _ = some _›
  · exact ids_lendDel (ids_addTotalLend (ids_addBorrowed (ids_setBorrow i (getBorrow_id hb) (by rfl) (by rfl)) _ _ _ _) _ _ _) (getLend_id hgl)
  · exact ids_setLend (ids_addTotalLend (ids_addBorrowed (ids_setBorrow i (getBorrow_id hb) (by rfl) (by rfl)) _ _ _ _) _ _ _) (getLend_id hgl)
      (by rfl) (by rfl) (by rfl)

theorem auctionClose_ids {cfg : Cfg} {s s' : State} {u k : Nat} {paid recv left topUp : Int}
    (h : auctionClose cfg s u k paid recv left topUp = .ok s') (i : IdsS cfg s) : IdsS cfg s' := by
  unfold auctionClose at h
  invert h
  all_goals
    have hb := ‹getBorrow s.borrows k = some _›
    have hp := ‹cfg.pair? _ = some _›
    have hk := (getBorrow_mem hb).2
    subst hk
    first
    | exact ids_borrowDel (ids_addTotalInterest i _ _ _) (getBorrow_id hb) (pairOut_of_pair hp)
    | exact ids_borrowDel i (getBorrow_id hb) (pairOut_of_pair hp)

/-- **one step** -/
theorem step_ids {cfg : Cfg} {s s' : State} {op : Op} (h : step cfg s op = .ok s') (c : CoreS cfg s) (i : IdsS cfg s) : IdsS cfg s' := by
  unfold step at h
  split at h
  · cases h
  · cases op with
    | lend => exact lend_ids h c i
    | deposit => exact deposit_ids h i
    | withdraw => exact withdraw_ids h i
    | closeLend => exact closeLend_ids h i
    | borrow => exact borrow_ids h c i
    | borrowAlternate => exact borrowAlternate_ids h c i
    | depositBorrow => exact depositBorrow_ids h i
    | draw => exact draw_ids h i
    | repay => exact repay_ids h i
    | closeBorrow => exact closeBorrow_ids h i
    | repayWithdraw => exact repayWithdraw_ids h i
    | calcAll => exact calcMsg_ids h i
    | fundModule => unfold fundModule at h; invert h; exact i
    | fundReserve => unfold fundReserve at h; invert h; exact i
    | setPrice a t => simp only [Except.ok.injEq] at h; subst h; unfold setPrice; cases t <;> exact i
    | setKill a on => simp only [Except.ok.injEq] at h; subst h; exact i
    | setDepreciated p f => simp only [Except.ok.injEq] at h; subst h; exact i
    | beginBlock =>
      obtain ⟨h1, h2, h3, _⟩ := beginBlock_frame h
      unfold IdsS at *; rw [h1, h2, h3]; exact i
    | handover => exact handover_ids h i
    | bid => unfold auctionBid at h; invert h; exact i
    | auctionClose => exact auctionClose_ids h i

end Comdex.Lend
