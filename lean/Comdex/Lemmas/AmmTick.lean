import Comdex.Model.AmmTick
import Mathlib.Tactic.Linarith
import Mathlib.Tactic.Ring
/-!
Lemmas for C05, part 5: `sort.Search`, decimal digits, the tick grid (`TickFromIndex` is strictly increasing, every price
lies in exactly one cell of the grid, `PriceToDownTick` / `TickToIndex` / `RoundPrice` in terms of the grid).
-/
namespace Comdex.Amm
open Comdex

/-! ## sort.Search -/

theorem searchLoop_spec (f : Nat → Bool) (fuel i j : Nat) (hij : i ≤ j) (hf : j - i < fuel) :
    i ≤ searchLoop f fuel i j ∧ searchLoop f fuel i j ≤ j ∧
    (searchLoop f fuel i j < j → f (searchLoop f fuel i j) = true) ∧
    (i < searchLoop f fuel i j → f (searchLoop f fuel i j - 1) = false) := by
  induction fuel generalizing i j with
  | zero => omega
  | succ fuel ih =>
    unfold searchLoop
    by_cases hlt : i < j
    · simp only [hlt, if_true]
      have hh1 : i ≤ (i + j) / 2 := by omega
      have hh2 : (i + j) / 2 < j := by omega
      cases hfh : f ((i + j) / 2) with
      | false =>
        simp only [Bool.not_false, if_true]
        obtain ⟨a1, a2, a3, a4⟩ := ih ((i + j) / 2 + 1) j (by omega) (by omega)
        refine ⟨by omega, a2, a3, ?_⟩
        intro _
        by_cases he : (i + j) / 2 + 1 < searchLoop f fuel ((i + j) / 2 + 1) j
        · exact a4 he
        · have : searchLoop f fuel ((i + j) / 2 + 1) j = (i + j) / 2 + 1 := by omega
          rw [this]; simpa using hfh
      | true =>
        simp only [Bool.not_true, Bool.false_eq_true, if_false]
        obtain ⟨a1, a2, a3, a4⟩ := ih i ((i + j) / 2) hh1 (by omega)
        refine ⟨a1, by omega, ?_, a4⟩
        intro _
        by_cases he : searchLoop f fuel i ((i + j) / 2) < (i + j) / 2
        · exact a3 he
        · have : searchLoop f fuel i ((i + j) / 2) = (i + j) / 2 := by omega
          rw [this]; exact hfh
    · simp only [hlt, if_false]
      exact ⟨by omega, by omega, fun h => h.elim, fun h => absurd h (by omega)⟩

/-- what `sort.Search(n, f)` guarantees for ANY predicate: the answer is in `[0, n]`, `f` holds there (if `< n`) and fails just
before (if `> 0`) -/
theorem search_spec (n : Nat) (f : Nat → Bool) :
    search n f ≤ n ∧ (search n f < n → f (search n f) = true) ∧ (0 < search n f → f (search n f - 1) = false) := by
  obtain ⟨_, a2, a3, a4⟩ := searchLoop_spec f (n + 1) 0 n (by omega) (by omega)
  exact ⟨a2, a3, a4⟩

/-- for a monotone predicate (false … false true … true) the answer is the FIRST true index: it is below every true index -/
theorem search_le_of_true (n : Nat) (f : Nat → Bool) (hmono : ∀ a b, a ≤ b → b < n → f a = true → f b = true)
    (t : Nat) (htn : t < n) (ht : f t = true) : search n f ≤ t := by
  obtain ⟨a1, _, a3⟩ := search_spec n f
  by_contra h
  have h0 : 0 < search n f := by omega
  have := a3 h0
  have := hmono t (search n f - 1) (by omega) (by omega) ht
  simp_all


/-! ## decimal digits -/

theorem ndigitsAux_spec (f n : Nat) (hn : 0 < n) (hf : n ≤ f) :
    1 ≤ ndigitsAux f n ∧ 10 ^ (ndigitsAux f n - 1) ≤ n ∧ n < 10 ^ (ndigitsAux f n) := by
  induction f generalizing n with
  | zero => omega
  | succ f ih =>
    unfold ndigitsAux
    by_cases h : n < 10
    · simp only [h, if_true]; omega
    · simp only [h, if_false]
      have hq : 0 < n / 10 := by omega
      obtain ⟨a1, a2, a3⟩ := ih (n / 10) hq (by omega)
      refine ⟨by omega, ?_, ?_⟩
      · have : ndigitsAux f (n / 10) + 1 - 1 = (ndigitsAux f (n / 10) - 1) + 1 := by omega
        rw [this, Nat.pow_succ]
        omega
      · rw [Nat.pow_succ]; omega

theorem ndigits_spec (n : Nat) (hn : 0 < n) :
    1 ≤ ndigits n ∧ 10 ^ (ndigits n - 1) ≤ n ∧ n < 10 ^ (ndigits n) :=
  ndigitsAux_spec n n hn (Nat.le_refl _)

/-- the number of digits is determined by the decade -/
theorem ndigits_eq (n k : Nat) (h1 : 10 ^ k ≤ n) (h2 : n < 10 ^ (k + 1)) : ndigits n = k + 1 := by
  have hn : 0 < n := Nat.lt_of_lt_of_le (Nat.pow_pos (by omega)) h1
  obtain ⟨a1, a2, a3⟩ := ndigits_spec n hn
  have h3 : 10 ^ k < 10 ^ ndigits n := Nat.lt_of_le_of_lt h1 a3
  have h4 : 10 ^ (ndigits n - 1) < 10 ^ (k + 1) := Nat.lt_of_le_of_lt a2 h2
  have h5 := (Nat.pow_lt_pow_iff_right (by omega : 1 < 10)).mp h3
  have h6 := (Nat.pow_lt_pow_iff_right (by omega : 1 < 10)).mp h4
  omega

/-! ## the tick grid on natural numbers -/

/-- the tick of index `i` at precision `prec`: mantissa `10^prec + i mod 9·10^prec`, exponent `i div 9·10^prec` -/
def T (prec i : Nat) : Nat := (10 ^ prec + i % (9 * 10 ^ prec)) * 10 ^ (i / (9 * 10 ^ prec))

theorem T_succ (prec i : Nat) : T prec (i + 1) = T prec i + 10 ^ (i / (9 * 10 ^ prec)) := by
  unfold T
  have hp : 0 < 9 * 10 ^ prec := by have := Nat.pow_pos (n := prec) (by omega : 0 < 10); omega
  generalize hP : 9 * 10 ^ prec = P at *
  have hdm := Nat.div_add_mod i P
  by_cases h : i % P + 1 < P
  · have h1 : (i + 1) % P = i % P + 1 := by
      rw [Nat.add_mod]
      have : 1 % P = 1 := Nat.mod_eq_of_lt (by omega)
      rw [this, Nat.mod_eq_of_lt h]
    have h2 : (i + 1) / P = i / P := by
      have : i + 1 = P * (i / P) + (i % P + 1) := by omega
      rw [this, Nat.mul_add_div hp, Nat.div_eq_of_lt h]; omega
    rw [h1, h2]; ring
  · have hm : i % P < P := Nat.mod_lt _ hp
    have he : i % P + 1 = P := by omega
    have h1 : (i + 1) % P = 0 := by
      have : i + 1 = P * (i / P + 1) := by rw [Nat.mul_add, Nat.mul_one]; omega
      rw [this]; exact Nat.mul_mod_right _ _
    have h2 : (i + 1) / P = i / P + 1 := by
      have : i + 1 = P * (i / P + 1) := by rw [Nat.mul_add, Nat.mul_one]; omega
      rw [this]; exact Nat.mul_div_cancel_left _ hp
    rw [h1, h2, Nat.pow_succ]
    have : 10 ^ prec + i % P + 1 = 10 * 10 ^ prec := by omega
    calc (10 ^ prec + 0) * (10 ^ (i / P) * 10) = (10 * 10 ^ prec) * 10 ^ (i / P) := by ring
      _ = (10 ^ prec + i % P + 1) * 10 ^ (i / P) := by rw [this]
      _ = (10 ^ prec + i % P) * 10 ^ (i / P) + 10 ^ (i / P) := by ring

theorem T_lt_succ (prec i : Nat) : T prec i < T prec (i + 1) := by
  rw [T_succ]; have := Nat.pow_pos (n := i / (9 * 10 ^ prec)) (by omega : 0 < 10); omega

theorem T_strictMono (prec : Nat) {i j : Nat} (h : i < j) : T prec i < T prec j := by
  induction j with
  | zero => omega
  | succ j ih =>
    by_cases e : i = j
    · subst e; exact T_lt_succ prec i
    · exact Nat.lt_trans (ih (by omega)) (T_lt_succ prec j)

theorem T_mono (prec : Nat) {i j : Nat} (h : i ≤ j) : T prec i ≤ T prec j := by
  rcases Nat.lt_or_eq_of_le h with h | h
  · exact Nat.le_of_lt (T_strictMono prec h)
  · rw [h]

theorem T_le_iff (prec : Nat) {i j : Nat} : T prec i ≤ T prec j ↔ i ≤ j := by
  constructor
  · intro h; by_contra hc; have := T_strictMono prec (by omega : j < i); omega
  · exact T_mono prec

theorem T_pos (prec i : Nat) : 10 ^ prec ≤ T prec i := by
  have : T prec 0 = 10 ^ prec := by simp [T]
  rw [← this]; exact T_mono prec (by omega)


/-- `PriceToDownTick` on naturals -/
def D (prec x : Nat) : Nat := x / 10 ^ (ndigits x - 1 - prec) * 10 ^ (ndigits x - 1 - prec)
/-- `TickToIndex` of a down-tick on naturals -/
def idx (prec x : Nat) : Nat :=
  (ndigits x - 1 - prec) * (9 * 10 ^ prec) + (x / 10 ^ (ndigits x - 1 - prec) - 10 ^ prec)

/-- every price at or above the lowest tick lies in exactly one cell `[T k, T (k+1))` of the grid; `PriceToDownTick` returns the
lower end and `TickToIndex` its index -/
theorem grid_cell (prec x : Nat) (hx : 10 ^ prec ≤ x) :
    D prec x = T prec (idx prec x) ∧ T prec (idx prec x) ≤ x ∧ x < T prec (idx prec x + 1) ∧
    ndigits (D prec x) = ndigits x ∧ prec ≤ ndigits x - 1 ∧
    10 ^ prec ≤ x / 10 ^ (ndigits x - 1 - prec) ∧ x / 10 ^ (ndigits x - 1 - prec) < 10 ^ (prec + 1) := by
  have hx0 : 0 < x := Nat.lt_of_lt_of_le (Nat.pow_pos (by omega)) hx
  obtain ⟨a1, a2, a3⟩ := ndigits_spec x hx0
  have hL : prec ≤ ndigits x - 1 := by
    have : 10 ^ prec < 10 ^ ndigits x := Nat.lt_of_le_of_lt hx a3
    have := (Nat.pow_lt_pow_iff_right (by omega : 1 < 10)).mp this
    omega
  generalize hLd : ndigits x - 1 = L at *
  have hn : ndigits x = L + 1 := by omega
  rw [hn] at a3
  generalize hd : L - prec = d at *
  have hLe : L = prec + d := by omega
  have hpd : 0 < 10 ^ d := Nat.pow_pos (by omega)
  have hpp : 0 < 10 ^ prec := Nat.pow_pos (by omega)
  have e1 : 10 ^ L = 10 ^ prec * 10 ^ d := by rw [hLe, Nat.pow_add]
  have e2 : 10 ^ (L + 1) = 10 ^ (prec + 1) * 10 ^ d := by rw [hLe, ← Nat.pow_add]; congr 1; omega
  have hm1 : 10 ^ prec ≤ x / 10 ^ d := by
    rw [Nat.le_div_iff_mul_le hpd, ← e1]; exact a2
  have hm2 : x / 10 ^ d < 10 ^ (prec + 1) := by
    rw [Nat.div_lt_iff_lt_mul hpd, ← e2]; exact a3
  generalize hm : x / 10 ^ d = m at *
  have hdm := Nat.div_add_mod x (10 ^ d)
  rw [hm] at hdm
  have hmod : x % 10 ^ d < 10 ^ d := Nat.mod_lt _ hpd
  have h9 : m - 10 ^ prec < 9 * 10 ^ prec := by rw [Nat.pow_succ] at hm2; omega
  have hk1 : (d * (9 * 10 ^ prec) + (m - 10 ^ prec)) % (9 * 10 ^ prec) = m - 10 ^ prec := by
    rw [Nat.add_comm, Nat.add_mul_mod_self_right, Nat.mod_eq_of_lt h9]
  have hk2 : (d * (9 * 10 ^ prec) + (m - 10 ^ prec)) / (9 * 10 ^ prec) = d := by
    rw [Nat.add_comm, Nat.add_mul_div_right _ _ (by omega), Nat.div_eq_of_lt h9]; omega
  have hT : T prec (d * (9 * 10 ^ prec) + (m - 10 ^ prec)) = m * 10 ^ d := by
    unfold T; rw [hk1, hk2]; congr 1; omega
  have hD : D prec x = m * 10 ^ d := by unfold D; rw [hLd, hd, hm]
  have hidx : idx prec x = d * (9 * 10 ^ prec) + (m - 10 ^ prec) := by unfold idx; rw [hLd, hd, hm]
  rw [hD, hidx, T_succ, hT, hk2]
  refine ⟨rfl, ?_, ?_, ?_, hL, hm1, hm2⟩
  · rw [Nat.mul_comm]; omega
  · rw [Nat.mul_comm]; omega
  · rw [hn]
    apply ndigits_eq
    · rw [e1]; exact Nat.mul_le_mul_right _ hm1
    · have : m * 10 ^ d ≤ x := by rw [Nat.mul_comm]; omega
      omega

/-- a tick is its own down-tick and its index is recovered -/
theorem D_T (prec k : Nat) : D prec (T prec k) = T prec k ∧ idx prec (T prec k) = k := by
  obtain ⟨a1, a2, a3, _⟩ := grid_cell prec (T prec k) (T_pos prec k)
  have h1 := (T_le_iff prec).mp a2
  have h2 : k < idx prec (T prec k) + 1 := by
    by_contra hc
    have := T_mono prec (by omega : idx prec (T prec k) + 1 ≤ k)
    omega
  have : idx prec (T prec k) = k := by omega
  rw [a1, this]; exact ⟨rfl, rfl⟩

/-- **rounding stays inside the interval of ticks**: a price between two ticks is rounded (`RoundPrice`, on naturals: itself if
on the grid, else the tick of the even-rounded index of its cell) to a tick between them -/
theorem round_between (prec a b x : Nat) (h1 : T prec a ≤ x) (h2 : x ≤ T prec b) :
    ∃ k, a ≤ k ∧ k ≤ b ∧
      (if x = D prec x then x else T prec ((idx prec x + 1) / 2 * 2)) = T prec k := by
  obtain ⟨c1, c2, c3, _⟩ := grid_cell prec x (Nat.le_trans (T_pos prec a) h1)
  have hak : a ≤ idx prec x := by
    by_contra hc
    have := T_mono prec (by omega : idx prec x + 1 ≤ a)
    omega
  have hkb : idx prec x ≤ b := (T_le_iff prec).mp (Nat.le_trans c2 h2)
  by_cases he : x = D prec x
  · rw [if_pos he]
    exact ⟨idx prec x, hak, hkb, by rw [← c1]; exact he⟩
  · rw [if_neg he]
    have hlt : idx prec x < b := by
      rcases Nat.lt_or_eq_of_le hkb with h | h
      · exact h
      · exfalso; rw [h] at c1 c2; apply he; rw [c1]; omega
    refine ⟨(idx prec x + 1) / 2 * 2, by omega, by omega, rfl⟩


/-! ## the model's functions (on `Int` raws) are the natural-number grid -/

theorem tickFromIndex_nat (prec i : Nat) : tickFromIndex (i : Int) prec = ((T prec i : Nat) : Int) := by
  unfold tickFromIndex T
  simp only
  have hq : (i : Int).tdiv (9 * 10 ^ prec) = ((i / (9 * 10 ^ prec) : Nat) : Int) := by
    rw [Int.tdiv_eq_ediv_of_nonneg (by omega)]; push_cast; rfl
  have hr : (i : Int).tmod (10 ^ prec * 9) = ((i % (9 * 10 ^ prec) : Nat) : Int) := by
    rw [Int.tmod_eq_emod_of_nonneg (by omega), Int.mul_comm]; push_cast; rfl
  rw [hq, hr]
  by_cases h : i / (9 * 10 ^ prec) = 0
  · rw [h]; simp
  · have hpos : 0 < i / (9 * 10 ^ prec) := Nat.pos_of_ne_zero h
    clear hq hr
    have : ((i / (9 * 10 ^ prec) : Nat) : Int) + (prec : Int) > (prec : Int) := by omega
    rw [if_pos this]
    have : (((i / (9 * 10 ^ prec) : Nat) : Int) + (prec : Int) - (prec : Int)).toNat = i / (9 * 10 ^ prec) := by
      omega
    rw [this]; push_cast; ring

theorem tickFromIndex_neg_one (prec : Nat) : tickFromIndex (-1) prec = 10 ^ prec - 1 := by
  unfold tickFromIndex
  simp only
  have hp : (1 : Int) ≤ 10 ^ prec := by
    have : (0 : Int) < 10 ^ prec := by positivity
    omega
  have h1 : (-1 : Int).tdiv (9 * 10 ^ prec) = 0 := by
    rw [Int.neg_tdiv, Int.tdiv_eq_ediv_of_nonneg (by omega), Int.ediv_eq_zero_of_lt (by omega) (by omega)]; rfl
  have h2 : (-1 : Int).tmod (10 ^ prec * 9) = -1 := by
    rw [Int.tmod_def, Int.mul_comm (10 ^ prec) 9, h1]; simp
  rw [h1, h2]; simp; ring

theorem priceToDownTick_nat (prec x : Nat) (hx : 10 ^ prec ≤ x) :
    priceToDownTick (x : Int) prec = ((D prec x : Nat) : Int) := by
  obtain ⟨_, _, _, _, hL, _, _⟩ := grid_cell prec x hx
  have hn1 := (ndigits_spec x (Nat.lt_of_lt_of_le (Nat.pow_pos (by omega)) hx)).1
  unfold priceToDownTick D char
  simp only [Int.toNat_natCast]
  have e : ((ndigits x : Int) - 1 - (prec : Int)) = ((ndigits x - 1 - prec : Nat) : Int) := by omega
  rw [e, Int.toNat_natCast]
  by_cases h : ndigits x - 1 - prec = 0
  · rw [h]; simp
  · have : ((ndigits x - 1 - prec : Nat) : Int) > 0 := by omega
    rw [if_pos this, Int.tdiv_eq_ediv_of_nonneg (by omega)]
    push_cast; rfl

theorem tickToIndex_nat (prec x : Nat) (hx : 10 ^ prec ≤ x) :
    tickToIndex ((D prec x : Nat) : Int) prec = ((idx prec x : Nat) : Int) := by
  obtain ⟨_, _, _, hnd, hL, hm1, _⟩ := grid_cell prec x hx
  have hn1 := (ndigits_spec x (Nat.lt_of_lt_of_le (Nat.pow_pos (by omega)) hx)).1
  unfold tickToIndex char
  simp only [Int.toNat_natCast]
  rw [hnd]
  have e : ((ndigits x : Int) - 1 - (prec : Int)) = ((ndigits x - 1 - prec : Nat) : Int) := by omega
  rw [e, Int.toNat_natCast]
  have hpd : 0 < 10 ^ (ndigits x - 1 - prec) := Nat.pow_pos (by omega)
  have hb : D prec x / 10 ^ (ndigits x - 1 - prec) = x / 10 ^ (ndigits x - 1 - prec) := by
    unfold D; exact Nat.mul_div_cancel _ hpd
  have hbi : (if ((ndigits x - 1 - prec : Nat) : Int) > 0 then ((D prec x : Nat) : Int).tdiv (10 ^ (ndigits x - 1 - prec))
      else ((D prec x : Nat) : Int)) = ((x / 10 ^ (ndigits x - 1 - prec) : Nat) : Int) := by
    by_cases h : ndigits x - 1 - prec = 0
    · rw [h]; simp; unfold D; rw [h]; simp
    · have : ((ndigits x - 1 - prec : Nat) : Int) > 0 := by omega
      rw [if_pos this, Int.tdiv_eq_ediv_of_nonneg (by omega), ← hb]
      push_cast; rfl
  rw [hbi]
  unfold idx
  push_cast [Nat.cast_sub hm1]
  ring

theorem roundTickIndex_nat (k : Nat) : roundTickIndex (k : Int) = (((k + 1) / 2 * 2 : Nat) : Int) := by
  unfold roundTickIndex
  rw [Int.tdiv_eq_ediv_of_nonneg (by omega)]
  push_cast; rfl

/-- `RoundPrice` of a price between two ticks is a tick between them -/
theorem roundPrice_between (prec a b x : Nat) (h1 : T prec a ≤ x) (h2 : x ≤ T prec b) :
    ∃ k, a ≤ k ∧ k ≤ b ∧ roundPrice (x : Int) prec = ((T prec k : Nat) : Int) := by
  have hx : 10 ^ prec ≤ x := Nat.le_trans (T_pos prec a) h1
  obtain ⟨k, hk1, hk2, hk3⟩ := round_between prec a b x h1 h2
  refine ⟨k, hk1, hk2, ?_⟩
  unfold roundPrice
  simp only
  rw [priceToDownTick_nat prec x hx, tickToIndex_nat prec x hx, roundTickIndex_nat, tickFromIndex_nat]
  by_cases he : x = D prec x
  · rw [if_pos he] at hk3
    rw [if_pos (by exact_mod_cast he)]; exact_mod_cast hk3
  · rw [if_neg he] at hk3
    rw [if_neg (by exact_mod_cast he)]; exact_mod_cast hk3

theorem isTick_T (prec k : Nat) : isTick ((T prec k : Nat) : Int) prec = true := by
  unfold isTick
  rw [priceToDownTick_nat prec _ (T_pos prec k), (D_T prec k).1]
  simp


end Comdex.Amm
