import Comdex.Lemmas.AmmMatchSums
/-!
Lemmas for C05, part 4: accounting.  How much base coin and quote coin one `applyPlan` / `DistributeOrderAmountToTick` /
`distributeToTicks` / `MatchAtSinglePrice` moves, for duplicate-free order lists (distinct order objects).
-/
namespace Comdex.Amm
open Comdex

/-- base coin that went through the orders of a list between two states -/
def filledOf (os os' : List Order) : Int := sumInt (List.zipWith (fun o o' => o.opn - o'.opn) os os')

/-- quote coin paid by the buyers minus quote coin received by the sellers of a list between two states -/
def quoteOf (os os' : List Order) : Int :=
  sumInt (List.zipWith (fun o o' => if o.dir = .buy then o'.paid - o.paid else o.received - o'.received) os os')

/-- what one `applyPlan` moves: per order the planned amount (0 when the order is not in the plan); the returned quote
difference is exactly buyers' payments minus sellers' receipts -/
theorem applyPlan_account (os : List Order) (plan : List (Order × Int)) (p : Int) (os' : List Order) (q : Int)
    (h : applyPlan os plan p = some (os', q)) :
    filledOf os os' = sumInt (os.map fun o => (plan.lookup o).getD 0) ∧ q = quoteOf os os' := by
  induction os generalizing os' q with
  | nil => simp [applyPlan] at h; obtain ⟨rfl, rfl⟩ := h; simp [filledOf, quoteOf, sumInt]
  | cons o os ih =>
    unfold applyPlan at h
    cases h1 : applyPlan os plan p with
    | none => rw [h1] at h; simp at h
    | some r =>
      obtain ⟨os1, q1⟩ := r
      obtain ⟨i1, i2⟩ := ih os1 q1 h1
      rw [h1] at h
      simp only at h
      cases hl : plan.lookup o with
      | none =>
        rw [hl] at h
        simp only [Option.some.injEq, Prod.mk.injEq] at h
        obtain ⟨rfl, rfl⟩ := h
        simp only [filledOf, quoteOf, List.zipWith_cons_cons, sumInt, List.map_cons, hl, Option.getD_none] at *
        constructor
        · omega
        · split <;> omega
      | some a =>
        rw [hl] at h
        simp only at h
        unfold fillOrder at h
        by_cases hg : a > matchableAmount o p
        · simp [hg] at h
        · simp only [hg, if_false, Option.some.injEq, Prod.mk.injEq] at h
          obtain ⟨rfl, rfl⟩ := h
          simp only [filledOf, quoteOf, List.zipWith_cons_cons, sumInt, List.map_cons, hl, Option.getD_some] at *
          cases hd : o.dir with
          | buy => unfold fillRaw; rw [hd]; simp only; constructor <;> simp <;> omega
          | sell => unfold fillRaw; rw [hd]; simp only; constructor <;> simp <;> omega

theorem lookup_none_of_not_mem (plan : List (Order × Int)) (o : Order) (h : o ∉ plan.map (·.1)) :
    plan.lookup o = none := by
  induction plan with
  | nil => rfl
  | cons x xs ih =>
    obtain ⟨k, v⟩ := x
    simp only [List.map_cons, List.mem_cons, not_or] at h
    rw [List.lookup_cons]
    have : (o == k) = false := by simp [h.1]
    rw [this]
    exact ih h.2

theorem sum_ite_eq (os : List Order) (k : Order) (v : Int) (g : Order → Int) (hnd : os.Nodup) (hk : k ∈ os) :
    sumInt (os.map fun o => if o = k then v else g o) = v - g k + sumInt (os.map g) := by
  induction os with
  | nil => simp at hk
  | cons x xs ih =>
    rw [List.nodup_cons] at hnd
    simp only [List.map_cons, sumInt]
    by_cases hx : x = k
    · subst hx
      have : sumInt (xs.map fun o => if o = x then v else g o) = sumInt (xs.map g) := by
        congr 1
        apply List.map_congr_left
        intro o ho
        have : o ≠ x := fun e => hnd.1 (e ▸ ho)
        simp [this]
      rw [this]; simp; omega
    · have hk' : k ∈ xs := by
        rcases List.mem_cons.mp hk with h | h
        · exact absurd h.symm hx
        · exact h
      rw [ih hnd.2 hk']
      simp [hx]; omega

/-- summing the planned amounts over the orders = summing the plan, when orders and plan keys are duplicate-free -/
theorem sum_lookup (os : List Order) (plan : List (Order × Int)) (hnd : os.Nodup) (hk : (plan.map (·.1)).Nodup)
    (hsub : ∀ oa ∈ plan, oa.1 ∈ os) :
    sumInt (os.map fun o => (plan.lookup o).getD 0) = planSum plan := by
  induction plan with
  | nil =>
    simp only [List.lookup_nil, Option.getD_none, planSum, List.map_nil, sumInt]
    clear hnd hsub hk
    induction os with
    | nil => rfl
    | cons _ _ ih => simp only [List.map_cons, sumInt]; omega
  | cons x xs ih =>
    obtain ⟨k, v⟩ := x
    simp only [List.map_cons, List.nodup_cons] at hk
    have hkm : k ∈ os := hsub (k, v) (by simp)
    have e : (os.map fun o => (List.lookup o ((k, v) :: xs)).getD 0) =
        os.map fun o => if o = k then v else (xs.lookup o).getD 0 := by
      apply List.map_congr_left
      intro o _
      rw [List.lookup_cons]
      by_cases h : o = k
      · simp [h]
      · have : (o == k) = false := by simp [h]
        rw [this]; simp [h]
    rw [e, sum_ite_eq os k v _ hnd hkm, lookup_none_of_not_mem xs k hk.1,
      ih hk.2 (fun oa hoa => hsub oa (by simp [hoa]))]
    simp [planSum, sumInt]



/-! ### `FulfillOrders` -/

theorem fulfillPlan_cons (x : Order) (xs : List Order) (p : Int) :
    fulfillPlan (x :: xs) p =
      (if matchableAmount x p > 0 then [(x, matchableAmount x p)] else []) ++ fulfillPlan xs p := by
  unfold fulfillPlan
  rw [List.filterMap_cons]
  by_cases hm : matchableAmount x p > 0 <;> simp [hm]

theorem lookup_fulfillPlan (os : List Order) (p : Int) (o : Order) :
    (fulfillPlan os p).lookup o =
      if o ∈ os ∧ matchableAmount o p > 0 then some (matchableAmount o p) else none := by
  induction os with
  | nil => simp [fulfillPlan]
  | cons x xs ih =>
    rw [fulfillPlan_cons]
    by_cases hm : matchableAmount x p > 0
    · simp only [hm, if_true, List.singleton_append, List.lookup_cons]
      by_cases hox : o = x
      · subst hox; simp [hm]
      · have : (o == x) = false := by simp [hox]
        rw [this, ih]
        simp [hox]
    · simp only [hm, if_false, List.nil_append, ih]
      by_cases hox : o = x
      · subst hox; simp [hm]
      · simp [hox]

theorem planSum_append (l₁ l₂ : List (Order × Int)) : planSum (l₁ ++ l₂) = planSum l₁ + planSum l₂ := by
  simp [planSum, sumInt_append]

theorem planSum_fulfillPlan (os : List Order) (p : Int) (h : ∀ o ∈ os, 0 ≤ matchableAmount o p) :
    planSum (fulfillPlan os p) = totalMatchable os p := by
  induction os with
  | nil => simp [fulfillPlan, planSum, totalMatchable, sumInt]
  | cons x xs ih =>
    rw [fulfillPlan_cons, planSum_append, ih (fun o ho => h o (by simp [ho]))]
    have := h x (by simp)
    simp only [totalMatchable, List.map_cons, sumInt]
    split
    · simp [planSum, sumInt]
    · simp [planSum, sumInt]; omega

/-- `FulfillOrders` moves exactly the total matchable amount of the orders -/
theorem fulfillOrders_account (os : List Order) (p : Int) (hm : ∀ o ∈ os, 0 ≤ matchableAmount o p)
    (os' : List Order) (q : Int) (h : fulfillOrders os p = some (os', q)) :
    filledOf os os' = totalMatchable os p ∧ q = quoteOf os os' := by
  unfold fulfillOrders at h
  obtain ⟨h1, h2⟩ := applyPlan_account os _ p os' q h
  refine ⟨?_, h2⟩
  rw [h1]
  unfold totalMatchable
  congr 1
  apply List.map_congr_left
  intro o ho
  rw [lookup_fulfillPlan]
  have := hm o ho
  by_cases hp : matchableAmount o p > 0
  · simp [ho, hp]
  · simp [hp]; omega

/-! ### keys of the plans -/

theorem keys_fulfillPlan (os : List Order) (p : Int) :
    (fulfillPlan os p).map (·.1) = os.filter (fun o => decide (matchableAmount o p > 0)) := by
  induction os with
  | nil => simp [fulfillPlan]
  | cons x xs ih =>
    rw [fulfillPlan_cons, List.map_append, ih, List.filter_cons]
    by_cases hm : matchableAmount x p > 0 <;> simp [hm]

theorem insertSorted_perm (x : Order) (l : List Order) : (insertSorted x l).Perm (x :: l) := by
  induction l with
  | nil => simp [insertSorted]
  | cons y ys ih =>
    unfold insertSorted
    split
    · exact (List.Perm.cons y ih).trans (List.Perm.swap x y ys)
    · exact List.Perm.refl _

theorem sortOrders_perm (l : List Order) : (sortOrders l).Perm l := by
  induction l with
  | nil => simp [sortOrders]
  | cons x xs ih =>
    unfold sortOrders
    exact (insertSorted_perm x _).trans (List.Perm.cons x ih)

/-- the orders the plan of `DistributeOrderAmountToOrders` fills are a sub-list of the orders it was given -/
theorem planOrders_keys (fuel : Nat) (os : List Order) (amt p : Int) (hp : 0 < p) (hamt : 0 ≤ amt)
    (hw : ∀ o ∈ os, Wf o) (plan : List (Order × Int)) (h : planOrders fuel os amt p = some plan) :
    (plan.map (·.1)).Sublist os := by
  induction fuel generalizing os with
  | zero => simp [planOrders] at h
  | succ fuel ih =>
    unfold planOrders at h
    rw [no_div_by_zero os p hp hw] at h
    simp only [Bool.false_eq_true, if_false] at h
    have hkeys : (shares os amt p).map (·.1) = os := by
      unfold shares
      simp only
      apply List.map_fst_zip
      have := all2_length (shares_all2 os amt p hp hw hamt)
      omega
    split at h
    · cases h
      rw [hkeys]
      exact List.Sublist.refl _
    · split at h
      · exact (ih os.dropLast (fun o ho => hw o (List.dropLast_subset os ho)) h).trans (List.dropLast_sublist os)
      · have hsub : ((List.filter (fun oa => shareOk oa.1 oa.2 p) (shares os amt p)).map (·.1)).Sublist os := by
          have := (List.filter_sublist (p := fun oa => shareOk oa.1 oa.2 p) (l := shares os amt p)).map (·.1)
          rw [hkeys] at this
          exact this
        refine (ih _ ?_ h).trans hsub
        intro o ho
        exact hw o (hsub.subset ho)



/-! ### the group loop of `DistributeOrderAmountToTick` -/

/-- the plan of the group loop: its keys are duplicate-free and come from the groups; it hands out exactly the amount it
was given when nothing is lost (`groupsLossless`) -/
theorem planGroups_account (gs : List (List Order)) (rem p : Int) (hp : 0 < p) (hrem : 0 ≤ rem)
    (hw : ∀ g ∈ gs, ∀ o ∈ g, Wf o) (hnd : ∀ g ∈ gs, g.Nodup)
    (hdis : gs.Pairwise (fun g1 g2 => ∀ o ∈ g1, o ∉ g2))
    (plan : List (Order × Int)) (h : planGroups gs rem p = some plan) :
    (plan.map (·.1)).Nodup ∧ (∀ k ∈ plan.map (·.1), ∃ g ∈ gs, k ∈ g) ∧
    (groupsLossless gs rem p = true → planSum plan = rem) := by
  induction gs generalizing rem plan with
  | nil =>
    simp only [planGroups, Option.some.injEq] at h
    subst h
    refine ⟨by simp, by simp, ?_⟩
    intro hl
    simp only [groupsLossless, decide_eq_true_eq] at hl
    simp [planSum, sumInt]; omega
  | cons g gs ih =>
    rw [List.pairwise_cons] at hdis
    have hwg : ∀ o ∈ g, Wf o := hw g (by simp)
    have hw' : ∀ g' ∈ gs, ∀ o ∈ g', Wf o := fun g' hg' => hw g' (by simp [hg'])
    have hnd' : ∀ g' ∈ gs, g'.Nodup := fun g' hg' => hnd g' (by simp [hg'])
    have hgn : g.Nodup := hnd g (by simp)
    have hful_keys : ((fulfillPlan g p).map (·.1)).Nodup := by
      rw [keys_fulfillPlan]; exact List.Nodup.sublist List.filter_sublist hgn
    have hful_mem : ∀ k ∈ (fulfillPlan g p).map (·.1), k ∈ g := by
      intro k hk; rw [keys_fulfillPlan] at hk; exact (List.mem_filter.mp hk).1
    have hful_sum : planSum (fulfillPlan g p) = totalMatchable g p :=
      planSum_fulfillPlan g p (fun o ho => matchable_nonneg o p (hwg o ho) hp)
    unfold planGroups at h
    unfold groupsLossless
    simp only at h ⊢
    split at h
    · rename_i h0
      obtain ⟨i1, i2, i3⟩ := ih rem hrem hw' hnd' hdis.2 plan h
      refine ⟨i1, ?_, ?_⟩
      · intro k hk; obtain ⟨g', hg', hkg⟩ := i2 k hk; exact ⟨g', by simp [hg'], hkg⟩
      · rw [if_pos h0]; exact i3
    · rename_i h0
      rw [if_neg h0]
      split at h
      · rename_i hge
        rw [if_pos hge]
        split at h
        · rename_i hz
          cases h
          refine ⟨hful_keys, ?_, ?_⟩
          · intro k hk; exact ⟨g, by simp, hful_mem k hk⟩
          · intro _; rw [hful_sum]; omega
        · rename_i hz
          rw [if_neg hz]
          cases hr : planGroups gs (rem - totalMatchable g p) p with
          | none => rw [hr] at h; cases h
          | some rest =>
            rw [hr] at h
            cases h
            obtain ⟨i1, i2, i3⟩ := ih (rem - totalMatchable g p) (by omega) hw' hnd' hdis.2 rest hr
            refine ⟨?_, ?_, ?_⟩
            · rw [List.map_append, List.nodup_append]
              refine ⟨hful_keys, i1, ?_⟩
              intro a ha b hb hab
              subst hab
              obtain ⟨g', hg', hag'⟩ := i2 a hb
              exact hdis.1 g' hg' a (hful_mem a ha) hag'
            · intro k hk
              rw [List.map_append, List.mem_append] at hk
              rcases hk with hk | hk
              · exact ⟨g, by simp, hful_mem k hk⟩
              · obtain ⟨g', hg', hkg⟩ := i2 k hk; exact ⟨g', by simp [hg'], hkg⟩
            · intro hl
              rw [planSum_append, hful_sum, i3 hl]; omega
      · rename_i hge
        rw [if_neg hge]
        have hws : ∀ o ∈ sortOrders g, Wf o := fun o ho => hwg o ((mem_sortOrders o g).mp ho)
        have hk := planOrders_keys (g.length + 1) (sortOrders g) rem p hp hrem hws plan h
        refine ⟨List.Nodup.sublist hk ((sortOrders_perm g).nodup_iff.mpr hgn), ?_, ?_⟩
        · intro k hkm; exact ⟨g, by simp, (mem_sortOrders k g).mp (hk.subset hkm)⟩
        · intro hl; exact planOrders_sum _ _ rem p hp hrem hws hl plan h



/-! ### `GroupOrdersByBatchID`: duplicate-free, pairwise disjoint groups -/

theorem mem_insertKey (k x : Nat) (l : List Nat) : x ∈ insertKey k l ↔ x = k ∨ x ∈ l := by
  induction l with
  | nil => simp [insertKey]
  | cons y ys ih =>
    unfold insertKey
    split
    · simp
    · simp only [List.mem_cons, ih]
      constructor
      · rintro (h | h | h) <;> simp [h]
      · rintro (h | h | h) <;> simp [h]

theorem nodup_insertKey (k : Nat) (l : List Nat) (h : l.Nodup) (hk : k ∉ l) : (insertKey k l).Nodup := by
  induction l with
  | nil => simp [insertKey]
  | cons y ys ih =>
    rw [List.nodup_cons] at h
    simp only [List.mem_cons, not_or] at hk
    unfold insertKey
    split
    · rw [List.nodup_cons]
      exact ⟨by simp [hk.1, hk.2], List.nodup_cons.mpr h⟩
    · rw [List.nodup_cons]
      refine ⟨?_, ih h.2 hk.2⟩
      rw [mem_insertKey]
      rintro (e | e)
      · exact hk.1 e.symm
      · exact h.1 e

theorem nodup_batchKeys (os : List Order) : (batchKeys os).Nodup := by
  unfold batchKeys
  have : ∀ (ks : List Nat), ks.Nodup →
      (os.foldl (fun ks o => if ks.contains o.batchId then ks else insertKey o.batchId ks) ks).Nodup := by
    induction os with
    | nil => intro ks h; exact h
    | cons o os ih =>
      intro ks h
      simp only [List.foldl_cons]
      apply ih
      split
      · exact h
      · rename_i hc
        exact nodup_insertKey _ _ h (by simpa using hc)
  exact this [] (by simp)

theorem groupOrders_nodup (os : List Order) (hnd : os.Nodup) : ∀ g ∈ groupOrders os, g.Nodup := by
  intro g hg
  unfold groupOrders at hg
  rw [List.mem_map] at hg
  obtain ⟨k, _, rfl⟩ := hg
  exact List.Nodup.sublist List.filter_sublist hnd

theorem groupOrders_disjoint (os : List Order) :
    (groupOrders os).Pairwise (fun g1 g2 => ∀ o ∈ g1, o ∉ g2) := by
  unfold groupOrders
  rw [List.pairwise_map]
  have hk : (batchKeys os).Pairwise (· ≠ ·) := nodup_batchKeys os
  refine hk.imp ?_
  intro a b hab o ho1 ho2
  have h1 := (List.mem_filter.mp ho1).2
  have h2 := (List.mem_filter.mp ho2).2
  simp only [beq_iff_eq] at h1 h2
  exact hab (h1.symm.trans h2)

/-- **`DistributeOrderAmountToTick` moves exactly the amount it was given** (when nothing is lost), and its quote
difference is exactly buyers' payments minus sellers' receipts -/
theorem distributeToTick_account (os : List Order) (amt p : Int) (hp : 0 < p) (hamt : 0 ≤ amt)
    (hw : ∀ o ∈ os, Wf o) (hnd : os.Nodup) (os' : List Order) (q : Int)
    (h : distributeToTick os amt p = some (os', q)) :
    q = quoteOf os os' ∧ (groupsLossless (groupOrders os) amt p = true → filledOf os os' = amt) := by
  unfold distributeToTick at h
  cases hpl : planGroups (groupOrders os) amt p with
  | none => rw [hpl] at h; cases h
  | some plan =>
    rw [hpl] at h
    simp only at h
    obtain ⟨a1, a2⟩ := applyPlan_account os plan p os' q h
    obtain ⟨k1, k2, k3⟩ := planGroups_account (groupOrders os) amt p hp hamt
      (fun g hg o ho => hw o (mem_groupOrders os g hg o ho)) (groupOrders_nodup os hnd) (groupOrders_disjoint os) plan hpl
    refine ⟨a2, ?_⟩
    intro hl
    rw [a1, sum_lookup os plan hnd k1 ?_, k3 hl]
    intro oa hoa
    obtain ⟨g, hg, hkg⟩ := k2 oa.1 (List.mem_map.mpr ⟨oa, hoa, rfl⟩)
    exact mem_groupOrders os g hg _ hkg



/-! ### ticks -/

def ticksFilled (ts ts' : List Tick) : Int := sumInt (List.zipWith (fun t t' => filledOf t.orders t'.orders) ts ts')
def ticksQuote (ts ts' : List Tick) : Int := sumInt (List.zipWith (fun t t' => quoteOf t.orders t'.orders) ts ts')

theorem filledOf_self (os : List Order) : filledOf os os = 0 := by
  induction os with
  | nil => rfl
  | cons o os ih => simp only [filledOf, List.zipWith_cons_cons, sumInt] at *; omega

theorem quoteOf_self (os : List Order) : quoteOf os os = 0 := by
  induction os with
  | nil => rfl
  | cons o os ih => simp only [quoteOf, List.zipWith_cons_cons, sumInt] at *; split <;> omega

theorem ticksFilled_self (ts : List Tick) : ticksFilled ts ts = 0 := by
  induction ts with
  | nil => rfl
  | cons t ts ih => simp only [ticksFilled, List.zipWith_cons_cons, sumInt, filledOf_self] at *; omega

theorem ticksQuote_self (ts : List Tick) : ticksQuote ts ts = 0 := by
  induction ts with
  | nil => rfl
  | cons t ts ih => simp only [ticksQuote, List.zipWith_cons_cons, sumInt, quoteOf_self] at *; omega

/-- **`distributeToTicks` moves exactly the amount it was given** (when nothing is lost); its quote difference is exactly
buyers' payments minus sellers' receipts -/
theorem distTicks_account (ts : List Tick) (x p : Int) (hp : 0 < p) (hx : 0 ≤ x)
    (hw : ∀ t ∈ ts, ∀ o ∈ t.orders, Wf o) (hnd : ∀ t ∈ ts, t.orders.Nodup) (ts' : List Tick) (q : Int)
    (h : distTicks ts x p = some (ts', q)) :
    q = ticksQuote ts ts' ∧ (ticksLossless ts x p = true → ticksFilled ts ts' = x) := by
  induction ts generalizing x ts' q with
  | nil =>
    simp only [distTicks, Option.some.injEq, Prod.mk.injEq] at h
    obtain ⟨rfl, rfl⟩ := h
    refine ⟨rfl, ?_⟩
    intro hl
    simp only [ticksLossless, decide_eq_true_eq] at hl
    simp [ticksFilled, sumInt]; omega
  | cons t ts ih =>
    have hwt : ∀ o ∈ t.orders, Wf o := hw t (by simp)
    have hw' : ∀ t' ∈ ts, ∀ o ∈ t'.orders, Wf o := fun t' ht' => hw t' (by simp [ht'])
    have hnd' : ∀ t' ∈ ts, t'.orders.Nodup := fun t' ht' => hnd t' (by simp [ht'])
    unfold distTicks at h
    unfold ticksLossless
    simp only at h ⊢
    split at h
    · rename_i hle
      rw [if_pos hle]
      cases hf : fulfillOrders t.orders p with
      | none => rw [hf] at h; cases h
      | some r =>
        obtain ⟨os', q1⟩ := r
        rw [hf] at h
        simp only at h
        obtain ⟨f1, f2⟩ := fulfillOrders_account t.orders p (fun o ho => matchable_nonneg o p (hwt o ho) hp) os' q1 hf
        split at h
        · rename_i hz
          simp only [Option.some.injEq, Prod.mk.injEq] at h
          obtain ⟨rfl, rfl⟩ := h
          rw [if_pos hz]
          simp only [ticksQuote, ticksFilled, List.zipWith_cons_cons, sumInt]
          have e1 := ticksFilled_self ts
          have e2 := ticksQuote_self ts
          simp only [ticksQuote, ticksFilled] at e1 e2
          rw [e1, e2]
          exact ⟨by omega, fun _ => by omega⟩
        · rename_i hz
          rw [if_neg hz]
          cases hr : distTicks ts (x - totalMatchable t.orders p) p with
          | none => rw [hr] at h; cases h
          | some r2 =>
            obtain ⟨ts2, q2⟩ := r2
            rw [hr] at h
            simp only [Option.some.injEq, Prod.mk.injEq] at h
            obtain ⟨rfl, rfl⟩ := h
            obtain ⟨i1, i2⟩ := ih (x - totalMatchable t.orders p) (by omega) hw' hnd' ts2 q2 hr
            simp only [ticksQuote, ticksFilled, List.zipWith_cons_cons, sumInt] at *
            refine ⟨by omega, ?_⟩
            intro hl
            have := i2 hl
            omega
    · rename_i hle
      rw [if_neg hle]
      cases hd : distributeToTick t.orders x p with
      | none => rw [hd] at h; cases h
      | some r =>
        obtain ⟨os', q1⟩ := r
        rw [hd] at h
        simp only [Option.some.injEq, Prod.mk.injEq] at h
        obtain ⟨rfl, rfl⟩ := h
        obtain ⟨d1, d2⟩ := distributeToTick_account t.orders x p hp hx hwt (hnd t (by simp)) os' q1 hd
        simp only [ticksQuote, ticksFilled, List.zipWith_cons_cons, sumInt]
        have e1 := ticksFilled_self ts
        have e2 := ticksQuote_self ts
        simp only [ticksQuote, ticksFilled] at e1 e2
        rw [e1, e2]
        refine ⟨by omega, ?_⟩
        intro hl
        have := d2 hl
        omega



/-! ### the buy side never loses anything -/

theorem sumInt_perm {l₁ l₂ : List Int} (h : l₁.Perm l₂) : sumInt l₁ = sumInt l₂ := by
  induction h with
  | nil => rfl
  | cons x _ ih => simp only [sumInt, ih]
  | swap x y l => simp only [sumInt]; omega
  | trans _ _ ih1 ih2 => rw [ih1, ih2]

theorem totalMatchable_perm {l₁ l₂ : List Order} (h : l₁.Perm l₂) (p : Int) : totalMatchable l₁ p = totalMatchable l₂ p :=
  sumInt_perm (h.map _)

theorem sumInt_map_add (ks : List Nat) (a b : Nat → Int) :
    sumInt (ks.map fun k => a k + b k) = sumInt (ks.map a) + sumInt (ks.map b) := by
  induction ks with
  | nil => rfl
  | cons k ks ih => simp only [List.map_cons, sumInt, ih]; omega

theorem sumInt_indicator (ks : List Nat) (k0 : Nat) (v : Int) (hnd : ks.Nodup) (hk : k0 ∈ ks) :
    sumInt (ks.map fun k => if k0 = k then v else 0) = v := by
  induction ks with
  | nil => simp at hk
  | cons k ks ih =>
    rw [List.nodup_cons] at hnd
    simp only [List.map_cons, sumInt]
    by_cases e : k0 = k
    · subst e
      have : sumInt (ks.map fun k => if k0 = k then v else 0) = 0 := by
        have : (ks.map fun k => if k0 = k then v else 0) = ks.map fun _ => 0 := by
          apply List.map_congr_left
          intro k hk'
          have : k0 ≠ k := fun e => hnd.1 (e ▸ hk')
          simp [this]
        rw [this]
        clear this ih hk hnd
        induction ks with
        | nil => rfl
        | cons _ _ ih => simp only [List.map_cons, sumInt, ih]; omega
      rw [this]; simp
    · have hk' : k0 ∈ ks := by
        rcases List.mem_cons.mp hk with h | h
        · exact absurd h e
        · exact h
      rw [ih hnd.2 hk']; simp [e]

/-- the groups partition the orders: their matchable totals add up to the tick's -/
theorem sum_groups (keys : List Nat) (hnd : keys.Nodup) (os : List Order) (p : Int)
    (hk : ∀ o ∈ os, o.batchId ∈ keys) :
    sumInt (keys.map fun k => totalMatchable (os.filter fun o => o.batchId == k) p) = totalMatchable os p := by
  induction os with
  | nil =>
    simp only [List.filter_nil, totalMatchable, List.map_nil, sumInt]
    clear hnd hk
    induction keys with
    | nil => rfl
    | cons _ _ ih => simp only [List.map_cons, sumInt, ih]; omega
  | cons x xs ih =>
    have e : (keys.map fun k => totalMatchable ((x :: xs).filter fun o => o.batchId == k) p) =
        keys.map fun k => (if x.batchId = k then matchableAmount x p else 0) + totalMatchable (xs.filter fun o => o.batchId == k) p := by
      apply List.map_congr_left
      intro k _
      rw [List.filter_cons]
      by_cases hxk : x.batchId = k
      · simp [hxk, totalMatchable, sumInt]
      · simp [hxk, totalMatchable]
    rw [e, sumInt_map_add, ih (fun o ho => hk o (by simp [ho])), sumInt_indicator keys x.batchId _ hnd (hk x (by simp))]
    simp [totalMatchable, sumInt]

theorem mem_batchKeys (os : List Order) : ∀ o ∈ os, o.batchId ∈ batchKeys os := by
  unfold batchKeys
  have : ∀ (ks : List Nat), (∀ k ∈ ks, k ∈ os.foldl (fun ks o => if ks.contains o.batchId then ks else insertKey o.batchId ks) ks) ∧
      ∀ o ∈ os, o.batchId ∈ os.foldl (fun ks o => if ks.contains o.batchId then ks else insertKey o.batchId ks) ks := by
    induction os with
    | nil => intro ks; exact ⟨fun k hk => hk, by simp⟩
    | cons x xs ih =>
      intro ks
      simp only [List.foldl_cons]
      obtain ⟨i1, i2⟩ := ih (if ks.contains x.batchId then ks else insertKey x.batchId ks)
      have hx : x.batchId ∈ (if ks.contains x.batchId then ks else insertKey x.batchId ks) := by
        split
        · rename_i hc; simpa using hc
        · rw [mem_insertKey]; left; rfl
      have hmono : ∀ k ∈ ks, k ∈ (if ks.contains x.batchId then ks else insertKey x.batchId ks) := by
        intro k hk
        split
        · exact hk
        · rw [mem_insertKey]; right; exact hk
      refine ⟨fun k hk => i1 k (hmono k hk), ?_⟩
      intro o ho
      rcases List.mem_cons.mp ho with rfl | ho
      · exact i1 _ hx
      · exact i2 o ho
  exact (this []).2

theorem sum_groupOrders (os : List Order) (p : Int) :
    sumInt ((groupOrders os).map fun g => totalMatchable g p) = totalMatchable os p := by
  unfold groupOrders
  rw [List.map_map]
  exact sum_groups (batchKeys os) (nodup_batchKeys os) os p (mem_batchKeys os)

theorem groupsLossless_buys (gs : List (List Order)) (rem p : Int) (hp : 0 < p) (hrem : 0 ≤ rem)
    (hw : ∀ g ∈ gs, ∀ o ∈ g, Wf o ∧ o.dir = .buy)
    (hle : rem ≤ sumInt (gs.map fun g => totalMatchable g p)) : groupsLossless gs rem p = true := by
  induction gs generalizing rem with
  | nil => simp [sumInt] at hle; simp [groupsLossless]; omega
  | cons g gs ih =>
    have hw' : ∀ g' ∈ gs, ∀ o ∈ g', Wf o ∧ o.dir = .buy := fun g' hg' => hw g' (by simp [hg'])
    simp only [List.map_cons, sumInt] at hle
    unfold groupsLossless
    simp only
    split
    · rename_i h0; exact ih rem hrem hw' (by omega)
    · split
      · split
        · rfl
        · exact ih _ (by omega) hw' (by omega)
      · rename_i hlt
        apply lossless_buys _ _ rem p hp hrem
        · intro o ho; exact (hw g (by simp) o ((mem_sortOrders o g).mp ho)).1
        · intro o ho; exact (hw g (by simp) o ((mem_sortOrders o g).mp ho)).2
        · rw [totalMatchable_perm (sortOrders_perm g)]; omega

theorem ticksLossless_buys (ts : List Tick) (x p : Int) (hp : 0 < p) (hx : 0 ≤ x)
    (hok : ∀ t ∈ ts, TickOk .buy t) (hle : x ≤ sumInt (ts.map fun t => totalMatchable t.orders p)) :
    ticksLossless ts x p = true := by
  induction ts generalizing x with
  | nil => simp [sumInt] at hle; simp [ticksLossless]; omega
  | cons t ts ih =>
    simp only [List.map_cons, sumInt] at hle
    unfold ticksLossless
    simp only
    split
    · split
      · rfl
      · exact ih _ (by omega) (fun t' ht' => hok t' (by simp [ht'])) (by omega)
    · apply groupsLossless_buys _ x p hp hx
      · intro g hg o ho
        have := hok t (by simp) o (mem_groupOrders t.orders g hg o ho)
        exact ⟨this.1, this.2.1⟩
      · rw [sum_groupOrders]; omega

theorem buildSide_le_total (incr : Bool) (p : Int) (hp : 0 < p) (ts : List Tick) (hw : ∀ t ∈ ts, ∀ o ∈ t.orders, Wf o) :
    sumInt (buildSide incr p ts) ≤ sumInt (ts.map fun t => totalMatchable t.orders p) := by
  induction ts with
  | nil => simp [buildSide, sumInt]
  | cons t ts ih =>
    have h1 := ih (fun t' ht' => hw t' (by simp [ht']))
    have h2 : 0 ≤ sumInt (ts.map fun t => totalMatchable t.orders p) := by
      apply sumInt_nonneg
      intro v hv
      rw [List.mem_map] at hv
      obtain ⟨t', ht', rfl⟩ := hv
      exact totalMatchable_nonneg _ p hp (hw t' (by simp [ht']))
    have h3 := totalMatchable_nonneg t.orders p hp (hw t (by simp))
    unfold buildSide
    split
    · simp only [sumInt, List.map_cons]; omega
    · simp only [sumInt, List.map_cons]; omega

/-- **`MatchAtSinglePrice`: accounting.** The quote difference it returns is exactly what the buyers paid minus what the
sellers received; the buy side is filled for exactly the matchable amount `x`; the sell side too when nothing is lost -/
theorem matchAtSinglePrice_account (b : Book) (p : Int) (hp : 0 < p) (hb : BookOk b)
    (hnd : (∀ t ∈ b.buys, t.orders.Nodup) ∧ (∀ t ∈ b.sells, t.orders.Nodup))
    (b' : Book) (q : Int) (h : matchAtSinglePrice b p = .ok b' q) :
    ∃ x, findMatchableAmount b p = some x ∧ 0 < x ∧
      q = ticksQuote b.buys b'.buys + ticksQuote b.sells b'.sells ∧
      ticksFilled b.buys b'.buys = x ∧
      (ticksLossless b.sells x p = true → ticksFilled b.sells b'.sells = x) := by
  unfold matchAtSinglePrice at h
  cases hf : findMatchableAmount b p with
  | none => rw [hf] at h; cases h
  | some x =>
    rw [hf] at h
    simp only at h
    obtain ⟨hx, hxb, _⟩ := findMatchableAmount_bound b p hp hb x hf
    have hwb : ∀ t ∈ b.buys, ∀ o ∈ t.orders, Wf o := fun t ht o ho => (hb.1 t ht o ho).1
    have hws : ∀ t ∈ b.sells, ∀ o ∈ t.orders, Wf o := fun t ht o ho => (hb.2 t ht o ho).1
    cases h1 : distTicks b.buys x p with
    | none => rw [h1] at h; cases h
    | some r1 =>
      obtain ⟨buys', q1⟩ := r1
      rw [h1] at h
      simp only at h
      cases h2 : distTicks b.sells x p with
      | none => rw [h2] at h; cases h
      | some r2 =>
        obtain ⟨sells', q2⟩ := r2
        rw [h2] at h
        simp only [SRes.ok.injEq] at h
        obtain ⟨rfl, rfl⟩ := h
        obtain ⟨a1, a2⟩ := distTicks_account b.buys x p hp (by omega) hwb hnd.1 buys' q1 h1
        obtain ⟨c1, c2⟩ := distTicks_account b.sells x p hp (by omega) hws hnd.2 sells' q2 h2
        refine ⟨x, rfl, hx, by show q1 + q2 = ticksQuote b.buys buys' + ticksQuote b.sells sells'; omega, ?_, c2⟩
        show ticksFilled b.buys buys' = x
        apply a2
        apply ticksLossless_buys b.buys x p hp (by omega) hb.1
        have := buildSide_le_total false p hp b.buys hwb
        omega



/-! ### distinct order objects: every tick of `NewOrderBook(os…)` is duplicate-free -/

theorem insertTick_perm (incr : Bool) (x : Order) (ts : List Tick) :
    ((insertTick incr x ts).map (·.orders)).flatten.Perm (x :: (ts.map (·.orders)).flatten) := by
  induction ts with
  | nil => simp [insertTick]
  | cons t ts ih =>
    unfold insertTick
    split
    · simp only [List.map_cons, List.flatten_cons, List.append_assoc]
      -- t.orders ++ [x] ++ rest ~ x :: t.orders ++ rest
      have : (t.orders ++ ([x] ++ (ts.map (·.orders)).flatten)).Perm (x :: (t.orders ++ (ts.map (·.orders)).flatten)) := by
        simpa using (List.perm_middle (a := x) (l₁ := t.orders) (l₂ := (ts.map (·.orders)).flatten))
      exact this
    · by_cases hc : (if incr = true then decide (t.price > x.price) else decide (t.price < x.price)) = true
      · rw [if_pos hc]; simp
      · rw [if_neg hc]
        simp only [List.map_cons, List.flatten_cons]
        have h1 : (t.orders ++ ((insertTick incr x ts).map (·.orders)).flatten).Perm
            (t.orders ++ (x :: (ts.map (·.orders)).flatten)) := List.Perm.append_left _ ih
        exact h1.trans (List.perm_middle)

theorem newBook_nodup_aux (os : List Order) (b : Book) (hb : b.orders.Nodup) (hos : os.Nodup)
    (hdis : ∀ o ∈ os, o ∉ b.orders) : (os.foldl addOrder b).orders.Nodup := by
  induction os generalizing b with
  | nil => exact hb
  | cons x xs ih =>
    rw [List.nodup_cons] at hos
    simp only [List.foldl_cons]
    have hxb : x ∉ b.orders := hdis x (by simp)
    have hb' : (addOrder b x).orders.Nodup := by
      unfold addOrder
      split
      · cases hd : x.dir with
        | buy =>
          simp only [Book.orders]
          have hp := (insertTick_perm false x b.buys).append_right ((b.sells.map (·.orders)).flatten)
          rw [hp.nodup_iff]
          simp only [List.cons_append, List.nodup_cons]
          exact ⟨hxb, hb⟩
        | sell =>
          simp only [Book.orders]
          have hp := (insertTick_perm true x b.sells).append_left ((b.buys.map (·.orders)).flatten)
          rw [hp.nodup_iff]
          have hm : ((b.buys.map (·.orders)).flatten ++ x :: (b.sells.map (·.orders)).flatten).Perm
              (x :: ((b.buys.map (·.orders)).flatten ++ (b.sells.map (·.orders)).flatten)) := List.perm_middle
          rw [hm.nodup_iff, List.nodup_cons]
          exact ⟨hxb, hb⟩
      · exact hb
    apply ih (addOrder b x) hb' hos.2
    intro o ho hmem
    rcases mem_addOrder b x o hmem with e | e
    · subst e; exact hos.1 ho
    · exact hdis o (by simp [ho]) e

/-- distinct orders in, duplicate-free ticks out -/
theorem newBook_nodup (os : List Order) (hos : os.Nodup) :
    (∀ t ∈ (newBook os).buys, t.orders.Nodup) ∧ (∀ t ∈ (newBook os).sells, t.orders.Nodup) := by
  have h : (newBook os).orders.Nodup := newBook_nodup_aux os ⟨[], []⟩ (by simp [Book.orders]) hos (by simp [Book.orders])
  unfold Book.orders at h
  rw [List.nodup_append] at h
  constructor
  · intro t ht
    exact List.Nodup.sublist (List.sublist_flatten_of_mem (List.mem_map.mpr ⟨t, ht, rfl⟩)) h.1
  · intro t ht
    exact List.Nodup.sublist (List.sublist_flatten_of_mem (List.mem_map.mpr ⟨t, ht, rfl⟩)) h.2.1



/-! ## the two-sided loop of `Match` -/

/-! ### telescoping -/

theorem filledOf_trans {R S : Order → Order → Prop} {a b c : List Order} (h1 : All2 R a b) (h2 : All2 S b c) :
    filledOf a c = filledOf a b + filledOf b c := by
  induction a generalizing b c with
  | nil =>
    cases b with
    | nil => cases c with
      | nil => rfl
      | cons _ _ => exact h2.elim
    | cons _ _ => exact h1.elim
  | cons x xs ih =>
    cases b with
    | nil => exact h1.elim
    | cons y ys =>
      cases c with
      | nil => exact h2.elim
      | cons z zs =>
        have := ih h1.2 h2.2
        simp only [filledOf, List.zipWith_cons_cons, sumInt] at *
        omega

theorem quoteOf_trans {S : Order → Order → Prop} {a b c : List Order}
    (h1 : All2 (fun o o' => o'.dir = o.dir) a b) (h2 : All2 S b c) :
    quoteOf a c = quoteOf a b + quoteOf b c := by
  induction a generalizing b c with
  | nil =>
    cases b with
    | nil => cases c with
      | nil => rfl
      | cons _ _ => exact h2.elim
    | cons _ _ => exact h1.elim
  | cons x xs ih =>
    cases b with
    | nil => exact h1.elim
    | cons y ys =>
      cases c with
      | nil => exact h2.elim
      | cons z zs =>
        have := ih h1.2 h2.2
        have hd := h1.1
        simp only [quoteOf, List.zipWith_cons_cons, sumInt] at *
        rw [hd]
        split <;> omega

theorem all2_imp {α β : Type} {R S : α → β → Prop} (hrs : ∀ a b, R a b → S a b) {l₁ : List α} {l₂ : List β}
    (h : All2 R l₁ l₂) : All2 S l₁ l₂ := by
  induction l₁ generalizing l₂ with
  | nil => cases l₂ with
    | nil => trivial
    | cons _ _ => exact h.elim
  | cons a as ih => cases l₂ with
    | nil => exact h.elim
    | cons b bs => exact ⟨hrs _ _ h.1, ih h.2⟩

/-- fills keep directions and ids -/
theorem reach_static {os os' : List Order} (hw : ∀ o ∈ os, Wf o) (h : All2 Reach os os') :
    All2 (fun o o' => o'.dir = o.dir) os os' ∧ os'.map (·.id) = os.map (·.id) := by
  induction os generalizing os' with
  | nil => cases os' with
    | nil => exact ⟨trivial, rfl⟩
    | cons _ _ => exact h.elim
  | cons o os ih =>
    cases os' with
    | nil => exact h.elim
    | cons o' os' =>
      have d := reach_delta h.1 (hw o (by simp))
      obtain ⟨i1, i2⟩ := ih (fun x hx => hw x (by simp [hx])) h.2
      exact ⟨⟨d.dir_eq, i1⟩, by simp [d.id_eq, i2]⟩

theorem nodup_of_ids {os : List Order} (h : (os.map (·.id)).Nodup) : os.Nodup :=
  List.Pairwise.of_map (·.id) (fun a b hab e => hab (by rw [e])) h

theorem tickIds_of_reach {d : Dir} {t t' : Tick} (hok : TickOk d t) (hr : TickReach t t')
    (hn : (t.orders.map (·.id)).Nodup) : (t'.orders.map (·.id)).Nodup := by
  rw [(reach_static (fun o ho => (hok o ho).1) hr.2).2]; exact hn

theorem ticksFilled_cons (t t' : Tick) (ts ts' : List Tick) :
    ticksFilled (t :: ts) (t' :: ts') = filledOf t.orders t'.orders + ticksFilled ts ts' := by
  simp [ticksFilled, sumInt]

theorem ticksQuote_cons (t t' : Tick) (ts ts' : List Tick) :
    ticksQuote (t :: ts) (t' :: ts') = quoteOf t.orders t'.orders + ticksQuote ts ts' := by
  simp [ticksQuote, sumInt]

/-- one tick that was distributed to (`t → t₁`) and then evolved further inside the rest of the loop (`t₁ :: ts → r`) -/
theorem ticks_head_trans {d : Dir} (t : Tick) (os₁ : List Order) (ts r : List Tick)
    (hok : TickOk d t) (h1 : All2 Reach t.orders os₁)
    (h2 : All2 TickReach ({ t with orders := os₁ } :: ts) r) :
    ticksFilled (t :: ts) r = filledOf t.orders os₁ + ticksFilled ({ t with orders := os₁ } :: ts) r ∧
    ticksQuote (t :: ts) r = quoteOf t.orders os₁ + ticksQuote ({ t with orders := os₁ } :: ts) r := by
  cases r with
  | nil => exact h2.elim
  | cons t2 r' =>
    have hst := reach_static (fun o ho => (hok o ho).1) h1
    rw [ticksFilled_cons, ticksFilled_cons, ticksQuote_cons, ticksQuote_cons]
    have e1 := filledOf_trans h1 h2.1.2
    have e2 := quoteOf_trans hst.1 h2.1.2
    simp only at e1 e2 ⊢
    constructor <;> omega

/-- **the two-sided loop of `Match`: accounting.** Its quote difference is exactly buyers' payments minus sellers'
receipts; buyers receive exactly what sellers pay when no sell-side distribution lost a remainder (`r.lossless`) -/
theorem matchLoop_account (fuel : Nat) (incr : Bool) (bs ss : List Tick)
    (hb : ∀ t ∈ bs, TickOk .buy t) (hs : ∀ t ∈ ss, TickOk .sell t)
    (hbn : ∀ t ∈ bs, (t.orders.map (·.id)).Nodup) (hsn : ∀ t ∈ ss, (t.orders.map (·.id)).Nodup)
    (r : LoopRes) (h : matchLoop fuel incr bs ss = some r) :
    r.q = ticksQuote bs r.buys + ticksQuote ss r.sells ∧
    (r.lossless = true → ticksFilled bs r.buys = ticksFilled ss r.sells) := by
  have base : ∀ (bs ss : List Tick), (⟨bs, ss, 0, none, true⟩ : LoopRes).q = ticksQuote bs bs + ticksQuote ss ss ∧
      (true = true → ticksFilled bs bs = ticksFilled ss ss) := by
    intro bs ss
    simp [ticksQuote_self, ticksFilled_self]
  induction fuel generalizing bs ss r with
  | zero => unfold matchLoop at h; cases h; exact base bs ss
  | succ fuel ih =>
    cases bs with
    | nil => unfold matchLoop at h; cases h; exact base _ _
    | cons bt bts =>
      cases ss with
      | nil => unfold matchLoop at h; cases h; exact base _ _
      | cons st sts =>
        have hbt := hb bt (by simp)
        have hst := hs st (by simp)
        have hbts : ∀ t ∈ bts, TickOk .buy t := fun t ht => hb t (by simp [ht])
        have hsts : ∀ t ∈ sts, TickOk .sell t := fun t ht => hs t (by simp [ht])
        have hbnt := hbn bt (by simp)
        have hsnt := hsn st (by simp)
        have hbnts : ∀ t ∈ bts, (t.orders.map (·.id)).Nodup := fun t ht => hbn t (by simp [ht])
        have hsnts : ∀ t ∈ sts, (t.orders.map (·.id)).Nodup := fun t ht => hsn t (by simp [ht])
        unfold matchLoop at h
        simp only at h
        generalize hpd : (if incr = true then st.price else bt.price) = p at *
        split at h
        · cases h; exact base _ _
        · rename_i hcross
          split at h
          · -- the buy tick has nothing matchable: skip it
            cases hr : matchLoop fuel incr bts (st :: sts) with
            | none => rw [hr] at h; cases h
            | some r' =>
              rw [hr] at h
              cases h
              obtain ⟨i1, i2⟩ := ih bts (st :: sts) hbts hs hbnts hsn r' hr
              simp only [ticksQuote_cons, ticksFilled_cons, quoteOf_self, filledOf_self]
              exact ⟨by omega, fun hl => by have := i2 hl; omega⟩
          · rename_i hbo
            split at h
            · cases hr : matchLoop fuel incr (bt :: bts) sts with
              | none => rw [hr] at h; cases h
              | some r' =>
                rw [hr] at h
                cases h
                obtain ⟨i1, i2⟩ := ih (bt :: bts) sts hb hsts hbn hsnts r' hr
                simp only [ticksQuote_cons, ticksFilled_cons, quoteOf_self, filledOf_self]
                exact ⟨by omega, fun hl => by have := i2 hl; omega⟩
            · rename_i hso
              have hbo' : 0 < totalMatchable bt.orders p := by omega
              have hso' : 0 < totalMatchable st.orders p := by omega
              have hbp := tick_price_pos hbt p hbo'
              have hsp := tick_price_pos hst p hso'
              have hp : 0 < p := by rw [← hpd]; split <;> assumption
              have hpb : p ≤ bt.price := by rw [← hpd]; split <;> omega
              have hps : st.price ≤ p := by rw [← hpd]; split <;> omega
              have hwb := within_of_tickOk hbt p (fun _ => hpb) (fun h => by cases h)
              have hws := within_of_tickOk hst p (fun h => by cases h) (fun _ => hps)
              generalize hXb : (if totalMatchable bt.orders p ≤ totalMatchable st.orders p then totalMatchable bt.orders p
                 else totalMatchable st.orders p) = Xb at *
              generalize hXs : (if totalMatchable st.orders p ≤ totalMatchable bt.orders p then totalMatchable st.orders p
                 else totalMatchable bt.orders p) = Xs at *
              have hXb0 : 0 ≤ Xb := by rw [← hXb]; split <;> omega
              have hXs0 : 0 ≤ Xs := by rw [← hXs]; split <;> omega
              have hXeq : Xb = Xs := by rw [← hXb, ← hXs]; split <;> split <;> omega
              have hXble : Xb ≤ totalMatchable bt.orders p := by rw [← hXb]; split <;> omega
              obtain ⟨bos, q1, hd1, rb⟩ := distributeToTick_ok bt.orders Xb p hp hXb0 hwb
              obtain ⟨sos, q2, hd2, rs⟩ := distributeToTick_ok st.orders Xs p hp hXs0 hws
              rw [hd1] at h; simp only at h; rw [hd2] at h; simp only at h
              obtain ⟨a1, a2⟩ := distributeToTick_account bt.orders Xb p hp hXb0 (fun o ho => (hwb o ho).1)
                (nodup_of_ids hbnt) bos q1 hd1
              obtain ⟨c1, c2⟩ := distributeToTick_account st.orders Xs p hp hXs0 (fun o ho => (hws o ho).1)
                (nodup_of_ids hsnt) sos q2 hd2
              have hbl : groupsLossless (groupOrders bt.orders) Xb p = true := by
                apply groupsLossless_buys _ Xb p hp hXb0
                · intro g hg o ho
                  have := hbt o (mem_groupOrders bt.orders g hg o ho)
                  exact ⟨this.1, this.2.1⟩
                · rw [sum_groupOrders]; exact hXble
              have hbf := a2 hbl
              have rbt : TickReach bt { bt with orders := bos } := ⟨rfl, rb⟩
              have rst : TickReach st { st with orders := sos } := ⟨rfl, rs⟩
              have hbt' := tickOk_of_reach hbt rbt
              have hst' := tickOk_of_reach hst rst
              have hbn' := tickIds_of_reach hbt rbt hbnt
              have hsn' := tickIds_of_reach hst rst hsnt
              by_cases k1 : totalMatchable bt.orders p ≤ totalMatchable st.orders p
              · by_cases k2 : totalMatchable st.orders p ≤ totalMatchable bt.orders p
                · simp only [k1, k2, if_true] at h
                  cases hr : matchLoop fuel incr bts sts with
                  | none => rw [hr] at h; cases h
                  | some r' =>
                    rw [hr] at h
                    cases h
                    obtain ⟨i1, i2⟩ := ih bts sts hbts hsts hbnts hsnts r' hr
                    simp only [ticksQuote_cons, ticksFilled_cons, Bool.and_eq_true]
                    refine ⟨by omega, ?_⟩
                    intro hl
                    have := i2 hl.2
                    have := c2 hl.1
                    omega
                · simp only [k1, k2, if_true, if_false] at h
                  cases hr : matchLoop fuel incr bts ({ st with orders := sos } :: sts) with
                  | none => rw [hr] at h; cases h
                  | some r' =>
                    rw [hr] at h
                    cases h
                    have hs2 : ∀ t ∈ ({ st with orders := sos } : Tick) :: sts, TickOk .sell t := by
                      intro t ht; rcases List.mem_cons.mp ht with rfl | ht; exact hst'; exact hsts t ht
                    have hsn2 : ∀ t ∈ ({ st with orders := sos } : Tick) :: sts, (t.orders.map (·.id)).Nodup := by
                      intro t ht; rcases List.mem_cons.mp ht with rfl | ht; exact hsn'; exact hsnts t ht
                    obtain ⟨i1, i2⟩ := ih bts _ hbts hs2 hbnts hsn2 r' hr
                    obtain ⟨r'', hr'', _, rr2⟩ := matchLoop_ok fuel incr bts _ hbts hs2
                    rw [hr] at hr''; cases hr''
                    obtain ⟨t1, t2⟩ := ticks_head_trans st sos sts r'.sells hst rs rr2
                    simp only [ticksQuote_cons, ticksFilled_cons, Bool.and_eq_true]
                    refine ⟨by omega, ?_⟩
                    intro hl
                    have := i2 hl.2
                    have := c2 hl.1
                    omega
              · have k2 : totalMatchable st.orders p ≤ totalMatchable bt.orders p := by omega
                simp only [k1, k2, if_true, if_false] at h
                cases hr : matchLoop fuel incr ({ bt with orders := bos } :: bts) sts with
                | none => rw [hr] at h; cases h
                | some r' =>
                  rw [hr] at h
                  cases h
                  have hb2 : ∀ t ∈ ({ bt with orders := bos } : Tick) :: bts, TickOk .buy t := by
                    intro t ht; rcases List.mem_cons.mp ht with rfl | ht; exact hbt'; exact hbts t ht
                  have hbn2 : ∀ t ∈ ({ bt with orders := bos } : Tick) :: bts, (t.orders.map (·.id)).Nodup := by
                    intro t ht; rcases List.mem_cons.mp ht with rfl | ht; exact hbn'; exact hbnts t ht
                  obtain ⟨i1, i2⟩ := ih _ sts hb2 hsts hbn2 hsnts r' hr
                  obtain ⟨r'', hr'', rr1, _⟩ := matchLoop_ok fuel incr _ sts hb2 hsts
                  rw [hr] at hr''; cases hr''
                  obtain ⟨t1, t2⟩ := ticks_head_trans bt bos bts r'.buys hbt rb rr1
                  simp only [ticksQuote_cons, ticksFilled_cons, Bool.and_eq_true]
                  refine ⟨by omega, ?_⟩
                  intro hl
                  have := i2 hl.2
                  have := c2 hl.1
                  omega



theorem ticks_trans {d : Dir} {a b c : List Tick} (hok : ∀ t ∈ a, TickOk d t)
    (h1 : All2 TickReach a b) (h2 : All2 TickReach b c) :
    ticksFilled a c = ticksFilled a b + ticksFilled b c ∧ ticksQuote a c = ticksQuote a b + ticksQuote b c := by
  induction a generalizing b c with
  | nil =>
    cases b with
    | nil => cases c with
      | nil => simp [ticksFilled, ticksQuote, sumInt]
      | cons _ _ => exact h2.elim
    | cons _ _ => exact h1.elim
  | cons x xs ih =>
    cases b with
    | nil => exact h1.elim
    | cons y ys =>
      cases c with
      | nil => exact h2.elim
      | cons z zs =>
        obtain ⟨i1, i2⟩ := ih (fun t ht => hok t (by simp [ht])) h1.2 h2.2
        have hst := reach_static (fun o ho => (hok x (by simp) o ho).1) h1.1.2
        have e1 := filledOf_trans h1.1.2 h2.1.2
        have e2 := quoteOf_trans hst.1 h2.1.2
        simp only [ticksFilled_cons, ticksQuote_cons]
        constructor <;> omega

/-- **`OrderBook.Match`: accounting.** The returned `quoteCoinDiff` is exactly the quote coin paid by the buyers minus the
quote coin received by the sellers; buyers receive exactly as much base coin as sellers pay when no sell-side distribution
lost a remainder (`matchLossless`, decidable ghost) -/
theorem matchBook_account (b : Book) (lp : Int) (hlp : 0 < lp) (hb : BookOk b)
    (hn : (∀ t ∈ b.buys, (t.orders.map (·.id)).Nodup) ∧ (∀ t ∈ b.sells, (t.orders.map (·.id)).Nodup))
    (b' : Book) (mp q : Int) (h : matchBook b lp = .ok b' mp q) :
    q = ticksQuote b.buys b'.buys + ticksQuote b.sells b'.sells ∧
    (matchLossless b lp = true → ticksFilled b.buys b'.buys = ticksFilled b.sells b'.sells) := by
  have hnd : (∀ t ∈ b.buys, t.orders.Nodup) ∧ (∀ t ∈ b.sells, t.orders.Nodup) :=
    ⟨fun t ht => nodup_of_ids (hn.1 t ht), fun t ht => nodup_of_ids (hn.2 t ht)⟩
  unfold matchBook at h
  unfold matchLossless
  split at h
  · cases h
  · rcases matchAtSinglePrice_ok b lp hlp hb with hs | ⟨b1, q0, hs, r0⟩
    · -- nothing matched at the last price
      have hfn : findMatchableAmount b lp = none := by
        unfold matchAtSinglePrice at hs
        cases hf : findMatchableAmount b lp with
        | none => rfl
        | some x =>
          rw [hf] at hs
          simp only at hs
          cases h1 : distTicks b.buys x lp with
          | none => rw [h1] at hs; cases hs
          | some r1 =>
            rw [h1] at hs
            simp only at hs
            cases h2 : distTicks b.sells x lp with
            | none => rw [h2] at hs; cases hs
            | some r2 => rw [h2] at hs; cases hs
      rw [hs] at h ⊢
      rw [hfn]
      simp only at h ⊢
      split at h
      · cases h
      · rename_i hdir
        rw [if_neg hdir]
        cases hr : matchLoop (b.buys.length + b.sells.length) (priceDirection b lp == PDir.increasing) b.buys b.sells with
        | none => rw [hr] at h; cases h
        | some r =>
          rw [hr] at h
          simp only at h ⊢
          obtain ⟨a1, a2⟩ := matchLoop_account _ _ b.buys b.sells hb.1 hb.2 hn.1 hn.2 r hr
          cases hl : r.last with
          | none => rw [hl] at h; simp at h
          | some m =>
            rw [hl] at h
            simp only [MRes.ok.injEq] at h
            obtain ⟨rfl, rfl, rfl⟩ := h
            exact ⟨by simp only; omega, fun hx => a2 (by simpa using hx)⟩
    · obtain ⟨x, hx1, hx2, hx3, hx4, hx5⟩ := matchAtSinglePrice_account b lp hlp hb hnd b1 q0 hs
      rw [hs] at h ⊢
      rw [hx1]
      simp only at h ⊢
      split at h
      · rename_i hdir
        rw [if_pos hdir]
        simp only [MRes.ok.injEq] at h
        obtain ⟨rfl, rfl, rfl⟩ := h
        exact ⟨hx3, fun hl => by rw [hx4, hx5 hl]⟩
      · rename_i hdir
        rw [if_neg hdir]
        have hb1 := bookOk_of_reach hb r0
        have hn1 : (∀ t ∈ b1.buys, (t.orders.map (·.id)).Nodup) ∧ (∀ t ∈ b1.sells, (t.orders.map (·.id)).Nodup) := by
          constructor
          · intro t' ht'
            obtain ⟨t, ht, r⟩ := all2_mem_right r0.1 ht'
            exact tickIds_of_reach (hb.1 t ht) r (hn.1 t ht)
          · intro t' ht'
            obtain ⟨t, ht, r⟩ := all2_mem_right r0.2 ht'
            exact tickIds_of_reach (hb.2 t ht) r (hn.2 t ht)
        cases hr : matchLoop (b1.buys.length + b1.sells.length) (priceDirection b lp == PDir.increasing) b1.buys b1.sells with
        | none => rw [hr] at h; cases h
        | some r =>
          rw [hr] at h
          simp only at h ⊢
          obtain ⟨a1, a2⟩ := matchLoop_account _ _ b1.buys b1.sells hb1.1 hb1.2 hn1.1 hn1.2 r hr
          obtain ⟨r', hr', rr1, rr2⟩ := matchLoop_ok (b1.buys.length + b1.sells.length)
            (priceDirection b lp == PDir.increasing) b1.buys b1.sells hb1.1 hb1.2
          rw [hr] at hr'; cases hr'
          obtain ⟨tb1, tb2⟩ := ticks_trans hb.1 r0.1 rr1
          obtain ⟨ts1, ts2⟩ := ticks_trans hb.2 r0.2 rr2
          have hfin : (match r.last with
              | some mp => MRes.ok ⟨r.buys, r.sells⟩ mp (q0 + r.q)
              | none => if true = true then MRes.ok ⟨r.buys, r.sells⟩ lp (q0 + r.q) else MRes.noMatch) = MRes.ok b' mp q → 
              b' = ⟨r.buys, r.sells⟩ ∧ q = q0 + r.q := by
            intro hh
            cases hl : r.last with
            | none => rw [hl] at hh; simp at hh; exact ⟨hh.1.symm, hh.2.2.symm⟩
            | some m => rw [hl] at hh; simp at hh; exact ⟨hh.1.symm, hh.2.2.symm⟩
          obtain ⟨rfl, rfl⟩ := hfin h
          refine ⟨by simp only; omega, ?_⟩
          intro hl
          simp only [Bool.and_eq_true] at hl
          have := a2 hl.2
          have := hx5 hl.1
          simp only
          omega



theorem newBook_ids_aux (os : List Order) (b : Book) (hb : (b.orders.map (·.id)).Nodup) (hos : (os.map (·.id)).Nodup)
    (hdis : ∀ o ∈ os, o.id ∉ b.orders.map (·.id)) : ((os.foldl addOrder b).orders.map (·.id)).Nodup := by
  induction os generalizing b with
  | nil => exact hb
  | cons x xs ih =>
    simp only [List.map_cons, List.nodup_cons] at hos
    simp only [List.foldl_cons]
    have hxb : x.id ∉ b.orders.map (·.id) := hdis x (by simp)
    have hb' : ((addOrder b x).orders.map (·.id)).Nodup := by
      unfold addOrder
      split
      · cases hd : x.dir with
        | buy =>
          simp only [Book.orders]
          have hp := ((insertTick_perm false x b.buys).append_right ((b.sells.map (·.orders)).flatten)).map (·.id)
          rw [hp.nodup_iff]
          simp only [List.cons_append, List.map_cons, List.nodup_cons]
          exact ⟨hxb, hb⟩
        | sell =>
          simp only [Book.orders]
          have hp := ((insertTick_perm true x b.sells).append_left ((b.buys.map (·.orders)).flatten)).map (·.id)
          rw [hp.nodup_iff]
          have hm : (((b.buys.map (·.orders)).flatten ++ x :: (b.sells.map (·.orders)).flatten).map (·.id)).Perm
              ((x :: ((b.buys.map (·.orders)).flatten ++ (b.sells.map (·.orders)).flatten)).map (·.id)) :=
            (List.perm_middle).map _
          rw [hm.nodup_iff, List.map_cons, List.nodup_cons]
          exact ⟨hxb, hb⟩
      · exact hb
    apply ih (addOrder b x) hb' hos.2
    intro o ho hmem
    rw [List.mem_map] at hmem
    obtain ⟨o2, ho2, hid⟩ := hmem
    rcases mem_addOrder b x o2 ho2 with e | e
    · subst e
      exact hos.1 (by rw [hid]; exact List.mem_map.mpr ⟨o, ho, rfl⟩)
    · exact hdis o (by simp [ho]) (List.mem_map.mpr ⟨o2, e, hid⟩)

/-- distinct order ids in, ticks with distinct ids out -/
theorem newBook_ids (os : List Order) (hos : (os.map (·.id)).Nodup) :
    (∀ t ∈ (newBook os).buys, (t.orders.map (·.id)).Nodup) ∧ (∀ t ∈ (newBook os).sells, (t.orders.map (·.id)).Nodup) := by
  have h : ((newBook os).orders.map (·.id)).Nodup :=
    newBook_ids_aux os ⟨[], []⟩ (by simp [Book.orders]) hos (by simp [Book.orders])
  unfold Book.orders at h
  rw [List.map_append, List.nodup_append] at h
  constructor
  · intro t ht
    exact List.Nodup.sublist ((List.sublist_flatten_of_mem (List.mem_map.mpr ⟨t, ht, rfl⟩)).map _) h.1
  · intro t ht
    exact List.Nodup.sublist ((List.sublist_flatten_of_mem (List.mem_map.mpr ⟨t, ht, rfl⟩)).map _) h.2.1


end Comdex.Amm
