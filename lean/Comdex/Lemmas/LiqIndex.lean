import Comdex.Lemmas.LiqOrders
/-!
Index completeness of the liquidity ledger model (C07): in every reachable state

* order keys `(appId, pairId, id)` are unique in the order store,
* every order's id is at most its pair's `lastOrderId` (so a freshly allotted id is new),
* every LIVE market-making order is listed in the market-making index of its owner for its (app, pair).

`IdxInv` is preserved by every operation of the model (placement, fills, expiry, cancel, cancel-all, MM cancel, MM replace,
begin-block pruning, …) when the lookup of `cancelMMOrder` is the repaired one (`Cfg.swapLookup = false`); with it,
`MsgCancelMMOrder` / `MsgMMOrder` are shown to end EVERY market-making order of the owner in the pair, with no premise about the
index.  Core Lean only.
-/
namespace Comdex.LiqLedger

/-! ### states that agree on orders, pairs and MM indexes -/

def OrdSame (s s' : State) : Prop := s'.orders = s.orders ∧ s'.pairs = s.pairs ∧ s'.mm = s.mm

theorem OrdSame.refl (s : State) : OrdSame s s := ⟨rfl, rfl, rfl⟩

theorem OrdSame.trans {s1 s2 s3 : State} (h1 : OrdSame s1 s2) (h2 : OrdSame s2 s3) : OrdSame s1 s3 :=
  ⟨h2.1.trans h1.1, h2.2.1.trans h1.2.1, h2.2.2.trans h1.2.2⟩

theorem os_send {s s' : State} {f t : Acct} {d : Denom} {n : Nat} (h : s.send f t d n = some s') : OrdSame s s' :=
  ⟨(State.send_fields h).2.2.2.2.1, (State.send_fields h).1, (State.send_fields h).2.2.2.2.2.1⟩

theorem os_fold {α : Type} {f : State → α → Option State} (hf : ∀ s x s', f s x = some s' → OrdSame s s') :
    ∀ (l : List α) (s s' : State), foldOpt f s l = some s' → OrdSame s s' := by
  intro l
  induction l with
  | nil => intro s s' h; simp [foldOpt] at h; subst h; exact OrdSame.refl _
  | cons x t ih =>
    intro s s' h
    simp only [foldOpt] at h
    cases hx : f s x with
    | none => simp [hx] at h
    | some s1 => simp [hx] at h; exact (hf s x s1 hx).trans (ih s1 s' h)

/-! ### the invariant -/

structure IdxOk (os : List Order) (ps : List Pair) (mm : List MMIndex) : Prop where
  /-- order keys are unique -/
  uniq : (os.map Order.key).Nodup
  /-- ids have been allotted by the pair's counter -/
  bound : ∀ o ∈ os, ∃ p, findBy (isPair o.app o.pair) ps = some p ∧ o.id ≤ p.lastOrderId
  /-- index completeness: every live market-making order is in its owner's index for the (app, pair) -/
  complete : ∀ o ∈ os, o.typ = .mm → o.status.live = true →
    ∃ idx, findBy (isMM o.app o.pair o.owner) mm = some idx ∧ o.id ∈ idx.ids

def IdxInv (s : State) : Prop := IdxOk s.orders s.pairs s.mm

theorem IdxInv.of_same {s s' : State} (hi : IdxInv s) (h : OrdSame s s') : IdxInv s' := by
  unfold IdxInv; rw [h.1, h.2.1, h.2.2]; exact hi

theorem isO_iff (k : OKey) (x : Order) : isO k x = true ↔ x.key = k := by
  obtain ⟨a, p, i⟩ := k
  simp [isO, Order.key, and_assoc]

/-- with unique keys the store lookup of an order's key returns that very order -/
theorem findBy_key_of_mem : ∀ {l : List Order}, (l.map Order.key).Nodup → ∀ {o : Order}, o ∈ l → findBy (isO o.key) l = some o := by
  intro l
  induction l with
  | nil => intro _ o h; cases h
  | cons x t ih =>
    intro hn o ho
    simp only [List.map_cons, List.nodup_cons] at hn
    rcases List.mem_cons.mp ho with rfl | hot
    · simp [findBy, (isO_iff _ _).2 rfl]
    · have hne : isO o.key x = false := by
        cases hx : isO o.key x with
        | false => rfl
        | true =>
          exfalso; apply hn.1
          rw [(isO_iff _ _).1 hx]
          exact List.mem_map.mpr ⟨o, hot, rfl⟩
      simp [findBy, hne, ih hn.2 hot]

theorem IdxInv.lookup {s : State} (hi : IdxInv s) {o : Order} (h : o ∈ s.orders) : s.order? o.key = some o :=
  findBy_key_of_mem hi.uniq h

/-! ### modifications that keep the invariant -/

/-- a modification of ONE stored order that keeps its identity (key, owner, type) and does not revive it -/
theorem map_key_modBy (k : OKey) (g : Order → Order) (hg : ∀ x, (g x).key = x.key) :
    ∀ l : List Order, (modBy (isO k) g l).map Order.key = l.map Order.key := by
  intro l
  induction l with
  | nil => rfl
  | cons x t ih => by_cases hx : isO k x = true <;> simp [modBy, hx, hg, ih]

theorem IdxOk.modO {os : List Order} {ps : List Pair} {mm : List MMIndex} (h : IdxOk os ps mm) (k : OKey) (g : Order → Order)
    (hg : ∀ x, (g x).app = x.app ∧ (g x).pair = x.pair ∧ (g x).id = x.id ∧ (g x).owner = x.owner ∧ (g x).typ = x.typ)
    (hl : ∀ x, findBy (isO k) os = some x → (g x).status.live = true → x.status.live = true) :
    IdxOk (modBy (isO k) g os) ps mm := by
  refine ⟨?_, ?_, ?_⟩
  · rw [map_key_modBy k g (fun x => by simp [Order.key, (hg x).1, (hg x).2.1, (hg x).2.2.1])]
    exact h.uniq
  · apply forall_modBy h.bound
    intro x hx
    have hm := (findBy_some_prop hx).2
    obtain ⟨p, hp, hle⟩ := h.bound x hm
    obtain ⟨e1, e2, e3, -, -⟩ := hg x
    exact ⟨p, by rw [e1, e2]; exact hp, by rw [e3]; exact hle⟩
  · apply forall_modBy h.complete
    intro x hx ht hlive
    have hm := (findBy_some_prop hx).2
    obtain ⟨e1, e2, e3, e4, e5⟩ := hg x
    obtain ⟨idx, hidx, hmem⟩ := h.complete x hm (by rw [← e5]; exact ht) (hl x hx hlive)
    exact ⟨idx, by rw [e1, e2, e4]; exact hidx, by rw [e3]; exact hmem⟩

theorem isPair_iff (a p : Nat) (x : Pair) : isPair a p x = true ↔ x.app = a ∧ x.id = p := by
  simp [isPair]

/-- a modification of one pair record that keeps its key and does not lower the order-id counter -/
theorem IdxOk.modPair {os : List Order} {ps : List Pair} {mm : List MMIndex} (h : IdxOk os ps mm) (a p : Nat) (g : Pair → Pair)
    (hg : ∀ x, (g x).app = x.app ∧ (g x).id = x.id)
    (hl : ∀ x, findBy (isPair a p) ps = some x → x.lastOrderId ≤ (g x).lastOrderId) :
    IdxOk os (modBy (isPair a p) g ps) mm := by
  refine ⟨h.uniq, ?_, h.complete⟩
  intro o ho
  obtain ⟨pp, hpp, hle⟩ := h.bound o ho
  have hk : ∀ a' p' x, isPair a' p' (g x) = isPair a' p' x := by
    intro a' p' x; simp [isPair, (hg x).1, (hg x).2]
  by_cases hc : o.app = a ∧ o.pair = p
  · obtain ⟨rfl, rfl⟩ := hc
    refine ⟨g pp, ?_, Nat.le_trans hle (hl pp hpp)⟩
    rw [findBy_modBy_same (hk _ _), hpp]; rfl
  · refine ⟨pp, ?_, hle⟩
    rw [findBy_modBy_other (hk _ _)]
    · exact hpp
    · intro x hx
      obtain ⟨h1, h2⟩ := (isPair_iff _ _ _).1 hx
      cases hq : isPair o.app o.pair x with
      | false => rfl
      | true =>
        obtain ⟨g1, g2⟩ := (isPair_iff _ _ _).1 hq
        exact absurd ⟨g1.symm.trans h1, g2.symm.trans h2⟩ hc

/-- removing orders that are not live (begin-block pruning) -/
theorem IdxOk.filter {os : List Order} {ps : List Pair} {mm : List MMIndex} (h : IdxOk os ps mm) (q : Order → Bool) :
    IdxOk (os.filter q) ps mm := by
  refine ⟨?_, fun o ho => h.bound o (List.mem_filter.mp ho).1, fun o ho => h.complete o (List.mem_filter.mp ho).1⟩
  exact List.Nodup.sublist (List.Sublist.map _ List.filter_sublist) h.uniq

/-! ### `FinishOrder` -/

theorem mm_finishOrder {cfg : Cfg} {s s' : State} {k : OKey} {st : OStatus} (h : finishOrder cfg s k st = some s') :
    s'.mm = s.mm := by
  unfold finishOrder at h
  split at h; · cases h
  split at h; · cases h; rfl
  split at h; · cases h
  simp only [] at h
  split at h; · cases h
  rename_i s1 h1
  split at h; · cases h
  rename_i s2 h2
  cases h
  show s2.mm = _
  rw [(State.send_fields h2).2.2.2.2.2.1, (State.send_fields h1).2.2.2.2.2.1]

theorem finishOrder_idx {cfg : Cfg} {s s' : State} {k : OKey} {st : OStatus} (hst : st.live = false) (hi : IdxInv s)
    (h : finishOrder cfg s k st = some s') : IdxInv s' := by
  have hp := pairs_finishOrder h
  have hm := mm_finishOrder h
  obtain ⟨o, ho, hc⟩ := finishOrder_orders h
  rcases hc with ⟨-, he⟩ | ⟨-, r, f, he⟩
  · subst he; exact hi
  · unfold IdxInv
    rw [hp, hm, he]
    apply hi.modO
    · intro x; exact ⟨rfl, rfl, rfl, rfl, rfl⟩
    · intro x _ hl; simp only [hst] at hl; cases hl

theorem idx_fold {α : Type} {f : State → α → Option State} (hf : ∀ s x s', IdxInv s → f s x = some s' → IdxInv s') :
    ∀ (l : List α) (s s' : State), IdxInv s → foldOpt f s l = some s' → IdxInv s' :=
  foldOpt_preserves hf

/-! ### operations that do not touch orders, pairs or MM indexes -/

theorem os_createPool {cfg : Cfg} {s s' : State} {app creator pair : Nat} {ranged : Bool} {dx dy ammPs : Nat} {ext : Bool}
    (h : createPool cfg s app creator pair ranged dx dy ammPs ext = some s') : OrdSame s s' := by
  unfold createPool at h
  split at h; · cases h
  split at h; · cases h
  split at h; · cases h
  split at h; · cases h
  simp only [] at h
  split at h; · cases h
  split at h; · cases h
  split at h; · cases h
  split at h; · cases h
  split at h; · cases h
  rename_i s1 h1
  split at h; · cases h
  rename_i s2 h2
  split at h; · cases h
  rename_i s3 h3
  have h4 := os_send h
  exact (os_send h1).trans ((os_send h2).trans ((os_send h3).trans ⟨h4.1, h4.2.1, h4.2.2⟩))

theorem os_depositReq {cfg : Cfg} {s s' : State} {app user pool dx dy : Nat} {ext : Bool} {id : Nat}
    (h : depositReq cfg s app user pool dx dy ext = some (s', id)) : OrdSame s s' := by
  unfold depositReq at h
  split at h; · cases h
  split at h; · cases h
  split at h; · cases h
  split at h; · cases h
  split at h; · cases h
  split at h; · cases h
  split at h; · cases h
  rename_i s1 h1
  split at h; · cases h
  rename_i s2 h2
  simp only [Option.some.injEq, Prod.mk.injEq] at h
  obtain ⟨h, -⟩ := h
  subst h
  exact (os_send h1).trans ((os_send h2).trans ⟨rfl, rfl, rfl⟩)

theorem os_withdrawReq {cfg : Cfg} {s s' : State} {app user pool pc : Nat} {ext : Bool} {id : Nat}
    (h : withdrawReq cfg s app user pool pc ext = some (s', id)) : OrdSame s s' := by
  unfold withdrawReq at h
  split at h; · cases h
  split at h; · cases h
  split at h; · cases h
  split at h; · cases h
  split at h; · cases h
  split at h; · cases h
  rename_i s1 h1
  simp only [Option.some.injEq, Prod.mk.injEq] at h
  obtain ⟨h, -⟩ := h
  subst h
  exact (os_send h1).trans ⟨rfl, rfl, rfl⟩

theorem os_failDep {s s' : State} {r : DepReq} (h : failDep s r = some s') : OrdSame s s' := by
  unfold failDep at h
  split at h; · cases h
  rename_i s1 h1
  split at h; · cases h
  rename_i s2 h2
  cases h
  exact (os_send h1).trans ((os_send h2).trans ⟨rfl, rfl, rfl⟩)

theorem os_execDeposit {s s' : State} {a pl i ax ay pc : Nat} (h : execDeposit s a pl i ax ay pc = some s') : OrdSame s s' := by
  unfold execDeposit at h
  split at h; · cases h
  split at h; · cases h; exact OrdSame.refl _
  split at h; · cases h
  split at h; · exact os_failDep h
  split at h; · cases h
  split at h; · exact OrdSame.trans (s2 := s.modPool a pl fun q => { q with disabled := true }) ⟨rfl, rfl, rfl⟩ (os_failDep h)
  split at h; · exact os_failDep h
  split at h; · cases h
  simp only [] at h
  split at h; · cases h
  rename_i s2 h2
  split at h; · cases h
  rename_i s3 h3
  split at h; · cases h
  rename_i s4 h4
  split at h; · cases h
  rename_i s5 h5
  split at h; · cases h
  rename_i s6 h6
  cases h
  exact OrdSame.trans (s2 := s.mint a pl pc) ⟨rfl, rfl, rfl⟩ ((os_send h2).trans ((os_send h3).trans
    ((os_send h4).trans ((os_send h5).trans ((os_send h6).trans ⟨rfl, rfl, rfl⟩)))))

theorem os_failWdr {s s' : State} {r : WdrReq} (h : failWdr s r = some s') : OrdSame s s' := by
  unfold failWdr at h
  split at h; · cases h
  rename_i s1 h1
  cases h
  exact (os_send h1).trans ⟨rfl, rfl, rfl⟩

theorem os_burn {s s' : State} {a p n : Nat} (h : s.burn a p n = some s') : OrdSame s s' := by
  unfold State.burn at h
  split at h
  · split at h; · cases h
    split at h
    · cases h; exact ⟨rfl, rfl, rfl⟩
    · cases h
  · cases h

theorem os_execWithdraw {s s' : State} {a pl i x y : Nat} (h : execWithdraw s a pl i x y = some s') : OrdSame s s' := by
  unfold execWithdraw at h
  split at h; · cases h
  split at h; · cases h; exact OrdSame.refl _
  split at h; · cases h
  split at h; · exact os_failWdr h
  split at h; · cases h
  split at h; · exact OrdSame.trans (s2 := s.modPool a pl fun q => { q with disabled := true }) ⟨rfl, rfl, rfl⟩ (os_failWdr h)
  split at h; · exact os_failWdr h
  split at h; · cases h
  rename_i s1 h1
  split at h; · cases h
  rename_i s2 h2
  split at h; · cases h
  rename_i s3 h3
  split at h; · cases h
  rename_i s4 h4
  cases h
  refine (os_send h1).trans ((os_send h2).trans ((os_send h3).trans ((os_burn h4).trans ?_)))
  refine ⟨?_, ?_, ?_⟩
  · show (if _ then _ else s4).orders = s4.orders
    split <;> rfl
  · show (if _ then _ else s4).pairs = s4.pairs
    split <;> rfl
  · show (if _ then _ else s4).mm = s4.mm
    split <;> rfl

theorem os_farm {cfg : Cfg} {s s' : State} {app user pool amt : Nat} {ext : Bool} (h : farm cfg s app user pool amt ext = some s') :
    OrdSame s s' := by
  unfold farm at h
  split at h; · cases h
  split at h; · cases h
  split at h; · cases h
  split at h; · cases h
  split at h; · cases h
  rename_i s1 h1
  split at h <;> (cases h; exact (os_send h1).trans ⟨rfl, rfl, rfl⟩)

theorem os_unfarm {cfg : Cfg} {s s' : State} {app user pool amt : Nat} {ext : Bool} (h : unfarm cfg s app user pool amt ext = some s') :
    OrdSame s s' := by
  unfold unfarm at h
  split at h; · cases h
  split at h; · cases h
  split at h; · cases h
  split at h; · cases h
  split at h; · cases h
  split at h; · cases h
  simp only [] at h
  split at h; · cases h
  split at h; · cases h
  rename_i s1 h1
  cases h
  exact (os_send h1).trans ⟨rfl, rfl, rfl⟩

theorem os_depositAndFarm {cfg : Cfg} {s s' : State} {app user pool dx dy ax ay pc : Nat} {ext : Bool}
    (h : depositAndFarm cfg s app user pool dx dy ax ay pc ext = some s') : OrdSame s s' := by
  unfold depositAndFarm at h
  split at h; · cases h
  rename_i s1 id h1
  split at h; · cases h
  rename_i s2 h2
  split at h; · cases h
  split at h; · cases h
  exact (os_depositReq h1).trans ((os_execDeposit h2).trans (os_farm h))

theorem os_unfarmAndWithdraw {cfg : Cfg} {s s' : State} {app user pool amt x y : Nat} {ext : Bool}
    (h : unfarmAndWithdraw cfg s app user pool amt x y ext = some s') : OrdSame s s' := by
  unfold unfarmAndWithdraw at h
  split at h; · cases h
  rename_i s1 h1
  split at h; · cases h
  rename_i s2 id h2
  exact (os_unfarm h1).trans ((os_withdrawReq h2).trans (os_execWithdraw h))

theorem os_poolPayIn {p : Pair} {s s' : State} {f : PoolFlow} (h : poolPayIn p s f = some s') : OrdSame s s' := by
  unfold poolPayIn at h
  simp only [] at h
  split at h; · cases h
  rename_i s1 h1
  cases h
  exact (os_send h1).trans ⟨rfl, rfl, rfl⟩

theorem os_poolPayOut {p : Pair} {s s' : State} {f : PoolFlow} (h : poolPayOut p s f = some s') : OrdSame s s' := by
  unfold poolPayOut at h
  simp only [] at h
  split at h; · cases h
  rename_i s1 h1
  cases h
  exact (os_send h1).trans ⟨rfl, rfl, rfl⟩

theorem os_fillPayOut {p : Pair} {s s' : State} {f : Fill} (h : fillPayOut p s f = some s') : OrdSame s s' := by
  unfold fillPayOut at h
  simp only [] at h
  split at h; · cases h
  split at h; · cases h
  rename_i s1 h1
  cases h
  exact (os_send h1).trans ⟨rfl, rfl, rfl⟩

/-! ### new orders -/

/-- appending freshly numbered orders of pair `(a, p)` and moving the pair's counter to `last'` -/
theorem IdxOk.append_new {os : List Order} {ps : List Pair} {mm : List MMIndex} (h : IdxOk os ps mm) {a p : Nat} {pp : Pair}
    (hpp : findBy (isPair a p) ps = some pp) (ns : List Order) (last' : Nat) (mm' : List MMIndex)
    (hle : pp.lastOrderId ≤ last')
    (hns : ∀ o ∈ ns, o.app = a ∧ o.pair = p ∧ pp.lastOrderId < o.id ∧ o.id ≤ last')
    (hnd : (ns.map Order.key).Nodup)
    (hold : ∀ o ∈ os, o.typ = .mm → o.status.live = true → ∃ idx, findBy (isMM o.app o.pair o.owner) mm' = some idx ∧ o.id ∈ idx.ids)
    (hnew : ∀ o ∈ ns, o.typ = .mm → o.status.live = true → ∃ idx, findBy (isMM o.app o.pair o.owner) mm' = some idx ∧ o.id ∈ idx.ids) :
    IdxOk (os ++ ns) (modBy (isPair a p) (fun q => { q with lastOrderId := last' }) ps) mm' := by
  have h1 : IdxOk os (modBy (isPair a p) (fun q => { q with lastOrderId := last' }) ps) mm :=
    h.modPair a p _ (fun x => ⟨rfl, rfl⟩) (fun x hx => by rw [hpp] at hx; cases hx; exact hle)
  refine ⟨?_, ?_, ?_⟩
  · rw [List.map_append, List.nodup_append]
    refine ⟨h.uniq, hnd, ?_⟩
    intro k hk k' hk' he
    obtain ⟨o, ho, rfl⟩ := List.mem_map.mp hk
    obtain ⟨n, hn, rfl⟩ := List.mem_map.mp hk'
    obtain ⟨n1, n2, n3, -⟩ := hns n hn
    simp only [Order.key, Prod.mk.injEq] at he
    obtain ⟨e1, e2, e3⟩ := he
    obtain ⟨p', hp', hb⟩ := h.bound o ho
    rw [e1, e2, n1, n2, hpp] at hp'
    cases hp'
    omega
  · intro o ho
    rcases List.mem_append.mp ho with ho | ho
    · exact h1.bound o ho
    · obtain ⟨n1, n2, -, n4⟩ := hns o ho
      refine ⟨{ pp with lastOrderId := last' }, ?_, n4⟩
      rw [n1, n2, findBy_modBy_same (g := fun q : Pair => { q with lastOrderId := last' }) (fun x => rfl), hpp]; rfl
  · intro o ho
    rcases List.mem_append.mp ho with ho | ho
    · exact hold o ho
    · exact hnew o ho

theorem idx_placeOrder {cfg : Cfg} {s s' : State} {app user pair : Nat} {typ : OType} {buy : Bool}
    {msgOffer msgPrice price amount : Nat} {lifespan : Int} {ext : Bool} (hi : IdxInv s)
    (h : placeOrder cfg s app user pair typ buy msgOffer msgPrice price amount lifespan ext = some s') : IdxInv s' := by
  unfold placeOrder at h
  split at h; · cases h
  rename_i hty
  split at h; · cases h
  split at h; · cases h
  split at h; · cases h
  split at h; · cases h
  rename_i p hp
  simp only [] at h
  split at h; · cases h
  split at h; · cases h
  split at h; · cases h
  split at h; · cases h
  split at h; · cases h
  split at h; · cases h
  rename_i s1 h1
  cases h
  have f := os_send h1
  show IdxOk (s1.orders ++ _) (modBy _ _ s1.pairs) s1.mm
  rw [f.1, f.2.1, f.2.2]
  apply hi.append_new hp _ _ _ (Nat.le_succ _)
  · intro o ho
    simp only [List.mem_singleton] at ho
    subst ho
    obtain ⟨-, e1, e2⟩ := pair?_some hp
    exact ⟨e1, e2, Nat.lt_succ_self _, Nat.le_refl _⟩
  · simp
  · exact hi.complete
  · intro o ho ht
    simp only [List.mem_singleton] at ho
    subst ho
    exact absurd ht hty

/-! ### cancellation -/

theorem idx_cancelOrder {cfg : Cfg} {s s' : State} {app user pair id : Nat} (hi : IdxInv s)
    (h : cancelOrder cfg s app user pair id = some s') : IdxInv s' := by
  unfold cancelOrder at h
  split at h; · cases h
  split at h; · cases h
  split at h; · cases h
  split at h; · cases h
  split at h; · cases h
  split at h; · cases h
  split at h; · cases h
  exact finishOrder_idx rfl hi h

theorem idx_cancelAll {cfg : Cfg} {s s' : State} {app user : Nat} {pairs : List Nat} (hi : IdxInv s)
    (h : cancelAll cfg s app user pairs = some s') : IdxInv s' := by
  unfold cancelAll at h
  split at h; · cases h
  split at h; · cases h
  split at h; · cases h
  refine idx_fold (fun s x s' hi hs => ?_) _ _ _ hi h
  unfold cancelAllStep at hs
  split at hs
  · cases hs; exact hi
  · split at hs
    · split at hs
      · cases hs; exact hi
      · split at hs
        · exact finishOrder_idx rfl hi hs
        · cases hs; exact hi
    · cases hs; exact hi

theorem idx_cancelMMStep {cfg : Cfg} {app : Nat} {p : Pair} {s s' : State} {id : Nat} (hi : IdxInv s)
    (h : cancelMMStep cfg app p s id = some s') : IdxInv s' ∧ s'.mm = s.mm := by
  unfold cancelMMStep at h
  split at h
  · cases h; exact ⟨hi, rfl⟩
  · split at h
    · cases h
    · split at h
      · exact ⟨finishOrder_idx rfl hi h, mm_finishOrder h⟩
      · cases h; exact ⟨hi, rfl⟩

theorem idx_cancelMM_fold {cfg : Cfg} {app : Nat} {p : Pair} :
    ∀ (ids : List Nat) (s s' : State), IdxInv s → foldOpt (cancelMMStep cfg app p) s ids = some s' → IdxInv s' ∧ s'.mm = s.mm := by
  intro ids
  induction ids with
  | nil => intro s s' hi h; simp [foldOpt] at h; subst h; exact ⟨hi, rfl⟩
  | cons x t ih =>
    intro s s' hi h
    simp only [foldOpt] at h
    cases hx : cancelMMStep cfg app p s x with
    | none => simp [hx] at h
    | some s1 =>
      simp [hx] at h
      obtain ⟨i1, m1⟩ := idx_cancelMMStep hi hx
      obtain ⟨i2, m2⟩ := ih s1 s' i1 h
      exact ⟨i2, m2.trans m1⟩

theorem isMM_iff (a p u : Nat) (x : MMIndex) : isMM a p u x = true ↔ x.app = a ∧ x.pair = p ∧ x.owner = u := by
  simp [isMM, and_assoc]

/-- removing the entries with one key does not change the lookup of another key -/
theorem findBy_filter_other {α : Type} {p q : α → Bool} (hd : ∀ x, q x = true → p x = false) :
    ∀ l : List α, findBy q (l.filter fun x => !p x) = findBy q l := by
  intro l
  induction l with
  | nil => rfl
  | cons x t ih =>
    by_cases hq : q x = true
    · have hp := hd x hq
      simp [List.filter, hp, findBy, hq]
    · by_cases hp : p x = true
      · simp [List.filter, hp, findBy, hq, ih]
      · simp [List.filter, hp, findBy, hq, ih]

theorem isMM_disjoint {a p u a' p' u' : Nat} (hne : ¬ (a' = a ∧ p' = p ∧ u' = u)) (x : MMIndex) (h : isMM a' p' u' x = true) :
    isMM a p u x = false := by
  obtain ⟨h1, h2, h3⟩ := (isMM_iff _ _ _ _).1 h
  cases hq : isMM a p u x with
  | false => rfl
  | true =>
    obtain ⟨g1, g2, g3⟩ := (isMM_iff _ _ _ _).1 hq
    exact absurd ⟨h1.symm.trans g1, h2.symm.trans g2, h3.symm.trans g3⟩ hne

/-- **`cancelMMOrder` (repaired lookup) leaves no live market-making order of the owner in the pair** — not only none of the
indexed ones: by index completeness there is no other.  The index entry is gone and the invariant is kept. -/
theorem idx_cancelMMCore {cfg : Cfg} (hsw : cfg.swapLookup = false) {s s' : State} {app user : Nat} {p : Pair} {skip : Bool}
    (hi : IdxInv s) (h : cancelMMCore cfg s app user p skip = some s') :
    IdxInv s' ∧
    (∀ o ∈ s'.orders, o.app = app → o.pair = p.id → o.owner = user → o.typ = .mm → o.status.live = false) ∧
    findBy (isMM app p.id user) s'.mm = none := by
  unfold cancelMMCore at h
  split at h
  · rename_i idx hidx
    split at h; · cases h
    rename_i s1 h1
    cases h
    obtain ⟨i1, m1⟩ := idx_cancelMM_fold _ _ _ hi h1
    obtain ⟨done, -⟩ := cancelMM_fold_done hsw _ _ _ h1
    have claim : ∀ o ∈ s1.orders, o.app = app → o.pair = p.id → o.owner = user → o.typ = .mm → o.status.live = false := by
      intro o ho e1 e2 e3 ht
      cases hl : o.status.live with
      | false => rfl
      | true =>
        exfalso
        obtain ⟨idx', hidx', hmem⟩ := i1.complete o ho ht hl
        rw [e1, e2, e3, m1, hidx] at hidx'
        cases hidx'
        have hlk := i1.lookup ho
        have hk : o.key = (app, p.id, o.id) := by simp [Order.key, e1, e2]
        rw [hk] at hlk
        have := done o.id hmem o hlk
        rw [hl] at this; cases this
    refine ⟨?_, claim, ?_⟩
    · refine ⟨i1.uniq, i1.bound, ?_⟩
      intro o ho ht hl
      obtain ⟨idx', hidx', hmem⟩ := i1.complete o ho ht hl
      refine ⟨idx', ?_, hmem⟩
      show findBy _ (s1.mm.filter fun x => !isMM app p.id user x) = _
      rw [findBy_filter_other]
      · exact hidx'
      · intro x hx
        apply isMM_disjoint _ x hx
        intro hc
        have := claim o ho hc.1 hc.2.1 hc.2.2 ht
        rw [hl] at this; cases this
    · exact findBy_filter_not _ _
  · rename_i hnone
    split at h
    · cases h
      refine ⟨hi, ?_, hnone⟩
      intro o ho e1 e2 e3 ht
      cases hl : o.status.live with
      | false => rfl
      | true =>
        exfalso
        obtain ⟨idx', hidx', -⟩ := hi.complete o ho ht hl
        rw [e1, e2, e3, hnone] at hidx'
        cases hidx'
    · cases h

theorem idx_cancelMM {cfg : Cfg} (hsw : cfg.swapLookup = false) {s s' : State} {app user pair : Nat} (hi : IdxInv s)
    (h : cancelMM cfg s app user pair = some s') :
    IdxInv s' ∧ (∀ o ∈ s'.orders, o.app = app → o.pair = pair → o.owner = user → o.typ = .mm → o.status.live = false) := by
  unfold cancelMM at h
  split at h; · cases h
  split at h; · cases h
  rename_i p hp
  obtain ⟨-, -, hpi⟩ := pair?_some hp
  obtain ⟨a, b, -⟩ := idx_cancelMMCore hsw hi h
  rw [hpi] at b
  exact ⟨a, b⟩

/-! ### market-making orders -/

theorem pairs_cancelMMCore {cfg : Cfg} {s s' : State} {app user : Nat} {p : Pair} {skip : Bool}
    (h : cancelMMCore cfg s app user p skip = some s') : s'.pairs = s.pairs := by
  unfold cancelMMCore at h
  split at h
  · split at h
    · cases h
    · rename_i s1 h1
      cases h
      show s1.pairs = _
      have : ∀ (l : List Nat) (s s' : State), foldOpt (cancelMMStep cfg app p) s l = some s' → s'.pairs = s.pairs := by
        intro l
        induction l with
        | nil => intro s s' h; simp [foldOpt] at h; subst h; rfl
        | cons x t ih =>
          intro s s' h
          simp only [foldOpt] at h
          cases hx : cancelMMStep cfg app p s x with
          | none => simp [hx] at h
          | some s1 =>
            simp [hx] at h
            rw [ih s1 s' h]
            unfold cancelMMStep at hx
            split at hx
            · cases hx; rfl
            · split at hx
              · cases hx
              · split at hx
                · exact pairs_finishOrder hx
                · cases hx; rfl
      exact this _ _ _ h1
  · split at h
    · cases h; rfl
    · cases h

theorem mkMM_spec (p : Pair) (owner : Nat) (buy : Bool) (e : Int) : ∀ (ts : List Tick) (last : Nat),
    (∀ o ∈ mkMMOrders p owner buy e last ts,
      o.app = p.app ∧ o.pair = p.id ∧ last < o.id ∧ o.id ≤ last + ts.length ∧ o.typ = .mm ∧ o.owner = owner) ∧
    ((mkMMOrders p owner buy e last ts).map Order.key).Nodup := by
  intro ts
  induction ts with
  | nil => intro last; simp [mkMMOrders]
  | cons t ts ih =>
    intro last
    obtain ⟨m, nd⟩ := ih (last + 1)
    refine ⟨?_, ?_⟩
    · intro o ho
      simp only [mkMMOrders, List.mem_cons] at ho
      rcases ho with rfl | ho
      · simp [newOrder]
      · obtain ⟨a, b, c, d, e', f⟩ := m o ho
        refine ⟨a, b, by omega, by simp only [List.length_cons]; omega, e', f⟩
    · simp only [mkMMOrders, List.map_cons, List.nodup_cons]
      refine ⟨?_, nd⟩
      intro hmem
      obtain ⟨o, ho, hk⟩ := List.mem_map.mp hmem
      obtain ⟨-, -, c, -⟩ := m o ho
      simp only [Order.key, newOrder, Prod.mk.injEq] at hk
      omega

theorem idx_mmOrder {cfg : Cfg} (hsw : cfg.swapLookup = false) {s s' : State} {app user pair : Nat} {buys sells : List Tick}
    {lifespan : Int} {ext : Bool} (hi : IdxInv s) (h : mmOrder cfg s app user pair buys sells lifespan ext = some s') :
    IdxInv s' := by
  unfold mmOrder at h
  split at h; · cases h
  split at h; · cases h
  split at h; · cases h
  split at h; · cases h
  rename_i p hp
  simp only [] at h
  split at h; · cases h
  split at h; · cases h
  split at h; · cases h
  split at h; · cases h
  rename_i s1 hc1
  split at h; · cases h
  rename_i s2 h2
  split at h; · cases h
  rename_i s3 h3
  cases h
  obtain ⟨-, hpa, hpi⟩ := pair?_some hp
  obtain ⟨i1, claim, none1⟩ := idx_cancelMMCore hsw hi hc1
  have hp1 : findBy (isPair app pair) s1.pairs = some p := by rw [pairs_cancelMMCore hc1]; exact hp
  have f2 := os_send h2
  have f3 := os_send h3
  obtain ⟨mb, ndb⟩ := mkMM_spec p user true (s.now + lifespan) buys p.lastOrderId
  obtain ⟨ms, nds⟩ := mkMM_spec p user false (s.now + lifespan) sells (p.lastOrderId + buys.length)
  show IdxOk (s3.orders ++ _) (modBy _ _ s3.pairs) ((s3.mm.filter _) ++ _)
  rw [f3.1, f3.2.1, f3.2.2, f2.1, f2.2.1, f2.2.2]
  have hkey : ∀ o ∈ mkMMOrders p user true (s.now + lifespan) p.lastOrderId buys ++
      mkMMOrders p user false (s.now + lifespan) (p.lastOrderId + buys.length) sells,
      o.app = app ∧ o.pair = pair ∧ p.lastOrderId < o.id ∧ o.id ≤ p.lastOrderId + buys.length + sells.length ∧
      o.typ = .mm ∧ o.owner = user := by
    intro o ho
    rcases List.mem_append.mp ho with ho | ho
    · obtain ⟨a, b, c, d, e, f⟩ := mb o ho
      exact ⟨a.trans hpa, b.trans hpi, c, by omega, e, f⟩
    · obtain ⟨a, b, c, d, e, f⟩ := ms o ho
      exact ⟨a.trans hpa, b.trans hpi, by omega, d, e, f⟩
  apply i1.append_new hp1 _ _ _ (by omega)
  · intro o ho
    obtain ⟨a, b, c, d, -, -⟩ := hkey o ho
    exact ⟨a, b, c, d⟩
  · rw [List.map_append, List.nodup_append]
    refine ⟨ndb, nds, ?_⟩
    intro k hk k' hk' he
    obtain ⟨o, ho, rfl⟩ := List.mem_map.mp hk
    obtain ⟨n, hn, rfl⟩ := List.mem_map.mp hk'
    obtain ⟨-, -, -, d, -⟩ := mb o ho
    obtain ⟨-, -, c, -⟩ := ms n hn
    simp only [Order.key, Prod.mk.injEq] at he
    omega
  · -- orders that were there before: their owner / pair differs from the replaced index
    intro o ho ht hl
    obtain ⟨idx', hidx', hmem⟩ := i1.complete o ho ht hl
    refine ⟨idx', ?_, hmem⟩
    have hne : ¬ (o.app = app ∧ o.pair = pair ∧ o.owner = user) := by
      intro hc
      have := claim o ho hc.1 (hc.2.1.trans hpi.symm) hc.2.2 ht
      rw [hl] at this; cases this
    rw [findBy_append, findBy_filter_other (fun x hx => isMM_disjoint hne x hx), hidx']
  · intro o ho _ _
    obtain ⟨a, b, -, -, -, f⟩ := hkey o ho
    refine ⟨{ app := app, pair := pair, owner := user, ids := (mkMMOrders p user true (s.now + lifespan) p.lastOrderId buys ++
      mkMMOrders p user false (s.now + lifespan) (p.lastOrderId + buys.length) sells).map (·.id) }, ?_, List.mem_map.mpr ⟨o, ho, rfl⟩⟩
    rw [a, b, f, findBy_append, findBy_filter_not]
    simp [findBy, isMM]

/-! ### pairs, batches, pruning -/

theorem idx_createPair {cfg : Cfg} {s s' : State} {app creator : Nat} {base quote : Denom} {ext : Bool} (hi : IdxInv s)
    (h : createPair cfg s app creator base quote ext = some s') : IdxInv s' := by
  unfold createPair at h
  split at h; · cases h
  split at h; · cases h
  split at h; · cases h
  split at h; · cases h
  split at h; · cases h
  rename_i s1 h1
  cases h
  have f := os_send h1
  show IdxOk s1.orders (s1.pairs ++ _) s1.mm
  rw [f.1, f.2.1, f.2.2]
  refine ⟨hi.uniq, ?_, hi.complete⟩
  intro o ho
  obtain ⟨pp, hpp, hle⟩ := hi.bound o ho
  exact ⟨pp, by rw [findBy_append, hpp], hle⟩

theorem idx_prePass {cfg : Cfg} {s s' : State} {k : OKey} (hi : IdxInv s) (h : prePass cfg s k = some s') : IdxInv s' := by
  unfold prePass at h
  split at h; · cases h
  rename_i o ho
  split at h
  · rename_i hst
    cases h
    show IdxOk (modBy _ _ s.orders) s.pairs s.mm
    apply hi.modO
    · intro x; exact ⟨rfl, rfl, rfl, rfl, rfl⟩
    · intro x hx _
      have : s.order? k = some x := hx
      rw [ho] at this; cases this
      rw [hst]; rfl
  · split at h
    · exact finishOrder_idx rfl hi h
    · cases h; exact hi
  · split at h
    · exact finishOrder_idx rfl hi h
    · cases h; exact hi
  · cases h; exact hi
  · cases h

theorem idx_fillOrder {cfg : Cfg} {p : Pair} {s s' : State} {f : Fill} (hi : IdxInv s) (h : fillOrder cfg p s f = some s') :
    IdxInv s' := by
  unfold fillOrder at h
  simp only [] at h
  split at h; · cases h
  rename_i o ho
  split at h; · cases h
  rename_i hg
  have hlive : o.status.live = true := by
    cases hl : o.status.live with
    | true => rfl
    | false => exfalso; apply hg; left; simp [hl]
  have key : ∀ (g : Order → Order) (A : Acct) (d : Denom) (n : Nat),
      (∀ x, (g x).app = x.app ∧ (g x).pair = x.pair ∧ (g x).id = x.id ∧ (g x).owner = x.owner ∧ (g x).typ = x.typ) →
      IdxInv ((s.modO (p.app, p.id, f.id) g).credit A d n) := by
    intro g A d n hgb
    show IdxOk (modBy _ _ s.orders) s.pairs s.mm
    apply hi.modO _ _ hgb
    intro x hx _
    have : s.order? (p.app, p.id, f.id) = some x := hx
    rw [ho] at this; cases this
    exact hlive
  split at h
  · refine finishOrder_idx rfl ?_ h
    apply key
    intro x; exact ⟨rfl, rfl, rfl, rfl, rfl⟩
  · cases h
    apply key
    intro x; exact ⟨rfl, rfl, rfl, rfl, rfl⟩

theorem idx_applyMatch {cfg : Cfg} {s s' : State} {p : Pair} {m : MatchIn} (hi : IdxInv s) (h : applyMatch cfg s p m = some s') :
    IdxInv s' := by
  unfold applyMatch at h
  split at h; · cases h
  rename_i s1 h1
  split at h; · cases h
  rename_i s2 h2
  split at h; · cases h
  rename_i s3 h3
  split at h; · cases h
  rename_i s4 h4
  split at h; · cases h
  rename_i s5 h5
  cases h
  have i1 := hi.of_same (os_fold (fun s x s' hh => os_poolPayIn hh) _ _ _ h1)
  have i2 := idx_fold (fun s x s' hp hh => idx_fillOrder hp hh) _ _ _ i1 h2
  have i3 := i2.of_same (os_fold (fun s x s' hh => os_fillPayOut hh) _ _ _ h3)
  have i4 := i3.of_same (os_fold (fun s x s' hh => os_poolPayOut hh) _ _ _ h4)
  exact (i4.of_same (os_send h5)).of_same ⟨rfl, rfl, rfl⟩

theorem idx_execMatching {cfg : Cfg} {ms : List MatchIn} {s s' : State} {pk : Nat × Nat} (hi : IdxInv s)
    (h : execMatching cfg ms s pk = some s') : IdxInv s' := by
  unfold execMatching at h
  split at h; · cases h
  rename_i p hp
  simp only [] at h
  split at h; · cases h
  rename_i s1 h1
  split at h; · cases h
  rename_i s3 h3
  cases h
  have i1 := idx_fold (fun s x s' hp hh => idx_prePass hp hh) _ _ _ hi h1
  have i2 : IdxInv (markDepleted s1 p) := i1.of_same ⟨rfl, rfl, rfl⟩
  have i3 := idx_applyMatch i2 h3
  show IdxOk s3.orders (modBy _ _ s3.pairs) s3.mm
  exact i3.modPair _ _ _ (fun x => ⟨rfl, rfl⟩) (fun x _ => Nat.le_refl _)

theorem idx_sweep {cfg : Cfg} {s s' : State} {k : OKey} (hi : IdxInv s) (h : sweep cfg s k = some s') : IdxInv s' := by
  unfold sweep at h
  split at h; · cases h
  split at h
  · exact finishOrder_idx rfl hi h
  · split at h
    · exact finishOrder_idx rfl hi h
    · cases h; exact hi

theorem idx_endBlock {cfg : Cfg} {s s' : State} {app : Nat} {ms : List MatchIn} {dins : List DepIn} {wins : List WdrIn}
    (hi : IdxInv s) (h : endBlock cfg s app ms dins wins = some s') : IdxInv s' := by
  unfold endBlock at h
  split at h; · cases h
  split at h; · cases h; exact hi
  simp only [] at h
  split at h; · cases h
  rename_i s1 h1
  split at h; · cases h
  rename_i s2 h2
  split at h; · cases h
  rename_i s3 h3
  split at h; · cases h
  rename_i s4 h4
  cases h
  have i1 := idx_fold (fun s x s' hp hh => idx_execMatching hp hh) _ _ _ hi h1
  have i2 := idx_fold (fun s x s' hp hh => idx_sweep hp hh) _ _ _ i1 h2
  have g3 := os_fold (f := execDepStep dins) (fun s x s' hh => by unfold execDepStep at hh; exact os_execDeposit hh) _ _ _ h3
  have g4 := os_fold (f := execWdrStep wins) (fun s x s' hh => by unfold execWdrStep at hh; exact os_execWithdraw hh) _ _ _ h4
  exact ((i2.of_same g3).of_same g4).of_same ⟨rfl, rfl, rfl⟩

/-- begin-block pruning removes only orders that are not live; the MM indexes keep the ids of deleted orders (the code skips
them: "the order has already been deleted from store") -/
theorem idx_beginBlock {s : State} (hi : IdxInv s) (app : Nat) : IdxInv (beginBlock s app) := by
  show IdxOk (s.orders.filter _) s.pairs s.mm
  exact hi.filter _

/-- the store migration keeps keys, owners and liveness; it produces no market-making order -/
theorem idx_migrate {cfg : Cfg} {s s' : State} (hi : IdxInv s) (h : migrate cfg s = some s') : IdxInv s' := by
  unfold migrate at h
  split at h
  · rename_i hv
    cases h
    obtain ⟨hty, -, -⟩ := hv
    show IdxOk (s.orders.map _) s.pairs s.mm
    refine ⟨?_, ?_, ?_⟩
    · rw [List.map_map]
      have : (Order.key ∘ fun o : Order => if (cfg.app? o.app).isSome then { o with typ := .limit } else o) = Order.key := by
        funext o; simp only [Function.comp]; split <;> rfl
      rw [this]; exact hi.uniq
    · intro o ho
      obtain ⟨o0, ho0, rfl⟩ := List.mem_map.mp ho
      have := hi.bound o0 ho0
      split
      · exact this
      · exact this
    · intro o ho ht
      obtain ⟨o0, ho0, rfl⟩ := List.mem_map.mp ho
      exfalso
      split at ht
      · cases ht
      · exact hty o0 ho0 ht
  · cases h

/-! ### every step, every history -/

theorem step_idx {cfg : Cfg} (hsw : cfg.swapLookup = false) {s s' : State} {op : Op} (hi : IdxInv s) (h : step cfg s op = some s') :
    IdxInv s' := by
  cases op with
  | block ht t => simp only [step, Option.some.injEq] at h; subst h; exact hi.of_same ⟨rfl, rfl, rfl⟩
  | createPair a c b q e => exact idx_createPair hi h
  | createPool a c p r dx dy ps e => exact hi.of_same (os_createPool h)
  | deposit a u p dx dy e =>
    simp only [step] at h
    cases hd : depositReq cfg s a u p dx dy e with
    | none => simp [hd] at h
    | some r => obtain ⟨s1, id⟩ := r; simp [hd] at h; subst h; exact hi.of_same (os_depositReq hd)
  | withdraw a u p pc e =>
    simp only [step] at h
    cases hd : withdrawReq cfg s a u p pc e with
    | none => simp [hd] at h
    | some r => obtain ⟨s1, id⟩ := r; simp [hd] at h; subst h; exact hi.of_same (os_withdrawReq hd)
  | order a u p t b od dd mo mp am l => obtain ⟨_, _, h⟩ := placeOrderMsg_core h; exact idx_placeOrder hi h
  | mmOrder a u p xs ns sa xb nb ba l => obtain ⟨_, _, h⟩ := mmOrderMsg_core h; exact idx_mmOrder hsw hi h
  | cancel a u p i => exact idx_cancelOrder hi h
  | cancelAll a u ps => exact idx_cancelAll hi h
  | cancelMM a u p => exact (idx_cancelMM hsw hi h).1
  | farm a u p n e => exact hi.of_same (os_farm h)
  | unfarm a u p n e => exact hi.of_same (os_unfarm h)
  | depositAndFarm a u p dx dy ax ay pc e => exact hi.of_same (os_depositAndFarm h)
  | unfarmAndWithdraw a u p n x y e => exact hi.of_same (os_unfarmAndWithdraw h)
  | endBlock a ms ds ws => exact idx_endBlock hi h
  | beginBlock a => simp only [step, Option.some.injEq] at h; subst h; exact idx_beginBlock hi a
  | migrate => exact idx_migrate hi h

theorem stepT_idx {cfg : Cfg} (hsw : cfg.swapLookup = false) {s : State} (op : Op) (hi : IdxInv s) : IdxInv (stepT cfg s op) := by
  unfold stepT
  cases h : step cfg s op with
  | none => exact hi
  | some s' => exact step_idx hsw hi h

theorem runT_idx {cfg : Cfg} (hsw : cfg.swapLookup = false) (ops : List Op) : ∀ s, IdxInv s → IdxInv (runT cfg s ops) := by
  induction ops with
  | nil => intro s hi; exact hi
  | cons op ops ih => intro s hi; exact ih _ (stepT_idx hsw op hi)

theorem genesis_idx (funds : List (Nat × Nat × Nat)) : IdxInv (genesis funds) := by
  refine ⟨?_, ?_, ?_⟩
  · show (List.map Order.key []).Nodup
    exact List.nodup_nil
  · intro o ho; cases ho
  · intro o ho; cases ho

/-! ### no order disappears in a cancellation -/

theorem keys_finishOrder {cfg : Cfg} {s s' : State} {k : OKey} {st : OStatus} (h : finishOrder cfg s k st = some s') :
    s'.orders.map Order.key = s.orders.map Order.key := by
  obtain ⟨o, -, hc⟩ := finishOrder_orders h
  rcases hc with ⟨-, he⟩ | ⟨-, r, f, he⟩
  · subst he; rfl
  · rw [he]; exact map_key_modBy k (fun o' => { o' with status := st, refunded := r, feeFwd := f }) (fun x => rfl) _

theorem keys_cancelMMCore {cfg : Cfg} {s s' : State} {app user : Nat} {p : Pair} {skip : Bool}
    (h : cancelMMCore cfg s app user p skip = some s') : s'.orders.map Order.key = s.orders.map Order.key := by
  unfold cancelMMCore at h
  split at h
  · split at h
    · cases h
    · rename_i s1 h1
      cases h
      show s1.orders.map Order.key = _
      have : ∀ (l : List Nat) (s s' : State), foldOpt (cancelMMStep cfg app p) s l = some s' →
          s'.orders.map Order.key = s.orders.map Order.key := by
        intro l
        induction l with
        | nil => intro s s' h; simp [foldOpt] at h; subst h; rfl
        | cons x t ih =>
          intro s s' h
          simp only [foldOpt] at h
          cases hx : cancelMMStep cfg app p s x with
          | none => simp [hx] at h
          | some s1 =>
            simp [hx] at h
            rw [ih s1 s' h]
            unfold cancelMMStep at hx
            split at hx
            · cases hx; rfl
            · split at hx
              · cases hx
              · split at hx
                · exact keys_finishOrder hx
                · cases hx; rfl
      exact this _ _ _ h1
  · split at h
    · cases h; rfl
    · cases h

/-- the state inside `MsgMMOrder` right after the previous market-making orders have been cancelled -/
theorem mmOrder_split {cfg : Cfg} {s s' : State} {app user pair : Nat} {buys sells : List Tick} {lifespan : Int} {ext : Bool}
    (h : mmOrder cfg s app user pair buys sells lifespan ext = some s') :
    ∃ (p : Pair) (s1 : State) (new : List Order), s.pair? app pair = some p ∧ cancelMMCore cfg s app user p true = some s1 ∧
      s'.orders = s1.orders ++ new ∧ (∀ o ∈ new, o.status = .notExecuted ∧ o.typ = .mm ∧ o.owner = user ∧ o.app = app ∧ o.pair = pair) := by
  unfold mmOrder at h
  split at h; · cases h
  split at h; · cases h
  split at h; · cases h
  split at h; · cases h
  rename_i p hp
  simp only [] at h
  split at h; · cases h
  split at h; · cases h
  split at h; · cases h
  split at h; · cases h
  rename_i s1 hc1
  split at h; · cases h
  rename_i s2 h2
  split at h; · cases h
  rename_i s3 h3
  cases h
  obtain ⟨-, hpa, hpi⟩ := pair?_some hp
  refine ⟨p, s1, mkMMOrders p user true (s.now + lifespan) p.lastOrderId buys ++
    mkMMOrders p user false (s.now + lifespan) (p.lastOrderId + buys.length) sells, hp, hc1, ?_, ?_⟩
  · show s3.orders ++ _ = s1.orders ++ _
    rw [(os_send h3).1, (os_send h2).1]
  · intro o ho
    have st : ∀ (b : Bool) (ts : List Tick) (last : Nat), ∀ o ∈ mkMMOrders p user b (s.now + lifespan) last ts, o.status = .notExecuted := by
      intro b ts
      induction ts with
      | nil => intro last o ho; simp [mkMMOrders] at ho
      | cons t ts ih =>
        intro last o ho
        simp only [mkMMOrders, List.mem_cons] at ho
        rcases ho with rfl | ho
        · rfl
        · exact ih _ o ho
    rcases List.mem_append.mp ho with ho | ho
    · obtain ⟨a, b, -, -, e, f⟩ := (mkMM_spec p user true (s.now + lifespan) buys p.lastOrderId).1 o ho
      exact ⟨st _ _ _ o ho, e, f, a.trans hpa, b.trans hpi⟩
    · obtain ⟨a, b, -, -, e, f⟩ := (mkMM_spec p user false (s.now + lifespan) sells (p.lastOrderId + buys.length)).1 o ho
      exact ⟨st _ _ _ o ho, e, f, a.trans hpa, b.trans hpi⟩

end Comdex.LiqLedger
