import Comdex.Model.LiqLedger
/-!
Helper lemmas for the liquidity ledger model: bank algebra, keyed lists, sums, and the preservation of the
ledger invariant `Inv` by every primitive and every operation.  Core Lean only (omega / simp).
-/
namespace Comdex.LiqLedger

/-! ## Bank -/

theorem Bank.get_set (b : Bank) (k k' : Key) (v : Nat) :
    (b.set k v).get k' = if k = k' then v else b.get k' := by
  induction b with
  | nil =>
    by_cases h : k = k' <;> simp [Bank.set, Bank.get, h]
  | cons e t ih =>
    obtain ⟨k0, v0⟩ := e
    by_cases h0 : k0 = k
    · subst h0
      by_cases h : k0 = k' <;> simp [Bank.set, Bank.get, h]
    · by_cases h : k = k'
      · subst h
        simp [Bank.set, Bank.get, h0, ih]
      · by_cases h1 : k0 = k'
        · subst h1; simp [Bank.set, Bank.get, h0, h]
        · simp [Bank.set, Bank.get, h0, h1, ih, h]

theorem Bank.get_add (b : Bank) (a : Acct) (d : Denom) (n : Nat) (k : Key) :
    (b.add a d n).get k = if (a, d) = k then b.get (a, d) + n else b.get k := by
  simp [Bank.add, Bank.get_set]

/-- effect of a successful send between two different accounts -/
theorem Bank.send_some {b b' : Bank} {f t : Acct} {d : Denom} {n : Nat} (hft : f ≠ t)
    (h : b.send f t d n = some b') :
    n ≤ b.get (f, d) ∧ ∀ k, b'.get k =
      if k = (t, d) then b.get (t, d) + n else if k = (f, d) then b.get (f, d) - n else b.get k := by
  unfold Bank.send at h
  split at h
  · rename_i hle
    simp only [Option.some.injEq] at h
    subst h
    refine ⟨hle, fun k => ?_⟩
    have hne : (f, d) ≠ (t, d) := fun e => hft (Prod.mk.inj e).1
    simp only [Bank.get_set]
    by_cases h1 : k = (t, d)
    · subst h1; simp [hne]
    · by_cases h2 : k = (f, d)
      · subst h2; simp [hne, Ne.symm hne]
      · have h1' : ¬ (t, d) = k := fun e => h1 e.symm
        have h2' : ¬ (f, d) = k := fun e => h2 e.symm
        simp [h1, h2, h1', h2']
  · cases h

theorem Bank.send_isSome {b : Bank} {f t : Acct} {d : Denom} {n : Nat} (h : n ≤ b.get (f, d)) :
    ∃ b', b.send f t d n = some b' := by
  unfold Bank.send; simp [h]

/-! ## State-level send / credit -/

theorem State.send_some {s s' : State} {f t : Acct} {d : Denom} {n : Nat} (hft : f ≠ t)
    (h : s.send f t d n = some s') :
    n ≤ s.bal f d ∧ s' = { s with bank := s'.bank } ∧
    (∀ a d', s'.bal a d' =
      if a = t ∧ d' = d then s.bal t d + n else if a = f ∧ d' = d then s.bal f d - n else s.bal a d') := by
  unfold State.send at h
  cases hb : s.bank.send f t d n with
  | none => simp [hb] at h
  | some b' =>
    simp [hb] at h
    subst h
    obtain ⟨hle, hget⟩ := Bank.send_some hft hb
    refine ⟨hle, rfl, fun a d' => ?_⟩
    simp only [State.bal, hget, Prod.mk.injEq]

theorem State.send_isSome {s : State} {f t : Acct} {d : Denom} {n : Nat} (h : n ≤ s.bal f d) :
    ∃ s', s.send f t d n = some s' := by
  obtain ⟨b', hb⟩ := Bank.send_isSome (t := t) h
  exact ⟨{ s with bank := b' }, by simp [State.send, hb]⟩

/-- a send only touches the bank -/
theorem State.send_fields {s s' : State} {f t : Acct} {d : Denom} {n : Nat} (h : s.send f t d n = some s') :
    s'.pairs = s.pairs ∧ s'.pools = s.pools ∧ s'.deps = s.deps ∧ s'.wdrs = s.wdrs ∧ s'.orders = s.orders ∧
    s'.mm = s.mm ∧ s'.farmers = s.farmers ∧ s'.height = s.height ∧ s'.now = s.now := by
  unfold State.send at h
  cases hb : s.bank.send f t d n with
  | none => simp [hb] at h
  | some b' => simp [hb] at h; subst h; simp

theorem State.bal_credit (s : State) (a : Acct) (d : Denom) (n : Nat) (a' : Acct) (d' : Denom) :
    (s.credit a d n).bal a' d' = if a = a' ∧ d = d' then s.bal a d + n else s.bal a' d' := by
  simp [State.credit, State.bal, Bank.get_add]

/-! ## findBy / modBy / sumOver -/

theorem findBy_some_prop {p : α → Bool} {l : List α} {x : α} (h : findBy p l = some x) : p x = true ∧ x ∈ l := by
  induction l with
  | nil => simp [findBy] at h
  | cons y t ih =>
    simp only [findBy] at h
    by_cases hy : p y = true
    · simp [hy] at h; subst h; exact ⟨hy, by simp⟩
    · simp [hy] at h; exact ⟨(ih h).1, by simp [(ih h).2]⟩

theorem modBy_of_none {p : α → Bool} {g : α → α} {l : List α} (h : findBy p l = none) : modBy p g l = l := by
  induction l with
  | nil => rfl
  | cons y t ih =>
    simp only [findBy] at h
    by_cases hy : p y = true
    · simp [hy] at h
    · simp [hy] at h; simp [modBy, hy, ih h]

theorem sumOver_append (F : α → Nat) (l m : List α) : sumOver F (l ++ m) = sumOver F l + sumOver F m := by
  induction l with
  | nil => simp [sumOver]
  | cons x t ih => simp [sumOver, ih]; omega

theorem sumOver_modBy (F : α → Nat) {p : α → Bool} (g : α → α) {l : List α} {x : α} (h : findBy p l = some x) :
    sumOver F (modBy p g l) + F x = sumOver F l + F (g x) := by
  induction l with
  | nil => simp [findBy] at h
  | cons y t ih =>
    simp only [findBy] at h
    by_cases hy : p y = true
    · simp [hy] at h; subst h; simp [modBy, hy, sumOver]; omega
    · simp [hy] at h; have := ih h; simp [modBy, hy, sumOver]; omega

theorem sumOver_modBy_same (F : α → Nat) {p : α → Bool} (g : α → α) (l : List α) (hg : ∀ x, F (g x) = F x) :
    sumOver F (modBy p g l) = sumOver F l := by
  induction l with
  | nil => rfl
  | cons y t ih =>
    by_cases hy : p y = true <;> simp [modBy, hy, sumOver, ih, hg]

theorem sumOver_le_of_mem (F : α → Nat) {l : List α} {x : α} (h : x ∈ l) : F x ≤ sumOver F l := by
  induction l with
  | nil => cases h
  | cons y t ih =>
    simp only [List.mem_cons] at h
    rcases h with rfl | h
    · simp [sumOver]
    · have := ih h; simp [sumOver]; omega

theorem sumOver_filter (F : α → Nat) (q : α → Bool) (l : List α) (h : ∀ x ∈ l, q x = false → F x = 0) :
    sumOver F (l.filter q) = sumOver F l := by
  induction l with
  | nil => rfl
  | cons y t ih =>
    have iht := ih (fun x hx => h x (by simp [hx]))
    by_cases hy : q y = true
    · simp [List.filter, hy, sumOver, iht]
    · have hy' : q y = false := by simpa using hy
      simp [List.filter, hy', sumOver, iht, h y (by simp) hy']

theorem sumOver_map (F : α → Nat) (g : α → α) (l : List α) (hg : ∀ x ∈ l, F (g x) = F x) :
    sumOver F (l.map g) = sumOver F l := by
  induction l with
  | nil => rfl
  | cons y t ih =>
    simp [sumOver, hg y (by simp), ih (fun x hx => hg x (by simp [hx]))]

theorem sumOver_congr (F G : α → Nat) (l : List α) (h : ∀ x ∈ l, F x = G x) : sumOver F l = sumOver G l := by
  induction l with
  | nil => rfl
  | cons y t ih => simp [sumOver, h y (by simp), ih (fun x hx => h x (by simp [hx]))]

/-- `modBy` changes exactly the first match -/
theorem mem_modBy {p : α → Bool} {g : α → α} {l : List α} {y : α} (h : y ∈ modBy p g l) :
    y ∈ l ∨ ∃ x, findBy p l = some x ∧ y = g x := by
  induction l with
  | nil => simp [modBy] at h
  | cons z t ih =>
    by_cases hz : p z = true
    · simp [modBy, hz] at h
      rcases h with rfl | h
      · exact Or.inr ⟨z, by simp [findBy, hz], rfl⟩
      · exact Or.inl (by simp [h])
    · simp [modBy, hz] at h
      rcases h with rfl | h
      · exact Or.inl (by simp)
      · rcases ih h with h1 | ⟨x, hx, he⟩
        · exact Or.inl (by simp [h1])
        · exact Or.inr ⟨x, by simp [findBy, hz, hx], he⟩

/-- a property of all elements survives `modBy` if the modification of the found element has it -/
theorem forall_modBy {P : α → Prop} {p : α → Bool} {g : α → α} {l : List α}
    (h : ∀ x ∈ l, P x) (hg : ∀ x, findBy p l = some x → P (g x)) : ∀ y ∈ modBy p g l, P y := by
  intro y hy
  rcases mem_modBy hy with h1 | ⟨x, hx, he⟩
  · exact h y h1
  · subst he; exact hg x hx

/-- lookup after a modification that keeps keys: same key ⇒ the modified element, other key ⇒ untouched -/
theorem findBy_modBy_same {p : α → Bool} {g : α → α} {l : List α} (hk : ∀ x, p (g x) = p x) :
    findBy p (modBy p g l) = (findBy p l).map g := by
  induction l with
  | nil => rfl
  | cons z t ih =>
    by_cases hz : p z = true
    · simp [modBy, findBy, hz, hk]
    · simp [modBy, findBy, hz, ih]

theorem findBy_modBy_other {p q : α → Bool} {g : α → α} {l : List α} (hk : ∀ x, q (g x) = q x)
    (hd : ∀ x, p x = true → q x = false) : findBy q (modBy p g l) = findBy q l := by
  induction l with
  | nil => rfl
  | cons z t ih =>
    by_cases hz : p z = true
    · have : q z = false := hd z hz
      simp [modBy, findBy, hz, hk, this]
    · by_cases hq : q z = true <;> simp [modBy, findBy, hz, hq, ih]

theorem findBy_append {p : α → Bool} (l m : List α) :
    findBy p (l ++ m) = match findBy p l with | some x => some x | none => findBy p m := by
  induction l with
  | nil => simp [findBy]
  | cons z t ih => by_cases hz : p z = true <;> simp [findBy, hz, ih]

/-! ## foldOpt -/

theorem foldOpt_preserves {α : Type} {P : State → Prop} {f : State → α → Option State}
    (hf : ∀ s x s', P s → f s x = some s' → P s') :
    ∀ (l : List α) (s s' : State), P s → foldOpt f s l = some s' → P s' := by
  intro l
  induction l with
  | nil => intro s s' hp h; simp [foldOpt] at h; subst h; exact hp
  | cons x t ih =>
    intro s s' hp h
    simp only [foldOpt] at h
    cases hx : f s x with
    | none => simp [hx] at h
    | some s1 => simp [hx] at h; exact ih s1 s' (hf s x s1 hp hx) h

/-! ## swap fee arithmetic -/

theorem feeOf_mono (rate : Nat) {x y : Nat} (h : x ≤ y) : feeOf rate x ≤ feeOf rate y := by
  unfold feeOf
  exact Nat.div_le_div_right (Nat.mul_le_mul_right rate h)

theorem feeOf_zero (rate : Nat) : feeOf rate 0 = 0 := by simp [feeOf]

/-- The three branches of `FinishOrder` are one formula: refund = unspent offer + the part of the fee reserve
not attributable to the executed portion; forwarded fee = fee on the executed portion. -/
theorem settle_spec (rate : Nat) (o : Order) (_h : o.remaining ≤ o.offer) :
    settle rate o = (o.remaining + (feeRes rate o - (if o.typ = .mm then 0 else feeOf rate (o.offer - o.remaining))),
                     if o.typ = .mm then 0 else feeOf rate (o.offer - o.remaining)) := by
  unfold settle feeRes
  by_cases hm : o.typ = .mm
  · simp [hm]
  · simp only [hm, if_false]
    by_cases hpos : o.remaining > 0
    · simp only [hpos, if_true]
      by_cases heq : o.remaining = o.offer
      · simp [heq, feeOf_zero]
      · simp [heq]
    · have h0 : o.remaining = 0 := by omega
      simp [h0]

theorem settle_total (rate : Nat) (o : Order) (h : o.remaining ≤ o.offer) :
    (settle rate o).1 + (settle rate o).2 = o.remaining + feeRes rate o := by
  rw [settle_spec rate o h]
  unfold feeRes
  by_cases hm : o.typ = .mm
  · simp [hm]
  · simp only [hm, if_false]
    have := feeOf_mono rate (Nat.sub_le o.offer o.remaining)
    omega


/-! ## The ledger invariant -/

/-- fee forwarded for the executed portion of an order -/
def fwdSpec (rate : Nat) (o : Order) : Nat := if o.typ = .mm then 0 else feeOf rate (o.offer - o.remaining)

/-- per-order ledger: what was taken, and — once the order has ended — what went back and what went to the
fee collector -/
def OrderOk (cfg : Cfg) (o : Order) : Prop :=
  o.taken = o.offer + feeRes (rateOf cfg o.app) o ∧ o.remaining ≤ o.offer ∧
  (o.status.live = true → o.refunded = 0 ∧ o.feeFwd = 0) ∧
  (o.status.live = false →
    o.refunded = o.remaining + (feeRes (rateOf cfg o.app) o - fwdSpec (rateOf cfg o.app) o) ∧
    o.feeFwd = fwdSpec (rateOf cfg o.app) o)

structure Inv (cfg : Cfg) (s : State) : Prop where
  escrow : ∀ d, s.bal .gEscrow d = depSum d s.deps + wdrSum d s.wdrs
  pairEsc : ∀ a p d, s.bal (.pairEscrow a p) d + s.bal (.mOut a p) d = liveSum cfg a p d s.orders + s.bal (.mIn a p) d
  farm : ∀ a p, s.bal .module (.pool a p) = farmSum a p s.farmers
  zero : ∀ q ∈ s.pools, q.ps = 0 → q.disabled = true
  qpos : ∀ f ∈ s.farmers, ∀ q ∈ f.queued, 0 < q.1
  ords : ∀ o ∈ s.orders, OrderOk cfg o

theorem isO_true {k : OKey} {o : Order} (h : isO k o = true) : o.app = k.1 ∧ o.pair = k.2.1 ∧ o.id = k.2.2 := by
  simpa [isO, and_assoc] using h

theorem order?_some {s : State} {k : OKey} {o : Order} (h : s.order? k = some o) :
    o ∈ s.orders ∧ o.app = k.1 ∧ o.pair = k.2.1 ∧ o.id = k.2.2 := by
  have := findBy_some_prop h
  exact ⟨this.2, isO_true this.1⟩

theorem rateOf_of_app {cfg : Cfg} {a : Nat} {ac : AppCfg} (h : cfg.app? a = some ac) : rateOf cfg a = ac.feeRate := by
  simp [rateOf, h]

theorem fwdSpec_le (rate : Nat) (o : Order) : fwdSpec rate o ≤ feeRes rate o := by
  unfold fwdSpec feeRes
  by_cases hm : o.typ = .mm
  · simp [hm]
  · simp only [hm, if_false]; exact feeOf_mono rate (Nat.sub_le _ _)

/-- `FinishOrder` / `FinishMMOrder` with an ending status keeps the ledger invariant. -/
theorem finishOrder_inv {cfg : Cfg} {s s' : State} {k : OKey} {st : OStatus} (hst : st.live = false)
    (hi : Inv cfg s) (h : finishOrder cfg s k st = some s') : Inv cfg s' := by
  unfold finishOrder at h
  cases ho : s.order? k with
  | none => simp [ho] at h
  | some o =>
    simp only [ho] at h
    by_cases hl : o.status.live = true
    · simp only [hl, Bool.not_true, Bool.false_eq_true, if_false] at h
      cases hac : cfg.app? o.app with
      | none => simp [hac] at h
      | some ac =>
        simp only [hac] at h
        cases h1 : s.send (.pairEscrow o.app o.pair) (.user o.owner) o.od (settle ac.feeRate o).1 with
        | none => simp [h1] at h
        | some s1 =>
          simp only [h1] at h
          cases h2 : s1.send (.pairEscrow o.app o.pair) (.swapFee o.app o.pair) o.od (settle ac.feeRate o).2 with
          | none => simp [h2] at h
          | some s2 =>
            simp only [h2, Option.some.injEq] at h
            subst h
            obtain ⟨hmem, -⟩ := order?_some ho
            have hok := hi.ords o hmem
            have hrate := rateOf_of_app hac
            obtain ⟨le1, -, b1⟩ := State.send_some (by simp) h1
            obtain ⟨le2, -, b2⟩ := State.send_some (by simp) h2
            have f1 := State.send_fields h1
            have f2 := State.send_fields h2
            have htot := settle_total ac.feeRate o hok.2.1
            have hord : s2.orders = s.orders := by rw [f2.2.2.2.2.1, f1.2.2.2.2.1]
            refine ⟨?_, ?_, ?_, ?_, ?_, ?_⟩
            · intro d
              have : (s2.modO k fun o' => { o' with status := st, refunded := (settle ac.feeRate o).1, feeFwd := (settle ac.feeRate o).2 }).bal .gEscrow d = s.bal .gEscrow d := by
                show s2.bal .gEscrow d = _
                simp [b2, b1]
              rw [this]
              show _ = depSum d s2.deps + wdrSum d s2.wdrs
              rw [f2.2.2.1, f1.2.2.1, f2.2.2.2.1, f1.2.2.2.1]
              exact hi.escrow d
            · intro a p d
              show s2.bal (.pairEscrow a p) d + s2.bal (.mOut a p) d = liveSum cfg a p d (modBy (isO k) _ s2.orders) + s2.bal (.mIn a p) d
              rw [hord]
              have hs := sumOver_modBy (liveTerm cfg a p d)
                (fun o' => { o' with status := st, refunded := (settle ac.feeRate o).1, feeFwd := (settle ac.feeRate o).2 }) ho
              have hinv := hi.pairEsc a p d
              unfold liveSum at *
              have hnew : liveTerm cfg a p d { o with status := st, refunded := (settle ac.feeRate o).1, feeFwd := (settle ac.feeRate o).2 } = 0 := by
                simp [liveTerm, hst]
              rw [hnew] at hs
              have hO : s2.bal (.mOut a p) d = s.bal (.mOut a p) d := by simp [b2, b1]
              have hI : s2.bal (.mIn a p) d = s.bal (.mIn a p) d := by simp [b2, b1]
              rw [hO, hI]
              by_cases hc : a = o.app ∧ p = o.pair ∧ d = o.od
              · obtain ⟨rfl, rfl, rfl⟩ := hc
                have hold : liveTerm cfg o.app o.pair o.od o = o.remaining + feeRes ac.feeRate o := by
                  simp [liveTerm, hl, hrate]
                rw [hold] at hs
                have e1 : s1.bal (.pairEscrow o.app o.pair) o.od = s.bal (.pairEscrow o.app o.pair) o.od - (settle ac.feeRate o).1 := by
                  simp [b1]
                have e2 : s2.bal (.pairEscrow o.app o.pair) o.od = s1.bal (.pairEscrow o.app o.pair) o.od - (settle ac.feeRate o).2 := by
                  simp [b2]
                rw [e1] at le2 e2
                rw [e2]
                omega
              · have hold : liveTerm cfg a p d o = 0 := by
                  simp only [liveTerm]
                  rw [if_neg]
                  intro hh; exact hc ⟨hh.1.symm, hh.2.1.symm, hh.2.2.1.symm⟩
                rw [hold] at hs
                have hE : s2.bal (.pairEscrow a p) d = s.bal (.pairEscrow a p) d := by
                  have hne : ¬ ((a = o.app ∧ p = o.pair) ∧ d = o.od) := fun hh => hc ⟨hh.1.1, hh.1.2, hh.2⟩
                  simp [b2, b1, hne]
                rw [hE]
                omega
            · intro a p
              show s2.bal .module (.pool a p) = farmSum a p s2.farmers
              rw [f2.2.2.2.2.2.2.1, f1.2.2.2.2.2.2.1]
              simp [b2, b1]
              exact hi.farm a p
            · intro q hq
              have : q ∈ s.pools := by
                have : (s2.modO k fun o' => { o' with status := st, refunded := (settle ac.feeRate o).1, feeFwd := (settle ac.feeRate o).2 }).pools = s.pools := by
                  show s2.pools = _; rw [f2.2.1, f1.2.1]
                rw [this] at hq; exact hq
              exact hi.zero q this
            · intro f hf
              have : f ∈ s.farmers := by
                have : (s2.modO k fun o' => { o' with status := st, refunded := (settle ac.feeRate o).1, feeFwd := (settle ac.feeRate o).2 }).farmers = s.farmers := by
                  show s2.farmers = _; rw [f2.2.2.2.2.2.2.1, f1.2.2.2.2.2.2.1]
                rw [this] at hf; exact hf
              exact hi.qpos f this
            · show ∀ o' ∈ modBy (isO k) _ s2.orders, OrderOk cfg o'
              rw [hord]
              apply forall_modBy hi.ords
              intro x hx
              have hxo : x = o := by
                have : s.order? k = some x := hx
                rw [ho] at this; exact (Option.some.inj this).symm
              subst hxo
              have hsp := settle_spec ac.feeRate x hok.2.1
              refine ⟨?_, ?_, ?_, ?_⟩
              · simpa [feeRes] using hok.1
              · exact hok.2.1
              · intro hlive; simp [hst] at hlive
              · intro _
                simp only [hrate, fwdSpec]
                rw [hsp]
                simp [feeRes]
    · simp only [hl, Bool.not_false, if_true, Option.some.injEq] at h
      subst h; exact hi


/-! ### transfer of the invariant's parts to a state that agrees on what the part reads -/

theorem Inv.escrow_of {cfg : Cfg} {s s' : State} (hi : Inv cfg s) (hb : ∀ d, s'.bal .gEscrow d = s.bal .gEscrow d)
    (hd : s'.deps = s.deps) (hw : s'.wdrs = s.wdrs) : ∀ d, s'.bal .gEscrow d = depSum d s'.deps + wdrSum d s'.wdrs := by
  intro d; rw [hb, hd, hw]; exact hi.escrow d

theorem Inv.pairEsc_of {cfg : Cfg} {s s' : State} (hi : Inv cfg s)
    (hb : ∀ a p d, s'.bal (.pairEscrow a p) d = s.bal (.pairEscrow a p) d ∧ s'.bal (.mOut a p) d = s.bal (.mOut a p) d ∧
      s'.bal (.mIn a p) d = s.bal (.mIn a p) d)
    (ho : s'.orders = s.orders) :
    ∀ a p d, s'.bal (.pairEscrow a p) d + s'.bal (.mOut a p) d = liveSum cfg a p d s'.orders + s'.bal (.mIn a p) d := by
  intro a p d; rw [(hb a p d).1, (hb a p d).2.1, (hb a p d).2.2, ho]; exact hi.pairEsc a p d

theorem Inv.farm_of {cfg : Cfg} {s s' : State} (hi : Inv cfg s) (hb : ∀ a p, s'.bal .module (.pool a p) = s.bal .module (.pool a p))
    (hf : s'.farmers = s.farmers) : ∀ a p, s'.bal .module (.pool a p) = farmSum a p s'.farmers := by
  intro a p; rw [hb, hf]; exact hi.farm a p

theorem Inv.zero_of {cfg : Cfg} {s s' : State} (hi : Inv cfg s) (hp : s'.pools = s.pools) :
    ∀ q ∈ s'.pools, q.ps = 0 → q.disabled = true := by rw [hp]; exact hi.zero

theorem Inv.qpos_of {cfg : Cfg} {s s' : State} (hi : Inv cfg s) (hf : s'.farmers = s.farmers) :
    ∀ f ∈ s'.farmers, ∀ q ∈ f.queued, 0 < q.1 := by rw [hf]; exact hi.qpos

theorem Inv.ords_of {cfg : Cfg} {s s' : State} (hi : Inv cfg s) (ho : s'.orders = s.orders) :
    ∀ o ∈ s'.orders, OrderOk cfg o := by rw [ho]; exact hi.ords

theorem isPair_true {a p : Nat} {x : Pair} (h : isPair a p x = true) : x.app = a ∧ x.id = p := by
  simpa [isPair] using h

theorem pair?_some {s : State} {a p : Nat} {x : Pair} (h : s.pair? a p = some x) : x ∈ s.pairs ∧ x.app = a ∧ x.id = p := by
  have := findBy_some_prop h
  exact ⟨this.2, isPair_true this.1⟩

theorem isPool_true {a p : Nat} {x : Pool} (h : isPool a p x = true) : x.app = a ∧ x.id = p := by
  simpa [isPool] using h

theorem pool?_some {s : State} {a p : Nat} {x : Pool} (h : s.pool? a p = some x) : x ∈ s.pools ∧ x.app = a ∧ x.id = p := by
  have := findBy_some_prop h
  exact ⟨this.2, isPool_true this.1⟩

/-- a newly placed order satisfies the per-order ledger law -/
theorem newOrder_ok (cfg : Cfg) (p : Pair) (id owner : Nat) (typ : OType) (buy : Bool) (price amount offer : Nat) (e : Int) :
    OrderOk cfg (newOrder p id owner typ buy price amount offer
      (offer + (if typ = .mm then 0 else feeOf (rateOf cfg p.app) offer)) e) := by
  refine ⟨?_, Nat.le_refl _, fun _ => ⟨rfl, rfl⟩, fun h => ?_⟩
  · by_cases hm : typ = .mm <;> simp [newOrder, feeRes, hm]
  · simp [newOrder, OStatus.live] at h

theorem liveTerm_newOrder (cfg : Cfg) (p : Pair) (id owner : Nat) (typ : OType) (buy : Bool) (price amount offer tk : Nat)
    (e : Int) (a q : Nat) (d : Denom) :
    liveTerm cfg a q d (newOrder p id owner typ buy price amount offer tk e) =
      if p.app = a ∧ p.id = q ∧ sideIn p buy = d then
        offer + (if typ = .mm then 0 else feeOf (rateOf cfg p.app) offer) else 0 := by
  by_cases hm : typ = .mm <;> simp [liveTerm, newOrder, OStatus.live, feeRes, hm]

/-- `LimitOrder` / `MarketOrder` keep the ledger invariant. -/
theorem placeOrder_inv {cfg : Cfg} {s s' : State} {app user pair : Nat} {typ : OType} {buy : Bool}
    {msgOffer msgPrice price amount : Nat} {lifespan : Int} {ext : Bool} (hi : Inv cfg s)
    (h : placeOrder cfg s app user pair typ buy msgOffer msgPrice price amount lifespan ext = some s') : Inv cfg s' := by
  unfold placeOrder at h
  split at h; · cases h
  rename_i hmm
  split at h; · cases h
  split at h; · cases h
  split at h; · cases h
  rename_i ac hac
  split at h; · cases h
  rename_i p hp
  simp only [] at h
  split at h; · cases h
  split at h; · cases h
  split at h; · cases h
  split at h; · cases h
  split at h; · cases h
  split at h; · cases h
  rename_i s1 h1
  simp only [Option.some.injEq] at h
  subst h
  obtain ⟨-, hpa, hpi⟩ := pair?_some hp
  have hrate := rateOf_of_app hac
  obtain ⟨le1, -, b1⟩ := State.send_some (by simp) h1
  have f1 := State.send_fields h1
  refine ⟨?_, ?_, ?_, ?_, ?_, ?_⟩
  · apply hi.escrow_of
    · intro d; show s1.bal .gEscrow d = _; simp [b1]
    · show s1.deps = _; exact f1.2.2.1
    · show s1.wdrs = _; exact f1.2.2.2.1
  · intro a q d
    show s1.bal (.pairEscrow a q) d + s1.bal (.mOut a q) d = liveSum cfg a q d (s1.orders ++ [_]) + s1.bal (.mIn a q) d
    rw [f1.2.2.2.2.1]
    unfold liveSum
    rw [sumOver_append]
    have hinv := hi.pairEsc a q d
    unfold liveSum at hinv
    have hO : s1.bal (.mOut a q) d = s.bal (.mOut a q) d := by simp [b1]
    have hI : s1.bal (.mIn a q) d = s.bal (.mIn a q) d := by simp [b1]
    rw [hO, hI]
    simp only [sumOver, liveTerm_newOrder, Nat.add_zero]
    have hmm' : (if typ = OType.mm then 0 else feeOf (rateOf cfg p.app) (offerAmt buy price amount)) = feeOf ac.feeRate (offerAmt buy price amount) := by
      simp [hmm, hpa, hrate]
    rw [hmm']
    by_cases hc : p.app = a ∧ p.id = q ∧ (sideIn p buy) = d
    · obtain ⟨rfl, rfl, rfl⟩ := hc
      have hE : s1.bal (.pairEscrow p.app p.id) (sideIn p buy) =
          s.bal (.pairEscrow p.app p.id) (sideIn p buy) + (offerAmt buy price amount + feeOf ac.feeRate (offerAmt buy price amount)) := by
        rw [b1]; simp [hpa, hpi]
      rw [hE]; simp; omega
    · have hE : s1.bal (.pairEscrow a q) d = s.bal (.pairEscrow a q) d := by
        rw [b1]
        have : ¬ (Acct.pairEscrow a q = Acct.pairEscrow app pair ∧ d = sideIn p buy) := by
          intro hh; simp at hh; apply hc; rw [hpa, hpi]; exact ⟨hh.1.1.symm, hh.1.2.symm, hh.2.symm⟩
        rw [if_neg this]; simp
      rw [hE, if_neg hc]; omega
  · apply hi.farm_of
    · intro a q; show s1.bal .module _ = _; simp [b1]
    · show s1.farmers = _; exact f1.2.2.2.2.2.2.1
  · apply hi.zero_of; show s1.pools = _; exact f1.2.1
  · apply hi.qpos_of; show s1.farmers = _; exact f1.2.2.2.2.2.2.1
  · intro o ho
    have ho' : o ∈ s1.orders ++ [newOrder p (p.lastOrderId + 1) user typ buy price amount (offerAmt buy price amount)
        (offerAmt buy price amount + feeOf ac.feeRate (offerAmt buy price amount)) (s.now + lifespan)] := ho
    rw [f1.2.2.2.2.1] at ho'
    rcases List.mem_append.mp ho' with h1 | h1
    · exact hi.ords o h1
    · simp only [List.mem_singleton] at h1
      subst h1
      have := newOrder_ok cfg p (p.lastOrderId + 1) user typ buy price amount (offerAmt buy price amount) (s.now + lifespan)
      simpa [hmm, hpa, hrate] using this


theorem Inv.modPair {cfg : Cfg} {s : State} (hi : Inv cfg s) (a p : Nat) (g : Pair → Pair) : Inv cfg (s.modPair a p g) :=
  ⟨hi.escrow, hi.pairEsc, hi.farm, hi.zero, hi.qpos, hi.ords⟩

theorem Inv.with_mm {cfg : Cfg} {s : State} (hi : Inv cfg s) (m : List MMIndex) : Inv cfg { s with mm := m } :=
  ⟨hi.escrow, hi.pairEsc, hi.farm, hi.zero, hi.qpos, hi.ords⟩

theorem Inv.with_block {cfg : Cfg} {s : State} (hi : Inv cfg s) (h : Nat) (t : Int) : Inv cfg { s with height := h, now := t } :=
  ⟨hi.escrow, hi.pairEsc, hi.farm, hi.zero, hi.qpos, hi.ords⟩

theorem cancelOrder_inv {cfg : Cfg} {s s' : State} {app user pair id : Nat} (hi : Inv cfg s)
    (h : cancelOrder cfg s app user pair id = some s') : Inv cfg s' := by
  unfold cancelOrder at h
  split at h; · cases h
  split at h; · cases h
  split at h; · cases h
  split at h; · cases h
  split at h; · cases h
  split at h; · cases h
  split at h; · cases h
  exact finishOrder_inv rfl hi h

theorem cancelAllStep_inv {cfg : Cfg} {app user : Nat} {pairs : List Nat} {s s' : State} {k : OKey} (hi : Inv cfg s)
    (h : cancelAllStep cfg app user pairs s k = some s') : Inv cfg s' := by
  unfold cancelAllStep at h
  split at h
  · cases h; exact hi
  · split at h
    · split at h
      · cases h; exact hi
      · split at h
        · exact finishOrder_inv rfl hi h
        · cases h; exact hi
    · cases h; exact hi

theorem cancelAll_inv {cfg : Cfg} {s s' : State} {app user : Nat} {pairs : List Nat} (hi : Inv cfg s)
    (h : cancelAll cfg s app user pairs = some s') : Inv cfg s' := by
  unfold cancelAll at h
  split at h; · cases h
  split at h; · cases h
  split at h; · cases h
  exact foldOpt_preserves (fun s x s' hp hs => cancelAllStep_inv hp hs) _ _ _ hi h

theorem cancelMMStep_inv {cfg : Cfg} {app : Nat} {p : Pair} {s s' : State} {id : Nat} (hi : Inv cfg s)
    (h : cancelMMStep cfg app p s id = some s') : Inv cfg s' := by
  unfold cancelMMStep at h
  split at h
  · cases h; exact hi
  · split at h
    · cases h
    · split at h
      · exact finishOrder_inv rfl hi h
      · cases h; exact hi

theorem cancelMMCore_inv {cfg : Cfg} {s s' : State} {app user : Nat} {p : Pair} {skip : Bool} (hi : Inv cfg s)
    (h : cancelMMCore cfg s app user p skip = some s') : Inv cfg s' := by
  unfold cancelMMCore at h
  split at h
  · split at h
    · cases h
    · rename_i s1 h1
      cases h
      exact (foldOpt_preserves (fun s x s' hp hs => cancelMMStep_inv hp hs) _ _ _ hi h1).with_mm _
  · split at h
    · cases h; exact hi
    · cases h

theorem cancelMM_inv {cfg : Cfg} {s s' : State} {app user pair : Nat} (hi : Inv cfg s)
    (h : cancelMM cfg s app user pair = some s') : Inv cfg s' := by
  unfold cancelMM at h
  split at h; · cases h
  split at h; · cases h
  exact cancelMMCore_inv hi h


theorem liveSum_mkMM (cfg : Cfg) (p : Pair) (owner : Nat) (buy : Bool) (e : Int) (a q : Nat) (d : Denom) :
    ∀ (ts : List Tick) (last : Nat), sumOver (liveTerm cfg a q d) (mkMMOrders p owner buy e last ts) =
      if p.app = a ∧ p.id = q ∧ sideIn p buy = d then sumOffers ts else 0 := by
  intro ts
  induction ts with
  | nil => intro last; simp [mkMMOrders, sumOver, sumOffers]
  | cons t ts ih =>
    intro last
    simp only [mkMMOrders, sumOver, sumOffers, ih, liveTerm_newOrder]
    by_cases hc : p.app = a ∧ p.id = q ∧ sideIn p buy = d <;> simp [hc]

theorem mkMM_ok (cfg : Cfg) (p : Pair) (owner : Nat) (buy : Bool) (e : Int) :
    ∀ (ts : List Tick) (last : Nat), ∀ o ∈ mkMMOrders p owner buy e last ts, OrderOk cfg o := by
  intro ts
  induction ts with
  | nil => intro last o ho; simp [mkMMOrders] at ho
  | cons t ts ih =>
    intro last o ho
    simp only [mkMMOrders, List.mem_cons] at ho
    rcases ho with rfl | ho
    · have := newOrder_ok cfg p (last + 1) owner .mm buy t.price t.amount t.offer e
      simpa using this
    · exact ih _ o ho

theorem sideIn_true (p : Pair) : sideIn p true = p.quote := rfl
theorem sideIn_false (p : Pair) : sideIn p false = p.base := rfl

theorem mmOrder_inv {cfg : Cfg} {s s' : State} {app user pair : Nat} {buys sells : List Tick} {lifespan : Int} {ext : Bool}
    (hi : Inv cfg s) (h : mmOrder cfg s app user pair buys sells lifespan ext = some s') : Inv cfg s' := by
  unfold mmOrder at h
  split at h; · cases h
  split at h; · cases h
  rename_i ac hac
  split at h; · cases h
  split at h; · cases h
  rename_i p hp
  simp only [] at h
  split at h; · cases h
  split at h; · cases h
  split at h; · cases h
  split at h; · cases h
  rename_i s1 hc1
  split at h; · cases h
  rename_i s2 h2
  split at h; · cases h
  rename_i s3 h3
  simp only [Option.some.injEq] at h
  subst h
  have hi1 := cancelMMCore_inv hi hc1
  obtain ⟨-, hpa, hpi⟩ := pair?_some hp
  obtain ⟨le2, -, b2⟩ := State.send_some (by simp) h2
  obtain ⟨le3, -, b3⟩ := State.send_some (by simp) h3
  have f2 := State.send_fields h2
  have f3 := State.send_fields h3
  have hord : s3.orders = s1.orders := by rw [f3.2.2.2.2.1, f2.2.2.2.2.1]
  refine ⟨?_, ?_, ?_, ?_, ?_, ?_⟩
  · apply hi1.escrow_of
    · intro d; show s3.bal .gEscrow d = _; simp [b3, b2]
    · show s3.deps = _; rw [f3.2.2.1, f2.2.2.1]
    · show s3.wdrs = _; rw [f3.2.2.2.1, f2.2.2.2.1]
  · intro a q d
    show s3.bal (.pairEscrow a q) d + s3.bal (.mOut a q) d = liveSum cfg a q d (s3.orders ++ (_ ++ _)) + s3.bal (.mIn a q) d
    rw [hord]
    unfold liveSum
    rw [sumOver_append, sumOver_append, liveSum_mkMM, liveSum_mkMM, sideIn_true, sideIn_false]
    have hinv := hi1.pairEsc a q d
    unfold liveSum at hinv
    have hO : s3.bal (.mOut a q) d = s1.bal (.mOut a q) d := by simp [b3, b2]
    have hI : s3.bal (.mIn a q) d = s1.bal (.mIn a q) d := by simp [b3, b2]
    rw [hO, hI]
    have e2 : s2.bal (.pairEscrow a q) d =
        if (a = app ∧ q = pair) ∧ d = p.base then s1.bal (.pairEscrow app pair) p.base + sumOffers sells else s1.bal (.pairEscrow a q) d := by
      rw [b2]; simp
    have e3 : s3.bal (.pairEscrow a q) d =
        if (a = app ∧ q = pair) ∧ d = p.quote then s2.bal (.pairEscrow app pair) p.quote + sumOffers buys else s2.bal (.pairEscrow a q) d := by
      rw [b3]; simp
    rw [e3]
    by_cases hk : a = app ∧ q = pair
    · obtain ⟨rfl, rfl⟩ := hk
      have e2' : s2.bal (.pairEscrow a q) p.quote =
          if p.quote = p.base then s1.bal (.pairEscrow a q) p.base + sumOffers sells else s1.bal (.pairEscrow a q) p.quote := by
        rw [b2]; simp
      by_cases hq : d = p.quote
      · subst hq
        by_cases hb : p.quote = p.base
        · simp [hpa, hpi, hb] at e2 e2' hinv ⊢
          omega
        · have hb' : ¬ p.base = p.quote := fun e => hb e.symm
          simp [hpa, hpi, hb, hb'] at e2 e2' hinv ⊢
          rw [e2']; omega
      · have hq' : ¬ p.quote = d := fun e => hq e.symm
        by_cases hb : d = p.base
        · subst hb
          simp [hpa, hpi, hq, hq'] at e2 hinv ⊢
          rw [e2]; omega
        · have hb' : ¬ p.base = d := fun e => hb e.symm
          simp [hpa, hpi, hq, hq', hb, hb'] at e2 hinv ⊢
          rw [e2]; omega
    · have hk' : ¬ (p.app = a ∧ p.id = q) := by rw [hpa, hpi]; intro hh; exact hk ⟨hh.1.symm, hh.2.symm⟩
      have hk1 : ¬ (p.app = a ∧ p.id = q ∧ p.quote = d) := fun hh => hk' ⟨hh.1, hh.2.1⟩
      have hk2 : ¬ (p.app = a ∧ p.id = q ∧ p.base = d) := fun hh => hk' ⟨hh.1, hh.2.1⟩
      simp [hk, hk1, hk2] at e2 ⊢
      rw [e2]; omega
  · apply hi1.farm_of
    · intro a q; show s3.bal .module _ = _; simp [b3, b2]
    · show s3.farmers = _; rw [f3.2.2.2.2.2.2.1, f2.2.2.2.2.2.2.1]
  · apply hi1.zero_of; show s3.pools = _; rw [f3.2.1, f2.2.1]
  · apply hi1.qpos_of; show s3.farmers = _; rw [f3.2.2.2.2.2.2.1, f2.2.2.2.2.2.2.1]
  · intro o ho
    have ho' : o ∈ s3.orders ++ (mkMMOrders p user true (s.now + lifespan) p.lastOrderId buys ++
        mkMMOrders p user false (s.now + lifespan) (p.lastOrderId + buys.length) sells) := ho
    rw [hord] at ho'
    rcases List.mem_append.mp ho' with h1 | h1
    · exact hi1.ords o h1
    · rcases List.mem_append.mp h1 with h1 | h1
      · exact mkMM_ok cfg p user true _ _ _ o h1
      · exact mkMM_ok cfg p user false _ _ _ o h1


/-! ### pools, requests -/

theorem modBy_modBy {p : α → Bool} {g1 g2 : α → α} (l : List α) (hk : ∀ x, p (g1 x) = p x) :
    modBy p g2 (modBy p g1 l) = modBy p (fun x => g2 (g1 x)) l := by
  induction l with
  | nil => rfl
  | cons z t ih =>
    by_cases hz : p z = true
    · simp [modBy, hz, hk]
    · simp [modBy, hz, ih]

theorem Inv.modPool {cfg : Cfg} {s : State} (hi : Inv cfg s) (a p : Nat) (g : Pool → Pool)
    (hg : ∀ x, (g x).ps = 0 → (g x).disabled = true ∨ (x.ps = 0 ∧ (g x).disabled = x.disabled)) : Inv cfg (s.modPool a p g) := by
  refine ⟨hi.escrow, hi.pairEsc, hi.farm, ?_, hi.qpos, hi.ords⟩
  show ∀ q ∈ modBy (isPool a p) g s.pools, _
  apply forall_modBy hi.zero
  intro x hx h0
  rcases hg x h0 with h | ⟨h1, h2⟩
  · exact h
  · rw [h2]; exact hi.zero x (findBy_some_prop hx).2 h1

theorem isDep_true {a p i : Nat} {x : DepReq} (h : isDep a p i x = true) : x.app = a ∧ x.pool = p ∧ x.id = i := by
  simpa [isDep, and_assoc] using h
theorem isWdr_true {a p i : Nat} {x : WdrReq} (h : isWdr a p i x = true) : x.app = a ∧ x.pool = p ∧ x.id = i := by
  simpa [isWdr, and_assoc] using h

theorem depositReq_inv {cfg : Cfg} {s s' : State} {app user pool dx dy : Nat} {ext : Bool} {id : Nat} (hi : Inv cfg s)
    (h : depositReq cfg s app user pool dx dy ext = some (s', id)) : Inv cfg s' := by
  unfold depositReq at h
  split at h; · cases h
  split at h; · cases h
  split at h; · cases h
  rename_i q hq
  split at h; · cases h
  split at h; · cases h
  rename_i p hp
  split at h; · cases h
  split at h; · cases h
  rename_i s1 h1
  split at h; · cases h
  rename_i s2 h2
  simp only [Option.some.injEq, Prod.mk.injEq] at h
  obtain ⟨h, -⟩ := h
  subst h
  obtain ⟨le1, -, b1⟩ := State.send_some (by simp) h1
  obtain ⟨le2, -, b2⟩ := State.send_some (by simp) h2
  have f1 := State.send_fields h1
  have f2 := State.send_fields h2
  refine ⟨?_, ?_, ?_, ?_, ?_, ?_⟩
  · intro d
    show s2.bal .gEscrow d = depSum d (s2.deps ++ [_]) + wdrSum d s2.wdrs
    rw [f2.2.2.1, f1.2.2.1, f2.2.2.2.1, f1.2.2.2.1]
    unfold depSum
    rw [sumOver_append]
    have hinv := hi.escrow d
    unfold depSum at hinv
    simp only [sumOver, depTerm, if_true, Nat.add_zero]
    have e1 : s1.bal .gEscrow d = if d = p.quote then s.bal .gEscrow p.quote + dx else s.bal .gEscrow d := by rw [b1]; simp
    have e2 : s2.bal .gEscrow d = if d = p.base then s1.bal .gEscrow p.base + dy else s1.bal .gEscrow d := by rw [b2]; simp
    have e1' : s1.bal .gEscrow p.base = if p.base = p.quote then s.bal .gEscrow p.quote + dx else s.bal .gEscrow p.base := by rw [b1]; simp
    rw [e2]
    by_cases hq : d = p.quote
    · subst hq
      by_cases hb : p.quote = p.base
      · simp [hb] at e1 e1' hinv ⊢
        omega
      · have hb' : ¬ p.base = p.quote := fun e => hb e.symm
        simp [hb, hb'] at e1 hinv ⊢
        rw [e1]; omega
    · have hq' : ¬ p.quote = d := fun e => hq e.symm
      by_cases hb : d = p.base
      · subst hb
        simp [hq, hq'] at e1' hinv ⊢
        rw [e1']; omega
      · have hb' : ¬ p.base = d := fun e => hb e.symm
        simp [hq, hq', hb, hb'] at e1 hinv ⊢
        rw [e1]; omega
  · apply hi.pairEsc_of
    · intro a q d
      refine ⟨?_, ?_, ?_⟩ <;> (show s2.bal _ d = _; simp [b2, b1])
    · show s2.orders = _; rw [f2.2.2.2.2.1, f1.2.2.2.2.1]
  · apply hi.farm_of
    · intro a q; show s2.bal .module _ = _; simp [b2, b1]
    · show s2.farmers = _; rw [f2.2.2.2.2.2.2.1, f1.2.2.2.2.2.2.1]
  · show ∀ x ∈ modBy (isPool app pool) _ s2.pools, _
    rw [f2.2.1, f1.2.1]
    apply forall_modBy hi.zero
    intro x hx
    exact hi.zero x (findBy_some_prop hx).2
  · apply hi.qpos_of; show s2.farmers = _; rw [f2.2.2.2.2.2.2.1, f1.2.2.2.2.2.2.1]
  · apply hi.ords_of; show s2.orders = _; rw [f2.2.2.2.2.1, f1.2.2.2.2.1]

theorem withdrawReq_inv {cfg : Cfg} {s s' : State} {app user pool pc : Nat} {ext : Bool} {id : Nat} (hi : Inv cfg s)
    (h : withdrawReq cfg s app user pool pc ext = some (s', id)) : Inv cfg s' := by
  unfold withdrawReq at h
  split at h; · cases h
  split at h; · cases h
  split at h; · cases h
  rename_i q hq
  split at h; · cases h
  split at h; · cases h
  split at h; · cases h
  rename_i s1 h1
  simp only [Option.some.injEq, Prod.mk.injEq] at h
  obtain ⟨h, -⟩ := h
  subst h
  obtain ⟨le1, -, b1⟩ := State.send_some (by simp) h1
  have f1 := State.send_fields h1
  refine ⟨?_, ?_, ?_, ?_, ?_, ?_⟩
  · intro d
    show s1.bal .gEscrow d = depSum d s1.deps + wdrSum d (s1.wdrs ++ [_])
    rw [f1.2.2.1, f1.2.2.2.1]
    unfold wdrSum
    rw [sumOver_append]
    have hinv := hi.escrow d
    unfold wdrSum at hinv
    simp only [sumOver, wdrTerm, true_and, Nat.add_zero]
    have e1 : s1.bal .gEscrow d = if d = .pool app pool then s.bal .gEscrow (.pool app pool) + pc else s.bal .gEscrow d := by rw [b1]; simp
    rw [e1]
    by_cases hd : d = .pool app pool
    · subst hd; simp at hinv ⊢; omega
    · have hd' : ¬ Denom.pool app pool = d := fun e => hd e.symm
      simp [hd, hd'] at hinv ⊢; omega
  · apply hi.pairEsc_of
    · intro a q d
      refine ⟨?_, ?_, ?_⟩ <;> (show s1.bal _ d = _; simp [b1])
    · show s1.orders = _; exact f1.2.2.2.2.1
  · apply hi.farm_of
    · intro a q; show s1.bal .module _ = _; simp [b1]
    · show s1.farmers = _; exact f1.2.2.2.2.2.2.1
  · show ∀ x ∈ modBy (isPool app pool) _ s1.pools, _
    rw [f1.2.1]
    apply forall_modBy hi.zero
    intro x hx
    exact hi.zero x (findBy_some_prop hx).2
  · apply hi.qpos_of; show s1.farmers = _; exact f1.2.2.2.2.2.2.1
  · apply hi.ords_of; show s1.orders = _; exact f1.2.2.2.2.1


/-- two consecutive sends out of one account -/
theorem send2_from {s s1 s2 : State} {A T1 T2 : Acct} {d1 d2 : Denom} {x1 x2 : Nat} (n1 : A ≠ T1) (n2 : A ≠ T2)
    (h1 : s.send A T1 d1 x1 = some s1) (h2 : s1.send A T2 d2 x2 = some s2) :
    ∀ d, s2.bal A d + (if d1 = d then x1 else 0) + (if d2 = d then x2 else 0) = s.bal A d := by
  intro d
  obtain ⟨le1, -, b1⟩ := State.send_some n1 h1
  obtain ⟨le2, -, b2⟩ := State.send_some n2 h2
  have n1' : ¬ A = T1 := n1
  have n2' : ¬ A = T2 := n2
  have e1 : ∀ d', s1.bal A d' = if d' = d1 then s.bal A d1 - x1 else s.bal A d' := by intro d'; rw [b1]; simp [n1']
  have e2 : ∀ d', s2.bal A d' = if d' = d2 then s1.bal A d2 - x2 else s1.bal A d' := by intro d'; rw [b2]; simp [n2']
  rw [e2 d]
  have a1 := e1 d
  have a2 := e1 d2
  rw [a2] at le2
  by_cases hq : d1 = d
  · subst hq
    by_cases hb : d2 = d1
    · subst hb; simp at a1 a2 le2 ⊢; rw [a2]; omega
    · have hb' : ¬ d1 = d2 := fun e => hb e.symm
      simp [hb, hb'] at a1 a2 le2 ⊢; rw [a1]; omega
  · have hq' : ¬ d = d1 := fun e => hq e.symm
    by_cases hb : d2 = d
    · subst hb; simp [hq, hq'] at a1 a2 le2 ⊢; rw [a2]; omega
    · have hb' : ¬ d = d2 := fun e => hb e.symm
      simp [hq, hq', hb, hb'] at a1 ⊢; exact a1

theorem State.bal_mint (s : State) (a p n : Nat) (x : Acct) (d : Denom) :
    (s.mint a p n).bal x d = if x = .module ∧ d = .pool a p then s.bal .module (.pool a p) + n else s.bal x d := by
  simp only [State.mint, State.bal, Bank.get_add, State.modPool, Prod.mk.injEq]
  by_cases h : x = .module ∧ d = .pool a p
  · obtain ⟨rfl, rfl⟩ := h; simp
  · have : ¬ (Acct.module = x ∧ Denom.pool a p = d) := fun hh => h ⟨hh.1.symm, hh.2.symm⟩
    simp [h, this]

theorem failDep_inv {cfg : Cfg} {s s' : State} {r : DepReq} (hi : Inv cfg s)
    (hr : findBy (isDep r.app r.pool r.id) s.deps = some r) (hp : r.status = .pending)
    (h : failDep s r = some s') : Inv cfg s' := by
  unfold failDep at h
  split at h; · cases h
  rename_i s1 h1
  split at h; · cases h
  rename_i s2 h2
  simp only [Option.some.injEq] at h
  subst h
  have hg := send2_from (by simp) (by simp) h1 h2
  obtain ⟨-, -, b1⟩ := State.send_some (by simp) h1
  obtain ⟨-, -, b2⟩ := State.send_some (by simp) h2
  have f1 := State.send_fields h1
  have f2 := State.send_fields h2
  refine ⟨?_, ?_, ?_, ?_, ?_, ?_⟩
  · intro d
    show s2.bal .gEscrow d = depSum d (modBy _ _ s2.deps) + wdrSum d s2.wdrs
    rw [f2.2.2.1, f1.2.2.1, f2.2.2.2.1, f1.2.2.2.1]
    have hs := sumOver_modBy (depTerm d) (fun r => { r with status := .failed }) hr
    have hinv := hi.escrow d
    unfold depSum at hinv ⊢
    have hnew : depTerm d { r with status := .failed } = 0 := by simp [depTerm]
    have hold : depTerm d r = (if r.qd = d then r.dx else 0) + (if r.bd = d then r.dy else 0) := by simp [depTerm, hp]
    rw [hnew, hold] at hs
    have := hg d
    omega
  · apply hi.pairEsc_of
    · intro a q d
      refine ⟨?_, ?_, ?_⟩ <;> (show s2.bal _ d = _; simp [b2, b1])
    · show s2.orders = _; rw [f2.2.2.2.2.1, f1.2.2.2.2.1]
  · apply hi.farm_of
    · intro a q; show s2.bal .module _ = _; simp [b2, b1]
    · show s2.farmers = _; rw [f2.2.2.2.2.2.2.1, f1.2.2.2.2.2.2.1]
  · apply hi.zero_of; show s2.pools = _; rw [f2.2.1, f1.2.1]
  · apply hi.qpos_of; show s2.farmers = _; rw [f2.2.2.2.2.2.2.1, f1.2.2.2.2.2.2.1]
  · apply hi.ords_of; show s2.orders = _; rw [f2.2.2.2.2.1, f1.2.2.2.2.1]

theorem Inv.disablePool {cfg : Cfg} {s : State} (hi : Inv cfg s) (a p : Nat) :
    Inv cfg (s.modPool a p fun q => { q with disabled := true }) :=
  hi.modPool a p _ (fun _ _ => Or.inl rfl)

theorem execDeposit_inv {cfg : Cfg} {s s' : State} {a pl i ax ay pc : Nat} (hi : Inv cfg s)
    (h : execDeposit s a pl i ax ay pc = some s') : Inv cfg s' := by
  unfold execDeposit at h
  split at h; · cases h
  rename_i r hr
  have hrk := isDep_true (findBy_some_prop hr).1
  have hr' : findBy (isDep r.app r.pool r.id) s.deps = some r := by rw [hrk.1, hrk.2.1, hrk.2.2]; exact hr
  split at h; · cases h; exact hi
  rename_i hpend
  have hpend' : r.status = .pending := by simpa using hpend
  split at h; · cases h
  rename_i q hq
  split at h; · exact failDep_inv hi hr' hpend' h
  split at h; · cases h
  rename_i p hp
  split at h; · exact failDep_inv (hi.disablePool a pl) hr' hpend' h
  split at h; · exact failDep_inv hi hr' hpend' h
  rename_i hpc
  split at h; · cases h
  rename_i hle
  simp only [] at h
  split at h; · cases h
  rename_i s2 h2
  split at h; · cases h
  rename_i s3 h3
  split at h; · cases h
  rename_i s4 h4
  split at h; · cases h
  rename_i s5 h5
  split at h; · cases h
  rename_i s6 h6
  simp only [Option.some.injEq] at h
  subst h
  have g23 := send2_from (by simp) (by simp) h2 h3
  have g56 := send2_from (by simp) (by simp) h5 h6
  obtain ⟨-, -, b2⟩ := State.send_some (by simp) h2
  obtain ⟨-, -, b3⟩ := State.send_some (by simp) h3
  obtain ⟨le4, -, b4⟩ := State.send_some (by simp) h4
  obtain ⟨-, -, b5⟩ := State.send_some (by simp) h5
  obtain ⟨-, -, b6⟩ := State.send_some (by simp) h6
  have f2 := State.send_fields h2
  have f3 := State.send_fields h3
  have f4 := State.send_fields h4
  have f5 := State.send_fields h5
  have f6 := State.send_fields h6
  have bm := State.bal_mint s a pl pc
  have hdeps : s6.deps = s.deps := by rw [f6.2.2.1, f5.2.2.1, f4.2.2.1, f3.2.2.1, f2.2.2.1]; rfl
  have hwdrs : s6.wdrs = s.wdrs := by rw [f6.2.2.2.1, f5.2.2.2.1, f4.2.2.2.1, f3.2.2.2.1, f2.2.2.2.1]; rfl
  have hords : s6.orders = s.orders := by rw [f6.2.2.2.2.1, f5.2.2.2.2.1, f4.2.2.2.2.1, f3.2.2.2.2.1, f2.2.2.2.2.1]; rfl
  have hfarm : s6.farmers = s.farmers := by
    rw [f6.2.2.2.2.2.2.1, f5.2.2.2.2.2.2.1, f4.2.2.2.2.2.2.1, f3.2.2.2.2.2.2.1, f2.2.2.2.2.2.2.1]; rfl
  have hpools : s6.pools = (s.mint a pl pc).pools := by rw [f6.2.1, f5.2.1, f4.2.1, f3.2.1, f2.2.1]
  refine ⟨?_, ?_, ?_, ?_, ?_, ?_⟩
  · intro d
    show s6.bal .gEscrow d = depSum d (modBy _ _ s6.deps) + wdrSum d s6.wdrs
    rw [hdeps, hwdrs]
    have hs := sumOver_modBy (depTerm d) (fun r => { r with status := .succeeded, ax := ax, ay := ay, minted := pc }) hr
    have hinv := hi.escrow d
    unfold depSum at hinv ⊢
    have hnew : depTerm d { r with status := .succeeded, ax := ax, ay := ay, minted := pc } = 0 := by simp [depTerm]
    have hold : depTerm d r = (if r.qd = d then r.dx else 0) + (if r.bd = d then r.dy else 0) := by simp [depTerm, hpend']
    rw [hnew, hold] at hs
    have e1 := g23 d
    have e2 := g56 d
    have e4 : s4.bal .gEscrow d = s3.bal .gEscrow d := by rw [b4]; simp
    have e0 : (s.mint a pl pc).bal .gEscrow d = s.bal .gEscrow d := by rw [bm]; simp
    rw [e4] at e2
    rw [e0] at e1
    have hle' : ax ≤ r.dx ∧ ay ≤ r.dy := by omega
    by_cases hq : r.qd = d <;> by_cases hb : r.bd = d <;> simp [hq, hb] at hs e1 e2 ⊢ <;> omega
  · apply hi.pairEsc_of
    · intro a' q' d
      refine ⟨?_, ?_, ?_⟩ <;> (show s6.bal _ d = _; simp [b6, b5, b4, b3, b2, bm])
    · exact hords
  · intro a' q'
    show s6.bal .module (.pool a' q') = farmSum a' q' s6.farmers
    rw [hfarm, ← hi.farm a' q']
    have e4 : s4.bal .module (.pool a' q') = if a' = a ∧ q' = pl then s3.bal .module (.pool a pl) - pc else s3.bal .module (.pool a' q') := by
      rw [b4]; simp
    have e3 : ∀ d, s3.bal .module d = (s.mint a pl pc).bal .module d := by intro d; simp [b3, b2]
    have e6 : s6.bal .module (.pool a' q') = s4.bal .module (.pool a' q') := by simp [b6, b5]
    rw [e6, e4, e3, e3, bm, bm]
    by_cases hc : a' = a ∧ q' = pl
    · obtain ⟨rfl, rfl⟩ := hc; simp
    · have : ¬ (Denom.pool a' q' = Denom.pool a pl) := by intro hh; simp at hh; exact hc hh
      simp [hc, this]
  · show ∀ x ∈ s6.pools, _
    rw [hpools]
    show ∀ x ∈ modBy (isPool a pl) _ s.pools, _
    apply forall_modBy hi.zero
    intro x hx h0
    simp at h0
    omega
  · apply hi.qpos_of; exact hfarm
  · apply hi.ords_of; exact hords


theorem failWdr_inv {cfg : Cfg} {s s' : State} {r : WdrReq} (hi : Inv cfg s)
    (hr : findBy (isWdr r.app r.pool r.id) s.wdrs = some r) (hp : r.status = .pending)
    (h : failWdr s r = some s') : Inv cfg s' := by
  unfold failWdr at h
  split at h; · cases h
  rename_i s1 h1
  simp only [Option.some.injEq] at h
  subst h
  obtain ⟨le1, -, b1⟩ := State.send_some (by simp) h1
  have f1 := State.send_fields h1
  refine ⟨?_, ?_, ?_, ?_, ?_, ?_⟩
  · intro d
    show s1.bal .gEscrow d = depSum d s1.deps + wdrSum d (modBy _ _ s1.wdrs)
    rw [f1.2.2.1, f1.2.2.2.1]
    have hs := sumOver_modBy (wdrTerm d) (fun r => { r with status := .failed }) hr
    have hinv := hi.escrow d
    unfold wdrSum at hinv ⊢
    have hnew : wdrTerm d { r with status := .failed } = 0 := by simp [wdrTerm]
    have hold : wdrTerm d r = if Denom.pool r.app r.pool = d then r.pc else 0 := by simp [wdrTerm, hp]
    rw [hnew, hold] at hs
    have e1 : s1.bal .gEscrow d = if d = .pool r.app r.pool then s.bal .gEscrow (.pool r.app r.pool) - r.pc else s.bal .gEscrow d := by
      rw [b1]; simp
    rw [e1]
    by_cases hd : d = .pool r.app r.pool
    · subst hd; simp at hs ⊢; omega
    · have hd' : ¬ Denom.pool r.app r.pool = d := fun e => hd e.symm
      simp [hd, hd'] at hs ⊢; omega
  · apply hi.pairEsc_of
    · intro a q d
      refine ⟨?_, ?_, ?_⟩ <;> (show s1.bal _ d = _; simp [b1])
    · show s1.orders = _; exact f1.2.2.2.2.1
  · apply hi.farm_of
    · intro a q; show s1.bal .module _ = _; simp [b1]
    · show s1.farmers = _; exact f1.2.2.2.2.2.2.1
  · apply hi.zero_of; show s1.pools = _; exact f1.2.1
  · apply hi.qpos_of; show s1.farmers = _; exact f1.2.2.2.2.2.2.1
  · apply hi.ords_of; show s1.orders = _; exact f1.2.2.2.2.1

theorem execWithdraw_inv {cfg : Cfg} {s s' : State} {a pl i x y : Nat} (hi : Inv cfg s)
    (h : execWithdraw s a pl i x y = some s') : Inv cfg s' := by
  unfold execWithdraw at h
  split at h; · cases h
  rename_i r hr
  have hrk := isWdr_true (findBy_some_prop hr).1
  have hr' : findBy (isWdr r.app r.pool r.id) s.wdrs = some r := by rw [hrk.1, hrk.2.1, hrk.2.2]; exact hr
  split at h; · cases h; exact hi
  rename_i hpend
  have hpend' : r.status = .pending := by simpa using hpend
  split at h; · cases h
  rename_i q hq
  split at h; · exact failWdr_inv hi hr' hpend' h
  split at h; · cases h
  rename_i p hp
  split at h; · exact failWdr_inv (hi.disablePool a pl) hr' hpend' h
  split at h; · exact failWdr_inv hi hr' hpend' h
  split at h; · cases h
  rename_i s1 h1
  split at h; · cases h
  rename_i s2 h2
  split at h; · cases h
  rename_i s3 h3
  split at h; · cases h
  rename_i s4 h4
  simp only [Option.some.injEq] at h
  subst h
  obtain ⟨le1, -, b1⟩ := State.send_some (by simp) h1
  obtain ⟨-, -, b2⟩ := State.send_some (by simp) h2
  obtain ⟨-, -, b3⟩ := State.send_some (by simp) h3
  have f1 := State.send_fields h1
  have f2 := State.send_fields h2
  have f3 := State.send_fields h3
  -- the burn
  unfold State.burn at h4
  split at h4
  · rename_i hbal
    split at h4; · cases h4
    rename_i q3 hq3
    split at h4
    · rename_i hps
      simp only [Option.some.injEq] at h4
      have hpools3 : s3.pools = s.pools := by rw [f3.2.1, f2.2.1, f1.2.1]
      have hq3' : q3 = q := by
        have : s3.pool? a pl = s.pool? a pl := by simp [State.pool?, hpools3]
        rw [this, hq] at hq3; exact (Option.some.inj hq3).symm
      rw [hq3'] at hps hq3
      have hdeps : s3.deps = s.deps := by rw [f3.2.2.1, f2.2.2.1, f1.2.2.1]
      have hwdrs : s3.wdrs = s.wdrs := by rw [f3.2.2.2.1, f2.2.2.2.1, f1.2.2.2.1]
      have hords : s3.orders = s.orders := by rw [f3.2.2.2.2.1, f2.2.2.2.2.1, f1.2.2.2.2.1]
      have hfarm : s3.farmers = s.farmers := by rw [f3.2.2.2.2.2.2.1, f2.2.2.2.2.2.2.1, f1.2.2.2.2.2.2.1]
      -- balances of the final state = those of s4
      have b4 : ∀ z d, s4.bal z d = if z = .module ∧ d = .pool a pl then s3.bal .module (.pool a pl) - r.pc else s3.bal z d := by
        intro z d
        rw [← h4]
        simp only [State.bal, Bank.get_set, Prod.mk.injEq]
        by_cases hc : z = .module ∧ d = .pool a pl
        · obtain ⟨rfl, rfl⟩ := hc; simp
        · have : ¬ (Acct.module = z ∧ Denom.pool a pl = d) := fun hh => hc ⟨hh.1.symm, hh.2.symm⟩
          simp [hc, this]
      have f4 : s4.deps = s3.deps ∧ s4.wdrs = s3.wdrs ∧ s4.orders = s3.orders ∧ s4.farmers = s3.farmers ∧
          s4.pools = modBy (isPool a pl) (fun q => { q with ps := q.ps - r.pc }) s3.pools := by
        rw [← h4]; simp [State.modPool]
      generalize hs5 : (if r.pc = q.ps then s4.modPool a pl fun q => { q with disabled := true } else s4) = s5
      have hb5 : ∀ z d, s5.bal z d = s4.bal z d := by intro z d; rw [← hs5]; split <;> rfl
      have hd5 : s5.deps = s.deps := by rw [← hs5]; split <;> (show s4.deps = _; rw [f4.1, hdeps])
      have hw5 : s5.wdrs = s.wdrs := by rw [← hs5]; split <;> (show s4.wdrs = _; rw [f4.2.1, hwdrs])
      have ho5 : s5.orders = s.orders := by rw [← hs5]; split <;> (show s4.orders = _; rw [f4.2.2.1, hords])
      have hf5 : s5.farmers = s.farmers := by rw [← hs5]; split <;> (show s4.farmers = _; rw [f4.2.2.2.1, hfarm])
      have hp5 : s5.pools =
          modBy (isPool a pl) (fun z => if r.pc = q.ps then { z with ps := z.ps - r.pc, disabled := true } else { z with ps := z.ps - r.pc }) s.pools := by
        rw [← hs5]
        split
        · show modBy _ _ s4.pools = _
          rw [f4.2.2.2.2, hpools3, modBy_modBy _ (by intro z; simp [isPool])]
        · show s4.pools = _
          rw [f4.2.2.2.2, hpools3]
      refine ⟨?_, ?_, ?_, ?_, ?_, ?_⟩
      · intro d
        show s5.bal .gEscrow d = depSum d s5.deps + wdrSum d (modBy _ _ s5.wdrs)
        rw [hb5, hd5, hw5]
        have hs := sumOver_modBy (wdrTerm d) (fun r => { r with status := .succeeded, wx := x, wy := y }) hr
        have hinv := hi.escrow d
        unfold wdrSum at hinv ⊢
        have hnew : wdrTerm d { r with status := .succeeded, wx := x, wy := y } = 0 := by simp [wdrTerm]
        have hold : wdrTerm d r = if Denom.pool a pl = d then r.pc else 0 := by simp [wdrTerm, hpend', hrk.1, hrk.2.1]
        rw [hnew, hold] at hs
        have e : s4.bal .gEscrow d = if d = .pool a pl then s.bal .gEscrow (.pool a pl) - r.pc else s.bal .gEscrow d := by
          rw [b4]; simp [b3, b2, b1]
        rw [e]
        by_cases hd : d = .pool a pl
        · subst hd; simp at hs ⊢; omega
        · have hd' : ¬ Denom.pool a pl = d := fun e => hd e.symm
          simp [hd, hd'] at hs ⊢; omega
      · apply hi.pairEsc_of
        · intro a' q' d
          refine ⟨?_, ?_, ?_⟩ <;> (show s5.bal _ d = _; rw [hb5, b4]; simp [b3, b2, b1])
        · exact ho5
      · intro a' q'
        show s5.bal .module (.pool a' q') = farmSum a' q' s5.farmers
        rw [hb5, hf5, ← hi.farm a' q', b4]
        have e3 : ∀ d, s3.bal .module d = if d = .pool a pl then s.bal .module (.pool a pl) + r.pc else s.bal .module d := by
          intro d; simp [b3, b2, b1]
        rw [e3, e3]
        by_cases hc : a' = a ∧ q' = pl
        · obtain ⟨rfl, rfl⟩ := hc; simp
        · have : ¬ (Denom.pool a' q' = Denom.pool a pl) := by intro hh; simp at hh; exact hc hh
          simp [this]
      · show ∀ z ∈ s5.pools, _
        rw [hp5]
        apply forall_modBy hi.zero
        intro z hz h0
        have hzq : z = q := by
          have : s.pool? a pl = some z := hz
          rw [hq] at this; exact (Option.some.inj this).symm
        rw [hzq] at h0 ⊢
        by_cases hc : r.pc = q.ps
        · simp [hc]
        · simp [hc] at h0; omega
      · apply hi.qpos_of; exact hf5
      · apply hi.ords_of; exact ho5
    · cases h4
  · cases h4


/-! ### batch execution -/

/-- replacing an order by one with the same escrow claim keeps the invariant -/
theorem Inv.modO_same {cfg : Cfg} {s : State} (hi : Inv cfg s) (k : OKey) (g : Order → Order)
    (hg : ∀ x, s.order? k = some x → (∀ a p d, liveTerm cfg a p d (g x) = liveTerm cfg a p d x) ∧ OrderOk cfg (g x)) :
    Inv cfg (s.modO k g) := by
  refine ⟨hi.escrow, ?_, hi.farm, hi.zero, hi.qpos, ?_⟩
  · intro a p d
    show s.bal _ d + s.bal _ d = liveSum cfg a p d (modBy (isO k) g s.orders) + s.bal _ d
    cases hx : s.order? k with
    | none => rw [modBy_of_none hx]; exact hi.pairEsc a p d
    | some x =>
      have hs := sumOver_modBy (liveTerm cfg a p d) g hx
      rw [(hg x hx).1 a p d] at hs
      have := hi.pairEsc a p d
      unfold liveSum at this ⊢
      omega
  · show ∀ o ∈ modBy (isO k) g s.orders, _
    apply forall_modBy hi.ords
    intro x hx
    exact (hg x hx).2

theorem prePass_inv {cfg : Cfg} {s s' : State} {k : OKey} (hi : Inv cfg s) (h : prePass cfg s k = some s') : Inv cfg s' := by
  unfold prePass at h
  split at h; · cases h
  rename_i o ho
  split at h
  · rename_i hst
    cases h
    apply hi.modO_same
    intro x hx
    have hxo : x = o := by rw [ho] at hx; exact (Option.some.inj hx).symm
    subst hxo
    have hok := hi.ords x (order?_some ho).1
    refine ⟨fun a p d => ?_, ?_⟩
    · simp [liveTerm, hst, OStatus.live, feeRes]
    · refine ⟨by simpa [feeRes] using hok.1, hok.2.1, fun _ => ?_, fun hh => ?_⟩
      · exact hok.2.2.1 (by simp [hst, OStatus.live])
      · simp [OStatus.live] at hh
  · split at h
    · exact finishOrder_inv rfl hi h
    · cases h; exact hi
  · split at h
    · exact finishOrder_inv rfl hi h
    · cases h; exact hi
  · cases h; exact hi
  · cases h

theorem markDepleted_inv {cfg : Cfg} {s : State} (hi : Inv cfg s) (p : Pair) : Inv cfg (markDepleted s p) := by
  refine ⟨hi.escrow, hi.pairEsc, hi.farm, ?_, hi.qpos, hi.ords⟩
  intro q hq h0
  simp only [markDepleted, List.mem_map] at hq
  obtain ⟨x, hx, rfl⟩ := hq
  by_cases hc : (x.app == p.app && x.pair == p.id && !x.disabled && depleted s p x) = true
  · simp [hc]
  · simp only [hc] at h0 ⊢
    exact hi.zero x hx h0

theorem poolPayIn_inv {cfg : Cfg} {p : Pair} {s s' : State} {f : PoolFlow} (hi : Inv cfg s)
    (h : poolPayIn p s f = some s') : Inv cfg s' := by
  unfold poolPayIn at h
  simp only [] at h
  split at h; · cases h
  rename_i s1 h1
  cases h
  obtain ⟨le1, -, b1⟩ := State.send_some (by simp) h1
  have f1 := State.send_fields h1
  refine ⟨?_, ?_, ?_, ?_, ?_, ?_⟩
  · apply hi.escrow_of
    · intro d; show (s1.credit _ _ _).bal .gEscrow d = _; rw [State.bal_credit]; simp [b1]
    · exact f1.2.2.1
    · exact f1.2.2.2.1
  · intro a q d
    show (s1.credit _ _ _).bal (.pairEscrow a q) d + (s1.credit _ _ _).bal (.mOut a q) d =
      liveSum cfg a q d s1.orders + (s1.credit _ _ _).bal (.mIn a q) d
    rw [f1.2.2.2.2.1, State.bal_credit, State.bal_credit, State.bal_credit]
    have hinv := hi.pairEsc a q d
    have eO : s1.bal (.mOut a q) d = s.bal (.mOut a q) d := by simp [b1]
    have eI : ∀ a' q' d', s1.bal (.mIn a' q') d' = s.bal (.mIn a' q') d' := by intro a' q' d'; simp [b1]
    have eE : s1.bal (.pairEscrow a q) d =
        if (a = p.app ∧ q = p.id) ∧ d = sideIn p f.buy then s.bal (.pairEscrow p.app p.id) (sideIn p f.buy) + f.paid
        else s.bal (.pairEscrow a q) d := by rw [b1]; simp
    simp only [reduceCtorEq, false_and, if_false, eO, eI, eE, Acct.mIn.injEq]
    by_cases hc : (a = p.app ∧ q = p.id) ∧ d = sideIn p f.buy
    · obtain ⟨⟨rfl, rfl⟩, rfl⟩ := hc; simp; omega
    · have : ¬ ((p.app = a ∧ p.id = q) ∧ sideIn p f.buy = d) := fun hh => hc ⟨⟨hh.1.1.symm, hh.1.2.symm⟩, hh.2.symm⟩
      simp [hc, this]; omega
  · apply hi.farm_of
    · intro a q; show (s1.credit _ _ _).bal .module _ = _; rw [State.bal_credit]; simp [b1]
    · exact f1.2.2.2.2.2.2.1
  · apply hi.zero_of; exact f1.2.1
  · apply hi.qpos_of; exact f1.2.2.2.2.2.2.1
  · apply hi.ords_of; exact f1.2.2.2.2.1

/-- a send out of a pair escrow matched by a credit of the `mOut` ghost account -/
theorem payOut_inv {cfg : Cfg} {s s1 : State} {a0 p0 : Nat} {t : Acct} {d0 : Denom} {n : Nat} (hi : Inv cfg s)
    (ht : t ≠ .gEscrow ∧ t ≠ .module ∧ (∀ a p, t ≠ .pairEscrow a p) ∧ (∀ a p, t ≠ .mIn a p) ∧ (∀ a p, t ≠ .mOut a p))
    (h1 : s.send (.pairEscrow a0 p0) t d0 n = some s1) : Inv cfg (s1.credit (.mOut a0 p0) d0 n) := by
  obtain ⟨le1, -, b1⟩ := State.send_some (fun e => ht.2.2.1 a0 p0 e.symm) h1
  have f1 := State.send_fields h1
  obtain ⟨t1, t2, t3, t4, t5⟩ := ht
  refine ⟨?_, ?_, ?_, ?_, ?_, ?_⟩
  · apply hi.escrow_of
    · intro d; show (s1.credit _ _ _).bal .gEscrow d = _; rw [State.bal_credit]
      have : ¬ (Acct.gEscrow = t) := fun e => t1 e.symm
      simp [b1, this]
    · exact f1.2.2.1
    · exact f1.2.2.2.1
  · intro a q d
    show (s1.credit _ _ _).bal (.pairEscrow a q) d + (s1.credit _ _ _).bal (.mOut a q) d =
      liveSum cfg a q d s1.orders + (s1.credit _ _ _).bal (.mIn a q) d
    rw [f1.2.2.2.2.1, State.bal_credit, State.bal_credit, State.bal_credit]
    have hinv := hi.pairEsc a q d
    have n1 : ¬ (Acct.mOut a q = t) := fun e => t5 a q e.symm
    have n2 : ∀ a' q', ¬ (Acct.mIn a' q' = t) := fun a' q' e => t4 a' q' e.symm
    have n3 : ¬ (Acct.pairEscrow a q = t) := fun e => t3 a q e.symm
    have eO : ∀ a' q' d', s1.bal (.mOut a' q') d' = s.bal (.mOut a' q') d' := by
      intro a' q' d'; have : ¬ (Acct.mOut a' q' = t) := fun e => t5 a' q' e.symm
      simp [b1, this]
    have eI : s1.bal (.mIn a q) d = s.bal (.mIn a q) d := by simp [b1, n2]
    have eE : s1.bal (.pairEscrow a q) d =
        if (a = a0 ∧ q = p0) ∧ d = d0 then s.bal (.pairEscrow a0 p0) d0 - n else s.bal (.pairEscrow a q) d := by
      rw [b1]; simp [n3]
    simp only [reduceCtorEq, false_and, if_false, eO, eI, eE, Acct.mOut.injEq]
    by_cases hc : (a = a0 ∧ q = p0) ∧ d = d0
    · obtain ⟨⟨rfl, rfl⟩, rfl⟩ := hc; simp; omega
    · have : ¬ ((a0 = a ∧ p0 = q) ∧ d0 = d) := fun hh => hc ⟨⟨hh.1.1.symm, hh.1.2.symm⟩, hh.2.symm⟩
      simp [hc, this]; omega
  · apply hi.farm_of
    · intro a q; show (s1.credit _ _ _).bal .module _ = _; rw [State.bal_credit]
      have : ¬ (Acct.module = t) := fun e => t2 e.symm
      simp [b1, this]
    · exact f1.2.2.2.2.2.2.1
  · apply hi.zero_of; exact f1.2.1
  · apply hi.qpos_of; exact f1.2.2.2.2.2.2.1
  · apply hi.ords_of; exact f1.2.2.2.2.1

theorem poolPayOut_inv {cfg : Cfg} {p : Pair} {s s' : State} {f : PoolFlow} (hi : Inv cfg s)
    (h : poolPayOut p s f = some s') : Inv cfg s' := by
  unfold poolPayOut at h
  simp only [] at h
  split at h; · cases h
  rename_i s1 h1
  cases h
  exact payOut_inv hi (by simp) h1

theorem fillPayOut_inv {cfg : Cfg} {p : Pair} {s s' : State} {f : Fill} (hi : Inv cfg s)
    (h : fillPayOut p s f = some s') : Inv cfg s' := by
  unfold fillPayOut at h
  simp only [] at h
  split at h; · cases h
  split at h; · cases h
  rename_i s1 h1
  cases h
  exact payOut_inv hi (by simp) h1


theorem fillOrder_inv {cfg : Cfg} {p : Pair} {s s' : State} {f : Fill} (hi : Inv cfg s)
    (h : fillOrder cfg p s f = some s') : Inv cfg s' := by
  unfold fillOrder at h
  simp only [] at h
  split at h; · cases h
  rename_i o ho
  split at h; · cases h
  rename_i hg
  have hlive : o.status.live = true := by
    cases hl : o.status.live with
    | true => rfl
    | false => exact absurd (Or.inl (by simp [hl])) hg
  have hod : o.od = sideIn p f.buy := by
    by_cases hh : o.od = sideIn p f.buy
    · exact hh
    · exact absurd (Or.inr (Or.inl hh)) hg
  have hpaid : f.paid ≤ o.remaining := by
    by_cases hh : o.remaining < f.paid
    · exact absurd (Or.inr (Or.inr (Or.inl hh))) hg
    · omega
  obtain ⟨hmem, hoa, hop, -⟩ := order?_some ho
  simp only at hoa hop
  have hok := hi.ords o hmem
  have hmid : Inv cfg ((s.modO (p.app, p.id, f.id) fun o => { o with openAmt := o.openAmt - f.matched, remaining := o.remaining - f.paid, received := o.received + f.recv, status := .partially }).credit (.mIn p.app p.id) (sideIn p f.buy) f.paid) := by
    refine ⟨?_, ?_, ?_, hi.zero, hi.qpos, ?_⟩
    · intro d
      show (State.credit _ _ _ _).bal .gEscrow d = depSum d s.deps + wdrSum d s.wdrs
      rw [State.bal_credit]; simp
      exact hi.escrow d
    · intro a q d
      show (State.credit _ _ _ _).bal (.pairEscrow a q) d + (State.credit _ _ _ _).bal (.mOut a q) d =
        liveSum cfg a q d (modBy (isO (p.app, p.id, f.id)) _ s.orders) + (State.credit _ _ _ _).bal (.mIn a q) d
      rw [State.bal_credit, State.bal_credit, State.bal_credit]
      have hs := sumOver_modBy (liveTerm cfg a q d) (fun o => { o with openAmt := o.openAmt - f.matched, remaining := o.remaining - f.paid, received := o.received + f.recv, status := .partially }) ho
      have hinv := hi.pairEsc a q d
      unfold liveSum at hinv ⊢
      simp only [reduceCtorEq, false_and, if_false, Acct.mIn.injEq]
      show s.bal (.pairEscrow a q) d + s.bal (.mOut a q) d = _ + _
      by_cases hc : (p.app = a ∧ p.id = q) ∧ sideIn p f.buy = d
      · obtain ⟨⟨rfl, rfl⟩, rfl⟩ := hc
        have t1 : liveTerm cfg p.app p.id (sideIn p f.buy) o = o.remaining + feeRes (rateOf cfg o.app) o := by
          simp [liveTerm, hoa, hop, hod, hlive]
        have t2 : liveTerm cfg p.app p.id (sideIn p f.buy) { o with openAmt := o.openAmt - f.matched, remaining := o.remaining - f.paid, received := o.received + f.recv, status := .partially } = o.remaining - f.paid + feeRes (rateOf cfg o.app) o := by
          simp [liveTerm, hoa, hop, hod, OStatus.live, feeRes]
        rw [t1, t2] at hs
        simp
        show s.bal _ _ + s.bal _ _ = _ + (s.bal _ _ + _)
        omega
      · have t1 : liveTerm cfg a q d o = 0 := by
          simp only [liveTerm]; rw [if_neg]
          intro hh; apply hc; rw [← hoa, ← hop, ← hod]; exact ⟨⟨hh.1, hh.2.1⟩, hh.2.2.1⟩
        have t2 : liveTerm cfg a q d { o with openAmt := o.openAmt - f.matched, remaining := o.remaining - f.paid, received := o.received + f.recv, status := .partially } = 0 := by
          simp only [liveTerm]; rw [if_neg]
          intro hh; apply hc; rw [← hoa, ← hop, ← hod]; exact ⟨⟨hh.1, hh.2.1⟩, hh.2.2.1⟩
        rw [t1, t2] at hs
        simp [hc]
        show s.bal _ _ + s.bal _ _ = _ + s.bal _ _
        omega
    · intro a q
      show (State.credit _ _ _ _).bal .module _ = farmSum a q s.farmers
      rw [State.bal_credit]; simp
      exact hi.farm a q
    · show ∀ o' ∈ modBy (isO (p.app, p.id, f.id)) _ s.orders, OrderOk cfg o'
      apply forall_modBy hi.ords
      intro x hx
      have hxo : x = o := by
        have : s.order? (p.app, p.id, f.id) = some x := hx
        rw [ho] at this; exact (Option.some.inj this).symm
      subst hxo
      refine ⟨by simpa [feeRes] using hok.1, ?_, fun _ => hok.2.2.1 hlive, fun hh => ?_⟩
      · show x.remaining - f.paid ≤ x.offer
        have := hok.2.1; omega
      · simp [OStatus.live] at hh
  split at h
  · exact finishOrder_inv rfl hmid h
  · cases h; exact hmid

theorem applyMatch_inv {cfg : Cfg} {s s' : State} {p : Pair} {m : MatchIn} (hi : Inv cfg s)
    (h : applyMatch cfg s p m = some s') : Inv cfg s' := by
  unfold applyMatch at h
  split at h; · cases h
  rename_i s1 h1
  split at h; · cases h
  rename_i s2 h2
  split at h; · cases h
  rename_i s3 h3
  split at h; · cases h
  rename_i s4 h4
  split at h; · cases h
  rename_i s5 h5
  cases h
  have i1 := foldOpt_preserves (fun s x s' hp hs => poolPayIn_inv hp hs) _ _ _ hi h1
  have i2 := foldOpt_preserves (fun s x s' hp hs => fillOrder_inv hp hs) _ _ _ i1 h2
  have i3 := foldOpt_preserves (fun s x s' hp hs => fillPayOut_inv hp hs) _ _ _ i2 h3
  have i4 := foldOpt_preserves (fun s x s' hp hs => poolPayOut_inv hp hs) _ _ _ i3 h4
  exact payOut_inv i4 (by simp) h5

theorem execMatching_inv {cfg : Cfg} {ms : List MatchIn} {s s' : State} {pk : Nat × Nat} (hi : Inv cfg s)
    (h : execMatching cfg ms s pk = some s') : Inv cfg s' := by
  unfold execMatching at h
  split at h; · cases h
  rename_i p hp
  simp only [] at h
  split at h; · cases h
  rename_i s1 h1
  split at h; · cases h
  rename_i s3 h3
  cases h
  have i1 := foldOpt_preserves (fun s x s' hp hs => prePass_inv hp hs) _ _ _ hi h1
  exact (applyMatch_inv (markDepleted_inv i1 p) h3).modPair _ _ _

theorem sweep_inv {cfg : Cfg} {s s' : State} {k : OKey} (hi : Inv cfg s) (h : sweep cfg s k = some s') : Inv cfg s' := by
  unfold sweep at h
  split at h; · cases h
  split at h
  · exact finishOrder_inv rfl hi h
  · split at h
    · exact finishOrder_inv rfl hi h
    · cases h; exact hi

theorem qTotal_filter (P : Nat × Int → Bool) (l : List (Nat × Int)) :
    qTotal (l.filter P) + qTotal (l.filter fun q => !P q) = qTotal l := by
  induction l with
  | nil => rfl
  | cons x t ih =>
    by_cases hx : P x = true
    · simp [List.filter, hx, qTotal]; omega
    · have : P x = false := by simpa using hx
      simp [List.filter, this, qTotal]; omega

theorem processQueued_inv {cfg : Cfg} {s : State} (hi : Inv cfg s) (app : Nat) : Inv cfg (processQueued cfg s app) := by
  refine ⟨hi.escrow, hi.pairEsc, ?_, hi.zero, ?_, hi.ords⟩
  · intro a p
    show s.bal .module (.pool a p) = farmSum a p (s.farmers.map _)
    rw [hi.farm a p]
    unfold farmSum
    symm
    apply sumOver_map
    intro f _
    split
    · simp only [farmTerm, activate]
      have := qTotal_filter (fun q => decide (s.now < q.2 + cfg.queueDur)) f.queued
      by_cases hc : f.app = a ∧ f.pool = p <;> simp [hc] <;> omega
    · rfl
  · intro f hf q hq
    simp only [processQueued, List.mem_map] at hf
    obtain ⟨x, hx, rfl⟩ := hf
    split at hq
    · simp only [activate, List.mem_filter] at hq
      exact hi.qpos x hx q hq.1
    · exact hi.qpos x hx q hq

theorem endBlock_inv {cfg : Cfg} {s s' : State} {app : Nat} {ms : List MatchIn} {dins : List DepIn} {wins : List WdrIn}
    (hi : Inv cfg s) (h : endBlock cfg s app ms dins wins = some s') : Inv cfg s' := by
  unfold endBlock at h
  split at h; · cases h
  split at h; · cases h; exact hi
  simp only [] at h
  split at h; · cases h
  rename_i s1 h1
  split at h; · cases h
  rename_i s2 h2
  split at h; · cases h
  rename_i s3 h3
  split at h; · cases h
  rename_i s4 h4
  cases h
  have i1 := foldOpt_preserves (fun s x s' hp hs => execMatching_inv hp hs) _ _ _ hi h1
  have i2 := foldOpt_preserves (fun s x s' hp hs => sweep_inv hp hs) _ _ _ i1 h2
  have i3 := foldOpt_preserves (P := Inv cfg) (fun s x s' hp hs => by
    unfold execDepStep at hs; exact execDeposit_inv hp hs) _ _ _ i2 h3
  have i4 := foldOpt_preserves (P := Inv cfg) (fun s x s' hp hs => by
    unfold execWdrStep at hs; exact execWithdraw_inv hp hs) _ _ _ i3 h4
  exact processQueued_inv i4 app

theorem beginBlock_inv {cfg : Cfg} {s : State} (hi : Inv cfg s) (app : Nat) : Inv cfg (beginBlock s app) := by
  refine ⟨?_, ?_, hi.farm, hi.zero, hi.qpos, ?_⟩
  · intro d
    show s.bal .gEscrow d = depSum d (s.deps.filter _) + wdrSum d (s.wdrs.filter _)
    unfold depSum wdrSum
    rw [sumOver_filter, sumOver_filter]
    · exact hi.escrow d
    · intro x _ hx
      simp only [wdrTerm]
      rw [if_neg]
      intro hh
      simp [hh.1] at hx
      exact absurd hx.2 (by decide)
    · intro x _ hx
      simp only [depTerm]
      rw [if_neg]
      intro hh
      simp [hh] at hx
      exact absurd hx.2 (by decide)
  · intro a p d
    show s.bal _ d + s.bal _ d = liveSum cfg a p d (s.orders.filter _) + s.bal _ d
    unfold liveSum
    rw [sumOver_filter]
    · exact hi.pairEsc a p d
    · intro x _ hx
      simp only [liveTerm]
      rw [if_neg]
      intro hh
      simp [hh.2.2.2] at hx
  · intro o ho
    simp only [beginBlock, List.mem_filter] at ho
    exact hi.ords o ho.1


/-! ### pairs, pools, farming -/

/-- every app's `MinInitialPoolCoinSupply` is positive (`validateMinInitialPoolCoinSupply`) -/
def CfgOk (cfg : Cfg) : Prop := ∀ ac ∈ cfg.apps, 0 < ac.minInitSupply

theorem app?_mem {cfg : Cfg} {a : Nat} {ac : AppCfg} (h : cfg.app? a = some ac) : ac ∈ cfg.apps := by
  unfold Cfg.app? at h
  exact List.mem_of_find?_eq_some h

theorem createPair_inv {cfg : Cfg} {s s' : State} {app creator : Nat} {base quote : Denom} {ext : Bool} (hi : Inv cfg s)
    (h : createPair cfg s app creator base quote ext = some s') : Inv cfg s' := by
  unfold createPair at h
  split at h; · cases h
  split at h; · cases h
  split at h; · cases h
  split at h; · cases h
  split at h; · cases h
  rename_i s1 h1
  cases h
  obtain ⟨-, -, b1⟩ := State.send_some (by simp) h1
  have f1 := State.send_fields h1
  refine ⟨?_, ?_, ?_, ?_, ?_, ?_⟩
  · apply hi.escrow_of
    · intro d; show s1.bal .gEscrow d = _; simp [b1]
    · exact f1.2.2.1
    · exact f1.2.2.2.1
  · apply hi.pairEsc_of
    · intro a q d
      refine ⟨?_, ?_, ?_⟩ <;> (show s1.bal _ d = _; simp [b1])
    · exact f1.2.2.2.2.1
  · apply hi.farm_of
    · intro a q; show s1.bal .module _ = _; simp [b1]
    · exact f1.2.2.2.2.2.2.1
  · apply hi.zero_of; exact f1.2.1
  · apply hi.qpos_of; exact f1.2.2.2.2.2.2.1
  · apply hi.ords_of; exact f1.2.2.2.2.1

theorem createPool_inv {cfg : Cfg} (hc : CfgOk cfg) {s s' : State} {app creator pair : Nat} {ranged : Bool} {dx dy ammPs : Nat}
    {ext : Bool} (hi : Inv cfg s) (h : createPool cfg s app creator pair ranged dx dy ammPs ext = some s') : Inv cfg s' := by
  unfold createPool at h
  split at h; · cases h
  split at h; · cases h
  rename_i ac hac
  split at h; · cases h
  rename_i p hp
  split at h; · cases h
  simp only [] at h
  split at h; · cases h
  split at h; · cases h
  split at h; · cases h
  split at h; · cases h
  split at h; · cases h
  rename_i s1 h1
  split at h; · cases h
  rename_i s2 h2
  split at h; · cases h
  rename_i s3 h3
  obtain ⟨-, -, b1⟩ := State.send_some (by simp) h1
  obtain ⟨-, -, b2⟩ := State.send_some (by simp) h2
  obtain ⟨-, -, b3⟩ := State.send_some (by simp) h3
  obtain ⟨-, -, b4⟩ := State.send_some (by simp) h
  have f1 := State.send_fields h1
  have f2 := State.send_fields h2
  have f3 := State.send_fields h3
  have f4 := State.send_fields h
  have hpos := hc ac (app?_mem hac)
  generalize hid : (s.pools.filter (·.app == app)).length + 1 = id at *
  have b4' : ∀ z d, s'.bal z d = if z = .module ∧ d = .pool app id then s3.bal z d else
      if z = .user creator ∧ d = .pool app id then s3.bal z d + max ammPs ac.minInitSupply else s3.bal z d := by
    intro z d
    rw [b4]
    simp only [State.bal, Bank.get_add, Prod.mk.injEq]
    by_cases h1 : z = .module ∧ d = .pool app id
    · obtain ⟨rfl, rfl⟩ := h1; simp
    · by_cases h2 : z = .user creator ∧ d = .pool app id
      · obtain ⟨rfl, rfl⟩ := h2; simp
      · have : ¬ (Acct.module = z ∧ Denom.pool app id = d) := fun hh => h1 ⟨hh.1.symm, hh.2.symm⟩
        simp [h1, h2, this]
  refine ⟨?_, ?_, ?_, ?_, ?_, ?_⟩
  · apply hi.escrow_of
    · intro d; rw [b4']; simp [b3, b2, b1]
    · rw [f4.2.2.1]; show s3.deps = _; rw [f3.2.2.1, f2.2.2.1, f1.2.2.1]
    · rw [f4.2.2.2.1]; show s3.wdrs = _; rw [f3.2.2.2.1, f2.2.2.2.1, f1.2.2.2.1]
  · apply hi.pairEsc_of
    · intro a q d
      refine ⟨?_, ?_, ?_⟩ <;> (rw [b4']; simp [b3, b2, b1])
    · rw [f4.2.2.2.2.1]; show s3.orders = _; rw [f3.2.2.2.2.1, f2.2.2.2.2.1, f1.2.2.2.2.1]
  · apply hi.farm_of
    · intro a q; rw [b4']
      by_cases hk : (Acct.module = Acct.module ∧ Denom.pool a q = Denom.pool app id) <;> simp [hk, b3, b2, b1]
    · rw [f4.2.2.2.2.2.2.1]; show s3.farmers = _; rw [f3.2.2.2.2.2.2.1, f2.2.2.2.2.2.2.1, f1.2.2.2.2.2.2.1]
  · rw [f4.2.1]
    show ∀ q ∈ s3.pools ++ [_], _
    rw [f3.2.1, f2.2.1, f1.2.1]
    intro q hq h0
    rcases List.mem_append.mp hq with hq | hq
    · exact hi.zero q hq h0
    · simp only [List.mem_singleton] at hq
      subst hq
      simp only at h0
      have : ac.minInitSupply ≤ max ammPs ac.minInitSupply := Nat.le_max_right _ _
      omega
  · apply hi.qpos_of
    rw [f4.2.2.2.2.2.2.1]; show s3.farmers = _; rw [f3.2.2.2.2.2.2.1, f2.2.2.2.2.2.2.1, f1.2.2.2.2.2.2.1]
  · apply hi.ords_of
    rw [f4.2.2.2.2.1]; show s3.orders = _; rw [f3.2.2.2.2.1, f2.2.2.2.2.1, f1.2.2.2.2.1]

theorem qTotal_append (l m : List (Nat × Int)) : qTotal (l ++ m) = qTotal l + qTotal m := by
  induction l with
  | nil => simp [qTotal]
  | cons x t ih => simp [qTotal, ih]; omega

theorem isFarmer_true {a p u : Nat} {x : Farmer} (h : isFarmer a p u x = true) : x.app = a ∧ x.pool = p ∧ x.owner = u := by
  simpa [isFarmer, and_assoc] using h

theorem farm_inv {cfg : Cfg} {s s' : State} {app user pool amt : Nat} {ext : Bool} (hi : Inv cfg s)
    (h : farm cfg s app user pool amt ext = some s') : Inv cfg s' := by
  unfold farm at h
  split at h; · cases h
  rename_i hvb
  split at h; · cases h
  split at h; · cases h
  split at h; · cases h
  split at h; · cases h
  rename_i s1 h1
  obtain ⟨-, -, b1⟩ := State.send_some (by simp) h1
  have f1 := State.send_fields h1
  have hamt : 0 < amt := by omega
  have hbase : ∀ d, s1.bal .gEscrow d = s.bal .gEscrow d := by intro d; simp [b1]
  have hpe : ∀ a q d, s1.bal (.pairEscrow a q) d = s.bal (.pairEscrow a q) d ∧ s1.bal (.mOut a q) d = s.bal (.mOut a q) d ∧
      s1.bal (.mIn a q) d = s.bal (.mIn a q) d := by
    intro a q d; refine ⟨?_, ?_, ?_⟩ <;> simp [b1]
  have hmod : ∀ a q, s1.bal .module (.pool a q) = if a = app ∧ q = pool then s.bal .module (.pool app pool) + amt else s.bal .module (.pool a q) := by
    intro a q; rw [b1]; simp
  split at h
  · rename_i f0 hf0
    cases h
    rw [f1.2.2.2.2.2.2.1] at hf0
    obtain ⟨hfa, hfp, -⟩ := isFarmer_true (findBy_some_prop hf0).1
    refine ⟨hi.escrow_of hbase f1.2.2.1 f1.2.2.2.1, hi.pairEsc_of hpe f1.2.2.2.2.1, ?_, hi.zero_of f1.2.1, ?_, hi.ords_of f1.2.2.2.2.1⟩
    · intro a q
      show s1.bal .module (.pool a q) = farmSum a q (modBy _ _ s1.farmers)
      rw [f1.2.2.2.2.2.2.1, hmod]
      have hs := sumOver_modBy (farmTerm a q) (fun f => { f with queued := f.queued ++ [(amt, s.now)] }) hf0
      have hinv := hi.farm a q
      have hinv' := hi.farm app pool
      unfold farmSum at hinv hinv' ⊢
      simp only [farmTerm, qTotal_append, qTotal, Nat.add_zero, hfa, hfp] at hs
      by_cases hk : a = app ∧ q = pool
      · obtain ⟨rfl, rfl⟩ := hk; simp at hs ⊢; omega
      · have : ¬ (app = a ∧ pool = q) := fun hh => hk ⟨hh.1.symm, hh.2.symm⟩
        simp [hk, this] at hs ⊢; omega
    · show ∀ f ∈ modBy _ _ s1.farmers, _
      rw [f1.2.2.2.2.2.2.1]
      apply forall_modBy hi.qpos
      intro x hx q hq
      simp only [List.mem_append, List.mem_singleton] at hq
      rcases hq with hq | rfl
      · exact hi.qpos x (findBy_some_prop hx).2 q hq
      · exact hamt
  · cases h
    refine ⟨hi.escrow_of hbase f1.2.2.1 f1.2.2.2.1, hi.pairEsc_of hpe f1.2.2.2.2.1, ?_, hi.zero_of f1.2.1, ?_, hi.ords_of f1.2.2.2.2.1⟩
    · intro a q
      show s1.bal .module (.pool a q) = farmSum a q (s1.farmers ++ [_])
      rw [f1.2.2.2.2.2.2.1, hmod]
      unfold farmSum
      rw [sumOver_append]
      have hinv := hi.farm a q
      unfold farmSum at hinv
      simp only [sumOver, farmTerm, qTotal, Nat.add_zero]
      by_cases hk : a = app ∧ q = pool
      · obtain ⟨rfl, rfl⟩ := hk; simp; omega
      · have : ¬ (app = a ∧ pool = q) := fun hh => hk ⟨hh.1.symm, hh.2.symm⟩
        simp [hk, this]; omega
    · show ∀ f ∈ s1.farmers ++ [_], _
      rw [f1.2.2.2.2.2.2.1]
      intro f hf q hq
      rcases List.mem_append.mp hf with hf | hf
      · exact hi.qpos f hf q hq
      · simp only [List.mem_singleton] at hf
        subst hf
        simp only [List.mem_singleton] at hq
        subst hq; exact hamt

/-! the unfarm loop -/

theorem deduct_zero_of_left : ∀ (l : List (Nat × Int)) (r : Nat), 0 < (deduct l r).2 → ∀ q ∈ (deduct l r).1, q.1 = 0 := by
  intro l
  induction l with
  | nil => intro r _ q hq; simp [deduct] at hq
  | cons x t ih =>
    intro r hpos q hq
    simp only [deduct] at hpos hq
    by_cases h0 : (deduct t r).2 = 0
    · simp [h0] at hpos
    · by_cases h1 : (deduct t r).2 ≤ x.1
      · simp [h0, h1] at hpos
      · simp only [h0, h1, if_false] at hpos hq
        simp only [List.mem_cons] at hq
        rcases hq with rfl | hq
        · rfl
        · exact ih r (by omega) q hq

theorem deduct_total : ∀ (l : List (Nat × Int)) (r : Nat), qTotal (deduct l r).1 + r = qTotal l + (deduct l r).2 := by
  intro l
  induction l with
  | nil => intro r; simp [deduct, qTotal]
  | cons x t ih =>
    intro r
    have := ih r
    simp only [deduct]
    by_cases h0 : (deduct t r).2 = 0
    · simp [h0, qTotal] at this ⊢; omega
    · by_cases h1 : (deduct t r).2 ≤ x.1
      · simp [h0, h1, qTotal]; omega
      · simp [h0, h1, qTotal]; omega

theorem keepNonzero_zeros : ∀ (l : List (Nat × Int)), (∀ q ∈ l, q.1 = 0) → keepNonzero l = [] ∧ qTotal l = 0 := by
  intro l
  induction l with
  | nil => intro _; simp [keepNonzero, qTotal]
  | cons x t ih =>
    intro h
    have hx := h x (by simp)
    have := ih (fun q hq => h q (by simp [hq]))
    simp [keepNonzero, qTotal, hx, this]

theorem deduct_keep : ∀ (l : List (Nat × Int)) (r : Nat), (∀ q ∈ l, 0 < q.1) →
    qTotal (keepNonzero (deduct l r).1) = qTotal (deduct l r).1 ∧ ∀ q ∈ keepNonzero (deduct l r).1, 0 < q.1 := by
  intro l
  induction l with
  | nil => intro r _; simp [deduct, keepNonzero]
  | cons x t ih =>
    intro r hpos
    have hx := hpos x (by simp)
    have iht := ih r (fun q hq => hpos q (by simp [hq]))
    simp only [deduct]
    by_cases h0 : (deduct t r).2 = 0
    · have hx' : ¬ x.1 = 0 := by omega
      simp only [h0, if_true, keepNonzero, hx', if_false, qTotal, iht.1, true_and]
      intro q hq
      simp only [List.mem_cons] at hq
      rcases hq with rfl | hq
      · exact hx
      · exact iht.2 q hq
    · have hz := keepNonzero_zeros _ (deduct_zero_of_left t r (by omega))
      by_cases h1 : (deduct t r).2 ≤ x.1
      · simp only [h0, h1, if_true, if_false, keepNonzero]
        by_cases h2 : x.1 - (deduct t r).2 = 0
        · simp [h2, qTotal, hz.2]
        · simp only [h2, if_false, qTotal, hz.1, hz.2, true_and]
          intro q hq
          simp only [List.mem_cons, List.not_mem_nil, or_false] at hq
          subst hq; simp; omega
      · simp [h0, h1, keepNonzero, qTotal, hz.2]

theorem unfarm_inv {cfg : Cfg} {s s' : State} {app user pool amt : Nat} {ext : Bool} (hi : Inv cfg s)
    (h : unfarm cfg s app user pool amt ext = some s') : Inv cfg s' := by
  unfold unfarm at h
  split at h; · cases h
  split at h; · cases h
  split at h; · cases h
  split at h; · cases h
  split at h; · cases h
  rename_i f0 hf0
  split at h; · cases h
  rename_i htot
  simp only [] at h
  split at h; · cases h
  rename_i hact
  split at h; · cases h
  rename_i s1 h1
  cases h
  obtain ⟨-, -, b1⟩ := State.send_some (by simp) h1
  have f1 := State.send_fields h1
  obtain ⟨hfa, hfp, -⟩ := isFarmer_true (findBy_some_prop hf0).1
  have hfm := (findBy_some_prop hf0).2
  have hbase : ∀ d, s1.bal .gEscrow d = s.bal .gEscrow d := by intro d; simp [b1]
  have hpe : ∀ a q d, s1.bal (.pairEscrow a q) d = s.bal (.pairEscrow a q) d ∧ s1.bal (.mOut a q) d = s.bal (.mOut a q) d ∧
      s1.bal (.mIn a q) d = s.bal (.mIn a q) d := by
    intro a q d; refine ⟨?_, ?_, ?_⟩ <;> simp [b1]
  have hmod : ∀ a q, s1.bal .module (.pool a q) = if a = app ∧ q = pool then s.bal .module (.pool app pool) - amt else s.bal .module (.pool a q) := by
    intro a q; rw [b1]; simp
  have hdt := deduct_total f0.queued amt
  have hdk := deduct_keep f0.queued amt (hi.qpos f0 hfm)
  refine ⟨hi.escrow_of hbase f1.2.2.1 f1.2.2.2.1, hi.pairEsc_of hpe f1.2.2.2.2.1, ?_, hi.zero_of f1.2.1, ?_, hi.ords_of f1.2.2.2.2.1⟩
  · intro a q
    show s1.bal .module (.pool a q) = farmSum a q (modBy _ _ s1.farmers)
    rw [f1.2.2.2.2.2.2.1, hmod]
    have hs := sumOver_modBy (farmTerm a q)
      (fun f => { f with queued := keepNonzero (deduct f0.queued amt).1, active := f.active - (deduct f0.queued amt).2 }) hf0
    have hinv := hi.farm a q
    unfold farmSum at hinv ⊢
    simp only [farmTerm, hfa, hfp, hdk.1] at hs
    by_cases hk : a = app ∧ q = pool
    · obtain ⟨rfl, rfl⟩ := hk; simp at hs ⊢; omega
    · have : ¬ (app = a ∧ pool = q) := fun hh => hk ⟨hh.1.symm, hh.2.symm⟩
      simp [hk, this] at hs ⊢; omega
  · show ∀ f ∈ modBy _ _ s1.farmers, _
    rw [f1.2.2.2.2.2.2.1]
    apply forall_modBy hi.qpos
    intro x _ q hq
    exact hdk.2 q hq

theorem depositAndFarm_inv {cfg : Cfg} {s s' : State} {app user pool dx dy ax ay pc : Nat} {ext : Bool} (hi : Inv cfg s)
    (h : depositAndFarm cfg s app user pool dx dy ax ay pc ext = some s') : Inv cfg s' := by
  unfold depositAndFarm at h
  split at h; · cases h
  rename_i s1 id h1
  split at h; · cases h
  rename_i s2 h2
  split at h; · cases h
  split at h; · cases h
  exact farm_inv (execDeposit_inv (depositReq_inv hi h1) h2) h

theorem unfarmAndWithdraw_inv {cfg : Cfg} {s s' : State} {app user pool amt x y : Nat} {ext : Bool} (hi : Inv cfg s)
    (h : unfarmAndWithdraw cfg s app user pool amt x y ext = some s') : Inv cfg s' := by
  unfold unfarmAndWithdraw at h
  split at h; · cases h
  rename_i s1 h1
  split at h; · cases h
  rename_i s2 id h2
  exact execWithdraw_inv (withdrawReq_inv (unfarm_inv hi h1) h2) h

/-! ### every operation keeps the invariant -/

/-- the store migration 1 → 2 keeps the ledger invariant: it moves no coin and keeps every amount of every record; the only
field it rewrites that the invariant reads is the order type, and `limit` and `market` orders carry the same fee reserve -/
theorem migrate_inv {cfg : Cfg} {s s' : State} (hi : Inv cfg s) (h : migrate cfg s = some s') : Inv cfg s' := by
  unfold migrate at h
  split at h
  · rename_i hv
    cases h
    obtain ⟨hty, -, -⟩ := hv
    refine ⟨hi.escrow, ?_, hi.farm, ?_, hi.qpos, ?_⟩
    · intro a p d
      show s.bal (.pairEscrow a p) d + s.bal (.mOut a p) d = liveSum cfg a p d (s.orders.map _) + s.bal (.mIn a p) d
      unfold liveSum
      rw [sumOver_map]
      · exact hi.pairEsc a p d
      · intro o ho
        have := hty o ho
        split
        · simp [liveTerm, feeRes, this]
        · rfl
    · intro q hq
      obtain ⟨q0, hq0, rfl⟩ := List.mem_map.mp hq
      have := hi.zero q0 hq0
      split
      · exact this
      · exact this
    · intro o ho
      obtain ⟨o0, ho0, rfl⟩ := List.mem_map.mp ho
      have hok := hi.ords o0 ho0
      have hm := hty o0 ho0
      split
      · simpa [OrderOk, feeRes, fwdSpec, hm] using hok
      · exact hok
  · cases h

/-- a delivered limit / market order is `placeOrder` with the price and the validation result the model computes -/
theorem placeOrderMsg_core {cfg : Cfg} {s s' : State} {app user pair : Nat} {typ : OType} {buy : Bool} {od dd : Denom}
    {msgOffer msgPrice amount : Nat} {lifespan : Int}
    (h : placeOrderMsg cfg s app user pair typ buy od dd msgOffer msgPrice amount lifespan = some s') :
    ∃ price ext, placeOrder cfg s app user pair typ buy msgOffer msgPrice price amount lifespan ext = some s' := by
  unfold placeOrderMsg at h
  split at h; · cases h
  split at h; · cases h
  split at h; · cases h
  exact ⟨_, _, h⟩

/-- a delivered market-making order is `mmOrder` with the ticks the model computes -/
theorem mmOrderMsg_core {cfg : Cfg} {s s' : State} {app user pair : Nat} {maxSell minSell sellAmt maxBuy minBuy buyAmt : Nat}
    {lifespan : Int} (h : mmOrderMsg cfg s app user pair maxSell minSell sellAmt maxBuy minBuy buyAmt lifespan = some s') :
    ∃ buys sells, mmOrder cfg s app user pair buys sells lifespan true = some s' := by
  unfold mmOrderMsg at h
  split at h; · cases h
  split at h; · cases h
  split at h; · cases h
  split at h; · cases h
  split at h; · cases h
  split at h; · cases h
  split at h; · cases h
  simp only [] at h
  split at h; · cases h
  split at h; · cases h
  split at h; · cases h
  exact ⟨_, _, h⟩

theorem step_inv {cfg : Cfg} (hc : CfgOk cfg) {s s' : State} {op : Op} (hi : Inv cfg s) (h : step cfg s op = some s') :
    Inv cfg s' := by
  cases op with
  | block ht t => simp only [step, Option.some.injEq] at h; subst h; exact hi.with_block _ _
  | createPair a c b q e => exact createPair_inv hi h
  | createPool a c p r dx dy ps e => exact createPool_inv hc hi h
  | deposit a u p dx dy e =>
    simp only [step] at h
    cases hd : depositReq cfg s a u p dx dy e with
    | none => simp [hd] at h
    | some r => obtain ⟨s1, id⟩ := r; simp [hd] at h; subst h; exact depositReq_inv hi hd
  | withdraw a u p pc e =>
    simp only [step] at h
    cases hd : withdrawReq cfg s a u p pc e with
    | none => simp [hd] at h
    | some r => obtain ⟨s1, id⟩ := r; simp [hd] at h; subst h; exact withdrawReq_inv hi hd
  | order a u p t b od dd mo mp am l => obtain ⟨_, _, h⟩ := placeOrderMsg_core h; exact placeOrder_inv hi h
  | mmOrder a u p xs ns sa xb nb ba l => obtain ⟨_, _, h⟩ := mmOrderMsg_core h; exact mmOrder_inv hi h
  | cancel a u p i => exact cancelOrder_inv hi h
  | cancelAll a u ps => exact cancelAll_inv hi h
  | cancelMM a u p => exact cancelMM_inv hi h
  | farm a u p n e => exact farm_inv hi h
  | unfarm a u p n e => exact unfarm_inv hi h
  | depositAndFarm a u p dx dy ax ay pc e => exact depositAndFarm_inv hi h
  | unfarmAndWithdraw a u p n x y e => exact unfarmAndWithdraw_inv hi h
  | endBlock a ms ds ws => exact endBlock_inv hi h
  | beginBlock a => simp only [step, Option.some.injEq] at h; subst h; exact beginBlock_inv hi a
  | migrate => exact migrate_inv hi h

theorem stepT_inv {cfg : Cfg} (hc : CfgOk cfg) {s : State} (op : Op) (hi : Inv cfg s) : Inv cfg (stepT cfg s op) := by
  unfold stepT
  cases h : step cfg s op with
  | none => exact hi
  | some s' => exact step_inv hc hi h

theorem runT_inv {cfg : Cfg} (hc : CfgOk cfg) (ops : List Op) : ∀ s, Inv cfg s → Inv cfg (runT cfg s ops) := by
  induction ops with
  | nil => intro s hi; exact hi
  | cons op ops ih => intro s hi; exact ih _ (stepT_inv hc op hi)

theorem genesis_bal (funds : List (Nat × Nat × Nat)) (a : Acct) (d : Denom) (ha : ∀ n, a ≠ .user n) :
    (genesis funds).bal a d = 0 := by
  unfold genesis State.bal
  have : ∀ (b : Bank), b.get (a, d) = 0 → (funds.foldl (fun b f => b.add (.user f.1) (.coin f.2.1) f.2.2) b).get (a, d) = 0 := by
    induction funds with
    | nil => intro b hb; exact hb
    | cons f t ih =>
      intro b hb
      apply ih
      rw [Bank.get_add]
      have : ¬ ((Acct.user f.1, Denom.coin f.2.1) = (a, d)) := by
        intro e; exact ha f.1 (Prod.mk.inj e).1.symm
      simp [this, hb]
  exact this [] rfl

theorem genesis_inv (cfg : Cfg) (funds : List (Nat × Nat × Nat)) : Inv cfg (genesis funds) := by
  refine ⟨?_, ?_, ?_, ?_, ?_, ?_⟩
  · intro d; rw [genesis_bal _ _ _ (by simp)]; rfl
  · intro a p d
    rw [genesis_bal _ _ _ (by simp), genesis_bal _ _ _ (by simp), genesis_bal _ _ _ (by simp)]; rfl
  · intro a p; rw [genesis_bal _ _ _ (by simp)]; rfl
  · intro q hq; cases hq
  · intro f hf; cases hf
  · intro o ho; cases ho

end Comdex.LiqLedger
