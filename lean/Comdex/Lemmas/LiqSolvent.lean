import Comdex.Lemmas.LiqLedger
/-!
Ghost flow accounts of the liquidity ledger model: nothing but the application of match results touches them, and a
batch whose observed fills conserve coins (what the matching engine hands out ≤ what it took in, per side) keeps
`mOut ≤ mIn`.  Core Lean only.
-/
namespace Comdex.LiqLedger

/-- the two states agree on every ghost flow account -/
def GhostSame (s s' : State) : Prop :=
  ∀ a p d, s'.bal (.mIn a p) d = s.bal (.mIn a p) d ∧ s'.bal (.mOut a p) d = s.bal (.mOut a p) d

theorem GhostSame.refl (s : State) : GhostSame s s := fun _ _ _ => ⟨rfl, rfl⟩

theorem GhostSame.trans {s1 s2 s3 : State} (h1 : GhostSame s1 s2) (h2 : GhostSame s2 s3) : GhostSame s1 s3 :=
  fun a p d => ⟨(h2 a p d).1.trans (h1 a p d).1, (h2 a p d).2.trans (h1 a p d).2⟩

theorem GhostSame.of_bank {s s' : State} (h : s'.bank = s.bank) : GhostSame s s' := by
  intro a p d; simp [State.bal, h]

def NonGhost (x : Acct) : Prop := (∀ a p, x ≠ .mIn a p) ∧ (∀ a p, x ≠ .mOut a p)

theorem gs_send {s s' : State} {f t : Acct} {d : Denom} {n : Nat} (hf : NonGhost f) (ht : NonGhost t)
    (h : s.send f t d n = some s') : GhostSame s s' := by
  unfold State.send at h
  cases hb : s.bank.send f t d n with
  | none => simp [hb] at h
  | some b' =>
    simp [hb] at h
    subst h
    unfold Bank.send at hb
    split at hb
    · simp only [Option.some.injEq] at hb
      subst hb
      intro a p d'
      have n1 : ¬ ((f, d) = (Acct.mIn a p, d')) := fun e => hf.1 a p (Prod.mk.inj e).1
      have n2 : ¬ ((t, d) = (Acct.mIn a p, d')) := fun e => ht.1 a p (Prod.mk.inj e).1
      have n3 : ¬ ((f, d) = (Acct.mOut a p, d')) := fun e => hf.2 a p (Prod.mk.inj e).1
      have n4 : ¬ ((t, d) = (Acct.mOut a p, d')) := fun e => ht.2 a p (Prod.mk.inj e).1
      simp [State.bal, Bank.get_set, n1, n2, n3, n4]
    · cases hb

macro "ng" : tactic => `(tactic| (constructor <;> (intro _ _; simp)))

theorem gs_finishOrder {cfg : Cfg} {s s' : State} {k : OKey} {st : OStatus} (h : finishOrder cfg s k st = some s') :
    GhostSame s s' := by
  unfold finishOrder at h
  split at h; · cases h
  split at h; · cases h; exact GhostSame.refl _
  split at h; · cases h
  simp only [] at h
  split at h; · cases h
  rename_i s1 h1
  split at h; · cases h
  rename_i s2 h2
  cases h
  exact (gs_send (by ng) (by ng) h1).trans ((gs_send (by ng) (by ng) h2).trans (GhostSame.of_bank rfl))

theorem gs_fold {α : Type} {f : State → α → Option State} (hf : ∀ s x s', f s x = some s' → GhostSame s s') :
    ∀ (l : List α) (s s' : State), foldOpt f s l = some s' → GhostSame s s' := by
  intro l
  induction l with
  | nil => intro s s' h; simp [foldOpt] at h; subst h; exact GhostSame.refl _
  | cons x t ih =>
    intro s s' h
    simp only [foldOpt] at h
    cases hx : f s x with
    | none => simp [hx] at h
    | some s1 => simp [hx] at h; exact (hf s x s1 hx).trans (ih s1 s' h)

theorem gs_placeOrder {cfg : Cfg} {s s' : State} {app user pair : Nat} {typ : OType} {buy : Bool}
    {msgOffer msgPrice price amount : Nat} {lifespan : Int} {ext : Bool}
    (h : placeOrder cfg s app user pair typ buy msgOffer msgPrice price amount lifespan ext = some s') : GhostSame s s' := by
  unfold placeOrder at h
  split at h; · cases h
  split at h; · cases h
  split at h; · cases h
  split at h; · cases h
  split at h; · cases h
  simp only [] at h
  split at h; · cases h
  split at h; · cases h
  split at h; · cases h
  split at h; · cases h
  split at h; · cases h
  split at h; · cases h
  rename_i s1 h1
  cases h
  exact (gs_send (by ng) (by ng) h1).trans (GhostSame.of_bank rfl)

theorem gs_cancelOrder {cfg : Cfg} {s s' : State} {app user pair id : Nat} (h : cancelOrder cfg s app user pair id = some s') :
    GhostSame s s' := by
  unfold cancelOrder at h
  split at h; · cases h
  split at h; · cases h
  split at h; · cases h
  split at h; · cases h
  split at h; · cases h
  split at h; · cases h
  split at h; · cases h
  exact gs_finishOrder h

theorem gs_cancelAll {cfg : Cfg} {s s' : State} {app user : Nat} {pairs : List Nat} (h : cancelAll cfg s app user pairs = some s') :
    GhostSame s s' := by
  unfold cancelAll at h
  split at h; · cases h
  split at h; · cases h
  split at h; · cases h
  refine gs_fold (fun s x s' hs => ?_) _ _ _ h
  unfold cancelAllStep at hs
  split at hs
  · cases hs; exact GhostSame.refl _
  · split at hs
    · split at hs
      · cases hs; exact GhostSame.refl _
      · split at hs
        · exact gs_finishOrder hs
        · cases hs; exact GhostSame.refl _
    · cases hs; exact GhostSame.refl _

theorem gs_cancelMMCore {cfg : Cfg} {s s' : State} {app user : Nat} {p : Pair} {skip : Bool}
    (h : cancelMMCore cfg s app user p skip = some s') : GhostSame s s' := by
  unfold cancelMMCore at h
  split at h
  · split at h
    · cases h
    · rename_i s1 h1
      cases h
      refine (gs_fold (fun s x s' hs => ?_) _ _ _ h1).trans (GhostSame.of_bank rfl)
      unfold cancelMMStep at hs
      split at hs
      · cases hs; exact GhostSame.refl _
      · split at hs
        · cases hs
        · split at hs
          · exact gs_finishOrder hs
          · cases hs; exact GhostSame.refl _
  · split at h
    · cases h; exact GhostSame.refl _
    · cases h

theorem gs_cancelMM {cfg : Cfg} {s s' : State} {app user pair : Nat} (h : cancelMM cfg s app user pair = some s') :
    GhostSame s s' := by
  unfold cancelMM at h
  split at h; · cases h
  split at h; · cases h
  exact gs_cancelMMCore h

theorem gs_mmOrder {cfg : Cfg} {s s' : State} {app user pair : Nat} {buys sells : List Tick} {lifespan : Int} {ext : Bool}
    (h : mmOrder cfg s app user pair buys sells lifespan ext = some s') : GhostSame s s' := by
  unfold mmOrder at h
  split at h; · cases h
  split at h; · cases h
  split at h; · cases h
  split at h; · cases h
  simp only [] at h
  split at h; · cases h
  split at h; · cases h
  split at h; · cases h
  split at h; · cases h
  rename_i s1 hc1
  split at h; · cases h
  rename_i s2 h2
  split at h; · cases h
  rename_i s3 h3
  cases h
  exact (gs_cancelMMCore hc1).trans ((gs_send (by ng) (by ng) h2).trans ((gs_send (by ng) (by ng) h3).trans (GhostSame.of_bank rfl)))

theorem gs_createPair {cfg : Cfg} {s s' : State} {app creator : Nat} {base quote : Denom} {ext : Bool}
    (h : createPair cfg s app creator base quote ext = some s') : GhostSame s s' := by
  unfold createPair at h
  split at h; · cases h
  split at h; · cases h
  split at h; · cases h
  split at h; · cases h
  split at h; · cases h
  rename_i s1 h1
  cases h
  exact (gs_send (by ng) (by ng) h1).trans (GhostSame.of_bank rfl)

theorem gs_add_module (s : State) (d : Denom) (n : Nat) (s' : State) (h : s'.bank = s.bank.add .module d n) : GhostSame s s' := by
  intro a p d'
  simp [State.bal, h, Bank.get_add]

theorem gs_createPool {cfg : Cfg} {s s' : State} {app creator pair : Nat} {ranged : Bool} {dx dy ammPs : Nat} {ext : Bool}
    (h : createPool cfg s app creator pair ranged dx dy ammPs ext = some s') : GhostSame s s' := by
  unfold createPool at h
  split at h; · cases h
  split at h; · cases h
  split at h; · cases h
  split at h; · cases h
  simp only [] at h
  split at h; · cases h
  split at h; · cases h
  split at h; · cases h
  split at h; · cases h
  split at h; · cases h
  rename_i s1 h1
  split at h; · cases h
  rename_i s2 h2
  split at h; · cases h
  rename_i s3 h3
  exact (gs_send (by ng) (by ng) h1).trans ((gs_send (by ng) (by ng) h2).trans ((gs_send (by ng) (by ng) h3).trans
    ((gs_add_module s3 _ _ _ rfl).trans (gs_send (by ng) (by ng) h))))

theorem gs_depositReq {cfg : Cfg} {s s' : State} {app user pool dx dy : Nat} {ext : Bool} {id : Nat}
    (h : depositReq cfg s app user pool dx dy ext = some (s', id)) : GhostSame s s' := by
  unfold depositReq at h
  split at h; · cases h
  split at h; · cases h
  split at h; · cases h
  split at h; · cases h
  split at h; · cases h
  split at h; · cases h
  split at h; · cases h
  rename_i s1 h1
  split at h; · cases h
  rename_i s2 h2
  simp only [Option.some.injEq, Prod.mk.injEq] at h
  obtain ⟨h, -⟩ := h
  subst h
  exact (gs_send (by ng) (by ng) h1).trans ((gs_send (by ng) (by ng) h2).trans (GhostSame.of_bank rfl))

theorem gs_withdrawReq {cfg : Cfg} {s s' : State} {app user pool pc : Nat} {ext : Bool} {id : Nat}
    (h : withdrawReq cfg s app user pool pc ext = some (s', id)) : GhostSame s s' := by
  unfold withdrawReq at h
  split at h; · cases h
  split at h; · cases h
  split at h; · cases h
  split at h; · cases h
  split at h; · cases h
  split at h; · cases h
  rename_i s1 h1
  simp only [Option.some.injEq, Prod.mk.injEq] at h
  obtain ⟨h, -⟩ := h
  subst h
  exact (gs_send (by ng) (by ng) h1).trans (GhostSame.of_bank rfl)

theorem gs_failDep {s s' : State} {r : DepReq} (h : failDep s r = some s') : GhostSame s s' := by
  unfold failDep at h
  split at h; · cases h
  rename_i s1 h1
  split at h; · cases h
  rename_i s2 h2
  cases h
  exact (gs_send (by ng) (by ng) h1).trans ((gs_send (by ng) (by ng) h2).trans (GhostSame.of_bank rfl))

theorem gs_execDeposit {s s' : State} {a pl i ax ay pc : Nat} (h : execDeposit s a pl i ax ay pc = some s') : GhostSame s s' := by
  unfold execDeposit at h
  split at h; · cases h
  split at h; · cases h; exact GhostSame.refl _
  split at h; · cases h
  split at h; · exact gs_failDep h
  split at h; · cases h
  split at h; · exact GhostSame.trans (s2 := s.modPool a pl fun q => { q with disabled := true }) (GhostSame.of_bank rfl) (gs_failDep h)
  split at h; · exact gs_failDep h
  split at h; · cases h
  simp only [] at h
  split at h; · cases h
  rename_i s2 h2
  split at h; · cases h
  rename_i s3 h3
  split at h; · cases h
  rename_i s4 h4
  split at h; · cases h
  rename_i s5 h5
  split at h; · cases h
  rename_i s6 h6
  cases h
  exact (gs_add_module s _ _ (s.mint a pl pc) rfl).trans ((gs_send (by ng) (by ng) h2).trans ((gs_send (by ng) (by ng) h3).trans
    ((gs_send (by ng) (by ng) h4).trans ((gs_send (by ng) (by ng) h5).trans ((gs_send (by ng) (by ng) h6).trans (GhostSame.of_bank rfl))))))

theorem gs_failWdr {s s' : State} {r : WdrReq} (h : failWdr s r = some s') : GhostSame s s' := by
  unfold failWdr at h
  split at h; · cases h
  rename_i s1 h1
  cases h
  exact (gs_send (by ng) (by ng) h1).trans (GhostSame.of_bank rfl)

theorem gs_burn {s s' : State} {a p n : Nat} (h : s.burn a p n = some s') : GhostSame s s' := by
  unfold State.burn at h
  split at h
  · split at h; · cases h
    split at h
    · cases h
      intro a' p' d
      simp [State.bal, Bank.get_set]
    · cases h
  · cases h

theorem gs_execWithdraw {s s' : State} {a pl i x y : Nat} (h : execWithdraw s a pl i x y = some s') : GhostSame s s' := by
  unfold execWithdraw at h
  split at h; · cases h
  split at h; · cases h; exact GhostSame.refl _
  split at h; · cases h
  split at h; · exact gs_failWdr h
  split at h; · cases h
  split at h; · exact GhostSame.trans (s2 := s.modPool a pl fun q => { q with disabled := true }) (GhostSame.of_bank rfl) (gs_failWdr h)
  split at h; · exact gs_failWdr h
  split at h; · cases h
  rename_i s1 h1
  split at h; · cases h
  rename_i s2 h2
  split at h; · cases h
  rename_i s3 h3
  split at h; · cases h
  rename_i s4 h4
  cases h
  refine (gs_send (by ng) (by ng) h1).trans ((gs_send (by ng) (by ng) h2).trans ((gs_send (by ng) (by ng) h3).trans
    ((gs_burn h4).trans ?_)))
  apply GhostSame.of_bank
  show (if _ then _ else s4).bank = s4.bank
  split <;> rfl

theorem gs_farm {cfg : Cfg} {s s' : State} {app user pool amt : Nat} {ext : Bool} (h : farm cfg s app user pool amt ext = some s') :
    GhostSame s s' := by
  unfold farm at h
  split at h; · cases h
  split at h; · cases h
  split at h; · cases h
  split at h; · cases h
  split at h; · cases h
  rename_i s1 h1
  split at h <;> (cases h; exact (gs_send (by ng) (by ng) h1).trans (GhostSame.of_bank rfl))

theorem gs_unfarm {cfg : Cfg} {s s' : State} {app user pool amt : Nat} {ext : Bool} (h : unfarm cfg s app user pool amt ext = some s') :
    GhostSame s s' := by
  unfold unfarm at h
  split at h; · cases h
  split at h; · cases h
  split at h; · cases h
  split at h; · cases h
  split at h; · cases h
  split at h; · cases h
  simp only [] at h
  split at h; · cases h
  split at h; · cases h
  rename_i s1 h1
  cases h
  exact (gs_send (by ng) (by ng) h1).trans (GhostSame.of_bank rfl)

theorem gs_depositAndFarm {cfg : Cfg} {s s' : State} {app user pool dx dy ax ay pc : Nat} {ext : Bool}
    (h : depositAndFarm cfg s app user pool dx dy ax ay pc ext = some s') : GhostSame s s' := by
  unfold depositAndFarm at h
  split at h; · cases h
  rename_i s1 id h1
  split at h; · cases h
  rename_i s2 h2
  split at h; · cases h
  split at h; · cases h
  exact (gs_depositReq h1).trans ((gs_execDeposit h2).trans (gs_farm h))

theorem gs_unfarmAndWithdraw {cfg : Cfg} {s s' : State} {app user pool amt x y : Nat} {ext : Bool}
    (h : unfarmAndWithdraw cfg s app user pool amt x y ext = some s') : GhostSame s s' := by
  unfold unfarmAndWithdraw at h
  split at h; · cases h
  rename_i s1 h1
  split at h; · cases h
  rename_i s2 id h2
  exact (gs_unfarm h1).trans ((gs_withdrawReq h2).trans (gs_execWithdraw h))

theorem gs_migrate {cfg : Cfg} {s s' : State} (h : migrate cfg s = some s') : GhostSame s s' := by
  unfold migrate at h
  split at h
  · cases h; exact GhostSame.of_bank rfl
  · cases h

theorem gs_prePass {cfg : Cfg} {s s' : State} {k : OKey} (h : prePass cfg s k = some s') : GhostSame s s' := by
  unfold prePass at h
  split at h; · cases h
  split at h
  · cases h; exact GhostSame.of_bank rfl
  · split at h
    · exact gs_finishOrder h
    · cases h; exact GhostSame.refl _
  · split at h
    · exact gs_finishOrder h
    · cases h; exact GhostSame.refl _
  · cases h; exact GhostSame.refl _
  · cases h

theorem gs_sweep {cfg : Cfg} {s s' : State} {k : OKey} (h : sweep cfg s k = some s') : GhostSame s s' := by
  unfold sweep at h
  split at h; · cases h
  split at h
  · exact gs_finishOrder h
  · split at h
    · exact gs_finishOrder h
    · cases h; exact GhostSame.refl _


/-! ## Solvency of the matching flows -/

/-- matching has never handed out more than it took in, per pair and denom -/
def Solvent (s : State) : Prop := ∀ a p d, s.bal (.mOut a p) d ≤ s.bal (.mIn a p) d

theorem Solvent.of_gs {s s' : State} (hs : Solvent s) (h : GhostSame s s') : Solvent s' := by
  intro a p d; rw [(h a p d).1, (h a p d).2]; exact hs a p d

theorem sumOver_side {α : Type} (buyOf : α → Bool) (amt : α → Nat) (X Y d : Denom) (l : List α) :
    sumOver (fun x => if (if buyOf x then X else Y) = d then amt x else 0) l =
      (if X = d then sumOver (fun x => if buyOf x then amt x else 0) l else 0) +
      (if Y = d then sumOver (fun x => if buyOf x then 0 else amt x) l else 0) := by
  induction l with
  | nil => simp [sumOver]
  | cons x t ih =>
    simp only [sumOver, ih]
    cases hb : buyOf x <;> by_cases hX : X = d <;> by_cases hY : Y = d <;> simp [hX, hY] <;> omega

theorem fold_ghost {α : Type} {f : State → α → Option State} (cin cout : α → Nat → Nat → Denom → Nat)
    (hf : ∀ s x s', f s x = some s' → ∀ a q d,
      s'.bal (.mIn a q) d = s.bal (.mIn a q) d + cin x a q d ∧ s'.bal (.mOut a q) d = s.bal (.mOut a q) d + cout x a q d) :
    ∀ (l : List α) (s s' : State), foldOpt f s l = some s' → ∀ a q d,
      s'.bal (.mIn a q) d = s.bal (.mIn a q) d + sumOver (fun x => cin x a q d) l ∧
      s'.bal (.mOut a q) d = s.bal (.mOut a q) d + sumOver (fun x => cout x a q d) l := by
  intro l
  induction l with
  | nil => intro s s' h a q d; simp [foldOpt] at h; subst h; simp [sumOver]
  | cons x t ih =>
    intro s s' h a q d
    simp only [foldOpt] at h
    cases hx : f s x with
    | none => simp [hx] at h
    | some s1 =>
      simp [hx] at h
      have e1 := hf s x s1 hx a q d
      have e2 := ih s1 s' h a q d
      simp only [sumOver]
      omega

theorem ghost_credit_in (s : State) (a0 p0 : Nat) (d0 : Denom) (n : Nat) (a q : Nat) (d : Denom) :
    (s.credit (.mIn a0 p0) d0 n).bal (.mIn a q) d = s.bal (.mIn a q) d + (if (a0 = a ∧ p0 = q) ∧ d0 = d then n else 0) ∧
    (s.credit (.mIn a0 p0) d0 n).bal (.mOut a q) d = s.bal (.mOut a q) d := by
  rw [State.bal_credit, State.bal_credit]
  by_cases hc : (a0 = a ∧ p0 = q) ∧ d0 = d
  · obtain ⟨⟨rfl, rfl⟩, rfl⟩ := hc; simp
  · have : ¬ (Acct.mIn a0 p0 = Acct.mIn a q ∧ d0 = d) := by intro hh; simp at hh; exact hc hh
    simp [hc]

theorem ghost_credit_out (s : State) (a0 p0 : Nat) (d0 : Denom) (n : Nat) (a q : Nat) (d : Denom) :
    (s.credit (.mOut a0 p0) d0 n).bal (.mIn a q) d = s.bal (.mIn a q) d ∧
    (s.credit (.mOut a0 p0) d0 n).bal (.mOut a q) d = s.bal (.mOut a q) d + (if (a0 = a ∧ p0 = q) ∧ d0 = d then n else 0) := by
  rw [State.bal_credit, State.bal_credit]
  by_cases hc : (a0 = a ∧ p0 = q) ∧ d0 = d
  · obtain ⟨⟨rfl, rfl⟩, rfl⟩ := hc; simp
  · have : ¬ (Acct.mOut a0 p0 = Acct.mOut a q ∧ d0 = d) := by intro hh; simp at hh; exact hc hh
    simp [hc]

theorem ghost_poolPayIn {p : Pair} {s s' : State} {f : PoolFlow} (h : poolPayIn p s f = some s') (a q : Nat) (d : Denom) :
    s'.bal (.mIn a q) d = s.bal (.mIn a q) d + (if (p.app = a ∧ p.id = q) ∧ sideIn p f.buy = d then f.paid else 0) ∧
    s'.bal (.mOut a q) d = s.bal (.mOut a q) d + 0 := by
  unfold poolPayIn at h
  simp only [] at h
  split at h; · cases h
  rename_i s1 h1
  cases h
  have g := gs_send (by ng) (by ng) h1 a q d
  have c := ghost_credit_in s1 p.app p.id (sideIn p f.buy) f.paid a q d
  rw [c.1, c.2, g.1, g.2]; simp

theorem ghost_fillOrder {cfg : Cfg} {p : Pair} {s s' : State} {f : Fill} (h : fillOrder cfg p s f = some s') (a q : Nat) (d : Denom) :
    s'.bal (.mIn a q) d = s.bal (.mIn a q) d + (if (p.app = a ∧ p.id = q) ∧ sideIn p f.buy = d then f.paid else 0) ∧
    s'.bal (.mOut a q) d = s.bal (.mOut a q) d + 0 := by
  unfold fillOrder at h
  simp only [] at h
  split at h; · cases h
  split at h; · cases h
  have c := ghost_credit_in (s.modO (p.app, p.id, f.id) fun o => { o with openAmt := o.openAmt - f.matched, remaining := o.remaining - f.paid, received := o.received + f.recv, status := .partially })
    p.app p.id (sideIn p f.buy) f.paid a q d
  have e1 : ∀ x y, (s.modO (p.app, p.id, f.id) fun o => { o with openAmt := o.openAmt - f.matched, remaining := o.remaining - f.paid, received := o.received + f.recv, status := .partially }).bal x y = s.bal x y :=
    fun _ _ => rfl
  rw [e1, e1] at c
  split at h
  · have g := gs_finishOrder h a q d
    rw [g.1, g.2, c.1, c.2]; simp
  · cases h; rw [c.1, c.2]; simp

theorem ghost_fillPayOut {p : Pair} {s s' : State} {f : Fill} (h : fillPayOut p s f = some s') (a q : Nat) (d : Denom) :
    s'.bal (.mIn a q) d = s.bal (.mIn a q) d + 0 ∧
    s'.bal (.mOut a q) d = s.bal (.mOut a q) d + (if (p.app = a ∧ p.id = q) ∧ sideOut p f.buy = d then f.recv else 0) := by
  unfold fillPayOut at h
  simp only [] at h
  split at h; · cases h
  split at h; · cases h
  rename_i s1 h1
  cases h
  have g := gs_send (by ng) (by ng) h1 a q d
  have c := ghost_credit_out s1 p.app p.id (sideOut p f.buy) f.recv a q d
  rw [c.1, c.2, g.1, g.2]; simp

theorem ghost_poolPayOut {p : Pair} {s s' : State} {f : PoolFlow} (h : poolPayOut p s f = some s') (a q : Nat) (d : Denom) :
    s'.bal (.mIn a q) d = s.bal (.mIn a q) d + 0 ∧
    s'.bal (.mOut a q) d = s.bal (.mOut a q) d + (if (p.app = a ∧ p.id = q) ∧ sideOut p f.buy = d then f.recv else 0) := by
  unfold poolPayOut at h
  simp only [] at h
  split at h; · cases h
  rename_i s1 h1
  cases h
  have g := gs_send (by ng) (by ng) h1 a q d
  have c := ghost_credit_out s1 p.app p.id (sideOut p f.buy) f.recv a q d
  rw [c.1, c.2, g.1, g.2]; simp

theorem sumOver_const_if {α : Type} (c : Prop) [Decidable c] (F : α → Nat) (l : List α) :
    sumOver (fun x => if c then F x else 0) l = if c then sumOver F l else 0 := by
  by_cases h : c <;> simp [h]
  induction l with
  | nil => rfl
  | cons x t ih => simp [sumOver, ih]

theorem sumOver_zero {α : Type} (l : List α) : sumOver (fun _ : α => 0) l = 0 := by
  induction l with
  | nil => rfl
  | cons x t ih => simp [sumOver, ih]

/-- a conserving batch keeps `mOut ≤ mIn` -/
theorem applyMatch_solvent {cfg : Cfg} {s s' : State} {p : Pair} {m : MatchIn} (hm : MatchConserving m) (hs : Solvent s)
    (h : applyMatch cfg s p m = some s') : Solvent s' := by
  unfold applyMatch at h
  split at h; · cases h
  rename_i s1 h1
  split at h; · cases h
  rename_i s2 h2
  split at h; · cases h
  rename_i s3 h3
  split at h; · cases h
  rename_i s4 h4
  split at h; · cases h
  rename_i s5 h5
  cases h
  intro a q d
  have e1 := fold_ghost (fun (f : PoolFlow) a q d => if (p.app = a ∧ p.id = q) ∧ sideIn p f.buy = d then f.paid else 0) (fun _ _ _ _ => 0)
    (fun s x s' hh => ghost_poolPayIn hh) _ _ _ h1 a q d
  have e2 := fold_ghost (fun (f : Fill) a q d => if (p.app = a ∧ p.id = q) ∧ sideIn p f.buy = d then f.paid else 0) (fun _ _ _ _ => 0)
    (fun s x s' hh => ghost_fillOrder hh) _ _ _ h2 a q d
  have e3 := fold_ghost (fun _ _ _ _ => 0) (fun (f : Fill) a q d => if (p.app = a ∧ p.id = q) ∧ sideOut p f.buy = d then f.recv else 0)
    (fun s x s' hh => ghost_fillPayOut hh) _ _ _ h3 a q d
  have e4 := fold_ghost (fun _ _ _ _ => 0) (fun (f : PoolFlow) a q d => if (p.app = a ∧ p.id = q) ∧ sideOut p f.buy = d then f.recv else 0)
    (fun s x s' hh => ghost_poolPayOut hh) _ _ _ h4 a q d
  have g5 := gs_send (by ng) (by ng) h5 a q d
  have c5 := ghost_credit_out s5 p.app p.id p.quote m.dust a q d
  rw [c5.1, c5.2, g5.1, g5.2]
  simp only [sumOver_zero, Nat.add_zero] at e1 e2 e3 e4
  have hsol := hs a q d
  by_cases hk : p.app = a ∧ p.id = q
  · simp only [hk, true_and] at e1 e2 e3 e4 ⊢
    unfold sideIn at e1 e2
    unfold sideOut at e3 e4
    rw [sumOver_side] at e1 e2 e3 e4
    obtain ⟨hq, hb⟩ := hm
    unfold inQ outQ at hq
    unfold inB outB at hb
    by_cases hX : p.quote = d <;> by_cases hY : p.base = d <;> simp [hX, hY] at e1 e2 e3 e4 ⊢ <;> omega
  · have z : ∀ (α : Type) (F : α → Nat) (l : List α) (c : α → Prop) [∀ x, Decidable (c x)],
        sumOver (fun x => if (p.app = a ∧ p.id = q) ∧ c x then F x else 0) l = 0 := by
      intro α F l c _
      have : (fun x => if (p.app = a ∧ p.id = q) ∧ c x then F x else 0) = fun _ => 0 := by
        funext x; simp [hk]
      rw [this, sumOver_zero]
    rw [z] at e1 e2 e3 e4
    simp [hk]
    omega


theorem execMatching_solvent {cfg : Cfg} {ms : List MatchIn} (hm : ∀ m ∈ ms, MatchConserving m) {s s' : State} {pk : Nat × Nat}
    (hs : Solvent s) (h : execMatching cfg ms s pk = some s') : Solvent s' := by
  unfold execMatching at h
  split at h; · cases h
  rename_i p hp
  simp only [] at h
  split at h; · cases h
  rename_i s1 h1
  split at h; · cases h
  rename_i s3 h3
  cases h
  have g1 := gs_fold (fun s x s' hh => gs_prePass hh) _ _ _ h1
  have hs2 : Solvent (markDepleted s1 p) := (hs.of_gs g1).of_gs (GhostSame.of_bank rfl)
  have hmc : MatchConserving ((ms.find? (·.pair == p.id)).getD (emptyMatch p.id)) := by
    cases hf : ms.find? (·.pair == p.id) with
    | none => simp [emptyMatch, MatchConserving, inQ, inB, outQ, outB, sumOver]
    | some m => simp; exact hm m (List.mem_of_find?_eq_some hf)
  exact (applyMatch_solvent hmc hs2 h3).of_gs (GhostSame.of_bank rfl)

theorem solvent_fold {α : Type} {f : State → α → Option State} (hf : ∀ s x s', Solvent s → f s x = some s' → Solvent s') :
    ∀ (l : List α) (s s' : State), Solvent s → foldOpt f s l = some s' → Solvent s' :=
  foldOpt_preserves hf

theorem endBlock_solvent {cfg : Cfg} {s s' : State} {app : Nat} {ms : List MatchIn} {dins : List DepIn} {wins : List WdrIn}
    (hm : ∀ m ∈ ms, MatchConserving m) (hs : Solvent s) (h : endBlock cfg s app ms dins wins = some s') : Solvent s' := by
  unfold endBlock at h
  split at h; · cases h
  split at h; · cases h; exact hs
  simp only [] at h
  split at h; · cases h
  rename_i s1 h1
  split at h; · cases h
  rename_i s2 h2
  split at h; · cases h
  rename_i s3 h3
  split at h; · cases h
  rename_i s4 h4
  cases h
  have i1 := solvent_fold (fun s x s' hp hh => execMatching_solvent hm hp hh) _ _ _ hs h1
  have g2 := gs_fold (fun s x s' hh => gs_sweep hh) _ _ _ h2
  have g3 := gs_fold (f := execDepStep dins) (fun s x s' hh => by unfold execDepStep at hh; exact gs_execDeposit hh) _ _ _ h3
  have g4 := gs_fold (f := execWdrStep wins) (fun s x s' hh => by unfold execWdrStep at hh; exact gs_execWithdraw hh) _ _ _ h4
  exact (((i1.of_gs g2).of_gs g3).of_gs g4).of_gs (GhostSame.of_bank rfl)

theorem step_solvent {cfg : Cfg} {s s' : State} {op : Op} (hc : OpConserving op) (hs : Solvent s) (h : step cfg s op = some s') :
    Solvent s' := by
  cases op with
  | block ht t => simp only [step, Option.some.injEq] at h; subst h; exact hs.of_gs (GhostSame.of_bank rfl)
  | createPair a c b q e => exact hs.of_gs (gs_createPair h)
  | createPool a c p r dx dy ps e => exact hs.of_gs (gs_createPool h)
  | deposit a u p dx dy e =>
    simp only [step] at h
    cases hd : depositReq cfg s a u p dx dy e with
    | none => simp [hd] at h
    | some r => obtain ⟨s1, id⟩ := r; simp [hd] at h; subst h; exact hs.of_gs (gs_depositReq hd)
  | withdraw a u p pc e =>
    simp only [step] at h
    cases hd : withdrawReq cfg s a u p pc e with
    | none => simp [hd] at h
    | some r => obtain ⟨s1, id⟩ := r; simp [hd] at h; subst h; exact hs.of_gs (gs_withdrawReq hd)
  | order a u p t b od dd mo mp am l => obtain ⟨_, _, h⟩ := placeOrderMsg_core h; exact hs.of_gs (gs_placeOrder h)
  | mmOrder a u p xs ns sa xb nb ba l => obtain ⟨_, _, h⟩ := mmOrderMsg_core h; exact hs.of_gs (gs_mmOrder h)
  | cancel a u p i => exact hs.of_gs (gs_cancelOrder h)
  | cancelAll a u ps => exact hs.of_gs (gs_cancelAll h)
  | cancelMM a u p => exact hs.of_gs (gs_cancelMM h)
  | farm a u p n e => exact hs.of_gs (gs_farm h)
  | unfarm a u p n e => exact hs.of_gs (gs_unfarm h)
  | depositAndFarm a u p dx dy ax ay pc e => exact hs.of_gs (gs_depositAndFarm h)
  | unfarmAndWithdraw a u p n x y e => exact hs.of_gs (gs_unfarmAndWithdraw h)
  | endBlock a ms ds ws => exact endBlock_solvent hc hs h
  | beginBlock a => simp only [step, Option.some.injEq] at h; subst h; exact hs.of_gs (GhostSame.of_bank rfl)
  | migrate => exact hs.of_gs (gs_migrate h)

theorem stepT_solvent {cfg : Cfg} {s : State} {op : Op} (hc : OpConserving op) (hs : Solvent s) : Solvent (stepT cfg s op) := by
  unfold stepT
  cases h : step cfg s op with
  | none => exact hs
  | some s' => exact step_solvent hc hs h

theorem runT_solvent {cfg : Cfg} (ops : List Op) (hc : ∀ op ∈ ops, OpConserving op) : ∀ s, Solvent s → Solvent (runT cfg s ops) := by
  induction ops with
  | nil => intro s hs; exact hs
  | cons op ops ih =>
    intro s hs
    exact ih (fun o ho => hc o (by simp [ho])) _ (stepT_solvent (hc op (by simp)) hs)

theorem genesis_solvent (funds : List (Nat × Nat × Nat)) : Solvent (genesis funds) := by
  intro a p d
  rw [genesis_bal _ _ _ (by simp), genesis_bal _ _ _ (by simp)]
  exact Nat.le_refl _

/-- with solvent matching flows the pair escrow covers remaining offer + fee reserve of every live order -/
theorem escrow_ge_live {cfg : Cfg} {s : State} (hi : Inv cfg s) (hs : Solvent s) (a p : Nat) (d : Denom) :
    liveSum cfg a p d s.orders ≤ s.bal (.pairEscrow a p) d := by
  have := hi.pairEsc a p d
  have := hs a p d
  omega

theorem remSum_le_liveSum (cfg : Cfg) (a p : Nat) (d : Denom) (l : List Order) : remSum a p d l ≤ liveSum cfg a p d l := by
  unfold remSum liveSum
  induction l with
  | nil => simp [sumOver]
  | cons o t ih =>
    simp only [sumOver, remTerm, liveTerm]
    split <;> omega

end Comdex.LiqLedger
