import Comdex.Model.LendRates
import Mathlib.Tactic.Linarith
import Mathlib.Tactic.Ring
/-! Helper lemmas for C18 family (a): facts about the `Dec` roundings on non-negative arguments
(kept in this namespace so that they cannot clash with other properties' lemma files). -/
namespace Comdex.LendRates
open Comdex

abbrev crn := Dec.chopRoundNonneg

theorem P_pos : (0 : Int) < Dec.P := by decide
theorem P_val : Dec.P = 1000000000000000000 := rfl
theorem PP_eq : Dec.PP = Dec.P * Dec.P := rfl

/-- half-even chop: within half a unit -/
theorem crn_spec (x : Int) (hx : 0 ≤ x) :
    2 * (crn x * Dec.P) ≤ 2 * x + Dec.P ∧ 2 * x ≤ 2 * (crn x * Dec.P) + Dec.P := by
  unfold crn Dec.chopRoundNonneg
  simp only [Int.tdiv_eq_ediv_of_nonneg hx, Int.tmod_eq_emod_of_nonneg hx, Dec.P, Dec.half]
  split_ifs <;> omega

theorem crn_nonneg (x : Int) (hx : 0 ≤ x) : 0 ≤ crn x := by
  unfold crn Dec.chopRoundNonneg
  simp only [Int.tdiv_eq_ediv_of_nonneg hx, Int.tmod_eq_emod_of_nonneg hx, Dec.P, Dec.half]
  split_ifs <;> omega

theorem crn_mono (x y : Int) (hx : 0 ≤ x) (hxy : x ≤ y) : crn x ≤ crn y := by
  have hy : 0 ≤ y := le_trans hx hxy
  unfold crn Dec.chopRoundNonneg
  simp only [Int.tdiv_eq_ediv_of_nonneg hx, Int.tmod_eq_emod_of_nonneg hx,
    Int.tdiv_eq_ediv_of_nonneg hy, Int.tmod_eq_emod_of_nonneg hy, Dec.P, Dec.half]
  split_ifs <;> omega

theorem crn_mul_P (n : Int) (hn : 0 ≤ n) : crn (n * Dec.P) = n := by
  have h : 0 ≤ n * Dec.P := Int.mul_nonneg hn (le_of_lt P_pos)
  unfold crn Dec.chopRoundNonneg
  rw [Int.tdiv_eq_ediv_of_nonneg h, Int.tmod_eq_emod_of_nonneg h]
  simp only [Dec.P, Dec.half]
  split_ifs <;> omega

theorem chopRound_nonneg_eq (x : Int) (hx : 0 ≤ x) : Dec.chopRound x = crn x := by
  unfold Dec.chopRound; simp [not_lt.mpr hx]

/-! ### `Mul` -/
theorem mul_eq (a b : Int) (ha : 0 ≤ a) (hb : 0 ≤ b) : Dec.mul a b = crn (a * b) :=
  chopRound_nonneg_eq _ (Int.mul_nonneg ha hb)

theorem mul_nonneg' (a b : Int) (ha : 0 ≤ a) (hb : 0 ≤ b) : 0 ≤ Dec.mul a b := by
  rw [mul_eq a b ha hb]; exact crn_nonneg _ (Int.mul_nonneg ha hb)

theorem mul_mono_left (a a' b : Int) (ha : 0 ≤ a) (h : a ≤ a') (hb : 0 ≤ b) : Dec.mul a b ≤ Dec.mul a' b := by
  rw [mul_eq a b ha hb, mul_eq a' b (le_trans ha h) hb]
  exact crn_mono _ _ (Int.mul_nonneg ha hb) (Int.mul_le_mul_of_nonneg_right h hb)

theorem mul_mono_right (a b b' : Int) (ha : 0 ≤ a) (hb : 0 ≤ b) (h : b ≤ b') : Dec.mul a b ≤ Dec.mul a b' := by
  rw [mul_eq a b ha hb, mul_eq a b' ha (le_trans hb h)]
  exact crn_mono _ _ (Int.mul_nonneg ha hb) (Int.mul_le_mul_of_nonneg_left h ha)

theorem mul_one' (a : Int) (ha : 0 ≤ a) : Dec.mul a Dec.one = a := by
  rw [mul_eq a Dec.one ha (le_of_lt P_pos)]; exact crn_mul_P a ha

theorem one_mul' (a : Int) (ha : 0 ≤ a) : Dec.mul Dec.one a = a := by
  rw [mul_eq Dec.one a (le_of_lt P_pos) ha, show Dec.one * a = a * Dec.P from by unfold Dec.one; ring]
  exact crn_mul_P a ha

theorem mul_zero' (a : Int) (ha : 0 ≤ a) : Dec.mul a 0 = 0 := by
  rw [mul_eq a 0 ha (le_refl _)]; simpa using crn_mul_P 0 (le_refl _)

theorem zero_mul' (a : Int) (ha : 0 ≤ a) : Dec.mul 0 a = 0 := by
  rw [mul_eq 0 a (le_refl _) ha]; simpa using crn_mul_P 0 (le_refl _)

/-- multiplying an integer-valued `Dec` is exact -/
theorem mul_ofInt (n d : Int) (hn : 0 ≤ n) (hd : 0 ≤ d) : Dec.mul (Dec.ofInt n) d = n * d := by
  have h0 : 0 ≤ Dec.ofInt n := Int.mul_nonneg hn (le_of_lt P_pos)
  rw [mul_eq _ d h0 hd, show Dec.ofInt n * d = (n * d) * Dec.P from by unfold Dec.ofInt; ring]
  exact crn_mul_P _ (Int.mul_nonneg hn hd)

/-! ### `Quo` -/
theorem quo_eq (a b : Int) (ha : 0 ≤ a) (hb : 0 < b) : Dec.quo a b = crn (a * Dec.PP / b) := by
  have h1 : 0 ≤ a * Dec.PP := Int.mul_nonneg ha (by decide)
  unfold Dec.quo
  rw [Int.tdiv_eq_ediv_of_nonneg h1]
  exact chopRound_nonneg_eq _ (Int.ediv_nonneg h1 (le_of_lt hb))

theorem quo_nonneg' (a b : Int) (ha : 0 ≤ a) (hb : 0 < b) : 0 ≤ Dec.quo a b := by
  rw [quo_eq a b ha hb]
  exact crn_nonneg _ (Int.ediv_nonneg (Int.mul_nonneg ha (by decide)) (le_of_lt hb))

theorem quo_mono_left (a a' b : Int) (ha : 0 ≤ a) (h : a ≤ a') (hb : 0 < b) : Dec.quo a b ≤ Dec.quo a' b := by
  rw [quo_eq a b ha hb, quo_eq a' b (le_trans ha h) hb]
  apply crn_mono
  · exact Int.ediv_nonneg (Int.mul_nonneg ha (by decide)) (le_of_lt hb)
  · exact Int.ediv_le_ediv hb (Int.mul_le_mul_of_nonneg_right h (by decide))

theorem quo_self' (b : Int) (hb : 0 < b) : Dec.quo b b = Dec.one := by
  rw [quo_eq b b (le_of_lt hb) hb, Int.mul_ediv_cancel_left _ (ne_of_gt hb), PP_eq]
  exact crn_mul_P _ (le_of_lt P_pos)

theorem quo_zero' (b : Int) (hb : 0 < b) : Dec.quo 0 b = 0 := by
  rw [quo_eq 0 b (le_refl _) hb]; simpa using crn_mul_P 0 (le_refl _)

theorem quo_le_one (a b : Int) (ha : 0 ≤ a) (h : a ≤ b) (hb : 0 < b) : Dec.quo a b ≤ Dec.one := by
  rw [← quo_self' b hb]; exact quo_mono_left a b b ha h hb

theorem one_le_quo (a b : Int) (hb : 0 < b) (h : b ≤ a) : Dec.one ≤ Dec.quo a b := by
  rw [← quo_self' b hb]; exact quo_mono_left b a b (le_of_lt hb) h hb

/-! ### elapsed years -/
theorem years_eq (s : Int) (hs : 0 ≤ s) : yearsDec s = s * Dec.P / 31557600 := by
  unfold yearsDec Dec.quoInt Dec.ofInt secondsPerYear
  exact Int.tdiv_eq_ediv_of_nonneg (Int.mul_nonneg hs (le_of_lt P_pos))

theorem years_nonneg (s : Int) (hs : 0 ≤ s) : 0 ≤ yearsDec s := by
  rw [years_eq s hs]
  exact (by omega : (0 : Int) ≤ s * 1000000000000000000 / 31557600)

theorem years_zero : yearsDec 0 = 0 := by decide

theorem years_mono (s t : Int) (hs : 0 ≤ s) (h : s ≤ t) : yearsDec s ≤ yearsDec t := by
  rw [years_eq s hs, years_eq t (le_trans hs h)]
  exact (by omega : (s * 1000000000000000000 / 31557600 : Int) ≤ t * 1000000000000000000 / 31557600)

theorem years_superadd (s t : Int) (hs : 0 ≤ s) (ht : 0 ≤ t) :
    yearsDec s + yearsDec t ≤ yearsDec (s + t) ∧ yearsDec (s + t) ≤ yearsDec s + yearsDec t + 1 := by
  rw [years_eq s hs, years_eq t ht, years_eq (s + t) (by omega)]
  exact (by omega : (s * 1000000000000000000 / 31557600 + t * 1000000000000000000 / 31557600 : Int)
      ≤ (s + t) * 1000000000000000000 / 31557600 ∧
    ((s + t) * 1000000000000000000 / 31557600 : Int) ≤
      s * 1000000000000000000 / 31557600 + t * 1000000000000000000 / 31557600 + 1)

/-! ### quantitative bounds -/
theorem mul_bounds (a b : Int) (ha : 0 ≤ a) (hb : 0 ≤ b) :
    2 * (Dec.mul a b * Dec.P) ≤ 2 * (a * b) + Dec.P ∧ 2 * (a * b) ≤ 2 * (Dec.mul a b * Dec.P) + Dec.P := by
  rw [mul_eq a b ha hb]; exact crn_spec _ (Int.mul_nonneg ha hb)

/-- `q = Quo a b` is within (1/2 + 10^-18) ulp of `a/b` -/
theorem quo_bounds (a b : Int) (ha : 0 ≤ a) (hb : 0 < b) :
    (2 * (Dec.quo a b * Dec.P) - Dec.P) * b ≤ 2 * (a * Dec.PP) ∧
    2 * (a * Dec.PP) < (2 * (Dec.quo a b * Dec.P) + Dec.P + 2) * b := by
  rw [quo_eq a b ha hb]
  have h1 : 0 ≤ a * Dec.PP := Int.mul_nonneg ha (by decide)
  have ht : 0 ≤ a * Dec.PP / b := Int.ediv_nonneg h1 (le_of_lt hb)
  obtain ⟨c1, c2⟩ := crn_spec _ ht
  have d1 : a * Dec.PP / b * b ≤ a * Dec.PP := Int.ediv_mul_le _ (ne_of_gt hb)
  have d2 : a * Dec.PP < (a * Dec.PP / b + 1) * b := Int.lt_ediv_add_one_mul_self _ hb
  generalize a * Dec.PP / b = t at *
  generalize crn t = q at *
  constructor
  · have : (2 * (q * Dec.P) - Dec.P) * b ≤ 2 * t * b :=
      Int.mul_le_mul_of_nonneg_right (by linarith) (le_of_lt hb)
    linarith
  · have : (2 * t) * b ≤ (2 * (q * Dec.P) + Dec.P) * b :=
      Int.mul_le_mul_of_nonneg_right (by linarith) (le_of_lt hb)
    linarith

/-! ### the kinked rate function -/
/-- value of `kinked` when neither division panics -/
def kinkedVal (base s1 s2 uOpt u : Dec) : Dec :=
  if u < uOpt then belowKink base s1 uOpt u else aboveKink base s1 s2 uOpt u

theorem kinked_eq_some (base s1 s2 uOpt u : Dec) (h0 : 0 < uOpt) (h1 : uOpt < Dec.one) :
    kinked base s1 s2 uOpt u = some (kinkedVal base s1 s2 uOpt u) := by
  have e1 : ¬ uOpt = 0 := ne_of_gt h0
  have e2 : ¬ Dec.one - uOpt = 0 := by
    intro h; have : Dec.one = uOpt := by linarith
    exact absurd this (ne_of_gt h1)
  unfold kinked kinkedVal
  split
  · simp
  · simp

theorem below_le (base s1 uOpt u : Dec) (hs1 : 0 ≤ s1) (hu : 0 ≤ u) (hlt : u < uOpt) :
    belowKink base s1 uOpt u ≤ base + s1 := by
  unfold belowKink
  have hq : Dec.quo u uOpt ≤ Dec.one := quo_le_one u uOpt hu (le_of_lt hlt) (lt_of_le_of_lt hu hlt)
  have hq0 : 0 ≤ Dec.quo u uOpt := quo_nonneg' u uOpt hu (lt_of_le_of_lt hu hlt)
  have := mul_mono_left _ _ s1 hq0 hq hs1
  rw [one_mul' s1 hs1] at this
  linarith

theorem above_ge (base s1 s2 uOpt u : Dec) (hs2 : 0 ≤ s2) (h1 : uOpt < Dec.one) (hge : uOpt ≤ u) :
    base + s1 ≤ aboveKink base s1 s2 uOpt u := by
  unfold aboveKink
  have hq0 : 0 ≤ Dec.quo (u - uOpt) (Dec.one - uOpt) := quo_nonneg' _ _ (by linarith) (by linarith)
  have := mul_nonneg' _ s2 hq0 hs2
  linarith

theorem kinkedVal_mono (base s1 s2 uOpt u1 u2 : Dec) (h0 : 0 < uOpt) (h1 : uOpt < Dec.one)
    (hs1 : 0 ≤ s1) (hs2 : 0 ≤ s2) (hu1 : 0 ≤ u1) (h12 : u1 ≤ u2) :
    kinkedVal base s1 s2 uOpt u1 ≤ kinkedVal base s1 s2 uOpt u2 := by
  unfold kinkedVal
  by_cases c1 : u1 < uOpt <;> by_cases c2 : u2 < uOpt
  · simp only [c1, c2, if_true]
    unfold belowKink
    have hq := quo_mono_left u1 u2 uOpt hu1 h12 h0
    have := mul_mono_left _ _ s1 (quo_nonneg' u1 uOpt hu1 h0) hq hs1
    linarith
  · simp only [c1, c2, if_true, if_false]
    exact le_trans (below_le base s1 uOpt u1 hs1 hu1 c1) (above_ge base s1 s2 uOpt u2 hs2 h1 (not_lt.mp c2))
  · exfalso; exact c1 (lt_of_le_of_lt h12 c2)
  · simp only [c1, c2, if_false]
    unfold aboveKink
    have hd : 0 < Dec.one - uOpt := by linarith
    have ha : 0 ≤ u1 - uOpt := by linarith [not_lt.mp c1]
    have hq := quo_mono_left (u1 - uOpt) (u2 - uOpt) (Dec.one - uOpt) ha (by linarith) hd
    have := mul_mono_left _ _ s2 (quo_nonneg' _ _ ha hd) hq hs2
    linarith

theorem kinkedVal_zero (base s1 s2 uOpt : Dec) (h0 : 0 < uOpt) (hs1 : 0 ≤ s1) :
    kinkedVal base s1 s2 uOpt 0 = base := by
  unfold kinkedVal belowKink
  simp only [h0, if_true, quo_zero' uOpt h0, zero_mul' s1 hs1]
  exact Int.add_zero base

theorem kinkedVal_at_kink (base s1 s2 uOpt : Dec) (h1 : uOpt < Dec.one) (hs2 : 0 ≤ s2) :
    kinkedVal base s1 s2 uOpt uOpt = base + s1 := by
  have hd : 0 < Dec.one - uOpt := by linarith
  unfold kinkedVal aboveKink
  simp only [lt_irrefl, if_false, sub_self, quo_zero' _ hd, zero_mul' s2 hs2]
  exact Int.add_zero _

/-- the below-kink formula, evaluated AT the kink, gives the same value as the above-kink formula there -/
theorem below_at_kink (base s1 uOpt : Dec) (h0 : 0 < uOpt) (hs1 : 0 ≤ s1) :
    belowKink base s1 uOpt uOpt = base + s1 := by
  unfold belowKink
  rw [quo_self' uOpt h0, one_mul' s1 hs1]

/-- left-continuity at the kink with an explicit bound: the rate at the kink exceeds the rate at `u < uOpt`
by at most `slope1·(uOpt−u)/uOpt` plus `slope1` ulps plus one ulp. -/
theorem kink_gap (base s1 s2 uOpt u : Dec) (h0 : 0 < uOpt) (h1 : uOpt < Dec.one)
    (hs1 : 0 ≤ s1) (hs2 : 0 ≤ s2) (hu : 0 ≤ u) (hlt : u < uOpt) :
    0 ≤ kinkedVal base s1 s2 uOpt uOpt - kinkedVal base s1 s2 uOpt u ∧
    (kinkedVal base s1 s2 uOpt uOpt - kinkedVal base s1 s2 uOpt u - 1) * uOpt * Dec.P
      ≤ s1 * (uOpt - u) * Dec.P + s1 * uOpt := by
  rw [kinkedVal_at_kink base s1 s2 uOpt h1 hs2]
  have hb := below_le base s1 uOpt u hs1 hu hlt
  unfold kinkedVal
  simp only [hlt, if_true]
  refine ⟨by linarith, ?_⟩
  unfold belowKink at hb ⊢
  have hq0 : 0 ≤ Dec.quo u uOpt := quo_nonneg' u uOpt hu h0
  obtain ⟨_, m2⟩ := mul_bounds (Dec.quo u uOpt) s1 hq0 hs1
  obtain ⟨_, q2⟩ := quo_bounds u uOpt hu h0
  generalize Dec.mul (Dec.quo u uOpt) s1 = m at *
  generalize Dec.quo u uOpt = q at *
  -- q2 : 2·u·PP < (2qP + P + 2)·uOpt ;  m2 : 2·q·s1 ≤ 2mP + P
  have e1 : 2 * (u * Dec.PP) * s1 ≤ (2 * (q * Dec.P) + Dec.P + 2) * uOpt * s1 :=
    Int.mul_le_mul_of_nonneg_right (le_of_lt q2) hs1
  have e2 : 2 * (q * s1) * (Dec.P * uOpt) ≤ (2 * (m * Dec.P) + Dec.P) * (Dec.P * uOpt) :=
    Int.mul_le_mul_of_nonneg_right m2 (Int.mul_nonneg (le_of_lt P_pos) (le_of_lt h0))
  have e3 : 0 ≤ uOpt * s1 := Int.mul_nonneg (le_of_lt h0) hs1
  have key : 2 * Dec.P * ((base + s1 - (base + m) - 1) * uOpt * Dec.P)
      ≤ 2 * Dec.P * (s1 * (uOpt - u) * Dec.P + s1 * uOpt) := by
    simp only [PP_eq, P_val] at *
    nlinarith [e1, e2, e3, Int.mul_nonneg (le_of_lt h0) (le_of_lt P_pos)]
  exact le_of_mul_le_mul_left key (by decide)

/-! ### integrality steps (stated over `Int` so that `omega` sees plain integers) -/
theorem int_aux1 (x y : Int) (h : 2 * (x * Dec.P) ≤ 2 * (y * Dec.P) + 3 * Dec.P) : x ≤ y + 1 := by
  simp only [P_val] at h; omega
theorem int_aux2 (x y : Int) (h : 2 * (x * Dec.P) - Dec.P < 2 * (y * Dec.P) + Dec.P + 2) : x - 1 ≤ y := by
  simp only [P_val] at h; omega
theorem int_aux3 (x y : Int) (h : 2 * (y * Dec.P) - Dec.P ≤ 2 * (x * Dec.P) + Dec.P) : y ≤ x + 1 := by
  simp only [P_val] at h; omega

/-! ### index-based accrual -/
/-- effective rate over the interval: `rate * years` -/
def eff (rate : Dec) (secs : Int) : Dec := Dec.mul rate (yearsDec secs)

theorem eff_nonneg (r : Dec) (s : Int) (hr : 0 ≤ r) (hs : 0 ≤ s) : 0 ≤ eff r s :=
  mul_nonneg' _ _ hr (years_nonneg s hs)

theorem eff_zero (r : Dec) (hr : 0 ≤ r) : eff r 0 = 0 := by
  unfold eff; rw [years_zero]; exact mul_zero' r hr

theorem eff_mono_time (r : Dec) (s t : Int) (hr : 0 ≤ r) (hs : 0 ≤ s) (h : s ≤ t) : eff r s ≤ eff r t :=
  mul_mono_right _ _ _ hr (years_nonneg s hs) (years_mono s t hs h)

theorem eff_mono_rate (r r' : Dec) (s : Int) (hr : 0 ≤ r) (h : r ≤ r') (hs : 0 ≤ s) : eff r s ≤ eff r' s :=
  mul_mono_left _ _ _ hr h (years_nonneg s hs)

/-- two consecutive intervals against the combined one, at the level of the effective rate -/
theorem eff_two_step (r : Dec) (s t : Int) (hr : 0 ≤ r) (hs : 0 ≤ s) (ht : 0 ≤ t) :
    eff r s + eff r t ≤ eff r (s + t) + 1 := by
  have hy := (years_superadd s t hs ht).1
  have ys := years_nonneg s hs
  have yt := years_nonneg t ht
  have yst := years_nonneg (s + t) (by omega)
  obtain ⟨a1, _⟩ := mul_bounds r (yearsDec s) hr ys
  obtain ⟨b1, _⟩ := mul_bounds r (yearsDec t) hr yt
  obtain ⟨_, c2⟩ := mul_bounds r (yearsDec (s + t)) hr yst
  have hm : r * (yearsDec s + yearsDec t) ≤ r * yearsDec (s + t) := Int.mul_le_mul_of_nonneg_left hy hr
  unfold eff
  generalize Dec.mul r (yearsDec s) = e1 at *
  generalize Dec.mul r (yearsDec t) = e2 at *
  generalize Dec.mul r (yearsDec (s + t)) = e12 at *
  have hm' : r * yearsDec s + r * yearsDec t ≤ r * yearsDec (s + t) := by rw [← Int.mul_add]; exact hm
  generalize r * yearsDec s = p1 at *
  generalize r * yearsDec t = p2 at *
  generalize r * yearsDec (s + t) = p12 at *
  apply int_aux1
  linarith

theorem factor1_eq (r : Dec) (s : Int) : factor1 r s = Dec.one + eff r s := rfl

theorem one_le_factor1 (r : Dec) (s : Int) (hr : 0 ≤ r) (hs : 0 ≤ s) : Dec.one ≤ factor1 r s := by
  rw [factor1_eq]; have := eff_nonneg r s hr hs; linarith

theorem indexNext_ge (r gi : Dec) (s : Int) (hr : 0 ≤ r) (hg : 0 < gi) (hs : 0 ≤ s) : gi ≤ indexNext r gi s := by
  unfold indexNext
  have := mul_mono_right gi Dec.one (factor1 r s) (le_of_lt hg) (le_of_lt P_pos) (one_le_factor1 r s hr hs)
  rwa [mul_one' gi (le_of_lt hg)] at this

theorem one_le_factor2 (r gi : Dec) (s : Int) (hr : 0 ≤ r) (hg : 0 < gi) (hs : 0 ≤ s) : Dec.one ≤ factor2 r gi s :=
  one_le_quo _ gi hg (indexNext_ge r gi s hr hg hs)

theorem factor2_zero (r gi : Dec) (hr : 0 ≤ r) (hg : 0 < gi) : factor2 r gi 0 = Dec.one := by
  unfold factor2 indexNext
  rw [factor1_eq, eff_zero r hr, show Dec.one + 0 = Dec.one from Int.add_zero _, mul_one' gi (le_of_lt hg)]
  exact quo_self' gi hg

theorem factor2_mono_time (r gi : Dec) (s t : Int) (hr : 0 ≤ r) (hg : 0 < gi) (hs : 0 ≤ s) (h : s ≤ t) :
    factor2 r gi s ≤ factor2 r gi t := by
  unfold factor2 indexNext
  have h1 : factor1 r s ≤ factor1 r t := by rw [factor1_eq, factor1_eq]; linarith [eff_mono_time r s t hr hs h]
  have f0 : 0 ≤ factor1 r s := le_trans (le_of_lt P_pos) (one_le_factor1 r s hr hs)
  have h2 := mul_mono_right gi _ _ (le_of_lt hg) f0 h1
  exact quo_mono_left _ _ gi (mul_nonneg' _ _ (le_of_lt hg) f0) h2 hg

theorem factor2_mono_rate (r r' gi : Dec) (s : Int) (hr : 0 ≤ r) (h : r ≤ r') (hg : 0 < gi) (hs : 0 ≤ s) :
    factor2 r gi s ≤ factor2 r' gi s := by
  unfold factor2 indexNext
  have h1 : factor1 r s ≤ factor1 r' s := by rw [factor1_eq, factor1_eq]; linarith [eff_mono_rate r r' s hr h hs]
  have f0 : 0 ≤ factor1 r s := le_trans (le_of_lt P_pos) (one_le_factor1 r s hr hs)
  have h2 := mul_mono_right gi _ _ (le_of_lt hg) f0 h1
  exact quo_mono_left _ _ gi (mul_nonneg' _ _ (le_of_lt hg) f0) h2 hg

/-- on an integer principal the interest is exactly `n * (factor2 - 1)` -/
theorem indexInterest_eq (n : Int) (r gi : Dec) (s : Int) (hn : 0 ≤ n) (hr : 0 ≤ r) (hg : 0 < gi) (hs : 0 ≤ s) :
    indexInterest n r gi s = n * (factor2 r gi s - Dec.one) := by
  unfold indexInterest
  rw [mul_ofInt n _ hn (le_trans (le_of_lt P_pos) (one_le_factor2 r gi s hr hg hs))]
  unfold Dec.ofInt Dec.one; ring

/-- for an index of at least 1.0 the two roundings cost at most one ulp: `factor2 = 1 + rate·years ± 1 ulp` -/
theorem factor2_bounds (r gi : Dec) (s : Int) (hr : 0 ≤ r) (hg : Dec.one ≤ gi) (hs : 0 ≤ s) :
    Dec.one + eff r s - 1 ≤ factor2 r gi s ∧ factor2 r gi s ≤ Dec.one + eff r s + 1 := by
  have hg0 : 0 < gi := lt_of_lt_of_le P_pos hg
  have hF1 : Dec.one ≤ factor1 r s := one_le_factor1 r s hr hs
  have hF0 : 0 ≤ factor1 r s := le_trans (le_of_lt P_pos) hF1
  obtain ⟨m1, m2⟩ := mul_bounds gi (factor1 r s) (le_of_lt hg0) hF0
  have hi0 : 0 ≤ Dec.mul gi (factor1 r s) := mul_nonneg' _ _ (le_of_lt hg0) hF0
  obtain ⟨q1, q2⟩ := quo_bounds (Dec.mul gi (factor1 r s)) gi hi0 hg0
  unfold factor2 indexNext
  rw [← factor1_eq]
  generalize Dec.quo (Dec.mul gi (factor1 r s)) gi = f2 at *
  generalize Dec.mul gi (factor1 r s) = igc at *
  generalize factor1 r s = F at *
  -- m1 : 2·igc·P ≤ 2·gi·F + P,  m2 : 2·gi·F ≤ 2·igc·P + P
  -- q1 : (2·f2·P − P)·gi ≤ 2·igc·PP,  q2 : 2·igc·PP < (2·f2·P + P + 2)·gi
  have hP : Dec.one = Dec.P := rfl
  rw [hP] at hg
  have a1 : 2 * (igc * Dec.P) * Dec.P ≤ (2 * (gi * F) + Dec.P) * Dec.P :=
    Int.mul_le_mul_of_nonneg_right m1 (le_of_lt P_pos)
  have a2 : 2 * (gi * F) * Dec.P ≤ (2 * (igc * Dec.P) + Dec.P) * Dec.P :=
    Int.mul_le_mul_of_nonneg_right m2 (le_of_lt P_pos)
  have a3 : Dec.P * Dec.P ≤ Dec.P * gi := Int.mul_le_mul_of_nonneg_left hg (le_of_lt P_pos)
  constructor
  · -- lower: (2 f2 P + P + 2)·gi > 2·gi·F·P − P·gi
    have : (2 * (F * Dec.P) - Dec.P) * gi < (2 * (f2 * Dec.P) + Dec.P + 2) * gi := by
      rw [PP_eq] at q2; nlinarith [a2, a3, q2]
    have h := lt_of_mul_lt_mul_right this (le_of_lt hg0)
    exact int_aux2 F f2 h
  · have : (2 * (f2 * Dec.P) - Dec.P) * gi ≤ (2 * (F * Dec.P) + Dec.P) * gi := by
      rw [PP_eq] at q1; nlinarith [a1, a3, q1]
    have h := le_of_mul_le_mul_right this hg0
    exact int_aux3 F f2 h

/-! ### stable-rate accrual -/
theorem stableInterest_eq (n : Int) (r : Dec) (s : Int) (hn : 0 ≤ n) (hr : 0 ≤ r) (hs : 0 ≤ s) :
    stableInterest n r s = crn (n * r * yearsDec s) := by
  unfold stableInterest
  rw [mul_ofInt n r hn hr, mul_eq _ _ (Int.mul_nonneg hn hr) (years_nonneg s hs)]

/-! ### parameters -/
def Params.baseOf (p : Params) (stable : Bool) : Dec := if stable then p.stableBase else p.base
def Params.slope1Of (p : Params) (stable : Bool) : Dec := if stable then p.stableSlope1 else p.slope1
def Params.slope2Of (p : Params) (stable : Bool) : Dec := if stable then p.stableSlope2 else p.slope2

theorem adm_iff (p : Params) : admissible p = true ↔
    (0 < p.uOpt ∧ p.uOpt < Dec.one ∧ 0 ≤ p.base ∧ 0 ≤ p.slope1 ∧ 0 ≤ p.slope2 ∧
     0 ≤ p.stableBase ∧ 0 ≤ p.stableSlope1 ∧ 0 ≤ p.stableSlope2 ∧ 0 ≤ p.reserveFactor ∧ p.reserveFactor ≤ Dec.one) := by
  simp [admissible, and_assoc]

theorem adm_of (p : Params) (h : admissible p = true) (st : Bool) :
    0 < p.uOpt ∧ p.uOpt < Dec.one ∧ 0 ≤ p.baseOf st ∧ 0 ≤ p.slope1Of st ∧ 0 ≤ p.slope2Of st := by
  obtain ⟨a, b, c, d, e, f, g, i, _, _⟩ := (adm_iff p).mp h
  cases st <;> simp [Params.baseOf, Params.slope1Of, Params.slope2Of, *]

theorem borrowRate_eq (p : Params) (h : admissible p = true) (st : Bool) (u : Dec) :
    borrowRate p st u = some (kinkedVal (p.baseOf st) (p.slope1Of st) (p.slope2Of st) p.uOpt u) := by
  obtain ⟨a, b, _⟩ := adm_of p h st
  cases st <;> simp [borrowRate, Params.baseOf, Params.slope1Of, Params.slope2Of, kinked_eq_some _ _ _ _ _ a b]

theorem kinkedVal_nonneg (base s1 s2 uOpt u : Dec) (h0 : 0 < uOpt) (h1 : uOpt < Dec.one) (hb : 0 ≤ base)
    (hs1 : 0 ≤ s1) (hs2 : 0 ≤ s2) (hu : 0 ≤ u) : 0 ≤ kinkedVal base s1 s2 uOpt u := by
  have := kinkedVal_mono base s1 s2 uOpt 0 u h0 h1 hs1 hs2 (le_refl _) hu
  rw [kinkedVal_zero base s1 s2 uOpt h0 hs1] at this
  linarith

end Comdex.LendRates
