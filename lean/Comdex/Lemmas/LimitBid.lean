import Comdex.Model.LimitBid
import Comdex.Lemmas.English
/-! Helper lemmas for the limit-bid model: keyed-list sums, what each accepted message does, the three
invariants (deposits positive, BidValue = Σ deposits per market, custody covers deposits + fees + standing bids)
one step at a time. Core Lean only. -/
namespace Comdex.LimitBid
open Comdex.English

/-! ## keyed lists -/

section keyed
variable {κ : Type} [DecidableEq κ]

theorem getD0_eq (l : List (κ × Int)) (k : κ) : getD0 l k = (match getK l k with | some v => v | none => 0) := rfl

theorem getK_putK (l : List (κ × Int)) (k : κ) (v : Int) (k' : κ) :
    getK (putK l k v) k' = if k = k' then some v else getK l k' := by
  induction l with
  | nil => simp [putK, getK]
  | cons h t ih =>
    obtain ⟨hk, hv⟩ := h
    simp only [putK]
    by_cases e : hk = k
    · subst e
      simp only [if_true, getK]
      by_cases e2 : hk = k' <;> simp [e2]
    · simp only [e, if_false, getK, ih]
      by_cases e2 : hk = k'
      · subst e2; simp [Ne.symm e]
      · simp [e2]

theorem getD0_putK (l : List (κ × Int)) (k : κ) (v : Int) (k' : κ) :
    getD0 (putK l k v) k' = if k = k' then v else getD0 l k' := by
  unfold getD0
  rw [getK_putK]
  by_cases e : k = k' <;> simp [e]

theorem sumK_putK (p : κ → Bool) (l : List (κ × Int)) (k : κ) (v : Int) :
    sumK p (putK l k v) = sumK p l - (if p k then getD0 l k else 0) + (if p k then v else 0) := by
  induction l with
  | nil => simp [putK, sumK, getD0, getK]
  | cons h t ih =>
    obtain ⟨hk, hv⟩ := h
    simp only [putK]
    by_cases e : hk = k
    · subst e
      simp only [if_true, sumK, getD0, getK]
      omega
    · simp only [e, if_false, sumK, ih, getD0, getK]
      omega

theorem sumK_delK (p : κ → Bool) (l : List (κ × Int)) (k : κ) :
    sumK p (delK l k) = sumK p l - (if p k then getD0 l k else 0) := by
  induction l with
  | nil => simp [delK, sumK, getD0, getK]
  | cons h t ih =>
    obtain ⟨hk, hv⟩ := h
    simp only [delK]
    by_cases e : hk = k
    · subst e
      simp only [if_true, sumK, getD0, getK]
      omega
    · simp only [e, if_false, sumK, ih, getD0, getK]
      omega

theorem getK_delK_ne (l : List (κ × Int)) (k k' : κ) (h : k ≠ k') : getK (delK l k) k' = getK l k' := by
  induction l with
  | nil => simp [delK, getK]
  | cons hd t ih =>
    obtain ⟨hk, hv⟩ := hd
    simp only [delK]
    by_cases e : hk = k
    · subst e
      simp [getK, h]
    · simp only [e, if_false, getK, ih]

theorem mem_putK {l : List (κ × Int)} {k : κ} {v : Int} {x : κ × Int} (h : x ∈ putK l k v) : x ∈ l ∨ x = (k, v) := by
  induction l with
  | nil => simp [putK] at h; exact Or.inr h
  | cons hd t ih =>
    obtain ⟨hk, hv⟩ := hd
    simp only [putK] at h
    split at h
    · simp only [List.mem_cons] at h ⊢
      rcases h with h | h
      · exact Or.inr h
      · exact Or.inl (Or.inr h)
    · simp only [List.mem_cons] at h ⊢
      rcases h with h | h
      · exact Or.inl (Or.inl h)
      · rcases ih h with h | h
        · exact Or.inl (Or.inr h)
        · exact Or.inr h

theorem mem_delK {l : List (κ × Int)} {k : κ} {x : κ × Int} (h : x ∈ delK l k) : x ∈ l := by
  induction l with
  | nil => simp [delK] at h
  | cons hd t ih =>
    obtain ⟨hk, hv⟩ := hd
    simp only [delK] at h
    split at h
    · simp [h]
    · simp only [List.mem_cons] at h ⊢
      rcases h with h | h
      · exact Or.inl h
      · exact Or.inr (ih h)

theorem getK_mem {l : List (κ × Int)} {k : κ} {v : Int} (h : getK l k = some v) : (k, v) ∈ l := by
  induction l with
  | nil => simp [getK] at h
  | cons hd t ih =>
    obtain ⟨hk, hv⟩ := hd
    simp only [getK] at h
    split at h
    · rename_i e
      simp only [Option.some.injEq] at h
      subst h; subst e; simp
    · simp [ih h]

theorem getD0_of_getK {l : List (κ × Int)} {k : κ} {v : Int} (h : getK l k = some v) : getD0 l k = v := by
  unfold getD0; rw [h]

end keyed

/-! ## what the accepted messages do -/

theorem deposit_spec {s s' : State} {who : Acct} {coll debt : Nat} {prem : Int} {denom : Denom} {amt : Int}
    (h : depositStep s who coll debt prem denom amt = some s') :
    amt > 0 ∧ 0 ≤ prem ∧ prem ≤ maxPremium ∧ denomOf s.assets debt = some denom ∧
    ∃ b, send s.eng.bank who s.eng.cust denom amt = some b ∧
      s' = { setBank s b with
             deps := putK s.deps ⟨debt, coll, prem, who⟩ (getD0 s.deps ⟨debt, coll, prem, who⟩ + amt),
             bv := putK s.bv (debt, coll) (getD0 s.bv (debt, coll) + amt) } := by
  unfold depositStep at h
  split at h
  · simp at h
  · rename_i h0
    split at h
    · simp at h
    · rename_i h1
      split at h
      · simp at h
      · split at h
        · simp at h
        · rename_i dd hdd
          split at h
          · simp at h
          · rename_i h2
            split at h
            · simp at h
            · rename_i h3
              simp only at h
              split at h
              · simp at h
              · rename_i b hb
                simp only [Option.some.injEq] at h
                have h2' : dd = denom := by simpa using h2
                subst h2'
                refine ⟨by omega, by omega, by omega, hdd, b, hb, h.symm⟩

/-- the three shapes a successful cancel can take (the last one needs a non-positive record) -/
theorem cancelCore_spec {s s' : State} {k : Key} {rec : Int} {dd : Denom} (h : cancelCore s k rec dd = some s') :
    (rec > 0 ∧ ∃ b, send s.eng.bank s.eng.cust k.who dd (rec - fee s.closingFee rec) = some b ∧
        s' = { setBank s b with
               deps := delK s.deps k,
               bv := putK s.bv (k.debt, k.coll) (getD0 s.bv (k.debt, k.coll) - rec),
               fees := putK s.fees dd (getD0 s.fees dd + fee s.closingFee rec) }) ∨
    (rec ≤ 0 ∧ s' = { s with deps := delK s.deps k, bv := putK s.bv (k.debt, k.coll) (getD0 s.bv (k.debt, k.coll) - rec) }) := by
  unfold cancelCore at h
  split at h
  · rename_i hr
    simp only at h
    split at h
    · simp at h
    · rename_i b hb
      simp only [Option.some.injEq] at h
      exact Or.inl ⟨hr, b, hb, h.symm⟩
  · rename_i hr
    simp only [Option.some.injEq] at h
    exact Or.inr ⟨by omega, h.symm⟩

theorem cancel_spec {s s' : State} {who : Acct} {coll debt : Nat} {prem : Int}
    (h : cancelStep s who coll debt prem = some s') :
    ∃ rec dd, getK s.deps ⟨debt, coll, prem, who⟩ = some rec ∧ denomOf s.assets debt = some dd ∧
      cancelCore s ⟨debt, coll, prem, who⟩ rec dd = some s' := by
  unfold cancelStep at h
  split at h
  · simp at h
  · split at h
    · simp at h
    · simp only at h
      split at h
      · simp at h
      · rename_i rec hr
        split at h
        · simp at h
        · rename_i dd hd
          exact ⟨rec, dd, hr, hd, h⟩

/-- an accepted (guarded) withdraw: the record exists, the coin is in its denomination, the amount is covered -/
theorem withdraw_spec {s s' : State} {who : Acct} {coll debt : Nat} {prem : Int} {denom : Denom} {amt : Int}
    (h : withdrawStep true s who coll debt prem denom amt = some s') :
    ∃ rec, getK s.deps ⟨debt, coll, prem, who⟩ = some rec ∧ denomOf s.assets debt = some denom ∧
      0 < amt ∧ amt ≤ rec ∧
      ((amt = rec ∧ cancelCore s ⟨debt, coll, prem, who⟩ rec denom = some s') ∨
       (amt < rec ∧ ∃ b, send s.eng.bank s.eng.cust who denom (amt - fee s.withdrawalFee amt) = some b ∧
          s' = { setBank s b with
                 deps := putK s.deps ⟨debt, coll, prem, who⟩ (rec - amt),
                 bv := putK s.bv (debt, coll) (getD0 s.bv (debt, coll) - amt),
                 fees := putK s.fees denom (getD0 s.fees denom + fee s.withdrawalFee amt) })) := by
  unfold withdrawStep at h
  split at h
  · simp at h
  · rename_i h0
    split at h
    · simp at h
    · simp only at h
      split at h
      · simp at h
      · rename_i rec hr
        split at h
        · simp at h
        · rename_i dd hd
          split at h
          · simp at h
          · rename_i hg
            have hg' : denom = dd ∧ amt ≤ rec := by
              simp only [true_and, not_or, Decidable.not_not, Int.not_lt] at hg
              exact ⟨hg.1, by omega⟩
            obtain ⟨rfl, hle⟩ := hg'
            refine ⟨rec, hr, hd, by omega, hle, ?_⟩
            split at h
            · rename_i he
              exact Or.inl ⟨he, h⟩
            · rename_i hne
              split at h
              · split at h
                · simp at h
                · rename_i b hb
                  simp only [Option.some.injEq] at h
                  exact Or.inr ⟨by omega, b, hb, h.symm⟩
              · omega

/-! ## invariants -/

/-- outstanding deposits are positive -/
def Pos (s : State) : Prop := ∀ kv ∈ s.deps, kv.2 > 0

/-- the recorded total of every market equals the sum of its deposits -/
def BvInv (s : State) : Prop := ∀ debt coll, getD0 s.bv (debt, coll) = marketSum s.deps debt coll

/-- custody not accounted for by standing bids, deposits and retained fees -/
def gapL (s : State) (d : Denom) : Int := custGap s.eng d - denomSum s d - getD0 s.fees d

def SenderOkL (s : State) (op : Op) : Prop := ∀ who, op.sender? = some who → who ≠ s.eng.cust

theorem pos_of_getK {s : State} (hp : Pos s) {k : Key} {rec : Int} (h : getK s.deps k = some rec) : rec > 0 :=
  hp (k, rec) (getK_mem h)

theorem custGap_setBank (s : State) (b : Bank) (d : Denom) :
    custGap (setBank s b).eng d = bal b s.eng.cust d - sumBy (held d) s.eng.live := rfl

structure Frame (s s' : State) : Prop where
  assets : s'.assets = s.assets
  cf : s'.closingFee = s.closingFee
  wf : s'.withdrawalFee = s.withdrawalFee
  cust : s'.eng.cust = s.eng.cust
  coll : s'.eng.coll = s.eng.coll

theorem inMarket_self (k : Key) : inMarket k.debt k.coll k = true := by simp [inMarket]

theorem inMarket_ne {debt coll : Nat} {k : Key} (h : (k.debt, k.coll) ≠ (debt, coll)) : inMarket debt coll k = false := by
  simp only [inMarket, decide_eq_false_iff_not]
  intro c; exact h (by rw [c.1, c.2])

theorem inDenom_self {assets : List (Nat × Denom)} {k : Key} {d : Denom} (h : denomOf assets k.debt = some d) :
    inDenom assets d k = true := by simp [inDenom, h]

theorem inDenom_ne {assets : List (Nat × Denom)} {k : Key} {d d' : Denom} (h : denomOf assets k.debt = some d)
    (hne : d ≠ d') : inDenom assets d' k = false := by
  simp only [inDenom, decide_eq_false_iff_not, h]
  intro c; exact hne (Option.some.inj c)

theorem cancelCore_inv {s s' : State} {k : Key} {rec : Int} {dd : Denom}
    (h : cancelCore s k rec dd = some s') (hk : getK s.deps k = some rec) (hd : denomOf s.assets k.debt = some dd)
    (hp : Pos s) (hb : BvInv s) (hw : k.who ≠ s.eng.cust) :
    Pos s' ∧ BvInv s' ∧ (∀ d, gapL s' d = gapL s d) ∧ Frame s s' ∧ s'.eng.live = s.eng.live ∧ s'.eng.closed = s.eng.closed := by
  have hr := pos_of_getK hp hk
  have hwf : (k.who = s.eng.cust) = False := eq_false hw
  rcases cancelCore_spec h with ⟨_, b, hsend, hs⟩ | ⟨hle, _⟩
  · subst hs
    refine ⟨?_, ?_, ?_, ⟨rfl, rfl, rfl, rfl, rfl⟩, rfl, rfl⟩
    · intro kv hkv; exact hp kv (mem_delK hkv)
    · intro debt coll
      have hbb := hb debt coll
      have hbk := hb k.debt k.coll
      unfold marketSum at hbb hbk ⊢
      simp only
      rw [getD0_putK, sumK_delK, getD0_of_getK hk]
      by_cases e : (k.debt, k.coll) = (debt, coll)
      · obtain ⟨rfl, rfl⟩ := Prod.mk.inj e
        simp only [inMarket_self, if_true]; omega
      · simp only [inMarket_ne e, if_neg e, Bool.false_eq_true, if_false]; omega
    · intro d
      unfold gapL denomSum
      rw [custGap_setBank]
      simp only [setBank]
      rw [sumK_delK, getD0_putK, getD0_of_getK hk, send_bal hsend]
      unfold custGap
      by_cases e : dd = d
      · subst e
        simp only [inDenom_self hd, hwf, and_self, false_and, if_true, if_false]; omega
      · simp only [inDenom_ne hd e, e, and_false, Bool.false_eq_true, if_false]; omega
  · omega

theorem step_inv {s s' : State} {op : Op} (h : step s op = some s') (g : Good s.eng) (so : SenderOkL s op)
    (hp : Pos s) (hb : BvInv s) :
    Pos s' ∧ BvInv s' ∧ (∀ d, gapL s' d = gapL s d) ∧ Frame s s' ∧ Good s'.eng := by
  cases op with
  | eng eop =>
    simp only [step] at h
    split at h
    · simp at h
    · rename_i e he
      simp only [Option.some.injEq] at h
      subst h
      have hf := step_frame he
      refine ⟨hp, hb, ?_, ⟨rfl, rfl, rfl, hf.1, hf.2⟩, step_good he g (fun w hw => so w hw)⟩
      intro d
      unfold gapL denomSum
      simp only
      rw [step_custGap he g (fun w hw => so w hw) d]
  | deposit who coll debt prem denom amt =>
    obtain ⟨ha, hp0, _, hd, b, hsend, hs⟩ := deposit_spec h
    subst hs
    have hw : who ≠ s.eng.cust := so who rfl
    have hwf : (who = s.eng.cust) = False := eq_false hw
    refine ⟨?_, ?_, ?_, ⟨rfl, rfl, rfl, rfl, rfl⟩, g⟩
    · intro kv hkv
      rcases mem_putK hkv with hkv | hkv
      · exact hp kv hkv
      · subst hkv
        simp only
        have : getD0 s.deps ⟨debt, coll, prem, who⟩ ≥ 0 := by
          unfold getD0
          split
          · rename_i v hv; have := pos_of_getK hp hv; omega
          · omega
        omega
    · intro debt' coll'
      have hbb := hb debt' coll'
      unfold marketSum at hbb ⊢
      simp only
      rw [getD0_putK, sumK_putK]
      by_cases e : (debt, coll) = (debt', coll')
      · obtain ⟨rfl, rfl⟩ := Prod.mk.inj e
        have e1 : inMarket debt coll ⟨debt, coll, prem, who⟩ = true := inMarket_self ⟨debt, coll, prem, who⟩
        simp only [e1, if_true]; omega
      · have e1 : inMarket debt' coll' ⟨debt, coll, prem, who⟩ = false := inMarket_ne (k := ⟨debt, coll, prem, who⟩) e
        simp only [e1, if_neg e, Bool.false_eq_true, if_false]; omega
    · intro d
      unfold gapL denomSum
      rw [custGap_setBank]
      simp only [setBank]
      rw [sumK_putK, send_bal hsend]
      unfold custGap
      by_cases e : denom = d
      · subst e
        have e1 : inDenom s.assets denom ⟨debt, coll, prem, who⟩ = true := inDenom_self (k := ⟨debt, coll, prem, who⟩) hd
        simp only [e1, hwf, and_self, false_and, if_true, if_false]; omega
      · have e1 : inDenom s.assets d ⟨debt, coll, prem, who⟩ = false := inDenom_ne (k := ⟨debt, coll, prem, who⟩) hd e
        simp only [e1, e, and_false, Bool.false_eq_true, if_false]; omega
  | cancel who coll debt prem =>
    obtain ⟨rec, dd, hk, hd, hc⟩ := cancel_spec h
    obtain ⟨h1, h2, h3, h4, h5, _⟩ := cancelCore_inv hc hk hd hp hb (so who rfl)
    exact ⟨h1, h2, h3, h4, ⟨by rw [h4.cust, h4.coll]; exact g.1, by rw [h5, h4.cust]; exact g.2⟩⟩
  | withdraw who coll debt prem denom amt =>
    obtain ⟨rec, hk, hd, ha, hle, hcase⟩ := withdraw_spec h
    rcases hcase with ⟨_, hc⟩ | ⟨hlt, b, hsend, hs⟩
    · obtain ⟨h1, h2, h3, h4, h5, _⟩ := cancelCore_inv hc hk hd hp hb (so who rfl)
      exact ⟨h1, h2, h3, h4, ⟨by rw [h4.cust, h4.coll]; exact g.1, by rw [h5, h4.cust]; exact g.2⟩⟩
    · subst hs
      have hw : who ≠ s.eng.cust := so who rfl
      have hwf : (who = s.eng.cust) = False := eq_false hw
      refine ⟨?_, ?_, ?_, ⟨rfl, rfl, rfl, rfl, rfl⟩, g⟩
      · intro kv hkv
        rcases mem_putK hkv with hkv | hkv
        · exact hp kv hkv
        · subst hkv; simp only; omega
      · intro debt' coll'
        have hbb := hb debt' coll'
        unfold marketSum at hbb ⊢
        simp only
        rw [getD0_putK, sumK_putK, getD0_of_getK hk]
        by_cases e : (debt, coll) = (debt', coll')
        · obtain ⟨rfl, rfl⟩ := Prod.mk.inj e
          have e1 : inMarket debt coll ⟨debt, coll, prem, who⟩ = true := inMarket_self ⟨debt, coll, prem, who⟩
          simp only [e1, if_true]; omega
        · have e1 : inMarket debt' coll' ⟨debt, coll, prem, who⟩ = false := inMarket_ne (k := ⟨debt, coll, prem, who⟩) e
          simp only [e1, if_neg e, Bool.false_eq_true, if_false]; omega
      · intro d
        unfold gapL denomSum
        rw [custGap_setBank]
        simp only [setBank]
        rw [sumK_putK, getD0_putK, getD0_of_getK hk, send_bal hsend]
        unfold custGap
        by_cases e : denom = d
        · subst e
          have e1 : inDenom s.assets denom ⟨debt, coll, prem, who⟩ = true := inDenom_self (k := ⟨debt, coll, prem, who⟩) hd
          simp only [e1, hwf, and_self, false_and, if_true, if_false]; omega
        · have e1 : inDenom s.assets d ⟨debt, coll, prem, who⟩ = false := inDenom_ne (k := ⟨debt, coll, prem, who⟩) hd e
          simp only [e1, e, and_false, Bool.false_eq_true, if_false]; omega


/-! ## fees -/

theorem fee_nonneg (r : Dec) (x : Int) (hr : 0 ≤ r) (hx : 0 ≤ x) : 0 ≤ fee r x := by
  unfold fee Dec.truncateInt Dec.mul Dec.ofInt Dec.chopRound
  have hP : (0 : Int) ≤ Dec.P := by decide
  have h1 : 0 ≤ r * (x * Dec.P) := Int.mul_nonneg hr (Int.mul_nonneg hx hP)
  have h2 : ¬ (r * (x * Dec.P) < 0) := Int.not_lt.mpr h1
  simp only [h2, if_false]
  apply Int.tdiv_nonneg _ hP
  unfold Dec.chopRoundNonneg
  have hq := Int.tdiv_nonneg h1 hP
  simp only
  split
  · exact hq
  · split
    · exact hq
    · split
      · omega
      · split <;> omega

/-- retained fees never go negative when the fee rates are non-negative -/
def FeesNonneg (s : State) : Prop := ∀ d, 0 ≤ getD0 s.fees d

theorem step_fees {s s' : State} {op : Op} (h : step s op = some s') (hf : FeesNonneg s)
    (hc : 0 ≤ s.closingFee) (hw : 0 ≤ s.withdrawalFee) : FeesNonneg s' := by
  have core : ∀ {k : Key} {rec : Int} {dd : Denom} {t : State}, cancelCore s k rec dd = some t → FeesNonneg t := by
    intro k rec dd t ht
    rcases cancelCore_spec ht with ⟨hr, b, _, hs⟩ | ⟨_, hs⟩
    · subst hs
      intro d
      simp only
      rw [getD0_putK]
      have := fee_nonneg s.closingFee rec hc (by omega)
      have := hf dd
      split
      · omega
      · exact hf d
    · subst hs; exact hf
  cases op with
  | eng eop =>
    simp only [step] at h
    split at h
    · simp at h
    · simp only [Option.some.injEq] at h; subst h; exact hf
  | deposit who coll debt prem denom amt =>
    obtain ⟨_, _, _, _, b, _, hs⟩ := deposit_spec h
    subst hs; exact hf
  | cancel who coll debt prem =>
    obtain ⟨rec, dd, _, _, hcc⟩ := cancel_spec h
    exact core hcc
  | withdraw who coll debt prem denom amt =>
    obtain ⟨rec, _, _, ha, _, hcase⟩ := withdraw_spec h
    rcases hcase with ⟨_, hcc⟩ | ⟨_, b, _, hs⟩
    · exact core hcc
    · subst hs
      intro d
      simp only
      rw [getD0_putK]
      have := fee_nonneg s.withdrawalFee amt hw (by omega)
      have := hf denom
      split
      · omega
      · exact hf d

/-! ## whole histories -/

def UsersOnlyL (cust : Acct) (ops : List Op) : Prop := ∀ op ∈ ops, ∀ who, op.sender? = some who → who ≠ cust

theorem apply_cases (s : State) (op : Op) : (step s op = some (apply s op)) ∨ (step s op = none ∧ apply s op = s) := by
  unfold apply
  cases h : step s op with
  | none => exact Or.inr ⟨rfl, rfl⟩
  | some s' => exact Or.inl rfl

theorem run_inv (s : State) (ops : List Op) (g : Good s.eng) (hu : UsersOnlyL s.eng.cust ops)
    (hp : Pos s) (hb : BvInv s) :
    Pos (run s ops) ∧ BvInv (run s ops) ∧ (∀ d, gapL (run s ops) d = gapL s d) ∧ Frame s (run s ops) ∧
    Good (run s ops).eng := by
  induction ops generalizing s with
  | nil => exact ⟨hp, hb, fun _ => rfl, ⟨rfl, rfl, rfl, rfl, rfl⟩, g⟩
  | cons op ops ih =>
    have hso : SenderOkL s op := fun who hw => hu op (by simp) who hw
    simp only [run, List.foldl_cons]
    rcases apply_cases s op with h | ⟨_, h⟩
    · obtain ⟨j1, j2, j3, j4, j5⟩ := step_inv h g hso hp hb
      have hu' : UsersOnlyL (apply s op).eng.cust ops := by
        rw [j4.cust]; exact fun o ho => hu o (by simp [ho])
      obtain ⟨i1, i2, i3, i4, i5⟩ := ih (apply s op) j5 hu' j1 j2
      refine ⟨i1, i2, fun d => by rw [← j3 d]; exact i3 d, ?_, i5⟩
      exact ⟨by rw [← j4.assets]; exact i4.assets, by rw [← j4.cf]; exact i4.cf, by rw [← j4.wf]; exact i4.wf,
             by rw [← j4.cust]; exact i4.cust, by rw [← j4.coll]; exact i4.coll⟩
    · rw [h]
      exact ih s g (fun o ho => hu o (by simp [ho])) hp hb

theorem run_fees (s : State) (ops : List Op) (hf : FeesNonneg s) (hc : 0 ≤ s.closingFee) (hw : 0 ≤ s.withdrawalFee) :
    FeesNonneg (run s ops) ∧ (run s ops).closingFee = s.closingFee ∧ (run s ops).withdrawalFee = s.withdrawalFee := by
  induction ops generalizing s with
  | nil => exact ⟨hf, rfl, rfl⟩
  | cons op ops ih =>
    simp only [run, List.foldl_cons]
    rcases apply_cases s op with h | ⟨_, h⟩
    · have hfr : (apply s op).closingFee = s.closingFee ∧ (apply s op).withdrawalFee = s.withdrawalFee := by
        cases op with
        | eng eop =>
          simp only [step] at h
          split at h
          · simp at h
          · simp only [Option.some.injEq] at h; rw [← h]; exact ⟨rfl, rfl⟩
        | deposit who coll debt prem denom amt =>
          obtain ⟨_, _, _, _, b, _, hs⟩ := deposit_spec h
          rw [hs]; exact ⟨rfl, rfl⟩
        | cancel who coll debt prem =>
          obtain ⟨rec, dd, _, _, hcc⟩ := cancel_spec h
          rcases cancelCore_spec hcc with ⟨_, b, _, hs⟩ | ⟨_, hs⟩ <;> rw [hs] <;> exact ⟨rfl, rfl⟩
        | withdraw who coll debt prem denom amt =>
          obtain ⟨rec, _, _, _, _, hcase⟩ := withdraw_spec h
          rcases hcase with ⟨_, hcc⟩ | ⟨_, b, _, hs⟩
          · rcases cancelCore_spec hcc with ⟨_, b, _, hs⟩ | ⟨_, hs⟩ <;> rw [hs] <;> exact ⟨rfl, rfl⟩
          · rw [hs]; exact ⟨rfl, rfl⟩
      obtain ⟨i1, i2, i3⟩ := ih (apply s op) (step_fees h hf hc hw) (by rw [hfr.1]; exact hc) (by rw [hfr.2]; exact hw)
      exact ⟨i1, i2.trans hfr.1, i3.trans hfr.2⟩
    · rw [h]; exact ih s hf hc hw

/-- a sub-collection of positive deposits sums to no more than the whole -/
theorem sumK_le_of_imp {κ : Type} (p q : κ → Bool) (l : List (κ × Int)) (hpq : ∀ k, p k = true → q k = true)
    (hpos : ∀ kv ∈ l, kv.2 > 0) : sumK p l ≤ sumK q l := by
  induction l with
  | nil => simp [sumK]
  | cons hd t ih =>
    obtain ⟨k, v⟩ := hd
    have hv : v > 0 := hpos (k, v) (by simp)
    have := ih (fun kv hkv => hpos kv (by simp [hkv]))
    simp only [sumK]
    by_cases hp : p k = true
    · simp only [hp, hpq k hp, if_true]; omega
    · simp only [hp]
      by_cases hq : q k = true
      · simp only [hq, if_true]; omega
      · simp only [hq]; omega

end Comdex.LimitBid
