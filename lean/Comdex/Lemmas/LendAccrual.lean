import Comdex.Model.LendAccrual
import Comdex.Lemmas.LendRates
import Comdex.Lemmas.Lend
/-!
Lemmas about the accrual bookkeeping of `Model/LendAccrual.lean` (C08): the reward tracker loses nothing, an accrual at zero elapsed
time is the identity, and how one accrual moves the borrower's interest, the reserve share and the lenders' share in the ledger.
-/
namespace Comdex.Lend
open Comdex Comdex.LendRates

theorem tracker_split (t : Int) (h0 : 0 ≤ t) :
    Dec.ofInt (Dec.truncateInt t) + (t - Dec.ofInt (Dec.truncateInt t)) = t ∧ 0 ≤ Dec.truncateInt t ∧
      0 ≤ t - Dec.ofInt (Dec.truncateInt t) ∧ t - Dec.ofInt (Dec.truncateInt t) < Dec.one := by
  refine ⟨by ring, ?_⟩
  unfold Dec.truncateInt Dec.ofInt Dec.one
  rw [Int.tdiv_eq_ediv_of_nonneg h0]
  simp only [Dec.P]
  refine ⟨by omega, by omega, by omega⟩

/-- **the reward tracker loses nothing**: whole tokens paid + fraction carried = fraction before + reward accrued; the carried fraction
is in `[0, 1)` whenever the accumulated amount is non-negative -/
theorem accrueLend_conserved (a : AccL) (amountIn : Int) (apr : Dec) (now : Int) (per gi' : Dec) (r : LendAccrual)
    (h : lendReward amountIn apr a.gi now a.last = .ok [per, gi']) (hr : accrueLend a amountIn apr now = r) :
    Dec.ofInt r.reward + r.tracker = a.tracker + per ∧ r.gi = gi' ∧ r.panicked = false ∧
      (0 ≤ a.tracker + per → 0 ≤ r.reward ∧ 0 ≤ r.tracker ∧ r.tracker < Dec.one) := by
  unfold accrueLend at hr
  rw [h] at hr
  simp only at hr
  by_cases hc : Dec.one ≤ a.tracker + per
  · simp only [hc, if_true] at hr
    subst hr
    have hpos : (0 : Int) ≤ a.tracker + per := le_trans (by decide) hc
    obtain ⟨e, p1, p2, p3⟩ := tracker_split (a.tracker + per) hpos
    exact ⟨e, rfl, rfl, fun _ => ⟨p1, p2, p3⟩⟩
  · simp only [hc, if_false] at hr
    subst hr
    refine ⟨by simp [Dec.ofInt], rfl, rfl, fun h0 => ⟨le_refl _, h0, lt_of_not_ge hc⟩⟩

/-- **an accrual at zero elapsed time is the identity** (the second `IterateBorrow` of a deposit-and-draw): nothing is charged and the
indices stay, for positive indices, a non-negative principal and non-negative rates -/
theorem accrueBorrow_zero_elapsed (a : AccB) (amountOut : Int) (stable : Bool) (apr rr : Dec) (now : Int)
    (hgi : 0 < a.gi) (hrgi : 0 < a.rgi) (ham : 0 ≤ amountOut) (hsr : 0 ≤ a.stableRate) (hnow : elapsed now a.last = 0) :
    accrueBorrow a amountOut stable apr (some rr) now = { ext := .val 0 0, gi := a.gi, rgi := a.rgi } := by
  have y0 : yearsDec 0 = 0 := years_zero
  have f1 : ∀ rate : Dec, factor1 rate 0 = Dec.one := by
    intro rate; unfold factor1; rw [y0]
    have : Dec.mul rate 0 = 0 := by unfold Dec.mul; simp [Dec.chopRound, Dec.chopRoundNonneg]
    rw [this]; simp
  have inx : ∀ (rate g : Dec), 0 < g → indexNext rate g 0 = g := by
    intro rate g hg; unfold indexNext; rw [f1]; exact mul_one' g (le_of_lt hg)
  have ii : ∀ (rate g : Dec), 0 < g → indexInterest amountOut rate g 0 = 0 := by
    intro rate g hg
    unfold indexInterest factor2
    rw [inx rate g hg, quo_self' g hg, mul_one' _ (by unfold Dec.ofInt; exact Int.mul_nonneg ham (by decide))]
    exact Int.sub_self _
  have hgi' : ¬ (a.gi = 0) := Int.ne_of_gt hgi
  have hrgi' : ¬ (a.rgi = 0) := Int.ne_of_gt hrgi
  have bi : borrowInterest amountOut apr rr a.gi a.rgi now a.last = .ok [0, a.gi, 0, a.rgi] := by
    unfold borrowInterest
    simp only [hnow, hgi', hrgi', Int.lt_irrefl, if_false, Bool.or_false, decide_false, Bool.false_eq_true, beq_iff_eq]
    rw [ii apr a.gi hgi, ii rr a.rgi hrgi, inx apr a.gi hgi, inx rr a.rgi hrgi]
  unfold accrueBorrow
  simp only [bi]
  cases stable
  · simp
  · have si : stableBorrowInterest amountOut a.stableRate now a.last = .ok [0] := by
      unfold stableBorrowInterest stableInterest
      simp only [hnow, Int.lt_irrefl, if_false]
      rw [y0, mul_zero' _ (mul_nonneg' _ _ (by unfold Dec.ofInt; exact Int.mul_nonneg ham (by decide)) hsr)]
    simp [si]

/-- **what one accrual does to the ledger**: it charges `dI` to the borrower and earmarks `dR` (when positive) for the reserve; the
lenders' share `interest − reserve share` grows by exactly the difference; no coin moves, no total changes -/
theorem iterBorrow_split {s s1 : State} {k : Nat} {dI dR : Dec} {b0 b : Borrow} (h : iterBorrow s k (.val dI dR) = .ok s1)
    (h0 : getBorrow s.borrows k = some b0) (h1 : getBorrow s1.borrows k = some b) :
    b.interest = b0.interest + dI ∧ b.reserveInt = b0.reserveInt + (if dR > 0 then dR else 0) ∧
      (b.interest - b.reserveInt) - (b0.interest - b0.reserveInt) = dI - (if dR > 0 then dR else 0) ∧
      s1.bank = s.bank ∧ s1.stats = s.stats ∧ s1.lends = s.lends := by
  obtain ⟨hm, hk⟩ := getBorrow_mem h0
  have hf := iterBorrow_frame h
  unfold iterBorrow at h
  simp only [h0, Except.ok.injEq] at h
  subst h
  have key : ∀ b', b'.id = b0.id → getBorrow (setBorrow s.borrows b') k = some b' := fun b' hb' => by
    have := find_put bid s.borrows b0 b' hm (by simp [bid, hb'])
    simp only [bid, hb', hk] at this; exact this
  dsimp only at h1
  rw [key] at h1
  · cases h1
    refine ⟨rfl, ?_, ?_, hf.1, hf.2.2.2, hf.2.2.1⟩
    · by_cases hd : dR > 0 <;> simp [hd]
    · by_cases hd : dR > 0 <;> simp [hd] <;> ring
  · rfl

/-- **where a lend reward comes from**: an accepted accrual with a positive reward `r` credits `r` to the position and to the lent total
and takes it either from the lenders' share accumulated by repayments (`totalInterestAccumulated −= r`, when that suffices) or from
the reserve (which must hold `r` coins) -/
theorem iterLends_source {cfg : Cfg} {s s' : State} {k : Nat} {r : Int} (h : iterLends cfg s k r = .ok s') (hr : r > 0) :
    ∃ l st, getLend s.lends k = some l ∧ getStats s.stats l.pool l.asset = some st ∧
      ((r ≤ st.totalInterest ∧ s'.stats = addTotalLend (addTotalInterest s.stats l.pool l.asset (-r)) l.pool l.asset r) ∨
       (st.totalInterest < r ∧ r ≤ s.bank.get cfg.reserveAcct l.asset ∧ s'.stats = addTotalLend s.stats l.pool l.asset r)) := by
  unfold iterLends at h
  invert h
  all_goals first
    | (refine ⟨_, _, ‹getLend s.lends k = some _›, ‹getStats s.stats _ _ = some _›, Or.inr ⟨by omega, ?_, rfl⟩⟩
       have := of_decide_eq_true ‹decide (¬ _ < r) = true›
       omega)
    | exact ⟨_, _, ‹getLend s.lends k = some _›, ‹getStats s.stats _ _ = some _›, Or.inl ⟨by omega, rfl⟩⟩
    | omega

end Comdex.Lend
