import Comdex.Model.Locker
/-! Helper lemmas for C13: keyed store, bank, and the effect of each ledger primitive on the measured quantities. Core Lean only. -/
namespace Comdex.Locker

namespace Store
variable {K V : Type} [DecidableEq K]

theorem get_put_self (s : Store K V) (k : K) (v : V) : get (put s k v) k = some v := by
  induction s with
  | nil => simp [put, get]
  | cons p t ih =>
    obtain ⟨a, b⟩ := p
    by_cases h : a = k
    · simp [put, get, h]
    · simp [put, get, h, ih]

theorem get_put_ne (s : Store K V) (k k' : K) (v : V) (hne : k ≠ k') : get (put s k v) k' = get s k' := by
  induction s with
  | nil => simp [put, get, hne]
  | cons p t ih =>
    obtain ⟨a, b⟩ := p
    by_cases h : a = k
    · subst h; simp [put, get, hne]
    · by_cases h2 : a = k'
      · subst h2; simp [put, get, h]
      · simp [put, get, h, h2, ih]

theorem get_put (s : Store K V) (k k' : K) (v : V) :
    get (put s k v) k' = if k = k' then some v else get s k' := by
  by_cases h : k = k'
  · subst h; simp [get_put_self]
  · simp [h, get_put_ne s k k' v h]

/-- value of `f` at the stored entry, `0` if absent -/
def at0 (f : K → V → Int) (s : Store K V) (k : K) : Int :=
  match get s k with | some o => f k o | none => 0

theorem sumBy_put (f : K → V → Int) (s : Store K V) (k : K) (v : V) :
    sumBy f (put s k v) = sumBy f s - at0 f s k + f k v := by
  induction s with
  | nil => simp [put, sumBy, at0, get]
  | cons p t ih =>
    obtain ⟨a, b⟩ := p
    by_cases h : a = k
    · subst h; simp [put, sumBy, at0, get]; omega
    · simp [put, sumBy, at0, get, h] at ih ⊢; omega

theorem sumBy_del (f : K → V → Int) (s : Store K V) (k : K) :
    sumBy f (del s k) = sumBy f s - at0 f s k := by
  induction s with
  | nil => simp [del, sumBy, at0, get]
  | cons p t ih =>
    obtain ⟨a, b⟩ := p
    by_cases h : a = k
    · subst h; simp [del, sumBy, at0, get]; omega
    · simp [del, sumBy, at0, get, h] at ih ⊢; omega

theorem mem_put {s : Store K V} {k : K} {v : V} {p : K × V} (h : p ∈ put s k v) : p = (k, v) ∨ p ∈ s := by
  induction s with
  | nil => simp [put] at h; exact Or.inl h
  | cons q t ih =>
    obtain ⟨a, b⟩ := q
    by_cases hk : a = k
    · simp [put, hk] at h
      rcases h with h | h
      · exact Or.inl h
      · exact Or.inr (List.mem_cons_of_mem _ h)
    · simp [put, hk] at h
      rcases h with h | h
      · exact Or.inr (by simp [h])
      · rcases ih h with h' | h'
        · exact Or.inl h'
        · exact Or.inr (List.mem_cons_of_mem _ h')

theorem mem_del {s : Store K V} {k : K} {p : K × V} (h : p ∈ del s k) : p ∈ s := by
  induction s with
  | nil => simp [del] at h
  | cons q t ih =>
    obtain ⟨a, b⟩ := q
    by_cases hk : a = k
    · simp [del, hk] at h; exact List.mem_cons_of_mem _ h
    · simp [del, hk] at h
      rcases h with h | h
      · simp [h]
      · exact List.mem_cons_of_mem _ (ih h)

theorem get_del_ne (s : Store K V) (k k' : K) (hne : k ≠ k') : get (del s k) k' = get s k' := by
  induction s with
  | nil => simp [del, get]
  | cons p t ih =>
    obtain ⟨a, b⟩ := p
    by_cases h : a = k
    · subst h; simp [del, get, hne]
    · by_cases h2 : a = k'
      · subst h2; simp [del, get, h]
      · simp [del, get, h, h2, ih]

theorem mem_of_get {s : Store K V} {k : K} {v : V} (h : get s k = some v) : (k, v) ∈ s := by
  induction s with
  | nil => simp [get] at h
  | cons p t ih =>
    obtain ⟨a, b⟩ := p
    by_cases hk : a = k
    · simp [get, hk] at h; subst hk; subst h; simp
    · simp [get, hk] at h; exact List.mem_cons_of_mem _ (ih h)

theorem get_of_mem_none {s : Store K V} {k : K} (h : ∀ p ∈ s, p.1 ≠ k) : get s k = none := by
  induction s with
  | nil => simp [get]
  | cons p t ih =>
    obtain ⟨a, b⟩ := p
    have : a ≠ k := h (a, b) (by simp)
    simp [get, this]
    exact ih (fun p hp => h p (List.mem_cons_of_mem _ hp))

/-- an entry is bounded by the sum when all summands are non-negative -/
theorem at0_le_sumBy (f : K → V → Int) (s : Store K V) (k : K) (hnn : ∀ p ∈ s, 0 ≤ f p.1 p.2) :
    at0 f s k ≤ sumBy f s ∧ 0 ≤ sumBy f s := by
  induction s with
  | nil => simp [at0, get, sumBy]
  | cons p t ih =>
    obtain ⟨a, b⟩ := p
    have h0 := hnn (a, b) (by simp)
    have ⟨ih1, ih2⟩ := ih (fun p hp => hnn p (List.mem_cons_of_mem _ hp))
    by_cases h : a = k
    · subst h; simp [at0, get, sumBy] at *; omega
    · simp [at0, get, sumBy, h] at *; omega

end Store

/-! ## bank -/

theorem Bank.bal_put (b : Bank) (a a' : Acct) (d d' : Nat) (v : Int) :
    Bank.bal (Store.put b (a, d) v) a' d' = if (a, d) = (a', d') then v else Bank.bal b a' d' := by
  unfold Bank.bal
  rw [Store.get_put]
  by_cases h : (a, d) = (a', d') <;> simp [h]

theorem Bank.send_spec {b b' : Bank} {src dst : Acct} {d : Nat} {x : Int}
    (h : Bank.send b src dst d x = some b') :
    0 ≤ x ∧ x ≤ b.bal src d ∧
    ∀ a d', b'.bal a d' = b.bal a d' - (if (src, d) = (a, d') then x else 0) + (if (dst, d) = (a, d') then x else 0) := by
  unfold Bank.send at h
  split at h
  · simp at h
  · split at h
    · simp at h
    · rename_i h1 h2
      simp at h
      refine ⟨by omega, by omega, ?_⟩
      intro a d'
      subst h
      rw [Bank.bal_put, Bank.bal_put, Bank.bal_put]
      by_cases hs : (src, d) = (a, d') <;> by_cases hd : (dst, d) = (a, d')
      · obtain ⟨e1, e2⟩ := Prod.mk.inj hs
        obtain ⟨e3, _⟩ := Prod.mk.inj hd
        subst e1; subst e2; subst e3
        simp
      · obtain ⟨e1, e2⟩ := Prod.mk.inj hs
        subst e1; subst e2
        simp [hd]
      · obtain ⟨e3, e4⟩ := Prod.mk.inj hd
        subst e3; subst e4
        simp [hs]
      · simp [hs, hd]

theorem Bank.mint_spec {b b' : Bank} {acct : Acct} {d : Nat} {x : Int} (h : Bank.mint b acct d x = some b') :
    0 ≤ x ∧ ∀ a d', b'.bal a d' = b.bal a d' + (if (acct, d) = (a, d') then x else 0) := by
  unfold Bank.mint at h
  split at h
  · simp at h
  · simp at h
    refine ⟨by omega, ?_⟩
    intro a d'
    subst h
    rw [Bank.bal_put]
    by_cases hs : (acct, d) = (a, d') <;> simp [hs]
    obtain ⟨h1, h2⟩ := Prod.mk.inj hs
    subst h1; subst h2; rfl


/-! ## measured quantities under store updates -/

theorem Store.at0_some {K V : Type} [DecidableEq K] (f : K → V → Int) {s : Store K V} {k : K} {v : V}
    (h : Store.get s k = some v) : Store.at0 f s k = f k v := by simp [Store.at0, h]

theorem Store.at0_none {K V : Type} [DecidableEq K] (f : K → V → Int) {s : Store K V} {k : K}
    (h : Store.get s k = none) : Store.at0 f s k = 0 := by simp [Store.at0, h]

theorem feeAsset_put (a : Nat) (fs : Store (Nat × Nat) Int) (k : Nat × Nat) (v : Int) :
    feeAsset a (Store.put fs k v) =
      feeAsset a fs - (if k.2 = a then (Store.get fs k).getD 0 else 0) + (if k.2 = a then v else 0) := by
  unfold feeAsset
  rw [Store.sumBy_put]
  cases h : Store.get fs k with
  | none => simp [Store.at0, h]
  | some o => simp [Store.at0, h]

theorem depAsset_put (a : Nat) (lk : Store (Nat × Nat) Lk) (k : Nat × Nat) (e : Lk) :
    depAsset a (Store.put lk k e) =
      depAsset a lk - (if k.2 = a then ((Store.get lk k).map (·.deposited)).getD 0 else 0)
        + (if k.2 = a then e.deposited else 0) := by
  unfold depAsset
  rw [Store.sumBy_put]
  cases h : Store.get lk k with
  | none => simp [Store.at0, h]
  | some o => simp [Store.at0, h]

theorem lockSum_put_some (k : Nat × Nat) {ls : Store Nat Locker} {id : Nat} {l : Locker} (l' : Locker)
    (h : Store.get ls id = some l) :
    lockSum k (Store.put ls id l') =
      lockSum k ls - (if (l.app, l.asset) = k then l.net else 0) + (if (l'.app, l'.asset) = k then l'.net else 0) := by
  unfold lockSum
  rw [Store.sumBy_put, Store.at0_some _ h]

theorem lockSum_put_none (k : Nat × Nat) {ls : Store Nat Locker} {id : Nat} (l' : Locker)
    (h : Store.get ls id = none) :
    lockSum k (Store.put ls id l') = lockSum k ls + (if (l'.app, l'.asset) = k then l'.net else 0) := by
  unfold lockSum
  rw [Store.sumBy_put, Store.at0_none _ h]; omega

theorem lockSum_del_some (k : Nat × Nat) {ls : Store Nat Locker} {id : Nat} {l : Locker}
    (h : Store.get ls id = some l) :
    lockSum k (Store.del ls id) = lockSum k ls - (if (l.app, l.asset) = k then l.net else 0) := by
  unfold lockSum
  rw [Store.sumBy_del, Store.at0_some _ h]

theorem nonneg_put {K : Type} [DecidableEq K] {fs : Store K Int} {k : K} {v : Int}
    (h : ∀ p ∈ fs, 0 ≤ p.2) (hv : 0 ≤ v) : ∀ p ∈ Store.put fs k v, 0 ≤ p.2 := by
  intro p hp
  rcases Store.mem_put hp with e | e
  · subst e; exact hv
  · exact h p e

/-! ## collector primitives -/

theorem setNetFee_spec {s s' : State} {k : Nat × Nat} {f : Int} (h : setNetFee s k f = some s') :
    0 ≤ f ∧ s' = { s with fees := Store.put s.fees k (fee s k + f) } := by
  unfold setNetFee at h
  split at h
  · simp at h
  · refine ⟨by omega, ?_⟩
    split at h <;> rename_i hg <;> simp at h <;> subst h <;> simp [fee, hg]

theorem decNetFee_spec {s s' : State} {k : Nat × Nat} {x : Int} (h : decNetFee s k x = some s') :
    (Store.get s.fees k).isSome ∧ x ≤ fee s k ∧ s' = { s with fees := Store.put s.fees k (fee s k - x) } := by
  unfold decNetFee at h
  split at h
  · simp at h
  · rename_i v hg
    split at h
    · simp at h
    · simp at h; subst h
      simp [fee, hg]; omega

theorem creditCollector_spec {s s' : State} {d : Nat} {x : Int} (h : creditCollector s d x = some s') :
    0 ≤ x ∧ (∀ a d', s'.bank.bal a d' = s.bank.bal a d' + (if (Acct.collector, d) = (a, d') then x else 0)) ∧
    s'.fees = s.fees ∧ s'.lockers = s.lockers ∧ s'.lookup = s.lookup ∧ s'.lastId = s.lastId ∧
    s'.assets = s.assets ∧ s'.apps = s.apps ∧ s'.collk = s.collk := by
  unfold creditCollector at h
  cases hm : Bank.mint s.bank .collector d x with
  | none => simp [hm] at h
  | some b =>
    simp [hm] at h; subst h
    obtain ⟨h0, hb⟩ := Bank.mint_spec hm
    exact ⟨h0, hb, rfl, rfl, rfl, rfl, rfl, rfl, rfl⟩



/-! ## the id lists of the lookup table -/

theorem Store.put_put {K V : Type} [DecidableEq K] (s : Store K V) (k : K) (v v' : V) :
    Store.put (Store.put s k v) k v' = Store.put s k v' := by
  induction s with
  | nil => simp [Store.put]
  | cons p t ih =>
    obtain ⟨a, b⟩ := p
    by_cases h : a = k
    · simp [Store.put, h]
    · simp [Store.put, h, ih]

/-- every id listed under `(app, asset)` is a live locker of that app and asset; no id is listed twice. -/
def IdsInvS (ls : Store Nat Locker) (lk : Store (Nat × Nat) Lk) : Prop :=
  ∀ k e, Store.get lk k = some e →
    e.ids.Nodup ∧ ∀ id ∈ e.ids, ∃ l, Store.get ls id = some l ∧ (l.app, l.asset) = k

theorem idsInvS_putLocker {ls : Store Nat Locker} {lk : Store (Nat × Nat) Lk} {id : Nat} {l l' : Locker}
    (h : IdsInvS ls lk) (hl : Store.get ls id = some l) (hk : (l'.app, l'.asset) = (l.app, l.asset)) :
    IdsInvS (Store.put ls id l') lk := by
  intro k e he
  obtain ⟨hnd, hmem⟩ := h k e he
  refine ⟨hnd, ?_⟩
  intro id' hid'
  obtain ⟨l0, hl0, hk0⟩ := hmem id' hid'
  by_cases hi : id = id'
  · subst hi
    rw [hl] at hl0; cases hl0
    exact ⟨l', Store.get_put_self _ _ _, hk.trans hk0⟩
  · exact ⟨l0, by rw [Store.get_put_ne _ _ _ _ hi]; exact hl0, hk0⟩

theorem idsInvS_putLookup {ls : Store Nat Locker} {lk : Store (Nat × Nat) Lk} {k : Nat × Nat} {e e' : Lk}
    (h : IdsInvS ls lk) (he : Store.get lk k = some e) (hids : e'.ids = e.ids) :
    IdsInvS ls (Store.put lk k e') := by
  intro k' e0 he0
  rw [Store.get_put] at he0
  by_cases hk : k = k'
  · subst hk
    simp at he0; subst he0
    rw [hids]; exact h k e he
  · simp [hk] at he0; exact h k' e0 he0

theorem idsInvS_putLookupNil {ls : Store Nat Locker} {lk : Store (Nat × Nat) Lk} {k : Nat × Nat} {d : Int}
    (h : IdsInvS ls lk) : IdsInvS ls (Store.put lk k { deposited := d, ids := [] }) := by
  intro k' e0 he0
  rw [Store.get_put] at he0
  by_cases hk : k = k'
  · subst hk
    simp at he0; subst he0
    exact ⟨List.nodup_nil, by intro id hid; simp at hid⟩
  · simp [hk] at he0; exact h k' e0 he0

theorem idsInvS_create {ls : Store Nat Locker} {lk : Store (Nat × Nat) Lk} {k : Nat × Nat} {e : Lk} {id : Nat}
    {lnew : Locker} {d : Int}
    (h : IdsInvS ls lk) (he : Store.get lk k = some e) (hfresh : Store.get ls id = none)
    (hkey : (lnew.app, lnew.asset) = k) :
    IdsInvS (Store.put ls id lnew) (Store.put lk k { deposited := d, ids := e.ids ++ [id] }) := by
  have hold : ∀ k0 e0, Store.get lk k0 = some e0 → ∀ id' ∈ e0.ids, id' ≠ id ∧
      ∃ l, Store.get (Store.put ls id lnew) id' = some l ∧ (l.app, l.asset) = k0 := by
    intro k0 e0 he0 id' hid'
    obtain ⟨l0, hl0, hk0⟩ := (h k0 e0 he0).2 id' hid'
    have hne : id ≠ id' := by intro e1; subst e1; rw [hfresh] at hl0; cases hl0
    exact ⟨fun e1 => hne e1.symm, l0, by rw [Store.get_put_ne _ _ _ _ hne]; exact hl0, hk0⟩
  intro k' e0 he0
  rw [Store.get_put] at he0
  by_cases hk : k = k'
  · subst hk
    simp at he0; subst he0
    refine ⟨?_, ?_⟩
    · show (e.ids ++ [id]).Nodup
      rw [List.nodup_append]
      refine ⟨(h k e he).1, by simp, ?_⟩
      intro a ha b hb
      simp at hb; subst hb
      exact (hold k e he a ha).1
    · intro id' hid'
      simp at hid'
      rcases hid' with hid' | hid'
      · exact (hold k e he id' hid').2
      · subst hid'; exact ⟨lnew, Store.get_put_self _ _ _, hkey⟩
  · simp [hk] at he0
    exact ⟨(h k' e0 he0).1, fun id' hid' => (hold k' e0 he0 id' hid').2⟩

theorem idsInvS_close {ls : Store Nat Locker} {lk : Store (Nat × Nat) Lk} {k : Nat × Nat} {e : Lk} {id : Nat}
    {l : Locker} {d : Int}
    (h : IdsInvS ls lk) (he : Store.get lk k = some e) (hl : Store.get ls id = some l) (hkey : (l.app, l.asset) = k) :
    IdsInvS (Store.del ls id) (Store.put lk k { deposited := d, ids := e.ids.erase id }) := by
  intro k' e0 he0
  rw [Store.get_put] at he0
  by_cases hk : k = k'
  · subst hk
    simp at he0; subst he0
    obtain ⟨hnd, hmem⟩ := h k e he
    refine ⟨hnd.erase id, ?_⟩
    intro id' hid'
    rw [hnd.mem_erase_iff] at hid'
    obtain ⟨l0, hl0, hk0⟩ := hmem id' hid'.2
    exact ⟨l0, by rw [Store.get_del_ne _ _ _ (fun e1 => hid'.1 e1.symm)]; exact hl0, hk0⟩
  · simp [hk] at he0
    obtain ⟨hnd, hmem⟩ := h k' e0 he0
    refine ⟨hnd, ?_⟩
    intro id' hid'
    obtain ⟨l0, hl0, hk0⟩ := hmem id' hid'
    have hne : id ≠ id' := by
      intro e1; subst e1
      rw [hl] at hl0; cases hl0
      exact hk (hkey.symm.trans hk0)
    exact ⟨l0, by rw [Store.get_del_ne _ _ _ hne]; exact hl0, hk0⟩

/-! ## invariants -/

/-- collector books: no record is negative; per asset the records sum to at most the custody balance plus `D`, the
shortfall caused so far by the defective second-generation auction closes (`D = 0` without them). -/
structure CInvD (D : Nat → Int) (s : State) : Prop where
  nonneg : ∀ p ∈ s.fees, 0 ≤ p.2
  custody : ∀ a, feeAsset a s.fees ≤ bal s .collector a + D a

variable {D : Nat → Int}

structure LInv (s : State) : Prop where
  idsLe : ∀ p ∈ s.lockers, p.1 ≤ s.lastId
  netNonneg : ∀ p ∈ s.lockers, 0 ≤ p.2.net
  depEq : ∀ k, dep s k = lockSum k s.lockers
  custody : ∀ a, depAsset a s.lookup ≤ bal s .locker a
  ids : IdsInvS s.lockers s.lookup
  depNonneg : ∀ p ∈ s.lookup, 0 ≤ p.2.deposited

theorem net_le_lockSum {s : State} (hL : LInv s) {id : Nat} {l : Locker} (hl : Store.get s.lockers id = some l) :
    l.net ≤ lockSum (l.app, l.asset) s.lockers := by
  have h := (Store.at0_le_sumBy (fun (_ : Nat) (l' : Locker) => if (l'.app, l'.asset) = (l.app, l.asset) then l'.net else 0)
    s.lockers id (by intro p hp; have := hL.netNonneg p hp; split <;> omega)).1
  rw [Store.at0_some _ hl] at h
  simpa [lockSum] using h

theorem dep_of_get {s : State} {k : Nat × Nat} {e : Lk} (h : Store.get s.lookup k = some e) : dep s k = e.deposited := by
  simp [dep, h]

theorem lookup_nonneg_put {lk : Store (Nat × Nat) Lk} {k : Nat × Nat} {e : Lk}
    (h : ∀ p ∈ lk, 0 ≤ p.2.deposited) (he : 0 ≤ e.deposited) : ∀ p ∈ Store.put lk k e, 0 ≤ p.2.deposited := by
  intro p hp
  rcases Store.mem_put hp with e1 | e1
  · subst e1; exact he
  · exact h p e1

def Rw.ok : Rw → Prop
  | .pay ρ => 0 ≤ ρ
  | _ => True

/-- what a reward calculation pays -/
def Rw.amount : Rw → Int
  | .pay ρ => ρ
  | _ => 0

/-- the recorded net fees of every asset moved by exactly what the collector's custody balance moved. -/
def Delta (s s' : State) : Prop :=
  ∀ a, feeAsset a s'.fees - bal s' .collector a = feeAsset a s.fees - bal s .collector a

theorem Delta.refl (s : State) : Delta s s := fun _ => rfl
theorem Delta.trans {s s1 s2 : State} (h1 : Delta s s1) (h2 : Delta s1 s2) : Delta s s2 :=
  fun a => (h2 a).trans (h1 a)
theorem Delta.of_eq {s s' : State} (hf : s'.fees = s.fees) (hb : ∀ d, s'.bank.bal .collector d = s.bank.bal .collector d) :
    Delta s s' := by
  intro a; unfold bal; rw [hf, hb]

theorem fee_nonneg {s : State} (h : CInvD D s) (k : Nat × Nat) : 0 ≤ fee s k := by
  unfold fee
  cases hg : Store.get s.fees k with
  | none => simp
  | some v => simpa using h.nonneg _ (Store.mem_of_get hg)

/-! ## the reward pay branch -/

theorem payReward_spec {s s' : State} {id app asset : Nat} {ρ : Int} (hρ : 0 ≤ ρ)
    (h : payReward s id app asset ρ = some s') :
    ∃ lk l, Store.get s.lookup (app, asset) = some lk ∧ Store.get s.lockers id = some l ∧
      ρ ≤ fee s (app, l.asset) ∧
      (∀ a d, s'.bank.bal a d = s.bank.bal a d - (if (Acct.collector, asset) = (a, d) then ρ else 0)
                                  + (if (Acct.locker, asset) = (a, d) then ρ else 0)) ∧
      s'.fees = Store.put s.fees (app, l.asset) (fee s (app, l.asset) - ρ) ∧
      s'.lockers = Store.put s.lockers id { l with net := l.net + ρ, ret := l.ret + ρ } ∧
      s'.lookup = Store.put s.lookup (app, asset) { lk with deposited := lk.deposited + ρ } ∧
      s'.lastId = s.lastId ∧ s'.assets = s.assets ∧ s'.apps = s.apps ∧ s'.collk = s.collk := by
  unfold payReward at h
  split at h
  · rename_i lk l hlk hl
    cases hd : decNetFee s (app, l.asset) ρ with
    | none => simp [hd] at h
    | some s1 =>
      obtain ⟨_, hle, hs1⟩ := decNetFee_spec hd
      simp only [hd] at h
      by_cases hpos : ρ > 0
      · simp only [hpos, if_true] at h
        cases hsend : Bank.send s1.bank .collector .locker asset ρ with
        | none => simp [hsend] at h
        | some b =>
          simp only [hsend] at h
          simp at h; subst h
          obtain ⟨_, _, hb⟩ := Bank.send_spec hsend
          subst hs1
          exact ⟨lk, l, hlk, hl, hle, hb, rfl, rfl, rfl, rfl, rfl, rfl, rfl⟩
      · have h0 : ρ = 0 := by omega
        simp only [hpos, if_false] at h
        simp at h; subst h
        subst hs1
        refine ⟨lk, l, hlk, hl, hle, ?_, rfl, rfl, rfl, rfl, rfl, rfl, rfl⟩
        intro a d; subst h0; simp
  · simp at h


theorem acct_ne_simp1 (a : Nat) (b : Nat) : ((Acct.collector, a) = (Acct.locker, b)) = False := by simp
theorem acct_ne_simp2 (a : Nat) (b : Nat) : ((Acct.locker, a) = (Acct.collector, b)) = False := by simp

theorem payReward_inv {s s' : State} {id app asset : Nat} {ρ : Int} (hL : LInv s) (hC : CInvD D s) (hρ : 0 ≤ ρ)
    {l : Locker} (hl : Store.get s.lockers id = some l) (happ : l.app = app) (hasset : l.asset = asset)
    (h : payReward s id app asset ρ = some s') :
    LInv s' ∧ CInvD D s' ∧
    Store.get s'.lockers id = some { l with net := l.net + ρ, ret := l.ret + ρ } ∧
    (∀ k, (Store.get s'.lookup k).isSome = (Store.get s.lookup k).isSome) ∧
    (∀ u d, bal s' (.user u) d = bal s (.user u) d) ∧
    s'.lastId = s.lastId ∧ s'.assets = s.assets ∧ s'.apps = s.apps ∧ s'.collk = s.collk ∧ Delta s s' := by
  obtain ⟨lk, l0, hlk, hl0, hle, hb, hfees, hlockers, hlookup, hid, has, hap, hco⟩ := payReward_spec hρ h
  rw [hl] at hl0; cases hl0
  subst happ; subst hasset
  have hfee0 := fee_nonneg hC (l.app, l.asset)
  refine ⟨⟨?_, ?_, ?_, ?_, ?_, ?_⟩, ⟨?_, ?_⟩, ?_, ?_, ?_, hid, has, hap, hco, ?_⟩
  · -- idsLe
    intro p hp; rw [hlockers] at hp; rw [hid]
    rcases Store.mem_put hp with e | e
    · subst e; exact hL.idsLe (id, l) (Store.mem_of_get hl)
    · exact hL.idsLe _ e
  · intro p hp; rw [hlockers] at hp
    rcases Store.mem_put hp with e | e
    · subst e; have := hL.netNonneg (id, l) (Store.mem_of_get hl); simp at this ⊢; omega
    · exact hL.netNonneg _ e
  · intro k
    have h0 := hL.depEq k
    rw [hlockers, lockSum_put_some k _ hl]
    unfold dep at h0 ⊢
    rw [hlookup, Store.get_put]
    by_cases hk : (l.app, l.asset) = k
    · subst hk; simp [hlk] at h0 ⊢; omega
    · simp [hk] at h0 ⊢; omega
  · intro a
    have h0 := hL.custody a
    unfold bal at h0 ⊢
    rw [hlookup, depAsset_put, hb, hlk]
    by_cases ha : l.asset = a
    · subst ha; simp; omega
    · simp [ha]; omega
  · rw [hlockers, hlookup]
    exact idsInvS_putLookup (idsInvS_putLocker hL.ids hl rfl) hlk rfl
  · rw [hlookup]
    exact lookup_nonneg_put hL.depNonneg (by have := hL.depNonneg _ (Store.mem_of_get hlk); simp at this ⊢; omega)
  · rw [hfees]; exact nonneg_put hC.nonneg (by omega)
  · intro a
    have h0 := hC.custody a
    unfold bal at h0 ⊢
    rw [hfees, feeAsset_put, hb]
    unfold fee
    by_cases ha : l.asset = a
    · subst ha; simp; omega
    · simp [ha]; omega
  · rw [hlockers, Store.get_put_self]
  · intro k; rw [hlookup, Store.get_put]
    by_cases hk : (l.app, l.asset) = k
    · subst hk; simp [hlk]
    · simp [hk]
  · intro u d; unfold bal; rw [hb]; simp
  · intro a
    unfold bal
    rw [hfees, feeAsset_put, hb]
    unfold fee
    by_cases ha : l.asset = a
    · subst ha; simp; omega
    · simp [ha]

theorem reward_inv {s s' : State} {id app asset : Nat} {rw : Rw} (hL : LInv s) (hC : CInvD D s) (hok : rw.ok)
    {l : Locker} (hl : Store.get s.lockers id = some l) (happ : l.app = app) (hasset : l.asset = asset)
    (h : reward s id app asset rw = some s') :
    LInv s' ∧ CInvD D s' ∧
    (∃ l', Store.get s'.lockers id = some l' ∧ l'.app = l.app ∧ l'.asset = l.asset ∧ l'.owner = l.owner ∧
      l.net ≤ l'.net ∧ l'.net = l.net + rw.amount) ∧
    (∀ k, (Store.get s'.lookup k).isSome = (Store.get s.lookup k).isSome) ∧
    (∀ u d, bal s' (.user u) d = bal s (.user u) d) ∧
    s'.lastId = s.lastId ∧ s'.assets = s.assets ∧ s'.apps = s.apps ∧ s'.collk = s.collk ∧ Delta s s' := by
  cases rw with
  | none =>
    simp [reward] at h; subst h
    exact ⟨hL, hC, ⟨l, hl, rfl, rfl, rfl, Int.le_refl _, by simp [Rw.amount]⟩, fun _ => rfl, fun _ _ => rfl, rfl, rfl, rfl, rfl,
      Delta.refl _⟩
  | fail => simp [reward] at h
  | pay ρ =>
    simp only [reward] at h
    have hρ : 0 ≤ ρ := hok
    obtain ⟨a, b, c, d, e, f1, f2, f3, f4, f5⟩ := payReward_inv hL hC hρ hl happ hasset h
    exact ⟨a, b, ⟨_, c, rfl, rfl, rfl, by simp; omega, by simp [Rw.amount]⟩, d, e, f1, f2, f3, f4, f5⟩


/-! ## locker-side ledger moves -/

theorem lockerGuards_spec {s : State} {u app asset id : Nat} {l : Locker} (h : lockerGuards s u app asset id = some l) :
    Store.get s.lockers id = some l ∧ l.asset = asset ∧ l.owner = u ∧ l.app = app ∧
      (Store.get s.lookup (app, asset)).isSome := by
  unfold lockerGuards at h
  split at h; · simp at h
  split at h; · simp at h
  split at h; · simp at h
  rename_i l0 hl0
  split at h; · simp at h
  split at h; · simp at h
  split at h; · simp at h
  split at h; · simp at h
  rename_i h1 h2 h3 h4
  simp at h; subst h
  refine ⟨hl0, by simpa using h1, by simpa using h2, by simpa using h3, ?_⟩
  cases hg : Store.get s.lookup (app, asset) <;> simp [hg] at h4 ⊢

theorem updAmount_some {s : State} {k : Nat × Nat} {e : Lk} (δ : Int) (h : Store.get s.lookup k = some e) :
    updAmount s k δ = { s with lookup := Store.put s.lookup k { e with deposited := e.deposited + δ } } := by
  simp [updAmount, h]

/-- deposit / withdraw shape: locker `id` (key `(app, asset)`) and the lookup total move by `δ`, and so does the custody balance. -/
theorem move_inv {s : State} {id app asset : Nat} {l : Locker} {e : Lk} {δ : Int} {b : Bank}
    (hL : LInv s) (hC : CInvD D s)
    (hl : Store.get s.lockers id = some l) (happ : l.app = app) (hasset : l.asset = asset)
    (he : Store.get s.lookup (app, asset) = some e)
    (hb : ∀ d, b.bal .locker d = s.bank.bal .locker d + (if asset = d then δ else 0))
    (hbc : ∀ d, b.bal .collector d = s.bank.bal .collector d)
    (hnn : 0 ≤ l.net + δ) :
    LInv { s with bank := b, lockers := Store.put s.lockers id { l with net := l.net + δ },
                          lookup := Store.put s.lookup (app, asset) { e with deposited := e.deposited + δ } } ∧
    CInvD D { s with bank := b, lockers := Store.put s.lockers id { l with net := l.net + δ },
                          lookup := Store.put s.lookup (app, asset) { e with deposited := e.deposited + δ } } ∧
    Delta s ({ s with bank := b, lockers := Store.put s.lockers id { l with net := l.net + δ },
                         lookup := Store.put s.lookup (app, asset) { e with deposited := e.deposited + δ } } : State) := by
  subst happ; subst hasset
  have hdep : l.net ≤ e.deposited := by
    have h1 := net_le_lockSum hL hl
    rw [← hL.depEq, dep_of_get he] at h1; exact h1
  refine ⟨⟨?_, ?_, ?_, ?_, idsInvS_putLookup (idsInvS_putLocker hL.ids hl rfl) he rfl,
    lookup_nonneg_put hL.depNonneg (by simp; omega)⟩, ⟨hC.nonneg, ?_⟩, Delta.of_eq rfl hbc⟩
  · intro p hp
    rcases Store.mem_put hp with e1 | e1
    · subst e1; exact hL.idsLe (id, l) (Store.mem_of_get hl)
    · exact hL.idsLe _ e1
  · intro p hp
    rcases Store.mem_put hp with e1 | e1
    · subst e1; simpa using hnn
    · exact hL.netNonneg _ e1
  · intro k
    have h0 := hL.depEq k
    show dep _ k = lockSum k (Store.put s.lockers id _)
    rw [lockSum_put_some k _ hl]
    unfold dep at h0 ⊢
    simp only [Store.get_put]
    by_cases hk : (l.app, l.asset) = k
    · subst hk; simp [he] at h0 ⊢; omega
    · simp [hk] at h0 ⊢; omega
  · intro a
    have h0 := hL.custody a
    unfold bal at h0 ⊢
    show depAsset a (Store.put s.lookup _ _) ≤ b.bal .locker a
    rw [depAsset_put, hb, he]
    by_cases ha : l.asset = a
    · subst ha; simp; omega
    · simp [ha]; omega
  · intro a
    have h0 := hC.custody a
    unfold bal at h0 ⊢
    show feeAsset a s.fees ≤ b.bal .collector a + D a
    rw [hbc]; exact h0

/-- close shape: the locker record disappears, the lookup total and the custody balance drop by its net balance,
the id leaves the id list. -/
theorem closeMove_inv {s : State} {id app asset : Nat} {l : Locker} {e : Lk} {b : Bank}
    (hL : LInv s) (hC : CInvD D s)
    (hl : Store.get s.lockers id = some l) (happ : l.app = app) (hasset : l.asset = asset)
    (he : Store.get s.lookup (app, asset) = some e)
    (hb : ∀ d, b.bal .locker d = s.bank.bal .locker d - (if asset = d then l.net else 0))
    (hbc : ∀ d, b.bal .collector d = s.bank.bal .collector d) :
    LInv { s with bank := b, lockers := Store.del s.lockers id,
                          lookup := Store.put s.lookup (app, asset) { deposited := e.deposited + -l.net, ids := e.ids.erase id } } ∧
    CInvD D { s with bank := b, lockers := Store.del s.lockers id,
                          lookup := Store.put s.lookup (app, asset) { deposited := e.deposited + -l.net, ids := e.ids.erase id } } ∧
    Delta s ({ s with bank := b, lockers := Store.del s.lockers id,
                         lookup := Store.put s.lookup (app, asset) { deposited := e.deposited + -l.net, ids := e.ids.erase id } } : State) := by
  subst happ; subst hasset
  have hdep : l.net ≤ e.deposited := by
    have h1 := net_le_lockSum hL hl
    rw [← hL.depEq, dep_of_get he] at h1; exact h1
  refine ⟨⟨?_, ?_, ?_, ?_, idsInvS_close hL.ids he hl rfl, lookup_nonneg_put hL.depNonneg (by simp; omega)⟩,
    ⟨hC.nonneg, ?_⟩, Delta.of_eq rfl hbc⟩
  · intro p hp; exact hL.idsLe _ (Store.mem_del hp)
  · intro p hp; exact hL.netNonneg _ (Store.mem_del hp)
  · intro k
    have h0 := hL.depEq k
    show dep _ k = lockSum k (Store.del s.lockers id)
    rw [lockSum_del_some k hl]
    unfold dep at h0 ⊢
    simp only [Store.get_put]
    by_cases hk : (l.app, l.asset) = k
    · subst hk; simp [he] at h0 ⊢; omega
    · simp [hk] at h0 ⊢; omega
  · intro a
    have h0 := hL.custody a
    unfold bal at h0 ⊢
    show depAsset a (Store.put s.lookup _ _) ≤ b.bal .locker a
    rw [depAsset_put, hb, he]
    by_cases ha : l.asset = a
    · subst ha; simp; omega
    · simp [ha]; omega
  · intro a
    have h0 := hC.custody a
    unfold bal at h0 ⊢
    show feeAsset a s.fees ≤ b.bal .collector a + D a
    rw [hbc]; exact h0

/-! ## per-operation preservation: locker side -/

theorem isSome_get {K V : Type} [DecidableEq K] {s : Store K V} {k : K} (h : (Store.get s k).isSome) :
    ∃ v, Store.get s k = some v := by
  cases hg : Store.get s k with
  | none => simp [hg] at h
  | some v => exact ⟨v, rfl⟩

theorem fund_inv {s s' : State} {u asset : Nat} {x : Int} (hL : LInv s) (hC : CInvD D s)
    (h : step s (.fund u asset x) = some s') : LInv s' ∧ CInvD D s' ∧ Delta s s' := by
  simp only [step] at h
  cases hm : Bank.mint s.bank (.user u) asset x with
  | none => simp [hm] at h
  | some b =>
    simp [hm] at h; subst h
    obtain ⟨_, hb⟩ := Bank.mint_spec hm
    refine ⟨⟨hL.idsLe, hL.netNonneg, hL.depEq, ?_, hL.ids, hL.depNonneg⟩, ⟨hC.nonneg, ?_⟩, Delta.of_eq rfl ?_⟩
    · intro a; have := hL.custody a; unfold bal at this ⊢; show _ ≤ b.bal _ _; rw [hb]; simpa using this
    · intro a; have := hC.custody a; unfold bal at this ⊢; show _ ≤ b.bal _ _ + _; rw [hb]; simpa using this
    · intro d; show b.bal _ _ = _; rw [hb]; simp

theorem whitelist_inv {s s' : State} {app asset : Nat} (hL : LInv s) (hC : CInvD D s)
    (h : step s (.whitelist app asset) = some s') : LInv s' ∧ CInvD D s' ∧ Delta s s' := by
  simp only [step] at h
  split at h; · simp at h
  split at h; · simp at h
  split at h; · simp at h
  split at h; · simp at h
  split at h; · simp at h
  rename_i hnone
  simp at h; subst h
  refine ⟨⟨hL.idsLe, hL.netNonneg, ?_, ?_, idsInvS_putLookupNil hL.ids,
    lookup_nonneg_put hL.depNonneg (Int.le_refl 0)⟩, ⟨hC.nonneg, hC.custody⟩, Delta.refl _⟩
  · intro k
    have h0 := hL.depEq k
    have h1 := hL.depEq (app, asset)
    unfold dep at h0 h1 ⊢
    simp only [Store.get_put]
    by_cases hk : (app, asset) = k
    · subst hk; simp [hnone] at h1 ⊢; exact h1
    · simp [hk] at h0 ⊢; exact h0
  · intro a
    have h0 := hL.custody a
    unfold bal at h0 ⊢
    show depAsset a (Store.put s.lookup _ _) ≤ _
    rw [depAsset_put, hnone]
    by_cases ha : asset = a <;> simp [ha] <;> omega

theorem create_inv {s s' : State} {u app asset : Nat} {amt : Int} (hL : LInv s) (hC : CInvD D s)
    (h : step s (.create u app asset amt) = some s') : LInv s' ∧ CInvD D s' ∧ Delta s s' := by
  simp only [step] at h
  split at h; · simp at h
  rename_i hamt
  split at h; · simp at h
  split at h; · simp at h
  split at h; · simp at h
  split at h; · simp at h
  split at h; · simp at h
  split at h; · simp at h
  split at h; · simp at h
  rename_i lk hlk
  split at h; · simp at h
  rename_i b hsend
  simp at h; subst h
  obtain ⟨_, _, hb⟩ := Bank.send_spec hsend
  have hfresh : Store.get s.lockers (s.lastId + 1) = none := by
    apply Store.get_of_mem_none
    intro p hp; have := hL.idsLe p hp; omega
  refine ⟨⟨?_, ?_, ?_, ?_, idsInvS_create hL.ids hlk hfresh rfl,
    lookup_nonneg_put hL.depNonneg (by have := hL.depNonneg _ (Store.mem_of_get hlk); simp at this ⊢; omega)⟩,
    ⟨hC.nonneg, ?_⟩, Delta.of_eq rfl (by intro d; show b.bal _ _ = _; rw [hb]; simp)⟩
  · intro p hp
    rcases Store.mem_put hp with e | e
    · subst e; exact Nat.le_refl _
    · have := hL.idsLe p e; show p.1 ≤ s.lastId + 1; omega
  · intro p hp
    rcases Store.mem_put hp with e | e
    · subst e; show 0 ≤ amt; omega
    · exact hL.netNonneg _ e
  · intro k
    have h0 := hL.depEq k
    show dep _ k = lockSum k (Store.put s.lockers _ _)
    rw [lockSum_put_none k _ hfresh]
    unfold dep at h0 ⊢
    simp only [Store.get_put]
    by_cases hk : (app, asset) = k
    · subst hk; simp [hlk] at h0 ⊢; omega
    · simp [hk] at h0 ⊢; omega
  · intro a
    have h0 := hL.custody a
    unfold bal at h0 ⊢
    show depAsset a (Store.put s.lookup _ _) ≤ b.bal .locker a
    rw [depAsset_put, hb, hlk]
    by_cases ha : asset = a
    · subst ha; simp; omega
    · simp [ha]; omega
  · intro a
    have h0 := hC.custody a
    unfold bal at h0 ⊢
    show feeAsset a s.fees ≤ b.bal .collector a + D a
    rw [hb]; simpa using h0

theorem deposit_inv {s s' : State} {u app asset id : Nat} {amt : Int} {rw : Rw} (hL : LInv s) (hC : CInvD D s) (hok : rw.ok)
    (h : step s (.deposit u app asset id amt rw) = some s') : LInv s' ∧ CInvD D s' ∧ Delta s s' := by
  simp only [step] at h
  split at h; · simp at h
  rename_i hvb
  split at h; · simp at h
  split at h; · simp at h
  split at h; · simp at h
  rename_i l hg
  obtain ⟨hl, hasset, _, happ, hlk⟩ := lockerGuards_spec hg
  split at h; · simp at h
  rename_i s1 hrw
  obtain ⟨hL1, hC1, ⟨l1, hl1, happ1, hasset1, _, _⟩, hlkp, _, _, _, _, _, hD1⟩ := reward_inv hL hC hok hl happ hasset hrw
  split at h; · simp at h
  rename_i l1' hl1'
  rw [hl1] at hl1'; cases hl1'
  split at h; · simp at h
  rename_i b hsend
  simp at h; subst h
  obtain ⟨hx, _, hb⟩ := Bank.send_spec hsend
  have hlk1 : (Store.get s1.lookup (app, asset)).isSome := by rw [hlkp]; exact hlk
  obtain ⟨e, he⟩ := isSome_get hlk1
  have hnet := hL1.netNonneg (id, l1) (Store.mem_of_get hl1)
  rw [updAmount_some amt (by exact he)]
  have := move_inv hL1 hC1 hl1 (happ1.trans happ) (hasset1.trans hasset) he (b := b) (δ := amt)
    (by intro d; rw [hb]; by_cases hd : asset = d <;> simp [hd])
    (by intro d; rw [hb]; simp)
    (by simp at hnet; omega)
  exact ⟨this.1, this.2.1, hD1.trans this.2.2⟩

theorem withdraw_inv {s s' : State} {u app asset id : Nat} {amt : Int} {rw : Rw} (hL : LInv s) (hC : CInvD D s) (hok : rw.ok)
    (h : step s (.withdraw u app asset id amt rw) = some s') : LInv s' ∧ CInvD D s' ∧ Delta s s' := by
  simp only [step] at h
  split at h; · simp at h
  rename_i hvb
  split at h; · simp at h
  rename_i l hg
  obtain ⟨hl, hasset, _, happ, hlk⟩ := lockerGuards_spec hg
  split at h; · simp at h
  rename_i hnet0
  split at h; · simp at h
  rename_i s1 hrw
  obtain ⟨hL1, hC1, ⟨l1, hl1, happ1, hasset1, _, hge, _⟩, hlkp, _, _, _, _, _, hD1⟩ := reward_inv hL hC hok hl happ hasset hrw
  split at h; · simp at h
  rename_i l1' hl1'
  rw [hl1] at hl1'; cases hl1'
  split at h; · simp at h
  rename_i b hsend
  simp at h; subst h
  obtain ⟨hx, _, hb⟩ := Bank.send_spec hsend
  have hlk1 : (Store.get s1.lookup (app, asset)).isSome := by rw [hlkp]; exact hlk
  obtain ⟨e, he⟩ := isSome_get hlk1
  rw [updAmount_some (-amt) (by exact he)]
  have := move_inv (δ := -amt) hL1 hC1 hl1 (happ1.trans happ) (hasset1.trans hasset) he (b := b)
    (by intro d; rw [hb]; by_cases hd : asset = d <;> simp [hd]; omega)
    (by intro d; rw [hb]; simp)
    (by omega)
  refine ⟨?_, ?_, hD1.trans ?_⟩
  · simpa [Int.sub_eq_add_neg] using this.1
  · simpa [Int.sub_eq_add_neg] using this.2.1
  · exact Delta.of_eq rfl (by intro d; show b.bal _ _ = _; rw [hb]; simp)


theorem close_inv {s s' : State} {u app asset id : Nat} {rw : Rw} (hL : LInv s) (hC : CInvD D s) (hok : rw.ok)
    (h : step s (.close u app asset id rw) = some s') : LInv s' ∧ CInvD D s' ∧ Delta s s' := by
  simp only [step] at h
  split at h; · simp at h
  split at h; · simp at h
  rename_i l hg
  obtain ⟨hl, hasset, _, happ, hlk⟩ := lockerGuards_spec hg
  split at h; · simp at h
  rename_i s1 hrw
  obtain ⟨hL1, hC1, ⟨l1, hl1, happ1, hasset1, _, _⟩, hlkp, _, _, _, _, _, hD1⟩ := reward_inv hL hC hok hl happ hasset hrw
  split at h; · simp at h
  rename_i l1' hl1'
  rw [hl1] at hl1'; cases hl1'
  have hlk1 : (Store.get s1.lookup (app, asset)).isSome := by rw [hlkp]; exact hlk
  obtain ⟨e, he⟩ := isSome_get hlk1
  have hnet := hL1.netNonneg (id, l1) (Store.mem_of_get hl1)
  simp only at hnet
  split at h; · simp at h
  rename_i b hbank
  -- the balance effect of the optional send
  have hb : ∀ a d, b.bal a d = s1.bank.bal a d - (if (Acct.locker, asset) = (a, d) then l1.net else 0)
                                + (if (Acct.user u, asset) = (a, d) then l1.net else 0) := by
    by_cases hpos : l1.net > 0
    · simp only [hpos, if_true] at hbank
      exact (Bank.send_spec hbank).2.2
    · simp only [hpos, if_false] at hbank
      simp at hbank; subst hbank
      have h0 : l1.net = 0 := by omega
      intro a d; simp [h0]
  simp only [updAmount_some (-l1.net) (show Store.get ({ s1 with bank := b } : State).lookup (app, asset) = some e from he),
    Store.get_put_self, Store.put_put] at h
  simp at h; subst h
  have := closeMove_inv (b := b) hL1 hC1 hl1 (happ1.trans happ) (hasset1.trans hasset) he
    (by intro d; rw [hb]; by_cases hd : asset = d <;> simp [hd])
    (by intro d; rw [hb]; simp)
  exact ⟨this.1, this.2.1, hD1.trans this.2.2⟩

theorem rewardCalc_inv {s s' : State} {app id : Nat} {rw : Rw} (hL : LInv s) (hC : CInvD D s) (hok : rw.ok)
    (h : step s (.rewardCalc app id rw) = some s') : LInv s' ∧ CInvD D s' ∧ Delta s s' := by
  simp only [step] at h
  split at h; · simp at h
  split at h; · simp at h
  split at h; · simp at h
  rename_i l hl
  split at h; · simp at h
  rename_i happ
  obtain ⟨hL1, hC1, _, _, _, _, _, _, _, hD1⟩ := reward_inv hL hC hok hl (by simpa using happ) rfl h
  exact ⟨hL1, hC1, hD1⟩


/-! ## per-operation preservation: collector side -/

/-- collector shape: one net-fee record moves by `δ`, the custody balance of that asset by `β ≥ δ`; the locker side is untouched. -/
theorem cmove_inv {s s' : State} (hL : LInv s) (hC : CInvD D s) {k : Nat × Nat} {δ β : Int}
    (hfees : s'.fees = Store.put s.fees k (fee s k + δ)) (hnn : 0 ≤ fee s k + δ)
    (hbal : ∀ d, s'.bank.bal .collector d = s.bank.bal .collector d + (if k.2 = d then β else 0))
    (hbl : ∀ d, s'.bank.bal .locker d = s.bank.bal .locker d)
    (hle : δ ≤ β) (hlockers : s'.lockers = s.lockers) (hlookup : s'.lookup = s.lookup) (hid : s'.lastId = s.lastId) :
    LInv s' ∧ CInvD D s' ∧ (δ = β → Delta s s') := by
  refine ⟨⟨?_, ?_, ?_, ?_, ?_, ?_⟩, ⟨?_, ?_⟩, ?_⟩
  · rw [hlockers, hid]; exact hL.idsLe
  · rw [hlockers]; exact hL.netNonneg
  · intro k'; have := hL.depEq k'; unfold dep at this ⊢; rw [hlockers, hlookup]; exact this
  · intro a; have := hL.custody a; unfold bal at this ⊢; rw [hlookup, hbl]; exact this
  · rw [hlockers, hlookup]; exact hL.ids
  · rw [hlookup]; exact hL.depNonneg
  · rw [hfees]; exact nonneg_put hC.nonneg hnn
  · intro a
    have h0 := hC.custody a
    unfold bal at h0 ⊢
    rw [hfees, feeAsset_put, hbal]
    unfold fee
    by_cases ha : k.2 = a
    · simp [ha]; omega
    · simp [ha]; omega
  · intro hδ a
    unfold bal
    rw [hfees, feeAsset_put, hbal]
    unfold fee
    by_cases ha : k.2 = a
    · simp [ha]; omega
    · simp [ha]

/-- exact form: the record and the custody balance move by the same amount. -/
theorem cmove_exact {s s' : State} (hL : LInv s) (hC : CInvD D s) {k : Nat × Nat} {δ : Int}
    (hfees : s'.fees = Store.put s.fees k (fee s k + δ)) (hnn : 0 ≤ fee s k + δ)
    (hbal : ∀ d, s'.bank.bal .collector d = s.bank.bal .collector d + (if k.2 = d then δ else 0))
    (hbl : ∀ d, s'.bank.bal .locker d = s.bank.bal .locker d)
    (hlockers : s'.lockers = s.lockers) (hlookup : s'.lookup = s.lookup) (hid : s'.lastId = s.lastId) :
    LInv s' ∧ CInvD D s' ∧ Delta s s' := by
  obtain ⟨a, b, c⟩ := cmove_inv hL hC hfees hnn hbal hbl (Int.le_refl _) hlockers hlookup hid
  exact ⟨a, b, c rfl⟩

theorem fee_congr {s s1 : State} (h : s1.fees = s.fees) (k : Nat × Nat) : fee s1 k = fee s k := by
  unfold fee; rw [h]

theorem feeVault_inv {s s' : State} {app asset : Nat} {x : Int} (hL : LInv s) (hC : CInvD D s)
    (h : step s (.feeVault app asset x) = some s') : LInv s' ∧ CInvD D s' ∧ Delta s s' := by
  simp only [step] at h
  split at h
  · cases hc : creditCollector s asset x with
    | none => simp [hc] at h
    | some s1 =>
      simp [hc, updateCollector] at h
      obtain ⟨_, hset⟩ := h
      obtain ⟨hx, hb, hf, hlo, hlk, hid, _⟩ := creditCollector_spec hc
      obtain ⟨_, hs'⟩ := setNetFee_spec hset
      have hf0 := fee_nonneg hC (app, asset)
      apply cmove_exact hL hC (k := (app, asset)) (δ := x)
      · rw [hs']; simp [hf, fee_congr hf]
      · omega
      · intro d; rw [hs']; simp only; rw [hb]
        by_cases hd : asset = d <;> simp [hd]
      · intro d; rw [hs']; simp only; rw [hb]; simp
      · rw [hs']; exact hlo
      · rw [hs']; exact hlk
      · rw [hs']; exact hid
  · simp at h; subst h; exact ⟨hL, hC, Delta.refl _⟩

theorem penalty_inv {s s' : State} {app asset : Nat} {x : Int} (hL : LInv s) (hC : CInvD D s)
    (h : step s (.penalty app asset x) = some s') : LInv s' ∧ CInvD D s' ∧ Delta s s' := by
  simp only [step] at h
  have hf0 := fee_nonneg hC (app, asset)
  by_cases hpos : x > 0
  · simp only [hpos, if_true] at h
    cases hc : creditCollector s asset x with
    | none => simp [hc] at h
    | some s1 =>
      simp [hc] at h
      obtain ⟨hx, hb, hf, hlo, hlk, hid, _⟩ := creditCollector_spec hc
      obtain ⟨_, hs'⟩ := setNetFee_spec h
      apply cmove_exact hL hC (k := (app, asset)) (δ := x)
      · rw [hs']; simp [hf, fee_congr hf]
      · omega
      · intro d; rw [hs']; simp only; rw [hb]
        by_cases hd : asset = d <;> simp [hd]
      · intro d; rw [hs']; simp only; rw [hb]; simp
      · rw [hs']; exact hlo
      · rw [hs']; exact hlk
      · rw [hs']; exact hid
  · simp only [hpos, if_false] at h
    simp at h
    obtain ⟨hx, hs'⟩ := setNetFee_spec h
    have hx0 : x = 0 := by omega
    apply cmove_exact hL hC (k := (app, asset)) (δ := x)
    · rw [hs']
    · omega
    · intro d; rw [hs']; simp [hx0]
    · intro d; rw [hs']
    · rw [hs']
    · rw [hs']
    · rw [hs']

theorem auctionReturn_inv {s s' : State} {app asset : Nat} {x : Int} (hL : LInv s) (hC : CInvD D s)
    (h : step s (.auctionReturn app asset x) = some s') : LInv s' ∧ CInvD D s' ∧ Delta s s' := by
  simp only [step] at h
  have hf0 := fee_nonneg hC (app, asset)
  cases hc : creditCollector s asset x with
  | none => simp [hc] at h
  | some s1 =>
    simp [hc] at h
    obtain ⟨hx, hb, hf, hlo, hlk, hid, _⟩ := creditCollector_spec hc
    obtain ⟨_, hs'⟩ := setNetFee_spec h
    apply cmove_exact hL hC (k := (app, asset)) (δ := x)
    · rw [hs']; simp [hf, fee_congr hf]
    · omega
    · intro d; rw [hs']; simp only; rw [hb]
      by_cases hd : asset = d <;> simp [hd]
    · intro d; rw [hs']; simp only; rw [hb]; simp
    · rw [hs']; exact hlo
    · rw [hs']; exact hlk
    · rw [hs']; exact hid

/-- `DecreaseNetFeeCollectedData` on its own only lowers the record (no `Delta`: the caller moves the coins). -/
theorem decreaseNetFee_inv {s s' : State} {app asset : Nat} {x : Int} (hL : LInv s) (hC : CInvD D s) (hx : 0 ≤ x)
    (h : step s (.decreaseNetFee app asset x) = some s') : LInv s' ∧ CInvD D s' := by
  simp only [step] at h
  obtain ⟨_, hle, hs'⟩ := decNetFee_spec h
  have := cmove_inv hL hC (s' := s') (k := (app, asset)) (δ := -x) (β := 0)
    (by rw [hs']; simp [Int.sub_eq_add_neg]) (by omega) (by intro d; rw [hs']; simp) (by intro d; rw [hs'])
    (by omega) (by rw [hs']) (by rw [hs']) (by rw [hs'])
  exact ⟨this.1, this.2.1⟩

theorem getAmount_core_inv {s s' : State} {k : Nat × Nat} {x : Int} (hL : LInv s) (hC : CInvD D s)
    (h : getAmount s k x = some s') : LInv s' ∧ CInvD D s' ∧ Delta s s' := by
  unfold getAmount at h
  split at h; · simp at h
  split at h; · simp at h
  split at h; · simp at h
  split at h; · simp at h
  rename_i b hsend
  obtain ⟨hx, _, hb⟩ := Bank.send_spec hsend
  obtain ⟨_, hle, hs'⟩ := decNetFee_spec h
  apply cmove_exact hL hC (k := k) (δ := -x)
  · rw [hs']; simp [Int.sub_eq_add_neg]; rfl
  · have : fee { s with bank := b } k = fee s k := rfl
    omega
  · intro d; rw [hs']; simp only; rw [hb]
    by_cases hd : k.2 = d <;> simp [hd]; omega
  · intro d; rw [hs']; simp only; rw [hb]; simp
  · rw [hs']
  · rw [hs']
  · rw [hs']

theorem surplusFund_inv {s s' : State} {app asset u : Nat} {x : Int} (hL : LInv s) (hC : CInvD D s)
    (h : step s (.surplusFund app asset u x) = some s') : LInv s' ∧ CInvD D s' ∧ Delta s s' := by
  simp only [step] at h
  split at h; · simp at h
  rename_i b hsend
  obtain ⟨hx, _, hb⟩ := Bank.send_spec hsend
  obtain ⟨_, hle, hs'⟩ := decNetFee_spec h
  apply cmove_exact hL hC (k := (app, asset)) (δ := -x)
  · rw [hs']; simp [Int.sub_eq_add_neg]; rfl
  · have : fee { s with bank := b } (app, asset) = fee s (app, asset) := rfl
    omega
  · intro d; rw [hs']; simp only; rw [hb]
    by_cases hd : asset = d <;> simp [hd]; omega
  · intro d; rw [hs']; simp only; rw [hb]; simp
  · rw [hs']
  · rw [hs']
  · rw [hs']

theorem creditIf_spec {s s' : State} {d : Nat} {x : Int}
    (h : (if x > 0 then creditCollector s d x else some s) = some s') :
    (∀ a d', s'.bank.bal a d' = s.bank.bal a d' + (if (Acct.collector, d) = (a, d') then (if x > 0 then x else 0) else 0)) ∧
    s'.fees = s.fees ∧ s'.lockers = s.lockers ∧ s'.lookup = s.lookup ∧ s'.lastId = s.lastId := by
  by_cases hpos : x > 0
  · simp only [hpos, if_true] at h ⊢
    obtain ⟨_, hb, hf, hlo, hlk, hid, _⟩ := creditCollector_spec h
    exact ⟨hb, hf, hlo, hlk, hid⟩
  · simp only [hpos, if_false] at h ⊢
    simp at h; subst h
    exact ⟨by intro a d'; simp, rfl, rfl, rfl, rfl⟩

/-- vault close: the sum is recorded first, then each positive part is transferred. Exact when both parts are non-negative
(they are accumulated interest and closing fee). -/
theorem feeClose_inv {s s' : State} {app asset : Nat} {i c : Int} (hL : LInv s) (hC : CInvD D s)
    (h : step s (.feeClose app asset i c) = some s') :
    LInv s' ∧ CInvD D s' ∧ (0 ≤ i → 0 ≤ c → Delta s s') := by
  simp only [step] at h
  have hf0 := fee_nonneg hC (app, asset)
  cases hu : updateCollector s (app, asset) (i + c) with
  | none => simp [hu] at h
  | some s1 =>
    simp only [hu, Option.bind_some] at h
    unfold updateCollector at hu
    split at hu; · simp at hu
    obtain ⟨hx, hs1⟩ := setNetFee_spec hu
    cases h2 : (if i > 0 then creditCollector s1 asset i else some s1) with
    | none => simp [h2] at h
    | some s2 =>
      simp only [h2, Option.bind_some] at h
      obtain ⟨hb2, hf2, hlo2, hlk2, hid2⟩ := creditIf_spec h2
      obtain ⟨hb3, hf3, hlo3, hlk3, hid3⟩ := creditIf_spec h
      have := cmove_inv hL hC (s' := s') (k := (app, asset)) (δ := i + c)
        (β := (if i > 0 then i else 0) + (if c > 0 then c else 0))
        (by rw [hf3, hf2, hs1]) (by omega)
        (by intro d; rw [hb3, hb2, hs1]
            by_cases hd : asset = d
            · simp [hd]; omega
            · simp [hd])
        (by intro d; rw [hb3, hb2, hs1]; simp)
        (by split <;> split <;> omega)
        (by rw [hlo3, hlo2, hs1]) (by rw [hlk3, hlk2, hs1]) (by rw [hid3, hid2, hs1])
      refine ⟨this.1, this.2.1, fun hi hc => this.2.2 ?_⟩
      split <;> split <;> omega

/-! ## saving-rate change: `LockerIterateRewards` -/

def HasKey (s : State) (app asset id : Nat) : Prop :=
  ∃ l, Store.get s.lockers id = some l ∧ l.app = app ∧ l.asset = asset

theorem fee_le_feeAsset {s : State} (hC : CInvD D s) (k : Nat × Nat) : fee s k ≤ feeAsset k.2 s.fees := by
  have h := (Store.at0_le_sumBy (fun (k' : Nat × Nat) (v : Int) => if k'.2 = k.2 then v else 0) s.fees k
    (by intro p hp; have := hC.nonneg p hp; by_cases hq : p.1.2 = k.2 <;> simp [hq]; exact this)).1
  unfold feeAsset
  unfold Store.at0 at h
  unfold fee
  cases hg : Store.get s.fees k with
  | none => simp [hg] at h ⊢; exact h
  | some v => simp [hg] at h ⊢; exact h

theorem Bank.send_none {b : Bank} {src dst : Acct} {d : Nat} {x : Int} (h : Bank.send b src dst d x = none) :
    x < 0 ∨ b.bal src d < x := by
  unfold Bank.send at h
  split at h
  · left; assumption
  · split at h
    · right; assumption
    · simp at h

theorem lsrIter_inv {s s' : State} {app asset id : Nat} {rw : Rw} {res : IterRes} (hL : LInv s) (hC : CInvD D s) (hok : rw.ok)
    (hkey : HasKey s app asset id) (h : lsrIter s app asset id rw = some (s', res)) :
    LInv s' ∧ CInvD D s' ∧ ((∀ a, D a = 0) → Delta s s') ∧ (∀ id', HasKey s app asset id' → HasKey s' app asset id') ∧
    (∀ k, (Store.get s'.lookup k).isSome = (Store.get s.lookup k).isSome) := by
  obtain ⟨l, hl, happ, hasset⟩ := hkey
  unfold lsrIter at h
  simp only [hl] at h
  cases rw with
  | fail => simp at h; obtain ⟨h1, _⟩ := h; subst h1; exact ⟨hL, hC, fun _ => Delta.refl _, fun _ h => h, fun _ => rfl⟩
  | none => simp at h; obtain ⟨h1, _⟩ := h; subst h1; exact ⟨hL, hC, fun _ => Delta.refl _, fun _ h => h, fun _ => rfl⟩
  | pay ρ =>
    have hρ : 0 ≤ ρ := hok
    simp only at h
    cases hd : decNetFee s (app, l.asset) ρ with
    | none => simp [hd] at h; obtain ⟨h1, _⟩ := h; subst h1; exact ⟨hL, hC, fun _ => Delta.refl _, fun _ h => h, fun _ => rfl⟩
    | some s1 =>
      simp only [hd] at h
      obtain ⟨_, hle, hs1⟩ := decNetFee_spec hd
      cases hbk : (if ρ > 0 then Bank.send s1.bank .collector .locker asset ρ else some s1.bank) with
      | none =>
        -- `continue` after the record was already lowered; impossible while the books are backed (`D = 0`):
        -- the collector then holds at least the recorded net fee, which is at least ρ
        simp only [hbk] at h
        simp at h; obtain ⟨h1, _⟩ := h; subst h1
        have := cmove_inv hL hC (s' := s1) (k := (app, l.asset)) (δ := -ρ) (β := 0)
          (by rw [hs1]; simp [Int.sub_eq_add_neg]) (by omega) (by intro d; rw [hs1]; simp) (by intro d; rw [hs1])
          (by omega) (by rw [hs1]) (by rw [hs1]) (by rw [hs1])
        refine ⟨this.1, this.2.1, ?_, ?_, ?_⟩
        · intro hD
          exfalso
          by_cases hpos : ρ > 0
          · simp only [hpos, if_true] at hbk
            have hb1 : s1.bank = s.bank := by rw [hs1]
            rw [hb1] at hbk
            have h1 := fee_le_feeAsset hC (app, l.asset)
            have h2 := hC.custody l.asset
            have h4 := hD l.asset
            unfold bal at h2
            simp only at h1
            rw [hasset] at h1 h2 hle h4
            rcases Bank.send_none hbk with h3 | h3 <;> omega
          · simp [hpos] at hbk
        · intro id' ⟨l0, h0, h1, h2⟩; exact ⟨l0, by rw [hs1]; exact h0, h1, h2⟩
        · intro k; rw [hs1]
      | some b =>
        simp only [hbk] at h
        cases hlk : Store.get s1.lookup (app, asset) with
        | none => simp [hlk] at h
        | some lk =>
          simp only [hlk] at h
          simp at h; obtain ⟨h1, _⟩ := h
          have hlk0 : Store.get s.lookup (app, asset) = some lk := by rw [hs1] at hlk; exact hlk
          have hpay : payReward s id app asset ρ = some s' := by
            unfold payReward
            simp only [hlk0, hl, hd, hbk]
            rw [← h1]
          obtain ⟨a1, a2, a3, a4, _, _, _, _, _, a9⟩ := payReward_inv hL hC hρ hl happ hasset hpay
          refine ⟨a1, a2, fun _ => a9, ?_, a4⟩
          intro id' ⟨l0, h0, h1', h2'⟩
          obtain ⟨_, l9, _, hl9, _, _, _, hlockers, _⟩ := payReward_spec hρ hpay
          by_cases hi : id = id'
          · subst hi
            exact ⟨_, a3, happ, hasset⟩
          · refine ⟨l0, ?_, h1', h2'⟩
            rw [hlockers, Store.get_put_ne _ _ _ _ hi]; exact h0

theorem lsrLoop_inv {app asset : Nat} (ids : List Nat) :
    ∀ {s s' : State} {rws : List Rw}, LInv s → CInvD D s → (∀ rw ∈ rws, rw.ok) →
      (∀ id ∈ ids, HasKey s app asset id) → lsrLoop s app asset ids rws = some s' →
      LInv s' ∧ CInvD D s' ∧ ((∀ a, D a = 0) → Delta s s') := by
  induction ids with
  | nil => intro s s' rws hL hC _ _ h; simp [lsrLoop] at h; subst h; exact ⟨hL, hC, fun _ => Delta.refl _⟩
  | cons id ids ih =>
    intro s s' rws hL hC hok hkeys h
    unfold lsrLoop at h
    have hok0 : (rws.headD .none).ok := by
      cases rws with
      | nil => simp [Rw.ok]
      | cons r rs => simp; exact hok r (by simp)
    cases hit : lsrIter s app asset id (rws.headD .none) with
    | none => rw [hit] at h; simp at h
    | some r =>
      obtain ⟨s1, cont⟩ := r
      obtain ⟨hL1, hC1, hD1, hk1, _⟩ := lsrIter_inv hL hC hok0 (hkeys id (by simp)) hit
      rw [hit] at h
      cases cont with
      | stop => simp at h; subst h; exact ⟨hL1, hC1, hD1⟩
      | next paid =>
        simp only at h
        obtain ⟨a, b, c⟩ := ih hL1 hC1 (fun rw hrw => hok rw (List.mem_of_mem_tail hrw))
          (fun id' hid' => hk1 id' (hkeys id' (List.mem_cons_of_mem _ hid'))) h
        exact ⟨a, b, fun hD => (hD1 hD).trans (c hD)⟩

theorem lsrChange_inv {s s' : State} {app asset : Nat} {rws : List Rw} (hL : LInv s) (hC : CInvD D s)
    (hok : ∀ rw ∈ rws, rw.ok) (h : step s (.lsrChange app asset rws) = some s') :
    LInv s' ∧ CInvD D s' ∧ ((∀ a, D a = 0) → Delta s s') := by
  simp only [step] at h
  split at h
  · simp at h; subst h; exact ⟨hL, hC, fun _ => Delta.refl _⟩
  · rename_i lk hlk
    apply lsrLoop_inv lk.ids hL hC hok _ h
    intro id hid
    obtain ⟨l, hl, hk⟩ := (hL.ids _ _ hlk).2 id hid
    simp at hk
    exact ⟨l, hl, hk.1, hk.2⟩


/-! ## configuration changes and auction start decisions -/

theorem LInv.frame' {s s' : State} (h : LInv s) (h1 : s'.lockers = s.lockers) (h2 : s'.lookup = s.lookup)
    (h3 : s'.lastId = s.lastId) (h4 : s'.bank = s.bank) : LInv s' := by
  refine ⟨?_, ?_, ?_, ?_, ?_, ?_⟩
  · rw [h1, h3]; exact h.idsLe
  · rw [h1]; exact h.netNonneg
  · intro k; have := h.depEq k; unfold dep at this ⊢; rw [h1, h2]; exact this
  · intro a; have := h.custody a; unfold bal at this ⊢; rw [h2, h4]; exact this
  · rw [h1, h2]; exact h.ids
  · rw [h2]; exact h.depNonneg

theorem CInvD.frame' {s s' : State} (h : CInvD D s) (h1 : s'.fees = s.fees) (h2 : s'.bank = s.bank) : CInvD D s' := by
  refine ⟨?_, ?_⟩
  · rw [h1]; exact h.nonneg
  · intro a; have := h.custody a; unfold bal at this ⊢; rw [h1, h2]; exact this

theorem config_inv {s : State} (c : Cfg) (hL : LInv s) (hC : CInvD D s) :
    LInv (applyCfg s c) ∧ CInvD D (applyCfg s c) ∧ Delta s (applyCfg s c) := by
  cases c <;> exact ⟨hL.frame' rfl rfl rfl rfl, hC.frame' rfl rfl, Delta.of_eq rfl (fun _ => rfl)⟩

theorem setActive_inv {s : State} (k : Nat × Nat) (m : AMap) (hL : LInv s) (hC : CInvD D s) :
    LInv (setActive s k m) ∧ CInvD D (setActive s k m) ∧ Delta s (setActive s k m) :=
  ⟨hL.frame' rfl rfl rfl rfl, hC.frame' rfl rfl, Delta.of_eq rfl (fun _ => rfl)⟩

theorem activateOne_inv {s : State} (gen2 : Bool) (k : Nat × Nat) (hL : LInv s) (hC : CInvD D s) :
    LInv (activateOne s gen2 k).1 ∧ CInvD D (activateOne s gen2 k).1 ∧ Delta s (activateOne s gen2 k).1 := by
  have same : LInv s ∧ CInvD D s ∧ Delta s s := ⟨hL, hC, Delta.refl _⟩
  have viaGet : ∀ {x : Int} {s1 : State} (m : AMap), getAmount s k x = some s1 →
      (LInv s1 ∧ CInvD D s1 ∧ Delta s s1) ∧ (LInv (setActive s1 k m) ∧ CInvD D (setActive s1 k m) ∧ Delta s (setActive s1 k m)) := by
    intro x s1 m hg
    obtain ⟨a, b, c⟩ := getAmount_core_inv hL hC hg
    obtain ⟨a', b', c'⟩ := setActive_inv k m a b
    exact ⟨⟨a, b, c⟩, ⟨a', b', c.trans c'⟩⟩
  unfold activateOne
  split
  · exact same
  · rename_i m hm
    split
    · exact same
    · split
      · rename_i c v hc hv
        split
        · split
          · split
            · exact setActive_inv k m hL hC
            · exact same
          · split
            · split
              · exact same
              · rename_i s1 hg
                split
                · exact (viaGet m hg).2
                · exact same
            · exact same
        · split
          · split
            · split
              · exact same
              · rename_i s1 hg
                exact (viaGet m hg).2
            · exact same
          · split
            · split
              · exact setActive_inv k m hL hC
              · exact same
            · exact same
      · exact same

theorem activate_inv (gen2 : Bool) (keys : List (Nat × Nat)) : ∀ {s : State}, LInv s → CInvD D s →
    LInv (activate s gen2 keys) ∧ CInvD D (activate s gen2 keys) ∧ Delta s (activate s gen2 keys) := by
  induction keys with
  | nil => intro s hL hC; exact ⟨hL, hC, Delta.refl _⟩
  | cons k ks ih =>
    intro s hL hC
    obtain ⟨a, b, c⟩ := activateOne_inv (D := D) gen2 k hL hC
    simp only [activate]
    split
    · exact ⟨a, b, c⟩
    · obtain ⟨a', b', c'⟩ := ih a b
      exact ⟨a', b', c.trans c'⟩

/-- What a start decision can do to one entry: nothing; or (debt) raise the active flag when `netFees ≤ debtThreshold − lot`;
or (surplus) take exactly the lot through `GetAmountFromCollector` when `netFees ≥ surplusThreshold + lot` and raise the flag
(second generation with English auctions not activated: the kick-off fails after the lot has left and is rolled back — nothing). -/
theorem activateOne_spec (s : State) (gen2 : Bool) (k : Nat × Nat) :
    (activateOne s gen2 k).1 = s ∨
    (∃ m c, Store.get s.amap k = some m ∧ Store.get s.collk k = some c ∧ m.active = false ∧ k.1 ∉ s.killOn ∧
        (gen2 = false → k.1 ∉ s.esmOn) ∧
      ((m.debt = true ∧ fee s k ≤ c.debtThr - c.lot ∧ (activateOne s gen2 k).1 = setActive s k m) ∨
       (m.surplus = true ∧ c.surplusThr + c.lot ≤ fee s k ∧ ∃ s1, getAmount s k c.lot = some s1 ∧
          (activateOne s gen2 k).1 = setActive s1 k m))) := by
  unfold activateOne
  split
  · exact Or.inl rfl
  · rename_i m hm
    split
    · exact Or.inl rfl
    · rename_i hoff
      simp only [Bool.or_eq_true, Bool.and_eq_true, decide_eq_true_eq, Bool.not_eq_true', not_or, not_and] at hoff
      obtain ⟨⟨hact, hkill⟩, hesm⟩ := hoff
      have hact' : m.active = false := by simpa using hact
      split
      · rename_i c v hc hv
        have hfee : fee s k = v := by simp [fee, hv]
        split
        · rename_i hg2
          split
          · rename_i hd
            split
            · exact Or.inr ⟨m, c, hm, hc, hact', hkill, fun e => by simp [hg2] at e, Or.inl ⟨hd.2, by rw [hfee]; exact hd.1, rfl⟩⟩
            · exact Or.inl rfl
          · split
            · rename_i hsur
              split
              · exact Or.inl rfl
              · rename_i s1 hg
                split
                · exact Or.inr ⟨m, c, hm, hc, hact', hkill, fun e => by simp [hg2] at e,
                    Or.inr ⟨hsur.2, by rw [hfee]; exact hsur.1, s1, hg, rfl⟩⟩
                · exact Or.inl rfl
            · exact Or.inl rfl
        · rename_i hg2
          have hg2' : gen2 = false := by simpa using hg2
          have hesm' : k.1 ∉ s.esmOn := by
            intro hin; have := hesm (by simp [hg2']); exact this hin
          split
          · rename_i hsur
            split
            · rename_i hthr
              split
              · exact Or.inl rfl
              · rename_i s1 hg
                exact Or.inr ⟨m, c, hm, hc, hact', hkill, fun _ => hesm',
                  Or.inr ⟨hsur, by rw [hfee]; exact hthr, s1, hg, rfl⟩⟩
            · exact Or.inl rfl
          · split
            · rename_i hdebt
              split
              · rename_i hthr
                exact Or.inr ⟨m, c, hm, hc, hact', hkill, fun _ => hesm', Or.inl ⟨hdebt, by rw [hfee]; exact hthr, rfl⟩⟩
              · exact Or.inl rfl
            · exact Or.inl rfl
      · exact Or.inl rfl

/-- `GetAmountFromCollector` takes exactly `x`: record and custody both drop by `x`, the coins arrive in the auction account. -/
theorem getAmount_exact {s s1 : State} {k : Nat × Nat} {x : Int} (h : getAmount s k x = some s1) :
    0 ≤ x ∧ x < fee s k ∧ fee s1 k = fee s k - x ∧ bal s1 .collector k.2 = bal s .collector k.2 - x ∧
    bal s1 .auction k.2 = bal s .auction k.2 + x ∧ s1.lockers = s.lockers ∧ s1.lookup = s.lookup := by
  unfold getAmount at h
  split at h; · simp at h
  rename_i v hv
  split at h; · simp at h
  split at h; · simp at h
  split at h; · simp at h
  rename_i b hsend
  rename_i hx hgt
  obtain ⟨_, _, hb⟩ := Bank.send_spec hsend
  obtain ⟨_, _, hs'⟩ := decNetFee_spec h
  have hfee : fee s k = v := by simp [fee, hv]
  subst hs'
  refine ⟨by omega, by omega, ?_, ?_, ?_, rfl, rfl⟩
  · simp only [fee, Store.get_put_self]; simp [fee, hv]
  · unfold bal; show b.bal _ _ = _; rw [hb]; simp
  · unfold bal; show b.bal _ _ = _; rw [hb]; simp

/-! ## first-generation auctions: bids, restart, every close path -/

theorem LInv.frameB {s s' : State} (h : LInv s) (h1 : s'.lockers = s.lockers) (h2 : s'.lookup = s.lookup)
    (h3 : s'.lastId = s.lastId) (h4 : ∀ d, s'.bank.bal .locker d = s.bank.bal .locker d) : LInv s' := by
  refine ⟨?_, ?_, ?_, ?_, ?_, ?_⟩
  · rw [h1, h3]; exact h.idsLe
  · rw [h1]; exact h.netNonneg
  · intro k; have := h.depEq k; unfold dep at this ⊢; rw [h1, h2]; exact this
  · intro a; have := h.custody a; unfold bal at this ⊢; rw [h2, h4]; exact this
  · rw [h1, h2]; exact h.ids
  · rw [h2]; exact h.depNonneg

theorem CInvD.frameB {s s' : State} (h : CInvD D s) (h1 : s'.fees = s.fees)
    (h2 : ∀ d, s'.bank.bal .collector d = s.bank.bal .collector d) : CInvD D s' := by
  refine ⟨?_, ?_⟩
  · rw [h1]; exact h.nonneg
  · intro a; have := h.custody a; unfold bal at this ⊢; rw [h1, h2]; exact this

theorem clearActive_spec {s s' : State} {k : Nat × Nat} (h : clearActive s k = some s') :
    s'.lockers = s.lockers ∧ s'.lookup = s.lookup ∧ s'.lastId = s.lastId ∧ s'.bank = s.bank ∧ s'.fees = s.fees := by
  unfold clearActive at h
  split at h
  · simp at h
  · simp at h; subst h; exact ⟨rfl, rfl, rfl, rfl, rfl⟩

/-- the lot goes back to the collector and is recorded under the auction's own (app, asset): exact -/
theorem toCollector_inv {s s' : State} {a : Auc1} (hL : LInv s) (hC : CInvD D s)
    (h : ((s.bank.send .auction .collector a.asset a.lot).bind fun b => setNetFee { s with bank := b } (a.app, a.asset) a.lot) = some s') :
    LInv s' ∧ CInvD D s' ∧ Delta s s' ∧
    fee s' (a.app, a.asset) = fee s (a.app, a.asset) + a.lot ∧
    bal s' .collector a.asset = bal s .collector a.asset + a.lot := by
  cases hs : s.bank.send .auction .collector a.asset a.lot with
  | none => simp [hs] at h
  | some b =>
    simp only [hs, Option.bind_some] at h
    obtain ⟨_, _, hb⟩ := Bank.send_spec hs
    obtain ⟨hx, hs'⟩ := setNetFee_spec h
    have hf0 := fee_nonneg hC (a.app, a.asset)
    have h3 := cmove_exact hL hC (s' := s') (k := (a.app, a.asset)) (δ := a.lot)
      (by rw [hs']; rfl) (by omega)
      (by intro d; rw [hs']; simp only; rw [hb]; by_cases hd : a.asset = d <;> simp [hd])
      (by intro d; rw [hs']; simp only; rw [hb]; simp)
      (by rw [hs']) (by rw [hs']) (by rw [hs'])
    refine ⟨h3.1, h3.2.1, h3.2.2, ?_, ?_⟩
    · rw [hs']; simp only [fee, Store.get_put_self]; rfl
    · rw [hs']; unfold bal; simp only; rw [hb]; simp

theorem toUser_inv {s s' : State} {a : Auc1} {u : Nat} (hL : LInv s) (hC : CInvD D s)
    (h : ((s.bank.send .auction (.user u) a.asset a.lot).map fun b => ({ s with bank := b } : State)) = some s') :
    LInv s' ∧ CInvD D s' ∧ Delta s s' ∧ s'.fees = s.fees ∧ ∀ d, bal s' .collector d = bal s .collector d := by
  cases hs : s.bank.send .auction (.user u) a.asset a.lot with
  | none => simp [hs] at h
  | some b =>
    simp [hs] at h; subst h
    obtain ⟨_, _, hb⟩ := Bank.send_spec hs
    have hl : ∀ d, b.bal .locker d = s.bank.bal .locker d := by intro d; rw [hb]; simp
    have hc : ∀ d, b.bal .collector d = s.bank.bal .collector d := by intro d; rw [hb]; simp
    exact ⟨hL.frameB rfl rfl rfl hl, hC.frameB rfl hc, Delta.of_eq rfl hc, rfl, fun d => hc d⟩

/-- **every close path** of a first-generation surplus / debt auction keeps the books and is delta-exact -/
theorem closeMoves_inv {s s' : State} {a : Auc1} {esm : Bool} (hL : LInv s) (hC : CInvD D s)
    (h : closeMoves s a esm = some s') : LInv s' ∧ CInvD D s' ∧ Delta s s' := by
  unfold closeMoves at h
  simp only at h
  split at h
  · split at h
    · obtain ⟨a1, a2, a3, _⟩ := toCollector_inv hL hC h; exact ⟨a1, a2, a3⟩
    · split at h
      · obtain ⟨a1, a2, a3, _⟩ := toCollector_inv hL hC h; exact ⟨a1, a2, a3⟩
      · obtain ⟨a1, a2, a3, _⟩ := toUser_inv hL hC h; exact ⟨a1, a2, a3⟩
  · split at h
    · simp at h; subst h; exact ⟨hL, hC, Delta.refl _⟩
    · split at h
      · obtain ⟨a1, a2, a3, _⟩ := toUser_inv hL hC h; exact ⟨a1, a2, a3⟩
      · obtain ⟨a1, a2, a3, _⟩ := toCollector_inv hL hC h; exact ⟨a1, a2, a3⟩

theorem closeAuc_inv {s s' : State} {a : Auc1} {esm : Bool} (hL : LInv s) (hC : CInvD D s)
    (h : closeAuc s a esm = some s') : LInv s' ∧ CInvD D s' ∧ Delta s s' := by
  unfold closeAuc at h
  cases h1 : closeMoves s a esm with
  | none => simp [h1] at h
  | some s1 =>
    simp only [h1, Option.bind_some, Option.map_eq_some_iff] at h
    obtain ⟨s2, hc, rfl⟩ := h
    obtain ⟨a1, a2, a3⟩ := closeMoves_inv hL hC h1
    obtain ⟨f1, f2, f3, f4, f5⟩ := clearActive_spec hc
    refine ⟨(a1.frame' f1 f2 f3 f4).frame' rfl rfl rfl rfl, (a2.frame' f5 f4).frame' rfl rfl, ?_⟩
    intro x; have := a3 x; unfold bal at this ⊢
    show feeAsset x s2.fees - s2.bank.bal _ _ = _
    rw [f5, f4]; exact this

theorem restartAuc_inv {s : State} (a : Auc1) (now : Int) (hL : LInv s) (hC : CInvD D s) :
    LInv (restartAuc s a now) ∧ CInvD D (restartAuc s a now) ∧ Delta s (restartAuc s a now) :=
  ⟨hL.frame' rfl rfl rfl rfl, hC.frame' rfl rfl, Delta.of_eq rfl (fun _ => rfl)⟩

theorem sweepAucs_inv (app : Nat) (surplus esm : Bool) (now : Int) (as : List Auc1) : ∀ {s s' : State}, LInv s → CInvD D s →
    sweepAucs s app surplus esm now as = some s' → LInv s' ∧ CInvD D s' ∧ Delta s s' := by
  induction as with
  | nil => intro s s' hL hC h; simp [sweepAucs] at h; subst h; exact ⟨hL, hC, Delta.refl _⟩
  | cons a as ih =>
    intro s s' hL hC h
    simp only [sweepAucs] at h
    split at h
    · split at h
      · obtain ⟨a1, a2, a3⟩ := restartAuc_inv (D := D) a now hL hC
        obtain ⟨b1, b2, b3⟩ := ih a1 a2 h
        exact ⟨b1, b2, a3.trans b3⟩
      · split at h
        · simp at h
        · rename_i s1 hc
          obtain ⟨a1, a2, a3⟩ := closeAuc_inv hL hC hc
          obtain ⟨b1, b2, b3⟩ := ih a1 a2 h
          exact ⟨b1, b2, a3.trans b3⟩
    · exact ih hL hC h

theorem recordStart_inv {s r : State} (k : Nat × Nat) (now : Int) (hL : LInv r) (hC : CInvD D r) :
    LInv (recordStart s r k now) ∧ CInvD D (recordStart s r k now) ∧ Delta r (recordStart s r k now) := by
  unfold recordStart
  split
  · split
    · exact ⟨hL.frame' rfl rfl rfl rfl, hC.frame' rfl rfl, Delta.of_eq rfl (fun _ => rfl)⟩
    · exact ⟨hL, hC, Delta.refl _⟩
  · exact ⟨hL, hC, Delta.refl _⟩

theorem unitGetD_inv {s : State} {o : Option State} (hL : LInv s) (hC : CInvD D s)
    (h : ∀ s', o = some s' → LInv s' ∧ CInvD D s' ∧ Delta s s') :
    LInv (o.getD s) ∧ CInvD D (o.getD s) ∧ Delta s (o.getD s) := by
  cases o with
  | none => exact ⟨hL, hC, Delta.refl _⟩
  | some s' => exact h s' rfl

theorem unit1_inv {s : State} (active kind : Bool) (now : Int) (k : Nat × Nat) (hL : LInv s) (hC : CInvD D s) :
    LInv (unit1 s active kind now k) ∧ CInvD D (unit1 s active kind now k) ∧ Delta s (unit1 s active kind now k) := by
  unfold unit1
  split
  · exact unitGetD_inv hL hC (fun s' hs => sweepAucs_inv k.1 kind _ now s.auctions hL hC hs)
  · obtain ⟨a1, a2, a3⟩ := activateOne_inv (D := D) false k hL hC
    obtain ⟨b1, b2, b3⟩ := recordStart_inv (s := s) (D := D) k now a1 a2
    exact ⟨b1, b2, a3.trans b3⟩

theorem begin1Entry_inv {s : State} (snap : Store (Nat × Nat) AMap) (now : Int) (k : Nat × Nat) (hL : LInv s) (hC : CInvD D s) :
    LInv (begin1Entry s snap now k) ∧ CInvD D (begin1Entry s snap now k) ∧ Delta s (begin1Entry s snap now k) := by
  unfold begin1Entry
  split
  · exact ⟨hL, hC, Delta.refl _⟩
  · rename_i d hd
    simp only
    have h1 : LInv (if d.surplus = true then unit1 s d.active true now k else s) ∧
        CInvD D (if d.surplus = true then unit1 s d.active true now k else s) ∧
        Delta s (if d.surplus = true then unit1 s d.active true now k else s) := by
      split
      · exact unit1_inv _ _ now k hL hC
      · exact ⟨hL, hC, Delta.refl _⟩
    generalize (if d.surplus = true then unit1 s d.active true now k else s) = s1 at h1 ⊢
    obtain ⟨a1, a2, a3⟩ := h1
    split
    · obtain ⟨b1, b2, b3⟩ := unit1_inv (D := D) d.active false now k a1 a2
      exact ⟨b1, b2, a3.trans b3⟩
    · exact ⟨a1, a2, a3⟩

theorem begin1Loop_inv (snap : Store (Nat × Nat) AMap) (now : Int) (keys : List (Nat × Nat)) : ∀ {s : State}, LInv s → CInvD D s →
    LInv (begin1Loop s snap now keys) ∧ CInvD D (begin1Loop s snap now keys) ∧ Delta s (begin1Loop s snap now keys) := by
  induction keys with
  | nil => intro s hL hC; exact ⟨hL, hC, Delta.refl _⟩
  | cons k ks ih =>
    intro s hL hC
    obtain ⟨a1, a2, a3⟩ := begin1Entry_inv (D := D) snap now k hL hC
    obtain ⟨b1, b2, b3⟩ := ih a1 a2
    exact ⟨b1, b2, a3.trans b3⟩

theorem surplusBid_inv {s s' : State} {app id u : Nat} {amt now : Int} (hL : LInv s) (hC : CInvD D s)
    (h : surplusBid s app id u amt now = some s') : LInv s' ∧ CInvD D s' ∧ Delta s s' := by
  unfold surplusBid at h
  split at h; · simp at h
  split at h; · simp at h
  split at h
  · simp at h; subst h
    exact ⟨hL.frame' rfl rfl rfl rfl, hC.frame' rfl rfl, Delta.of_eq rfl (fun _ => rfl)⟩
  · simp at h

theorem debtBid_inv {s s' : State} {app id u : Nat} {bid exp now : Int} (hL : LInv s) (hC : CInvD D s)
    (h : debtBid s app id u bid exp now = some s') : LInv s' ∧ CInvD D s' ∧ Delta s s' := by
  unfold debtBid at h
  split at h; · simp at h
  split at h; · simp at h
  rename_i a _
  split at h; · simp at h
  split at h
  · split at h; · simp at h
    rename_i b1 hs1
    obtain ⟨_, _, hb1⟩ := Bank.send_spec hs1
    split at h; · simp at h
    rename_i b2 hb2
    simp at h; subst h
    have hl : ∀ d, b2.bal .locker d = s.bank.bal .locker d ∧ b2.bal .collector d = s.bank.bal .collector d := by
      intro d
      unfold refundPrev at hb2
      split at hb2
      · obtain ⟨_, _, hb⟩ := Bank.send_spec hb2
        rw [hb, hb, hb1, hb1]; simp
      · simp at hb2; subst hb2; rw [hb1, hb1]; simp
    exact ⟨hL.frameB rfl rfl rfl (fun d => (hl d).1), hC.frameB rfl (fun d => (hl d).2), Delta.of_eq rfl (fun d => (hl d).2)⟩
  · simp at h

/-! ## all operations -/

/-- side conditions on the external inputs (checked by the driver on every trace line). -/
def Op.extOk : Op → Prop
  | .deposit _ _ _ _ _ rw => rw.ok
  | .withdraw _ _ _ _ _ rw => rw.ok
  | .close _ _ _ _ rw => rw.ok
  | .rewardCalc _ _ rw => rw.ok
  | .lsrChange _ _ rws => ∀ rw ∈ rws, rw.ok
  | .decreaseNetFee _ _ x => 0 ≤ x
  | .feeClose _ _ i c => 0 ≤ i ∧ 0 ≤ c
  | _ => True

/-- the two branches of the second-generation `CloseEnglishAuction` that touch the collector. -/
def Op.isV2Close : Op → Bool
  | .v2SurplusClose .. => true
  | .v2DebtClose .. => true
  | _ => false

/-- `DecreaseNetFeeCollectedData` called on its own (the coins are moved by its caller, outside this op). -/
def Op.isRawDecrease : Op → Bool
  | .decreaseNetFee .. => true
  | _ => false

theorem step_inv {s s' : State} {op : Op} (hL : LInv s) (hC : CInvD D s) (hext : op.extOk) (hv2 : op.isV2Close = false)
    (h : step s op = some s') : LInv s' ∧ CInvD D s' ∧ (op.isRawDecrease = false → (∀ a, D a = 0) → Delta s s') := by
  cases op with
  | fund u a x => have := fund_inv hL hC h; exact ⟨this.1, this.2.1, fun _ _ => this.2.2⟩
  | whitelist a b => have := whitelist_inv hL hC h; exact ⟨this.1, this.2.1, fun _ _ => this.2.2⟩
  | create u a b x => have := create_inv hL hC h; exact ⟨this.1, this.2.1, fun _ _ => this.2.2⟩
  | deposit u a b i x rw => have := deposit_inv hL hC hext h; exact ⟨this.1, this.2.1, fun _ _ => this.2.2⟩
  | withdraw u a b i x rw => have := withdraw_inv hL hC hext h; exact ⟨this.1, this.2.1, fun _ _ => this.2.2⟩
  | close u a b i rw => have := close_inv hL hC hext h; exact ⟨this.1, this.2.1, fun _ _ => this.2.2⟩
  | rewardCalc a i rw => have := rewardCalc_inv hL hC hext h; exact ⟨this.1, this.2.1, fun _ _ => this.2.2⟩
  | lsrChange a b rws => have := lsrChange_inv hL hC hext h; exact ⟨this.1, this.2.1, fun _ hD => this.2.2 hD⟩
  | feeVault a b x => have := feeVault_inv hL hC h; exact ⟨this.1, this.2.1, fun _ _ => this.2.2⟩
  | feeClose a b i c => have := feeClose_inv hL hC h; exact ⟨this.1, this.2.1, fun _ _ => this.2.2 hext.1 hext.2⟩
  | penalty a b x => have := penalty_inv hL hC h; exact ⟨this.1, this.2.1, fun _ _ => this.2.2⟩
  | auctionReturn a b x => have := auctionReturn_inv hL hC h; exact ⟨this.1, this.2.1, fun _ _ => this.2.2⟩
  | decreaseNetFee a b x =>
    have := decreaseNetFee_inv hL hC hext h
    exact ⟨this.1, this.2, fun hr => by simp [Op.isRawDecrease] at hr⟩
  | getAmount a b x =>
    have := getAmount_core_inv hL hC (k := (a, b)) (by simpa [step] using h)
    exact ⟨this.1, this.2.1, fun _ _ => this.2.2⟩
  | surplusFund a b u x => have := surplusFund_inv hL hC h; exact ⟨this.1, this.2.1, fun _ _ => this.2.2⟩
  | v2SurplusClose a b u x => simp [Op.isV2Close] at hv2
  | v2DebtClose a b c d => simp [Op.isV2Close] at hv2
  | v2Penalty a b c d =>
    have := penalty_inv (app := a) (asset := c) (x := d) hL hC h; exact ⟨this.1, this.2.1, fun _ _ => this.2.2⟩
  | config c =>
    simp only [step] at h; simp at h; subst h
    have := config_inv (D := D) c hL hC; exact ⟨this.1, this.2.1, fun _ _ => this.2.2⟩
  | activate g ks =>
    simp only [step] at h; simp at h; subst h
    have := activate_inv (D := D) g ks hL hC; exact ⟨this.1, this.2.1, fun _ _ => this.2.2⟩
  | begin1 now ks =>
    simp only [step] at h; simp at h; subst h
    have := begin1Loop_inv (D := D) s.amap now ks hL hC; exact ⟨this.1, this.2.1, fun _ _ => this.2.2⟩
  | surplusBid a i u x n => have := surplusBid_inv hL hC (by simpa [step] using h); exact ⟨this.1, this.2.1, fun _ _ => this.2.2⟩
  | debtBid a i u b e n => have := debtBid_inv hL hC (by simpa [step] using h); exact ⟨this.1, this.2.1, fun _ _ => this.2.2⟩

/-- a withdrawal pays the owner exactly the requested amount and the locker keeps `net + reward − amount`. -/
theorem withdraw_pays {s s' : State} {u app asset id : Nat} {amt : Int} {rw : Rw} (hL : LInv s) (hC : CInvD D s) (hok : rw.ok)
    (h : step s (.withdraw u app asset id amt rw) = some s') :
    bal s' (.user u) asset = bal s (.user u) asset + amt ∧
    ∃ l l', Store.get s.lockers id = some l ∧ l.owner = u ∧ Store.get s'.lockers id = some l' ∧
      l'.net = l.net + rw.amount - amt := by
  simp only [step] at h
  split at h; · simp at h
  split at h; · simp at h
  rename_i l hg
  obtain ⟨hl, hasset, hown, happ, hlk⟩ := lockerGuards_spec hg
  split at h; · simp at h
  split at h; · simp at h
  rename_i s1 hrw
  obtain ⟨_, _, ⟨l1, hl1, _, _, _, _, hnet⟩, hlkp, hub, _⟩ := reward_inv hL hC hok hl happ hasset hrw
  split at h; · simp at h
  rename_i l1' hl1'
  rw [hl1] at hl1'; cases hl1'
  split at h; · simp at h
  rename_i b hsend
  simp at h; subst h
  obtain ⟨_, _, hb⟩ := Bank.send_spec hsend
  have hlk1 : (Store.get s1.lookup (app, asset)).isSome := by rw [hlkp]; exact hlk
  obtain ⟨e, he⟩ := isSome_get hlk1
  rw [updAmount_some (-amt) (by exact he)]
  refine ⟨?_, l, _, hl, hown, Store.get_put_self _ _ _, by simp; omega⟩
  have := hub u asset
  unfold bal at this ⊢
  show b.bal _ _ = _
  rw [hb, this]; simp

/-- a close pays the owner exactly the full net balance, including the reward credited by this very message. -/
theorem close_pays {s s' : State} {u app asset id : Nat} {rw : Rw} (hL : LInv s) (hC : CInvD D s) (hok : rw.ok)
    (h : step s (.close u app asset id rw) = some s') :
    ∃ l, Store.get s.lockers id = some l ∧ l.owner = u ∧
      bal s' (.user u) asset = bal s (.user u) asset + (l.net + rw.amount) := by
  simp only [step] at h
  split at h; · simp at h
  split at h; · simp at h
  rename_i l hg
  obtain ⟨hl, hasset, hown, happ, hlk⟩ := lockerGuards_spec hg
  split at h; · simp at h
  rename_i s1 hrw
  obtain ⟨hL1, _, ⟨l1, hl1, _, _, _, _, hnet⟩, hlkp, hub, _⟩ := reward_inv hL hC hok hl happ hasset hrw
  split at h; · simp at h
  rename_i l1' hl1'
  rw [hl1] at hl1'; cases hl1'
  have hlk1 : (Store.get s1.lookup (app, asset)).isSome := by rw [hlkp]; exact hlk
  obtain ⟨e, he⟩ := isSome_get hlk1
  have hnn := hL1.netNonneg (id, l1) (Store.mem_of_get hl1)
  simp only at hnn
  split at h; · simp at h
  rename_i b hbank
  have hb : b.bal (.user u) asset = s1.bank.bal (.user u) asset + l1.net := by
    by_cases hpos : l1.net > 0
    · simp only [hpos, if_true] at hbank
      rw [(Bank.send_spec hbank).2.2]; simp
    · simp only [hpos, if_false] at hbank
      simp at hbank; subst hbank
      have h0 : l1.net = 0 := by omega
      simp [h0]
  simp only [updAmount_some (-l1.net) (show Store.get ({ s1 with bank := b } : State).lookup (app, asset) = some e from he),
    Store.get_put_self, Store.put_put] at h
  simp at h; subst h
  refine ⟨l, hl, hown, ?_⟩
  have := hub u asset
  unfold bal at this ⊢
  show b.bal _ _ = _
  rw [hb, this, hnet]


/-! ## the second-generation English-auction closes and the shortfall they cause -/

theorem CInvD.mono {D D' : Nat → Int} {s : State} (h : CInvD D s) (hle : ∀ a, D a ≤ D' a) : CInvD D' s :=
  ⟨h.nonneg, fun a => by have := h.custody a; have := hle a; omega⟩

/-- the custody shortfall an operation can add, per asset: a second-generation surplus close takes the lot out of the collector a
second time and books it as income (2·lot); a second-generation debt close books `c` while `d` arrives. -/
def Op.dmg : Op → Nat → Int
  | .v2SurplusClose _ b _ lot => fun a => if a = b then (if 0 ≤ lot then 2 * lot else 0) else 0
  | .v2DebtClose _ b c d => fun a => if a = b then (if 0 ≤ c - d then c - d else 0) else 0
  | _ => fun _ => 0

theorem Op.dmg_nonneg (op : Op) (a : Nat) : 0 ≤ op.dmg a := by
  cases op <;> simp only [Op.dmg] <;> (try exact Int.le_refl 0) <;> split <;> (try split) <;> omega

theorem Op.dmg_zero {op : Op} (h : op.isV2Close = false) (a : Nat) : op.dmg a = 0 := by
  cases op <;> simp [Op.isV2Close] at h <;> rfl

theorem cmove_dmg {s s' : State} (hL : LInv s) (hC : CInvD D s) {k : Nat × Nat} {δ β γ : Int}
    (hfees : s'.fees = Store.put s.fees k (fee s k + δ)) (hnn : 0 ≤ fee s k + δ)
    (hbal : ∀ d, s'.bank.bal .collector d = s.bank.bal .collector d + (if k.2 = d then β else 0))
    (hbl : ∀ d, s'.bank.bal .locker d = s.bank.bal .locker d)
    (hle : δ - β ≤ γ) (_hγ : 0 ≤ γ)
    (hlockers : s'.lockers = s.lockers) (hlookup : s'.lookup = s.lookup) (hid : s'.lastId = s.lastId) :
    LInv s' ∧ CInvD (fun a => D a + if a = k.2 then γ else 0) s' := by
  refine ⟨⟨?_, ?_, ?_, ?_, ?_, ?_⟩, ⟨?_, ?_⟩⟩
  · rw [hlockers, hid]; exact hL.idsLe
  · rw [hlockers]; exact hL.netNonneg
  · intro k'; have := hL.depEq k'; unfold dep at this ⊢; rw [hlockers, hlookup]; exact this
  · intro a; have := hL.custody a; unfold bal at this ⊢; rw [hlookup, hbl]; exact this
  · rw [hlockers, hlookup]; exact hL.ids
  · rw [hlookup]; exact hL.depNonneg
  · rw [hfees]; exact nonneg_put hC.nonneg hnn
  · intro a
    have h0 := hC.custody a
    unfold bal at h0 ⊢
    rw [hfees, feeAsset_put, hbal]
    unfold fee
    by_cases ha : k.2 = a
    · subst ha; simp; omega
    · have ha' : ¬ a = k.2 := fun e => ha e.symm
      simp [ha, ha']; omega

theorem v2SurplusClose_inv {s s' : State} {app asset u : Nat} {lot : Int} (hL : LInv s) (hC : CInvD D s)
    (h : step s (.v2SurplusClose app asset u lot) = some s') :
    LInv s' ∧ CInvD (fun a => D a + (Op.v2SurplusClose app asset u lot).dmg a) s' := by
  simp only [step] at h
  split at h; · simp at h
  rename_i b1 hs1
  split at h; · simp at h
  rename_i b2 hs2
  cases hset : setNetFee { s with bank := b2 } (app, asset) lot with
  | none => simp [hset] at h
  | some s2 =>
    simp only [hset, Option.bind_some] at h
    obtain ⟨f1, f2, f3, f4, f5⟩ := clearActive_spec h
    obtain ⟨hx, _, hb1⟩ := Bank.send_spec hs1
    obtain ⟨_, _, hb2⟩ := Bank.send_spec hs2
    obtain ⟨_, hs'⟩ := setNetFee_spec hset
    have hf0 := fee_nonneg hC (app, asset)
    have := cmove_dmg hL hC (s' := s2) (k := (app, asset)) (δ := lot) (β := -lot) (γ := 2 * lot)
      (by rw [hs']; rfl) (by omega)
      (by intro d; rw [hs']; simp only; rw [hb2, hb1]; by_cases hd : asset = d <;> simp [hd]; omega)
      (by intro d; rw [hs']; simp only; rw [hb2, hb1]; simp)
      (by omega) (by omega) (by rw [hs']) (by rw [hs']) (by rw [hs'])
    refine ⟨this.1.frame' f1 f2 f3 f4, (this.2.frame' f5 f4).mono ?_⟩
    intro a; simp only [Op.dmg]
    by_cases ha : a = asset <;> simp [ha, hx]

theorem v2DebtClose_inv {s s' : State} {app asset : Nat} {c d : Int} (hL : LInv s) (hC : CInvD D s)
    (h : step s (.v2DebtClose app asset c d) = some s') :
    LInv s' ∧ CInvD (fun a => D a + (Op.v2DebtClose app asset c d).dmg a) s' := by
  simp only [step] at h
  have hf0 := fee_nonneg hC (app, asset)
  cases hc : creditCollector s asset d with
  | none => simp [hc] at h
  | some s1 =>
    simp only [hc, Option.bind_some] at h
    cases hset : setNetFee s1 (app, asset) c with
    | none => simp [hset] at h
    | some s2 =>
      simp only [hset, Option.bind_some] at h
      obtain ⟨f1, f2, f3, f4, f5⟩ := clearActive_spec h
      obtain ⟨hx, hb, hf, hlo, hlk, hid, _⟩ := creditCollector_spec hc
      obtain ⟨hc0, hs'⟩ := setNetFee_spec hset
      have := cmove_dmg hL hC (s' := s2) (k := (app, asset)) (δ := c) (β := d) (γ := if 0 ≤ c - d then c - d else 0)
        (by rw [hs']; simp [hf, fee_congr hf]) (by omega)
        (by intro d'; rw [hs']; simp only; rw [hb]; by_cases hd : asset = d' <;> simp [hd])
        (by intro d'; rw [hs']; simp only; rw [hb]; simp)
        (by split <;> omega) (by split <;> omega) (by rw [hs']; exact hlo) (by rw [hs']; exact hlk) (by rw [hs']; exact hid)
      refine ⟨this.1.frame' f1 f2 f3 f4, (this.2.frame' f5 f4).mono ?_⟩
      intro a; simp only [Op.dmg]
      by_cases ha : a = asset <;> simp [ha]

/-- every operation: the locker books stay exact; the collector books lose at most `op.dmg`. -/
theorem step_invD {s s' : State} {op : Op} (hL : LInv s) (hC : CInvD D s) (hext : op.extOk)
    (h : step s op = some s') : LInv s' ∧ CInvD (fun a => D a + op.dmg a) s' := by
  by_cases hv2 : op.isV2Close = false
  · obtain ⟨a, b, _⟩ := step_inv hL hC hext hv2 h
    exact ⟨a, b.mono (fun x => by rw [Op.dmg_zero hv2]; omega)⟩
  · cases op <;> simp [Op.isV2Close] at hv2
    · exact v2SurplusClose_inv hL hC h
    · exact v2DebtClose_inv hL hC h

/-! ## the two closes after the proposed repair -/

theorem repairedSurplusClose_inv {s s' : State} {app asset u : Nat} {lot : Int} (hL : LInv s) (hC : CInvD D s)
    (h : stepRepaired s (.v2SurplusClose app asset u lot) = some s') : LInv s' ∧ CInvD D s' ∧ Delta s s' := by
  simp only [stepRepaired] at h
  split at h; · simp at h
  rename_i b1 hs1
  split at h; · simp at h
  rename_i b2 hs2
  obtain ⟨_, _, hb1⟩ := Bank.send_spec hs1
  obtain ⟨_, _, hb2⟩ := Bank.send_spec hs2
  obtain ⟨f1, f2, f3, f4, f5⟩ := clearActive_spec h
  have hl : ∀ d, b2.bal .locker d = s.bank.bal .locker d := by intro d; rw [hb2, hb1]; simp
  have hc : ∀ d, b2.bal .collector d = s.bank.bal .collector d := by intro d; rw [hb2, hb1]; simp
  have hL2 : LInv ({ s with bank := b2 } : State) := by
    refine ⟨hL.idsLe, hL.netNonneg, hL.depEq, ?_, hL.ids, hL.depNonneg⟩
    intro a; have := hL.custody a; unfold bal at this ⊢; show _ ≤ b2.bal _ _; rw [hl]; exact this
  have hC2 : CInvD D ({ s with bank := b2 } : State) := by
    refine ⟨hC.nonneg, ?_⟩
    intro a; have := hC.custody a; unfold bal at this ⊢; show _ ≤ b2.bal _ _ + _; rw [hc]; exact this
  refine ⟨hL2.frame' f1 f2 f3 f4, hC2.frame' f5 f4, ?_⟩
  intro a; unfold bal; rw [f5, f4]; show _ - b2.bal _ _ = _; rw [hc]

theorem repairedDebtClose_inv {s s' : State} {app asset : Nat} {c d : Int} (hL : LInv s) (hC : CInvD D s)
    (h : stepRepaired s (.v2DebtClose app asset c d) = some s') : LInv s' ∧ CInvD D s' ∧ Delta s s' := by
  simp only [stepRepaired] at h
  cases h1 : ((creditCollector s asset d).bind fun s1 => setNetFee s1 (app, asset) d) with
  | none => simp [h1] at h
  | some s2 =>
    simp only [h1, Option.bind_some] at h
    obtain ⟨f1, f2, f3, f4, f5⟩ := clearActive_spec h
    obtain ⟨a, b, c'⟩ := auctionReturn_inv (app := app) (asset := asset) (x := d) hL hC h1
    refine ⟨a.frame' f1 f2 f3 f4, b.frame' f5 f4, ?_⟩
    intro x; have := c' x; unfold bal at this ⊢; rw [f5, f4]; exact this

/-! ## the reward computed inside the model -/

theorem LInv.frame {s s' : State} (h : LInv s) (h1 : s'.lockers = s.lockers) (h2 : s'.lookup = s.lookup)
    (h3 : s'.lastId = s.lastId) (h4 : s'.bank = s.bank) : LInv s' := by
  refine ⟨?_, ?_, ?_, ?_, ?_, ?_⟩
  · rw [h1, h3]; exact h.idsLe
  · rw [h1]; exact h.netNonneg
  · intro k; have := h.depEq k; unfold dep at this ⊢; rw [h1, h2]; exact this
  · intro a; have := h.custody a; unfold bal at this ⊢; rw [h2, h4]; exact this
  · rw [h1, h2]; exact h.ids
  · rw [h2]; exact h.depNonneg

theorem CInvD.frame {s s' : State} (h : CInvD D s) (h1 : s'.fees = s.fees) (h2 : s'.bank = s.bank) : CInvD D s' := by
  refine ⟨?_, ?_⟩
  · rw [h1]; exact h.nonneg
  · intro a; have := h.custody a; unfold bal at this ⊢; rw [h1, h2]; exact this

theorem Delta.frame {s s1 s' : State} (h : Delta s s1) (h1 : s'.fees = s1.fees) (h2 : s'.bank = s1.bank) : Delta s s' := by
  intro a; have := h a; unfold bal at this ⊢; rw [h1, h2]; exact this

/-- whatever `math.Pow` returned: what is handed to the ledger is admissible — a paid reward is at least one whole unit. -/
theorem trackerStep_pay_pos (tr x : Dec) (hge : Dec.one ≤ tr + x) : 1 ≤ (Accrual.trackerStep tr x).1 := by
  have h0 : 0 ≤ tr + x := by simp only [Dec, Dec.one, Dec.P] at *; omega
  unfold Accrual.trackerStep
  simp only [hge, if_true]
  simp only [Dec.truncateInt, Int.tdiv_eq_ediv_of_nonneg h0]
  simp only [Dec, Dec.one, Dec.P] at *
  omega

theorem accrue_pay_pos (s : State) (ctx : Ctx) (app asset id : Nat) (pw : Option Int) (ρ : Int)
    (h : (accrue s ctx app asset id pw).1 = .pay ρ) : 1 ≤ ρ := by
  unfold accrue at h
  split at h; · simp at h
  split at h; · simp at h
  split at h; · simp at h
  split at h
  · split at h
    · rename_i x hx
      simp only at h
      split at h
      · rename_i hge
        simp at h
        rw [← h]
        exact trackerStep_pay_pos _ _ hge
      · simp at h
    · simp at h
  · simp at h

theorem accrue_ok (s : State) (ctx : Ctx) (app asset id : Nat) (pw : Option Int) : (accrue s ctx app asset id pw).1.ok := by
  cases h : (accrue s ctx app asset id pw).1 with
  | none => trivial
  | fail => trivial
  | pay ρ => have := accrue_pay_pos s ctx app asset id pw ρ h; show 0 ≤ ρ; omega

def OpT.extOk : OpT → Prop
  | .plain op => op.extOk
  | _ => True

def OpT.dmg : OpT → Nat → Int
  | .plain op => op.dmg
  | _ => fun _ => 0

theorem OpT.dmg_nonneg (op : OpT) (a : Nat) : 0 ≤ op.dmg a := by
  cases op <;> simp only [OpT.dmg] <;> first | exact Op.dmg_nonneg _ a | exact Int.le_refl 0

theorem setTracker_frame (s : State) (id app : Nat) (t : Option Dec) :
    (setTracker s id app t).lockers = s.lockers ∧ (setTracker s id app t).lookup = s.lookup ∧
    (setTracker s id app t).lastId = s.lastId ∧ (setTracker s id app t).bank = s.bank ∧ (setTracker s id app t).fees = s.fees := by
  cases t <;> simp [setTracker]

theorem book_inv {s1 : State} (id app : Nat) (t : Option Dec) (ctx : Ctx) (hL : LInv s1) (hC : CInvD D s1) :
    LInv (touch (setTracker s1 id app t) id ctx) ∧ CInvD D (touch (setTracker s1 id app t) id ctx) := by
  obtain ⟨a, b, c, d, e⟩ := setTracker_frame s1 id app t
  exact ⟨hL.frame a b c d, hC.frame e d⟩

theorem HasKey.frame {s s' : State} {app asset id : Nat} (h : HasKey s app asset id) (h1 : s'.lockers = s.lockers) :
    HasKey s' app asset id := by
  obtain ⟨l, a, b, c⟩ := h; exact ⟨l, by rw [h1]; exact a, b, c⟩

theorem lsrIterT_inv {s s' : State} {ctx : Ctx} {app asset id : Nat} {lsr : Dec} {cbt : Int} {ct : Bool} {pw : Option Int} {cont : Bool}
    (hL : LInv s) (hC : CInvD D s) (hkey : HasKey s app asset id)
    (h : lsrIterT s ctx app asset id lsr cbt ct pw = some (s', cont)) :
    LInv s' ∧ CInvD D s' ∧ (∀ id', HasKey s app asset id' → HasKey s' app asset id') := by
  unfold lsrIterT at h
  split at h
  · rename_i l lt hl hlt
    split at h
    · simp at h
    · simp at h; obtain ⟨h1, _⟩ := h; subst h1; exact ⟨hL, hC, fun _ h => h⟩
    · rename_i x hx
      simp only at h
      split at h
      · rename_i hge
        have hL0 : LInv ({ s with trackers := Store.put s.trackers (id, app) (Accrual.trackerStep (tracker s id app) x).2 } : State) :=
          hL.frame rfl rfl rfl rfl
        have hC0 : CInvD D ({ s with trackers := Store.put s.trackers (id, app) (Accrual.trackerStep (tracker s id app) x).2 } : State) :=
          hC.frame rfl rfl
        have hρ : Rw.ok (.pay (Accrual.trackerStep (tracker s id app) x).1) := by
          show 0 ≤ _
          have := trackerStep_pay_pos _ _ hge
          omega
        split at h
        · simp at h
        · rename_i s1 hit
          obtain ⟨a, b, _, d, _⟩ := lsrIter_inv hL0 hC0 hρ (hkey.frame rfl) hit
          simp at h; obtain ⟨h1, _⟩ := h; subst h1
          exact ⟨a.frame rfl rfl rfl rfl, b.frame rfl rfl, fun id' hk => (d id' (hk.frame rfl)).frame rfl⟩
        · rename_i s1 r hit
          obtain ⟨a, b, _, d, _⟩ := lsrIter_inv hL0 hC0 hρ (hkey.frame rfl) hit
          simp at h; obtain ⟨h1, _⟩ := h; subst h1
          exact ⟨a, b, fun id' hk => d id' (hk.frame rfl)⟩
      · simp at h; obtain ⟨h1, _⟩ := h; subst h1
        exact ⟨hL.frame rfl rfl rfl rfl, hC.frame rfl rfl, fun id' hk => hk.frame rfl⟩
  · simp at h

theorem lsrLoopT_inv {ctx : Ctx} {app asset : Nat} {lsr : Dec} {cbt : Int} {ct : Bool} (ids : List Nat) :
    ∀ {s s' : State} {pws : List (Option Int)}, LInv s → CInvD D s → (∀ id ∈ ids, HasKey s app asset id) →
      lsrLoopT s ctx app asset lsr cbt ct ids pws = some s' → LInv s' ∧ CInvD D s' := by
  induction ids with
  | nil => intro s s' pws hL hC _ h; simp [lsrLoopT] at h; subst h; exact ⟨hL, hC⟩
  | cons id ids ih =>
    intro s s' pws hL hC hkeys h
    unfold lsrLoopT at h
    cases hit : lsrIterT s ctx app asset id lsr cbt ct (pws.headD none) with
    | none => rw [hit] at h; simp at h
    | some r =>
      obtain ⟨s1, cont⟩ := r
      obtain ⟨hL1, hC1, hk1⟩ := lsrIterT_inv hL hC (hkeys id (by simp)) hit
      rw [hit] at h
      cases cont with
      | false => simp at h; subst h; exact ⟨hL1, hC1⟩
      | true =>
        simp only at h
        exact ih hL1 hC1 (fun id' hid' => hk1 id' (hkeys id' (List.mem_cons_of_mem _ hid'))) h

theorem iterateRewards_inv {s s' : State} {ctx : Ctx} {app asset : Nat} {lsr : Dec} {cbt : Int} {ct : Bool} {pws : List (Option Int)}
    (hL : LInv s) (hC : CInvD D s) (h : iterateRewards s ctx app asset lsr cbt ct pws = some s') : LInv s' ∧ CInvD D s' := by
  unfold iterateRewards at h
  split at h
  · simp at h; subst h; exact ⟨hL, hC⟩
  · rename_i lk hlk
    apply lsrLoopT_inv lk.ids hL hC _ h
    intro id hid
    obtain ⟨l, hl, hk⟩ := (hL.ids _ _ hlk).2 id hid
    simp at hk
    exact ⟨l, hl, hk.1, hk.2⟩

/-- every timed operation, whatever `math.Pow` returned: the locker books stay exact, the collector books lose at most `dmg`. -/
theorem stepT_inv {s s' : State} {ctx : Ctx} {op : OpT} (hL : LInv s) (hC : CInvD D s) (hext : op.extOk)
    (h : stepT s ctx op = some s') : LInv s' ∧ CInvD (fun a => D a + op.dmg a) s' := by
  have mono0 : ∀ {s1 : State}, CInvD D s1 → CInvD (fun a => D a + 0) s1 := fun hc => hc.mono (fun a => by omega)
  cases op with
  | create u app asset amt =>
    simp only [stepT, Option.map_eq_some_iff] at h
    obtain ⟨s1, hs, rfl⟩ := h
    obtain ⟨a, b, _⟩ := create_inv hL hC hs
    exact ⟨a.frame rfl rfl rfl rfl, mono0 (b.frame rfl rfl)⟩
  | deposit u app asset id amt pw =>
    simp only [stepT, Option.map_eq_some_iff] at h
    obtain ⟨s1, hs, rfl⟩ := h
    obtain ⟨a, b, _⟩ := deposit_inv hL hC (accrue_ok s ctx app asset id pw) hs
    obtain ⟨a', b'⟩ := book_inv id app _ ctx a b
    exact ⟨a', mono0 b'⟩
  | withdraw u app asset id amt pw =>
    simp only [stepT, Option.map_eq_some_iff] at h
    obtain ⟨s1, hs, rfl⟩ := h
    obtain ⟨a, b, _⟩ := withdraw_inv hL hC (accrue_ok s ctx app asset id pw) hs
    obtain ⟨a', b'⟩ := book_inv id app _ ctx a b
    exact ⟨a', mono0 b'⟩
  | close u app asset id pw =>
    simp only [stepT, Option.map_eq_some_iff] at h
    obtain ⟨s1, hs, rfl⟩ := h
    obtain ⟨a, b, _⟩ := close_inv hL hC (accrue_ok s ctx app asset id pw) hs
    exact ⟨a.frame rfl rfl rfl rfl, mono0 (b.frame rfl rfl)⟩
  | rewardCalc app id pw =>
    simp only [stepT] at h
    split at h; · simp at h
    rename_i l hl
    simp only [Option.map_eq_some_iff] at h
    obtain ⟨s1, hs, rfl⟩ := h
    obtain ⟨a, b, _⟩ := rewardCalc_inv hL hC (accrue_ok s ctx app l.asset id pw) hs
    split
    · exact ⟨a, mono0 b⟩
    · obtain ⟨a', b'⟩ := book_inv id app (some _) ctx a b
      exact ⟨a', mono0 b'⟩
  | lsrUpdate app asset c pws =>
    simp only [stepT] at h
    split at h; · simp at h
    rename_i old hold
    have fin : ∀ {s1 : State} (bh bt : Int), LInv s1 → CInvD D s1 →
        LInv ({ s1 with collk := Store.put s1.collk (app, asset) { c with bh := bh, bt := bt } } : State) ∧
        CInvD (fun a => D a + 0) ({ s1 with collk := Store.put s1.collk (app, asset) { c with bh := bh, bt := bt } } : State) :=
      fun _ _ a b => ⟨a.frame rfl rfl rfl rfl, mono0 (b.frame rfl rfl)⟩
    split at h
    · split at h
      · simp only [Option.map_eq_some_iff] at h
        obtain ⟨s1, hs, rfl⟩ := h
        obtain ⟨a, b⟩ := iterateRewards_inv hL hC hs
        exact fin _ _ a b
      · split at h
        · simp at h; subst h; exact fin _ _ hL hC
        · split at h
          · simp only [Option.map_eq_some_iff] at h
            obtain ⟨s1, hs, rfl⟩ := h
            obtain ⟨a, b⟩ := iterateRewards_inv hL hC hs
            exact fin _ _ a b
          · simp at h; subst h; exact fin _ _ hL hC
    · simp at h; subst h; exact fin _ _ hL hC
  | wlReward app asset =>
    simp only [stepT] at h
    split at h; · simp at h
    split at h
    · simp at h; subst h; exact ⟨hL, mono0 hC⟩
    · simp at h; subst h; exact ⟨hL.frame rfl rfl rfl rfl, mono0 (hC.frame rfl rfl)⟩
  | plain op =>
    simp only [stepT] at h
    split at h
    · exact step_invD hL hC hext h
    · simp at h

/-! ## a paid reward never exceeds the recorded net fees of its (app, asset) -/

theorem reward_pay_le_fee {s s1 : State} {id app asset : Nat} {ρ : Int} (hρ : 0 ≤ ρ) {l : Locker}
    (hl : Store.get s.lockers id = some l) (hasset : l.asset = asset) (h : reward s id app asset (.pay ρ) = some s1) :
    ρ ≤ fee s (app, asset) ∧ fee s1 (app, asset) = fee s (app, asset) - ρ := by
  simp only [reward] at h
  obtain ⟨_, l0, _, hl0, hle, _, hfees, _⟩ := payReward_spec hρ h
  rw [hl] at hl0; cases hl0
  subst hasset
  refine ⟨hle, ?_⟩
  unfold fee at *
  rw [hfees, Store.get_put_self]; rfl

/-- the reward step inside a successful deposit / withdraw / close / reward-calc message -/
theorem msg_reward_some {s s' : State} {op : Op} (h : step s op = some s') :
    (∀ u app asset id amt rw, op = .deposit u app asset id amt rw →
      ∃ l s1, Store.get s.lockers id = some l ∧ l.asset = asset ∧ reward s id app asset rw = some s1) ∧
    (∀ u app asset id amt rw, op = .withdraw u app asset id amt rw →
      ∃ l s1, Store.get s.lockers id = some l ∧ l.asset = asset ∧ reward s id app asset rw = some s1) ∧
    (∀ u app asset id rw, op = .close u app asset id rw →
      ∃ l s1, Store.get s.lockers id = some l ∧ l.asset = asset ∧ reward s id app asset rw = some s1) ∧
    (∀ app id rw, op = .rewardCalc app id rw →
      ∃ l, Store.get s.lockers id = some l ∧ reward s id app l.asset rw = some s') := by
  refine ⟨?_, ?_, ?_, ?_⟩
  · intro u app asset id amt rw e; subst e
    simp only [step] at h
    split at h; · simp at h
    split at h; · simp at h
    split at h; · simp at h
    split at h; · simp at h
    rename_i l hg
    obtain ⟨hl, hasset, _⟩ := lockerGuards_spec hg
    split at h; · simp at h
    rename_i s1 hrw
    exact ⟨l, s1, hl, hasset, hrw⟩
  · intro u app asset id amt rw e; subst e
    simp only [step] at h
    split at h; · simp at h
    split at h; · simp at h
    rename_i l hg
    obtain ⟨hl, hasset, _⟩ := lockerGuards_spec hg
    split at h; · simp at h
    split at h; · simp at h
    rename_i s1 hrw
    exact ⟨l, s1, hl, hasset, hrw⟩
  · intro u app asset id rw e; subst e
    simp only [step] at h
    split at h; · simp at h
    split at h; · simp at h
    rename_i l hg
    obtain ⟨hl, hasset, _⟩ := lockerGuards_spec hg
    split at h; · simp at h
    rename_i s1 hrw
    exact ⟨l, s1, hl, hasset, hrw⟩
  · intro app id rw e; subst e
    simp only [step] at h
    split at h; · simp at h
    split at h; · simp at h
    split at h; · simp at h
    rename_i l hl
    split at h; · simp at h
    exact ⟨l, hl, h⟩

end Comdex.Locker
