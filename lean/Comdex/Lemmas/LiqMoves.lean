import Comdex.Lemmas.LiqDeficit
/-!
Which bank movements the liquidity ledger model can make at all (`Moves`): sends between real accounts, mint / burn
of POOL coins on the module account, credits of the ghost flow accounts — established once by walking through every
operation — and what follows for every history: no ordinary coin is ever minted or burnt (per coin denom the sum over
all real accounts is constant), and the bank keeps one entry per (account, denom).  Core Lean only.
-/
namespace Comdex.LiqLedger

def Acct.ghost : Acct → Bool
  | .mIn _ _ | .mOut _ _ => true
  | _ => false

/-- the bank movements of the model -/
inductive Moves : Bank → Bank → Prop
  | refl (b : Bank) : Moves b b
  | trans {a b c : Bank} : Moves a b → Moves b c → Moves a c
  | send {b b' : Bank} (f t : Acct) (d : Denom) (n : Nat) : f.ghost = false → t.ghost = false → f ≠ t →
      b.send f t d n = some b' → Moves b b'
  | mint (b : Bank) (a p n : Nat) : Moves b (b.add .module (.pool a p) n)
  | burn (b : Bank) (a p n : Nat) : Moves b (b.set (.module, .pool a p) (b.get (.module, .pool a p) - n))
  | credit (b : Bank) (g : Acct) (d : Denom) (n : Nat) : g.ghost = true → Moves b (b.add g d n)

theorem nonGhost_of {x : Acct} (h : NonGhost x) : x.ghost = false := by
  cases x <;> simp [Acct.ghost] <;> first | exact absurd rfl (h.1 _ _) | exact absurd rfl (h.2 _ _)

theorem mv_send {s s' : State} {f t : Acct} {d : Denom} {n : Nat} (hf : NonGhost f) (ht : NonGhost t) (hne : f ≠ t)
    (h : s.send f t d n = some s') : Moves s.bank s'.bank := by
  unfold State.send at h
  cases hb : s.bank.send f t d n with
  | none => simp [hb] at h
  | some b' => simp [hb] at h; subst h; exact Moves.send f t d n (nonGhost_of hf) (nonGhost_of ht) hne hb

theorem mv_fold {α : Type} {f : State → α → Option State} (hf : ∀ s x s', f s x = some s' → Moves s.bank s'.bank) :
    ∀ (l : List α) (s s' : State), foldOpt f s l = some s' → Moves s.bank s'.bank := by
  intro l
  induction l with
  | nil => intro s s' h; simp [foldOpt] at h; subst h; exact Moves.refl _
  | cons x t ih =>
    intro s s' h
    simp only [foldOpt] at h
    cases hx : f s x with
    | none => simp [hx] at h
    | some s1 => simp [hx] at h; exact (hf s x s1 hx).trans (ih s1 s' h)

theorem mv_burn {s s' : State} {a p n : Nat} (h : s.burn a p n = some s') : Moves s.bank s'.bank := by
  unfold State.burn at h
  split at h
  · split at h; · cases h
    split at h
    · cases h; exact Moves.burn _ _ _ _
    · cases h
  · cases h

theorem mv_finishOrder {cfg : Cfg} {s s' : State} {k : OKey} {st : OStatus} (h : finishOrder cfg s k st = some s') :
    Moves s.bank s'.bank := by
  unfold finishOrder at h
  split at h; · cases h
  split at h; · cases h; exact Moves.refl _
  split at h; · cases h
  simp only [] at h
  split at h; · cases h
  rename_i s1 h1
  split at h; · cases h
  rename_i s2 h2
  cases h
  exact (mv_send (by ng) (by ng) (by simp) h1).trans ((mv_send (by ng) (by ng) (by simp) h2).trans (Moves.refl _))

theorem mv_placeOrder {cfg : Cfg} {s s' : State} {app user pair : Nat} {typ : OType} {buy : Bool}
    {msgOffer msgPrice price amount : Nat} {lifespan : Int} {ext : Bool}
    (h : placeOrder cfg s app user pair typ buy msgOffer msgPrice price amount lifespan ext = some s') : Moves s.bank s'.bank := by
  unfold placeOrder at h
  split at h; · cases h
  split at h; · cases h
  split at h; · cases h
  split at h; · cases h
  split at h; · cases h
  simp only [] at h
  split at h; · cases h
  split at h; · cases h
  split at h; · cases h
  split at h; · cases h
  split at h; · cases h
  split at h; · cases h
  rename_i s1 h1
  cases h
  exact (mv_send (by ng) (by ng) (by simp) h1).trans (Moves.refl _)

theorem mv_cancelOrder {cfg : Cfg} {s s' : State} {app user pair id : Nat} (h : cancelOrder cfg s app user pair id = some s') :
    Moves s.bank s'.bank := by
  unfold cancelOrder at h
  split at h; · cases h
  split at h; · cases h
  split at h; · cases h
  split at h; · cases h
  split at h; · cases h
  split at h; · cases h
  split at h; · cases h
  exact mv_finishOrder h

theorem mv_cancelAll {cfg : Cfg} {s s' : State} {app user : Nat} {pairs : List Nat} (h : cancelAll cfg s app user pairs = some s') :
    Moves s.bank s'.bank := by
  unfold cancelAll at h
  split at h; · cases h
  split at h; · cases h
  split at h; · cases h
  refine mv_fold (fun s x s' hs => ?_) _ _ _ h
  unfold cancelAllStep at hs
  split at hs
  · cases hs; exact Moves.refl _
  · split at hs
    · split at hs
      · cases hs; exact Moves.refl _
      · split at hs
        · exact mv_finishOrder hs
        · cases hs; exact Moves.refl _
    · cases hs; exact Moves.refl _

theorem mv_cancelMMCore {cfg : Cfg} {s s' : State} {app user : Nat} {p : Pair} {skip : Bool}
    (h : cancelMMCore cfg s app user p skip = some s') : Moves s.bank s'.bank := by
  unfold cancelMMCore at h
  split at h
  · split at h
    · cases h
    · rename_i s1 h1
      cases h
      refine (mv_fold (fun s x s' hs => ?_) _ _ _ h1).trans (Moves.refl _)
      unfold cancelMMStep at hs
      split at hs
      · cases hs; exact Moves.refl _
      · split at hs
        · cases hs
        · split at hs
          · exact mv_finishOrder hs
          · cases hs; exact Moves.refl _
  · split at h
    · cases h; exact Moves.refl _
    · cases h

theorem mv_cancelMM {cfg : Cfg} {s s' : State} {app user pair : Nat} (h : cancelMM cfg s app user pair = some s') :
    Moves s.bank s'.bank := by
  unfold cancelMM at h
  split at h; · cases h
  split at h; · cases h
  exact mv_cancelMMCore h

theorem mv_mmOrder {cfg : Cfg} {s s' : State} {app user pair : Nat} {buys sells : List Tick} {lifespan : Int} {ext : Bool}
    (h : mmOrder cfg s app user pair buys sells lifespan ext = some s') : Moves s.bank s'.bank := by
  unfold mmOrder at h
  split at h; · cases h
  split at h; · cases h
  split at h; · cases h
  split at h; · cases h
  simp only [] at h
  split at h; · cases h
  split at h; · cases h
  split at h; · cases h
  split at h; · cases h
  rename_i s1 hc1
  split at h; · cases h
  rename_i s2 h2
  split at h; · cases h
  rename_i s3 h3
  cases h
  exact (mv_cancelMMCore hc1).trans ((mv_send (by ng) (by ng) (by simp) h2).trans ((mv_send (by ng) (by ng) (by simp) h3).trans (Moves.refl _)))

theorem mv_createPair {cfg : Cfg} {s s' : State} {app creator : Nat} {base quote : Denom} {ext : Bool}
    (h : createPair cfg s app creator base quote ext = some s') : Moves s.bank s'.bank := by
  unfold createPair at h
  split at h; · cases h
  split at h; · cases h
  split at h; · cases h
  split at h; · cases h
  split at h; · cases h
  rename_i s1 h1
  cases h
  exact (mv_send (by ng) (by ng) (by simp) h1).trans (Moves.refl _)

theorem mv_createPool {cfg : Cfg} {s s' : State} {app creator pair : Nat} {ranged : Bool} {dx dy ammPs : Nat} {ext : Bool}
    (h : createPool cfg s app creator pair ranged dx dy ammPs ext = some s') : Moves s.bank s'.bank := by
  unfold createPool at h
  split at h; · cases h
  split at h; · cases h
  split at h; · cases h
  split at h; · cases h
  simp only [] at h
  split at h; · cases h
  split at h; · cases h
  split at h; · cases h
  split at h; · cases h
  split at h; · cases h
  rename_i s1 h1
  split at h; · cases h
  rename_i s2 h2
  split at h; · cases h
  rename_i s3 h3
  exact (mv_send (by ng) (by ng) (by simp) h1).trans ((mv_send (by ng) (by ng) (by simp) h2).trans ((mv_send (by ng) (by ng) (by simp) h3).trans
    ((Moves.mint _ _ _ _).trans (mv_send (by ng) (by ng) (by simp) h))))

theorem mv_depositReq {cfg : Cfg} {s s' : State} {app user pool dx dy : Nat} {ext : Bool} {id : Nat}
    (h : depositReq cfg s app user pool dx dy ext = some (s', id)) : Moves s.bank s'.bank := by
  unfold depositReq at h
  split at h; · cases h
  split at h; · cases h
  split at h; · cases h
  split at h; · cases h
  split at h; · cases h
  split at h; · cases h
  split at h; · cases h
  rename_i s1 h1
  split at h; · cases h
  rename_i s2 h2
  simp only [Option.some.injEq, Prod.mk.injEq] at h
  obtain ⟨h, -⟩ := h
  subst h
  exact (mv_send (by ng) (by ng) (by simp) h1).trans ((mv_send (by ng) (by ng) (by simp) h2).trans (Moves.refl _))

theorem mv_withdrawReq {cfg : Cfg} {s s' : State} {app user pool pc : Nat} {ext : Bool} {id : Nat}
    (h : withdrawReq cfg s app user pool pc ext = some (s', id)) : Moves s.bank s'.bank := by
  unfold withdrawReq at h
  split at h; · cases h
  split at h; · cases h
  split at h; · cases h
  split at h; · cases h
  split at h; · cases h
  split at h; · cases h
  rename_i s1 h1
  simp only [Option.some.injEq, Prod.mk.injEq] at h
  obtain ⟨h, -⟩ := h
  subst h
  exact (mv_send (by ng) (by ng) (by simp) h1).trans (Moves.refl _)

theorem mv_failDep {s s' : State} {r : DepReq} (h : failDep s r = some s') : Moves s.bank s'.bank := by
  unfold failDep at h
  split at h; · cases h
  rename_i s1 h1
  split at h; · cases h
  rename_i s2 h2
  cases h
  exact (mv_send (by ng) (by ng) (by simp) h1).trans ((mv_send (by ng) (by ng) (by simp) h2).trans (Moves.refl _))

theorem mv_execDeposit {s s' : State} {a pl i ax ay pc : Nat} (h : execDeposit s a pl i ax ay pc = some s') : Moves s.bank s'.bank := by
  unfold execDeposit at h
  split at h; · cases h
  split at h; · cases h; exact Moves.refl _
  split at h; · cases h
  split at h; · exact mv_failDep h
  split at h; · cases h
  split at h; · exact (mv_failDep h : Moves (s.modPool a pl fun q => { q with disabled := true }).bank s'.bank)
  split at h; · exact mv_failDep h
  split at h; · cases h
  simp only [] at h
  split at h; · cases h
  rename_i s2 h2
  split at h; · cases h
  rename_i s3 h3
  split at h; · cases h
  rename_i s4 h4
  split at h; · cases h
  rename_i s5 h5
  split at h; · cases h
  rename_i s6 h6
  cases h
  exact (Moves.mint _ _ _ _ : Moves s.bank (s.mint a pl pc).bank).trans ((mv_send (by ng) (by ng) (by simp) h2).trans ((mv_send (by ng) (by ng) (by simp) h3).trans
    ((mv_send (by ng) (by ng) (by simp) h4).trans ((mv_send (by ng) (by ng) (by simp) h5).trans ((mv_send (by ng) (by ng) (by simp) h6).trans (Moves.refl _))))))

theorem mv_failWdr {s s' : State} {r : WdrReq} (h : failWdr s r = some s') : Moves s.bank s'.bank := by
  unfold failWdr at h
  split at h; · cases h
  rename_i s1 h1
  cases h
  exact (mv_send (by ng) (by ng) (by simp) h1).trans (Moves.refl _)

theorem mv_execWithdraw {s s' : State} {a pl i x y : Nat} (h : execWithdraw s a pl i x y = some s') : Moves s.bank s'.bank := by
  unfold execWithdraw at h
  split at h; · cases h
  split at h; · cases h; exact Moves.refl _
  split at h; · cases h
  split at h; · exact mv_failWdr h
  split at h; · cases h
  split at h; · exact (mv_failWdr h : Moves (s.modPool a pl fun q => { q with disabled := true }).bank s'.bank)
  split at h; · exact mv_failWdr h
  split at h; · cases h
  rename_i s1 h1
  split at h; · cases h
  rename_i s2 h2
  split at h; · cases h
  rename_i s3 h3
  split at h; · cases h
  rename_i s4 h4
  cases h
  refine (mv_send (by ng) (by ng) (by simp) h1).trans ((mv_send (by ng) (by ng) (by simp) h2).trans ((mv_send (by ng) (by ng) (by simp) h3).trans
    ((mv_burn h4).trans ?_)))
  split <;> exact Moves.refl _

theorem mv_farm {cfg : Cfg} {s s' : State} {app user pool amt : Nat} {ext : Bool} (h : farm cfg s app user pool amt ext = some s') :
    Moves s.bank s'.bank := by
  unfold farm at h
  split at h; · cases h
  split at h; · cases h
  split at h; · cases h
  split at h; · cases h
  split at h; · cases h
  rename_i s1 h1
  split at h <;> (cases h; exact (mv_send (by ng) (by ng) (by simp) h1).trans (Moves.refl _))

theorem mv_unfarm {cfg : Cfg} {s s' : State} {app user pool amt : Nat} {ext : Bool} (h : unfarm cfg s app user pool amt ext = some s') :
    Moves s.bank s'.bank := by
  unfold unfarm at h
  split at h; · cases h
  split at h; · cases h
  split at h; · cases h
  split at h; · cases h
  split at h; · cases h
  split at h; · cases h
  simp only [] at h
  split at h; · cases h
  split at h; · cases h
  rename_i s1 h1
  cases h
  exact (mv_send (by ng) (by ng) (by simp) h1).trans (Moves.refl _)

theorem mv_depositAndFarm {cfg : Cfg} {s s' : State} {app user pool dx dy ax ay pc : Nat} {ext : Bool}
    (h : depositAndFarm cfg s app user pool dx dy ax ay pc ext = some s') : Moves s.bank s'.bank := by
  unfold depositAndFarm at h
  split at h; · cases h
  rename_i s1 id h1
  split at h; · cases h
  rename_i s2 h2
  split at h; · cases h
  split at h; · cases h
  exact (mv_depositReq h1).trans ((mv_execDeposit h2).trans (mv_farm h))

theorem mv_unfarmAndWithdraw {cfg : Cfg} {s s' : State} {app user pool amt x y : Nat} {ext : Bool}
    (h : unfarmAndWithdraw cfg s app user pool amt x y ext = some s') : Moves s.bank s'.bank := by
  unfold unfarmAndWithdraw at h
  split at h; · cases h
  rename_i s1 h1
  split at h; · cases h
  rename_i s2 id h2
  exact (mv_unfarm h1).trans ((mv_withdrawReq h2).trans (mv_execWithdraw h))

theorem mv_prePass {cfg : Cfg} {s s' : State} {k : OKey} (h : prePass cfg s k = some s') : Moves s.bank s'.bank := by
  unfold prePass at h
  split at h; · cases h
  split at h
  · cases h; exact Moves.refl _
  · split at h
    · exact mv_finishOrder h
    · cases h; exact Moves.refl _
  · split at h
    · exact mv_finishOrder h
    · cases h; exact Moves.refl _
  · cases h; exact Moves.refl _
  · cases h

theorem mv_sweep {cfg : Cfg} {s s' : State} {k : OKey} (h : sweep cfg s k = some s') : Moves s.bank s'.bank := by
  unfold sweep at h
  split at h; · cases h
  split at h
  · exact mv_finishOrder h
  · split at h
    · exact mv_finishOrder h
    · cases h; exact Moves.refl _



/-! ### the batch -/

theorem mv_credit (s : State) (g : Acct) (d : Denom) (n : Nat) (hg : g.ghost = true) : Moves s.bank (s.credit g d n).bank :=
  Moves.credit _ _ _ _ hg

theorem mv_poolPayIn {p : Pair} {s s' : State} {f : PoolFlow} (h : poolPayIn p s f = some s') : Moves s.bank s'.bank := by
  unfold poolPayIn at h
  simp only [] at h
  split at h; · cases h
  rename_i s1 h1
  cases h
  exact (mv_send (by ng) (by ng) (by simp) h1).trans (mv_credit s1 _ _ _ rfl)

theorem mv_poolPayOut {p : Pair} {s s' : State} {f : PoolFlow} (h : poolPayOut p s f = some s') : Moves s.bank s'.bank := by
  unfold poolPayOut at h
  simp only [] at h
  split at h; · cases h
  rename_i s1 h1
  cases h
  exact (mv_send (by ng) (by ng) (by simp) h1).trans (mv_credit s1 _ _ _ rfl)

theorem mv_fillPayOut {p : Pair} {s s' : State} {f : Fill} (h : fillPayOut p s f = some s') : Moves s.bank s'.bank := by
  unfold fillPayOut at h
  simp only [] at h
  split at h; · cases h
  split at h; · cases h
  rename_i s1 h1
  cases h
  exact (mv_send (by ng) (by ng) (by simp) h1).trans (mv_credit s1 _ _ _ rfl)

theorem mv_fillOrder {cfg : Cfg} {p : Pair} {s s' : State} {f : Fill} (h : fillOrder cfg p s f = some s') : Moves s.bank s'.bank := by
  unfold fillOrder at h
  simp only [] at h
  split at h; · cases h
  split at h; · cases h
  have c : Moves s.bank ((s.modO (p.app, p.id, f.id) fun o => { o with openAmt := o.openAmt - f.matched, remaining := o.remaining - f.paid, received := o.received + f.recv, status := .partially }).credit (.mIn p.app p.id) (sideIn p f.buy) f.paid).bank :=
    Moves.credit _ _ _ _ rfl
  split at h
  · exact c.trans (mv_finishOrder h)
  · cases h; exact c

theorem mv_applyMatch {cfg : Cfg} {s s' : State} {p : Pair} {m : MatchIn} (h : applyMatch cfg s p m = some s') :
    Moves s.bank s'.bank := by
  unfold applyMatch at h
  split at h; · cases h
  rename_i s1 h1
  split at h; · cases h
  rename_i s2 h2
  split at h; · cases h
  rename_i s3 h3
  split at h; · cases h
  rename_i s4 h4
  split at h; · cases h
  rename_i s5 h5
  cases h
  exact (mv_fold (fun _ _ _ hh => mv_poolPayIn hh) _ _ _ h1).trans ((mv_fold (fun _ _ _ hh => mv_fillOrder hh) _ _ _ h2).trans
    ((mv_fold (fun _ _ _ hh => mv_fillPayOut hh) _ _ _ h3).trans ((mv_fold (fun _ _ _ hh => mv_poolPayOut hh) _ _ _ h4).trans
      ((mv_send (by ng) (by ng) (by simp) h5).trans (mv_credit s5 _ _ _ rfl)))))

theorem mv_execMatching {cfg : Cfg} {ms : List MatchIn} {s s' : State} {pk : Nat × Nat} (h : execMatching cfg ms s pk = some s') :
    Moves s.bank s'.bank := by
  unfold execMatching at h
  split at h; · cases h
  rename_i p hp
  simp only [] at h
  split at h; · cases h
  rename_i s1 h1
  split at h; · cases h
  rename_i s3 h3
  cases h
  exact (mv_fold (fun _ _ _ hh => mv_prePass hh) _ _ _ h1).trans (mv_applyMatch h3 : Moves (markDepleted s1 p).bank s3.bank)

theorem mv_endBlock {cfg : Cfg} {s s' : State} {app : Nat} {ms : List MatchIn} {dins : List DepIn} {wins : List WdrIn}
    (h : endBlock cfg s app ms dins wins = some s') : Moves s.bank s'.bank := by
  unfold endBlock at h
  split at h; · cases h
  split at h; · cases h; exact Moves.refl _
  simp only [] at h
  split at h; · cases h
  rename_i s1 h1
  split at h; · cases h
  rename_i s2 h2
  split at h; · cases h
  rename_i s3 h3
  split at h; · cases h
  rename_i s4 h4
  cases h
  show Moves s.bank s4.bank
  exact (mv_fold (fun _ _ _ hh => mv_execMatching hh) _ _ _ h1).trans ((mv_fold (fun _ _ _ hh => mv_sweep hh) _ _ _ h2).trans
    ((mv_fold (f := execDepStep dins) (fun _ _ _ hh => by unfold execDepStep at hh; exact mv_execDeposit hh) _ _ _ h3).trans
      (mv_fold (f := execWdrStep wins) (fun _ _ _ hh => by unfold execWdrStep at hh; exact mv_execWithdraw hh) _ _ _ h4)))

theorem mv_step {cfg : Cfg} {s s' : State} {op : Op} (h : step cfg s op = some s') : Moves s.bank s'.bank := by
  cases op with
  | block ht t => simp only [step, Option.some.injEq] at h; subst h; exact Moves.refl _
  | createPair a c b q e => exact mv_createPair h
  | createPool a c p r dx dy ps e => exact mv_createPool h
  | deposit a u p dx dy e =>
    simp only [step] at h
    cases hd : depositReq cfg s a u p dx dy e with
    | none => simp [hd] at h
    | some r => obtain ⟨s1, id⟩ := r; simp [hd] at h; subst h; exact mv_depositReq hd
  | withdraw a u p pc e =>
    simp only [step] at h
    cases hd : withdrawReq cfg s a u p pc e with
    | none => simp [hd] at h
    | some r => obtain ⟨s1, id⟩ := r; simp [hd] at h; subst h; exact mv_withdrawReq hd
  | order a u p t b od dd mo mp am l => obtain ⟨_, _, h⟩ := placeOrderMsg_core h; exact mv_placeOrder h
  | mmOrder a u p xs ns sa xb nb ba l => obtain ⟨_, _, h⟩ := mmOrderMsg_core h; exact mv_mmOrder h
  | cancel a u p i => exact mv_cancelOrder h
  | cancelAll a u ps => exact mv_cancelAll h
  | cancelMM a u p => exact mv_cancelMM h
  | farm a u p n e => exact mv_farm h
  | unfarm a u p n e => exact mv_unfarm h
  | depositAndFarm a u p dx dy ax ay pc e => exact mv_depositAndFarm h
  | unfarmAndWithdraw a u p n x y e => exact mv_unfarmAndWithdraw h
  | endBlock a ms ds ws => exact mv_endBlock h
  | beginBlock a => simp only [step, Option.some.injEq] at h; subst h; exact Moves.refl _
  | migrate =>
    simp only [step] at h
    unfold migrate at h
    split at h
    · cases h; exact Moves.refl _
    · cases h

theorem mv_runT {cfg : Cfg} (ops : List Op) : ∀ s, Moves s.bank (runT cfg s ops).bank := by
  induction ops with
  | nil => intro s; exact Moves.refl _
  | cons op ops ih =>
    intro s
    have h1 : Moves s.bank (stepT cfg s op).bank := by
      unfold stepT
      cases h : step cfg s op with
      | none => exact Moves.refl _
      | some s' => exact mv_step h
    exact h1.trans (ih _)

/-! ### consequences of `Moves` -/

/-- weighted sum of the bank entries -/
def bankSum (w : Key → Bool) (b : Bank) : Nat := sumOver (fun e => if w e.1 then e.2 else 0) b

theorem bankSum_set (w : Key → Bool) (b : Bank) (k : Key) (v : Nat) :
    bankSum w (b.set k v) + (if w k then b.get k else 0) = bankSum w b + (if w k then v else 0) := by
  unfold bankSum
  induction b with
  | nil => simp [Bank.set, Bank.get, sumOver]
  | cons e t ih =>
    obtain ⟨k0, v0⟩ := e
    by_cases h0 : k0 = k
    · subst h0; simp [Bank.set, Bank.get, sumOver]; omega
    · simp only [Bank.set, Bank.get, h0, if_false, sumOver]; omega

/-- per ordinary coin denom: the sum over all real (non-ghost) accounts -/
def coinTotal (n : Nat) (b : Bank) : Nat := bankSum (fun k => !k.1.ghost && decide (k.2 = Denom.coin n)) b

theorem coinTotal_moves {b b' : Bank} (h : Moves b b') (n : Nat) : coinTotal n b' = coinTotal n b := by
  induction h with
  | refl _ => rfl
  | trans _ _ ih1 ih2 => rw [ih2, ih1]
  | @send b b' f t d m hf ht hne hs =>
    unfold Bank.send at hs
    split at hs
    · rename_i hle
      simp only [Option.some.injEq] at hs
      subst hs
      unfold coinTotal
      have e1 := bankSum_set (fun k => !k.1.ghost && decide (k.2 = Denom.coin n)) b (f, d) (b.get (f, d) - m)
      have e2 := bankSum_set (fun k => !k.1.ghost && decide (k.2 = Denom.coin n)) (b.set (f, d) (b.get (f, d) - m)) (t, d)
        ((b.set (f, d) (b.get (f, d) - m)).get (t, d) + m)
      simp only [hf, ht, Bool.not_false, Bool.true_and] at e1 e2
      by_cases hd : d = Denom.coin n
      · subst hd; simp at e1 e2; omega
      · simp [hd] at e1 e2; omega
    · cases hs
  | mint b a p m =>
    unfold coinTotal Bank.add
    have e := bankSum_set (fun k => !k.1.ghost && decide (k.2 = Denom.coin n)) b (.module, .pool a p) (b.get (.module, .pool a p) + m)
    simp at e; exact e
  | burn b a p m =>
    unfold coinTotal
    have e := bankSum_set (fun k => !k.1.ghost && decide (k.2 = Denom.coin n)) b (.module, .pool a p) (b.get (.module, .pool a p) - m)
    simp at e; exact e
  | credit b g d m hg =>
    unfold coinTotal Bank.add
    have e := bankSum_set (fun k => !k.1.ghost && decide (k.2 = Denom.coin n)) b (g, d) (b.get (g, d) + m)
    simp [hg] at e; exact e

/-- one entry per (account, denom) -/
def KeysNodup (b : Bank) : Prop := (b.map (·.1)).Nodup

theorem keys_set_mem (b : Bank) (k : Key) (v : Nat) (hk : k ∈ b.map (·.1)) : (b.set k v).map (·.1) = b.map (·.1) := by
  induction b with
  | nil => simp at hk
  | cons e t ih =>
    obtain ⟨k0, v0⟩ := e
    by_cases h0 : k0 = k
    · subst h0; simp [Bank.set]
    · have hne : ¬ k = k0 := fun e => h0 e.symm
      simp only [List.map_cons, List.mem_cons, hne, false_or] at hk
      simp [Bank.set, h0, ih hk]

theorem keys_set_not_mem (b : Bank) (k : Key) (v : Nat) (hk : k ∉ b.map (·.1)) : (b.set k v).map (·.1) = b.map (·.1) ++ [k] := by
  induction b with
  | nil => simp [Bank.set]
  | cons e t ih =>
    obtain ⟨k0, v0⟩ := e
    simp only [List.map_cons, List.mem_cons, not_or] at hk
    have h0 : ¬ k0 = k := fun e => hk.1 e.symm
    simp [Bank.set, h0, ih hk.2]

theorem keysNodup_set {b : Bank} (h : KeysNodup b) (k : Key) (v : Nat) : KeysNodup (b.set k v) := by
  unfold KeysNodup at *
  by_cases hk : k ∈ b.map (·.1)
  · rw [keys_set_mem b k v hk]; exact h
  · rw [keys_set_not_mem b k v hk, List.nodup_append]
    refine ⟨h, by simp, ?_⟩
    intro x hx y hy
    simp only [List.mem_singleton] at hy
    subst hy
    intro e; subst e; exact hk hx

theorem keysNodup_moves {b b' : Bank} (h : Moves b b') (hb : KeysNodup b) : KeysNodup b' := by
  induction h with
  | refl _ => exact hb
  | trans _ _ ih1 ih2 => exact ih2 (ih1 hb)
  | @send b b' f t d m hf ht hne hs =>
    unfold Bank.send at hs
    split at hs
    · simp only [Option.some.injEq] at hs; subst hs
      exact keysNodup_set (keysNodup_set hb _ _) _ _
    · cases hs
  | mint b a p m => exact keysNodup_set hb _ _
  | burn b a p m => exact keysNodup_set hb _ _
  | credit b g d m hg => exact keysNodup_set hb _ _

theorem keysNodup_genesis (funds : List (Nat × Nat × Nat)) : KeysNodup (genesis funds).bank := by
  unfold genesis
  have : ∀ (b : Bank), KeysNodup b → KeysNodup (funds.foldl (fun b f => b.add (.user f.1) (.coin f.2.1) f.2.2) b) := by
    induction funds with
    | nil => intro b hb; exact hb
    | cons f t ih => intro b hb; exact ih _ (keysNodup_set hb _ _)
  exact this [] (by simp [KeysNodup])

/-! ### named amounts of a batch: dust collector and pool reserves -/

/-- accounts that `FinishOrder` never touches -/
def Acct.bystander : Acct → Bool
  | .reserve _ _ | .dust _ | .feeColl _ | .gEscrow | .module => true
  | _ => false

theorem bal_finishOrder_bystander {cfg : Cfg} {s s' : State} {k : OKey} {st : OStatus} (h : finishOrder cfg s k st = some s')
    (X : Acct) (hX : X.bystander = true) (d : Denom) : s'.bal X d = s.bal X d := by
  unfold finishOrder at h
  split at h; · cases h
  split at h; · cases h; rfl
  split at h; · cases h
  simp only [] at h
  split at h; · cases h
  rename_i s1 h1
  split at h; · cases h
  rename_i s2 h2
  cases h
  obtain ⟨-, -, b1⟩ := State.send_some (by simp) h1
  obtain ⟨-, -, b2⟩ := State.send_some (by simp) h2
  show s2.bal X d = _
  cases X <;> simp [Acct.bystander] at hX <;> simp [b2, b1]

theorem fold_acct {α : Type} {f : State → α → Option State} (X : Acct) (d : Denom) (inc dec : α → Nat)
    (hf : ∀ s x s', f s x = some s' → s'.bal X d + dec x = s.bal X d + inc x) :
    ∀ (l : List α) (s s' : State), foldOpt f s l = some s' →
      s'.bal X d + sumOver dec l = s.bal X d + sumOver inc l := by
  intro l
  induction l with
  | nil => intro s s' h; simp [foldOpt] at h; subst h; simp [sumOver]
  | cons x t ih =>
    intro s s' h
    simp only [foldOpt] at h
    cases hx : f s x with
    | none => simp [hx] at h
    | some s1 =>
      simp [hx] at h
      have e1 := hf s x s1 hx
      have e2 := ih s1 s' h
      simp only [sumOver]; omega

theorem bal_fillOrder_bystander {cfg : Cfg} {p : Pair} {s s' : State} {f : Fill} (h : fillOrder cfg p s f = some s')
    (X : Acct) (hX : X.bystander = true) (d : Denom) : s'.bal X d = s.bal X d := by
  unfold fillOrder at h
  simp only [] at h
  split at h; · cases h
  split at h; · cases h
  have c : ((s.modO (p.app, p.id, f.id) fun o => { o with openAmt := o.openAmt - f.matched, remaining := o.remaining - f.paid, received := o.received + f.recv, status := .partially }).credit (.mIn p.app p.id) (sideIn p f.buy) f.paid).bal X d = s.bal X d := by
    rw [State.bal_credit]
    cases X <;> simp [Acct.bystander] at hX <;> simp <;> rfl
  split at h
  · rw [bal_finishOrder_bystander h X hX d, c]
  · cases h; exact c

theorem bal_fillPayOut_bystander {p : Pair} {s s' : State} {f : Fill} (h : fillPayOut p s f = some s')
    (X : Acct) (hX : X.bystander = true) (d : Denom) : s'.bal X d = s.bal X d := by
  unfold fillPayOut at h
  simp only [] at h
  split at h; · cases h
  split at h; · cases h
  rename_i s1 h1
  cases h
  obtain ⟨-, -, b1⟩ := State.send_some (by simp) h1
  rw [State.bal_credit]
  cases X <;> simp [Acct.bystander] at hX <;> simp [b1]

/-- **the dust collector of the app receives exactly the match result's quote difference**, in the pair's quote denom;
no other dust collector and no other denom moves -/
theorem applyMatch_dust {cfg : Cfg} {s s' : State} {p : Pair} {m : MatchIn} (h : applyMatch cfg s p m = some s')
    (a : Nat) (d : Denom) :
    s'.bal (.dust a) d = s.bal (.dust a) d + (if a = p.app ∧ d = p.quote then m.dust else 0) := by
  unfold applyMatch at h
  split at h; · cases h
  rename_i s1 h1
  split at h; · cases h
  rename_i s2 h2
  split at h; · cases h
  rename_i s3 h3
  split at h; · cases h
  rename_i s4 h4
  split at h; · cases h
  rename_i s5 h5
  cases h
  have e1 := fold_acct (.dust a) d (fun _ => 0) (fun _ => 0) (fun s x s' hh => by
    unfold poolPayIn at hh; simp only [] at hh
    split at hh; · cases hh
    rename_i t ht; cases hh
    obtain ⟨-, -, b⟩ := State.send_some (by simp) ht
    rw [State.bal_credit]; simp [b]) _ _ _ h1
  have e2 := fold_acct (.dust a) d (fun _ => 0) (fun _ => 0)
    (fun s x s' hh => by rw [bal_fillOrder_bystander hh _ rfl d]) _ _ _ h2
  have e3 := fold_acct (.dust a) d (fun _ => 0) (fun _ => 0)
    (fun s x s' hh => by rw [bal_fillPayOut_bystander hh _ rfl d]) _ _ _ h3
  have e4 := fold_acct (.dust a) d (fun _ => 0) (fun _ => 0) (fun s x s' hh => by
    unfold poolPayOut at hh; simp only [] at hh
    split at hh; · cases hh
    rename_i t ht; cases hh
    obtain ⟨-, -, b⟩ := State.send_some (by simp) ht
    rw [State.bal_credit]; simp [b]) _ _ _ h4
  obtain ⟨-, -, b5⟩ := State.send_some (by simp) h5
  simp only [sumOver_zero, Nat.add_zero] at e1 e2 e3 e4
  rw [State.bal_credit]
  simp only [reduceCtorEq, false_and, if_false]
  rw [b5]
  by_cases hc : a = p.app ∧ d = p.quote
  · obtain ⟨rfl, rfl⟩ := hc; simp; omega
  · have : ¬ (Acct.dust a = Acct.dust p.app ∧ d = p.quote) := by intro hh; simp at hh; exact hc hh
    simp [hc, this]; omega

/-- **each pool reserve moves by exactly what its pool orders traded**: out by the paid offer coins, in by the received
demand coins of the flows of that pool; reserves of other apps / pools do not move -/
theorem applyMatch_reserve {cfg : Cfg} {s s' : State} {p : Pair} {m : MatchIn} (h : applyMatch cfg s p m = some s')
    (a pl : Nat) (d : Denom) :
    s'.bal (.reserve a pl) d + sumOver (fun f : PoolFlow => if a = p.app ∧ f.pool = pl ∧ sideIn p f.buy = d then f.paid else 0) m.pools =
    s.bal (.reserve a pl) d + sumOver (fun f : PoolFlow => if a = p.app ∧ f.pool = pl ∧ sideOut p f.buy = d then f.recv else 0) m.pools := by
  unfold applyMatch at h
  split at h; · cases h
  rename_i s1 h1
  split at h; · cases h
  rename_i s2 h2
  split at h; · cases h
  rename_i s3 h3
  split at h; · cases h
  rename_i s4 h4
  split at h; · cases h
  rename_i s5 h5
  cases h
  have e1 := fold_acct (.reserve a pl) d (fun _ => 0)
    (fun f : PoolFlow => if a = p.app ∧ f.pool = pl ∧ sideIn p f.buy = d then f.paid else 0) (fun s x s' hh => by
    unfold poolPayIn at hh; simp only [] at hh
    split at hh; · cases hh
    rename_i t ht; cases hh
    obtain ⟨le, -, b⟩ := State.send_some (by simp) ht
    rw [State.bal_credit]
    simp only [reduceCtorEq, false_and, if_false, Nat.add_zero]
    rw [b]
    by_cases hc : a = p.app ∧ x.pool = pl ∧ sideIn p x.buy = d
    · obtain ⟨rfl, rfl, rfl⟩ := hc; simp; omega
    · have : ¬ (Acct.reserve a pl = Acct.reserve p.app x.pool ∧ d = sideIn p x.buy) := by
        intro hh; simp at hh; exact hc ⟨hh.1.1, hh.1.2.symm, hh.2.symm⟩
      rw [if_neg hc, if_neg (by simp), if_neg this]; omega) _ _ _ h1
  have e2 := fold_acct (.reserve a pl) d (fun _ => 0) (fun _ => 0)
    (fun s x s' hh => by rw [bal_fillOrder_bystander hh _ rfl d]) _ _ _ h2
  have e3 := fold_acct (.reserve a pl) d (fun _ => 0) (fun _ => 0)
    (fun s x s' hh => by rw [bal_fillPayOut_bystander hh _ rfl d]) _ _ _ h3
  have e4 := fold_acct (.reserve a pl) d
    (fun f : PoolFlow => if a = p.app ∧ f.pool = pl ∧ sideOut p f.buy = d then f.recv else 0) (fun _ => 0) (fun s x s' hh => by
    unfold poolPayOut at hh; simp only [] at hh
    split at hh; · cases hh
    rename_i t ht; cases hh
    obtain ⟨le, -, b⟩ := State.send_some (by simp) ht
    rw [State.bal_credit]
    simp only [reduceCtorEq, false_and, if_false, Nat.add_zero]
    rw [b]
    by_cases hc : a = p.app ∧ x.pool = pl ∧ sideOut p x.buy = d
    · obtain ⟨rfl, rfl, rfl⟩ := hc; simp
    · have : ¬ (Acct.reserve a pl = Acct.reserve p.app x.pool ∧ d = sideOut p x.buy) := by
        intro hh; simp at hh; exact hc ⟨hh.1.1, hh.1.2.symm, hh.2.symm⟩
      rw [if_neg hc, if_neg this, if_neg (by simp)]; omega) _ _ _ h4
  obtain ⟨-, -, b5⟩ := State.send_some (by simp) h5
  simp only [sumOver_zero, Nat.add_zero] at e1 e2 e3 e4
  rw [State.bal_credit]
  simp only [reduceCtorEq, false_and, if_false]
  rw [b5]; simp
  omega

end Comdex.LiqLedger
