import Comdex.Lemmas.AmmTick
import Mathlib.Tactic.NormNum
/-!
Lemmas for C05, part 6: the order-book view and `FindMatchPrice`: a found price is a tick between the lowest sell and the
highest buy price; found ⇔ the book crosses.
-/
namespace Comdex.Amm
open Comdex

/-! ## the order-book view -/

/-- an accumulated-sums slice: prices strictly ordered along the slice by `R`, sums non-decreasing starting at `last` -/
def AccOk (R : Int → Int → Prop) : Int → AccSums → Prop
  | _, [] => True
  | last, (p, s) :: rest => last ≤ s ∧ (∀ q ∈ rest.map (·.1), R p q) ∧ AccOk R s rest

theorem sumBefore_ge (R : Int → Int → Prop) (stop : Int → Bool) (l : AccSums) (last : Int) (h : AccOk R last l) :
    last ≤ sumBefore stop l last := by
  induction l generalizing last with
  | nil => simp [sumBefore]
  | cons x rest ih =>
    obtain ⟨p, s⟩ := x
    obtain ⟨h1, _, h3⟩ := h
    unfold sumBefore
    split
    · omega
    · have := ih s h3; omega

/-- a predicate that stops earlier yields a smaller amount -/
theorem sumBefore_anti (R : Int → Int → Prop) (stop₁ stop₂ : Int → Bool) (hs : ∀ p, stop₁ p = true → stop₂ p = true)
    (l : AccSums) (last : Int) (h : AccOk R last l) : sumBefore stop₂ l last ≤ sumBefore stop₁ l last := by
  induction l generalizing last with
  | nil => simp [sumBefore]
  | cons x rest ih =>
    obtain ⟨p, s⟩ := x
    obtain ⟨h1, _, h3⟩ := h
    unfold sumBefore
    by_cases c1 : stop₁ p = true
    · simp [c1, hs p c1]
    · by_cases c2 : stop₂ p = true
      · simp only [c1, c2, if_true]
        have := sumBefore_ge R stop₁ rest s h3
        simp; omega
      · simp only [c1, c2]; exact ih s h3

theorem firstPositive_mem (l : AccSums) (q : Int) (h : firstPositive l = some q) : q ∈ l.map (·.1) := by
  induction l with
  | nil => simp [firstPositive] at h
  | cons x rest ih =>
    obtain ⟨p, s⟩ := x
    unfold firstPositive at h
    split at h
    · cases h; simp
    · simp [ih h]

/-- a positive amount before the stop means the first positive entry is not stopped -/
theorem sumBefore_pos (stop : Int → Bool) (l : AccSums) (last : Int) (hl : last ≤ 0)
    (h : 0 < sumBefore stop l last) : ∃ q, firstPositive l = some q ∧ stop q = false := by
  induction l generalizing last with
  | nil => simp [sumBefore] at h; omega
  | cons x rest ih =>
    obtain ⟨p, s⟩ := x
    unfold sumBefore at h
    unfold firstPositive
    by_cases c : stop p = true
    · simp [c] at h; omega
    · simp only [c] at h
      by_cases hs : s > 0
      · exact ⟨p, by simp [hs], by simpa using c⟩
      · simp only [hs, if_false]
        exact ih s (by omega) h

/-- and conversely (for a stop predicate that is upward closed along the slice) -/
theorem sumBefore_pos_of (R : Int → Int → Prop) (stop : Int → Bool)
    (hup : ∀ p q, R p q → stop p = true → stop q = true) (l : AccSums) (last : Int) (h : AccOk R last l)
    (q : Int) (hq : firstPositive l = some q) (hs : stop q = false) : 0 < sumBefore stop l last := by
  induction l generalizing last with
  | nil => simp [firstPositive] at hq
  | cons x rest ih =>
    obtain ⟨p, s⟩ := x
    obtain ⟨h1, h2, h3⟩ := h
    unfold firstPositive at hq
    unfold sumBefore
    by_cases hpos : s > 0
    · simp only [hpos, if_true, Option.some.injEq] at hq
      subst hq
      simp only [hs]
      have := sumBefore_ge R stop rest s h3
      simp; omega
    · simp only [hpos, if_false] at hq
      have hqm := firstPositive_mem rest q hq
      have hnp : stop p = false := by
        cases hc : stop p with
        | false => rfl
        | true => have := hup p q (h2 q hqm) hc; simp_all
      simp only [hnp]
      exact ih s h3 hq

/-- no positive entry: nothing before any stop -/
theorem firstPositive_none (l : AccSums) (last : Int) (stop : Int → Bool) (hl : last ≤ 0)
    (h : firstPositive l = none) : sumBefore stop l last ≤ 0 := by
  by_contra hc
  obtain ⟨q, hq, _⟩ := sumBefore_pos stop l last hl (by omega)
  rw [h] at hq; cases hq



/-- index of the highest tick -/
def hiIdx (prec : Nat) : Nat := idx prec (2 ^ 300 - 1)

/-- what `MakeView` of a well-formed book satisfies: slices strictly sorted with non-decreasing sums, prices on the grid -/
structure ViewOk (v : View) (prec : Nat) : Prop where
  buys : AccOk (fun p q => p > q) 0 v.buys
  sells : AccOk (fun p q => p < q) 0 v.sells
  buyTicks : ∀ q ∈ v.buys.map (·.1), ∃ k, k ≤ hiIdx prec ∧ q = ((T prec k : Nat) : Int)
  sellTicks : ∀ q ∈ v.sells.map (·.1), ∃ k, k ≤ hiIdx prec ∧ q = ((T prec k : Nat) : Int)

theorem View.sell_nonneg {v : View} {prec : Nat} (h : ViewOk v prec) (x : Int) : 0 ≤ v.sellAmountUnder x :=
  sumBefore_ge _ _ _ 0 h.sells

theorem View.buy_nonneg {v : View} {prec : Nat} (h : ViewOk v prec) (x : Int) : 0 ≤ v.buyAmountOver x :=
  sumBefore_ge _ _ _ 0 h.buys

theorem View.sell_mono {v : View} {prec : Nat} (h : ViewOk v prec) {x y : Int} (hxy : x ≤ y) :
    v.sellAmountUnder x ≤ v.sellAmountUnder y := by
  apply sumBefore_anti _ _ _ _ _ 0 h.sells
  intro p hp; simp only [decide_eq_true_eq] at hp ⊢; omega

theorem View.buy_anti {v : View} {prec : Nat} (h : ViewOk v prec) {x y : Int} (hxy : x ≤ y) :
    v.buyAmountOver y ≤ v.buyAmountOver x := by
  apply sumBefore_anti _ _ _ _ _ 0 h.buys
  intro p hp; simp only [decide_eq_true_eq] at hp ⊢; omega

theorem View.sell_pos_iff {v : View} {prec : Nat} (h : ViewOk v prec) (ls : Int) (hls : v.lowestSellPrice = some ls)
    (x : Int) : 0 < v.sellAmountUnder x ↔ ls ≤ x := by
  constructor
  · intro hp
    obtain ⟨q, hq, hs⟩ := sumBefore_pos _ v.sells 0 (by omega) hp
    unfold View.lowestSellPrice at hls
    rw [hls] at hq; cases hq
    simp only [decide_eq_false_iff_not] at hs; omega
  · intro hle
    apply sumBefore_pos_of (fun p q => p < q) _ _ v.sells 0 h.sells ls hls
    · simp only [decide_eq_false_iff_not]; omega
    · intro p q hpq hp; simp only [decide_eq_true_eq] at hp ⊢; omega

theorem View.buy_pos_iff {v : View} {prec : Nat} (h : ViewOk v prec) (hb : Int) (hhb : v.highestBuyPrice = some hb)
    (x : Int) : 0 < v.buyAmountOver x ↔ x ≤ hb := by
  constructor
  · intro hp
    obtain ⟨q, hq, hs⟩ := sumBefore_pos _ v.buys 0 (by omega) hp
    unfold View.highestBuyPrice at hhb
    rw [hhb] at hq; cases hq
    simp only [decide_eq_false_iff_not] at hs; omega
  · intro hle
    apply sumBefore_pos_of (fun p q => p > q) _ _ v.buys 0 h.buys hb hhb
    · simp only [decide_eq_false_iff_not]; omega
    · intro p q hpq hp; simp only [decide_eq_true_eq] at hp ⊢; omega



/-- the upward tick walk of `FindMatchPrice`: for a predicate that is monotone on `[0, H]` and true at `b ≤ H`, the walk finds
an index `≤ b` where the predicate holds -/
theorem walk_up (H : Nat) (hH : 1 ≤ H) (f : Int → Bool)
    (hmono : ∀ k k' : Nat, k ≤ k' → k' ≤ H → f k = true → f k' = true) (b : Nat) (hb : b ≤ H) (hfb : f b = true) :
    ∃ i : Nat, findFirstTrue 0 H f = some (i : Int) ∧ i ≤ b ∧ f i = true := by
  unfold findFirstTrue
  have h0 : (0 : Int) < (H : Int) := by omega
  rw [if_pos h0]
  simp only
  have hn : ((H : Int) - 0 + 1).toNat = H + 1 := by omega
  rw [hn]
  have hle := search_le_of_true (H + 1) (fun k => f (0 + (k : Int)))
    (fun a c hac hc ha => by
      simp only [Int.zero_add] at ha ⊢
      exact hmono a c hac (by omega) ha) b (by omega) (by simpa using hfb)
  obtain ⟨_, s2, _⟩ := search_spec (H + 1) (fun k => f (0 + (k : Int)))
  have hlt : search (H + 1) (fun k => f (0 + (k : Int))) < H + 1 := by omega
  have hf := s2 hlt
  simp only [Int.zero_add] at hf ⊢
  refine ⟨search (H + 1) (fun k => f (k : Int)), ?_, by simpa using hle, hf⟩
  have : ¬ ((search (H + 1) (fun k => f (k : Int)) : Nat) : Int) > (H : Int) := by
    have : search (H + 1) (fun k => f (k : Int)) ≤ b := by simpa using hle
    omega
  rw [if_neg this]

/-- the downward tick walk: for a predicate that is antitone on `[0, H]` and true at `a ≤ H`, the walk finds an index `≥ a` -/
theorem walk_down (H : Nat) (g : Int → Bool)
    (hanti : ∀ k k' : Nat, k ≤ k' → k' ≤ H → g k' = true → g k = true) (a : Nat) (ha : a ≤ H) (hga : g a = true) :
    ∃ j : Nat, findFirstTrue H 0 g = some (j : Int) ∧ a ≤ j ∧ j ≤ H ∧ g j = true := by
  unfold findFirstTrue
  have h0 : ¬ ((H : Int) < 0) := by omega
  rw [if_neg h0]
  simp only
  have hn : ((H : Int) - 0 + 1).toNat = H + 1 := by omega
  rw [hn]
  have hmono : ∀ x y : Nat, x ≤ y → y < H + 1 → g ((H : Int) - (x : Int)) = true → g ((H : Int) - (y : Int)) = true := by
    intro x y hxy hy hx
    have e1 : ((H : Int) - (x : Int)) = ((H - x : Nat) : Int) := by omega
    have e2 : ((H : Int) - (y : Int)) = ((H - y : Nat) : Int) := by omega
    rw [e1] at hx; rw [e2]
    exact hanti (H - y) (H - x) (by omega) (by omega) hx
  have hle := search_le_of_true (H + 1) (fun k => g ((H : Int) - (k : Int))) hmono (H - a) (by omega)
    (by
      have e : ((H : Int) - ((H - a : Nat) : Int)) = (a : Int) := by omega
      simp only [e]; exact hga)
  obtain ⟨_, s2, _⟩ := search_spec (H + 1) (fun k => g ((H : Int) - (k : Int)))
  have hlt : search (H + 1) (fun k => g ((H : Int) - (k : Int))) < H + 1 := by omega
  have hg := s2 hlt
  generalize search (H + 1) (fun k => g ((H : Int) - (k : Int))) = r at *
  have e : ((H : Int) - (r : Int)) = ((H - r : Nat) : Int) := by omega
  refine ⟨H - r, ?_, by omega, by omega, by rw [← e]; exact hg⟩
  have : ¬ ((H : Int) - (r : Int) < 0) := by omega
  rw [if_neg this, e]



theorem T_zero (prec : Nat) : T prec 0 = 10 ^ prec := by simp [T]

theorem lowestIdx (prec : Nat) : tickToIndex (lowestTick prec) prec = 0 := by
  have e : lowestTick prec = ((D prec (T prec 0) : Nat) : Int) := by
    rw [(D_T prec 0).1, T_zero]; unfold lowestTick; push_cast; rfl
  rw [e, tickToIndex_nat prec _ (T_pos prec 0), (D_T prec 0).2]; rfl

theorem highestIdx (prec : Nat) (hprec : 10 ^ prec < 2 ^ 300 - 1) :
    tickToIndex (highestTick prec) prec = ((hiIdx prec : Nat) : Int) ∧ 1 ≤ hiIdx prec := by
  have eN : (2037035976334486086268445688409378161051468393665936250636140449354381299763336706183397375 : Nat) = 2 ^ 300 - 1 := by decide
  have e : (2037035976334486086268445688409378161051468393665936250636140449354381299763336706183397375 : Int) = (((2 ^ 300 - 1 : Nat)) : Int) := by rw [← eN]; rfl
  constructor
  · unfold highestTick hiIdx
    rw [e, priceToDownTick_nat prec _ (by omega), tickToIndex_nat prec _ (by omega)]
  · unfold hiIdx
    obtain ⟨_, _, c3, _⟩ := grid_cell prec (2 ^ 300 - 1) (by omega)
    by_contra hc
    have h0 : idx prec (2 ^ 300 - 1) = 0 := by omega
    rw [h0, T_succ, T_zero] at c3
    simp at c3
    omega

theorem tickFromIndex_succ_nat (prec k : Nat) : tickFromIndex ((k : Int) + 1) prec = ((T prec (k + 1) : Nat) : Int) := by
  have : ((k : Int) + 1) = ((k + 1 : Nat) : Int) := by push_cast; rfl
  rw [this, tickFromIndex_nat]

/-- the tick below index `k` (the price `TickFromIndex(k-1)` that the downward walk looks at) is below the tick of `k` -/
theorem tickFromIndex_pred_lt (prec k : Nat) : tickFromIndex ((k : Int) - 1) prec < ((T prec k : Nat) : Int) := by
  cases k with
  | zero =>
    simp only [Nat.cast_zero, Int.zero_sub]
    rw [tickFromIndex_neg_one, T_zero]; push_cast; omega
  | succ k =>
    have : (((k + 1 : Nat) : Int) - 1) = (k : Int) := by push_cast; omega
    rw [this, tickFromIndex_nat]
    exact_mod_cast T_lt_succ prec k

theorem tickFromIndex_pred_mono (prec : Nat) {k k' : Nat} (h : k ≤ k') :
    tickFromIndex ((k : Int) - 1) prec ≤ tickFromIndex ((k' : Int) - 1) prec := by
  cases k with
  | zero =>
    cases k' with
    | zero => exact Int.le_refl _
    | succ k' =>
      have : (((k' + 1 : Nat) : Int) - 1) = (k' : Int) := by push_cast; omega
      rw [this, tickFromIndex_nat]
      simp only [Nat.cast_zero, Int.zero_sub]
      rw [tickFromIndex_neg_one]
      have := T_pos prec k'
      have : ((10 ^ prec : Nat) : Int) ≤ ((T prec k' : Nat) : Int) := by exact_mod_cast this
      push_cast at this; omega
  | succ k =>
    cases k' with
    | zero => omega
    | succ k' =>
      have e1 : (((k + 1 : Nat) : Int) - 1) = (k : Int) := by push_cast; omega
      have e2 : (((k' + 1 : Nat) : Int) - 1) = (k' : Int) := by push_cast; omega
      rw [e1, e2, tickFromIndex_nat, tickFromIndex_nat]
      exact_mod_cast T_mono prec (by omega : k ≤ k')

/-- **`FindMatchPrice` on a crossing book**: it finds a price, the price is a tick `T k`, and it lies between the lowest sell
price `T a` and the highest buy price `T b` -/
theorem findMatchPrice_crossing (v : View) (prec : Nat) (hprec : 10 ^ prec < 2 ^ 300 - 1) (hv : ViewOk v prec)
    (hb ls : Int) (hhb : v.highestBuyPrice = some hb) (hls : v.lowestSellPrice = some ls) (hcross : ls ≤ hb) :
    ∃ k a b : Nat, findMatchPrice v prec = some ((T prec k : Nat) : Int) ∧ ls = ((T prec a : Nat) : Int) ∧
      hb = ((T prec b : Nat) : Int) ∧ a ≤ k ∧ k ≤ b := by
  obtain ⟨b, hbH, hbT⟩ := hv.buyTicks hb (firstPositive_mem _ _ hhb)
  obtain ⟨a, haH, haT⟩ := hv.sellTicks ls (firstPositive_mem _ _ hls)
  have hab : a ≤ b := by
    rw [haT, hbT] at hcross
    exact (T_le_iff prec).mp (by exact_mod_cast hcross)
  obtain ⟨hH, hH1⟩ := highestIdx prec hprec
  -- upward walk
  obtain ⟨i, hi1, hi2, hi3⟩ := walk_up (hiIdx prec) hH1
    (fun i => decide (v.sellAmountUnder (tickFromIndex i prec) > 0) &&
      decide (v.buyAmountOver (tickFromIndex (i + 1) prec) ≤ v.sellAmountUnder (tickFromIndex i prec)))
    (by
      intro k k' hkk hk' hk
      simp only [Bool.and_eq_true, decide_eq_true_eq] at hk ⊢
      rw [tickFromIndex_nat, tickFromIndex_succ_nat] at hk ⊢
      have m1 := View.sell_mono hv (x := ((T prec k : Nat) : Int)) (y := ((T prec k' : Nat) : Int))
        (by exact_mod_cast T_mono prec hkk)
      have m2 := View.buy_anti hv (x := ((T prec (k + 1) : Nat) : Int)) (y := ((T prec (k' + 1) : Nat) : Int))
        (by exact_mod_cast T_mono prec (by omega : k + 1 ≤ k' + 1))
      omega)
    b hbH
    (by
      simp only [Bool.and_eq_true, decide_eq_true_eq]
      rw [tickFromIndex_nat, tickFromIndex_succ_nat]
      have p1 : 0 < v.sellAmountUnder ((T prec b : Nat) : Int) :=
        (View.sell_pos_iff hv ls hls _).mpr (by rw [← hbT]; exact hcross)
      have p2 : ¬ 0 < v.buyAmountOver ((T prec (b + 1) : Nat) : Int) := by
        intro hc
        have := (View.buy_pos_iff hv hb hhb _).mp hc
        rw [hbT] at this
        have := T_lt_succ prec b
        have : ((T prec b : Nat) : Int) < ((T prec (b + 1) : Nat) : Int) := by exact_mod_cast this
        omega
      have := View.buy_nonneg hv ((T prec (b + 1) : Nat) : Int)
      omega)
  -- downward walk
  obtain ⟨j, hj1, hj2, hj3, hj4⟩ := walk_down (hiIdx prec)
    (fun i => decide (v.buyAmountOver (tickFromIndex i prec) > 0) &&
      decide (v.buyAmountOver (tickFromIndex i prec) ≥ v.sellAmountUnder (tickFromIndex (i - 1) prec)))
    (by
      intro k k' hkk hk' hk
      simp only [Bool.and_eq_true, decide_eq_true_eq] at hk ⊢
      rw [tickFromIndex_nat] at hk ⊢
      have m1 := View.buy_anti hv (x := ((T prec k : Nat) : Int)) (y := ((T prec k' : Nat) : Int))
        (by exact_mod_cast T_mono prec hkk)
      have m2 := View.sell_mono hv (tickFromIndex_pred_mono prec hkk)
      omega)
    a haH
    (by
      simp only [Bool.and_eq_true, decide_eq_true_eq]
      rw [tickFromIndex_nat]
      have p1 : 0 < v.buyAmountOver ((T prec a : Nat) : Int) :=
        (View.buy_pos_iff hv hb hhb _).mpr (by rw [← haT]; exact hcross)
      have p2 : ¬ 0 < v.sellAmountUnder (tickFromIndex ((a : Int) - 1) prec) := by
        intro hc
        have := (View.sell_pos_iff hv ls hls _).mp hc
        have := tickFromIndex_pred_lt prec a
        rw [haT] at *
        omega
      have := View.sell_nonneg hv (tickFromIndex ((a : Int) - 1) prec)
      omega)
  -- bounds of the two indices
  simp only [Bool.and_eq_true, decide_eq_true_eq] at hi3 hj4
  rw [tickFromIndex_nat] at hi3 hj4
  have hai : a ≤ i := by
    have := (View.sell_pos_iff hv ls hls _).mp hi3.1
    rw [haT] at this
    exact (T_le_iff prec).mp (by exact_mod_cast this)
  have hjb : j ≤ b := by
    have := (View.buy_pos_iff hv hb hhb _).mp hj4.1
    rw [hbT] at this
    exact (T_le_iff prec).mp (by exact_mod_cast this)
  -- the mid price and its rounding
  have hmid : Dec.quoInt (tickFromIndex i prec + tickFromIndex j prec) 2 = (((T prec i + T prec j) / 2 : Nat) : Int) := by
    rw [tickFromIndex_nat, tickFromIndex_nat]
    unfold Dec.quoInt
    rw [Int.tdiv_eq_ediv_of_nonneg (by omega)]
    push_cast; rfl
  have hTa_i := T_mono prec hai
  have hTa_j := T_mono prec hj2
  have hTi_b := T_mono prec hi2
  have hTj_b := T_mono prec hjb
  obtain ⟨k, hk1, hk2, hk3⟩ := roundPrice_between prec a b ((T prec i + T prec j) / 2) (by omega) (by omega)
  refine ⟨k, a, b, ?_, haT, hbT, hk1, hk2⟩
  unfold findMatchPrice
  rw [hhb, hls]
  simp only
  rw [if_neg (by omega), lowestIdx, hH, hi1]
  simp only
  rw [hj1]
  simp only
  rw [hmid, hk3]



/-- a found price means: there is a buy, a sell, and they cross -/
theorem findMatchPrice_some_inv (v : View) (prec : Nat) (p : Int) (h : findMatchPrice v prec = some p) :
    ∃ hb ls, v.highestBuyPrice = some hb ∧ v.lowestSellPrice = some ls ∧ ls ≤ hb := by
  unfold findMatchPrice at h
  cases hhb : v.highestBuyPrice with
  | none => rw [hhb] at h; cases h
  | some hb =>
    cases hls : v.lowestSellPrice with
    | none => rw [hhb, hls] at h; cases h
    | some ls =>
      rw [hhb, hls] at h
      simp only at h
      by_cases hc : hb < ls
      · rw [if_pos hc] at h; cases h
      · exact ⟨hb, ls, rfl, rfl, by omega⟩


end Comdex.Amm
