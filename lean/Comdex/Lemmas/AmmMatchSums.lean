import Comdex.Lemmas.AmmMatchEngine
/-!
Lemmas for C05, part 3: sums.

* quote dust of a set of fills at one price (and of several rounds at different prices): between 0 and the number of fills
* `DistributeOrderAmountToOrders`: the two passes hand out exactly `min amt (total matchable)`; the plan of the whole
  function hands out exactly `amt` iff the orders that are finally filled can absorb it (`lossless`) — always the case
  for buy orders, not for sell orders (defect D2)
-/
namespace Comdex.Amm
open Comdex

/-! ## quote dust -/

theorem sum_ceil_bounds (p : Int) (hp : 0 ≤ p) (as : List Int) (ha : ∀ a ∈ as, 0 ≤ a) :
    p * sumInt as ≤ sumInt (as.map (quoteCeil p)) * Dec.P ∧
    sumInt (as.map (quoteCeil p)) * Dec.P ≤ p * sumInt as + (as.length : Int) * (Dec.P - 1) := by
  induction as with
  | nil => simp [sumInt]
  | cons a as ih =>
    have h0 : 0 ≤ p * a := Int.mul_nonneg hp (ha a (by simp))
    have h1 := quoteCeil_mul_le p a h0
    have h2 := le_quoteCeil_mul p a h0
    obtain ⟨i1, i2⟩ := ih (fun x hx => ha x (by simp [hx]))
    simp only [sumInt, List.map_cons, List.length_cons]
    push_cast
    constructor <;> nlinarith

theorem sum_floor_bounds (p : Int) (hp : 0 ≤ p) (as : List Int) (ha : ∀ a ∈ as, 0 ≤ a) :
    sumInt (as.map (quoteFloor p)) * Dec.P ≤ p * sumInt as ∧
    p * sumInt as ≤ sumInt (as.map (quoteFloor p)) * Dec.P + (as.length : Int) * (Dec.P - 1) := by
  induction as with
  | nil => simp [sumInt]
  | cons a as ih =>
    have h0 : 0 ≤ p * a := Int.mul_nonneg hp (ha a (by simp))
    have h1 := quoteFloor_mul_le p a h0
    have h2 := le_quoteFloor_mul p a h0
    obtain ⟨i1, i2⟩ := ih (fun x hx => ha x (by simp [hx]))
    simp only [sumInt, List.map_cons, List.length_cons]
    push_cast
    constructor <;> nlinarith

/-- dust of one round: buyers `bs` and sellers `ss` (amounts) all filled at price `p` -/
def roundDust (p : Int) (bs ss : List Int) : Int :=
  sumInt (bs.map (quoteCeil p)) - sumInt (ss.map (quoteFloor p))

/-- **dust of fills at one price**, given that the base coin is conserved: `0 ≤ dust`, and `dust·P ≤ #fills·(P-1)`,
i.e. `dust < #fills` as soon as there is a fill -/
theorem roundDust_bounds (p : Int) (hp : 0 ≤ p) (bs ss : List Int) (hb : ∀ a ∈ bs, 0 ≤ a) (hs : ∀ a ∈ ss, 0 ≤ a)
    (hc : sumInt bs = sumInt ss) :
    0 ≤ roundDust p bs ss ∧ roundDust p bs ss * Dec.P ≤ ((bs.length : Int) + ss.length) * (Dec.P - 1) := by
  obtain ⟨c1, c2⟩ := sum_ceil_bounds p hp bs hb
  obtain ⟨f1, f2⟩ := sum_floor_bounds p hp ss hs
  unfold roundDust
  rw [hc] at c1 c2
  have hP := P_pos
  constructor
  · have h : 0 ≤ (sumInt (bs.map (quoteCeil p)) - sumInt (ss.map (quoteFloor p))) * Dec.P := by nlinarith
    by_contra hneg
    have : (sumInt (bs.map (quoteCeil p)) - sumInt (ss.map (quoteFloor p))) * Dec.P < 0 :=
      Int.mul_neg_of_neg_of_pos (by omega) hP
    omega
  · nlinarith


/-! ## `DistributeOrderAmountToOrders`: how much the two passes hand out -/

/-- the second pass tops the first-pass shares up by `min rem (what is still free)` -/
theorem pass2_sum (os : List Order) (prev : List Int) (rem p : Int) (hr : 0 ≤ rem)
    (h : All2 (fun o a => 0 ≤ a ∧ a ≤ matchableAmount o p) os prev) :
    sumInt (pass2 os prev rem p) = sumInt prev + min rem (totalMatchable os p - sumInt prev) := by
  induction os generalizing prev rem with
  | nil => cases prev with
    | nil => simp [pass2, sumInt, totalMatchable]; omega
    | cons b bs => exact h.elim
  | cons o os ih =>
    cases prev with
    | nil => exact h.elim
    | cons b bs =>
      obtain ⟨⟨h1, h2⟩, h3⟩ := h
      have hcap : sumInt bs ≤ totalMatchable os p := by
        clear ih
        induction os generalizing bs with
        | nil => cases bs with
          | nil => simp [sumInt, totalMatchable]
          | cons _ _ => exact h3.elim
        | cons o' os' ih' =>
          cases bs with
          | nil => exact h3.elim
          | cons b' bs' =>
            have := ih' bs' h3.2
            have := h3.1.2
            simp only [sumInt, totalMatchable, List.map_cons] at *
            omega
      unfold pass2
      split
      · rename_i h0
        simp only [sumInt, totalMatchable, List.map_cons] at *
        omega
      · have := ih bs (rem - min rem (matchableAmount o p - b)) (by omega) h3
        simp only [sumInt, totalMatchable, List.map_cons] at *
        rw [this]
        omega



theorem planSum_zip (os : List Order) (l : List Int) (h : os.length = l.length) : planSum (os.zip l) = sumInt l := by
  unfold planSum
  induction os generalizing l with
  | nil => cases l with
    | nil => rfl
    | cons _ _ => simp at h
  | cons o os ih =>
    cases l with
    | nil => simp at h
    | cons x xs =>
      simp only [List.zip_cons_cons, List.map_cons, sumInt]
      rw [ih xs (by simpa using h)]

/-- **the two passes hand out exactly `min amt (total matchable)`** -/
theorem shares_sum (os : List Order) (amt p : Int) (hp : 0 < p) (hw : ∀ o ∈ os, Wf o) (hamt : 0 ≤ amt) :
    planSum (shares os amt p) = min amt (totalMatchable os p) := by
  have h1 := pass1_all2 os (totalAmount os) amt p (fun o ho => matchable_nonneg o p (hw o ho) hp)
  have h2 := sum_pass1_le os amt p hp hw hamt
  have h3 := pass2_sum os _ (amt - sumInt (pass1 os (totalAmount os) amt p)) p (by omega) h1
  unfold shares
  simp only
  rw [planSum_zip _ _ (all2_length (shares_all2 os amt p hp hw hamt)), h3]
  omega

/-- the plan of `DistributeOrderAmountToOrders` hands out exactly `amt` when nothing is lost in the re-runs -/
theorem planOrders_sum (fuel : Nat) (os : List Order) (amt p : Int) (hp : 0 < p) (hamt : 0 ≤ amt)
    (hw : ∀ o ∈ os, Wf o) (hl : lossless fuel os amt p = true) (plan : List (Order × Int))
    (h : planOrders fuel os amt p = some plan) : planSum plan = amt := by
  induction fuel generalizing os with
  | zero => simp [planOrders] at h
  | succ fuel ih =>
    unfold planOrders at h
    unfold lossless at hl
    rw [no_div_by_zero os p hp hw] at h
    simp only [Bool.false_eq_true, if_false] at h hl
    by_cases h1 : (List.filter (fun oa => shareOk oa.1 oa.2 p) (shares os amt p)).length = (shares os amt p).length
    · rw [if_pos h1] at h hl
      cases h
      rw [shares_sum os amt p hp hw hamt]
      simp only [decide_eq_true_eq] at hl
      omega
    · rw [if_neg h1] at h hl
      split at h
      · rename_i he
        rw [if_pos he] at hl
        exact ih os.dropLast (fun o ho => hw o (List.dropLast_subset os ho)) hl h
      · rename_i he
        rw [if_neg he] at hl
        refine ih _ ?_ hl h
        intro o ho
        rw [List.mem_map] at ho
        obtain ⟨oa, hoa, rfl⟩ := ho
        exact hw _ (shares_mem os amt p hp hw hamt oa (List.mem_filter.mp hoa).1).1

theorem planSum_filter_buys (l : List (Order × Int)) (p : Int) (hb : ∀ oa ∈ l, oa.1.dir = .buy) :
    planSum (l.filter (fun oa => shareOk oa.1 oa.2 p)) = planSum l := by
  induction l with
  | nil => rfl
  | cons x xs ih =>
    have hx := hb x (by simp)
    have ih' := ih (fun y hy => hb y (by simp [hy]))
    unfold planSum at *
    rw [List.filter_cons]
    split
    · simp only [List.map_cons, sumInt, ih']
    · rename_i hno
      unfold shareOk at hno
      simp [hx] at hno
      simp only [List.map_cons, sumInt, ih', hno]
      omega

theorem planSum_le_matchable (l : List (Order × Int)) (p : Int) (h : ∀ oa ∈ l, oa.2 ≤ matchableAmount oa.1 p) :
    planSum l ≤ totalMatchable (l.map (·.1)) p := by
  induction l with
  | nil => simp [planSum, totalMatchable, sumInt]
  | cons x xs ih =>
    have := h x (by simp)
    have := ih (fun y hy => h y (by simp [hy]))
    simp only [planSum, totalMatchable, List.map_cons, sumInt] at *
    omega

/-- **buy orders never lose anything**: for a list of buy orders that can absorb `amt`, every re-run still can -/
theorem lossless_buys (fuel : Nat) (os : List Order) (amt p : Int) (hp : 0 < p) (hamt : 0 ≤ amt)
    (hw : ∀ o ∈ os, Wf o) (hb : ∀ o ∈ os, o.dir = .buy) (hle : amt ≤ totalMatchable os p) :
    lossless fuel os amt p = true := by
  induction fuel generalizing os with
  | zero => rfl
  | succ fuel ih =>
    unfold lossless
    simp only
    have hsum := shares_sum os amt p hp hw hamt
    have hsum' : planSum (shares os amt p) = amt := by omega
    have hbz : ∀ oa ∈ shares os amt p, oa.1.dir = .buy :=
      fun oa hoa => hb _ (shares_mem os amt p hp hw hamt oa hoa).1
    have hfil := planSum_filter_buys (shares os amt p) p hbz
    by_cases h1 : (List.filter (fun oa => shareOk oa.1 oa.2 p) (shares os amt p)).length = (shares os amt p).length
    · rw [if_pos h1]; simpa using hle
    · rw [if_neg h1]
      split
      · rename_i he
        have : List.filter (fun oa => shareOk oa.1 oa.2 p) (shares os amt p) = [] := by simpa using he
        rw [this] at hfil
        have hz : planSum (shares os amt p) = 0 := by rw [← hfil]; rfl
        have h0 : amt = 0 := by omega
        apply ih os.dropLast (fun o ho => hw o (List.dropLast_subset os ho)) (fun o ho => hb o (List.dropLast_subset os ho))
        rw [h0]
        exact totalMatchable_nonneg _ p hp (fun o ho => hw o (List.dropLast_subset os ho))
      · have hsub : ∀ o ∈ (List.filter (fun oa => shareOk oa.1 oa.2 p) (shares os amt p)).map (·.1), o ∈ os := by
          intro o ho
          rw [List.mem_map] at ho
          obtain ⟨oa, hoa, rfl⟩ := ho
          exact (shares_mem os amt p hp hw hamt oa (List.mem_filter.mp hoa).1).1
        apply ih _ (fun o ho => hw o (hsub o ho)) (fun o ho => hb o (hsub o ho))
        have := planSum_le_matchable (List.filter (fun oa => shareOk oa.1 oa.2 p) (shares os amt p)) p
          (fun oa hoa => (shares_mem os amt p hp hw hamt oa (List.mem_filter.mp hoa).1).2.2)
        omega


end Comdex.Amm
