import Comdex.Lemmas.VaultCfg
/-! What every accepted message does to the supply (C02): `supply_delta_exact` — the supply of every denom moves by exactly
`supplyDelta` (Model/Vault.lean), a quantity read off the message and the pre-state: the new principal for the five minting
messages, minus the principal retired for repay / close / stable-mint withdrawal, minus the burn of the auction for the
settlement steps, and ZERO for everything else (deposits, withdrawals, interest booking, interest-only repayments, seizures,
emergency redemption of vaults). -/
namespace Comdex.Vault
open Comdex

theorem netSup_nil (d : Nat) : netSup [] d = 0 := rfl

theorem find_some_mem (s : State) (id : Nat) (v : VaultRec) (h : findVault s id = some v) : v ∈ s.vaults ∧ v.id = id := by
  unfold findVault at h; exact find_mem (·.id) s.vaults id v h

theorem create_supply (s s' : State) (p : Product) (e : Env) (f a pr : Nat) (i o : Int)
    (h : create s p e f a pr i o = some s') (d : Nat) :
    s'.supply d = s.supply d + if d = p.denomOut then o else 0 := by
  unfold create at h
  split at h; · cases h
  split at h; · cases h
  split at h; · cases h
  split at h; · cases h
  split at h; · cases h
  split at h; · cases h
  split at h; · cases h
  simp only [Option.map_eq_some_iff] at h
  obtain ⟨s1, hb, rfl⟩ := h
  show s1.supply d = _
  rw [(runBank_effect _ s s1 hb).supply d, netSup_cons, mintAndSplit_netSup]
  simp [BankOp.dSup]

theorem deposit_supply (s s' : State) (p : Product) (e : Env) (f a pr v : Nat) (x : Int)
    (h : deposit s p e f a pr v x = some s') : s'.supply = s.supply := by
  unfold deposit at h
  split at h; · cases h
  split at h; · cases h
  split at h; · cases h
  simp only [Option.map_eq_some_iff] at h
  obtain ⟨s1, hb, rfl⟩ := h
  funext d
  show s1.supply d = _
  rw [(runBank_effect _ s s1 hb).supply d]; simp [netSup, BankOp.dSup]

theorem withdraw_supply (s s' : State) (p : Product) (e : Env) (f a pr v : Nat) (x : Int)
    (h : withdraw s p e f a pr v x = some s') : s'.supply = s.supply := by
  unfold withdraw at h
  split at h; · cases h
  split at h; · cases h
  split at h; · cases h
  split at h; · cases h
  simp only [Option.map_eq_some_iff] at h
  obtain ⟨s1, hb, rfl⟩ := h
  funext d
  show s1.supply d = _
  rw [(runBank_effect _ s s1 hb).supply d]; simp [netSup, BankOp.dSup]

theorem draw_supply (s s' : State) (p : Product) (e : Env) (f a pr v : Nat) (x : Int)
    (h : draw s p e f a pr v x = some s') (d : Nat) :
    s'.supply d = s.supply d + if d = p.denomOut then x else 0 := by
  unfold draw at h
  split at h; · cases h
  split at h; · cases h
  split at h; · cases h
  split at h; · cases h
  simp only [Option.map_eq_some_iff] at h
  obtain ⟨s1, hb, rfl⟩ := h
  show s1.supply d = _
  rw [(runBank_effect _ s s1 hb).supply d, mintAndSplit_netSup]

/-- the vault `ownedVault` returns is the stored vault with the accrued interest added -/
theorem ownedVault_find (s : State) (p : Product) (e : Env) (f a pr vid : Nat) (v : VaultRec)
    (h : ownedVault s p e f a pr vid = some v) :
    ∃ v0 i, findVault s vid = some v0 ∧ e.iota = some i ∧ v = { v0 with interest := v0.interest + i } := by
  unfold ownedVault at h
  split at h; · cases h
  cases hf : findVault s vid with
  | none => simp [hf] at h
  | some v0 =>
    cases hi : e.iota with
    | none => simp [hf, hi] at h
    | some i =>
      simp only [hf, hi] at h
      split at h; · cases h
      cases h
      exact ⟨v0, i, rfl, rfl, rfl⟩

theorem repay_supply (s s' : State) (p : Product) (e : Env) (f a pr v : Nat) (x : Int)
    (h : repay s p e f a pr v x = some s') (d : Nat) :
    s'.supply d = s.supply d + if d = p.denomOut then supplyDeltaP s p e (.repay f a pr v x) else 0 := by
  unfold repay at h
  split at h; · cases h
  split at h; · cases h
  next w hov =>
  obtain ⟨v0, i, hf, hi, rfl⟩ := ownedVault_find s p e f a pr v w hov
  simp only [supplyDeltaP, hf, hi]
  split at h; · cases h
  split at h
  next hle =>
    simp only [Option.map_eq_some_iff] at h
    obtain ⟨s1, hb, rfl⟩ := h
    show s1.supply d = _
    rw [(runBank_effect _ s s1 hb).supply d]
    simp only at hle
    simp [netSup, BankOp.dSup, hle]
  next hgt =>
    split at h; · cases h
    simp only [Option.map_eq_some_iff] at h
    obtain ⟨s1, hb, rfl⟩ := h
    show s1.supply d = _
    rw [(runBank_effect _ s s1 hb).supply d]
    simp only at hgt
    have : x - (v0.interest + i) > 0 := by omega
    by_cases hd : d = p.denomOut <;> simp [netSup, BankOp.dSup, hgt, hd]

theorem close_supply (s s' : State) (p : Product) (e : Env) (f a pr v : Nat)
    (hwf : ∀ w ∈ s.vaults, 0 ≤ w.amountOut)
    (h : close s p e f a pr v = some s') (d : Nat) :
    s'.supply d = s.supply d + if d = p.denomOut then supplyDeltaP s p e (.close f a pr v) else 0 := by
  unfold close at h
  split at h; · cases h
  split at h; · cases h
  next w hov =>
  obtain ⟨v0, i, hf, hi, rfl⟩ := ownedVault_find s p e f a pr v w hov
  simp only [supplyDeltaP, hf]
  simp only [Option.map_eq_some_iff] at h
  obtain ⟨s1, hb, rfl⟩ := h
  show s1.supply d = _
  rw [(runBank_effect _ s s1 hb).supply d]
  have h0 := hwf v0 (find_some_mem s v v0 hf).1
  by_cases hd : d = p.denomOut
  · by_cases hz : v0.amountOut > 0
    · simp [netSup, BankOp.dSup, hd, hz]
    · have : v0.amountOut = 0 := by omega
      simp [netSup, BankOp.dSup, hd, this]
  · simp [netSup, BankOp.dSup, hd]

theorem depositAndDraw_supply (s s' : State) (p : Product) (e : Env) (f a pr v : Nat) (x : Int)
    (h : depositAndDraw s p e f a pr v x = some s') (d : Nat) :
    s'.supply d = s.supply d + if d = p.denomOut then supplyDeltaP s p e (.depositAndDraw f a pr v x) else 0 := by
  unfold depositAndDraw at h
  cases hf : findVault s v with
  | none => simp [hf] at h
  | some v0 =>
    simp only [hf] at h
    cases hu : userToken v0 x with
    | none => simp [hu] at h
    | some na =>
      simp only [hu] at h
      cases hd : deposit s p e f a pr v x with
      | none => simp [hd] at h
      | some s1 =>
        simp only [hd] at h
        rw [draw_supply s1 s' p _ f a pr v na h d, deposit_supply s s1 p e f a pr v x hd]
        simp [supplyDeltaP, hf, hu]

theorem stableCreate_supply (s s' : State) (p : Product) (e : Env) (f a pr : Nat) (x : Int)
    (h : stableCreate s p e f a pr x = some s') (d : Nat) :
    s'.supply d = s.supply d + if d = p.denomOut then otherToken x p.decIn p.decOut else 0 := by
  unfold stableCreate at h
  split at h; · cases h
  split at h; · cases h
  split at h; · cases h
  split at h; · cases h
  simp only [Option.map_eq_some_iff] at h
  obtain ⟨s1, hb, rfl⟩ := h
  show s1.supply d = _
  rw [(runBank_effect _ s s1 hb).supply d, netSup_cons, mintAndSplit_netSup]
  simp [BankOp.dSup]

theorem stableDeposit_supply (s s' : State) (p : Product) (e : Env) (f a pr v : Nat) (x : Int)
    (h : stableDeposit s p e f a pr v x = some s') (d : Nat) :
    s'.supply d = s.supply d + if d = p.denomOut then otherToken x p.decIn p.decOut else 0 := by
  unfold stableDeposit at h
  split at h; · cases h
  split at h; · cases h
  split at h; · cases h
  split at h; · cases h
  split at h; · cases h
  split at h; · cases h
  simp only [Option.map_eq_some_iff] at h
  obtain ⟨s1, hb, rfl⟩ := h
  show s1.supply d = _
  rw [(runBank_effect _ s s1 hb).supply d, netSup_cons, mintAndSplit_netSup]
  simp [BankOp.dSup]

theorem stableWithdraw_supply (s s' : State) (p : Product) (e : Env) (f a pr v : Nat) (x : Int) (hp : ProductOk p)
    (h : stableWithdraw s p e f a pr v x = some s') (d : Nat) :
    s'.supply d = s.supply d + if d = p.denomOut then -(stableWithdrawAmounts p x).1 else 0 := by
  unfold stableWithdraw at h
  split at h; · cases h
  next g1 =>
  simp only [not_or, Int.not_le] at g1
  split at h; · cases h
  split at h; · cases h
  split at h; · cases h
  split at h; · cases h
  simp only [Option.map_eq_some_iff] at h
  obtain ⟨s1, hb, rfl⟩ := h
  show s1.supply d = _
  rw [(runBank_effect _ s s1 hb).supply d]
  unfold stableWithdrawOps stableWithdrawAmounts
  by_cases hz : p.drawDownFee = 0
  · by_cases hd : d = p.denomOut <;> simp [hz, netSup, BankOp.dSup, hd]
  · have hx : 0 < x := g1.2.2.2.2.2
    have hlt := feeOf_lt x p.drawDownFee hx hp.1 hp.2.1
    have hup : x - feeOf x p.drawDownFee > 0 := by omega
    by_cases hd : d = p.denomOut <;> simp [hz, hlt, netSup, BankOp.dSup, hd]

theorem seize_supply (s s' : State) (p : Product) (e : Env) (v : Nat) (h : seize s p e v = some s') : s'.supply = s.supply := by
  unfold seize at h
  cases hf : findVault s v with
  | none => simp [hf] at h
  | some v0 =>
    cases hi : e.iota with
    | none => simp [hf, hi] at h
    | some i =>
      simp only [hf, hi] at h
      split at h; · cases h
      simp only [Option.map_eq_some_iff] at h
      obtain ⟨s1, hb, rfl⟩ := h
      funext d
      show s1.supply d = _
      rw [(runBank_effect _ s s1 hb).supply d]; simp [netSup, BankOp.dSup]

theorem interestCalc_supply (s s' : State) (e : Env) (v : Nat) (h : interestCalc s e v = some s') : s'.supply = s.supply := by
  unfold interestCalc at h
  cases hf : findVault s v with
  | none => simp [hf] at h
  | some v0 =>
    cases hi : e.iota with
    | none => simp [hf, hi] at h
    | some i =>
      simp only [hf, hi] at h
      split at h; · cases h
      cases h; rfl

theorem esmVault_supply (s s' : State) (p : Product) (e : Env) (v : Nat) (h : esmVault s p e v = some s') : s'.supply = s.supply := by
  unfold esmVault at h
  cases hf : findVault s v with
  | none => simp [hf] at h
  | some v0 =>
    simp only [hf] at h
    split at h; · cases h
    simp only [Option.map_eq_some_iff] at h
    obtain ⟨s1, hb, rfl⟩ := h
    funext d
    show s1.supply d = _
    rw [(runBank_effect _ s s1 hb).supply d]; simp [netSup, BankOp.dSup]

theorem esmStable_supply (s s' : State) (p : Product) (e : Env) (v : Nat) (h : esmStable s p e v = some s') : s'.supply = s.supply := by
  unfold esmStable at h
  cases hf : findStable s v with
  | none => simp [hf] at h
  | some v0 =>
    simp only [hf] at h
    split at h; · cases h
    simp only [Option.map_eq_some_iff] at h
    obtain ⟨s1, hb, rfl⟩ := h
    funext d
    show s1.supply d = _
    rw [(runBank_effect _ s s1 hb).supply d]; simp [netSup, BankOp.dSup]

theorem settle_supply (s s' : State) (p : Product) (v : Nat) (h : settle s p v = some s') (d : Nat) :
    s'.supply d = s.supply d + if d = p.denomOut then supplyDeltaP s p {} (.settle v) else 0 := by
  unfold settle at h
  simp only [supplyDeltaP]
  cases hf : s.locked.find? (fun x => decide (x.vaultId = v)) with
  | none => simp [hf] at h
  | some l =>
    simp only [hf] at h ⊢
    split at h; · cases h
    cases h
    by_cases hd : d = p.denomOut <;> simp [upd1, hd]; omega

theorem settle1_supply (s s' : State) (p : Product) (v : Nat) (h : settle1 s p v = some s') (d : Nat) :
    s'.supply d = s.supply d + if d = p.denomOut then supplyDeltaP s p {} (.settle1 v) else 0 := by
  unfold settle1 at h
  simp only [supplyDeltaP]
  cases hf : s.locked.find? (fun x => decide (x.vaultId = v)) with
  | none => simp [hf] at h
  | some l =>
    simp only [hf] at h ⊢
    split at h; · cases h
    cases h
    by_cases hd : d = p.denomOut <;> simp [upd1, hd]; omega

theorem creditVault_supply (s s' : State) (p : Product) (o : Nat) (cin cout : Int) (h : creditVault s p o cin cout = some s') (d : Nat) :
    s'.supply d = s.supply d + if d = p.denomOut then cout else 0 := by
  unfold creditVault at h
  split at h; · cases h
  simp only [Option.map_eq_some_iff] at h
  obtain ⟨s1, hb, rfl⟩ := h
  have hs := (runBank_effect _ s s1 hb).supply
  have h1 : ∀ d, s1.supply d = s.supply d := by intro d; rw [hs d]; simp [netSup, BankOp.dSup]
  split <;> (by_cases hd : d = p.denomOut <;> simp [upd1, hd, h1])

theorem esmReturn1_supply (s s' : State) (p : Product) (e : Env) (v o : Nat) (cur infl : Int)
    (h : esmReturn1 s p e v o cur infl = some s') (d : Nat) :
    s'.supply d = s.supply d + if d = p.denomOut then -infl else 0 := by
  unfold esmReturn1 at h
  cases hf : s.locked.find? (fun x => decide (x.vaultId = v)) with
  | none => simp [hf] at h
  | some l =>
    simp only [hf] at h
    split at h; · cases h
    cases h1 : settle1 s p v with
    | none => simp [h1] at h
    | some s1 =>
      simp only [h1, Option.bind_some] at h
      rw [creditVault_supply s1 s' p o cur _ h d, settle1_supply s s1 p v h1 d]
      simp only [supplyDeltaP, hf]
      by_cases hd : d = p.denomOut <;> simp [hd]; omega

theorem creditRecord_supply (s : State) (p : Product) (o : Nat) (cin cout : Int) : (creditRecord s p o cin cout).supply = s.supply := by
  unfold creditRecord; split <;> rfl

theorem esmReturn2_supply (s s' : State) (p : Product) (e : Env) (v o : Nat) (cur cd fee : Int)
    (h : esmReturn2 s p e v o cur cd fee = some s') (d : Nat) :
    s'.supply d = s.supply d + if d = p.denomOut then supplyDeltaP s p e (.esmReturn2 v o cur cd fee) else 0 := by
  unfold esmReturn2 at h
  simp only [supplyDeltaP]
  cases hf : s.locked.find? (fun x => decide (x.vaultId = v)) with
  | none => simp [hf] at h
  | some l =>
    simp only [hf] at h ⊢
    split at h; · cases h
    cases h
    rw [creditRecord_supply]
    by_cases hd : d = p.denomOut <;> simp [upd1, hd]; omega

/-- the supply effect of a message that names a product, for the parameters in force -/
theorem stepP_supply (s s' : State) (p : Product) (e : Env) (m : Msg) (hp : ProductOk p)
    (hwf : ∀ w ∈ s.vaults, 0 ≤ w.amountOut) (hm : m.named = true)
    (h : stepP s p e m = some s') (d : Nat) :
    s'.supply d = s.supply d + if d = p.denomOut then supplyDeltaP s p e m else 0 := by
  cases m with
  | create f a pr i o => exact create_supply s s' p e f a pr i o h d
  | deposit f a pr v x => rw [deposit_supply s s' p e f a pr v x h]; simp [supplyDeltaP]
  | withdraw f a pr v x => rw [withdraw_supply s s' p e f a pr v x h]; simp [supplyDeltaP]
  | draw f a pr v x => exact draw_supply s s' p e f a pr v x h d
  | repay f a pr v x => exact repay_supply s s' p e f a pr v x h d
  | close f a pr v => exact close_supply s s' p e f a pr v hwf h d
  | depositAndDraw f a pr v x => exact depositAndDraw_supply s s' p e f a pr v x h d
  | stableCreate f a pr x => exact stableCreate_supply s s' p e f a pr x h d
  | stableDeposit f a pr v x => exact stableDeposit_supply s s' p e f a pr v x h d
  | stableWithdraw f a pr v x => exact stableWithdraw_supply s s' p e f a pr v x hp h d
  | interestCalc a v => rw [interestCalc_supply s s' e v h]; simp [supplyDeltaP]
  | seize v => rw [seize_supply s s' p e v h]; simp [supplyDeltaP]
  | settle v => exact settle_supply s s' p v h d
  | settle1 v => exact settle1_supply s s' p v h d
  | esmVault v => rw [esmVault_supply s s' p e v h]; simp [supplyDeltaP]
  | esmStable v => rw [esmStable_supply s s' p e v h]; simp [supplyDeltaP]
  | esmReturn1 v o c i => exact esmReturn1_supply s s' p e v o c i h d
  | esmReturn2 v o c dd f => exact esmReturn2_supply s s' p e v o c dd f h d
  | donate f d0 x => simp [Msg.named] at hm
  | fund t d0 x => simp [Msg.named] at hm
  | esmCollector a d0 x => simp [Msg.named] at hm
  | esmBurn f a d0 x => simp [Msg.named] at hm

/-- **Every accepted message moves the supply of every denom by exactly `supplyDelta`.** -/
theorem supply_delta_exact (cfg : Nat → Option Product) (hc : CfgOk cfg) (s s' : State) (e : Env) (m : Msg)
    (hwf : ∀ w ∈ s.vaults, 0 ≤ w.amountOut) (h : step cfg s e m = some s') (d : Nat) :
    s'.supply d = s.supply d + supplyDelta cfg s e m d := by
  cases hm : m.named with
  | false =>
    cases m with
    | donate f d0 x =>
      simp only [step, donate] at h
      split at h; · cases h
      simp only [Option.map_eq_some_iff] at h
      obtain ⟨s1, hb, rfl⟩ := h
      show s1.supply d = _
      rw [(runBank_effect _ s s1 hb).supply d]; simp [netSup, BankOp.dSup, supplyDelta]
    | fund t d0 x =>
      simp only [step, fund] at h
      split at h; · cases h
      cases h
      by_cases hd : d = d0 <;> simp [upd1, supplyDelta, hd]
    | esmCollector a d0 x =>
      simp only [step, esmCollector] at h
      split at h; · cases h
      cases h
      by_cases hd : d = d0 <;> simp [upd1, supplyDelta, hd]; omega
    | esmBurn f a d0 x =>
      simp only [step, esmBurn] at h
      split at h; · cases h
      cases h
      by_cases hd : d = d0 <;> simp [upd1, supplyDelta, hd]; omega
    | _ => simp [Msg.named] at hm
  | true =>
    rw [step_named _ _ _ _ hm] at h
    have hsd : supplyDelta cfg s e m d = match m.product s with
        | none => 0
        | some pr => match cfg pr with
          | none => 0
          | some p => if d = p.denomOut then supplyDeltaP s p e m else 0 := by
      cases m <;> first | rfl | simp [Msg.named] at hm
    rw [hsd]
    unfold stepIn at h
    cases hpr : m.product s with
    | none => simp [hpr] at h
    | some pr =>
      simp only [hpr] at h ⊢
      cases hp : cfg pr with
      | none => simp [hp] at h
      | some p =>
        simp only [hp] at h ⊢
        split at h; · cases h
        exact stepP_supply s s' p e m (hc pr p hp).2 hwf hm h d

end Comdex.Vault
