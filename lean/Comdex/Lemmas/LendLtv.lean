import Comdex.Lemmas.VaultRatio
import Comdex.Lemmas.Lend
/-!
Exact-rational content of the lend LTV check (C08): `collRatio` is `Quo(valueOf debt, valueOf collateral)` with the same `valueOf`
as the vault ratio (`Dec(amt)·Dec(price)/Dec(decimals)`), so the integer bounds of `Lemmas/VaultRatio.lean` apply; here the accept
decision is an UPPER bound on the ratio. May import Mathlib tactics (not linked into the driver).
-/
namespace Comdex.Lend
open Comdex Comdex.Dec Comdex.DutchPrice Comdex.Vault

theorem calcPrice_eq {cfg : Cfg} {prices : List (Nat × Nat)} {id : Nat} {amt : Int} {v : Dec} (h : calcPrice cfg prices id amt = .ok v) :
    ∃ a twa, cfg.asset? id = some a ∧ prices.lookup id = some twa ∧ a.decimals ≠ 0 ∧ v = valueOf amt twa a.decimals := by
  unfold calcPrice at h
  split at h
  · cases h
  · split at h
    · cases h
    · split at h
      · cases h
      · simp only [Except.ok.injEq] at h
        exact ⟨_, _, ‹_›, ‹_›, ‹_›, h.symm⟩

/-- the final `Quo`, upper direction: `quo vout vin ≤ m` with `vin > 0`, `vout ≥ 0` gives `2·vout·P² < ((2m+1)·P + 2)·vin` -/
theorem quo_le (vout vin m : Int) (ho : 0 ≤ vout) (hi : 0 < vin) (h : Dec.quo vout vin ≤ m) :
    2 * (vout * PP) < ((2 * m + 1) * P + 2) * vin := quo_le_exact vout vin m ho hi h

/-- **accepted ⇒ exact inequality**, for every amount, price, positive decimal scale and `ltv ≥ 0` -/
theorem exactLtv_of_ratio (ltv coll debt : Int) (pin pout : Nat) (dIn dOut : Int) (hdi : 0 < dIn) (hdo : 0 < dOut)
    (hc : 0 ≤ coll) (hd : 0 ≤ debt) (hl : 0 ≤ ltv) (hne : valueOf coll pin dIn ≠ 0)
    (h : Dec.quo (valueOf debt pout dOut) (valueOf coll pin dIn) ≤ ltv) :
    ExactLtv ltv coll pin dIn debt pout dOut := by
  have hP := P_pos
  rw [valueOf_eq coll _ _ (by omega)] at h hne
  rw [valueOf_eq debt _ _ (by omega)] at h
  have hnin : (0 : Int) ≤ coll * (pin : Int) * P * P := by positivity
  have hnout : (0 : Int) ≤ debt * (pout : Int) * P * P := by positivity
  have hvin0 : 0 ≤ chopRound ((coll * (pin : Int) * P * P).tdiv dIn) :=
    chopRound_nonneg _ (Int.tdiv_nonneg hnin (Int.le_of_lt hdi))
  have hvout0 : 0 ≤ chopRound ((debt * (pout : Int) * P * P).tdiv dOut) :=
    chopRound_nonneg _ (Int.tdiv_nonneg hnout (Int.le_of_lt hdo))
  have hup := value_upper _ _ hnin hdi
  have hlo := value_lower _ _ hnout hdo
  unfold ExactLtv
  generalize chopRound ((coll * (pin : Int) * P * P).tdiv dIn) = vin at *
  generalize chopRound ((debt * (pout : Int) * P * P).tdiv dOut) = vout at *
  generalize coll * (pin : Int) * P * P = nin at *
  generalize debt * (pout : Int) * P * P = nout at *
  have hvin : 0 < vin := lt_of_le_of_ne hvin0 (Ne.symm hne)
  have hq := quo_le vout vin ltv hvout0 hvin h
  have hA : (0 : Int) ≤ (2 * ltv + 1) * P + 2 := by positivity
  have hPP : (0 : Int) < PP := by unfold PP; positivity
  -- L ≤ 2·dOut·P·vout,  2·dIn·P·vin ≤ U,  2·vout·PP < A·vin
  have h1 : (2 * nout - (P + 2) * dOut + 2) * dIn * (2 * PP) * (2 * P) ≤ (2 * dOut * P * vout) * dIn * (2 * PP) * (2 * P) := by
    have : (0 : Int) ≤ dIn * (2 * PP) * (2 * P) := by positivity
    nlinarith [Int.mul_le_mul_of_nonneg_right hlo this]
  have h2 : (2 * dOut * P * vout) * dIn * (2 * PP) * (2 * P) < ((2 * ltv + 1) * P + 2) * (2 * dIn * P * vin) * dOut * (2 * P) := by
    have hpos : (0 : Int) < 2 * dOut * P * dIn * (2 * P) := by positivity
    have := Int.mul_lt_mul_of_pos_right hq hpos
    nlinarith [this]
  have h3 : ((2 * ltv + 1) * P + 2) * (2 * dIn * P * vin) * dOut * (2 * P) ≤ ((2 * ltv + 1) * P + 2) * (2 * nin + dIn * P) * dOut * (2 * P) := by
    have : (0 : Int) ≤ ((2 * ltv + 1) * P + 2) := hA
    have h' := Int.mul_le_mul_of_nonneg_left hup this
    have hpos : (0 : Int) ≤ dOut * (2 * P) := by positivity
    nlinarith [Int.mul_le_mul_of_nonneg_right h' hpos]
  have h4 : (2 * nout - (P + 2) * dOut + 2) * dIn * (2 * PP) * (2 * P) < ((2 * ltv + 1) * P + 2) * (2 * nin + dIn * P) * dOut * (2 * P) :=
    lt_of_le_of_lt h1 (lt_of_lt_of_le h2 h3)
  exact lt_of_mul_lt_mul_right h4 (by positivity)

/-- **with decimal scales dividing `10^18`** only the final division rounds -/
theorem exactLtvScales_of_ratio (ltv coll debt : Int) (pin pout : Nat) (dIn dOut : Int) (hdi : 0 < dIn) (hdo : 0 < dOut)
    (hsi : dIn ∣ P) (hso : dOut ∣ P) (hc : 0 ≤ coll) (hd : 0 ≤ debt) (hne : valueOf coll pin dIn ≠ 0)
    (h : Dec.quo (valueOf debt pout dOut) (valueOf coll pin dIn) ≤ ltv) :
    ExactLtvScales ltv coll pin dIn debt pout dOut := by
  have hP := P_pos
  have ein := valueOf_exact coll pin dIn hdi hsi
  have eout := valueOf_exact debt pout dOut hdo hso
  have hvin0 : 0 ≤ valueOf coll pin dIn * dIn := by rw [ein]; positivity
  have hvout0 : 0 ≤ valueOf debt pout dOut * dOut := by rw [eout]; positivity
  generalize valueOf coll pin dIn = vin at *
  generalize valueOf debt pout dOut = vout at *
  have hvin : 0 < vin := by
    rcases Int.lt_trichotomy vin 0 with hneg | hz | hpos
    · nlinarith [hneg, hdi, hvin0]
    · exact absurd hz hne
    · exact hpos
  have hvout : 0 ≤ vout := by
    by_contra hc'
    have : vout < 0 := Int.not_le.mp hc'
    nlinarith [this, hdo, hvout0]
  have hq := quo_le vout vin ltv hvout hvin h
  unfold ExactLtvScales
  -- multiply by dIn·dOut, substitute, cancel P
  have hpos : (0 : Int) < dIn * dOut := Int.mul_pos hdi hdo
  have h1 := Int.mul_lt_mul_of_pos_left hq hpos
  have h2 : P * (2 * (debt * (pout : Int) * dIn) * PP) < P * (((2 * ltv + 1) * P + 2) * (coll * (pin : Int) * dOut)) := by
    have e1 : dIn * dOut * (2 * (vout * PP)) = 2 * (vout * dOut) * dIn * PP := by ring
    have e2 : dIn * dOut * (((2 * ltv + 1) * P + 2) * vin) = ((2 * ltv + 1) * P + 2) * (vin * dIn) * dOut := by ring
    rw [e1, e2, ein, eout] at h1
    nlinarith [h1]
  exact lt_of_mul_lt_mul_left h2 (Int.le_of_lt hP)

/-- the two forms for an accepted `collRatio` of two configured assets -/
theorem collRatio_exact {cfg : Cfg} {prices : List (Nat × Nat)} {aIn : Int} {assetIn : Nat} {aOut : Int} {assetOut : Nat} {r ltv : Dec}
    (h : collRatio cfg prices aIn assetIn aOut assetOut = .ok r) (hle : r ≤ ltv) (hc : 0 ≤ aIn) (hd : 0 ≤ aOut) (hl : 0 ≤ ltv) :
    ∃ ai pin ao pout, cfg.asset? assetIn = some ai ∧ prices.lookup assetIn = some pin ∧ cfg.asset? assetOut = some ao ∧
      prices.lookup assetOut = some pout ∧
      (0 < ai.decimals → 0 < ao.decimals → ExactLtv ltv aIn (pin : Int) ai.decimals aOut (pout : Int) ao.decimals) ∧
      (0 < ai.decimals → 0 < ao.decimals → ai.decimals ∣ P → ao.decimals ∣ P →
        ExactLtvScales ltv aIn (pin : Int) ai.decimals aOut (pout : Int) ao.decimals) := by
  obtain ⟨vin, vout, h1, h2, hne, rfl⟩ := collRatio_ok h
  obtain ⟨ai, pin, ha, hp, _, rfl⟩ := calcPrice_eq h1
  obtain ⟨ao, pout, hao, hpo, _, rfl⟩ := calcPrice_eq h2
  exact ⟨ai, pin, ao, pout, ha, hp, hao, hpo,
    fun hdi hdo => exactLtv_of_ratio ltv aIn aOut pin pout _ _ hdi hdo hc hd hl hne hle,
    fun hdi hdo hsi hso => exactLtvScales_of_ratio ltv aIn aOut pin pout _ _ hdi hdo hsi hso hc hd hne hle⟩

/-! ### cross-pool: how the bridged quantity is computed -/

/-- shape of an accepted cross-pool borrow: the bridged quantity is `trunc(Quo(value(trunc(aIn·ltv)), unit value of the transit asset))`
and passes the LTV check of the transit asset -/
theorem borrowNew_inter_shape {cfg : Cfg} {s s' : State} {u : Nat} {l : Lend} {pair : PairCfg} {rates : RatesCfg} {stable : Bool}
    {dIn : Nat} {aIn : Int} {dOut : Nat} {aOut : Int} (h : borrowNew cfg s u l pair rates stable dIn aIn dOut aOut = .ok s')
    (hi : pair.inter = true) :
    ∃ v unit transit rt r brd bank',
      calcPrice cfg s.prices l.asset (Dec.truncateInt (Dec.mul (Dec.ofInt aIn) (if pair.eMode then rates.eLtv else rates.ltv))) = .ok v ∧
      calcPrice cfg s.prices transit 1 = .ok unit ∧ unit ≠ 0 ∧ cfg.rates? transit = some rt ∧
      collRatio cfg s.prices (Dec.truncateInt (Dec.quo v unit)) transit aOut pair.assetOut = .ok r ∧ r ≤ rt.ltv ∧
      s' = openBorrow s l pair stable dIn aIn dOut aOut brd (Dec.truncateInt (Dec.quo v unit)) bank' := by
  unfold borrowNew at h
  invert h
  all_goals first
    | exact absurd ‹(!pair.inter) = true› (by simp [hi])
    | (obtain ⟨r, hr, hle⟩ := verifyCR_ok ‹verifyCR cfg s.prices (Dec.truncateInt _) _ aOut pair.assetOut _ = .ok _›
       exact ⟨_, _, _, _, r, _, _, ‹calcPrice cfg s.prices l.asset _ = .ok _›, by assumption, by simpa using ‹(_ != (0 : Dec)) = true›,
         by assumption, hr, hle, rfl⟩)

/-- `Dec(k)·x` is exact -/
theorem mul_ofInt_left (k x : Int) : Dec.mul (Dec.ofInt k) x = k * x := by
  have : Dec.mul (Dec.ofInt k) x = Dec.mul x (Dec.ofInt k) := by unfold Dec.mul; rw [Int.mul_comm]
  rw [this, mul_ofInt, Int.mul_comm]

/-- **the three roundings between the pledged amount and the bridged quantity**, each with its slack, for non-negative inputs:
`tin = ⌊aIn·ltv⌋` (truncation), `v = valueOf tin` (+½u), `q = ⌊Quo(v, unit)⌋` (+½u, truncation):
`tin·10¹⁸ ≤ aIn·ltv`, `2·dIn·10¹⁸·v ≤ 2·tin·pin·10³⁶ + dIn·10¹⁸`, `2·unit·10¹⁸·q ≤ 2·10¹⁸·v + unit`. -/
theorem bridged_chain (aIn ltv : Int) (pin : Nat) (dIn unit : Int) (ha : 0 ≤ aIn) (hl : 0 ≤ ltv) (hdi : 0 < dIn) (hu : 0 < unit) :
    let tin := Dec.truncateInt (Dec.mul (Dec.ofInt aIn) ltv)
    let v := valueOf tin pin dIn
    let q := Dec.truncateInt (Dec.quo v unit)
    0 ≤ tin ∧ tin * P ≤ aIn * ltv ∧ 0 ≤ v ∧ 2 * dIn * P * v ≤ 2 * (tin * (pin : Int) * P * P) + dIn * P ∧
      0 ≤ q ∧ 2 * unit * P * q ≤ 2 * P * v + unit := by
  intro tin v q
  have hP := P_pos
  have htin : tin = (aIn * ltv) / P := by
    show Dec.truncateInt (Dec.mul (Dec.ofInt aIn) ltv) = _
    rw [mul_ofInt_left]; unfold Dec.truncateInt
    exact Int.tdiv_eq_ediv_of_nonneg (Int.mul_nonneg ha hl)
  have h0 : 0 ≤ tin := by rw [htin]; exact Int.ediv_nonneg (Int.mul_nonneg ha hl) (Int.le_of_lt hP)
  have h1 : tin * P ≤ aIn * ltv := by rw [htin]; exact Int.ediv_mul_le _ (by omega)
  have hn : (0 : Int) ≤ tin * (pin : Int) * P * P := by positivity
  have hv : v = chopRound ((tin * (pin : Int) * P * P).tdiv dIn) := valueOf_eq tin pin dIn (by omega)
  have hv0 : 0 ≤ v := by rw [hv]; exact chopRound_nonneg _ (Int.tdiv_nonneg hn (Int.le_of_lt hdi))
  have h2 : 2 * dIn * P * v ≤ 2 * (tin * (pin : Int) * P * P) + dIn * P := by rw [hv]; exact value_upper _ _ hn hdi
  have hq' : Dec.quo v unit = chopRound ((v * PP).tdiv unit) := rfl
  have hnq : (0 : Int) ≤ v * PP := Int.mul_nonneg hv0 (by unfold PP; positivity)
  have hquo0 : 0 ≤ Dec.quo v unit := by rw [hq']; exact chopRound_nonneg _ (Int.tdiv_nonneg hnq (Int.le_of_lt hu))
  have hq : q = Dec.quo v unit / P := by
    show Dec.truncateInt (Dec.quo v unit) = _
    unfold Dec.truncateInt; exact Int.tdiv_eq_ediv_of_nonneg hquo0
  have hq0 : 0 ≤ q := by rw [hq]; exact Int.ediv_nonneg hquo0 (Int.le_of_lt hP)
  have hqP : q * P ≤ Dec.quo v unit := by rw [hq]; exact Int.ediv_mul_le _ (by omega)
  have hup := value_upper (v * PP) unit hnq hu
  rw [← hq'] at hup
  -- 2·unit·P·quo ≤ 2·v·PP + unit·P ; q·P ≤ quo
  have h3 : 2 * unit * P * q ≤ 2 * P * v + unit := by
    have e : v * PP = v * P * P := by unfold PP; ring
    rw [e] at hup
    have hm := Int.mul_le_mul_of_nonneg_left hqP (by positivity : (0 : Int) ≤ 2 * unit * P)
    have : P * (2 * unit * P * q) ≤ P * (2 * P * v + unit) := by
      have e1 : P * (2 * unit * P * q) = 2 * unit * P * (q * P) := by ring
      have e2 : P * (2 * P * v + unit) = 2 * (v * P * P) + unit * P := by ring
      rw [e1, e2]; exact Int.le_trans hm hup
    exact Int.le_of_mul_le_mul_left this hP
  exact ⟨h0, h1, hv0, h2, hq0, h3⟩

end Comdex.Lend
