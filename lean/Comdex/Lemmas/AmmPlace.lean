import Comdex.Lemmas.AmmKeeper
/-!
Lemmas for C05, part 12: the price of a placed SELL order.  `ValidateMsgLimitOrder` fits the message price of a sell order to the
grid with `PriceToUpTick`; for every price between the lowest and the highest tick the result is a positive tick of the grid whose
index does not exceed the highest tick's (`placeOk_sell`, the sell-side counterpart of `placeOk_buy`).
-/
namespace Comdex.Amm
open Comdex

/-- the exponent of the tick of index `k`: `char(T k) − prec = k div 9·10^prec` -/
theorem char_T (prec k : Nat) : ndigits (T prec k) - 1 - prec = k / (9 * 10 ^ prec) := by
  obtain ⟨_, _, _, _, _, hm1, hm2⟩ := grid_cell prec (T prec k) (T_pos prec k)
  have hi := (D_T prec k).2
  unfold idx at hi
  generalize ndigits (T prec k) - 1 - prec = L at *
  generalize T prec k / 10 ^ L = m at *
  have h9 : m - 10 ^ prec < 9 * 10 ^ prec := by rw [Nat.pow_succ] at hm2; omega
  have hp : 0 < 9 * 10 ^ prec := by have := Nat.pow_pos (n := prec) (by omega : 0 < 10); omega
  rw [← hi, Nat.add_comm, Nat.add_mul_div_right _ _ hp, Nat.div_eq_of_lt h9]
  omega

/-- `UpTick` of a tick is the next tick -/
theorem upTick_T (prec k : Nat) : upTick ((T prec k : Nat) : Int) prec = ((T prec (k + 1) : Nat) : Int) := by
  unfold upTick
  simp only
  rw [priceToDownTick_nat prec _ (T_pos prec k), (D_T prec k).1]
  simp only [if_true]
  have hpos : 0 < T prec k := Nat.lt_of_lt_of_le (Nat.pow_pos (by omega)) (T_pos prec k)
  have hn1 := (ndigits_spec (T prec k) hpos).1
  have hL := (grid_cell prec (T prec k) (T_pos prec k)).2.2.2.2.1
  unfold pow10 char
  simp only [Int.toNat_natCast]
  have e : ((ndigits (T prec k) : Int) - 1 - (prec : Int)) = ((ndigits (T prec k) - 1 - prec : Nat) : Int) := by omega
  rw [e, Int.toNat_natCast, char_T, T_succ]
  push_cast
  rfl

/-- `PriceToUpTick` on naturals: a tick stays, anything else goes to the upper end of its cell -/
theorem priceToUpTick_nat (prec x : Nat) (hx : 10 ^ prec ≤ x) :
    priceToUpTick (x : Int) prec =
      if D prec x = x then (x : Int) else ((T prec (idx prec x + 1) : Nat) : Int) := by
  obtain ⟨c1, _⟩ := grid_cell prec x hx
  unfold priceToUpTick
  simp only
  rw [priceToDownTick_nat prec x hx]
  by_cases h : D prec x = x
  · rw [if_pos h, h]; simp
  · rw [if_neg h]
    have hne : ((D prec x : Nat) : Int) ≠ (x : Int) := by exact_mod_cast h
    rw [if_pos hne, c1, upTick_T]

/-- **fitting never moves a price against the orderer**: the down-tick is not above the price, the up-tick not below it -/
theorem fitted_price_within_limit (prec x : Nat) (hx : 10 ^ prec ≤ x) :
    priceToDownTick (x : Int) prec ≤ (x : Int) ∧ (x : Int) ≤ priceToUpTick (x : Int) prec := by
  obtain ⟨c1, c2, c3, _⟩ := grid_cell prec x hx
  constructor
  · rw [priceToDownTick_nat prec x hx, c1]; exact_mod_cast c2
  · rw [priceToUpTick_nat prec x hx]
    split
    · exact Int.le_refl _
    · exact_mod_cast Nat.le_of_lt c3

/-- the highest tick is the tick of index `hiIdx` -/
theorem highestTick_eq (prec : Nat) (hprec : 10 ^ prec < 2 ^ 300 - 1) :
    highestTick prec = ((T prec (hiIdx prec) : Nat) : Int) := by
  have eN : (2037035976334486086268445688409378161051468393665936250636140449354381299763336706183397375 : Nat) = 2 ^ 300 - 1 := by decide
  have e : (2037035976334486086268445688409378161051468393665936250636140449354381299763336706183397375 : Int) = (((2 ^ 300 - 1 : Nat)) : Int) := by rw [← eN]; rfl
  unfold highestTick hiIdx
  rw [e, priceToDownTick_nat prec _ (by omega), (grid_cell prec (2 ^ 300 - 1) (by omega)).1]

/-- **a sell order's message price between the lowest and the highest tick is fitted (`PriceToUpTick`) to a positive tick of
the grid** not above the highest tick -/
theorem placeOk_sell (prec : Nat) (x : Nat) (amount : Int) (ha : 0 ≤ amount) (h1 : 10 ^ prec ≤ x)
    (h2 : x ≤ T prec (hiIdx prec)) : PlaceOk prec .sell (x : Int) amount := by
  refine ⟨ha, ?_⟩
  simp only
  rw [priceToUpTick_nat prec x h1]
  obtain ⟨c1, c2, c3, _⟩ := grid_cell prec x h1
  have hidx : idx prec x ≤ hiIdx prec := by
    by_contra hc
    have := T_mono prec (by omega : hiIdx prec + 1 ≤ idx prec x)
    have := T_lt_succ prec (hiIdx prec)
    omega
  by_cases h : D prec x = x
  · rw [if_pos h]
    have hpos : 0 < x := Nat.lt_of_lt_of_le (Nat.pow_pos (by omega)) h1
    refine ⟨by exact_mod_cast hpos, idx prec x, hidx, ?_⟩
    rw [← c1, h]
  · rw [if_neg h]
    have hpos : 0 < T prec (idx prec x + 1) := Nat.lt_of_lt_of_le (Nat.pow_pos (by omega)) (T_pos prec _)
    refine ⟨by exact_mod_cast hpos, idx prec x + 1, ?_, rfl⟩
    -- `x` is not a tick, so it is strictly below the highest tick
    by_contra hc
    have he : idx prec x = hiIdx prec := by omega
    rw [he] at c1 c2
    have : x = T prec (hiIdx prec) := by omega
    rw [c1] at h
    exact h this.symm

end Comdex.Amm
