import Comdex.Model.AmmMatch
import Mathlib.Tactic.Linarith
import Mathlib.Tactic.Ring
/-!
Helper lemmas for property C05 (batch matching).

1. rounding arithmetic of `FillOrder` / `MatchableAmount`
2. one allowed fill keeps an order well-formed, within its limit price, and pays the counterparty something
3. `Reach` (finite sequences of allowed fills): the per-order deltas (`Delta`)
4. the distribution plans only contain allowed fills; `applyPlan` never panics on them
5. the loops (`distTicks`, `fmaLoop`, `matchLoop`) only touch ticks within the price limit
-/
namespace Comdex.Amm
open Comdex

/-! ## 1. arithmetic -/

theorem P_pos : (0:Int) < Dec.P := by decide

theorem sumInt_append (l₁ l₂ : List Int) : sumInt (l₁ ++ l₂) = sumInt l₁ + sumInt l₂ := by
  induction l₁ with
  | nil => simp [sumInt]
  | cons x xs ih => simp [sumInt, ih]; omega

theorem sumInt_nonneg (l : List Int) (h : ∀ x ∈ l, 0 ≤ x) : 0 ≤ sumInt l := by
  induction l with
  | nil => simp [sumInt]
  | cons x xs ih =>
    have := h x (by simp)
    have := ih (fun y hy => h y (by simp [hy]))
    simp [sumInt]; omega

theorem quoteFloor_eq (p a : Int) (h : 0 ≤ p * a) : quoteFloor p a = p * a / Dec.P := by
  unfold quoteFloor Dec.truncateInt Dec.mulInt
  exact Int.tdiv_eq_ediv_of_nonneg h

theorem quoteCeil_eq (p a : Int) (h : 0 ≤ p * a) : quoteCeil p a = (p * a + (Dec.P - 1)) / Dec.P := by
  unfold quoteCeil Dec.truncateInt Dec.mulInt Dec.ceil
  generalize p * a = x at *
  have h1 : x.tdiv Dec.P = x / Dec.P := Int.tdiv_eq_ediv_of_nonneg h
  have h2 : x.tmod Dec.P = x % Dec.P := Int.tmod_eq_emod_of_nonneg h
  simp only [h1, h2]
  have hq : 0 ≤ x / Dec.P := Int.ediv_nonneg h (by decide)
  split
  · rw [Int.tdiv_eq_ediv_of_nonneg (Int.mul_nonneg (by omega) (by decide))]
    simp only [Dec.P] at *; omega
  · split
    · simp only [Dec.P] at *; omega
    · rw [Int.tdiv_eq_ediv_of_nonneg (Int.mul_nonneg (by omega) (by decide))]
      simp only [Dec.P] at *; omega

theorem quoteFloor_nonneg (p a : Int) (hp : 0 ≤ p) (ha : 0 ≤ a) : 0 ≤ quoteFloor p a := by
  rw [quoteFloor_eq p a (Int.mul_nonneg hp ha)]
  exact Int.ediv_nonneg (Int.mul_nonneg hp ha) (by decide)

theorem quoteCeil_nonneg (p a : Int) (hp : 0 ≤ p) (ha : 0 ≤ a) : 0 ≤ quoteCeil p a := by
  have h := Int.mul_nonneg hp ha
  rw [quoteCeil_eq p a h]
  exact Int.ediv_nonneg (by have := P_pos; omega) (by decide)

/-- the buyer's price for `a` is monotone in the price -/
theorem quoteCeil_mono (p l a : Int) (hp : 0 ≤ p) (hpl : p ≤ l) (ha : 0 ≤ a) : quoteCeil p a ≤ quoteCeil l a := by
  have h1 : p * a ≤ l * a := Int.mul_le_mul_of_nonneg_right hpl ha
  have h0 : 0 ≤ p * a := Int.mul_nonneg hp ha
  rw [quoteCeil_eq p a h0, quoteCeil_eq l a (by omega)]
  exact Int.ediv_le_ediv P_pos (by omega)

theorem quoteFloor_mono (p l a : Int) (hp : 0 ≤ p) (hpl : p ≤ l) (ha : 0 ≤ a) : quoteFloor p a ≤ quoteFloor l a := by
  have h1 : p * a ≤ l * a := Int.mul_le_mul_of_nonneg_right hpl ha
  have h0 : 0 ≤ p * a := Int.mul_nonneg hp ha
  rw [quoteFloor_eq p a h0, quoteFloor_eq l a (by omega)]
  exact Int.ediv_le_ediv P_pos h1

/-- `⌈x⌉·P ≤ x + (P-1)` -/
theorem quoteCeil_mul_le (p a : Int) (h : 0 ≤ p * a) : quoteCeil p a * Dec.P ≤ p * a + (Dec.P - 1) := by
  rw [quoteCeil_eq p a h]
  exact Int.ediv_mul_le _ (by decide)

theorem le_quoteCeil_mul (p a : Int) (h : 0 ≤ p * a) : p * a ≤ quoteCeil p a * Dec.P := by
  rw [quoteCeil_eq p a h]
  generalize p * a = x at *
  simp only [Dec.P] at *; omega

/-- `x - (P-1) ≤ ⌊x⌋·P ≤ x` -/
theorem quoteFloor_mul_le (p a : Int) (h : 0 ≤ p * a) : quoteFloor p a * Dec.P ≤ p * a := by
  rw [quoteFloor_eq p a h]
  exact Int.ediv_mul_le _ (by decide)

theorem le_quoteFloor_mul (p a : Int) (h : 0 ≤ p * a) : p * a ≤ quoteFloor p a * Dec.P + (Dec.P - 1) := by
  rw [quoteFloor_eq p a h]
  generalize p * a = x at *
  simp only [Dec.P] at *; omega

theorem affordable_nonneg (rem p : Int) (hr : 0 ≤ rem) (hp : 0 < p) : 0 ≤ affordable rem p := by
  unfold affordable Dec.truncateInt Dec.quoTruncate Dec.chopTrunc Dec.ofInt
  have hX : 0 ≤ rem * Dec.P * Dec.PP := Int.mul_nonneg (Int.mul_nonneg hr (by decide)) (by decide)
  rw [Int.tdiv_eq_ediv_of_nonneg hX]
  have h1 : 0 ≤ rem * Dec.P * Dec.PP / p := Int.ediv_nonneg hX (by omega)
  rw [Int.tdiv_eq_ediv_of_nonneg h1]
  have h2 : 0 ≤ rem * Dec.P * Dec.PP / p / Dec.P := Int.ediv_nonneg h1 (by decide)
  rw [Int.tdiv_eq_ediv_of_nonneg h2]
  exact Int.ediv_nonneg h2 (by decide)

/-- what a buyer can afford really is affordable: `a ≤ affordable rem p → p·a ≤ rem` (in raw: `p*a ≤ rem*P`) -/
theorem affordable_spec (rem p a : Int) (hr : 0 ≤ rem) (hp : 0 < p) (ha : a ≤ affordable rem p) :
    p * a ≤ rem * Dec.P := by
  unfold affordable Dec.truncateInt Dec.quoTruncate Dec.chopTrunc Dec.ofInt at ha
  have hX : 0 ≤ rem * Dec.P * Dec.PP := Int.mul_nonneg (Int.mul_nonneg hr (by decide)) (by decide)
  rw [Int.tdiv_eq_ediv_of_nonneg hX] at ha
  have h1 : 0 ≤ rem * Dec.P * Dec.PP / p := Int.ediv_nonneg hX (by omega)
  rw [Int.tdiv_eq_ediv_of_nonneg h1] at ha
  have h2 : 0 ≤ rem * Dec.P * Dec.PP / p / Dec.P := Int.ediv_nonneg h1 (by decide)
  rw [Int.tdiv_eq_ediv_of_nonneg h2] at ha
  rw [Int.le_ediv_iff_mul_le P_pos, Int.le_ediv_iff_mul_le P_pos, Int.le_ediv_iff_mul_le hp] at ha
  have hPP : Dec.PP = Dec.P * Dec.P := rfl
  rw [hPP] at ha
  have h3 : (p * a) * (Dec.P * Dec.P) ≤ (rem * Dec.P) * (Dec.P * Dec.P) := by
    have : a * Dec.P * Dec.P * p = (p * a) * (Dec.P * Dec.P) := by ring
    rw [← this]; exact ha
  exact Int.le_of_mul_le_mul_right h3 (by decide)


/-! ## 2. `MatchableAmount` and one allowed fill -/

theorem matchable_cases (o : Order) (p : Int) :
    matchableAmount o p = 0 ∨
    (quoteFloor p (matchableAmount o p) ≠ 0 ∧
      matchableAmount o p = (match o.dir with
        | .buy => min o.opn (affordable (o.offer - o.paid) p)
        | .sell => o.opn)) := by
  unfold matchableAmount
  cases o.dir with
  | buy =>
    simp only
    by_cases h : quoteFloor p (min o.opn (affordable (o.offer - o.paid) p)) = 0
    · left; simp [h]
    · right; simp [h]
  | sell =>
    simp only
    by_cases h : quoteFloor p o.opn = 0
    · left; simp [h]
    · right; simp [h]

theorem matchable_nonneg (o : Order) (p : Int) (hw : Wf o) (hp : 0 < p) : 0 ≤ matchableAmount o p := by
  rcases matchable_cases o p with h | ⟨_, h⟩
  · omega
  · rw [h]
    cases hd : o.dir with
    | buy =>
      have := affordable_nonneg (o.offer - o.paid) p (by have := hw.paid_le; simp [hd] at this; omega) hp
      have := hw.opn_nonneg
      simp only; omega
    | sell => exact hw.opn_nonneg

theorem matchable_le_opn (o : Order) (p : Int) (hw : Wf o) : matchableAmount o p ≤ o.opn := by
  have := hw.opn_nonneg
  rcases matchable_cases o p with h | ⟨_, h⟩
  · rw [h]; exact hw.opn_nonneg
  · rw [h]
    cases o.dir with
    | buy => simp only; omega
    | sell => simp only; omega

/-- a positive matchable amount of a sell order is worth at least one quote unit -/
theorem matchable_worth (o : Order) (p : Int) (hw : Wf o) (hp : 0 < p) (h : 0 < matchableAmount o p) :
    0 < quoteFloor p (matchableAmount o p) := by
  rcases matchable_cases o p with h0 | ⟨h1, _⟩
  · omega
  · have := quoteFloor_nonneg p (matchableAmount o p) (by omega) (by omega)
    omega

/-- what a buyer pays for an amount within `MatchableAmount` is covered by the remaining offer coin -/
theorem buy_cost_le (o : Order) (a p : Int) (hw : Wf o) (hd : o.dir = .buy) (hp : 0 < p) (ha : 0 < a)
    (hle : a ≤ matchableAmount o p) : quoteCeil p a ≤ o.offer - o.paid := by
  have hrem : 0 ≤ o.offer - o.paid := by have := hw.paid_le; simp [hd] at this; omega
  rcases matchable_cases o p with h0 | ⟨_, h⟩
  · omega
  · rw [hd] at h
    simp only at h
    have haff : a ≤ affordable (o.offer - o.paid) p := by omega
    have hs := affordable_spec (o.offer - o.paid) p a hrem hp haff
    have hpa : 0 ≤ p * a := Int.mul_nonneg (by omega) (by omega)
    rw [quoteCeil_eq p a hpa]
    have : (p * a + (Dec.P - 1)) / Dec.P < (o.offer - o.paid) + 1 :=
      Int.ediv_lt_of_lt_mul P_pos (by have := P_pos; linarith)
    omega

theorem fillRaw_static (o : Order) (a p : Int) :
    (fillRaw o a p).1.id = o.id ∧ (fillRaw o a p).1.kind = o.kind ∧ (fillRaw o a p).1.oid = o.oid ∧
    (fillRaw o a p).1.dir = o.dir ∧ (fillRaw o a p).1.price = o.price ∧ (fillRaw o a p).1.amount = o.amount ∧
    (fillRaw o a p).1.offer = o.offer ∧ (fillRaw o a p).1.batchId = o.batchId := by
  unfold fillRaw; cases o.dir <;> simp

/-- **one allowed fill keeps the order well-formed** -/
theorem fillRaw_wf (o : Order) (a p : Int) (hw : Wf o) (g : GoodFill o a p) : Wf (fillRaw o a p).1 := by
  have hle := matchable_le_opn o p hw
  have := g.le; have := g.pos; have hp := g.price_pos
  cases hd : o.dir with
  | buy =>
    have hc := buy_cost_le o a p hw hd hp g.pos g.le
    have hn := quoteCeil_nonneg p a (by omega) (by omega)
    have h1 := hw.paid_le; simp [hd] at h1
    unfold fillRaw; rw [hd]
    exact ⟨hw.price_pos, by simp; have := hw.paid_nonneg; omega, by simp; have := hw.opn_nonneg; omega,
      by simp; have := hw.opn_le; omega, by simp [hd]; omega⟩
  | sell =>
    have h1 := hw.paid_le; simp [hd] at h1
    unfold fillRaw; rw [hd]
    exact ⟨hw.price_pos, by simp; have := hw.paid_nonneg; omega, by simp; have := hw.opn_nonneg; omega,
      by simp; have := hw.opn_le; omega, by simp [hd]; omega⟩

/-! ## 3. `Reach`: what a finite sequence of allowed fills does to one order -/

/-- the per-order facts the property speaks about, between a state `o` and a later state `o'` -/
structure Delta (o o' : Order) : Prop where
  id_eq : o'.id = o.id
  kind_eq : o'.kind = o.kind
  oid_eq : o'.oid = o.oid
  dir_eq : o'.dir = o.dir
  price_eq : o'.price = o.price
  amount_eq : o'.amount = o.amount
  offer_eq : o'.offer = o.offer
  batch_eq : o'.batchId = o.batchId
  wf : Wf o'
  opn_le : o'.opn ≤ o.opn
  paid_ge : o.paid ≤ o'.paid
  recv_ge : o.received ≤ o'.received
  fills_ge : o.fills ≤ o'.fills
  /-- an order that was filled received something -/
  positive : o'.opn < o.opn → o.received < o'.received
  /-- a buyer receives exactly the base coin it was filled for; a seller pays exactly that -/
  buy_recv : o.dir = .buy → o'.received - o.received = o.opn - o'.opn
  sell_paid : o.dir = .sell → o'.paid - o.paid = o.opn - o'.opn
  /-- a buyer pays at most its limit price for what it got, plus less than one quote unit per fill -/
  buy_price : o.dir = .buy →
    (o'.paid - o.paid) * Dec.P ≤ o.price * (o.opn - o'.opn) + ((o'.fills : Int) - o.fills) * (Dec.P - 1)
  /-- a seller receives at least its limit price for what it gave, minus less than one quote unit per fill -/
  sell_price : o.dir = .sell →
    o.price * (o.opn - o'.opn) ≤ (o'.received - o.received) * Dec.P + ((o'.fills : Int) - o.fills) * (Dec.P - 1)

theorem Delta.refl (o : Order) (hw : Wf o) : Delta o o :=
  ⟨rfl, rfl, rfl, rfl, rfl, rfl, rfl, rfl, hw, by omega, by omega, by omega, by omega, by omega,
   fun _ => by omega, fun _ => by omega, fun _ => by simp, fun _ => by simp⟩

theorem Delta.fill {o o₁ : Order} (a p : Int) (d : Delta o o₁) (g : GoodFill o₁ a p) :
    Delta o (fillRaw o₁ a p).1 := by
  obtain ⟨s1, s2, s3, s4, s5, s6, s7, s8⟩ := fillRaw_static o₁ a p
  have hw' := fillRaw_wf o₁ a p d.wf g
  have hp := g.price_pos; have ha := g.pos
  have hpa : 0 ≤ p * a := Int.mul_nonneg (by omega) (by omega)
  have hcn := quoteCeil_nonneg p a (by omega) (by omega)
  have hfn := quoteFloor_nonneg p a (by omega) (by omega)
  have hopn : (fillRaw o₁ a p).1.opn = o₁.opn - a := by unfold fillRaw; cases o₁.dir <;> simp
  have hfills : (fillRaw o₁ a p).1.fills = o₁.fills + 1 := by unfold fillRaw; cases o₁.dir <;> simp
  have hpaid : o₁.paid ≤ (fillRaw o₁ a p).1.paid := by unfold fillRaw; cases o₁.dir <;> simp <;> omega
  have hrecv : o₁.received ≤ (fillRaw o₁ a p).1.received := by unfold fillRaw; cases o₁.dir <;> simp <;> omega
  have hrecv' : o₁.received < (fillRaw o₁ a p).1.received := by
    cases hd : o₁.dir with
    | buy => unfold fillRaw; rw [hd]; simp; omega
    | sell => have := g.worth hd; unfold fillRaw; rw [hd]; simp; omega
  refine ⟨by rw [s1, d.id_eq], by rw [s2, d.kind_eq], by rw [s3, d.oid_eq], by rw [s4, d.dir_eq], by rw [s5, d.price_eq],
    by rw [s6, d.amount_eq], by rw [s7, d.offer_eq], by rw [s8, d.batch_eq], hw', ?_, ?_, ?_, ?_, ?_, ?_, ?_, ?_, ?_⟩
  · rw [hopn]; have := d.opn_le; omega
  · have := d.paid_ge; omega
  · have := d.recv_ge; omega
  · rw [hfills]; have := d.fills_ge; omega
  · intro _; have := d.recv_ge; omega
  · intro hb
    have hb1 : o₁.dir = .buy := by rw [d.dir_eq]; exact hb
    have h0 := d.buy_recv hb
    have : (fillRaw o₁ a p).1.received = o₁.received + a := by unfold fillRaw; rw [hb1]
    rw [this, hopn]; omega
  · intro hs
    have hs1 : o₁.dir = .sell := by rw [d.dir_eq]; exact hs
    have h0 := d.sell_paid hs
    have : (fillRaw o₁ a p).1.paid = o₁.paid + a := by unfold fillRaw; rw [hs1]
    rw [this, hopn]; omega
  · intro hb
    have hb1 : o₁.dir = .buy := by rw [d.dir_eq]; exact hb
    have hwithin : p ≤ o₁.price := by have := g.within; unfold Within at this; rw [hb1] at this; exact this
    have h0 := d.buy_price hb
    have hpaid' : (fillRaw o₁ a p).1.paid = o₁.paid + quoteCeil p a := by unfold fillRaw; rw [hb1]
    have hc := quoteCeil_mul_le p a hpa
    have hm : p * a ≤ o.price * a := by
      rw [← d.price_eq]; exact Int.mul_le_mul_of_nonneg_right hwithin (by omega)
    rw [hpaid', hopn, hfills]
    push_cast
    nlinarith
  · intro hs
    have hs1 : o₁.dir = .sell := by rw [d.dir_eq]; exact hs
    have hwithin : o₁.price ≤ p := by have := g.within; unfold Within at this; rw [hs1] at this; exact this
    have h0 := d.sell_price hs
    have hrecv'' : (fillRaw o₁ a p).1.received = o₁.received + quoteFloor p a := by unfold fillRaw; rw [hs1]
    have hc := le_quoteFloor_mul p a hpa
    have hm : o.price * a ≤ p * a := by
      rw [← d.price_eq]; exact Int.mul_le_mul_of_nonneg_right hwithin (by omega)
    rw [hrecv'', hopn, hfills]
    push_cast
    nlinarith

theorem reach_delta {o o' : Order} (r : Reach o o') (hw : Wf o) : Delta o o' := by
  induction r with
  | refl => exact Delta.refl _ hw
  | fill a p _ g ih => exact Delta.fill a p ih g

theorem Reach.trans {o o₁ o₂ : Order} (r₁ : Reach o o₁) (r₂ : Reach o₁ o₂) : Reach o o₂ := by
  induction r₂ with
  | refl => exact r₁
  | fill a p _ g ih => exact Reach.fill a p ih g

theorem Reach.one {o : Order} (a p : Int) (g : GoodFill o a p) : Reach o (fillRaw o a p).1 :=
  Reach.fill a p (Reach.refl o) g


/-! ## 4. plans -/

theorem lookup_mem {plan : List (Order × Int)} {o : Order} {a : Int} (h : plan.lookup o = some a) : (o, a) ∈ plan := by
  induction plan with
  | nil => simp at h
  | cons x xs ih =>
    obtain ⟨k, v⟩ := x
    rw [List.lookup_cons] at h
    by_cases hk : o = k
    · subst hk; simp at h; simp [h]
    · have : (o == k) = false := by simp [hk]
      rw [this] at h
      exact List.mem_cons_of_mem _ (ih h)

theorem fillOrder_good (o : Order) (a p : Int) (g : GoodFill o a p) : fillOrder o a p = some (fillRaw o a p) := by
  unfold fillOrder
  have := g.le
  simp; omega

/-- a plan of allowed fills is applied without a panic, and every order is reached by allowed fills -/
theorem applyPlan_ok (os : List Order) (plan : List (Order × Int)) (p : Int)
    (h : ∀ oa ∈ plan, GoodFill oa.1 oa.2 p) :
    ∃ os' q, applyPlan os plan p = some (os', q) ∧ All2 Reach os os' := by
  induction os with
  | nil => exact ⟨[], 0, rfl, trivial⟩
  | cons o os ih =>
    obtain ⟨os', q, h1, h2⟩ := ih
    unfold applyPlan
    rw [h1]
    cases hl : plan.lookup o with
    | none => exact ⟨o :: os', q, rfl, Reach.refl o, h2⟩
    | some a =>
      have g := h (o, a) (lookup_mem hl)
      simp only [fillOrder_good o a p g]
      exact ⟨(fillRaw o a p).1 :: os', q + (fillRaw o a p).2, rfl, Reach.one a p g, h2⟩

theorem fulfillPlan_good (os : List Order) (p : Int) (hp : 0 < p) (h : ∀ o ∈ os, Wf o ∧ Within o p) :
    ∀ oa ∈ fulfillPlan os p, oa.1 ∈ os ∧ GoodFill oa.1 oa.2 p := by
  intro oa hoa
  unfold fulfillPlan at hoa
  rw [List.mem_filterMap] at hoa
  obtain ⟨o, ho, hf⟩ := hoa
  simp only at hf
  split at hf
  · rename_i hm
    cases hf
    obtain ⟨hw, hwi⟩ := h o ho
    exact ⟨ho, hp, hm, Int.le_refl _, fun _ => matchable_worth o p hw hp hm, hwi⟩
  · cases hf

theorem all2_zip_mem {α β : Type} {R : α → β → Prop} {l₁ : List α} {l₂ : List β} (h : All2 R l₁ l₂)
    {x : α} {y : β} (hm : (x, y) ∈ l₁.zip l₂) : R x y := by
  induction l₁ generalizing l₂ with
  | nil => simp at hm
  | cons a as ih =>
    cases l₂ with
    | nil => simp at hm
    | cons b bs =>
      simp only [List.zip_cons_cons, List.mem_cons, Prod.mk.injEq] at hm
      rcases hm with ⟨rfl, rfl⟩ | hm
      · exact h.1
      · exact ih h.2 hm

theorem all2_length {α β : Type} {R : α → β → Prop} {l₁ : List α} {l₂ : List β} (h : All2 R l₁ l₂) :
    l₁.length = l₂.length := by
  induction l₁ generalizing l₂ with
  | nil => cases l₂ with
    | nil => rfl
    | cons b bs => exact h.elim
  | cons a as ih => cases l₂ with
    | nil => exact h.elim
    | cons b bs => simp [ih h.2]

theorem share1_bounds (o : Order) (total amt p : Int) (hm : 0 ≤ matchableAmount o p) :
    0 ≤ share1 o total amt p ∧ share1 o total amt p ≤ matchableAmount o p := by
  unfold share1
  simp only
  split
  · omega
  · split <;> omega

theorem pass1_all2 (os : List Order) (total amt p : Int) (h : ∀ o ∈ os, 0 ≤ matchableAmount o p) :
    All2 (fun o a => 0 ≤ a ∧ a ≤ matchableAmount o p) os (pass1 os total amt p) := by
  induction os with
  | nil => trivial
  | cons o os ih =>
    exact ⟨share1_bounds o total amt p (h o (by simp)), ih (fun x hx => h x (by simp [hx]))⟩

theorem pass2_all2 (os : List Order) (prev : List Int) (rem p : Int) (hr : 0 ≤ rem)
    (h : All2 (fun o a => 0 ≤ a ∧ a ≤ matchableAmount o p) os prev) :
    All2 (fun o a => 0 ≤ a ∧ a ≤ matchableAmount o p) os (pass2 os prev rem p) := by
  induction os generalizing prev rem with
  | nil => cases prev with
    | nil => trivial
    | cons b bs => exact h.elim
  | cons o os ih =>
    cases prev with
    | nil => exact h.elim
    | cons b bs =>
      unfold pass2
      split
      · exact h
      · obtain ⟨⟨h1, h2⟩, h3⟩ := h
        exact ⟨by omega, ih bs _ (by omega) h3⟩


theorem proportionShare_le (o : Order) (total amt : Int) (ha : 0 ≤ o.amount) (ht : 0 < total) (hamt : 0 ≤ amt) :
    proportionShare o total amt * total ≤ o.amount * amt := by
  unfold proportionShare Dec.truncateInt Dec.mulInt Dec.quoTruncate Dec.chopTrunc Dec.ofInt
  have hP := P_pos
  have hX : 0 ≤ o.amount * Dec.P * Dec.PP := Int.mul_nonneg (Int.mul_nonneg ha (by decide)) (by decide)
  have htP : 0 < total * Dec.P := Int.mul_pos ht hP
  rw [Int.tdiv_eq_ediv_of_nonneg hX]
  have hY : 0 ≤ o.amount * Dec.P * Dec.PP / (total * Dec.P) := Int.ediv_nonneg hX (by omega)
  rw [Int.tdiv_eq_ediv_of_nonneg hY]
  generalize hYd : o.amount * Dec.P * Dec.PP / (total * Dec.P) = Y at *
  have hq : 0 ≤ Y / Dec.P := Int.ediv_nonneg hY (by decide)
  generalize hqd : Y / Dec.P = q at *
  rw [Int.tdiv_eq_ediv_of_nonneg (Int.mul_nonneg hq hamt)]
  have h1 : q * Dec.P ≤ Y := by rw [← hqd]; exact Int.ediv_mul_le _ (by decide)
  have h2 : Y * (total * Dec.P) ≤ o.amount * Dec.P * Dec.PP := by rw [← hYd]; exact Int.ediv_mul_le _ (by omega)
  have h3 : q * amt / Dec.P * Dec.P ≤ q * amt := Int.ediv_mul_le _ (by decide)
  generalize q * amt / Dec.P = s at *
  have hPP : Dec.PP = Dec.P * Dec.P := rfl
  rw [hPP] at h2
  -- q*total ≤ amount*P
  have h4 : (q * total) * (Dec.P * Dec.P) ≤ (o.amount * Dec.P) * (Dec.P * Dec.P) := by
    have e1 : (q * total) * (Dec.P * Dec.P) = (q * Dec.P) * (total * Dec.P) := by ring
    have e2 : (o.amount * Dec.P) * (Dec.P * Dec.P) = o.amount * Dec.P * (Dec.P * Dec.P) := by ring
    rw [e1]
    exact Int.le_trans (Int.mul_le_mul_of_nonneg_right h1 (by omega)) h2
  have h5 : q * total ≤ o.amount * Dec.P := Int.le_of_mul_le_mul_right h4 (by decide)
  have h6 : (s * total) * Dec.P ≤ (o.amount * amt) * Dec.P := by
    have e1 : (s * total) * Dec.P = (s * Dec.P) * total := by ring
    have e2 : (o.amount * amt) * Dec.P = (o.amount * Dec.P) * amt := by ring
    rw [e1, e2]
    have a1 : (s * Dec.P) * total ≤ (q * amt) * total := Int.mul_le_mul_of_nonneg_right h3 (by omega)
    have a2 : (q * amt) * total = (q * total) * amt := by ring
    have a3 : (q * total) * amt ≤ (o.amount * Dec.P) * amt := Int.mul_le_mul_of_nonneg_right h5 hamt
    omega
  exact Int.le_of_mul_le_mul_right h6 hP

theorem share1_mul_le (o : Order) (total amt p : Int) (hw : Wf o) (ht : 0 < total) (hamt : 0 ≤ amt) :
    share1 o total amt p * total ≤ o.amount * amt := by
  have ha : 0 ≤ o.amount := by have := hw.opn_nonneg; have := hw.opn_le; omega
  have hz : 0 ≤ o.amount * amt := Int.mul_nonneg ha hamt
  have hps := proportionShare_le o total amt ha ht hamt
  unfold share1
  simp only
  split
  · simpa using hz
  · split
    · have : min (matchableAmount o p) (proportionShare o total amt) ≤ proportionShare o total amt := by omega
      exact Int.le_trans (Int.mul_le_mul_of_nonneg_right this (by omega)) hps
    · simpa using hz

theorem sum_pass1_mul_le (os : List Order) (total amt p : Int) (hw : ∀ o ∈ os, Wf o) (ht : 0 < total) (hamt : 0 ≤ amt) :
    sumInt (pass1 os total amt p) * total ≤ totalAmount os * amt := by
  induction os with
  | nil => simp [pass1, totalAmount, sumInt]
  | cons o os ih =>
    have h1 := share1_mul_le o total amt p (hw o (by simp)) ht hamt
    have h2 := ih (fun x hx => hw x (by simp [hx]))
    simp only [pass1, totalAmount, List.map_cons, sumInt] at *
    have e1 : (share1 o total amt p + sumInt (List.map (fun x => share1 x total amt p) os)) * total
        = share1 o total amt p * total + sumInt (List.map (fun x => share1 x total amt p) os) * total := by ring
    have e2 : (o.amount + sumInt (List.map (fun x => x.amount) os)) * amt
        = o.amount * amt + sumInt (List.map (fun x => x.amount) os) * amt := by ring
    rw [e1, e2]; omega

theorem amount_nonneg_of_wf {o : Order} (hw : Wf o) : 0 ≤ o.amount := by
  have := hw.opn_nonneg; have := hw.opn_le; omega

theorem totalAmount_nonneg (os : List Order) (hw : ∀ o ∈ os, Wf o) : 0 ≤ totalAmount os := by
  unfold totalAmount
  apply sumInt_nonneg
  intro x hx
  rw [List.mem_map] at hx
  obtain ⟨o, ho, rfl⟩ := hx
  exact amount_nonneg_of_wf (hw o ho)

theorem amount_le_total (os : List Order) (hw : ∀ o ∈ os, Wf o) (o : Order) (ho : o ∈ os) : o.amount ≤ totalAmount os := by
  induction os with
  | nil => simp at ho
  | cons x xs ih =>
    have hx := amount_nonneg_of_wf (hw x (by simp))
    have hxs := totalAmount_nonneg xs (fun y hy => hw y (by simp [hy]))
    simp only [totalAmount, List.map_cons, sumInt] at *
    rcases List.mem_cons.mp ho with rfl | h
    · omega
    · have := ih (fun y hy => hw y (by simp [hy])) h
      omega

/-- the division `orderAmt.QuoTruncate(totalAmt)` of `DistributeOrderAmountToOrders` never divides by zero -/
theorem no_div_by_zero (os : List Order) (p : Int) (hp : 0 < p) (hw : ∀ o ∈ os, Wf o) : divByZero os p = false := by
  unfold divByZero
  by_cases ht : totalAmount os = 0
  · have : (os.any fun o => matchableAmount o p != 0) = false := by
      rw [List.any_eq_false]
      intro o ho
      have h1 := amount_le_total os hw o ho
      have h2 := matchable_le_opn o p (hw o ho)
      have h3 := matchable_nonneg o p (hw o ho) hp
      have h4 := (hw o ho).opn_le
      have : matchableAmount o p = 0 := by omega
      simp [this]
    simp [this]
  · simp [ht]

theorem sum_pass1_le (os : List Order) (amt p : Int) (hp : 0 < p) (hw : ∀ o ∈ os, Wf o) (hamt : 0 ≤ amt) :
    sumInt (pass1 os (totalAmount os) amt p) ≤ amt := by
  have ht := totalAmount_nonneg os hw
  by_cases h0 : totalAmount os = 0
  · -- every matchable amount is zero
    have : ∀ o ∈ os, share1 o (totalAmount os) amt p = 0 := by
      intro o ho
      have h1 := amount_le_total os hw o ho
      have h2 := matchable_le_opn o p (hw o ho)
      have h3 := matchable_nonneg o p (hw o ho) hp
      have h4 := (hw o ho).opn_le
      have : matchableAmount o p = 0 := by omega
      simp [share1, this]
    have hs : sumInt (pass1 os (totalAmount os) amt p) = 0 := by
      generalize totalAmount os = T at *
      clear h0 ht
      induction os with
      | nil => rfl
      | cons x xs ih =>
        simp only [pass1, List.map_cons, sumInt]
        rw [this x (by simp)]
        have := ih (fun y hy => hw y (by simp [hy])) (fun y hy => this y (by simp [hy]))
        simp only [pass1] at this
        omega
    omega
  · have hpos : 0 < totalAmount os := by omega
    have h := sum_pass1_mul_le os (totalAmount os) amt p hw hpos hamt
    have e : totalAmount os * amt = amt * totalAmount os := by ring
    rw [e] at h
    exact Int.le_of_mul_le_mul_right h hpos



theorem pass1_length (os : List Order) (total amt p : Int) : (pass1 os total amt p).length = os.length := by
  simp [pass1]

theorem shares_all2 (os : List Order) (amt p : Int) (hp : 0 < p) (hw : ∀ o ∈ os, Wf o) (hamt : 0 ≤ amt) :
    All2 (fun o a => 0 ≤ a ∧ a ≤ matchableAmount o p) os
      (pass2 os (pass1 os (totalAmount os) amt p) (amt - sumInt (pass1 os (totalAmount os) amt p)) p) := by
  apply pass2_all2
  · have := sum_pass1_le os amt p hp hw hamt; omega
  · exact pass1_all2 os _ amt p (fun o ho => matchable_nonneg o p (hw o ho) hp)

theorem shares_length (os : List Order) (amt p : Int) (hp : 0 < p) (hw : ∀ o ∈ os, Wf o) (hamt : 0 ≤ amt) :
    (shares os amt p).length = os.length := by
  unfold shares
  simp only [List.length_zip]
  have := all2_length (shares_all2 os amt p hp hw hamt)
  omega

theorem shares_mem (os : List Order) (amt p : Int) (hp : 0 < p) (hw : ∀ o ∈ os, Wf o) (hamt : 0 ≤ amt)
    (oa : Order × Int) (h : oa ∈ shares os amt p) : oa.1 ∈ os ∧ 0 ≤ oa.2 ∧ oa.2 ≤ matchableAmount oa.1 p := by
  obtain ⟨o, a⟩ := oa
  unfold shares at h
  simp only at h
  exact ⟨(List.of_mem_zip h).1, all2_zip_mem (shares_all2 os amt p hp hw hamt) h⟩

/-- `DistributeOrderAmountToOrders` terminates (the fuel `length + 1` is never exhausted), does not divide by zero, and
its plan consists of allowed fills of orders of the list -/
theorem planOrders_good (fuel : Nat) (os : List Order) (amt p : Int) (hp : 0 < p) (hamt : 0 ≤ amt)
    (hw : ∀ o ∈ os, Wf o ∧ Within o p) (hf : os.length < fuel) :
    ∃ plan, planOrders fuel os amt p = some plan ∧ ∀ oa ∈ plan, oa.1 ∈ os ∧ GoodFill oa.1 oa.2 p := by
  induction fuel generalizing os with
  | zero => omega
  | succ fuel ih =>
    have hw' : ∀ o ∈ os, Wf o := fun o ho => (hw o ho).1
    unfold planOrders
    rw [no_div_by_zero os p hp hw']
    simp only [Bool.false_eq_true, if_false]
    have hlen := shares_length os amt p hp hw' hamt
    by_cases h1 : (List.filter (fun oa => shareOk oa.1 oa.2 p) (shares os amt p)).length = (shares os amt p).length
    · rw [if_pos h1]
      refine ⟨_, rfl, ?_⟩
      intro oa hoa
      obtain ⟨hm, h0, hle⟩ := shares_mem os amt p hp hw' hamt oa hoa
      have hok := (List.length_filter_eq_length_iff.mp h1) oa hoa
      unfold shareOk at hok
      simp only [Bool.and_eq_true, Bool.or_eq_true, bne_iff_ne, ne_eq, beq_iff_eq, decide_eq_true_eq] at hok
      refine ⟨hm, hp, by omega, hle, ?_, (hw _ hm).2⟩
      intro hs
      rcases hok.2 with hb | hq
      · rw [hs] at hb; cases hb
      · exact hq
    · rw [if_neg h1]
      have hlt : (List.filter (fun oa => shareOk oa.1 oa.2 p) (shares os amt p)).length < (shares os amt p).length := by
        have := List.length_filter_le (fun oa => shareOk oa.1 oa.2 p) (shares os amt p)
        omega
      split
      · -- nothing matched: retry without the last order
        have hne : os ≠ [] := by
          intro h; subst h; simp [shares] at hlt
        have : os.dropLast.length < fuel := by
          rw [List.length_dropLast]
          have : 0 < os.length := List.length_pos_iff.mpr hne
          omega
        obtain ⟨plan, hpl, hg⟩ := ih os.dropLast (fun o ho => hw o (List.dropLast_subset os ho)) this
        exact ⟨plan, hpl, fun oa hoa => ⟨List.dropLast_subset os (hg oa hoa).1, (hg oa hoa).2⟩⟩
      · -- retry with the matched orders only
        have hsub : ∀ o ∈ (List.filter (fun oa => shareOk oa.1 oa.2 p) (shares os amt p)).map (·.1), o ∈ os := by
          intro o ho
          rw [List.mem_map] at ho
          obtain ⟨oa, hoa, rfl⟩ := ho
          exact (shares_mem os amt p hp hw' hamt oa (List.mem_filter.mp hoa).1).1
        have : ((List.filter (fun oa => shareOk oa.1 oa.2 p) (shares os amt p)).map (·.1)).length < fuel := by
          rw [List.length_map]; omega
        obtain ⟨plan, hpl, hg⟩ := ih _ (fun o ho => hw o (hsub o ho)) this
        exact ⟨plan, hpl, fun oa hoa => ⟨hsub _ (hg oa hoa).1, (hg oa hoa).2⟩⟩

theorem mem_insertSorted (x y : Order) (l : List Order) : y ∈ insertSorted x l ↔ y = x ∨ y ∈ l := by
  induction l with
  | nil => simp [insertSorted]
  | cons z zs ih =>
    unfold insertSorted
    split
    · simp only [List.mem_cons, ih]
      constructor
      · rintro (h | h | h) <;> simp [h]
      · rintro (h | h | h) <;> simp [h]
    · simp

theorem mem_sortOrders (y : Order) (l : List Order) : y ∈ sortOrders l ↔ y ∈ l := by
  induction l with
  | nil => simp [sortOrders]
  | cons z zs ih => simp [sortOrders, mem_insertSorted, ih]

theorem length_insertSorted (x : Order) (l : List Order) : (insertSorted x l).length = l.length + 1 := by
  induction l with
  | nil => simp [insertSorted]
  | cons z zs ih => unfold insertSorted; split <;> simp [ih]

theorem length_sortOrders (l : List Order) : (sortOrders l).length = l.length := by
  induction l with
  | nil => simp [sortOrders]
  | cons z zs ih => simp [sortOrders, length_insertSorted, ih]

theorem mem_groupOrders (os g : List Order) (hg : g ∈ groupOrders os) : ∀ o ∈ g, o ∈ os := by
  unfold groupOrders at hg
  rw [List.mem_map] at hg
  obtain ⟨k, _, rfl⟩ := hg
  intro o ho
  exact (List.mem_filter.mp ho).1

theorem totalMatchable_nonneg (os : List Order) (p : Int) (hp : 0 < p) (hw : ∀ o ∈ os, Wf o) : 0 ≤ totalMatchable os p := by
  unfold totalMatchable
  apply sumInt_nonneg
  intro x hx
  rw [List.mem_map] at hx
  obtain ⟨o, ho, rfl⟩ := hx
  exact matchable_nonneg o p (hw o ho) hp

/-- the group loop of `DistributeOrderAmountToTick` only plans allowed fills of orders of the groups -/
theorem planGroups_good (gs : List (List Order)) (os : List Order) (rem p : Int) (hp : 0 < p) (hrem : 0 ≤ rem)
    (hsub : ∀ g ∈ gs, ∀ o ∈ g, o ∈ os) (hw : ∀ o ∈ os, Wf o ∧ Within o p) :
    ∃ plan, planGroups gs rem p = some plan ∧ ∀ oa ∈ plan, oa.1 ∈ os ∧ GoodFill oa.1 oa.2 p := by
  induction gs generalizing rem with
  | nil => exact ⟨[], rfl, by simp⟩
  | cons g gs ih =>
    have hg : ∀ o ∈ g, Wf o ∧ Within o p := fun o ho => hw o (hsub g (by simp) o ho)
    have hsub' : ∀ g' ∈ gs, ∀ o ∈ g', o ∈ os := fun g' hg' => hsub g' (by simp [hg'])
    unfold planGroups
    simp only
    split
    · exact ih rem hrem hsub'
    · split
      · rename_i hge
        have hful := fulfillPlan_good g p hp hg
        have hful' : ∀ oa ∈ fulfillPlan g p, oa.1 ∈ os ∧ GoodFill oa.1 oa.2 p :=
          fun oa hoa => ⟨hsub g (by simp) _ (hful oa hoa).1, (hful oa hoa).2⟩
        split
        · exact ⟨_, rfl, hful'⟩
        · obtain ⟨rest, hr, hgood⟩ := ih (rem - totalMatchable g p) (by omega) hsub'
          rw [hr]
          refine ⟨_, rfl, ?_⟩
          intro oa hoa
          rcases List.mem_append.mp hoa with h | h
          · exact hful' oa h
          · exact hgood oa h
      · have hs : ∀ o ∈ sortOrders g, Wf o ∧ Within o p := fun o ho => hg o ((mem_sortOrders o g).mp ho)
        obtain ⟨plan, hpl, hgood⟩ := planOrders_good (g.length + 1) (sortOrders g) rem p hp hrem hs
          (by rw [length_sortOrders]; omega)
        exact ⟨plan, hpl, fun oa hoa =>
          ⟨hsub g (by simp) _ ((mem_sortOrders _ g).mp (hgood oa hoa).1), (hgood oa hoa).2⟩⟩

/-- **`DistributeOrderAmountToTick` never panics** on well-formed orders at a price within their limits, and only performs allowed fills -/
theorem distributeToTick_ok (os : List Order) (amt p : Int) (hp : 0 < p) (hamt : 0 ≤ amt)
    (hw : ∀ o ∈ os, Wf o ∧ Within o p) :
    ∃ os' q, distributeToTick os amt p = some (os', q) ∧ All2 Reach os os' := by
  obtain ⟨plan, hpl, hgood⟩ := planGroups_good (groupOrders os) os amt p hp hamt (mem_groupOrders os) hw
  unfold distributeToTick
  rw [hpl]
  exact applyPlan_ok os plan p (fun oa hoa => (hgood oa hoa).2)

/-- `FulfillOrders` never panics -/
theorem fulfillOrders_ok (os : List Order) (p : Int) (hp : 0 < p) (hw : ∀ o ∈ os, Wf o ∧ Within o p) :
    ∃ os' q, fulfillOrders os p = some (os', q) ∧ All2 Reach os os' := by
  unfold fulfillOrders
  exact applyPlan_ok os _ p (fun oa hoa => (fulfillPlan_good os p hp hw oa hoa).2)

/-- `DistributeOrderAmountToOrders` never panics -/
theorem distributeToOrders_ok (os : List Order) (amt p : Int) (hp : 0 < p) (hamt : 0 ≤ amt)
    (hw : ∀ o ∈ os, Wf o ∧ Within o p) :
    ∃ os' q, distributeToOrders os amt p = some (os', q) ∧ All2 Reach os os' := by
  obtain ⟨plan, hpl, hgood⟩ := planOrders_good (os.length + 1) os amt p hp hamt hw (by omega)
  unfold distributeToOrders
  rw [hpl]
  exact applyPlan_ok os plan p (fun oa hoa => (hgood oa hoa).2)


end Comdex.Amm
