import Comdex.Lemmas.DutchV2
/-!
# The posted price of a second-generation Dutch auction stays in its band in EVERY reachable state

`Band e a`: the record's posted price is at most its start price and at least its end price minus the proved slack
(`(price + 1)·tau ≥ end·tau − (start − end)`, with `end = start·discount` and `tau` recomputed from the record as the code does).
It is an invariant of every operation of the model — market bids, limit fills, reserve top-ups, limit deposits, the ordinary
block hook (price update inside the window, restart after it) AND the block hook of an app under emergency shutdown
(`tickIterEsm`: price update inside the window; past the end of the window `TriggerEsm` for a vault-initiated auction, nothing at
all for lend- / externally initiated ones).  The one thing the band needs is that the price function is never evaluated beyond
the end of the window: `iterate` is only reached with `now ≤ EndTime`, or it restarts.  An iterator that keeps updating a
non-vault auction past `EndTime` under shutdown breaks exactly this (seeded change s81).

Block times must not run backwards (`Chrono`): the elapsed time the price function sees is then never negative.
-/
namespace Comdex.DutchV2
open Comdex Comdex.Dec Comdex.DutchPrice

structure Band (e : Env) (a : Auc) : Prop where
  init_nonneg : (0 : Int) ≤ a.init
  window : a.end_ = a.start + e.T
  le_start : (a.price : Int) ≤ a.init
  ge_end : ∀ endP t, endPrice a.init e.discount = .ok endP → tau a.init endP e.T = .ok t →
      (endP : Int) * t - (a.init - endP) ≤ (a.price + 1) * t

/-- the decidable form the driver evaluates on REAL records -/
theorem monBand_of_band {e : Env} {a : Auc} (h : Band e a) : monBand e a = true := by
  unfold monBand
  simp only [Bool.and_eq_true, decide_eq_true_eq]
  refine ⟨h.le_start, ?_⟩
  split
  · rename_i endP he
    split
    · rename_i t ht
      unfold monGeEndSlack
      simp only [decide_eq_true_eq, ge_iff_le]
      exact h.ge_end endP t he ht
    · rfl
  · rfl

/-- facts about `end` and `tau` of a record whose `tau` can be computed -/
theorem end_tau_facts {e : Env} {top endP : Dec} {t : Int} (hw : WfEnv e) (htop : (0 : Int) ≤ top)
    (he : endPrice top e.discount = .ok endP) (ht : tau top endP e.T = .ok t) :
    (0 : Int) ≤ endP ∧ (0 : Int) < top - endP ∧ e.T ≤ t ∧ t = tauVal top endP e.T := by
  have e1 : endP = Dec.mul top e.discount := by unfold endPrice at he; exact chk_ok he
  obtain ⟨e2, hne⟩ := tau_ok ht
  have h0 := mul_nonneg' top e.discount htop hw.discount_nonneg
  have hle := mul_le_top top e.discount htop hw.discount_le_one
  rw [← e1] at h0 hle
  have hD : (0 : Int) < (top : Int) - endP := by
    have hne' : (endP : Int) ≠ top := by
      intro heq; apply hne
      show (top : Int) - endP = 0
      rw [heq]; exact Int.sub_self _
    exact Int.sub_pos.mpr (lt_of_le_of_ne hle hne')
  refine ⟨h0, hD, ?_, e2⟩
  rw [e2]; exact tauVal_ge_T top endP e.T h0 hD hw.T_nonneg

/-- a record posted at its start price (activator, restart) is in the band -/
theorem band_at_start {e : Env} {a : Auc} (hw : WfEnv e) (hi : (0 : Int) ≤ a.init) (hp : a.price = a.init)
    (hwin : a.end_ = a.start + e.T) : Band e a := by
  refine ⟨hi, hwin, by rw [hp], ?_⟩
  intro endP t he ht
  obtain ⟨h0, hD, hT, _⟩ := end_tau_facts hw hi he ht
  have ht0 : 0 ≤ t := by have := hw.T_nonneg; omega
  rw [hp]
  have h1 : (endP : Int) * t ≤ a.init * t := Int.mul_le_mul_of_nonneg_right (by omega) ht0
  nlinarith

/-- the price update inside the window keeps the band (elapsed time `0 ≤ dur ≤ T`) -/
theorem band_after_update {e : Env} {a : Auc} {p : Dec} {dur : Int} (hw : WfEnv e) (hb : Band e a)
    (hd0 : 0 ≤ dur) (hdT : dur ≤ e.T) (hp : priceV2 a.init e.discount e.T dur = .ok p) (a' : Auc)
    (h1 : a'.init = a.init) (h2 : a'.price = p) (h3 : a'.start = a.start) (h4 : a'.end_ = a.end_) : Band e a' := by
  obtain ⟨ep, hne⟩ := priceV2_ok hp
  have hden := priceV2_den hp
  have he0 := mul_nonneg' a.init e.discount hb.init_nonneg hw.discount_nonneg
  have hle := mul_le_top a.init e.discount hb.init_nonneg hw.discount_le_one
  have hD : (0 : Int) < (a.init : Int) - (Dec.mul a.init e.discount : Int) := by
    have hne' : (Dec.mul a.init e.discount : Int) ≠ a.init := by
      intro heq; apply hden
      show (a.init : Int) - Dec.mul a.init e.discount = 0
      rw [heq]; exact Int.sub_self _
    exact Int.sub_pos.mpr (lt_of_le_of_ne hle hne')
  have hTt := tauVal_ge_T a.init (Dec.mul a.init e.discount) e.T he0 hD hw.T_nonneg
  have hpos : 0 < tauVal a.init (Dec.mul a.init e.discount) e.T := by have := hw.T_nonneg; omega
  have hTpos : 0 < e.T := by
    -- T = 0 would give tau = 0, which `priceV2` refuses
    by_cases h : 0 < e.T
    · exact h
    · exfalso
      have hT0 : e.T = 0 := by have := hw.T_nonneg; omega
      apply hne
      rw [hT0]
      unfold tauVal Dec.truncateInt
      rw [mul_ofInt]
      simp only [Dec.quo, Int.mul_zero, Int.zero_mul, Int.zero_tdiv]
      rw [chopRound_zero]; simp
  refine ⟨by rw [h1]; exact hb.init_nonneg, by rw [h4, h3]; exact hb.window, ?_, ?_⟩
  · rw [h2, h1, ep]; exact linearVal_le_top _ _ _ hb.init_nonneg hpos hd0
  · intro endP t he ht
    rw [h1] at he ht
    have e1 : endP = Dec.mul a.init e.discount := by unfold endPrice at he; exact chk_ok he
    obtain ⟨e2, _⟩ := tau_ok ht
    rw [h2, h1, ep, e2, e1]
    exact linearVal_ge_end_slack a.init _ e.T dur he0 hD hTpos hdT

/-- `iterate` (update inside the window, restart after it) keeps the band, given the block time is not before the record's start -/
theorem iterate_band {e : Env} {a a' : Auc} {now twaC twaD : Int} {actC actD : Bool}
    (hw : WfEnv e) (hb : Band e a) (hs : a.start ≤ now) (htw : 0 ≤ twaC)
    (h : iterate e a now twaC actC twaD actD = .ok a') : Band e a' ∧ a'.start ≤ now := by
  unfold iterate at h
  simp only [bind, Except.bind, pure, Except.pure] at h
  split at h
  · cases h
  · split at h
    · split at h
      · cases h
      · rename_i p0 hp0
        cases h
        have := startPrice_ok hp0
        have hp : (0 : Int) ≤ p0 := by rw [this]; exact Int.mul_nonneg hw.premium_nonneg htw
        exact ⟨band_at_start hw hp rfl rfl, Int.le_refl _⟩
    · rename_i hnow
      split at h
      · cases h
      · rename_i p hp
        cases h
        have hwin := hb.window
        exact ⟨band_after_update hw hb (by omega) (by omega) hp _ rfl rfl rfl rfl, hs⟩

/-- every live record is in the band and did not start after the current block time -/
def BandInv (e : Env) (s : St) (t : Int) : Prop := ∀ a, s.auc = some a → Band e a ∧ a.start ≤ t

theorem Band.congr {e : Env} {a a' : Auc} (hb : Band e a) (h1 : a'.init = a.init) (h2 : a'.price = a.price)
    (h3 : a'.start = a.start) (h4 : a'.end_ = a.end_) : Band e a' :=
  ⟨by rw [h1]; exact hb.init_nonneg, by rw [h4, h3]; exact hb.window, by rw [h2, h1]; exact hb.le_start,
   by intro endP t he ht; rw [h1] at he ht; rw [h2, h1]; exact hb.ge_end endP t he ht⟩

/-- a bid leaves price, start price and window of the record alone -/
theorem apply_band {e : Env} {s s' : St} {a : Auc} {who : Nat} {p : Plan} {auto : Bool} {t : Int}
    (hb : Band e a) (hs : a.start ≤ t) (h : apply e s a who p auto = .ok s') : BandInv e s' t := by
  unfold apply at h
  split at h
  · cases h
  · split at h
    · cases h
    · split at h
      · cases h
      · split at h
        · cases h
        · by_cases hcl : p.close = true
          · simp only [hcl, if_true] at h
            split at h
            · cases h
            · split at h
              · cases h
              · cases h
                intro a' ha'; simp at ha'
          · simp only [hcl, if_false, Bool.false_eq_true] at h
            cases h
            intro a' ha'
            simp only [Option.some.injEq] at ha'
            subst ha'
            exact ⟨hb.congr rfl rfl rfl rfl, hs⟩

theorem placeBid_band {e : Env} {s s' : St} {a : Auc} {who : Nat} {amt dt : Int} {auto : Bool} {t : Int}
    (hb : Band e a) (hs : a.start ≤ t) (h : placeBid e s a who amt dt auto = .ok s') : BandInv e s' t := by
  unfold placeBid at h
  split at h
  · exact apply_band hb hs h
  · cases h

theorem fillLoop_band {e : Env} {a : Auc} {dt t : Int} (hb : Band e a) (hs : a.start ≤ t) :
    ∀ (l : List LBid) (s s' : St), BandInv e s t → fillLoop e a dt s l = .ok s' → BandInv e s' t := by
  intro l
  induction l with
  | nil => intro s s' hi h; unfold fillLoop at h; cases h; exact hi
  | cons hd tl ih =>
    intro s s' hi h
    obtain ⟨pr, who, amt⟩ := hd
    unfold fillLoop at h
    simp only [bind, Except.bind] at h
    split at h
    · cases h
    · rename_i s1 hs1
      have i1 := placeBid_band (t := t) hb hs hs1
      split at h
      · cases h; exact i1
      · exact ih s1 s' i1 h

theorem fill_band {e : Env} {s s' : St} {dt t : Int} {lbids : List LBid}
    (hi : BandInv e s t) (h : fill e s dt lbids = .ok s') : BandInv e s' t := by
  unfold fill at h
  split at h
  · cases h; exact hi
  · rename_i a ha
    simp only [bind, Except.bind] at h
    split at h
    · cases h
    · split at h
      · cases h; exact hi
      · obtain ⟨hb, hs⟩ := hi a ha
        exact fillLoop_band hb hs _ _ _ hi h

theorem tickIter_band {e : Env} {s : St} {now twaC twaD t : Int} {actC actD : Bool}
    (hw : WfEnv e) (hi : BandInv e s t) (ht : t ≤ now) (htw : 0 ≤ twaC) :
    BandInv e (tickIter e s now twaC actC twaD actD) now := by
  unfold tickIter
  split
  · rename_i hn; intro a ha; rw [hn] at ha; cases ha
  · rename_i a ha
    obtain ⟨hb, hs⟩ := hi a ha
    split
    · rename_i a' ha'
      intro a'' h''
      simp only [Option.some.injEq] at h''
      subst h''
      exact iterate_band hw hb (by omega) htw ha'
    · intro a'' h''; rw [ha] at h''; cases h''; exact ⟨hb, by omega⟩

/-- `TriggerEsm` does not touch the auction record -/
theorem triggerEsm_auc {e : Env} {s s' : St} {a : Auc} (h : triggerEsm e s a = .ok s') : s'.auc = s.auc := by
  unfold triggerEsm at h
  simp only [] at h
  iterate 8 (all_goals (try (split at h)))
  all_goals (first | (cases h; rfl) | cases h)

/-- what `TriggerEsm` moves: exactly what the auction has collected so far (`target − remaining debt`) leaves the module account,
burned or sent to the collector; no collateral moves; the auction record stays -/
theorem triggerEsm_ok {e : Env} {s s' : St} {a : Auc} (h : triggerEsm e s a = .ok s') :
    s'.auc = s.auc ∧ 0 ≤ e.target - a.debt ∧
    s'.bank.get .auction .debt = s.bank.get .auction .debt - (e.target - a.debt) ∧
    (s'.burned - s.burned) + (s'.bank.get .collector .debt - s.bank.get .collector .debt) = e.target - a.debt ∧
    (∀ x, s'.bank.get x .coll = s.bank.get x .coll) ∧ s'.esmOut = s.esmOut + (e.target - a.debt) ∧
    s'.paid = s.paid ∧ s'.recv = s.recv := by
  have hauc := triggerEsm_auc h
  unfold triggerEsm at h
  simp only [] at h
  by_cases hneg : e.target - a.debt < 0
  · simp [hneg] at h
  · simp only [hneg, if_false] at h
    by_cases hgt : e.target - a.debt > e.fee
    · simp only [hgt, if_true] at h
      by_cases hf : e.fee < 0
      · simp [hf] at h
      · simp only [hf, if_false] at h
        have hb : e.target - a.debt - e.fee > 0 := by omega
        simp only [hb, if_true] at h
        split at h
        · cases h
        · rename_i b1 hb1
          split at h
          · cases h
          · rename_i b2 hb2
            cases h
            obtain ⟨_, d1⟩ := burn_ok hb1
            have d2 := sendPos_ok hb2 (by decide)
            have hf0 : 0 ≤ e.fee := by omega
            refine ⟨hauc, by omega, ?_, ?_, ?_, by simp only; omega, rfl, rfl⟩
            · simp only; rw [d2, d1]; simp [posPart_of_nonneg hf0]; omega
            · simp only; rw [d2, d1]; simp [posPart_of_nonneg hf0]
            · intro x; simp only; rw [d2, d1]; simp
    · simp only [hgt, if_false] at h
      simp only [hneg, if_false] at h
      have hb : ¬ (0 : Int) > 0 := by omega
      simp only [hb, if_false] at h
      split at h
      · cases h
      · rename_i b2 hb2
        cases h
        have d2 := sendPos_ok hb2 (by decide)
        have hc0 : 0 ≤ e.target - a.debt := by omega
        refine ⟨hauc, hc0, ?_, ?_, ?_, by simp only; omega, rfl, rfl⟩
        · simp only; rw [d2]; simp [posPart_of_nonneg hc0]
        · simp only; rw [d2]; simp [posPart_of_nonneg hc0]
        · intro x; simp only; rw [d2]; simp

/-- past the end of its window an auction that was NOT initiated by a vault is left exactly as it is by the shutdown iterator -/
theorem tickIterEsm_nonvault_past_end {e : Env} {s : St} {a : Auc} {now twaC twaD : Int} {actC actD : Bool}
    (hk : e.kind ≠ .vault) (ha : s.auc = some a) (hn : now > a.end_) : tickIterEsm e s now twaC actC twaD actD = s := by
  unfold tickIterEsm
  rw [ha]
  cases hkk : e.kind with
  | vault => exact absurd hkk hk
  | lend => simp [hn]
  | external => simp [hn]

/-- the iterator under emergency shutdown: inside the window the ordinary update, past its end the record of EVERY initiator
kind keeps its posted price (vault: `TriggerEsm` moves money only; lend / external: nothing happens) -/
theorem tickIterEsm_band {e : Env} {s : St} {now twaC twaD t : Int} {actC actD : Bool}
    (hw : WfEnv e) (hi : BandInv e s t) (ht : t ≤ now) (htw : 0 ≤ twaC) :
    BandInv e (tickIterEsm e s now twaC actC twaD actD) now := by
  unfold tickIterEsm
  split
  · rename_i hn; intro a ha; rw [hn] at ha; cases ha
  · rename_i a ha
    obtain ⟨hb, hs⟩ := hi a ha
    have keep : BandInv e s now := by
      intro a'' h''; rw [ha] at h''; cases h''; exact ⟨hb, by omega⟩
    split
    · split
      · unfold orElse
        split
        · rename_i s' hs'
          intro a'' h''
          rw [triggerEsm_auc hs'] at h''
          exact keep a'' h''
        · exact keep
      · exact keep
    · split
      · rename_i a' ha'
        intro a'' h''
        simp only [Option.some.injEq] at h''
        subst h''
        exact iterate_band hw hb (by omega) htw ha'
      · exact keep

/-- block times of a history do not run backwards; `t` is the time of the latest block so far -/
def Chrono : Int → List Op → Prop
  | _, [] => True
  | t, .tick now twaC _ _ _ _ :: r => t ≤ now ∧ 0 ≤ twaC ∧ Chrono now r
  | t, .tickEsm now twaC _ _ _ _ :: r => t ≤ now ∧ 0 ≤ twaC ∧ Chrono now r
  | t, _ :: r => Chrono t r

def lastTime : Int → List Op → Int
  | t, [] => t
  | _, .tick now _ _ _ _ _ :: r => lastTime now r
  | _, .tickEsm now _ _ _ _ _ :: r => lastTime now r
  | t, _ :: r => lastTime t r

theorem BandInv.mono_state {e : Env} {s s' : St} {t : Int} (hi : BandInv e s t) (h : s'.auc = s.auc) : BandInv e s' t := by
  intro a ha; rw [h] at ha; exact hi a ha

theorem run_band {e : Env} (hw : WfEnv e) :
    ∀ (ops : List Op) (s : St) (t : Int), BandInv e s t → Chrono t ops → BandInv e (run e s ops) (lastTime t ops) := by
  intro ops
  induction ops with
  | nil => intro s t hi _; exact hi
  | cons op ops ih =>
    intro s t hi hc
    simp only [run, List.foldl_cons]
    cases op with
    | bid who amt dt =>
      simp only [Chrono] at hc
      simp only [lastTime]
      apply ih _ _ _ hc
      simp only [step, orElse]
      split
      · rename_i s' hs'
        unfold bidE at hs'
        split at hs'
        · cases hs'
        · split at hs'
          · cases hs'
          · rename_i a ha
            obtain ⟨hb, hs⟩ := hi a ha
            exact placeBid_band hb hs hs'
      · exact hi
    | tick now twaC actC twaD actD lbids =>
      obtain ⟨h1, h2, h3⟩ := hc
      simp only [lastTime]
      apply ih _ _ _ h3
      simp only [step, orElse]
      have hi1 := tickIter_band (twaD := twaD) (actC := actC) (actD := actD) hw hi h1 h2
      split
      · rename_i s' hs'; exact fill_band hi1 hs'
      · exact hi1
    | tickEsm now twaC actC twaD actD lbids =>
      obtain ⟨h1, h2, h3⟩ := hc
      simp only [lastTime]
      apply ih _ _ _ h3
      simp only [step, orElse]
      have hi1 := tickIterEsm_band (twaD := twaD) (actC := actC) (actD := actD) hw hi h1 h2
      split
      · rename_i s' hs'; exact fill_band hi1 hs'
      · exact hi1
    | reserve who amt =>
      simp only [Chrono] at hc
      simp only [lastTime]
      apply ih _ _ _ hc
      simp only [step]
      split
      · exact hi
      · split
        · exact hi.mono_state rfl
        · exact hi
    | limit who prem amt =>
      simp only [Chrono] at hc
      simp only [lastTime]
      apply ih _ _ _ hc
      simp only [step]
      split
      · exact hi
      · split
        · exact hi.mono_state rfl
        · exact hi

end Comdex.DutchV2
