import Comdex.Model.Pool
import Mathlib.Tactic.Linarith
import Mathlib.Tactic.Positivity
import Mathlib.Tactic.Ring
import Mathlib.Tactic.SplitIfs
/-!
Lemmas for property C06 (`Comdex/Props/C06.lean`): floor/half-even/ceiling facts about the `Dec` primitives on
non-negative arguments, peeling of the `Except` monad of `Model/Pool.lean`, the arithmetic content of
`Deposit`/`Withdraw`, panic freedom, the no-overflow computations, monotonicity of `Quo`, and what an accepted
`CreateRangedPool` guarantees about its parameters.
-/
namespace Comdex.Pool
open Comdex

theorem P_pos : (0:Int) < Dec.P := by decide
theorem P_val : Dec.P = 1000000000000000000 := rfl
theorem PP_eq : Dec.PP = Dec.P * Dec.P := rfl
theorem PP_pos : (0:Int) < Dec.PP := by decide

theorem tdiv_nn {a b : Int} (ha : 0 ≤ a) : a.tdiv b = a / b :=
  Int.tdiv_eq_ediv_of_nonneg ha

theorem chopTrunc_nn {a : Int} (ha : 0 ≤ a) : Dec.chopTrunc a = a / Dec.P := by
  unfold Dec.chopTrunc; exact Int.tdiv_eq_ediv_of_nonneg ha

/-- `quoTruncate` on non-negatives: nested floors -/
theorem quoTruncate_nn {a b : Int} (ha : 0 ≤ a) (hb : 0 < b) :
    Dec.quoTruncate a b = a * Dec.PP / b / Dec.P := by
  have h1 : 0 ≤ a * Dec.PP := Int.mul_nonneg ha (Int.le_of_lt PP_pos)
  unfold Dec.quoTruncate
  rw [Int.tdiv_eq_ediv_of_nonneg h1, chopTrunc_nn (Int.ediv_nonneg h1 (Int.le_of_lt hb))]

theorem quoTruncate_nonneg {a b : Int} (ha : 0 ≤ a) (hb : 0 < b) : 0 ≤ Dec.quoTruncate a b := by
  rw [quoTruncate_nn ha hb]
  exact Int.ediv_nonneg (Int.ediv_nonneg (Int.mul_nonneg ha (Int.le_of_lt PP_pos)) (Int.le_of_lt hb)) (Int.le_of_lt P_pos)

/-- `quoTruncate a b * b ≤ a * 10^18` -/
theorem quoTruncate_mul_le {a b : Int} (ha : 0 ≤ a) (hb : 0 < b) :
    Dec.quoTruncate a b * b ≤ a * Dec.P := by
  rw [quoTruncate_nn ha hb]
  have h1 := Int.ediv_mul_le (a * Dec.PP) (Int.ne_of_gt hb)
  have h2 := Int.ediv_mul_le (a * Dec.PP / b) (Int.ne_of_gt P_pos)
  have hP := P_pos
  have : (a * Dec.PP / b / Dec.P * b) * Dec.P ≤ (a * Dec.P) * Dec.P := by
    calc (a * Dec.PP / b / Dec.P * b) * Dec.P = (a * Dec.PP / b / Dec.P * Dec.P) * b := by ring
      _ ≤ (a * Dec.PP / b) * b := Int.mul_le_mul_of_nonneg_right h2 (Int.le_of_lt hb)
      _ ≤ a * Dec.PP := h1
      _ = (a * Dec.P) * Dec.P := by rw [PP_eq]; ring
  exact Int.le_of_mul_le_mul_right this hP


theorem mulTruncate_nn {a b : Int} (ha : 0 ≤ a) (hb : 0 ≤ b) : Dec.mulTruncate a b = a * b / Dec.P := by
  unfold Dec.mulTruncate Dec.chopTrunc
  exact Int.tdiv_eq_ediv_of_nonneg (Int.mul_nonneg ha hb)

theorem mulTruncate_toDec {n b : Int} (hn : 0 ≤ n) (hb : 0 ≤ b) : Dec.mulTruncate (toDec n) b = n * b := by
  have h0 : 0 ≤ toDec n := Int.mul_nonneg hn (Int.le_of_lt P_pos)
  rw [mulTruncate_nn h0 hb]
  show n * Dec.P * b / Dec.P = n * b
  rw [show n * Dec.P * b = (n * b) * Dec.P by ring]
  exact Int.mul_ediv_cancel _ (Int.ne_of_gt P_pos)

theorem truncateInt_nn {a : Int} (ha : 0 ≤ a) : Dec.truncateInt a = a / Dec.P := by
  unfold Dec.truncateInt; exact Int.tdiv_eq_ediv_of_nonneg ha

theorem chopRound_nn_bounds {t : Int} (ht : 0 ≤ t) :
    0 ≤ Dec.chopRound t ∧ 2 * t ≤ 2 * Dec.chopRound t * Dec.P + Dec.P ∧ 2 * Dec.chopRound t * Dec.P ≤ 2 * t + Dec.P := by
  have h1 : t.tdiv Dec.P = t / Dec.P := Int.tdiv_eq_ediv_of_nonneg ht
  have h2 : t.tmod Dec.P = t % Dec.P := Int.tmod_eq_emod_of_nonneg ht
  have h3 := Int.emod_add_mul_ediv t Dec.P
  have h4 := Int.emod_nonneg t (Int.ne_of_gt P_pos)
  have h5 := Int.emod_lt_of_pos t P_pos
  unfold Dec.chopRound Dec.chopRoundNonneg
  rw [if_neg (by omega)]
  simp only [h1, h2]
  generalize t / Dec.P = q at *
  generalize t % Dec.P = r at *
  simp only [P_val, Dec.half] at *
  split_ifs <;> omega

theorem chopRound_le_of_le_mul {t k : Int} (ht : 0 ≤ t) (h : t ≤ k * Dec.P) : Dec.chopRound t ≤ k := by
  have h1 : t.tdiv Dec.P = t / Dec.P := Int.tdiv_eq_ediv_of_nonneg ht
  have h2 : t.tmod Dec.P = t % Dec.P := Int.tmod_eq_emod_of_nonneg ht
  have h3 := Int.emod_add_mul_ediv t Dec.P
  have h4 := Int.emod_nonneg t (Int.ne_of_gt P_pos)
  have h5 := Int.emod_lt_of_pos t P_pos
  unfold Dec.chopRound Dec.chopRoundNonneg
  rw [if_neg (by omega)]
  simp only [h1, h2]
  generalize t / Dec.P = q at *
  generalize t % Dec.P = r at *
  simp only [P_val, Dec.half] at *
  split_ifs <;> omega

theorem chopRound_mul_P {n : Int} (hn : 0 ≤ n) : Dec.chopRound (n * Dec.P) = n := by
  have ht : 0 ≤ n * Dec.P := Int.mul_nonneg hn (Int.le_of_lt P_pos)
  have h1 : (n * Dec.P).tdiv Dec.P = n := by
    rw [Int.tdiv_eq_ediv_of_nonneg ht]; exact Int.mul_ediv_cancel _ (Int.ne_of_gt P_pos)
  have h2 : (n * Dec.P).tmod Dec.P = 0 := by
    rw [Int.tmod_eq_emod_of_nonneg ht]; exact Int.mul_emod_left _ _
  unfold Dec.chopRound Dec.chopRoundNonneg
  rw [if_neg (by omega)]
  simp only [h1, h2, if_true]

/-- `Ceil().TruncateInt()` of a non-negative Dec is the integer ceiling -/
theorem ceilInt_nn {a : Int} (ha : 0 ≤ a) :
    0 ≤ Dec.truncateInt (Dec.ceil a) ∧ a ≤ Dec.truncateInt (Dec.ceil a) * Dec.P ∧
      ∀ k : Int, a ≤ k * Dec.P → Dec.truncateInt (Dec.ceil a) ≤ k := by
  have h1 : a.tdiv Dec.P = a / Dec.P := Int.tdiv_eq_ediv_of_nonneg ha
  have h2 : a.tmod Dec.P = a % Dec.P := Int.tmod_eq_emod_of_nonneg ha
  have h3 := Int.emod_add_mul_ediv a Dec.P
  have h4 := Int.emod_nonneg a (Int.ne_of_gt P_pos)
  have h5 := Int.emod_lt_of_pos a P_pos
  have hq : 0 ≤ a / Dec.P := Int.ediv_nonneg ha (Int.le_of_lt P_pos)
  have key : ∀ m : Int, Dec.truncateInt (m * Dec.P) = m := by
    intro m; unfold Dec.truncateInt; exact Int.mul_tdiv_cancel _ (Int.ne_of_gt P_pos)
  unfold Dec.ceil
  simp only [h1, h2]
  generalize a / Dec.P = q at *
  generalize a % Dec.P = r at *
  split
  · rw [key]; simp only [P_val] at *; refine ⟨hq, by omega, fun k hk => by omega⟩
  · rw [if_neg (by omega), key]; simp only [P_val] at *; refine ⟨by omega, by omega, fun k hk => by omega⟩
/-! ## Peeling the `Except` monad -/

theorem bind_ok {α β : Type} {x : M α} {f : α → M β} {r : β} (h : (x >>= f) = .ok r) :
    ∃ a, x = .ok a ∧ f a = .ok r := by
  cases x with
  | error e => exact absurd h (by simp [bind, Except.bind])
  | ok a => exact ⟨a, rfl, h⟩

theorem chk_ok {v w : Dec} (h : chk v = .ok w) : w = v := by
  unfold chk at h; split at h
  · exact (Except.ok.inj h).symm
  · exact absurd h (by simp)

theorem chkInt_ok {v w : Int} (h : chkInt v = .ok w) : w = v := by
  unfold chkInt at h; split at h
  · exact (Except.ok.inj h).symm
  · exact absurd h (by simp)

theorem quoTruncate_ok {a b w : Dec} (h : quoTruncate a b = .ok w) : b ≠ 0 ∧ w = Dec.quoTruncate a b := by
  unfold quoTruncate at h; split at h
  · exact absurd h (by simp)
  · exact ⟨by assumption, chk_ok h⟩

theorem quo_ok {a b w : Dec} (h : quo a b = .ok w) : b ≠ 0 ∧ w = Dec.quo a b := by
  unfold quo at h; split at h
  · exact absurd h (by simp)
  · exact ⟨by assumption, chk_ok h⟩

theorem mul_ok {a b w : Dec} (h : mul a b = .ok w) : w = Dec.mul a b := chk_ok h
theorem mulTruncate_ok {a b w : Dec} (h : mulTruncate a b = .ok w) : w = Dec.mulTruncate a b := chk_ok h
theorem sub_ok {a b w : Dec} (h : sub a b = .ok w) : w = Dec.sub a b := chk_ok h
theorem truncateInt_ok {a : Dec} {w : Int} (h : truncateInt a = .ok w) : w = Dec.truncateInt a := chkInt_ok h

/-! ## The values computed by `amm.Deposit` / `amm.Withdraw` when nothing overflows -/

def ratioVal (rx ry x y : Int) : Dec :=
  if toDec rx = 0 then Dec.quoTruncate (toDec y) (toDec ry)
  else if toDec ry = 0 then Dec.quoTruncate (toDec x) (toDec rx)
  else minDec (Dec.quoTruncate (toDec x) (toDec rx)) (Dec.quoTruncate (toDec y) (toDec ry))

def pcVal (rx ry ps x y : Int) : Int := Dec.truncateInt (Dec.mulTruncate (toDec ps) (ratioVal rx ry x y))
def mpVal (rx ry ps x y : Int) : Dec := Dec.quo (toDec (pcVal rx ry ps x y)) (toDec ps)
def accVal (r : Int) (mp : Dec) : Int := Dec.truncateInt (Dec.ceil (Dec.mul (toDec r) mp))

def depositVals (rx ry ps x y : Int) : Int × Int × Int :=
  (accVal rx (mpVal rx ry ps x y), accVal ry (mpVal rx ry ps x y), pcVal rx ry ps x y)

theorem depositCore_ok {rx ry ps x y : Int} {r : Int × Int × Int}
    (h : depositCore rx ry ps x y = .ok r) : r = depositVals rx ry ps x y := by
  simp only [depositCore] at h
  obtain ⟨ratio, h1, h⟩ := bind_ok h
  obtain ⟨pcD, h2, h⟩ := bind_ok h
  obtain ⟨pc, h3, h⟩ := bind_ok h
  obtain ⟨mp, h4, h⟩ := bind_ok h
  obtain ⟨axD, h5, h⟩ := bind_ok h
  obtain ⟨ax, h6, h⟩ := bind_ok h
  obtain ⟨ayD, h7, h⟩ := bind_ok h
  obtain ⟨ay, h8, h⟩ := bind_ok h
  have hr : ratio = ratioVal rx ry x y := by
    unfold ratioVal
    unfold depositRatio at h1
    split at h1
    · rw [if_pos (by assumption)]; exact (quoTruncate_ok h1).2
    · rw [if_neg (by assumption)]
      split at h1
      · rw [if_pos (by assumption)]; exact (quoTruncate_ok h1).2
      · rw [if_neg (by assumption)]
        obtain ⟨a, ha, h1⟩ := bind_ok h1
        obtain ⟨b, hb, h1⟩ := bind_ok h1
        rw [(quoTruncate_ok ha).2, (quoTruncate_ok hb).2] at h1
        exact (Except.ok.inj h1).symm
  have e2 := mulTruncate_ok h2
  have e3 := truncateInt_ok h3
  have e4 := (quo_ok h4).2
  have e5 := mul_ok h5
  have e6 := truncateInt_ok h6
  have e7 := mul_ok h7
  have e8 := truncateInt_ok h8
  have hpc : pc = pcVal rx ry ps x y := by rw [e3, e2, hr]; rfl
  have hmp : mp = mpVal rx ry ps x y := by rw [e4, hpc]; rfl
  have := Except.ok.inj h
  rw [← this, e6, e5, e8, e7, hmp, hpc]; rfl

/-! ## Arithmetic content of `Deposit` -/

theorem toDec_eq_zero {n : Int} : toDec n = 0 ↔ n = 0 := by
  unfold toDec Dec.ofInt
  constructor
  · intro h; rcases Int.mul_eq_zero.mp h with h | h
    · exact h
    · exact absurd h (by decide)
  · intro h; rw [h]; simp

theorem toDec_nonneg {n : Int} (h : 0 ≤ n) : 0 ≤ toDec n := Int.mul_nonneg h (Int.le_of_lt P_pos)
theorem toDec_pos {n : Int} (h : 0 < n) : 0 < toDec n := Int.mul_pos h P_pos

/-- `quoTruncate (a·10^18) (b·10^18) · b ≤ a · 10^18` : the truncated ratio of two integers -/
theorem ratio_int {a b : Int} (ha : 0 ≤ a) (hb : 0 < b) :
    0 ≤ Dec.quoTruncate (toDec a) (toDec b) ∧ Dec.quoTruncate (toDec a) (toDec b) * b ≤ a * Dec.P := by
  have h := quoTruncate_mul_le (toDec_nonneg ha) (toDec_pos hb)
  refine ⟨quoTruncate_nonneg (toDec_nonneg ha) (toDec_pos hb), ?_⟩
  unfold toDec Dec.ofInt at h ⊢
  have : (Dec.quoTruncate (a * Dec.P) (b * Dec.P) * b) * Dec.P ≤ (a * Dec.P) * Dec.P := by
    calc (Dec.quoTruncate (a * Dec.P) (b * Dec.P) * b) * Dec.P
        = Dec.quoTruncate (a * Dec.P) (b * Dec.P) * (b * Dec.P) := by ring
      _ ≤ a * Dec.P * Dec.P := h
  exact Int.le_of_mul_le_mul_right this P_pos

theorem minDec_le_left (a b : Int) : minDec a b ≤ a := by
  unfold minDec; split
  · exact Int.le_refl a
  · exact Int.not_lt.mp (by assumption)
theorem minDec_le_right (a b : Int) : minDec a b ≤ b := by
  unfold minDec; split
  · exact Int.le_of_lt (by assumption)
  · exact Int.le_refl b
theorem minDec_nonneg {a b : Int} (ha : 0 ≤ a) (hb : 0 ≤ b) : 0 ≤ minDec a b := by
  unfold minDec; split
  · exact ha
  · exact hb

/-- the ratio never exceeds either offer/reserve quotient -/
theorem ratioVal_facts {rx ry x y : Int} (hrx : 0 ≤ rx) (hry : 0 ≤ ry) (hr : 0 < rx ∨ 0 < ry) (hx : 0 ≤ x) (hy : 0 ≤ y) :
    0 ≤ ratioVal rx ry x y ∧ rx * ratioVal rx ry x y ≤ x * Dec.P ∧ ry * ratioVal rx ry x y ≤ y * Dec.P := by
  have hP := P_pos
  unfold ratioVal
  by_cases h0 : rx = 0
  · have hry' : 0 < ry := by omega
    rw [if_pos (toDec_eq_zero.mpr h0)]
    obtain ⟨a, b⟩ := ratio_int hy hry'
    refine ⟨a, ?_, by rw [Int.mul_comm]; exact b⟩
    rw [h0, Int.zero_mul]; exact Int.mul_nonneg hx (Int.le_of_lt hP)
  · have hrx' : 0 < rx := by omega
    rw [if_neg (fun h => h0 (toDec_eq_zero.mp h))]
    by_cases h1 : ry = 0
    · rw [if_pos (toDec_eq_zero.mpr h1)]
      obtain ⟨a, b⟩ := ratio_int hx hrx'
      refine ⟨a, by rw [Int.mul_comm]; exact b, ?_⟩
      rw [h1, Int.zero_mul]; exact Int.mul_nonneg hy (Int.le_of_lt hP)
    · have hry' : 0 < ry := by omega
      rw [if_neg (fun h => h1 (toDec_eq_zero.mp h))]
      obtain ⟨a1, b1⟩ := ratio_int hx hrx'
      obtain ⟨a2, b2⟩ := ratio_int hy hry'
      refine ⟨minDec_nonneg a1 a2, ?_, ?_⟩
      · calc rx * minDec _ _ ≤ rx * Dec.quoTruncate (toDec x) (toDec rx) :=
              Int.mul_le_mul_of_nonneg_left (minDec_le_left _ _) hrx
          _ = Dec.quoTruncate (toDec x) (toDec rx) * rx := Int.mul_comm _ _
          _ ≤ x * Dec.P := b1
      · calc ry * minDec _ _ ≤ ry * Dec.quoTruncate (toDec y) (toDec ry) :=
              Int.mul_le_mul_of_nonneg_left (minDec_le_right _ _) hry
          _ = Dec.quoTruncate (toDec y) (toDec ry) * ry := Int.mul_comm _ _
          _ ≤ y * Dec.P := b2

/-- minted shares: `pc = ⌊ps·ratio / 10^18⌋` -/
theorem pc_facts {ps ratio : Int} (hps : 0 ≤ ps) (hr : 0 ≤ ratio) :
    0 ≤ Dec.truncateInt (Dec.mulTruncate (toDec ps) ratio) ∧
    Dec.truncateInt (Dec.mulTruncate (toDec ps) ratio) * Dec.P ≤ ps * ratio := by
  rw [mulTruncate_toDec hps hr, truncateInt_nn (Int.mul_nonneg hps hr)]
  exact ⟨Int.ediv_nonneg (Int.mul_nonneg hps hr) (Int.le_of_lt P_pos), Int.ediv_mul_le _ (Int.ne_of_gt P_pos)⟩

/-- `mintProportion = Quo(pc, ps)`: non-negative, at most any integer bound of `pc·10^18/ps`, and at most half an
ulp (plus the inner truncation) below `pc·10^18/ps` -/
theorem mp_facts {pc ps : Int} (hpc : 0 ≤ pc) (hps : 0 < ps) :
    0 ≤ Dec.quo (toDec pc) (toDec ps) ∧
    (∀ k : Int, pc * Dec.P ≤ ps * k → Dec.quo (toDec pc) (toDec ps) ≤ k) ∧
    2 * Dec.PP * pc ≤ (2 * Dec.quo (toDec pc) (toDec ps) * Dec.P + Dec.P + 2) * ps := by
  have hP := P_pos
  have hPP := PP_pos
  have hn : 0 ≤ toDec pc * Dec.PP := Int.mul_nonneg (toDec_nonneg hpc) (Int.le_of_lt hPP)
  have hd : 0 < toDec ps := toDec_pos hps
  have ht : 0 ≤ toDec pc * Dec.PP / toDec ps := Int.ediv_nonneg hn (Int.le_of_lt hd)
  have e : Dec.quo (toDec pc) (toDec ps) = Dec.chopRound (toDec pc * Dec.PP / toDec ps) := by
    unfold Dec.quo; rw [Int.tdiv_eq_ediv_of_nonneg hn]
  rw [e]
  obtain ⟨b0, b1, _⟩ := chopRound_nn_bounds ht
  refine ⟨b0, ?_, ?_⟩
  · intro k hk
    apply chopRound_le_of_le_mul ht
    apply Int.ediv_le_of_le_mul hd
    unfold toDec Dec.ofInt
    calc pc * Dec.P * Dec.PP = (pc * Dec.P) * (Dec.P * Dec.PP) / Dec.P := by
            rw [show pc * Dec.P * (Dec.P * Dec.PP) = (pc * Dec.P * Dec.PP) * Dec.P by ring]
            exact (Int.mul_ediv_cancel _ (Int.ne_of_gt hP)).symm
      _ ≤ (ps * k) * (Dec.P * Dec.PP) / Dec.P := by
            apply Int.ediv_le_ediv hP
            exact Int.mul_le_mul_of_nonneg_right hk (Int.mul_nonneg (Int.le_of_lt hP) (Int.le_of_lt hPP))
      _ = k * Dec.P * (ps * Dec.P) := by
            rw [show ps * k * (Dec.P * Dec.PP) = (k * Dec.P * (ps * Dec.P)) * Dec.P by rw [PP_eq]; ring]
            exact Int.mul_ediv_cancel _ (Int.ne_of_gt hP)
  · -- pc·P·PP < (t+1)·(ps·P)
    have hlt := Int.lt_ediv_add_one_mul_self (toDec pc * Dec.PP) hd
    generalize toDec pc * Dec.PP / toDec ps = t at *
    generalize Dec.chopRound t = m at *
    unfold toDec Dec.ofInt at hlt
    -- hlt : pc * P * PP < (t + 1) * (ps * P);  b1 : 2 t ≤ 2 m P + P
    have h1 : pc * Dec.PP < (t + 1) * ps := by
      have : (pc * Dec.PP) * Dec.P < ((t + 1) * ps) * Dec.P := by
        calc (pc * Dec.PP) * Dec.P = pc * Dec.P * Dec.PP := by ring
          _ < (t + 1) * (ps * Dec.P) := hlt
          _ = ((t + 1) * ps) * Dec.P := by ring
      exact Int.lt_of_mul_lt_mul_right this (Int.le_of_lt hP)
    have h2 : 2 * (t + 1) * ps ≤ (2 * m * Dec.P + Dec.P + 2) * ps :=
      Int.mul_le_mul_of_nonneg_right (by omega) (Int.le_of_lt hps)
    nlinarith

/-- accepted coins `⌈r·mp / 10^18⌉` (the `Mul` is exact because `r` is an integer) -/
theorem acc_facts {r mp : Int} (hr : 0 ≤ r) (hmp : 0 ≤ mp) :
    0 ≤ accVal r mp ∧ r * mp ≤ accVal r mp * Dec.P ∧ ∀ k : Int, r * mp ≤ k * Dec.P → accVal r mp ≤ k := by
  have e : Dec.mul (toDec r) mp = r * mp := by
    unfold Dec.mul toDec Dec.ofInt
    rw [show r * Dec.P * mp = (r * mp) * Dec.P by ring]
    exact chopRound_mul_P (Int.mul_nonneg hr hmp)
  unfold accVal
  rw [e]
  exact ceilInt_nn (Int.mul_nonneg hr hmp)

/-- all the laws of C06 about the values `Deposit` computes when nothing overflows -/
theorem depositVals_laws {rx ry ps x y : Int} (h : DepositDom rx ry ps x y) :
    TakesAtMostOffered x (depositVals rx ry ps x y).1 ∧
    TakesAtMostOffered y (depositVals rx ry ps x y).2.1 ∧
    0 ≤ (depositVals rx ry ps x y).2.2 ∧
    RateNotBetter rx ps (depositVals rx ry ps x y).1 (depositVals rx ry ps x y).2.2 ∧
    RateNotBetter ry ps (depositVals rx ry ps x y).2.1 (depositVals rx ry ps x y).2.2 := by
  obtain ⟨hrx, hry, hr, hps, hx, hy⟩ := h
  have hP := P_pos
  obtain ⟨r0, r1, r2⟩ := ratioVal_facts hrx hry hr hx hy
  obtain ⟨p0, p1⟩ := pc_facts (Int.le_of_lt hps) r0
  have hpc : Dec.truncateInt (Dec.mulTruncate (toDec ps) (ratioVal rx ry x y)) = pcVal rx ry ps x y := rfl
  rw [hpc] at p0 p1
  obtain ⟨m0, m1, m2⟩ := mp_facts p0 hps
  have hmp : Dec.quo (toDec (pcVal rx ry ps x y)) (toDec ps) = mpVal rx ry ps x y := rfl
  rw [hmp] at m0 m1 m2
  have mle : mpVal rx ry ps x y ≤ ratioVal rx ry x y := m1 _ p1
  obtain ⟨a0, a1, a2⟩ := acc_facts hrx m0
  obtain ⟨b0, b1, b2⟩ := acc_facts hry m0
  have ax_le : accVal rx (mpVal rx ry ps x y) ≤ x :=
    a2 x (Int.le_trans (Int.mul_le_mul_of_nonneg_left mle hrx) r1)
  have ay_le : accVal ry (mpVal rx ry ps x y) ≤ y :=
    b2 y (Int.le_trans (Int.mul_le_mul_of_nonneg_left mle hry) r2)
  show TakesAtMostOffered x (accVal rx (mpVal rx ry ps x y)) ∧ TakesAtMostOffered y (accVal ry (mpVal rx ry ps x y)) ∧
    0 ≤ pcVal rx ry ps x y ∧ RateNotBetter rx ps (accVal rx (mpVal rx ry ps x y)) (pcVal rx ry ps x y) ∧
    RateNotBetter ry ps (accVal ry (mpVal rx ry ps x y)) (pcVal rx ry ps x y)
  refine ⟨⟨a0, ax_le⟩, ⟨b0, ay_le⟩, p0, ?_, ?_⟩
  · generalize accVal rx (mpVal rx ry ps x y) = a at *
    generalize mpVal rx ry ps x y = mp at *
    generalize pcVal rx ry ps x y = pc at *
    show 2 * Dec.PP * (pc * rx) ≤ 2 * Dec.PP * (a * ps) + rx * ps * (Dec.P + 2)
    have h1 := Int.mul_le_mul_of_nonneg_right m2 hrx
    have h2 := Int.mul_le_mul_of_nonneg_left a1 (show 0 ≤ 2 * Dec.P * ps by positivity)
    rw [PP_eq] at h1 ⊢
    nlinarith
  · generalize accVal ry (mpVal rx ry ps x y) = a at *
    generalize mpVal rx ry ps x y = mp at *
    generalize pcVal rx ry ps x y = pc at *
    show 2 * Dec.PP * (pc * ry) ≤ 2 * Dec.PP * (a * ps) + ry * ps * (Dec.P + 2)
    have h1 := Int.mul_le_mul_of_nonneg_right m2 hry
    have h2 := Int.mul_le_mul_of_nonneg_left b1 (show 0 ≤ 2 * Dec.P * ps by positivity)
    rw [PP_eq] at h1 ⊢
    nlinarith

/-- the per-share corollary: `RateNotBetter` implies reserve per share falls by less than 10^-17 relative -/
theorem perShare_of_rate {r ps a pc : Int} (hr : 0 ≤ r) (hps : 0 ≤ ps) (hpc : 0 ≤ pc)
    (h : RateNotBetter r ps a pc) : PerShareAfterDeposit r ps a pc := by
  unfold PerShareAfterDeposit
  unfold RateNotBetter at h
  have hC : 0 ≤ r * ps := Int.mul_nonneg hr hps
  have hB : 0 ≤ pc * r := Int.mul_nonneg hpc hr
  simp only [Dec.PP, P_val] at h
  generalize hA : a * ps = A at *
  have e1 : r * (ps + pc) = r * ps + pc * r := by ring
  have e2 : (r + a) * ps = r * ps + A := by rw [← hA]; ring
  rw [e1, e2]
  generalize r * ps = C at *
  generalize pc * r = B at *
  omega

/-! ## Results of `deposit` -/

theorem deposit_cases {rx ry ps x y : Int} {r : Int × Int × Int} (h : deposit rx ry ps x y = some r) :
    (depositCore rx ry ps x y = .error .overflow ∧ r = (0, 0, 0)) ∨
    (depositCore rx ry ps x y = .ok r ∧ r = depositVals rx ry ps x y) := by
  unfold deposit at h
  split at h
  · rename_i r' hc
    have := Option.some.inj h
    subst this
    exact Or.inr ⟨hc, depositCore_ok hc⟩
  · rename_i hc
    exact Or.inl ⟨hc, (Option.some.inj h).symm⟩
  · exact absurd h (by simp)

/-! ## Panic freedom (a non-overflow panic would be re-thrown by `SafeMath`) -/

theorem bind_panic {α β : Type} {x : M α} {f : α → M β} (h : (x >>= f) = .error .panic) :
    x = .error .panic ∨ ∃ a, x = .ok a ∧ f a = .error .panic := by
  cases x with
  | error e => left; simpa [bind, Except.bind] using h
  | ok a => right; exact ⟨a, rfl, h⟩

theorem chk_no_panic (v : Dec) : chk v ≠ .error .panic := by
  unfold chk; split <;> simp
theorem chkInt_no_panic (v : Int) : chkInt v ≠ .error .panic := by
  unfold chkInt; split <;> simp
theorem quoTruncate_no_panic {a b : Dec} (hb : b ≠ 0) : quoTruncate a b ≠ .error .panic := by
  unfold quoTruncate; rw [if_neg hb]; exact chk_no_panic _
theorem quo_no_panic {a b : Dec} (hb : b ≠ 0) : quo a b ≠ .error .panic := by
  unfold quo; rw [if_neg hb]; exact chk_no_panic _

theorem depositRatio_no_panic {rx ry x y : Int} (h : rx ≠ 0 ∨ ry ≠ 0) : depositRatio rx ry x y ≠ .error .panic := by
  unfold depositRatio
  by_cases h0 : toDec rx = 0
  · rw [if_pos h0]
    have : ry ≠ 0 := by
      rcases h with h | h
      · exact absurd (toDec_eq_zero.mp h0) h
      · exact h
    exact quoTruncate_no_panic (fun e => this (toDec_eq_zero.mp e))
  · rw [if_neg h0]
    by_cases h1 : toDec ry = 0
    · rw [if_pos h1]; exact quoTruncate_no_panic h0
    · rw [if_neg h1]
      intro hp
      rcases bind_panic hp with hp | ⟨a, _, hp⟩
      · exact quoTruncate_no_panic h0 hp
      · rcases bind_panic hp with hp | ⟨b, _, hp⟩
        · exact quoTruncate_no_panic h1 hp
        · exact absurd hp (by simp [pure, Except.pure])

theorem depositCore_no_panic {rx ry ps x y : Int} (h : rx ≠ 0 ∨ ry ≠ 0) (hps : ps ≠ 0) :
    depositCore rx ry ps x y ≠ .error .panic := by
  intro hp
  simp only [depositCore] at hp
  rcases bind_panic hp with hp | ⟨_, _, hp⟩
  · exact depositRatio_no_panic h hp
  rcases bind_panic hp with hp | ⟨_, _, hp⟩
  · exact chk_no_panic _ hp
  rcases bind_panic hp with hp | ⟨_, _, hp⟩
  · exact chkInt_no_panic _ hp
  rcases bind_panic hp with hp | ⟨_, _, hp⟩
  · exact quo_no_panic (fun e => hps (toDec_eq_zero.mp e)) hp
  rcases bind_panic hp with hp | ⟨_, _, hp⟩
  · exact chk_no_panic _ hp
  rcases bind_panic hp with hp | ⟨_, _, hp⟩
  · exact chkInt_no_panic _ hp
  rcases bind_panic hp with hp | ⟨_, _, hp⟩
  · exact chk_no_panic _ hp
  rcases bind_panic hp with hp | ⟨_, _, hp⟩
  · exact chkInt_no_panic _ hp
  exact absurd hp (by simp [pure, Except.pure])

/-! ## Withdraw -/

def propVal (ps pc : Int) : Dec := Dec.quoTruncate (toDec pc) (toDec ps)
def outVal (r ps pc : Int) (fee : Dec) : Int :=
  Dec.truncateInt (Dec.mulTruncate (Dec.mulTruncate (toDec r) (propVal ps pc)) (Dec.sub Dec.one fee))
def withdrawVals (rx ry ps pc : Int) (fee : Dec) : Int × Int := (outVal rx ps pc fee, outVal ry ps pc fee)

theorem withdrawCore_ok {rx ry ps pc : Int} {fee : Dec} {r : Int × Int}
    (h : withdrawCore rx ry ps pc fee = .ok r) : r = withdrawVals rx ry ps pc fee := by
  simp only [withdrawCore] at h
  obtain ⟨prop, h1, h⟩ := bind_ok h
  obtain ⟨mult, h2, h⟩ := bind_ok h
  obtain ⟨x1, h3, h⟩ := bind_ok h
  obtain ⟨x2, h4, h⟩ := bind_ok h
  obtain ⟨x, h5, h⟩ := bind_ok h
  obtain ⟨y1, h6, h⟩ := bind_ok h
  obtain ⟨y2, h7, h⟩ := bind_ok h
  obtain ⟨y, h8, h⟩ := bind_ok h
  have e1 := (quoTruncate_ok h1).2
  have e2 := sub_ok h2
  have e3 := mulTruncate_ok h3
  have e4 := mulTruncate_ok h4
  have e5 := truncateInt_ok h5
  have e6 := mulTruncate_ok h6
  have e7 := mulTruncate_ok h7
  have e8 := truncateInt_ok h8
  have := Except.ok.inj h
  rw [← this, e5, e4, e3, e8, e7, e6, e2, e1]; rfl

theorem withdrawCore_no_panic {rx ry ps pc : Int} {fee : Dec} (hps : ps ≠ 0) :
    withdrawCore rx ry ps pc fee ≠ .error .panic := by
  intro hp
  simp only [withdrawCore] at hp
  rcases bind_panic hp with hp | ⟨_, _, hp⟩
  · exact quoTruncate_no_panic (fun e => hps (toDec_eq_zero.mp e)) hp
  rcases bind_panic hp with hp | ⟨_, _, hp⟩
  · exact chk_no_panic _ hp
  rcases bind_panic hp with hp | ⟨_, _, hp⟩
  · exact chk_no_panic _ hp
  rcases bind_panic hp with hp | ⟨_, _, hp⟩
  · exact chk_no_panic _ hp
  rcases bind_panic hp with hp | ⟨_, _, hp⟩
  · exact chkInt_no_panic _ hp
  rcases bind_panic hp with hp | ⟨_, _, hp⟩
  · exact chk_no_panic _ hp
  rcases bind_panic hp with hp | ⟨_, _, hp⟩
  · exact chk_no_panic _ hp
  rcases bind_panic hp with hp | ⟨_, _, hp⟩
  · exact chkInt_no_panic _ hp
  exact absurd hp (by simp [pure, Except.pure])

theorem withdraw_cases {rx ry ps pc : Int} {fee : Dec} {r : Int × Int} (h : withdraw rx ry ps pc fee = some r) :
    (pc = ps ∧ r = (rx, ry)) ∨
    (pc ≠ ps ∧ withdrawCore rx ry ps pc fee = .error .overflow ∧ r = (0, 0)) ∨
    (pc ≠ ps ∧ withdrawCore rx ry ps pc fee = .ok r ∧ r = withdrawVals rx ry ps pc fee) := by
  unfold withdraw at h
  split at h
  · rename_i he; exact Or.inl ⟨he, (Option.some.inj h).symm⟩
  · rename_i hne
    split at h
    · rename_i r' hc
      have := Option.some.inj h
      subst this
      exact Or.inr (Or.inr ⟨hne, hc, withdrawCore_ok hc⟩)
    · rename_i hc
      exact Or.inr (Or.inl ⟨hne, hc, (Option.some.inj h).symm⟩)
    · exact absurd h (by simp)

/-- the truncation chain of `Withdraw`: `out = ⌊⌊r·prop·(1-fee)/10^18⌋/10^18⌋`, `prop = ⌊pc·10^18/ps⌋` -/
theorem outVal_facts {r ps pc : Int} {fee : Dec} (hr : 0 ≤ r) (hps : 0 < ps) (hpc : 0 ≤ pc) (hfee : fee ≤ Dec.one) :
    0 ≤ outVal r ps pc fee ∧ outVal r ps pc fee * ps * Dec.P ≤ r * pc * (Dec.P - fee) := by
  have hP := P_pos
  obtain ⟨q0, q1⟩ := ratio_int hpc hps
  have hq : Dec.quoTruncate (toDec pc) (toDec ps) = propVal ps pc := rfl
  rw [hq] at q0 q1
  have hm : 0 ≤ Dec.sub Dec.one fee := by
    show (0:Int) ≤ Dec.one - fee
    exact Int.sub_nonneg_of_le hfee
  have em : Dec.sub Dec.one fee = Dec.P - fee := rfl
  unfold outVal
  rw [mulTruncate_toDec hr q0, mulTruncate_nn (Int.mul_nonneg hr q0) hm,
    truncateInt_nn (Int.ediv_nonneg (Int.mul_nonneg (Int.mul_nonneg hr q0) hm) (Int.le_of_lt hP)), em] at *
  have hm' : 0 ≤ Dec.P - fee := hm
  generalize Dec.P - fee = mult at *
  generalize propVal ps pc = prop at *
  have hn : 0 ≤ r * prop * mult := Int.mul_nonneg (Int.mul_nonneg hr q0) hm'
  have t1 := Int.ediv_mul_le (r * prop * mult) (Int.ne_of_gt hP)
  have t2 := Int.ediv_mul_le (r * prop * mult / Dec.P) (Int.ne_of_gt hP)
  refine ⟨Int.ediv_nonneg (Int.ediv_nonneg hn (Int.le_of_lt hP)) (Int.le_of_lt hP), ?_⟩
  generalize r * prop * mult / Dec.P / Dec.P = out at *
  generalize r * prop * mult / Dec.P = mid at *
  -- out·P ≤ mid, mid·P ≤ r·prop·mult, prop·ps ≤ pc·P
  have hrm : 0 ≤ r * mult := Int.mul_nonneg hr hm'
  have s1 : out * Dec.P * Dec.P ≤ r * prop * mult :=
    Int.le_trans (Int.mul_le_mul_of_nonneg_right t2 (Int.le_of_lt hP)) t1
  have s2 : (r * mult) * (prop * ps) ≤ (r * mult) * (pc * Dec.P) := Int.mul_le_mul_of_nonneg_left q1 hrm
  have s3 : (out * Dec.P * Dec.P) * ps ≤ (r * prop * mult) * ps :=
    Int.mul_le_mul_of_nonneg_right s1 (Int.le_of_lt hps)
  have : (out * ps * Dec.P) * Dec.P ≤ (r * pc * mult) * Dec.P := by
    calc (out * ps * Dec.P) * Dec.P = (out * Dec.P * Dec.P) * ps := by ring
      _ ≤ (r * prop * mult) * ps := s3
      _ = (r * mult) * (prop * ps) := by ring
      _ ≤ (r * mult) * (pc * Dec.P) := s2
      _ = (r * pc * mult) * Dec.P := by ring
  exact Int.le_of_mul_le_mul_right this hP

/-! ## When nothing overflows -/

def B315 : Int := 66749594872528440074844428317798503581334516323645399060845050244444366430645017188217565216768
def B256 : Int := 115792089237316195423570985008687907853269984665640564039457584007913129639936
def E40 : Int := 10000000000000000000000000000000000000000
def E58 : Int := 10000000000000000000000000000000000000000 * 1000000000000000000

set_option exponentiation.threshold 512 in
theorem B315_eq : ((2:Nat) ^ 315 : Nat) = B315.toNat := by decide
set_option exponentiation.threshold 512 in
theorem B256_eq : ((2:Nat) ^ 256 : Nat) = B256.toNat := by decide

set_option exponentiation.threshold 512 in
theorem chk_eq {v : Int} (h0 : 0 ≤ v) (h1 : v < B315) : chk v = .ok v := by
  unfold chk Dec.fits
  rw [if_pos]
  rw [decide_eq_true_eq, B315_eq]
  unfold B315 at *
  omega

set_option exponentiation.threshold 512 in
theorem chkInt_eq {v : Int} (h0 : 0 ≤ v) (h1 : v < B256) : chkInt v = .ok v := by
  unfold chkInt Dec.fitsInt
  rw [if_pos]
  rw [decide_eq_true_eq, B256_eq]
  unfold B256 at *
  omega
theorem lt315_of_le_E58 {v : Int} (h : v ≤ E58) : v < B315 := Int.lt_of_le_of_lt h (by decide)
theorem lt256_of_le_E40 {v : Int} (h : v ≤ E40) : v < B256 := Int.lt_of_le_of_lt h (by decide)
theorem P_le_E58 : Dec.P ≤ E58 := by decide
theorem E40_nonneg : (0:Int) ≤ E40 := by decide

theorem ok_bind {α β : Type} (a : α) (f : α → M β) : ((Except.ok a : M α) >>= f) = f a := rfl

/-- `Withdraw` cannot overflow inside the module bounds: reserves ≤ 10^40 (any supply, any fee in [0,1]) -/
theorem withdrawCore_eq_ok {rx ry ps pc : Int} {fee : Dec} (h : WithdrawDom rx ry ps pc fee)
    (bx : rx ≤ E40) (bY : ry ≤ E40) :
    withdrawCore rx ry ps pc fee = .ok (withdrawVals rx ry ps pc fee) := by
  obtain ⟨hrx, hry, hps, hpc, hle, hf0, hf1⟩ := h
  have hP := P_pos
  obtain ⟨q0, q1⟩ := ratio_int hpc hps
  have hq : Dec.quoTruncate (toDec pc) (toDec ps) = propVal ps pc := rfl
  rw [hq] at q0 q1
  -- prop ≤ 10^18
  have qP : propVal ps pc ≤ Dec.P := by
    have : propVal ps pc * ps ≤ Dec.P * ps :=
      Int.le_trans q1 (by rw [Int.mul_comm]; exact Int.mul_le_mul_of_nonneg_left hle (Int.le_of_lt hP))
    exact Int.le_of_mul_le_mul_right this hps
  have hm0 : (0:Int) ≤ Dec.one - fee := Int.sub_nonneg_of_le hf1
  have hm1 : Dec.one - fee ≤ Dec.P := Int.sub_le_self _ hf0
  have e1 : quoTruncate (toDec pc) (toDec ps) = .ok (propVal ps pc) := by
    unfold quoTruncate
    rw [if_neg (fun e => (Int.ne_of_gt hps) (toDec_eq_zero.mp e)), hq]
    exact chk_eq q0 (lt315_of_le_E58 (Int.le_trans qP P_le_E58))
  have e2 : sub Dec.one fee = .ok (Dec.one - fee) := by
    unfold sub Dec.sub
    exact chk_eq hm0 (lt315_of_le_E58 (Int.le_trans hm1 P_le_E58))
  -- one coin
  have coin : ∀ r : Int, 0 ≤ r → r ≤ E40 →
      mulTruncate (toDec r) (propVal ps pc) = .ok (r * propVal ps pc) ∧
      mulTruncate (r * propVal ps pc) (Dec.one - fee) = .ok (r * propVal ps pc * (Dec.one - fee) / Dec.P) ∧
      truncateInt (r * propVal ps pc * (Dec.one - fee) / Dec.P) = .ok (outVal r ps pc fee) := by
    intro r hr br
    have n1 : 0 ≤ r * propVal ps pc := Int.mul_nonneg hr q0
    have u1 : r * propVal ps pc ≤ E58 := by
      unfold E58
      exact Int.mul_le_mul br qP q0 E40_nonneg
    have n2 : 0 ≤ r * propVal ps pc * (Dec.one - fee) := Int.mul_nonneg n1 hm0
    have n3 : 0 ≤ r * propVal ps pc * (Dec.one - fee) / Dec.P := Int.ediv_nonneg n2 (Int.le_of_lt hP)
    have u2 : r * propVal ps pc * (Dec.one - fee) / Dec.P ≤ r * propVal ps pc := by
      apply Int.ediv_le_of_le_mul hP
      exact Int.mul_le_mul_of_nonneg_left hm1 n1
    have ev : outVal r ps pc fee = r * propVal ps pc * (Dec.one - fee) / Dec.P / Dec.P := by
      unfold outVal
      rw [mulTruncate_toDec hr q0, show Dec.sub Dec.one fee = Dec.one - fee from rfl, mulTruncate_nn n1 hm0, truncateInt_nn n3]
    refine ⟨?_, ?_, ?_⟩
    · unfold mulTruncate; rw [mulTruncate_toDec hr q0]
      exact chk_eq n1 (lt315_of_le_E58 u1)
    · unfold mulTruncate; rw [mulTruncate_nn n1 hm0]
      exact chk_eq n3 (lt315_of_le_E58 (Int.le_trans u2 u1))
    · unfold truncateInt; rw [truncateInt_nn n3, ev]
      have n4 := Int.ediv_nonneg n3 (Int.le_of_lt hP)
      -- out ≤ r ≤ 10^40 :  out·P ≤ mid ≤ r·prop ≤ r·P
      have u4 : r * propVal ps pc * (Dec.one - fee) / Dec.P / Dec.P ≤ r := by
        apply Int.ediv_le_of_le_mul hP
        exact Int.le_trans u2 (Int.mul_le_mul_of_nonneg_left qP hr)
      exact chkInt_eq n4 (lt256_of_le_E40 (Int.le_trans u4 br))
  obtain ⟨x3, x4, x5⟩ := coin rx hrx bx
  obtain ⟨y3, y4, y5⟩ := coin ry hry bY
  simp only [withdrawCore, e1, e2, x3, x4, x5, y3, y4, y5, ok_bind]
  rfl

/-- `Deposit` does not overflow when the offers are inside the module bounds and `ps·ratio` stays below 2^315
(the only intermediate that can exceed 315 bits) -/
theorem depositCore_eq_ok {rx ry ps x y : Int} (h : DepositDom rx ry ps x y) (bx : x ≤ E40) (bY : y ≤ E40)
    (hov : ps * ratioVal rx ry x y < B315) :
    depositCore rx ry ps x y = .ok (depositVals rx ry ps x y) := by
  have hdom := h
  obtain ⟨hrx, hry, hr, hps, hx, hy⟩ := h
  have hP := P_pos
  -- a truncated quotient of an integer offer fits
  have qfit : ∀ a b : Int, 0 ≤ a → a ≤ E40 → 0 < b →
      quoTruncate (toDec a) (toDec b) = .ok (Dec.quoTruncate (toDec a) (toDec b)) := by
    intro a b ha ba hb
    obtain ⟨q0, q1⟩ := ratio_int ha hb
    have : Dec.quoTruncate (toDec a) (toDec b) ≤ a * Dec.P := by
      have h1 : Dec.quoTruncate (toDec a) (toDec b) * 1 ≤ Dec.quoTruncate (toDec a) (toDec b) * b :=
        Int.mul_le_mul_of_nonneg_left (by omega) q0
      rw [Int.mul_one] at h1
      exact Int.le_trans h1 q1
    unfold quoTruncate
    rw [if_neg (fun e => (Int.ne_of_gt hb) (toDec_eq_zero.mp e))]
    have u : a * Dec.P ≤ E58 := by unfold E58; exact Int.mul_le_mul_of_nonneg_right ba (Int.le_of_lt hP)
    exact chk_eq q0 (lt315_of_le_E58 (Int.le_trans this u))
  have e0 : depositRatio rx ry x y = .ok (ratioVal rx ry x y) := by
    unfold depositRatio ratioVal
    by_cases h0 : rx = 0
    · rw [if_pos (toDec_eq_zero.mpr h0), if_pos (toDec_eq_zero.mpr h0)]
      exact qfit y ry hy bY (by omega)
    · rw [if_neg (fun e => h0 (toDec_eq_zero.mp e)), if_neg (fun e => h0 (toDec_eq_zero.mp e))]
      by_cases h1 : ry = 0
      · rw [if_pos (toDec_eq_zero.mpr h1), if_pos (toDec_eq_zero.mpr h1)]
        exact qfit x rx hx bx (by omega)
      · rw [if_neg (fun e => h1 (toDec_eq_zero.mp e)), if_neg (fun e => h1 (toDec_eq_zero.mp e))]
        rw [qfit x rx hx bx (by omega), qfit y ry hy bY (by omega)]
        rfl
  obtain ⟨r0, r1, r2⟩ := ratioVal_facts hrx hry hr hx hy
  obtain ⟨p0, p1⟩ := pc_facts (Int.le_of_lt hps) r0
  have hpc : Dec.truncateInt (Dec.mulTruncate (toDec ps) (ratioVal rx ry x y)) = pcVal rx ry ps x y := rfl
  have n1 : 0 ≤ ps * ratioVal rx ry x y := Int.mul_nonneg (Int.le_of_lt hps) r0
  have e1 : mulTruncate (toDec ps) (ratioVal rx ry x y) = .ok (ps * ratioVal rx ry x y) := by
    unfold mulTruncate; rw [mulTruncate_toDec (Int.le_of_lt hps) r0]
    exact chk_eq n1 hov
  have epc : pcVal rx ry ps x y = ps * ratioVal rx ry x y / Dec.P := by
    unfold pcVal; rw [mulTruncate_toDec (Int.le_of_lt hps) r0, truncateInt_nn n1]
  have e2 : truncateInt (ps * ratioVal rx ry x y) = .ok (pcVal rx ry ps x y) := by
    unfold truncateInt; rw [truncateInt_nn n1, epc]
    have : ps * ratioVal rx ry x y / Dec.P < B256 := by
      apply Int.ediv_lt_of_lt_mul hP
      exact Int.lt_trans hov (by decide)
    exact chkInt_eq (Int.ediv_nonneg n1 (Int.le_of_lt hP)) this
  rw [hpc] at p0 p1
  obtain ⟨m0, m1, _⟩ := mp_facts p0 hps
  have hmp : Dec.quo (toDec (pcVal rx ry ps x y)) (toDec ps) = mpVal rx ry ps x y := rfl
  rw [hmp] at m0 m1
  have mle : mpVal rx ry ps x y ≤ ratioVal rx ry x y := m1 _ p1
  have ux : x * Dec.P ≤ E58 := by unfold E58; exact Int.mul_le_mul_of_nonneg_right bx (Int.le_of_lt hP)
  have uy : y * Dec.P ≤ E58 := by unfold E58; exact Int.mul_le_mul_of_nonneg_right bY (Int.le_of_lt hP)
  -- the ratio itself is at most max(x,y)·10^18
  have rle : ratioVal rx ry x y ≤ E58 := by
    rcases hr with hr | hr
    · have : ratioVal rx ry x y * 1 ≤ rx * ratioVal rx ry x y := by
        rw [Int.mul_comm rx]; exact Int.mul_le_mul_of_nonneg_left (by omega) r0
      rw [Int.mul_one] at this
      exact Int.le_trans this (Int.le_trans r1 ux)
    · have : ratioVal rx ry x y * 1 ≤ ry * ratioVal rx ry x y := by
        rw [Int.mul_comm ry]; exact Int.mul_le_mul_of_nonneg_left (by omega) r0
      rw [Int.mul_one] at this
      exact Int.le_trans this (Int.le_trans r2 uy)
  have e3 : quo (toDec (pcVal rx ry ps x y)) (toDec ps) = .ok (mpVal rx ry ps x y) := by
    unfold quo
    rw [if_neg (fun e => (Int.ne_of_gt hps) (toDec_eq_zero.mp e)), hmp]
    exact chk_eq m0 (lt315_of_le_E58 (Int.le_trans mle rle))
  have coin : ∀ r off : Int, 0 ≤ r → 0 ≤ off → off ≤ E40 → r * ratioVal rx ry x y ≤ off * Dec.P →
      mul (toDec r) (mpVal rx ry ps x y) = .ok (r * mpVal rx ry ps x y) ∧
      truncateInt (Dec.ceil (r * mpVal rx ry ps x y)) = .ok (accVal r (mpVal rx ry ps x y)) := by
    intro r off hr0 ho bo hle
    have n : 0 ≤ r * mpVal rx ry ps x y := Int.mul_nonneg hr0 m0
    have e : Dec.mul (toDec r) (mpVal rx ry ps x y) = r * mpVal rx ry ps x y := by
      unfold Dec.mul toDec Dec.ofInt
      rw [show r * Dec.P * mpVal rx ry ps x y = (r * mpVal rx ry ps x y) * Dec.P by ring]
      exact chopRound_mul_P n
    have u : r * mpVal rx ry ps x y ≤ off * Dec.P :=
      Int.le_trans (Int.mul_le_mul_of_nonneg_left mle hr0) hle
    have uo : off * Dec.P ≤ E58 := by unfold E58; exact Int.mul_le_mul_of_nonneg_right bo (Int.le_of_lt hP)
    obtain ⟨a0, _, a2⟩ := acc_facts hr0 m0
    refine ⟨?_, ?_⟩
    · unfold mul; rw [e]; exact chk_eq n (lt315_of_le_E58 (Int.le_trans u uo))
    · unfold truncateInt
      have : Dec.truncateInt (Dec.ceil (r * mpVal rx ry ps x y)) = accVal r (mpVal rx ry ps x y) := by
        unfold accVal; rw [e]
      rw [this]
      exact chkInt_eq a0 (lt256_of_le_E40 (Int.le_trans (a2 off u) bo))
  obtain ⟨x1, x2⟩ := coin rx x hrx hx bx r1
  obtain ⟨y1, y2⟩ := coin ry y hry hy bY r2
  simp only [depositCore, e0, e1, e2, e3, x1, x2, y1, y2, ok_bind]
  rfl

/-! ## Monotonicity of `Quo` (for the ranged-pool price) -/

theorem chopRound_mono {s t : Int} (hs : 0 ≤ s) (h : s ≤ t) : Dec.chopRound s ≤ Dec.chopRound t := by
  have ht : 0 ≤ t := Int.le_trans hs h
  have s1 : s.tdiv Dec.P = s / Dec.P := Int.tdiv_eq_ediv_of_nonneg hs
  have s2 : s.tmod Dec.P = s % Dec.P := Int.tmod_eq_emod_of_nonneg hs
  have s3 := Int.emod_add_mul_ediv s Dec.P
  have s4 := Int.emod_nonneg s (Int.ne_of_gt P_pos)
  have s5 := Int.emod_lt_of_pos s P_pos
  have t1 : t.tdiv Dec.P = t / Dec.P := Int.tdiv_eq_ediv_of_nonneg ht
  have t2 : t.tmod Dec.P = t % Dec.P := Int.tmod_eq_emod_of_nonneg ht
  have t3 := Int.emod_add_mul_ediv t Dec.P
  have t4 := Int.emod_nonneg t (Int.ne_of_gt P_pos)
  have t5 := Int.emod_lt_of_pos t P_pos
  unfold Dec.chopRound Dec.chopRoundNonneg
  rw [if_neg (Int.not_lt.mpr hs), if_neg (Int.not_lt.mpr ht)]
  simp only [s1, s2, t1, t2]
  generalize s / Dec.P = q at *
  generalize s % Dec.P = r at *
  generalize t / Dec.P = q' at *
  generalize t % Dec.P = r' at *
  simp only [P_val, Dec.half] at *
  split_ifs <;> omega

theorem quo_mono_num {a a' b : Int} (ha : 0 ≤ a) (h : a ≤ a') (hb : 0 < b) : Dec.quo a b ≤ Dec.quo a' b := by
  have ha' : 0 ≤ a' := Int.le_trans ha h
  have n : 0 ≤ a * Dec.PP := Int.mul_nonneg ha (Int.le_of_lt PP_pos)
  have n' : 0 ≤ a' * Dec.PP := Int.mul_nonneg ha' (Int.le_of_lt PP_pos)
  unfold Dec.quo
  rw [Int.tdiv_eq_ediv_of_nonneg n, Int.tdiv_eq_ediv_of_nonneg n']
  apply chopRound_mono (Int.ediv_nonneg n (Int.le_of_lt hb))
  exact Int.ediv_le_ediv hb (Int.mul_le_mul_of_nonneg_right h (Int.le_of_lt PP_pos))

theorem quo_anti_den {a b b' : Int} (ha : 0 ≤ a) (hb : 0 < b) (h : b ≤ b') : Dec.quo a b' ≤ Dec.quo a b := by
  have hb' : 0 < b' := Int.lt_of_lt_of_le hb h
  have n : 0 ≤ a * Dec.PP := Int.mul_nonneg ha (Int.le_of_lt PP_pos)
  unfold Dec.quo
  rw [Int.tdiv_eq_ediv_of_nonneg n, Int.tdiv_eq_ediv_of_nonneg n]
  apply chopRound_mono (Int.ediv_nonneg n (Int.le_of_lt hb'))
  apply Int.le_ediv_of_mul_le hb
  have q0 : 0 ≤ a * Dec.PP / b' := Int.ediv_nonneg n (Int.le_of_lt hb')
  exact Int.le_trans (Int.mul_le_mul_of_nonneg_left h q0) (Int.ediv_mul_le _ (Int.ne_of_gt hb'))

/-! ## Ranged pool creation: what an accepted creation guarantees about the parameters -/

/-- `(a + tx)/(b + ty)` over the box `0 ≤ a ≤ A`, `0 ≤ b ≤ B` lies between its values at the two corners -/
theorem quo_box {tx ty a b A B : Int} (htx : 0 ≤ tx) (hty : 0 < ty) (ha : 0 ≤ a) (haA : a ≤ A) (hb : 0 ≤ b) (hbB : b ≤ B) :
    Dec.quo tx (B + ty) ≤ Dec.quo (a + tx) (b + ty) ∧ Dec.quo (a + tx) (b + ty) ≤ Dec.quo (A + tx) ty := by
  constructor
  · exact Int.le_trans (quo_anti_den htx (by omega) (by omega)) (quo_mono_num htx (by omega) (by omega))
  · exact Int.le_trans (quo_mono_num (by omega) (by omega : a + tx ≤ A + tx) (by omega))
      (quo_anti_den (by omega) hty (by omega))

/-- `(a + tx)/(b + ty)` is monotone: numerator part down, denominator part up ⇒ the quotient does not rise -/
theorem quo_shift_mono {tx ty a b a' b' : Int} (htx : 0 ≤ tx) (hty : 0 < ty) (ha' : 0 ≤ a') (hle : a' ≤ a) (hb : 0 ≤ b)
    (hge : b ≤ b') : Dec.quo (a' + tx) (b' + ty) ≤ Dec.quo (a + tx) (b + ty) :=
  Int.le_trans (quo_anti_den (by omega) (by omega : 0 < b + ty) (by omega))
    (quo_mono_num (by omega) (by omega : a' + tx ≤ a + tx) (by omega))

theorem pure_ok {α : Type} {a b : α} (h : (pure a : M α) = .ok b) : a = b := Except.ok.inj h

theorem validate_ok_true {minP maxP initP : Dec} (h : validateRangedPoolParams minP maxP initP = .ok true) :
    0 < initP ∧ minPoolPrice ≤ minP ∧ maxP ≤ maxPoolPrice ∧ minP < maxP ∧ minP ≤ initP ∧ initP ≤ maxP ∧
    minGapRatio ≤ Dec.quo (Dec.sub maxP minP) minP := by
  unfold validateRangedPoolParams at h
  split at h
  · exact absurd (pure_ok h) (by decide)
  rename_i c1
  split at h
  · exact absurd (pure_ok h) (by decide)
  rename_i c2
  split at h
  · exact absurd (pure_ok h) (by decide)
  rename_i c3
  split at h
  · exact absurd (pure_ok h) (by decide)
  rename_i c4
  split at h
  · exact absurd (pure_ok h) (by decide)
  rename_i c5
  obtain ⟨d, hd, h⟩ := bind_ok h
  obtain ⟨g, hg, h⟩ := bind_ok h
  have e := pure_ok h
  rw [decide_eq_true_eq] at e
  obtain ⟨g1, g2, g3⟩ := e
  rw [(quo_ok hg).2, sub_ok hd] at g1
  exact ⟨Decidable.not_not.mp c1, Int.not_lt.mp c2, Int.not_lt.mp c4, Decidable.not_not.mp c5,
    Int.not_lt.mp g2, Int.not_lt.mp g3, Int.not_lt.mp g1⟩

theorem newRangedPool_ok {rx ry ps : Int} {minP maxP : Dec} {p : RPool}
    (h : newRangedPool rx ry ps minP maxP = .ok p) :
    p.rx = rx ∧ p.ry = ry ∧ p.minP = minP ∧ p.maxP = maxP ∧
    p.xComp = Dec.add (toDec rx) p.transX ∧ p.yComp = Dec.add (toDec ry) p.transY := by
  unfold newRangedPool at h
  obtain ⟨⟨tx, ty⟩, _, h⟩ := bind_ok h
  obtain ⟨xc, hx, h⟩ := bind_ok h
  obtain ⟨yc, hy, h⟩ := bind_ok h
  have e := pure_ok h
  rw [← e]
  exact ⟨rfl, rfl, rfl, rfl, chk_ok hx, chk_ok hy⟩

theorem createRangedPool_ok {x y : Int} {minP maxP initP : Dec} {p : RPool}
    (h : createRangedPool x y minP maxP initP = .ok (some p)) :
    (0 < x ∨ 0 < y) ∧ validateRangedPoolParams minP maxP initP = .ok true ∧ p.minP = minP ∧ p.maxP = maxP := by
  unfold createRangedPool at h
  split at h
  · exact absurd (pure_ok h) (by simp)
  rename_i c
  obtain ⟨v, hv, h⟩ := bind_ok h
  split at h
  · exact absurd (pure_ok h) (by simp)
  rename_i cv
  obtain ⟨a, _, h⟩ := bind_ok h
  obtain ⟨ps, _, h⟩ := bind_ok h
  obtain ⟨q, hq, h⟩ := bind_ok h
  have e : some q = some p := pure_ok h
  have e' := Option.some.inj e
  subst e'
  obtain ⟨_, _, m1, m2, _, _⟩ := newRangedPool_ok hq
  have hv' : v = true := by cases v <;> simp_all
  subst hv'
  refine ⟨?_, hv, m1, m2⟩
  by_cases hx : 0 < x
  · exact Or.inl hx
  · by_cases hy : 0 < y
    · exact Or.inr hy
    · exact absurd ⟨hx, hy⟩ c

end Comdex.Pool
