import Comdex.Lemmas.LiqIndex
/-!
Pool-coin supply, exactly (C04 clause "pool-coin supply changes only by pool creation and by deposits and withdrawals executed
against that pool"): in every step of the model the recorded supply of pool `(a, pl)` changes by exactly the pool coins minted by
the deposit requests of THAT pool that newly succeeded in the step, minus the pool coins burnt by the withdrawal requests of
THAT pool that newly succeeded (`SupplyEq`), for every operation — pending requests executed over several batches, requests
executed inside their message (`MsgDepositAndFarm`, `MsgUnfarmAndWithdraw`), failing requests (refunded, minted / burnt nothing),
basic and ranged pools.  Core Lean only.
-/
namespace Comdex.LiqLedger

/-! ### states that agree on the request records -/

def RqSame (s s' : State) : Prop := s'.deps = s.deps ∧ s'.wdrs = s.wdrs

theorem RqSame.refl (s : State) : RqSame s s := ⟨rfl, rfl⟩

theorem RqSame.trans {s1 s2 s3 : State} (h1 : RqSame s1 s2) (h2 : RqSame s2 s3) : RqSame s1 s3 :=
  ⟨h2.1.trans h1.1, h2.2.trans h1.2⟩

theorem rq_send {s s' : State} {f t : Acct} {d : Denom} {n : Nat} (h : s.send f t d n = some s') : RqSame s s' :=
  ⟨(State.send_fields h).2.2.1, (State.send_fields h).2.2.2.1⟩

theorem rq_finishOrder {cfg : Cfg} {s s' : State} {k : OKey} {st : OStatus} (h : finishOrder cfg s k st = some s') :
    RqSame s s' := by
  unfold finishOrder at h
  split at h; · cases h
  split at h; · cases h; exact RqSame.refl _
  split at h; · cases h
  simp only [] at h
  split at h; · cases h
  rename_i s1 h1
  split at h; · cases h
  rename_i s2 h2
  cases h
  exact (rq_send h1).trans ((rq_send h2).trans (⟨rfl, rfl⟩))

theorem rq_fold {α : Type} {f : State → α → Option State} (hf : ∀ s x s', f s x = some s' → RqSame s s') :
    ∀ (l : List α) (s s' : State), foldOpt f s l = some s' → RqSame s s' := by
  intro l
  induction l with
  | nil => intro s s' h; simp [foldOpt] at h; subst h; exact RqSame.refl _
  | cons x t ih =>
    intro s s' h
    simp only [foldOpt] at h
    cases hx : f s x with
    | none => simp [hx] at h
    | some s1 => simp [hx] at h; exact (hf s x s1 hx).trans (ih s1 s' h)

theorem rq_placeOrder {cfg : Cfg} {s s' : State} {app user pair : Nat} {typ : OType} {buy : Bool}
    {msgOffer msgPrice price amount : Nat} {lifespan : Int} {ext : Bool}
    (h : placeOrder cfg s app user pair typ buy msgOffer msgPrice price amount lifespan ext = some s') : RqSame s s' := by
  unfold placeOrder at h
  split at h; · cases h
  split at h; · cases h
  split at h; · cases h
  split at h; · cases h
  split at h; · cases h
  simp only [] at h
  split at h; · cases h
  split at h; · cases h
  split at h; · cases h
  split at h; · cases h
  split at h; · cases h
  split at h; · cases h
  rename_i s1 h1
  cases h
  exact (rq_send h1).trans (⟨rfl, rfl⟩)

theorem rq_cancelOrder {cfg : Cfg} {s s' : State} {app user pair id : Nat} (h : cancelOrder cfg s app user pair id = some s') :
    RqSame s s' := by
  unfold cancelOrder at h
  split at h; · cases h
  split at h; · cases h
  split at h; · cases h
  split at h; · cases h
  split at h; · cases h
  split at h; · cases h
  split at h; · cases h
  exact rq_finishOrder h

theorem rq_cancelAll {cfg : Cfg} {s s' : State} {app user : Nat} {pairs : List Nat} (h : cancelAll cfg s app user pairs = some s') :
    RqSame s s' := by
  unfold cancelAll at h
  split at h; · cases h
  split at h; · cases h
  split at h; · cases h
  refine rq_fold (fun s x s' hs => ?_) _ _ _ h
  unfold cancelAllStep at hs
  split at hs
  · cases hs; exact RqSame.refl _
  · split at hs
    · split at hs
      · cases hs; exact RqSame.refl _
      · split at hs
        · exact rq_finishOrder hs
        · cases hs; exact RqSame.refl _
    · cases hs; exact RqSame.refl _

theorem rq_cancelMMCore {cfg : Cfg} {s s' : State} {app user : Nat} {p : Pair} {skip : Bool}
    (h : cancelMMCore cfg s app user p skip = some s') : RqSame s s' := by
  unfold cancelMMCore at h
  split at h
  · split at h
    · cases h
    · rename_i s1 h1
      cases h
      refine (rq_fold (fun s x s' hs => ?_) _ _ _ h1).trans (⟨rfl, rfl⟩)
      unfold cancelMMStep at hs
      split at hs
      · cases hs; exact RqSame.refl _
      · split at hs
        · cases hs
        · split at hs
          · exact rq_finishOrder hs
          · cases hs; exact RqSame.refl _
  · split at h
    · cases h; exact RqSame.refl _
    · cases h

theorem rq_cancelMM {cfg : Cfg} {s s' : State} {app user pair : Nat} (h : cancelMM cfg s app user pair = some s') :
    RqSame s s' := by
  unfold cancelMM at h
  split at h; · cases h
  split at h; · cases h
  exact rq_cancelMMCore h

theorem rq_mmOrder {cfg : Cfg} {s s' : State} {app user pair : Nat} {buys sells : List Tick} {lifespan : Int} {ext : Bool}
    (h : mmOrder cfg s app user pair buys sells lifespan ext = some s') : RqSame s s' := by
  unfold mmOrder at h
  split at h; · cases h
  split at h; · cases h
  split at h; · cases h
  split at h; · cases h
  simp only [] at h
  split at h; · cases h
  split at h; · cases h
  split at h; · cases h
  split at h; · cases h
  rename_i s1 hc1
  split at h; · cases h
  rename_i s2 h2
  split at h; · cases h
  rename_i s3 h3
  cases h
  exact (rq_cancelMMCore hc1).trans ((rq_send h2).trans ((rq_send h3).trans (⟨rfl, rfl⟩)))

theorem rq_createPair {cfg : Cfg} {s s' : State} {app creator : Nat} {base quote : Denom} {ext : Bool}
    (h : createPair cfg s app creator base quote ext = some s') : RqSame s s' := by
  unfold createPair at h
  split at h; · cases h
  split at h; · cases h
  split at h; · cases h
  split at h; · cases h
  split at h; · cases h
  rename_i s1 h1
  cases h
  exact (rq_send h1).trans (⟨rfl, rfl⟩)

theorem rq_farm {cfg : Cfg} {s s' : State} {app user pool amt : Nat} {ext : Bool} (h : farm cfg s app user pool amt ext = some s') :
    RqSame s s' := by
  unfold farm at h
  split at h; · cases h
  split at h; · cases h
  split at h; · cases h
  split at h; · cases h
  split at h; · cases h
  rename_i s1 h1
  split at h <;> (cases h; exact (rq_send h1).trans (⟨rfl, rfl⟩))

theorem rq_unfarm {cfg : Cfg} {s s' : State} {app user pool amt : Nat} {ext : Bool} (h : unfarm cfg s app user pool amt ext = some s') :
    RqSame s s' := by
  unfold unfarm at h
  split at h; · cases h
  split at h; · cases h
  split at h; · cases h
  split at h; · cases h
  split at h; · cases h
  split at h; · cases h
  simp only [] at h
  split at h; · cases h
  split at h; · cases h
  rename_i s1 h1
  cases h
  exact (rq_send h1).trans (⟨rfl, rfl⟩)

theorem rq_migrate {cfg : Cfg} {s s' : State} (h : migrate cfg s = some s') : RqSame s s' := by
  unfold migrate at h
  split at h
  · cases h; exact ⟨rfl, rfl⟩
  · cases h

theorem rq_prePass {cfg : Cfg} {s s' : State} {k : OKey} (h : prePass cfg s k = some s') : RqSame s s' := by
  unfold prePass at h
  split at h; · cases h
  split at h
  · cases h; exact ⟨rfl, rfl⟩
  · split at h
    · exact rq_finishOrder h
    · cases h; exact RqSame.refl _
  · split at h
    · exact rq_finishOrder h
    · cases h; exact RqSame.refl _
  · cases h; exact RqSame.refl _
  · cases h

theorem rq_sweep {cfg : Cfg} {s s' : State} {k : OKey} (h : sweep cfg s k = some s') : RqSame s s' := by
  unfold sweep at h
  split at h; · cases h
  split at h
  · exact rq_finishOrder h
  · split at h
    · exact rq_finishOrder h
    · cases h; exact RqSame.refl _

theorem rq_createPool {cfg : Cfg} {s s' : State} {app creator pair : Nat} {ranged : Bool} {dx dy ammPs : Nat} {ext : Bool}
    (h : createPool cfg s app creator pair ranged dx dy ammPs ext = some s') : RqSame s s' := by
  unfold createPool at h
  split at h; · cases h
  split at h; · cases h
  split at h; · cases h
  split at h; · cases h
  simp only [] at h
  split at h; · cases h
  split at h; · cases h
  split at h; · cases h
  split at h; · cases h
  split at h; · cases h
  rename_i s1 h1
  split at h; · cases h
  rename_i s2 h2
  split at h; · cases h
  rename_i s3 h3
  have h4 := rq_send h
  exact (rq_send h1).trans ((rq_send h2).trans ((rq_send h3).trans ⟨h4.1, h4.2⟩))

theorem rq_poolPayIn {p : Pair} {s s' : State} {f : PoolFlow} (h : poolPayIn p s f = some s') : RqSame s s' := by
  unfold poolPayIn at h
  simp only [] at h
  split at h; · cases h
  rename_i s1 h1
  cases h
  exact (rq_send h1).trans ⟨rfl, rfl⟩

theorem rq_poolPayOut {p : Pair} {s s' : State} {f : PoolFlow} (h : poolPayOut p s f = some s') : RqSame s s' := by
  unfold poolPayOut at h
  simp only [] at h
  split at h; · cases h
  rename_i s1 h1
  cases h
  exact (rq_send h1).trans ⟨rfl, rfl⟩

theorem rq_fillPayOut {p : Pair} {s s' : State} {f : Fill} (h : fillPayOut p s f = some s') : RqSame s s' := by
  unfold fillPayOut at h
  simp only [] at h
  split at h; · cases h
  split at h; · cases h
  rename_i s1 h1
  cases h
  exact (rq_send h1).trans ⟨rfl, rfl⟩

theorem rq_fillOrder {cfg : Cfg} {p : Pair} {s s' : State} {f : Fill} (h : fillOrder cfg p s f = some s') : RqSame s s' := by
  unfold fillOrder at h
  simp only [] at h
  split at h; · cases h
  split at h; · cases h
  split at h
  · exact RqSame.trans (s2 := (s.modO _ _).credit _ _ _) ⟨rfl, rfl⟩ (rq_finishOrder h)
  · cases h; exact ⟨rfl, rfl⟩

theorem rq_applyMatch {cfg : Cfg} {s s' : State} {p : Pair} {m : MatchIn} (h : applyMatch cfg s p m = some s') : RqSame s s' := by
  unfold applyMatch at h
  split at h; · cases h
  rename_i s1 h1
  split at h; · cases h
  rename_i s2 h2
  split at h; · cases h
  rename_i s3 h3
  split at h; · cases h
  rename_i s4 h4
  split at h; · cases h
  rename_i s5 h5
  cases h
  exact (rq_fold (fun s x s' hh => rq_poolPayIn hh) _ _ _ h1).trans ((rq_fold (fun s x s' hh => rq_fillOrder hh) _ _ _ h2).trans
    ((rq_fold (fun s x s' hh => rq_fillPayOut hh) _ _ _ h3).trans ((rq_fold (fun s x s' hh => rq_poolPayOut hh) _ _ _ h4).trans
      ((rq_send h5).trans ⟨rfl, rfl⟩))))

theorem rq_execMatching {cfg : Cfg} {ms : List MatchIn} {s s' : State} {pk : Nat × Nat} (h : execMatching cfg ms s pk = some s') :
    RqSame s s' := by
  unfold execMatching at h
  split at h; · cases h
  rename_i p hp
  simp only [] at h
  split at h; · cases h
  rename_i s1 h1
  split at h; · cases h
  rename_i s3 h3
  cases h
  exact (rq_fold (fun s x s' hh => rq_prePass hh) _ _ _ h1).trans
    (RqSame.trans (s2 := markDepleted s1 p) ⟨rfl, rfl⟩ ((rq_applyMatch h3).trans ⟨rfl, rfl⟩))

/-! ### minted / burnt pool coins recorded on the succeeded requests of a pool -/

def mintTerm (a pl : Nat) (r : DepReq) : Nat := if r.app = a ∧ r.pool = pl ∧ r.status = .succeeded then r.minted else 0
def burnTerm (a pl : Nat) (r : WdrReq) : Nat := if r.app = a ∧ r.pool = pl ∧ r.status = .succeeded then r.pc else 0

/-- pool coins minted by the succeeded deposit requests of pool `(a, pl)` that are on record -/
def mintedSum (a pl : Nat) (l : List DepReq) : Nat := sumOver (mintTerm a pl) l
/-- pool coins burnt by the succeeded withdrawal requests of pool `(a, pl)` that are on record -/
def burnedSum (a pl : Nat) (l : List WdrReq) : Nat := sumOver (burnTerm a pl) l

/-- supply' − supply = (minted' − minted) − (burnt' − burnt), over ℕ -/
def SupplyEq (a pl : Nat) (s s' : State) : Prop :=
  supply s' a pl + mintedSum a pl s.deps + burnedSum a pl s'.wdrs = supply s a pl + mintedSum a pl s'.deps + burnedSum a pl s.wdrs

theorem SupplyEq.refl (a pl : Nat) (s : State) : SupplyEq a pl s s := by unfold SupplyEq; omega

theorem SupplyEq.trans {a pl : Nat} {s1 s2 s3 : State} (h1 : SupplyEq a pl s1 s2) (h2 : SupplyEq a pl s2 s3) : SupplyEq a pl s1 s3 := by
  unfold SupplyEq at *; omega

theorem SupplyEq.of_same {a pl : Nat} {s s' : State} (hs : supply s' a pl = supply s a pl) (hr : RqSame s s') : SupplyEq a pl s s' := by
  unfold SupplyEq; rw [hs, hr.1, hr.2]

theorem se_fold {α : Type} {a pl : Nat} {f : State → α → Option State} (hf : ∀ s x s', f s x = some s' → SupplyEq a pl s s') :
    ∀ (l : List α) (s s' : State), foldOpt f s l = some s' → SupplyEq a pl s s' := by
  intro l
  induction l with
  | nil => intro s s' h; simp [foldOpt] at h; subst h; exact SupplyEq.refl _ _ _
  | cons x t ih =>
    intro s s' h
    simp only [foldOpt] at h
    cases hx : f s x with
    | none => simp [hx] at h
    | some s1 => simp [hx] at h; exact (hf s x s1 hx).trans (ih s1 s' h)

/-- the recorded supply of a pool after its record has been modified -/
theorem supply_modPool_self (s : State) (a pl : Nat) (g : Pool → Pool) (hk : ∀ x a p, isPool a p (g x) = isPool a p x) {q : Pool}
    (hq : s.pool? a pl = some q) : supply (s.modPool a pl g) a pl = (g q).ps := by
  unfold supply State.pool? State.modPool
  simp only
  rw [findBy_modBy_same (fun x => hk x a pl)]
  have : findBy (isPool a pl) s.pools = some q := hq
  rw [this]; rfl

/-! ### execution of one deposit / withdrawal request -/

theorem supply_eq_of_pool? {s : State} {a pl : Nat} {q : Pool} (hq : s.pool? a pl = some q) : supply s a pl = q.ps := by
  simp [supply, hq]

theorem se_failDep {a pl : Nat} {s s' : State} {r : DepReq} (hr : findBy (isDep r.app r.pool r.id) s.deps = some r)
    (hp : r.status = .pending) (h : failDep s r = some s') : SupplyEq a pl s s' := by
  have hpools := pools_failDep h
  unfold failDep at h
  split at h; · cases h
  rename_i s1 h1
  split at h; · cases h
  rename_i s2 h2
  cases h
  have hd : s2.deps = s.deps := ((rq_send h1).trans (rq_send h2)).1
  have hw : s2.wdrs = s.wdrs := ((rq_send h1).trans (rq_send h2)).2
  unfold SupplyEq
  rw [supply_of_pools hpools]
  show _ + _ + burnedSum a pl s2.wdrs = _ + mintedSum a pl (modBy _ _ s2.deps) + _
  rw [hd, hw]
  have hs := sumOver_modBy (mintTerm a pl) (fun r => { r with status := RStatus.failed }) hr
  have z1 : mintTerm a pl r = 0 := by simp [mintTerm, hp]
  have z2 : mintTerm a pl { r with status := RStatus.failed } = 0 := by simp [mintTerm]
  rw [z1, z2] at hs
  unfold mintedSum
  omega

theorem se_execDeposit {a pl : Nat} {s s' : State} {a' pl' i ax ay pc : Nat} (h : execDeposit s a' pl' i ax ay pc = some s') :
    SupplyEq a pl s s' := by
  unfold execDeposit at h
  split at h; · cases h
  rename_i r hr
  obtain ⟨r1, r2, r3⟩ := isDep_true (findBy_some_prop hr).1
  have hr' : findBy (isDep r.app r.pool r.id) s.deps = some r := by rw [r1, r2, r3]; exact hr
  split at h; · cases h; exact SupplyEq.refl _ _ _
  rename_i hpend
  have hp : r.status = .pending := Classical.byContradiction hpend
  split at h; · cases h
  rename_i q hq
  split at h; · exact se_failDep hr' hp h
  split at h; · cases h
  split at h
  · refine SupplyEq.trans (s2 := s.modPool a' pl' fun q => { q with disabled := true }) ?_ (se_failDep hr' hp h)
    refine SupplyEq.of_same ?_ ⟨rfl, rfl⟩
    apply supply_modPool_same <;> intros <;> rfl
  split at h; · exact se_failDep hr' hp h
  split at h; · cases h
  simp only [] at h
  split at h; · cases h
  rename_i s2 h2
  split at h; · cases h
  rename_i s3 h3
  split at h; · cases h
  rename_i s4 h4
  split at h; · cases h
  rename_i s5 h5
  split at h; · cases h
  rename_i s6 h6
  cases h
  have rq : RqSame (s.mint a' pl' pc) s6 := (rq_send h2).trans ((rq_send h3).trans ((rq_send h4).trans ((rq_send h5).trans (rq_send h6))))
  have hpools : s6.pools = (s.mint a' pl' pc).pools := by
    rw [(State.send_fields h6).2.1, (State.send_fields h5).2.1, (State.send_fields h4).2.1, (State.send_fields h3).2.1, (State.send_fields h2).2.1]
  have hd : s6.deps = s.deps := rq.1
  have hw : s6.wdrs = s.wdrs := rq.2
  unfold SupplyEq
  show supply { s6 with deps := _ } a pl + _ + burnedSum a pl s6.wdrs = _ + mintedSum a pl (modBy _ _ s6.deps) + _
  have e0 : supply { s6 with deps := modBy (isDep a' pl' i) (fun r => { r with status := RStatus.succeeded, ax := ax, ay := ay, minted := pc }) s6.deps } a pl
      = supply (s.mint a' pl' pc) a pl := supply_of_pools hpools a pl
  rw [e0, hd, hw]
  have hs := sumOver_modBy (mintTerm a pl) (fun r => { r with status := RStatus.succeeded, ax := ax, ay := ay, minted := pc }) hr
  have z1 : mintTerm a pl r = 0 := by simp [mintTerm, hp]
  rw [z1] at hs
  unfold mintedSum
  by_cases hc : a' = a ∧ pl' = pl
  · obtain ⟨rfl, rfl⟩ := hc
    have z2 : mintTerm a' pl' { r with status := RStatus.succeeded, ax := ax, ay := ay, minted := pc } = pc := by
      simp [mintTerm, r1, r2]
    rw [z2] at hs
    have e1 : supply (s.mint a' pl' pc) a' pl' = q.ps + pc := by
      have : (s.mint a' pl' pc).pools = (s.modPool a' pl' fun q => { q with ps := q.ps + pc }).pools := rfl
      rw [supply_of_pools this, supply_modPool_self s a' pl' (fun q => { q with ps := q.ps + pc }) (fun _ _ _ => rfl) hq]
    rw [e1, supply_eq_of_pool? hq]
    omega
  · have z2 : mintTerm a pl { r with status := RStatus.succeeded, ax := ax, ay := ay, minted := pc } = 0 := by
      simp only [mintTerm, r1, r2]
      rw [if_neg]; intro hh; exact hc ⟨hh.1, hh.2.1⟩
    rw [z2] at hs
    have e1 : supply (s.mint a' pl' pc) a pl = supply s a pl := by
      have : (s.mint a' pl' pc).pools = (s.modPool a' pl' fun q => { q with ps := q.ps + pc }).pools := rfl
      rw [supply_of_pools this]
      apply supply_modPool_other <;> first | exact hc | (intros; rfl)
    rw [e1]
    omega

theorem se_failWdr {a pl : Nat} {s s' : State} {r : WdrReq} (hr : findBy (isWdr r.app r.pool r.id) s.wdrs = some r)
    (hp : r.status = .pending) (h : failWdr s r = some s') : SupplyEq a pl s s' := by
  have hpools := pools_failWdr h
  unfold failWdr at h
  split at h; · cases h
  rename_i s1 h1
  cases h
  have hd : s1.deps = s.deps := (rq_send h1).1
  have hw : s1.wdrs = s.wdrs := (rq_send h1).2
  unfold SupplyEq
  rw [supply_of_pools hpools]
  show _ + _ + burnedSum a pl (modBy _ _ s1.wdrs) = _ + mintedSum a pl s1.deps + _
  rw [hd, hw]
  have hs := sumOver_modBy (burnTerm a pl) (fun r => { r with status := RStatus.failed }) hr
  have z1 : burnTerm a pl r = 0 := by simp [burnTerm, hp]
  have z2 : burnTerm a pl { r with status := RStatus.failed } = 0 := by simp [burnTerm]
  rw [z1, z2] at hs
  unfold burnedSum
  omega

theorem burn_spec {s s' : State} {a' pl' n : Nat} (h : s.burn a' pl' n = some s') :
    ∃ q, s.pool? a' pl' = some q ∧ n ≤ q.ps ∧ s'.pools = (s.modPool a' pl' fun q => { q with ps := q.ps - n }).pools ∧ RqSame s s' := by
  unfold State.burn at h
  split at h
  · split at h; · cases h
    rename_i q hq
    split at h
    · rename_i hle
      cases h
      exact ⟨q, hq, hle, rfl, rfl, rfl⟩
    · cases h
  · cases h

theorem se_execWithdraw {a pl : Nat} {s s' : State} {a' pl' i x y : Nat} (h : execWithdraw s a' pl' i x y = some s') :
    SupplyEq a pl s s' := by
  unfold execWithdraw at h
  split at h; · cases h
  rename_i r hr
  obtain ⟨r1, r2, r3⟩ := isWdr_true (findBy_some_prop hr).1
  have hr' : findBy (isWdr r.app r.pool r.id) s.wdrs = some r := by rw [r1, r2, r3]; exact hr
  split at h; · cases h; exact SupplyEq.refl _ _ _
  rename_i hpend
  have hp : r.status = .pending := Classical.byContradiction hpend
  split at h; · cases h
  rename_i q hq
  split at h; · exact se_failWdr hr' hp h
  split at h; · cases h
  split at h
  · refine SupplyEq.trans (s2 := s.modPool a' pl' fun q => { q with disabled := true }) ?_ (se_failWdr hr' hp h)
    refine SupplyEq.of_same ?_ ⟨rfl, rfl⟩
    apply supply_modPool_same <;> intros <;> rfl
  split at h; · exact se_failWdr hr' hp h
  split at h; · cases h
  rename_i s1 h1
  split at h; · cases h
  rename_i s2 h2
  split at h; · cases h
  rename_i s3 h3
  split at h; · cases h
  rename_i s4 h4
  cases h
  have rq3 : RqSame s s3 := (rq_send h1).trans ((rq_send h2).trans (rq_send h3))
  have hpools3 : s3.pools = s.pools := by
    rw [(State.send_fields h3).2.1, (State.send_fields h2).2.1, (State.send_fields h1).2.1]
  obtain ⟨q3, hq3, hle, hp4, rq4⟩ := burn_spec h4
  have hq3' : q3 = q := by
    have : s3.pool? a' pl' = s.pool? a' pl' := by simp [State.pool?, hpools3]
    rw [this, hq] at hq3; exact (Option.some.inj hq3).symm
  subst hq3'
  have hd : s4.deps = s.deps := (rq3.trans rq4).1
  have hw : s4.wdrs = s.wdrs := (rq3.trans rq4).2
  -- the final state: possibly marked disabled, request record updated
  have hfin : ∀ t : State, t = (if r.pc = q3.ps then s4.modPool a' pl' fun q => { q with disabled := true } else s4) →
      supply t a pl = supply s4 a pl ∧ t.deps = s4.deps ∧ t.wdrs = s4.wdrs := by
    intro t ht
    subst ht
    split
    · refine ⟨?_, rfl, rfl⟩
      apply supply_modPool_same <;> intros <;> rfl
    · exact ⟨rfl, rfl, rfl⟩
  obtain ⟨f1, f2, f3⟩ := hfin _ rfl
  unfold SupplyEq
  show supply { (if r.pc = q3.ps then s4.modPool a' pl' fun q => { q with disabled := true } else s4) with wdrs := _ } a pl + _ +
      burnedSum a pl (modBy _ _ (if r.pc = q3.ps then s4.modPool a' pl' fun q => { q with disabled := true } else s4).wdrs) =
    _ + mintedSum a pl (if r.pc = q3.ps then s4.modPool a' pl' fun q => { q with disabled := true } else s4).deps + _
  have e0 : supply { (if r.pc = q3.ps then s4.modPool a' pl' fun q => { q with disabled := true } else s4) with
        wdrs := modBy (isWdr a' pl' i) (fun r => { r with status := RStatus.succeeded, wx := x, wy := y })
          (if r.pc = q3.ps then s4.modPool a' pl' fun q => { q with disabled := true } else s4).wdrs } a pl = supply s4 a pl := by
    rw [← f1]; exact supply_of_pools rfl a pl
  rw [e0, f2, f3, hd, hw]
  have hs := sumOver_modBy (burnTerm a pl) (fun r => { r with status := RStatus.succeeded, wx := x, wy := y }) hr
  have z1 : burnTerm a pl r = 0 := by simp [burnTerm, hp]
  rw [z1] at hs
  unfold burnedSum
  by_cases hc : a' = a ∧ pl' = pl
  · obtain ⟨rfl, rfl⟩ := hc
    have z2 : burnTerm a' pl' { r with status := RStatus.succeeded, wx := x, wy := y } = r.pc := by
      simp [burnTerm, r1, r2]
    rw [z2] at hs
    have e1 : supply s4 a' pl' = q3.ps - r.pc := by
      rw [supply_of_pools hp4]
      have hq3s : (s3.modPool a' pl' fun q => { q with ps := q.ps - r.pc }) = (s3.modPool a' pl' fun q => { q with ps := q.ps - r.pc }) := rfl
      exact supply_modPool_self s3 a' pl' (fun q => { q with ps := q.ps - r.pc }) (fun _ _ _ => rfl) hq3
    rw [e1, supply_eq_of_pool? hq]
    omega
  · have z2 : burnTerm a pl { r with status := RStatus.succeeded, wx := x, wy := y } = 0 := by
      simp only [burnTerm, r1, r2]
      rw [if_neg]; intro hh; exact hc ⟨hh.1, hh.2.1⟩
    rw [z2] at hs
    have e1 : supply s4 a pl = supply s a pl := by
      rw [supply_of_pools hp4, ← supply_of_pools hpools3 a pl]
      apply supply_modPool_other <;> first | exact hc | (intros; rfl)
    rw [e1]
    omega

/-! ### every operation -/

theorem se_depositReq {cfg : Cfg} {a pl : Nat} {s s' : State} {app user pool dx dy : Nat} {ext : Bool} {id : Nat}
    (h : depositReq cfg s app user pool dx dy ext = some (s', id)) : SupplyEq a pl s s' := by
  have hsup := supply_frame_deposit a pl h
  unfold depositReq at h
  split at h; · cases h
  split at h; · cases h
  split at h; · cases h
  split at h; · cases h
  split at h; · cases h
  split at h; · cases h
  split at h; · cases h
  rename_i s1 h1
  split at h; · cases h
  rename_i s2 h2
  simp only [Option.some.injEq, Prod.mk.injEq] at h
  obtain ⟨h, -⟩ := h
  subst h
  have rq := (rq_send h1).trans (rq_send h2)
  unfold SupplyEq
  rw [hsup]
  show _ + _ + burnedSum a pl s2.wdrs = _ + mintedSum a pl (s2.deps ++ _) + _
  rw [rq.1, rq.2]
  unfold mintedSum
  rw [sumOver_append]
  simp [sumOver, mintTerm]

theorem se_withdrawReq {cfg : Cfg} {a pl : Nat} {s s' : State} {app user pool pc : Nat} {ext : Bool} {id : Nat}
    (h : withdrawReq cfg s app user pool pc ext = some (s', id)) : SupplyEq a pl s s' := by
  have hsup := supply_frame_withdraw a pl h
  unfold withdrawReq at h
  split at h; · cases h
  split at h; · cases h
  split at h; · cases h
  split at h; · cases h
  split at h; · cases h
  split at h; · cases h
  rename_i s1 h1
  simp only [Option.some.injEq, Prod.mk.injEq] at h
  obtain ⟨h, -⟩ := h
  subst h
  have rq := rq_send h1
  unfold SupplyEq
  rw [hsup]
  show _ + _ + burnedSum a pl (s1.wdrs ++ _) = _ + mintedSum a pl s1.deps + _
  rw [rq.1, rq.2]
  unfold burnedSum
  rw [sumOver_append]
  simp [sumOver, burnTerm]

theorem se_endBlock {cfg : Cfg} {a pl : Nat} {s s' : State} {app : Nat} {ms : List MatchIn} {dins : List DepIn} {wins : List WdrIn}
    (h : endBlock cfg s app ms dins wins = some s') : SupplyEq a pl s s' := by
  unfold endBlock at h
  split at h; · cases h
  split at h; · cases h; exact SupplyEq.refl _ _ _
  simp only [] at h
  split at h; · cases h
  rename_i s1 h1
  split at h; · cases h
  rename_i s2 h2
  split at h; · cases h
  rename_i s3 h3
  split at h; · cases h
  rename_i s4 h4
  cases h
  have e1 := se_fold (a := a) (pl := pl) (fun s x s' hh => SupplyEq.of_same (supply_execMatching a pl hh) (rq_execMatching hh)) _ _ _ h1
  have e2 := se_fold (a := a) (pl := pl) (fun s x s' hh => SupplyEq.of_same (supply_of_pools (pools_sweep hh) a pl) (rq_sweep hh)) _ _ _ h2
  have e3 := se_fold (a := a) (pl := pl) (f := execDepStep dins) (fun s x s' hh => by unfold execDepStep at hh; exact se_execDeposit hh) _ _ _ h3
  have e4 := se_fold (a := a) (pl := pl) (f := execWdrStep wins) (fun s x s' hh => by unfold execWdrStep at hh; exact se_execWithdraw hh) _ _ _ h4
  exact e1.trans (e2.trans (e3.trans (e4.trans (SupplyEq.of_same rfl ⟨rfl, rfl⟩))))

/-- the operations after which request records may have been pruned or a brand-new pool (without any request) exists -/
def prunesOrCreates : Op → Bool
  | .beginBlock _ => true
  | .createPool .. => true
  | _ => false

/-- **Supply, exactly, for every operation**: the recorded pool-coin supply of pool `(a, pl)` moves by exactly what the deposit
requests of that pool that newly succeeded in the step minted, minus what the newly succeeded withdrawal requests of that pool
burnt.  (Begin-block pruning only deletes records and `MsgCreatePool` only adds a new pool: see `supply_frame`.) -/
theorem step_supplyEq {cfg : Cfg} {s s' : State} {op : Op} (a pl : Nat) (hop : prunesOrCreates op = false)
    (h : step cfg s op = some s') : SupplyEq a pl s s' := by
  cases op with
  | block ht t => simp only [step, Option.some.injEq] at h; subst h; exact SupplyEq.of_same rfl ⟨rfl, rfl⟩
  | createPair a' c b q e => exact SupplyEq.of_same (supply_frame a pl h (by simp [touchesSupply])) (rq_createPair h)
  | createPool a' c p r dx dy ps e => simp [prunesOrCreates] at hop
  | deposit a' u p dx dy e =>
    simp only [step] at h
    cases hd : depositReq cfg s a' u p dx dy e with
    | none => simp [hd] at h
    | some r => obtain ⟨s1, id⟩ := r; simp [hd] at h; subst h; exact se_depositReq hd
  | withdraw a' u p pc e =>
    simp only [step] at h
    cases hd : withdrawReq cfg s a' u p pc e with
    | none => simp [hd] at h
    | some r => obtain ⟨s1, id⟩ := r; simp [hd] at h; subst h; exact se_withdrawReq hd
  | order a' u p t b od dd mo mp am l =>
    have hs := supply_frame a pl h (by simp [touchesSupply])
    obtain ⟨_, _, h⟩ := placeOrderMsg_core h
    exact SupplyEq.of_same hs (rq_placeOrder h)
  | mmOrder a' u p xs ns sa xb nb ba l =>
    have hs := supply_frame a pl h (by simp [touchesSupply])
    obtain ⟨_, _, h⟩ := mmOrderMsg_core h
    exact SupplyEq.of_same hs (rq_mmOrder h)
  | cancel a' u p i => exact SupplyEq.of_same (supply_frame a pl h (by simp [touchesSupply])) (rq_cancelOrder h)
  | cancelAll a' u ps => exact SupplyEq.of_same (supply_frame a pl h (by simp [touchesSupply])) (rq_cancelAll h)
  | cancelMM a' u p => exact SupplyEq.of_same (supply_frame a pl h (by simp [touchesSupply])) (rq_cancelMM h)
  | farm a' u p n e => exact SupplyEq.of_same (supply_frame a pl h (by simp [touchesSupply])) (rq_farm h)
  | unfarm a' u p n e => exact SupplyEq.of_same (supply_frame a pl h (by simp [touchesSupply])) (rq_unfarm h)
  | depositAndFarm a' u p dx dy ax ay pc e =>
    simp only [step] at h
    unfold depositAndFarm at h
    split at h; · cases h
    rename_i s1 id h1
    split at h; · cases h
    rename_i s2 h2
    split at h; · cases h
    split at h; · cases h
    exact (se_depositReq h1).trans ((se_execDeposit h2).trans (SupplyEq.of_same (supply_of_pools (supply_farm h) a pl) (rq_farm h)))
  | unfarmAndWithdraw a' u p n x y e =>
    simp only [step] at h
    unfold unfarmAndWithdraw at h
    split at h; · cases h
    rename_i s1 h1
    split at h; · cases h
    rename_i s2 id h2
    exact (SupplyEq.of_same (supply_of_pools (supply_unfarm h1) a pl) (rq_unfarm h1)).trans ((se_withdrawReq h2).trans (se_execWithdraw h))
  | endBlock a' ms ds ws => exact se_endBlock h
  | beginBlock a' => simp [prunesOrCreates] at hop
  | migrate => exact SupplyEq.of_same (supply_frame a pl h (by simp [touchesSupply])) (rq_migrate h)

/-- `MsgCreatePool` / `MsgCreateRangedPool`: exactly one pool record is added (with a positive supply, `CfgOk`); every existing
pool record — in particular its supply — is as it was -/
theorem createPool_pools {cfg : Cfg} {s s' : State} {app creator pair : Nat} {ranged : Bool} {dx dy ammPs : Nat} {ext : Bool}
    (h : createPool cfg s app creator pair ranged dx dy ammPs ext = some s') :
    ∃ ac q, cfg.app? app = some ac ∧ s'.pools = s.pools ++ [q] ∧ q.app = app ∧ q.ranged = ranged ∧ q.ps = max ammPs ac.minInitSupply ∧
      RqSame s s' := by
  have hrq := rq_createPool h
  unfold createPool at h
  split at h; · cases h
  split at h; · cases h
  rename_i ac hac
  split at h; · cases h
  split at h; · cases h
  simp only [] at h
  split at h; · cases h
  split at h; · cases h
  split at h; · cases h
  split at h; · cases h
  split at h; · cases h
  rename_i s1 h1
  split at h; · cases h
  rename_i s2 h2
  split at h; · cases h
  rename_i s3 h3
  refine ⟨ac, { app := app, id := (s.pools.filter (·.app == app)).length + 1, pair := pair, ranged := ranged, disabled := false, ps := max ammPs ac.minInitSupply, lastDep := 0, lastWdr := 0 }, hac, ?_, rfl, rfl, rfl, hrq⟩
  rw [(State.send_fields h).2.1]
  show s3.pools ++ _ = _
  rw [(State.send_fields h3).2.1, (State.send_fields h2).2.1, (State.send_fields h1).2.1]

theorem supply_append_existing (s : State) (l : List Pool) (a pl : Nat) (q : Pool) (hq : findBy (isPool a pl) s.pools = some q)
    (s' : State) (h : s'.pools = s.pools ++ l) : supply s' a pl = supply s a pl := by
  unfold supply State.pool?
  rw [h, findBy_append, hq]

end Comdex.LiqLedger
