import Mathlib.Tactic.Linarith
import Mathlib.Tactic.Ring
import Comdex.Model.DutchPrice
/-!
Lemmas for the Dutch-auction price functions: rounding facts about `Dec.chopRound` / `Int.tdiv`
(monotone, exact on multiples, within half an ulp), the closed form of the linear decrease, and the
bounds on the truncated time-to-zero `tau`.
-/
namespace Comdex.DutchPrice
open Comdex Comdex.Dec

/-! ### `chopRound` (half-even drop of 18 digits) -/

theorem crn_def (x : Int) (h : 0 ≤ x) : chopRoundNonneg x =
    (if x % 1000000000000000000 = 0 then x / 1000000000000000000
     else if x % 1000000000000000000 < 500000000000000000 then x / 1000000000000000000
     else if x % 1000000000000000000 > 500000000000000000 then x / 1000000000000000000 + 1
     else if (x / 1000000000000000000) % 2 = 0 then x / 1000000000000000000 else x / 1000000000000000000 + 1) := by
  unfold chopRoundNonneg
  simp only [Int.tdiv_eq_ediv_of_nonneg h, Int.tmod_eq_emod_of_nonneg h, P, half]

theorem crn_mono (x y : Int) (hx : 0 ≤ x) (hxy : x ≤ y) : chopRoundNonneg x ≤ chopRoundNonneg y := by
  rw [crn_def x hx, crn_def y (by omega)]
  split_ifs <;> omega

theorem crn_nonneg (x : Int) (hx : 0 ≤ x) : 0 ≤ chopRoundNonneg x := by
  rw [crn_def x hx]
  split_ifs <;> omega

theorem crn_bounds (x : Int) (hx : 0 ≤ x) :
    2 * x - 1000000000000000000 ≤ 2 * 1000000000000000000 * chopRoundNonneg x ∧
    2 * 1000000000000000000 * chopRoundNonneg x ≤ 2 * x + 1000000000000000000 := by
  rw [crn_def x hx]
  split_ifs <;> omega

theorem crn_exact (k : Int) (hk : 0 ≤ k) : chopRoundNonneg (k * 1000000000000000000) = k := by
  rw [crn_def _ (by omega)]
  split_ifs <;> omega

theorem chopRound_of_nonneg (x : Int) (hx : 0 ≤ x) : chopRound x = chopRoundNonneg x := by
  unfold chopRound; simp [Int.not_lt.mpr hx]

theorem chopRound_nonneg (x : Int) (hx : 0 ≤ x) : 0 ≤ chopRound x := by
  rw [chopRound_of_nonneg x hx]; exact crn_nonneg x hx

theorem chopRound_nonpos (x : Int) (hx : x ≤ 0) : chopRound x ≤ 0 := by
  unfold chopRound
  by_cases h : x < 0
  · simp only [h, if_true]
    have := crn_nonneg (-x) (by omega)
    omega
  · have : x = 0 := by omega
    subst this
    simp [chopRoundNonneg, P]

/-- half-even rounding is monotone on all of `Int` -/
theorem chopRound_mono (x y : Int) (hxy : x ≤ y) : chopRound x ≤ chopRound y := by
  by_cases hx : 0 ≤ x
  · rw [chopRound_of_nonneg x hx, chopRound_of_nonneg y (by omega)]
    exact crn_mono x y hx hxy
  · by_cases hy : 0 ≤ y
    · exact Int.le_trans (chopRound_nonpos x (by omega)) (chopRound_nonneg y hy)
    · have hx' : x < 0 := by omega
      have hy' : y < 0 := by omega
      unfold chopRound
      simp only [hx', hy', if_true]
      have := crn_mono (-y) (-x) (by omega) (by omega)
      omega

theorem chopRound_exact (k : Int) : chopRound (k * P) = k := by
  unfold chopRound
  by_cases h : k * P < 0
  · simp only [h, if_true]
    have hk : k < 0 := by simp only [P] at h; omega
    have : -(k * P) = (-k) * 1000000000000000000 := by simp only [P]; ring
    rw [this, crn_exact (-k) (by omega)]; omega
  · simp only [h, if_false]
    have hk : 0 ≤ k := by simp only [P] at h; omega
    simp only [P]
    exact crn_exact k hk

theorem chopRound_bounds (x : Int) (hx : 0 ≤ x) :
    2 * x - P ≤ 2 * P * chopRound x ∧ 2 * P * chopRound x ≤ 2 * x + P := by
  rw [chopRound_of_nonneg x hx]
  simp only [P]
  exact crn_bounds x hx

/-! ### truncated division -/

theorem tdiv_mono (a a' b : Int) (hb : 0 < b) (h : a ≤ a') : a.tdiv b ≤ a'.tdiv b := by
  by_cases ha : 0 ≤ a
  · rw [Int.tdiv_eq_ediv_of_nonneg ha, Int.tdiv_eq_ediv_of_nonneg (by omega : 0 ≤ a')]
    exact Int.ediv_le_ediv hb h
  · by_cases ha' : 0 ≤ a'
    · have h1 : a.tdiv b ≤ 0 := by
        have : a.tdiv b = -((-a).tdiv b) := by rw [Int.neg_tdiv]; omega
        rw [this]
        have := Int.tdiv_nonneg (by omega : 0 ≤ -a) (Int.le_of_lt hb)
        omega
      exact Int.le_trans h1 (Int.tdiv_nonneg ha' (Int.le_of_lt hb))
    · have e1 : a.tdiv b = -((-a) / b) := by
        rw [← Int.tdiv_eq_ediv_of_nonneg (by omega : 0 ≤ -a), Int.neg_tdiv]; omega
      have e2 : a'.tdiv b = -((-a') / b) := by
        rw [← Int.tdiv_eq_ediv_of_nonneg (by omega : 0 ≤ -a'), Int.neg_tdiv]; omega
      rw [e1, e2]
      have := Int.ediv_le_ediv hb (by omega : -a' ≤ -a)
      omega

/-! ### closed form of the linear decrease -/

theorem mul_ofInt (top k : Int) : Dec.mul top (Dec.ofInt k) = top * k := by
  unfold Dec.mul Dec.ofInt
  have : top * (k * P) = (top * k) * P := by ring
  rw [this, chopRound_exact]

theorem quo_ofInt (n tau : Int) (_ht : tau ≠ 0) : Dec.quo n (Dec.ofInt tau) = chopRound ((n * P).tdiv tau) := by
  unfold Dec.quo Dec.ofInt PP
  have hP : (0 : Int) < P := by simp [P]
  have : n * (P * P) = (n * P) * P := by ring
  rw [this, Int.mul_tdiv_mul_of_pos_left _ _ hP]

theorem linearVal_eq (top tau dur : Int) (ht : tau ≠ 0) :
    linearVal top tau dur = chopRound ((top * (tau - dur) * P).tdiv tau) := by
  unfold linearVal
  rw [mul_ofInt, quo_ofInt _ _ ht]

/-- the price is non-increasing in the elapsed time, for every start price ≥ 0 and every positive `tau` -/
theorem linearVal_antitone (top tau d1 d2 : Int) (htop : 0 ≤ top) (ht : 0 < tau) (h : d1 ≤ d2) :
    linearVal top tau d2 ≤ linearVal top tau d1 := by
  rw [linearVal_eq _ _ _ (by omega), linearVal_eq _ _ _ (by omega)]
  apply chopRound_mono
  apply tdiv_mono _ _ _ ht
  have hP : (0 : Int) ≤ P := by simp [P]
  have : top * (tau - d2) ≤ top * (tau - d1) := Int.mul_le_mul_of_nonneg_left (by omega) htop
  exact Int.mul_le_mul_of_nonneg_right this hP

theorem linearVal_zero (top tau : Int) (ht : tau ≠ 0) : linearVal top tau 0 = top := by
  rw [linearVal_eq _ _ _ ht]
  have : top * (tau - 0) * P = (top * P) * tau := by ring
  rw [this, Int.mul_tdiv_cancel _ ht, chopRound_exact]

theorem linearVal_le_top (top tau dur : Int) (htop : 0 ≤ top) (ht : 0 < tau) (hd : 0 ≤ dur) :
    linearVal top tau dur ≤ top := by
  have := linearVal_antitone top tau 0 dur htop ht hd
  rwa [linearVal_zero top tau (by omega)] at this

theorem linearVal_nonneg (top tau dur : Int) (htop : 0 ≤ top) (ht : 0 < tau) (hd : dur ≤ tau) :
    0 ≤ linearVal top tau dur := by
  rw [linearVal_eq _ _ _ (by omega)]
  apply chopRound_nonneg
  apply Int.tdiv_nonneg _ (Int.le_of_lt ht)
  have hP : (0 : Int) ≤ P := by simp [P]
  exact Int.mul_nonneg (Int.mul_nonneg htop (by omega)) hP

/-! ### the truncated time-to-zero -/

/-- `tauVal` unfolded: `⌊ round( ⌊top·T·10^36 / D⌋ / 10^18 ) / 10^18 ⌋` with `D = top − end` -/
theorem tauVal_eq (top endP T : Int) :
    tauVal top endP T = (chopRound ((top * T * PP).tdiv (top - endP))).tdiv P := by
  unfold tauVal Dec.truncateInt Dec.quo Dec.sub
  rw [mul_ofInt]

/-- `top·T < (tau+1)·(top−end)` and `tau·(top−end) ≤ top·T + (top−end)`… the first is what the lower bound needs:
truncation loses less than one second of time-to-zero (the half-even rounding inside `Quo` cannot push it over). -/
theorem tauVal_lt (top endP T : Int) (hD : 0 < top - endP) (hn : 0 ≤ top * T) :
    top * T < (tauVal top endP T + 1) * (top - endP) := by
  rw [tauVal_eq]
  set D := top - endP with hDdef
  have hPP : PP = 1000000000000000000 * 1000000000000000000 := by simp [PP, P]
  have hnum : 0 ≤ top * T * PP := by rw [hPP]; positivity
  set m := (top * T * PP).tdiv D with hm
  have hm' : m = top * T * PP / D := Int.tdiv_eq_ediv_of_nonneg hnum
  have hm0 : 0 ≤ m := by rw [hm']; exact Int.ediv_nonneg hnum (Int.le_of_lt hD)
  have hlt : top * T * PP < (m + 1) * D := by rw [hm']; exact Int.lt_ediv_add_one_mul_self _ hD
  obtain ⟨hq1, _⟩ := chopRound_bounds m hm0
  set q := chopRound m with hq
  have hq0 : 0 ≤ q := chopRound_nonneg m hm0
  rw [Int.tdiv_eq_ediv_of_nonneg hq0]
  set t := q / P with ht
  have hqt : q < (t + 1) * P := Int.lt_ediv_add_one_mul_self q (by simp [P])
  -- 2m ≤ 2Pq + P ≤ 2P((t+1)P − 1) + P  ⇒  m + 1 ≤ (t+1)·PP
  have hPv : P = 1000000000000000000 := by simp [P]
  have h1 : m + 1 ≤ (t + 1) * PP := by
    rw [hPP]; rw [hPv] at hq1 hqt
    nlinarith
  have h2 : (m + 1) * D ≤ (t + 1) * PP * D := Int.mul_le_mul_of_nonneg_right h1 (Int.le_of_lt hD)
  have h3 : top * T * PP < (t + 1) * D * PP := by
    have : (t + 1) * PP * D = (t + 1) * D * PP := by ring
    linarith
  have hPPpos : (0 : Int) < PP := by rw [hPP]; norm_num
  exact lt_of_mul_lt_mul_right h3 (Int.le_of_lt hPPpos)

/-- the window never outlasts the time-to-zero: `T ≤ tau` whenever `0 ≤ end < top` -/
theorem tauVal_ge_T (top endP T : Int) (he : 0 ≤ endP) (hD : 0 < top - endP) (hT : 0 ≤ T) :
    T ≤ tauVal top endP T := by
  rw [tauVal_eq]
  set D := top - endP with hDdef
  have hPv : P = 1000000000000000000 := by simp [P]
  have hPP : PP = 1000000000000000000 * 1000000000000000000 := by simp [PP, P]
  have htop : 0 ≤ top := by omega
  have hnum : 0 ≤ top * T * PP := by rw [hPP]; positivity
  -- ⌊top·T·PP / D⌋ ≥ T·PP because D ≤ top
  have hm : T * PP ≤ (top * T * PP).tdiv D := by
    rw [Int.tdiv_eq_ediv_of_nonneg hnum]
    apply Int.le_ediv_of_mul_le hD
    have : T * PP * D ≤ T * PP * top := by
      apply Int.mul_le_mul_of_nonneg_left (by omega)
      rw [hPP]; positivity
    linarith [this, (by ring : T * PP * top = top * T * PP)]
  have hq : T * P ≤ chopRound ((top * T * PP).tdiv D) := by
    have := chopRound_mono _ _ hm
    have e : T * PP = (T * P) * P := by simp [PP]; ring
    rwa [e, chopRound_exact] at this
  have hq0 : 0 ≤ chopRound ((top * T * PP).tdiv D) := by
    have : 0 ≤ T * P := by rw [hPv]; positivity
    omega
  rw [Int.tdiv_eq_ediv_of_nonneg hq0]
  apply Int.le_ediv_of_mul_le (by simp [P]) hq

/-- **lower bound with explicit slack**: inside the window the price stays above
`end − (top − end)/tau − 1 ulp`, cross-multiplied by `tau`. -/
theorem linearVal_ge_end_slack (top endP T dur : Int) (he : 0 ≤ endP) (hD : 0 < top - endP)
    (hT : 0 < T) (hdT : dur ≤ T) :
    endP * tauVal top endP T - (top - endP) ≤ (linearVal top (tauVal top endP T) dur + 1) * tauVal top endP T := by
  have htop : 0 ≤ top := by omega
  have hTt := tauVal_ge_T top endP T he hD (by omega)
  have hlt := tauVal_lt top endP T hD (by positivity)
  set t := tauVal top endP T with ht
  have htpos : 0 < t := by omega
  rw [linearVal_eq _ _ _ (by omega)]
  have hPv : P = 1000000000000000000 := by simp [P]
  have hn : 0 ≤ top * (t - dur) * P := by
    have : 0 ≤ t - dur := by omega
    rw [hPv]; positivity
  set k := (top * (t - dur) * P).tdiv t with hk
  have hk' : k = top * (t - dur) * P / t := Int.tdiv_eq_ediv_of_nonneg hn
  have hk0 : 0 ≤ k := by rw [hk']; exact Int.ediv_nonneg hn (by omega)
  have hklt : top * (t - dur) * P < (k + 1) * t := by rw [hk']; exact Int.lt_ediv_add_one_mul_self _ htpos
  obtain ⟨hp1, _⟩ := chopRound_bounds k hk0
  set p := chopRound k with hp
  -- top·(t − dur) ≥ top·t − top·T > top·t − (t+1)·D = t·end − D
  have h1 : top * (t - dur) ≥ top * t - top * T := by
    have : top * dur ≤ top * T := Int.mul_le_mul_of_nonneg_left hdT htop
    linarith [(by ring : top * (t - dur) = top * t - top * dur)]
  rw [hPv] at hp1 hklt
  nlinarith

/-! ### the guarded functions return the guard-free values -/

theorem chk_ok {x y : Dec} (h : chk x = .ok y) : y = x := by
  unfold chk at h; split at h
  · cases h; rfl
  · cases h

theorem linear_ok {top : Dec} {tau dur : Int} {p : Dec} (h : linear top tau dur = .ok p) :
    p = linearVal top tau dur ∧ tau ≠ 0 := by
  unfold linear at h
  split at h
  · cases h
  · split at h
    · cases h
    · rename_i ht
      simp only [bind, Except.bind] at h
      split at h
      · cases h
      · rename_i n hn
        have := chk_ok hn
        subst this
        exact ⟨chk_ok h, ht⟩

theorem tau_ok {top endP : Dec} {T t : Int} (h : tau top endP T = .ok t) :
    t = tauVal top endP T ∧ Dec.sub top endP ≠ 0 := by
  unfold tau at h
  split at h
  · cases h
  · rename_i hd
    simp only [bind, Except.bind] at h
    split at h
    · cases h
    · rename_i n hn
      have := chk_ok hn; subst this
      split at h
      · cases h
      · rename_i q hq
        have := chk_ok hq; subst this
        split at h
        · cases h; exact ⟨rfl, hd⟩
        · cases h

theorem priceV1_ok {top endP : Dec} {T dur : Int} {p : Dec} (h : priceV1 top endP T dur = .ok p) :
    p = linearVal top (tauVal top endP T) dur ∧ tauVal top endP T ≠ 0 := by
  unfold priceV1 at h
  simp only [bind, Except.bind] at h
  split at h
  · cases h
  · rename_i t ht
    obtain ⟨e, _⟩ := tau_ok ht
    subst e
    exact linear_ok h

theorem priceV2_ok {top disc : Dec} {T dur : Int} {p : Dec} (h : priceV2 top disc T dur = .ok p) :
    p = linearVal top (tauVal top (Dec.mul top disc) T) dur ∧ tauVal top (Dec.mul top disc) T ≠ 0 := by
  unfold priceV2 at h
  simp only [bind, Except.bind] at h
  split at h
  · cases h
  · rename_i e he
    have : e = Dec.mul top disc := by unfold endPrice at he; exact chk_ok he
    subst this
    exact priceV1_ok (by unfold priceV1; simpa [bind, Except.bind] using h)

end Comdex.DutchPrice
