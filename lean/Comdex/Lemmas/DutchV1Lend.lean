import Mathlib.Tactic.Linarith
import Comdex.Model.DutchV1Lend
import Comdex.Lemmas.DutchV2
/-!
Lemmas for the first-generation lend auction model: plan facts, bank deltas of one bid, ledger / custody invariant.
-/
namespace Comdex.DutchV1Lend
open Comdex Comdex.Dec Comdex.DutchPrice
open Comdex.DutchV2 (Acct Denom Bank send sendPos get_set send_ok sendPos_ok posPart)

structure PlanOK (e : Env) (a : Auc) (p : Plan) : Prop where
  in_nonneg : 0 ≤ p.inAmt
  in_le_tab : p.inAmt ≤ e.target - a.inCur
  slice_nonneg : 0 ≤ p.slice
  slice_le : p.slice ≤ a.outCur
  bonus_nonneg : 0 ≤ p.bonusAmt
  bonus_le : p.bonusAmt * P ≤ p.slice * e.bonus

theorem plan_ok {e : Env} {a : Auc} {slice0 : Int} {p : Plan} (hb : (0 : Int) ≤ e.bonus) (h : plan e a slice0 = .ok p) : PlanOK e a p := by
  unfold plan at h
  split at h
  · cases h
  · split at h
    · cases h
    · split at h
      · cases h
      · rename_i owe0 in0 hc0
        split at h
        · cases h
        · rename_i hin0
          simp only [] at h
          split at h
          · cases h
          · rename_i flag inAmt owe slice hsel
            have hfacts : inAmt ≤ e.target - a.inCur := by
              split at hsel
              · split at hsel
                · cases hsel; omega
                · cases hsel
              · cases hsel; omega
            split at h
            · cases h
            · split at h
              · split at h
                · cases h
                · split at h
                  · cases h
                  · split at h
                    · cases h
                    · rename_i hsl
                      split at h
                      · cases h
                      · split at h
                        · cases h
                        · split at h
                          · cases h
                          · cases h
                            have hsl0 : 0 ≤ slice := by omega
                            have hm : Dec.mul (Dec.ofInt slice) e.bonus = slice * e.bonus := by
                              unfold Dec.mul Dec.ofInt
                              have : slice * P * e.bonus = (slice * e.bonus) * P := by ring
                              rw [this, chopRound_exact]
                            have hn : 0 ≤ slice * e.bonus := Int.mul_nonneg hsl0 hb
                            have ht : Dec.truncateInt (slice * e.bonus) = slice * e.bonus / P := by
                              unfold Dec.truncateInt; exact Int.tdiv_eq_ediv_of_nonneg hn
                            refine ⟨by simp only; omega, by simp only; exact hfacts, by simp only; omega, by simp only; omega, ?_, ?_⟩
                            · simp only; rw [hm, ht]; exact Int.ediv_nonneg hn (by simp [P])
                            · simp only; rw [hm, ht]; exact Int.ediv_mul_le _ (by simp [P])
              · cases h

/-! ### invariant -/

structure Inv (e : Env) (s : St) : Prop where
  paid_nonneg : 0 ≤ s.paid
  bonus_nonneg : 0 ≤ s.bonusPaid
  sold_nonneg : 0 ≤ s.recv - s.bonusPaid
  bonus_le : s.bonusPaid * P ≤ (s.recv - s.bonusPaid) * e.bonus
  debt_custody : s.bank.get .auction .debt = s.otherD
  open_ : ∀ a, s.auc = some a →
      s.paid = a.inCur ∧ a.inCur ≤ e.target ∧ (s.recv - s.bonusPaid) + a.outCur = e.coll0 ∧ 0 ≤ a.outCur ∧
      s.bank.get .auction .coll = s.otherC + a.outCur + (e.deposit - e.coll0 - s.bonusPaid)
  closed : s.auc = none →
      s.paid ≤ e.target ∧ s.recv - s.bonusPaid ≤ e.coll0 ∧
      s.bank.get .auction .coll = s.otherC + (e.deposit - e.coll0 - s.bonusPaid)

/-- one accepted bid: what moves, and the invariant -/
theorem apply_ok {e : Env} {s s' : St} {a : Auc} {who : Nat} {p : Plan} {redep resBal : Int}
    (_hb : (0 : Int) ≤ e.bonus) (hi : Inv e s) (ha : s.auc = some a) (hp : PlanOK e a p) (h : apply e s a who p redep resBal = .ok s') :
    Inv e s' ∧ s'.paid = s.paid + p.inAmt ∧ s'.recv = s.recv + (p.slice + p.bonusAmt) ∧
    s'.bank.get (.bidder who) .debt = s.bank.get (.bidder who) .debt - p.inAmt ∧
    s'.bank.get (.bidder who) .coll = s.bank.get (.bidder who) .coll + (p.slice + p.bonusAmt) ∧
    (∀ n, n ≠ who → s'.bank.get (.bidder n) .coll = s.bank.get (.bidder n) .coll ∧
                    s'.bank.get (.bidder n) .debt = s.bank.get (.bidder n) .debt) ∧
    s'.bank.get .pool .debt = s.bank.get .pool .debt + p.inAmt ∧
    (s'.auc = none → s'.bank.get .owner .coll - s.bank.get .owner .coll = e.coll0 - (s'.recv - s'.bonusPaid)) := by
  obtain ⟨o1, o2, o3, o4, o5⟩ := hi.open_ a ha
  have hin := hp.in_le_tab
  have hsl := hp.slice_le
  have hin0 := hp.in_nonneg
  have hsl0 := hp.slice_nonneg
  have hb0 := hp.bonus_nonneg
  have hp0 := hi.paid_nonneg
  have hbl : (s.bonusPaid + p.bonusAmt) * P ≤ (s.recv + (p.slice + p.bonusAmt) - (s.bonusPaid + p.bonusAmt)) * e.bonus := by
    have h1 := hi.bonus_le
    have h2 := hp.bonus_le
    have : (s.recv + (p.slice + p.bonusAmt) - (s.bonusPaid + p.bonusAmt)) * e.bonus = (s.recv - s.bonusPaid) * e.bonus + p.slice * e.bonus := by ring
    rw [this]; linarith [(by ring : (s.bonusPaid + p.bonusAmt) * P = s.bonusPaid * P + p.bonusAmt * P)]
  unfold apply at h
  split at h
  · cases h
  · rename_i b1 hb1
    obtain ⟨_, _, d1⟩ := send_ok hb1 (by simp)
    split at h
    · cases h
    · rename_i b2 hb2
      obtain ⟨_, _, d2⟩ := send_ok hb2 (by decide)
      simp only [] at h
      split at h
      · -- target reached
        split at h
        · cases h
        · rename_i b3 hb3
          have d3 := sendPos_ok hb3 (by decide)
          rw [DutchV2.posPart_of_nonneg (by omega : 0 ≤ a.outCur - p.slice)] at d3
          split at h
          · cases h
          · rename_i b4 hb4
            obtain ⟨_, _, d4⟩ := send_ok hb4 (by simp)
            split at h
            · cases h
            · rename_i hrd
              split at h
              · cases h
              · rename_i b5 hb5
                have d5 := sendPos_ok hb5 (by decide)
                rw [DutchV2.posPart_of_nonneg (by omega : 0 ≤ redep)] at d5
                cases h
                refine ⟨⟨by simp only; omega, by simp only; have := hi.bonus_nonneg; omega, by simp only; have := hi.sold_nonneg; omega,
                    by simp only; exact hbl, ?_, ?_, ?_⟩, rfl, rfl, ?_, ?_, ?_, ?_, ?_⟩
                · simp only; rw [d5, d4, d3, d2, d1]; simp; exact hi.debt_custody
                · intro a' ha'; simp at ha'
                · intro _
                  refine ⟨by simp only; omega, by simp only; omega, ?_⟩
                  simp only; rw [d5, d4, d3, d2, d1]; simp; omega
                · simp only; rw [d5, d4, d3, d2, d1]; simp
                · simp only; rw [d5, d4, d3, d2, d1]; simp
                · intro n hn; simp only; rw [d5, d4, d3, d2, d1, d5, d4, d3, d2, d1]; simp [hn]
                · simp only; rw [d5, d4, d3, d2, d1]; simp
                · intro _; simp only; rw [d5, d4, d3, d2, d1]; simp; omega
      · split at h
        · -- sold out
          rename_i hzero
          split at h
          · cases h
          · split at h
            · cases h
            · rename_i b3 hb3
              obtain ⟨_, _, d3⟩ := send_ok hb3 (by simp)
              split at h
              · cases h
              · rename_i hrd
                split at h
                · cases h
                · rename_i b4 hb4
                  have d4 := sendPos_ok hb4 (by decide)
                  rw [DutchV2.posPart_of_nonneg (by omega : 0 ≤ redep)] at d4
                  cases h
                  refine ⟨⟨by simp only; omega, by simp only; have := hi.bonus_nonneg; omega, by simp only; have := hi.sold_nonneg; omega,
                      by simp only; exact hbl, ?_, ?_, ?_⟩, rfl, rfl, ?_, ?_, ?_, ?_, ?_⟩
                  · simp only; rw [d4, d3, d2, d1]; simp; exact hi.debt_custody
                  · intro a' ha'; simp at ha'
                  · intro _
                    refine ⟨by simp only; omega, by simp only; omega, ?_⟩
                    simp only; rw [d4, d3, d2, d1]; simp; omega
                  · simp only; rw [d4, d3, d2, d1]; simp
                  · simp only; rw [d4, d3, d2, d1]; simp
                  · intro n hn; simp only; rw [d4, d3, d2, d1, d4, d3, d2, d1]; simp [hn]
                  · simp only; rw [d4, d3, d2, d1]; simp
                  · intro _; simp only; rw [d4, d3, d2, d1]; simp; omega
        · -- stays open
          split at h
          · cases h
          · rename_i b3 hb3
            obtain ⟨_, _, d3⟩ := send_ok hb3 (by simp)
            cases h
            refine ⟨⟨by simp only; omega, by simp only; have := hi.bonus_nonneg; omega, by simp only; have := hi.sold_nonneg; omega,
                by simp only; exact hbl, ?_, ?_, ?_⟩, rfl, rfl, ?_, ?_, ?_, ?_, ?_⟩
            · simp only; rw [d3, d2, d1]; simp; exact hi.debt_custody
            · intro a' ha'
              simp only [Option.some.injEq] at ha'
              subst ha'
              simp only
              refine ⟨by omega, by omega, by omega, by omega, ?_⟩
              rw [d3, d2, d1]; simp; omega
            · intro hn; simp at hn
            · simp only; rw [d3, d2, d1]; simp
            · simp only; rw [d3, d2, d1]; simp
            · intro n hn; simp only; rw [d3, d2, d1, d3, d2, d1]; simp [hn]
            · simp only; rw [d3, d2, d1]; simp
            · intro hn; simp at hn

theorem bidE_inv {e : Env} {s s' : St} {who : Nat} {sl redep resBal : Int} (hb : (0 : Int) ≤ e.bonus) (hi : Inv e s)
    (h : bidE e s who sl redep resBal = .ok s') : Inv e s' := by
  unfold bidE at h
  split at h
  · cases h
  · rename_i a ha
    split at h
    · rename_i p hp
      exact (apply_ok hb hi ha (plan_ok hb hp) h).1
    · cases h

theorem iterate_fields {e : Env} {a a' : Auc} {now twaC twaD : Int} {actC actD : Bool}
    (h : iterate e a now twaC actC twaD actD = .ok a') : a'.outCur = a.outCur ∧ a'.inCur = a.inCur := by
  unfold iterate at h
  simp only [bind, Except.bind, pure, Except.pure] at h
  split at h
  · cases h
  · split at h
    · cases h
    · split at h
      · split at h
        · cases h
        · split at h
          · cases h
          · split at h
            · cases h
            · cases h; exact ⟨rfl, rfl⟩
      · cases h; exact ⟨rfl, rfl⟩

theorem step_inv {e : Env} {s : St} (hb : (0 : Int) ≤ e.bonus) (op : Op) (hi : Inv e s) : Inv e (step e s op) := by
  cases op with
  | bid who sl redep resBal =>
    simp only [step]
    split
    · rename_i s' hs'; exact bidE_inv hb hi hs'
    · exact hi
  | tick now twaC actC twaD actD =>
    simp only [step]
    split
    · exact hi
    · rename_i a ha
      split
      · rename_i a' ha'
        obtain ⟨i1, i2⟩ := iterate_fields ha'
        obtain ⟨o1, o2, o3, o4, o5⟩ := hi.open_ a ha
        refine ⟨hi.paid_nonneg, hi.bonus_nonneg, hi.sold_nonneg, hi.bonus_le, hi.debt_custody, ?_, ?_⟩
        · intro a'' h''
          simp only [Option.some.injEq] at h''
          subst h''
          simp only
          rw [i1, i2]
          exact ⟨o1, o2, o3, o4, o5⟩
        · intro hn; simp at hn
      · exact hi

theorem run_inv {e : Env} (hb : (0 : Int) ≤ e.bonus) (ops : List Op) (s : St) (hi : Inv e s) : Inv e (run e s ops) := by
  induction ops generalizing s with
  | nil => exact hi
  | cons op ops ih =>
    simp only [run, List.foldl_cons]
    exact ih _ (step_inv hb op hi)

end Comdex.DutchV1Lend
