import Comdex.Lemmas.LiqSolvent
/-!
Order-level facts of the liquidity ledger model used by C07: what `FinishOrder` moves, that cancellation succeeds,
that cancelling market-making orders reaches every indexed order (repaired lookup), and the frame of the pool-coin
supply (C04).  Core Lean only.
-/
namespace Comdex.LiqLedger

theorem isO_mod (k : OKey) (st : OStatus) (r f : Nat) (x : Order) :
    isO k { x with status := st, refunded := r, feeFwd := f } = isO k x := rfl

theorem isO_disjoint {k k' : OKey} (hne : k ≠ k') (x : Order) (h : isO k x = true) : isO k' x = false := by
  obtain ⟨h1, h2, h3⟩ := isO_true h
  cases hk : isO k' x with
  | false => rfl
  | true =>
    obtain ⟨g1, g2, g3⟩ := isO_true hk
    exfalso; apply hne
    obtain ⟨a, b, c⟩ := k
    obtain ⟨a', b', c'⟩ := k'
    simp only at h1 h2 h3 g1 g2 g3
    simp only [Prod.mk.injEq]
    exact ⟨h1.symm.trans g1, h2.symm.trans g2, h3.symm.trans g3⟩

/-- what `FinishOrder` does to the order list -/
theorem finishOrder_orders {cfg : Cfg} {s s' : State} {k : OKey} {st : OStatus} (h : finishOrder cfg s k st = some s') :
    ∃ o, s.order? k = some o ∧
      ((o.status.live = false ∧ s' = s) ∨
       (o.status.live = true ∧ ∃ r f,
          s'.orders = modBy (isO k) (fun o' => { o' with status := st, refunded := r, feeFwd := f }) s.orders)) := by
  unfold finishOrder at h
  split at h; · cases h
  rename_i o ho
  refine ⟨o, ho, ?_⟩
  split at h
  · rename_i hl
    cases h
    exact Or.inl ⟨by simpa using hl, rfl⟩
  rename_i hl
  split at h; · cases h
  rename_i ac hac
  simp only [] at h
  split at h; · cases h
  rename_i s1 h1
  split at h; · cases h
  rename_i s2 h2
  cases h
  refine Or.inr ⟨by simpa using hl, (settle ac.feeRate o).1, (settle ac.feeRate o).2, ?_⟩
  show modBy _ _ s2.orders = _
  rw [(State.send_fields h2).2.2.2.2.1, (State.send_fields h1).2.2.2.2.1]

/-- after `FinishOrder` with an ending status the order under that key is not live, and no other key's order
changed -/
theorem finishOrder_lookup {cfg : Cfg} {s s' : State} {k : OKey} {st : OStatus} (hst : st.live = false)
    (h : finishOrder cfg s k st = some s') :
    (∀ o', s'.order? k = some o' → o'.status.live = false) ∧
    (∀ k', k' ≠ k → s'.order? k' = s.order? k') := by
  obtain ⟨o, ho, hc⟩ := finishOrder_orders h
  rcases hc with ⟨hl, he⟩ | ⟨hl, r, f, he⟩
  · subst he
    exact ⟨fun o' ho' => by rw [ho] at ho'; cases ho'; exact hl, fun _ _ => rfl⟩
  · refine ⟨fun o' ho' => ?_, fun k' hne => ?_⟩
    · simp only [State.order?, he] at ho'
      rw [findBy_modBy_same (fun x => isO_mod k st r f x)] at ho'
      cases hx : findBy (isO k) s.orders with
      | none => simp [hx] at ho'
      | some x => simp [hx] at ho'; rw [← ho']; exact hst
    · simp only [State.order?, he]
      exact findBy_modBy_other (fun x => isO_mod k' st r f x) (fun x hx => isO_disjoint (Ne.symm hne) x hx)

/-- "not live" at a key is never undone by `FinishOrder` -/
theorem finishOrder_mono {cfg : Cfg} {s s' : State} {k k' : OKey} {st : OStatus} (hst : st.live = false)
    (h : finishOrder cfg s k st = some s') (hk : ∀ o, s.order? k' = some o → o.status.live = false) :
    ∀ o, s'.order? k' = some o → o.status.live = false := by
  obtain ⟨h1, h2⟩ := finishOrder_lookup hst h
  by_cases he : k' = k
  · subst he; exact h1
  · rw [h2 k' he]; exact hk

/-! ### `FinishOrder` moves exactly the refund and the fee -/

theorem finishOrder_moves {cfg : Cfg} {s s' : State} {k : OKey} {st : OStatus} {o : Order}
    (ho : s.order? k = some o) (hl : o.status.live = true) (hle : o.remaining ≤ o.offer)
    (h : finishOrder cfg s k st = some s') :
    let r := rateOf cfg o.app
    s'.bal (.user o.owner) o.od = s.bal (.user o.owner) o.od + (o.remaining + (feeRes r o - fwdSpec r o)) ∧
    s'.bal (.swapFee o.app o.pair) o.od = s.bal (.swapFee o.app o.pair) o.od + fwdSpec r o ∧
    s'.bal (.pairEscrow o.app o.pair) o.od + (o.remaining + feeRes r o) = s.bal (.pairEscrow o.app o.pair) o.od := by
  unfold finishOrder at h
  rw [ho] at h
  simp only [hl, Bool.not_true, Bool.false_eq_true, if_false] at h
  split at h; · cases h
  rename_i ac hac
  split at h; · cases h
  rename_i s1 h1
  split at h; · cases h
  rename_i s2 h2
  cases h
  obtain ⟨le1, -, b1⟩ := State.send_some (by simp) h1
  obtain ⟨le2, -, b2⟩ := State.send_some (by simp) h2
  have hsp := settle_spec ac.feeRate o hle
  have htot := settle_total ac.feeRate o hle
  have hr := rateOf_of_app hac
  simp only [hr, fwdSpec]
  have e1 : (settle ac.feeRate o).1 = o.remaining + (feeRes ac.feeRate o - if o.typ = .mm then 0 else feeOf ac.feeRate (o.offer - o.remaining)) := by
    rw [hsp]
  have e2 : (settle ac.feeRate o).2 = if o.typ = .mm then 0 else feeOf ac.feeRate (o.offer - o.remaining) := by
    rw [hsp]
  refine ⟨?_, ?_, ?_⟩
  · show s2.bal _ _ = _
    have x : s2.bal (.user o.owner) o.od = s1.bal (.user o.owner) o.od := by rw [b2]; simp
    have y : s1.bal (.user o.owner) o.od = s.bal (.user o.owner) o.od + (settle ac.feeRate o).1 := by rw [b1]; simp
    rw [x, y, e1]
  · show s2.bal _ _ = _
    have x : s2.bal (.swapFee o.app o.pair) o.od = s1.bal (.swapFee o.app o.pair) o.od + (settle ac.feeRate o).2 := by rw [b2]; simp
    have y : s1.bal (.swapFee o.app o.pair) o.od = s.bal (.swapFee o.app o.pair) o.od := by rw [b1]; simp
    rw [x, y, e2]
  · show s2.bal _ _ + _ = _
    have x1 : s1.bal (.pairEscrow o.app o.pair) o.od = s.bal (.pairEscrow o.app o.pair) o.od - (settle ac.feeRate o).1 := by
      rw [b1]; simp
    have x2 : s2.bal (.pairEscrow o.app o.pair) o.od = s1.bal (.pairEscrow o.app o.pair) o.od - (settle ac.feeRate o).2 := by
      rw [b2]; simp
    rw [x1] at le2 x2
    rw [x2]
    omega

/-! ### cancellation succeeds -/

theorem liveTerm_le_liveSum {cfg : Cfg} {s : State} {k : OKey} {o : Order} (ho : s.order? k = some o) (hl : o.status.live = true) :
    o.remaining + feeRes (rateOf cfg o.app) o ≤ liveSum cfg o.app o.pair o.od s.orders := by
  have hm := (order?_some ho).1
  have := sumOver_le_of_mem (liveTerm cfg o.app o.pair o.od) hm
  unfold liveSum
  simpa [liveTerm, hl] using this

theorem finishOrder_succeeds {cfg : Cfg} {s : State} {k : OKey} {o : Order} {ac : AppCfg} (st : OStatus)
    (hi : Inv cfg s) (hs : s.bal (.mOut o.app o.pair) o.od ≤ s.bal (.mIn o.app o.pair) o.od)
    (ho : s.order? k = some o) (hl : o.status.live = true) (hac : cfg.app? o.app = some ac) :
    ∃ s', finishOrder cfg s k st = some s' := by
  have hok := hi.ords o (order?_some ho).1
  have hge : liveSum cfg o.app o.pair o.od s.orders ≤ s.bal (.pairEscrow o.app o.pair) o.od := by
    have := hi.pairEsc o.app o.pair o.od
    omega
  have hterm := liveTerm_le_liveSum (cfg := cfg) ho hl
  have htot := settle_total ac.feeRate o hok.2.1
  rw [rateOf_of_app hac] at hterm
  unfold finishOrder
  rw [ho]
  simp only [hl, Bool.not_true, Bool.false_eq_true, if_false, hac]
  have le1 : (settle ac.feeRate o).1 ≤ s.bal (.pairEscrow o.app o.pair) o.od := by omega
  obtain ⟨s1, h1⟩ := State.send_isSome (t := .user o.owner) le1
  obtain ⟨-, -, b1⟩ := State.send_some (by simp) h1
  have x1 : s1.bal (.pairEscrow o.app o.pair) o.od = s.bal (.pairEscrow o.app o.pair) o.od - (settle ac.feeRate o).1 := by
    rw [b1]; simp
  have le2 : (settle ac.feeRate o).2 ≤ s1.bal (.pairEscrow o.app o.pair) o.od := by rw [x1]; omega
  obtain ⟨s2, h2⟩ := State.send_isSome (t := .swapFee o.app o.pair) le2
  simp only [h1, h2]
  exact ⟨_, rfl⟩

/-- An order that is not in its placement batch can be cancelled by its owner (given solvent matching flows). -/
theorem cancelOrder_succeeds {cfg : Cfg} {s : State} {a u p i : Nat} {o : Order} {pp : Pair} {ac : AppCfg}
    (hi : Inv cfg s) (hs : ∀ d, s.bal (.mOut a p) d ≤ s.bal (.mIn a p) d) (hp0 : p ≠ 0) (hi0 : i ≠ 0) (hac : cfg.app? a = some ac)
    (ho : s.order? (a, p, i) = some o) (hown : o.owner = u) (hl : o.status.live = true)
    (hpp : s.pair? a p = some pp) (hb : o.batch ≠ pp.curBatch) :
    ∃ s', cancelOrder cfg s a u p i = some s' ∧
      (∀ o', s'.order? (a, p, i) = some o' → o'.status = .canceled) ∧
      s'.bal (.user u) o.od = s.bal (.user u) o.od + (o.remaining + (feeRes ac.feeRate o - fwdSpec ac.feeRate o)) := by
  obtain ⟨-, hoa, hop, -⟩ := order?_some ho
  simp only at hoa hop
  have hac' : cfg.app? o.app = some ac := by rw [hoa]; exact hac
  obtain ⟨s', hf⟩ := finishOrder_succeeds .canceled hi (by rw [hoa, hop]; exact hs o.od) ho hl hac'
  have hnc : o.status ≠ .canceled := by intro e; rw [e] at hl; simp [OStatus.live] at hl
  refine ⟨s', ?_, ?_, ?_⟩
  · unfold cancelOrder
    simp [hp0, hi0, hac, ho, hown, hnc, hpp, hb, hf]
  · intro o' ho'
    obtain ⟨o2, ho2, hc⟩ := finishOrder_orders hf
    rw [ho] at ho2; cases ho2
    rcases hc with ⟨hl', -⟩ | ⟨-, r, f, he⟩
    · rw [hl] at hl'; cases hl'
    · simp only [State.order?, he] at ho'
      rw [findBy_modBy_same (fun x => isO_mod _ _ r f x)] at ho'
      cases hx : findBy (isO (a, p, i)) s.orders with
      | none => simp [hx] at ho'
      | some x => simp [hx] at ho'; rw [← ho']
  · have hok := hi.ords o (order?_some ho).1
    have := (finishOrder_moves ho hl hok.2.1 hf).1
    simp only [rateOf_of_app hac'] at this
    rw [← hown]; exact this


/-! ### cancel-all reaches every old order of the owner in the named pairs, whatever the pair ids -/

theorem pairs_finishOrder {cfg : Cfg} {s s' : State} {k : OKey} {st : OStatus} (h : finishOrder cfg s k st = some s') :
    s'.pairs = s.pairs := by
  unfold finishOrder at h
  split at h; · cases h
  split at h; · cases h; rfl
  split at h; · cases h
  simp only [] at h
  split at h; · cases h
  rename_i s1 h1
  split at h; · cases h
  rename_i s2 h2
  cases h
  show s2.pairs = _
  rw [(State.send_fields h2).1, (State.send_fields h1).1]

/-- the orders `MsgCancelAllOrders(app, user, pairs)` addresses -/
def addressed (app user : Nat) (pairs : List Nat) (o : Order) : Prop :=
  o.app = app ∧ o.owner = user ∧ (pairs = [] ∨ o.pair ∈ pairs)

/-- one step of the cancel-all loop: pairs untouched; the lookup under every OTHER key untouched; under its own key an
addressed live order of an earlier batch is ended, anything else is left as it is -/
theorem cancelAllStep_spec {cfg : Cfg} {app user : Nat} {pairs : List Nat} {s s' : State} {k : OKey}
    (h : cancelAllStep cfg app user pairs s k = some s') :
    s'.pairs = s.pairs ∧ (∀ k', k' ≠ k → s'.order? k' = s.order? k') ∧
    (∀ o pp, s.order? k = some o → addressed app user pairs o → s.pair? app o.pair = some pp → o.status.live = true →
      o.batch < pp.curBatch → ∀ o', s'.order? k = some o' → o'.status.live = false) ∧
    (∀ o pp, s.order? k = some o → s.pair? app o.pair = some pp → ¬ o.batch < pp.curBatch → s' = s) := by
  unfold cancelAllStep at h
  split at h
  · rename_i hn
    cases h
    refine ⟨rfl, fun _ _ => rfl, ?_, ?_⟩
    · intro o pp ho; rw [hn] at ho; cases ho
    · intro o pp ho; rw [hn] at ho; cases ho
  · rename_i o0 ho0
    split at h
    · rename_i haddr
      split at h
      · rename_i hpn
        cases h
        refine ⟨rfl, fun _ _ => rfl, ?_, fun _ _ _ _ _ => rfl⟩
        intro o pp ho _ hp
        rw [ho0] at ho; cases ho
        rw [hpn] at hp; cases hp
      · rename_i p0 hp0
        split at h
        · rename_i hc
          obtain ⟨l1, l2⟩ := finishOrder_lookup (st := .canceled) rfl h
          refine ⟨pairs_finishOrder h, l2, fun o pp ho _ _ _ _ => l1, ?_⟩
          intro o pp ho hp hnb
          rw [ho0] at ho; cases ho
          rw [hp0] at hp; cases hp
          exact absurd hc.2 hnb
        · rename_i hc
          cases h
          refine ⟨rfl, fun _ _ => rfl, ?_, fun _ _ _ _ _ => rfl⟩
          intro o pp ho _ hp hl hb
          rw [ho0] at ho; cases ho
          rw [hp0] at hp; cases hp
          exfalso; apply hc
          refine ⟨?_, hb⟩
          intro e; rw [e] at hl; simp [OStatus.live] at hl
    · rename_i hna
      cases h
      refine ⟨rfl, fun _ _ => rfl, ?_, fun _ _ _ _ _ => rfl⟩
      intro o pp ho ha
      rw [ho0] at ho; cases ho
      exact absurd ha hna

theorem cancelAll_fold {cfg : Cfg} {app user : Nat} {pairs : List Nat} (k : OKey) :
    ∀ (l : List OKey) (s s' : State), foldOpt (cancelAllStep cfg app user pairs) s l = some s' →
      s'.pairs = s.pairs ∧
      -- an addressed live old order under key k is ended if k is in the list (or was already not live)
      (∀ o pp, s.order? k = some o → addressed app user pairs o → s.pair? app o.pair = some pp → o.status.live = true →
        o.batch < pp.curBatch → k ∈ l → ∀ o', s'.order? k = some o' → o'.status.live = false) ∧
      -- an order that is still in its placement batch is not touched
      (∀ o pp, s.order? k = some o → s.pair? app o.pair = some pp → ¬ o.batch < pp.curBatch → s'.order? k = some o) ∧
      -- "not live" under k is never undone
      ((∀ o, s.order? k = some o → o.status.live = false) → ∀ o', s'.order? k = some o' → o'.status.live = false) := by
  intro l
  induction l with
  | nil =>
    intro s s' h
    simp [foldOpt] at h; subst h
    refine ⟨rfl, ?_, fun _ _ ho _ _ => ho, fun hh => hh⟩
    intro o pp _ _ _ _ _ hk
    cases hk
  | cons k1 t ih =>
    intro s s' h
    simp only [foldOpt] at h
    cases hx : cancelAllStep cfg app user pairs s k1 with
    | none => simp [hx] at h
    | some s1 =>
      simp [hx] at h
      obtain ⟨p1, oth1, own1, keep1⟩ := cancelAllStep_spec hx
      obtain ⟨p2, a2, b2, c2⟩ := ih s1 s' h
      have pair1 : ∀ a p, s1.pair? a p = s.pair? a p := by intro a p; simp [State.pair?, p1]
      refine ⟨p2.trans p1, ?_, ?_, ?_⟩
      · intro o pp ho ha hp hl hb hk o' ho'
        by_cases hk1 : k = k1
        · subst hk1
          exact c2 (own1 o pp ho ha hp hl hb) o' ho'
        · have hkt : k ∈ t := by
            rcases List.mem_cons.mp hk with e | e
            · exact absurd e hk1
            · exact e
          have ho1 : s1.order? k = some o := by rw [oth1 k hk1]; exact ho
          exact a2 o pp ho1 ha (by rw [pair1]; exact hp) hl hb hkt o' ho'
      · intro o pp ho hp hnb
        have ho1 : s1.order? k = some o := by
          by_cases hk1 : k = k1
          · subst hk1
            rw [keep1 o pp ho hp hnb]; exact ho
          · rw [oth1 k hk1]; exact ho
        exact b2 o pp ho1 (by rw [pair1]; exact hp) hnb
      · intro hh o' ho'
        apply c2 _ o' ho'
        intro o1 ho1
        by_cases hk1 : k = k1
        · subst hk1
          -- the step on k itself: either unchanged or ended
          unfold cancelAllStep at hx
          split at hx
          · cases hx; exact hh o1 ho1
          · split at hx
            · split at hx
              · cases hx; exact hh o1 ho1
              · split at hx
                · exact finishOrder_mono rfl hx hh o1 ho1
                · cases hx; exact hh o1 ho1
            · cases hx; exact hh o1 ho1
        · rw [oth1 k hk1] at ho1; exact hh o1 ho1

/-- **`MsgCancelAllOrders` ends every old order it addresses — in every pair, whatever the order of pair ids — and touches
no order that is still in its placement batch.** -/
theorem cancelAll_all {cfg : Cfg} {s s' : State} {app user : Nat} {pairs : List Nat}
    (h : cancelAll cfg s app user pairs = some s') (k : OKey) (o : Order) (pp : Pair)
    (ho : s.order? k = some o) (hp : s.pair? app o.pair = some pp) :
    (addressed app user pairs o → o.status.live = true → o.batch < pp.curBatch →
      ∀ o', s'.order? k = some o' → o'.status.live = false) ∧
    (¬ o.batch < pp.curBatch → s'.order? k = some o) := by
  unfold cancelAll at h
  split at h; · cases h
  split at h; · cases h
  split at h; · cases h
  obtain ⟨-, a, b, -⟩ := cancelAll_fold k _ _ _ h
  refine ⟨fun ha hl hb => a o pp ho ha hp hl hb ?_, fun hnb => b o pp ho hp hnb⟩
  have hm := (order?_some ho).1
  have hk : o.key = k := by
    obtain ⟨-, h1, h2, h3⟩ := order?_some ho
    obtain ⟨x, y, z⟩ := k
    simp only [Order.key] at *
    simp [h1, h2, h3]
  rw [← hk]
  exact List.mem_map.mpr ⟨o, hm, rfl⟩

/-! ### placement takes exactly offer + fee reserve -/

theorem placeOrder_takes {cfg : Cfg} {s s' : State} {app user pair : Nat} {typ : OType} {buy : Bool}
    {msgOffer msgPrice price amount : Nat} {lifespan : Int} {ext : Bool}
    (h : placeOrder cfg s app user pair typ buy msgOffer msgPrice price amount lifespan ext = some s') :
    ∃ p ac o, s.pair? app pair = some p ∧ cfg.app? app = some ac ∧
      s'.orders = s.orders ++ [o] ∧ o.app = app ∧ o.pair = pair ∧ o.owner = user ∧ o.od = sideIn p buy ∧
      o.offer = offerAmt buy price amount ∧ o.remaining = o.offer ∧ o.status = .notExecuted ∧ o.batch = p.curBatch ∧
      o.taken = o.offer + feeOf ac.feeRate o.offer ∧
      s.bal (.user user) o.od = s'.bal (.user user) o.od + o.taken ∧
      s'.bal (.pairEscrow app pair) o.od = s.bal (.pairEscrow app pair) o.od + o.taken := by
  unfold placeOrder at h
  split at h; · cases h
  split at h; · cases h
  split at h; · cases h
  split at h; · cases h
  rename_i ac hac
  split at h; · cases h
  rename_i p hp
  simp only [] at h
  split at h; · cases h
  split at h; · cases h
  split at h; · cases h
  split at h; · cases h
  split at h; · cases h
  split at h; · cases h
  rename_i s1 h1
  cases h
  obtain ⟨-, hpa, hpi⟩ := pair?_some hp
  obtain ⟨le1, -, b1⟩ := State.send_some (by simp) h1
  refine ⟨p, ac, newOrder p (p.lastOrderId + 1) user typ buy price amount (offerAmt buy price amount)
      (offerAmt buy price amount + feeOf ac.feeRate (offerAmt buy price amount)) (s.now + lifespan),
    hp, hac, ?_, hpa, hpi, rfl, rfl, rfl, rfl, rfl, rfl, rfl, ?_, ?_⟩
  · show s1.orders ++ _ = _
    rw [(State.send_fields h1).2.2.2.2.1]
  · show s.bal _ (sideIn p buy) = s1.bal _ (sideIn p buy) + _
    rw [b1]; simp [newOrder]; omega
  · show s1.bal _ (sideIn p buy) = _
    rw [b1]; simp [newOrder]

/-- a successful placement passed the stateless validations -/
theorem placeOrder_ext {cfg : Cfg} {s s' : State} {app user pair : Nat} {typ : OType} {buy : Bool}
    {msgOffer msgPrice price amount : Nat} {lifespan : Int} {ext : Bool}
    (h : placeOrder cfg s app user pair typ buy msgOffer msgPrice price amount lifespan ext = some s') : ext = true := by
  unfold placeOrder at h
  split at h; · cases h
  split at h; · cases h
  split at h; · cases h
  split at h; · cases h
  split at h; · cases h
  simp only [] at h
  split at h; · cases h
  split at h; · cases h
  split at h
  · cases h
  · rename_i he; simpa using he

/-- the delivered message: the order's price is the one the model computes from the pair's last price and the tick grid, its
offer denom is the message's offer denom (= the pair's quote / base coin), and exactly offer + fee reserve is taken -/
theorem placeOrderMsg_takes {cfg : Cfg} {s s' : State} {app user pair : Nat} {typ : OType} {buy : Bool} {od dd : Denom}
    {msgOffer msgPrice amount : Nat} {lifespan : Int}
    (h : step cfg s (.order app user pair typ buy od dd msgOffer msgPrice amount lifespan) = some s') :
    ∃ p ac o price, s.pair? app pair = some p ∧ cfg.app? app = some ac ∧ orderPrice ac p typ buy msgPrice = some price ∧
      s'.orders = s.orders ++ [o] ∧ o.app = app ∧ o.pair = pair ∧ o.owner = user ∧ o.od = sideIn p buy ∧ o.od = od ∧
      o.offer = offerAmt buy price amount ∧ o.remaining = o.offer ∧ o.status = .notExecuted ∧ o.batch = p.curBatch ∧
      o.taken = o.offer + feeOf ac.feeRate o.offer ∧
      s.bal (.user user) o.od = s'.bal (.user user) o.od + o.taken ∧
      s'.bal (.pairEscrow app pair) o.od = s.bal (.pairEscrow app pair) o.od + o.taken := by
  simp only [step] at h
  unfold placeOrderMsg at h
  split at h; · cases h
  rename_i ac hac
  split at h; · cases h
  rename_i p hp
  split at h; · cases h
  rename_i price hpr
  have hext := placeOrder_ext h
  obtain ⟨p', ac', o, hp', hac', r⟩ := placeOrder_takes h
  rw [hp] at hp'; cases hp'
  rw [hac] at hac'; cases hac'
  obtain ⟨h1, h2, h3, h4, h5, rest⟩ := r
  have hod : od = sideIn p buy := by
    exact (of_decide_eq_true hext).1
  exact ⟨p, ac, o, price, hp, hac, hpr, h1, h2, h3, h4, h5, h5.trans hod.symm, rest⟩

/-! ### cancelling market-making orders reaches every indexed order (repaired lookup) -/

theorem cancelMMStep_done {cfg : Cfg} (hsw : cfg.swapLookup = false) {app : Nat} {p : Pair} {s s' : State} {id : Nat}
    (h : cancelMMStep cfg app p s id = some s') :
    (∀ o, s'.order? (app, p.id, id) = some o → o.status.live = false) ∧
    (∀ k', (∀ o, s.order? k' = some o → o.status.live = false) → ∀ o, s'.order? k' = some o → o.status.live = false) := by
  unfold cancelMMStep at h
  have hk : mmKey cfg app p.id id = (app, p.id, id) := by simp [mmKey, hsw]
  rw [hk] at h
  split at h
  · rename_i hn
    cases h
    exact ⟨fun o ho => (by rw [hn] at ho; cases ho), fun _ hh => hh⟩
  · rename_i o ho
    split at h; · cases h
    split at h
    · exact ⟨(finishOrder_lookup rfl h).1, fun k' hh => finishOrder_mono rfl h hh⟩
    · rename_i hl
      cases h
      refine ⟨fun o' ho' => ?_, fun _ hh => hh⟩
      rw [ho] at ho'
      cases ho'
      simpa using hl

theorem cancelMM_fold_done {cfg : Cfg} (hsw : cfg.swapLookup = false) {app : Nat} {p : Pair} :
    ∀ (ids : List Nat) (s s' : State), foldOpt (cancelMMStep cfg app p) s ids = some s' →
      (∀ i ∈ ids, ∀ o, s'.order? (app, p.id, i) = some o → o.status.live = false) ∧
      (∀ k', (∀ o, s.order? k' = some o → o.status.live = false) → ∀ o, s'.order? k' = some o → o.status.live = false) := by
  intro ids
  induction ids with
  | nil => intro s s' h; simp [foldOpt] at h; subst h; exact ⟨fun i hi => (by cases hi), fun _ hh => hh⟩
  | cons i t ih =>
    intro s s' h
    simp only [foldOpt] at h
    cases hx : cancelMMStep cfg app p s i with
    | none => simp [hx] at h
    | some s1 =>
      simp [hx] at h
      obtain ⟨d1, m1⟩ := cancelMMStep_done hsw hx
      obtain ⟨d2, m2⟩ := ih s1 s' h
      refine ⟨fun j hj => ?_, fun k' hh => m2 k' (m1 k' hh)⟩
      simp only [List.mem_cons] at hj
      rcases hj with rfl | hj
      · exact m2 _ d1
      · exact d2 j hj

theorem findBy_filter_not {α : Type} (p : α → Bool) (l : List α) : findBy p (l.filter fun x => !p x) = none := by
  induction l with
  | nil => rfl
  | cons x t ih =>
    by_cases hx : p x = true
    · simp [List.filter, hx, ih]
    · have : p x = false := by simpa using hx
      simp [List.filter, this, findBy, ih]

/-- `cancelMMOrder` with the repaired lookup: every order listed in the owner's index for this (app, pair) — for
any app id and pair id — is ended, and the index is gone. -/
theorem cancelMMCore_all {cfg : Cfg} (hsw : cfg.swapLookup = false) {s s' : State} {app user : Nat} {p : Pair} {skip : Bool}
    {idx : MMIndex} (hidx : findBy (isMM app p.id user) s.mm = some idx)
    (h : cancelMMCore cfg s app user p skip = some s') :
    (∀ i ∈ idx.ids, ∀ o, s'.order? (app, p.id, i) = some o → o.status.live = false) ∧
    findBy (isMM app p.id user) s'.mm = none := by
  unfold cancelMMCore at h
  rw [hidx] at h
  simp only at h
  split at h; · cases h
  rename_i s1 h1
  cases h
  refine ⟨(cancelMM_fold_done hsw _ _ _ h1).1, ?_⟩
  exact findBy_filter_not _ _

/-! ### pool-coin supply frame -/

/-- recorded pool-coin supply of pool (a, pl); 0 if the pool does not exist -/
def supply (s : State) (a pl : Nat) : Nat := ((s.pool? a pl).map (·.ps)).getD 0

/-- the operations that may change the supply of pool (a, pl): creation of a pool of that app, the batch
execution of that app (executed deposits / withdrawals), and deposit-and-farm / unfarm-and-withdraw on that pool -/
def touchesSupply (a pl : Nat) : Op → Prop
  | .createPool a' .. => a' = a
  | .endBlock a' .. => a' = a
  | .depositAndFarm a' _ pl' .. => a' = a ∧ pl' = pl
  | .unfarmAndWithdraw a' _ pl' .. => a' = a ∧ pl' = pl
  | _ => False

theorem supply_of_pools {s s' : State} (h : s'.pools = s.pools) (a pl : Nat) : supply s' a pl = supply s a pl := by
  simp [supply, State.pool?, h]

theorem isPool_mod_last (a p : Nat) (x : Pool) (n : Nat) : isPool a p { x with lastDep := n } = isPool a p x := rfl

theorem supply_modPool_same (s : State) (a0 p0 : Nat) (g : Pool → Pool) (hk : ∀ x a p, isPool a p (g x) = isPool a p x)
    (hps : ∀ x, (g x).ps = x.ps) (a pl : Nat) : supply (s.modPool a0 p0 g) a pl = supply s a pl := by
  simp only [supply, State.pool?, State.modPool]
  by_cases he : a0 = a ∧ p0 = pl
  · obtain ⟨rfl, rfl⟩ := he
    rw [findBy_modBy_same (fun x => hk x a0 p0)]
    cases findBy (isPool a0 p0) s.pools with
    | none => rfl
    | some x => simp [hps]
  · rw [findBy_modBy_other (fun x => hk x a pl)]
    intro x hx
    obtain ⟨h1, h2⟩ := isPool_true hx
    cases hq : isPool a pl x with
    | false => rfl
    | true =>
      obtain ⟨g1, g2⟩ := isPool_true hq
      exact absurd ⟨h1.symm.trans g1, h2.symm.trans g2⟩ he

theorem pools_finishOrder {cfg : Cfg} {s s' : State} {k : OKey} {st : OStatus} (h : finishOrder cfg s k st = some s') :
    s'.pools = s.pools := by
  unfold finishOrder at h
  split at h; · cases h
  split at h; · cases h; rfl
  split at h; · cases h
  simp only [] at h
  split at h; · cases h
  rename_i s1 h1
  split at h; · cases h
  rename_i s2 h2
  cases h
  show s2.pools = _
  rw [(State.send_fields h2).2.1, (State.send_fields h1).2.1]

theorem pools_fold {α : Type} {f : State → α → Option State} (hf : ∀ s x s', f s x = some s' → s'.pools = s.pools) :
    ∀ (l : List α) (s s' : State), foldOpt f s l = some s' → s'.pools = s.pools := by
  intro l
  induction l with
  | nil => intro s s' h; simp [foldOpt] at h; subst h; rfl
  | cons x t ih =>
    intro s s' h
    simp only [foldOpt] at h
    cases hx : f s x with
    | none => simp [hx] at h
    | some s1 => simp [hx] at h; rw [ih s1 s' h, hf s x s1 hx]

theorem pools_cancelMMCore {cfg : Cfg} {s s' : State} {app user : Nat} {p : Pair} {skip : Bool}
    (h : cancelMMCore cfg s app user p skip = some s') : s'.pools = s.pools := by
  unfold cancelMMCore at h
  split at h
  · split at h
    · cases h
    · rename_i s1 h1
      cases h
      show s1.pools = _
      refine pools_fold (fun s x s' hs => ?_) _ _ _ h1
      unfold cancelMMStep at hs
      split at hs
      · cases hs; rfl
      · split at hs
        · cases hs
        · split at hs
          · exact pools_finishOrder hs
          · cases hs; rfl
  · split at h
    · cases h; rfl
    · cases h

theorem supply_farm {cfg : Cfg} {s s' : State} {app user pool amt : Nat} {ext : Bool} (h : farm cfg s app user pool amt ext = some s') :
    s'.pools = s.pools := by
  unfold farm at h
  split at h; · cases h
  split at h; · cases h
  split at h; · cases h
  split at h; · cases h
  split at h; · cases h
  rename_i s1 h1
  split at h <;> (cases h; exact (State.send_fields h1).2.1)

theorem supply_unfarm {cfg : Cfg} {s s' : State} {app user pool amt : Nat} {ext : Bool} (h : unfarm cfg s app user pool amt ext = some s') :
    s'.pools = s.pools := by
  unfold unfarm at h
  split at h; · cases h
  split at h; · cases h
  split at h; · cases h
  split at h; · cases h
  split at h; · cases h
  split at h; · cases h
  simp only [] at h
  split at h; · cases h
  split at h; · cases h
  rename_i s1 h1
  cases h
  exact (State.send_fields h1).2.1


theorem supply_modPool_other (s : State) (a0 p0 : Nat) (g : Pool → Pool) (hk : ∀ x a p, isPool a p (g x) = isPool a p x)
    (a pl : Nat) (hne : ¬ (a0 = a ∧ p0 = pl)) : supply (s.modPool a0 p0 g) a pl = supply s a pl := by
  simp only [supply, State.pool?, State.modPool]
  rw [findBy_modBy_other (fun x => hk x a pl)]
  intro x hx
  obtain ⟨h1, h2⟩ := isPool_true hx
  cases hq : isPool a pl x with
  | false => rfl
  | true =>
    obtain ⟨g1, g2⟩ := isPool_true hq
    exact absurd ⟨h1.symm.trans g1, h2.symm.trans g2⟩ hne

theorem pools_failDep {s s' : State} {r : DepReq} (h : failDep s r = some s') : s'.pools = s.pools := by
  unfold failDep at h
  split at h; · cases h
  rename_i s1 h1
  split at h; · cases h
  rename_i s2 h2
  cases h
  show s2.pools = _
  rw [(State.send_fields h2).2.1, (State.send_fields h1).2.1]

theorem pools_failWdr {s s' : State} {r : WdrReq} (h : failWdr s r = some s') : s'.pools = s.pools := by
  unfold failWdr at h
  split at h; · cases h
  rename_i s1 h1
  cases h
  exact (State.send_fields h1).2.1

theorem supply_execDeposit_other {s s' : State} {a' pl' i ax ay pc : Nat} (a pl : Nat) (hne : ¬ (a' = a ∧ pl' = pl))
    (h : execDeposit s a' pl' i ax ay pc = some s') : supply s' a pl = supply s a pl := by
  have hd : supply (s.modPool a' pl' fun q => { q with disabled := true }) a pl = supply s a pl :=
    (by apply supply_modPool_other <;> first | exact hne | (intros; rfl))
  unfold execDeposit at h
  split at h; · cases h
  split at h; · cases h; rfl
  split at h; · cases h
  split at h; · exact supply_of_pools (pools_failDep h) a pl
  split at h; · cases h
  split at h; · exact (supply_of_pools (pools_failDep h) a pl).trans hd
  split at h; · exact supply_of_pools (pools_failDep h) a pl
  split at h; · cases h
  simp only [] at h
  split at h; · cases h
  rename_i s2 h2
  split at h; · cases h
  rename_i s3 h3
  split at h; · cases h
  rename_i s4 h4
  split at h; · cases h
  rename_i s5 h5
  split at h; · cases h
  rename_i s6 h6
  cases h
  have hm : supply (s.mint a' pl' pc) a pl = supply s a pl := by
    have : (s.mint a' pl' pc).pools = (s.modPool a' pl' fun q => { q with ps := q.ps + pc }).pools := rfl
    rw [supply_of_pools this]
    exact (by apply supply_modPool_other <;> first | exact hne | (intros; rfl))
  rw [← hm]
  apply supply_of_pools
  show s6.pools = _
  rw [(State.send_fields h6).2.1, (State.send_fields h5).2.1, (State.send_fields h4).2.1, (State.send_fields h3).2.1, (State.send_fields h2).2.1]

theorem supply_with_bank (s : State) (b : Bank) (a pl : Nat) : supply { s with bank := b } a pl = supply s a pl := rfl

theorem supply_burn_other {s s' : State} {a' pl' n : Nat} (a pl : Nat) (hne : ¬ (a' = a ∧ pl' = pl))
    (h : s.burn a' pl' n = some s') : supply s' a pl = supply s a pl := by
  unfold State.burn at h
  split at h
  · split at h; · cases h
    split at h
    · cases h
      refine (supply_with_bank _ _ a pl).trans ?_
      apply supply_modPool_other <;> first | exact hne | (intros; rfl)
    · cases h
  · cases h

theorem supply_execWithdraw_other {s s' : State} {a' pl' i x y : Nat} (a pl : Nat) (hne : ¬ (a' = a ∧ pl' = pl))
    (h : execWithdraw s a' pl' i x y = some s') : supply s' a pl = supply s a pl := by
  have hd : ∀ t : State, supply (t.modPool a' pl' fun q => { q with disabled := true }) a pl = supply t a pl :=
    fun t => (by apply supply_modPool_other <;> first | exact hne | (intros; rfl))
  unfold execWithdraw at h
  split at h; · cases h
  rename_i r hr
  split at h; · cases h; rfl
  split at h; · cases h
  rename_i q hq
  split at h; · exact supply_of_pools (pools_failWdr h) a pl
  split at h; · cases h
  split at h; · exact (supply_of_pools (pools_failWdr h) a pl).trans (hd s)
  split at h; · exact supply_of_pools (pools_failWdr h) a pl
  split at h; · cases h
  rename_i s1 h1
  split at h; · cases h
  rename_i s2 h2
  split at h; · cases h
  rename_i s3 h3
  split at h; · cases h
  rename_i s4 h4
  cases h
  have h34 : supply s4 a pl = supply s3 a pl := supply_burn_other a pl hne h4
  have h03 : supply s3 a pl = supply s a pl :=
    supply_of_pools (by rw [(State.send_fields h3).2.1, (State.send_fields h2).2.1, (State.send_fields h1).2.1]) a pl
  have h5 : supply (if r.pc = q.ps then s4.modPool a' pl' fun q => { q with disabled := true } else s4) a pl = supply s4 a pl := by
    split
    · exact hd s4
    · rfl
  exact ((supply_of_pools rfl a pl).trans h5).trans (h34.trans h03)

theorem supply_fold_mem {α : Type} {f : State → α → Option State} (a pl : Nat) :
    ∀ (l : List α), (∀ s x s', x ∈ l → f s x = some s' → supply s' a pl = supply s a pl) →
    ∀ (s s' : State), foldOpt f s l = some s' → supply s' a pl = supply s a pl := by
  intro l
  induction l with
  | nil => intro _ s s' h; simp [foldOpt] at h; subst h; rfl
  | cons x t ih =>
    intro hf s s' h
    simp only [foldOpt] at h
    cases hx : f s x with
    | none => simp [hx] at h
    | some s1 =>
      simp [hx] at h
      rw [ih (fun s y s' hy => hf s y s' (by simp [hy])) s1 s' h, hf s x s1 (by simp) hx]

theorem findBy_map_ps (p : Pool → Bool) (g : Pool → Pool) (hk : ∀ x, p (g x) = p x) (hps : ∀ x, (g x).ps = x.ps) (l : List Pool) :
    (findBy p (l.map g)).map (·.ps) = (findBy p l).map (·.ps) := by
  induction l with
  | nil => rfl
  | cons x t ih =>
    by_cases hx : p x = true
    · simp [findBy, hk, hx, hps]
    · simp [findBy, hk, hx, ih]

theorem supply_markDepleted (s : State) (p : Pair) (a pl : Nat) : supply (markDepleted s p) a pl = supply s a pl := by
  simp only [supply, State.pool?, markDepleted]
  have := findBy_map_ps (isPool a pl)
    (fun q => if (q.app == p.app && q.pair == p.id && !q.disabled && depleted s p q) = true then { q with disabled := true } else q)
    (fun x => by split <;> rfl) (fun x => by split <;> rfl) s.pools
  rw [this]

theorem pools_prePass {cfg : Cfg} {s s' : State} {k : OKey} (h : prePass cfg s k = some s') : s'.pools = s.pools := by
  unfold prePass at h
  split at h; · cases h
  split at h
  · cases h; rfl
  · split at h
    · exact pools_finishOrder h
    · cases h; rfl
  · split at h
    · exact pools_finishOrder h
    · cases h; rfl
  · cases h; rfl
  · cases h

theorem pools_send_credit {s s1 : State} {f t a : Acct} {d d' : Denom} {n m : Nat} (h : s.send f t d n = some s1) :
    (s1.credit a d' m).pools = s.pools := (State.send_fields h).2.1

theorem pools_applyMatch {cfg : Cfg} {s s' : State} {p : Pair} {m : MatchIn} (h : applyMatch cfg s p m = some s') :
    s'.pools = s.pools := by
  unfold applyMatch at h
  split at h; · cases h
  rename_i s1 h1
  split at h; · cases h
  rename_i s2 h2
  split at h; · cases h
  rename_i s3 h3
  split at h; · cases h
  rename_i s4 h4
  split at h; · cases h
  rename_i s5 h5
  cases h
  have e1 : s1.pools = s.pools := by
    refine pools_fold (fun s x s' hs => ?_) _ _ _ h1
    unfold poolPayIn at hs
    simp only [] at hs
    split at hs; · cases hs
    rename_i t ht; cases hs; exact pools_send_credit ht
  have e2 : s2.pools = s1.pools := by
    refine pools_fold (fun s x s' hs => ?_) _ _ _ h2
    unfold fillOrder at hs
    simp only [] at hs
    split at hs; · cases hs
    split at hs; · cases hs
    split at hs
    · exact (pools_finishOrder hs).trans rfl
    · cases hs; rfl
  have e3 : s3.pools = s2.pools := by
    refine pools_fold (fun s x s' hs => ?_) _ _ _ h3
    unfold fillPayOut at hs
    simp only [] at hs
    split at hs; · cases hs
    split at hs; · cases hs
    rename_i t ht; cases hs; exact pools_send_credit ht
  have e4 : s4.pools = s3.pools := by
    refine pools_fold (fun s x s' hs => ?_) _ _ _ h4
    unfold poolPayOut at hs
    simp only [] at hs
    split at hs; · cases hs
    rename_i t ht; cases hs; exact pools_send_credit ht
  show (s5.credit _ _ _).pools = _
  rw [pools_send_credit h5, e4, e3, e2, e1]

theorem supply_execMatching {cfg : Cfg} {ms : List MatchIn} {s s' : State} {pk : Nat × Nat} (a pl : Nat)
    (h : execMatching cfg ms s pk = some s') : supply s' a pl = supply s a pl := by
  unfold execMatching at h
  split at h; · cases h
  rename_i p hp
  simp only [] at h
  split at h; · cases h
  rename_i s1 h1
  split at h; · cases h
  rename_i s3 h3
  cases h
  have e1 : s1.pools = s.pools := pools_fold (fun s x s' hs => pools_prePass hs) _ _ _ h1
  have e3 := pools_applyMatch h3
  calc supply (s3.modPair p.app p.id _) a pl = supply s3 a pl := rfl
    _ = supply (markDepleted s1 p) a pl := supply_of_pools e3 a pl
    _ = supply s1 a pl := supply_markDepleted s1 p a pl
    _ = supply s a pl := supply_of_pools e1 a pl

theorem pools_sweep {cfg : Cfg} {s s' : State} {k : OKey} (h : sweep cfg s k = some s') : s'.pools = s.pools := by
  unfold sweep at h
  split at h; · cases h
  split at h
  · exact pools_finishOrder h
  · split at h
    · exact pools_finishOrder h
    · cases h; rfl

theorem supply_endBlock_other {cfg : Cfg} {s s' : State} {a' : Nat} {ms : List MatchIn} {dins : List DepIn} {wins : List WdrIn}
    (a pl : Nat) (hne : a' ≠ a) (h : endBlock cfg s a' ms dins wins = some s') : supply s' a pl = supply s a pl := by
  unfold endBlock at h
  split at h; · cases h
  split at h; · cases h; rfl
  simp only [] at h
  split at h; · cases h
  rename_i s1 h1
  split at h; · cases h
  rename_i s2 h2
  split at h; · cases h
  rename_i s3 h3
  split at h; · cases h
  rename_i s4 h4
  cases h
  have e1 := supply_fold_mem a pl _ (fun s x s' _ hs => supply_execMatching a pl hs) _ _ h1
  have e2 : supply s2 a pl = supply s1 a pl := supply_of_pools (pools_fold (fun s x s' hs => pools_sweep hs) _ _ _ h2) a pl
  have e3 := supply_fold_mem (f := execDepStep dins) a pl _ (fun s x s' hx hs => by
    unfold execDepStep at hs
    simp only [List.mem_map, List.mem_filter] at hx
    obtain ⟨r, ⟨_, hr⟩, rfl⟩ := hx
    have hra : r.app = a' := by simpa using hr
    exact supply_execDeposit_other a pl (fun hh => hne (hra.symm.trans hh.1)) hs) _ _ h3
  have e4 := supply_fold_mem (f := execWdrStep wins) a pl _ (fun s x s' hx hs => by
    unfold execWdrStep at hs
    simp only [List.mem_map, List.mem_filter] at hx
    obtain ⟨r, ⟨_, hr⟩, rfl⟩ := hx
    have hra : r.app = a' := by simpa using hr
    exact supply_execWithdraw_other a pl (fun hh => hne (hra.symm.trans hh.1)) hs) _ _ h4
  show supply (processQueued cfg s4 a') a pl = _
  calc supply (processQueued cfg s4 a') a pl = supply s4 a pl := rfl
    _ = supply s a pl := by rw [e4, e3, e2, e1]

theorem supply_frame_deposit {cfg : Cfg} {s s1 : State} {a' u p dx dy : Nat} {e : Bool} {id : Nat} (a pl : Nat)
    (hd : depositReq cfg s a' u p dx dy e = some (s1, id)) : supply s1 a pl = supply s a pl := by
  unfold depositReq at hd
  split at hd; · cases hd
  split at hd; · cases hd
  split at hd; · cases hd
  split at hd; · cases hd
  split at hd; · cases hd
  split at hd; · cases hd
  split at hd; · cases hd
  rename_i s1' h1
  split at hd; · cases hd
  rename_i s2 h2
  simp only [Option.some.injEq, Prod.mk.injEq] at hd
  obtain ⟨hd, -⟩ := hd
  subst hd
  have : supply s2 a pl = supply s a pl := supply_of_pools (by rw [(State.send_fields h2).2.1, (State.send_fields h1).2.1]) a pl
  rw [← this]
  refine (supply_of_pools (s := s2.modPool a' p fun q => { q with lastDep := _ }) rfl a pl).trans ?_
  apply supply_modPool_same <;> intros <;> rfl

theorem supply_frame_withdraw {cfg : Cfg} {s s1 : State} {a' u p pc : Nat} {e : Bool} {id : Nat} (a pl : Nat)
    (hd : withdrawReq cfg s a' u p pc e = some (s1, id)) : supply s1 a pl = supply s a pl := by
  unfold withdrawReq at hd
  split at hd; · cases hd
  split at hd; · cases hd
  split at hd; · cases hd
  split at hd; · cases hd
  split at hd; · cases hd
  split at hd; · cases hd
  rename_i s1' h1
  simp only [Option.some.injEq, Prod.mk.injEq] at hd
  obtain ⟨hd, -⟩ := hd
  subst hd
  have : supply s1' a pl = supply s a pl := supply_of_pools (State.send_fields h1).2.1 a pl
  rw [← this]
  refine (supply_of_pools (s := s1'.modPool a' p fun q => { q with lastWdr := _ }) rfl a pl).trans ?_
  apply supply_modPool_same <;> intros <;> rfl

/-- Pool-coin supply changes only by pool creation and by deposits / withdrawals executed against that pool:
every other message and block hook leaves the recorded supply of every pool untouched. -/
theorem supply_frame {cfg : Cfg} {s s' : State} {op : Op} (a pl : Nat) (h : step cfg s op = some s')
    (hn : ¬ touchesSupply a pl op) : supply s' a pl = supply s a pl := by
  cases op with
  | block ht t => simp only [step, Option.some.injEq] at h; subst h; rfl
  | createPair a' c b q e =>
    apply supply_of_pools
    simp only [step] at h
    unfold createPair at h
    split at h; · cases h
    split at h; · cases h
    split at h; · cases h
    split at h; · cases h
    split at h; · cases h
    rename_i s1 h1
    cases h
    exact (State.send_fields h1).2.1
  | createPool a' c p r dx dy ps e =>
    simp only [touchesSupply] at hn
    simp only [step] at h
    unfold createPool at h
    split at h; · cases h
    split at h; · cases h
    split at h; · cases h
    split at h; · cases h
    simp only [] at h
    split at h; · cases h
    split at h; · cases h
    split at h; · cases h
    split at h; · cases h
    split at h; · cases h
    rename_i s1 h1
    split at h; · cases h
    rename_i s2 h2
    split at h; · cases h
    rename_i s3 h3
    have f4 := State.send_fields h
    simp only [supply, State.pool?, f4.2.1]
    show ((findBy (isPool a pl) (s3.pools ++ [_])).map _).getD 0 = _
    rw [(State.send_fields h3).2.1, (State.send_fields h2).2.1, (State.send_fields h1).2.1, findBy_append]
    cases hx : findBy (isPool a pl) s.pools with
    | some x => rfl
    | none =>
      have : ¬ (a' = a ∧ (s.pools.filter (·.app == a')).length + 1 = pl) := fun hh => hn hh.1
      simp [findBy, isPool, this]
  | deposit a' u p dx dy e =>
    simp only [step] at h
    cases hd : depositReq cfg s a' u p dx dy e with
    | none => simp [hd] at h
    | some r =>
      obtain ⟨s1, id⟩ := r; simp [hd] at h; subst h
      unfold depositReq at hd
      split at hd; · cases hd
      split at hd; · cases hd
      split at hd; · cases hd
      split at hd; · cases hd
      split at hd; · cases hd
      split at hd; · cases hd
      split at hd; · cases hd
      rename_i s1' h1
      split at hd; · cases hd
      rename_i s2 h2
      simp only [Option.some.injEq, Prod.mk.injEq] at hd
      obtain ⟨hd, -⟩ := hd
      subst hd
      have : supply s2 a pl = supply s a pl := supply_of_pools (by rw [(State.send_fields h2).2.1, (State.send_fields h1).2.1]) a pl
      rw [← this]
      refine (supply_of_pools (s := s2.modPool a' p fun q => { q with lastDep := _ }) rfl a pl).trans ?_
      apply supply_modPool_same <;> intros <;> rfl
  | withdraw a' u p pc e =>
    simp only [step] at h
    cases hd : withdrawReq cfg s a' u p pc e with
    | none => simp [hd] at h
    | some r =>
      obtain ⟨s1, id⟩ := r; simp [hd] at h; subst h
      unfold withdrawReq at hd
      split at hd; · cases hd
      split at hd; · cases hd
      split at hd; · cases hd
      split at hd; · cases hd
      split at hd; · cases hd
      split at hd; · cases hd
      rename_i s1' h1
      simp only [Option.some.injEq, Prod.mk.injEq] at hd
      obtain ⟨hd, -⟩ := hd
      subst hd
      have : supply s1' a pl = supply s a pl := supply_of_pools (State.send_fields h1).2.1 a pl
      rw [← this]
      refine (supply_of_pools (s := s1'.modPool a' p fun q => { q with lastWdr := _ }) rfl a pl).trans ?_
      apply supply_modPool_same <;> intros <;> rfl
  | order a' u p t b od dd mo mp am l =>
    apply supply_of_pools
    simp only [step] at h
    obtain ⟨_, _, h⟩ := placeOrderMsg_core h
    unfold placeOrder at h
    split at h; · cases h
    split at h; · cases h
    split at h; · cases h
    split at h; · cases h
    split at h; · cases h
    simp only [] at h
    split at h; · cases h
    split at h; · cases h
    split at h; · cases h
    split at h; · cases h
    split at h; · cases h
    split at h; · cases h
    rename_i s1 h1
    cases h
    exact (State.send_fields h1).2.1
  | mmOrder a' u p xs ns sa xb nb ba l =>
    apply supply_of_pools
    simp only [step] at h
    obtain ⟨_, _, h⟩ := mmOrderMsg_core h
    unfold mmOrder at h
    split at h; · cases h
    split at h; · cases h
    split at h; · cases h
    split at h; · cases h
    simp only [] at h
    split at h; · cases h
    split at h; · cases h
    split at h; · cases h
    split at h; · cases h
    rename_i s1 hc1
    split at h; · cases h
    rename_i s2 h2
    split at h; · cases h
    rename_i s3 h3
    cases h
    show s3.pools = _
    rw [(State.send_fields h3).2.1, (State.send_fields h2).2.1, pools_cancelMMCore hc1]
  | cancel a' u p i =>
    apply supply_of_pools
    simp only [step] at h
    unfold cancelOrder at h
    split at h; · cases h
    split at h; · cases h
    split at h; · cases h
    split at h; · cases h
    split at h; · cases h
    split at h; · cases h
    split at h; · cases h
    exact pools_finishOrder h
  | cancelAll a' u ps =>
    apply supply_of_pools
    simp only [step] at h
    unfold cancelAll at h
    split at h; · cases h
    split at h; · cases h
    split at h; · cases h
    refine pools_fold (fun s x s' hs => ?_) _ _ _ h
    unfold cancelAllStep at hs
    split at hs
    · cases hs; rfl
    · split at hs
      · split at hs
        · cases hs; rfl
        · split at hs
          · exact pools_finishOrder hs
          · cases hs; rfl
      · cases hs; rfl
  | cancelMM a' u p =>
    apply supply_of_pools
    simp only [step] at h
    unfold cancelMM at h
    split at h; · cases h
    split at h; · cases h
    exact pools_cancelMMCore h
  | farm a' u p n e => exact supply_of_pools (supply_farm h) a pl
  | unfarm a' u p n e => exact supply_of_pools (supply_unfarm h) a pl
  | depositAndFarm a' u p dx dy ax ay pc e =>
    simp only [touchesSupply] at hn
    simp only [step] at h
    unfold depositAndFarm at h
    split at h; · cases h
    rename_i s1 id h1
    split at h; · cases h
    rename_i s2 h2
    split at h; · cases h
    split at h; · cases h
    have e1 : supply s1 a pl = supply s a pl := by
      have := supply_frame_deposit a pl h1
      exact this
    rw [supply_of_pools (supply_farm h) a pl, supply_execDeposit_other a pl hn h2, e1]
  | unfarmAndWithdraw a' u p n x y e =>
    simp only [touchesSupply] at hn
    simp only [step] at h
    unfold unfarmAndWithdraw at h
    split at h; · cases h
    rename_i s1 h1
    split at h; · cases h
    rename_i s2 id h2
    rw [supply_execWithdraw_other a pl hn h, supply_frame_withdraw a pl h2, supply_of_pools (supply_unfarm h1) a pl]
  | endBlock a' ms ds ws =>
    simp only [touchesSupply] at hn
    exact supply_endBlock_other a pl hn h
  | beginBlock a' => simp only [step, Option.some.injEq] at h; subst h; rfl
  | migrate =>
    simp only [step] at h
    unfold migrate at h
    split at h
    · cases h
      unfold supply State.pool?
      show (Option.map _ (findBy (isPool a pl) (s.pools.map _))).getD 0 = _
      rw [findBy_map_ps]
      · intro x; split <;> rfl
      · intro x; split <;> rfl
    · cases h

end Comdex.LiqLedger
